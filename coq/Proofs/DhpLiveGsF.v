(** * DhpLiveGsF: the programs of LV.Proofs.DhpProgB4 (smr::help_scan, smr::free_thread_data) and LV.Proofs.DhpMainC (every
      client operation, threads) under the paired invariant [InvS] of DhpLiveGsC, and the initial configuration.  Same text
      as the originals, with the [JS] obligation added at every node that changes the ghost state. *)
From Coq Require Import ZArith NArith List String Bool Lia PeanoNat.
From LV Require Import Base.Conc Base.Events Model.DhpLang Model.Dhp Proofs.DhpBase Proofs.DhpSeq Proofs.DhpSeqThm Proofs.DhpHist
  Proofs.DhpLangProofs Proofs.DhpAllocA Proofs.DhpInvB Proofs.DhpQuietB Proofs.DhpQuietB2 Proofs.DhpRulesB Proofs.DhpStepsB1 Proofs.DhpStepsB2
  Proofs.DhpStepsB3 Proofs.DhpStepsB4 Proofs.DhpStepsB5 Proofs.DhpStepsB6 Proofs.DhpStepsB7 Proofs.DhpStepsB8 Proofs.DhpStepsB9 Proofs.DhpStepsB10
  Proofs.DhpProgB1 Proofs.DhpProgB2 Proofs.DhpProgB3 Proofs.DhpProgB4 Proofs.DhpMainC Proofs.DhpProofsC02 Proofs.DhpProofsC03b
  Proofs.DhpLiveGsC Proofs.DhpLiveGsD Proofs.DhpLiveGsE.
Import ListNotations.

(** thread_id_.store( null ): the owner list shrinks; one access event *)
Ltac js_rm t := let J := fresh "J" in let HS := fresh "HS" in let u := fresh "u" in let r0 := fresh "r0" in let Hin := fresh "Hin" in
  intros _ J HS; eapply JS_frame; [ | | eapply JS_ext; [ | exact HS ] ];
  [ intros; reflexivity
  | intros u r0; cbn; unfold fn; destruct (Nat.eqb_spec u t) as [->|]; cbn; rewrite ?Nat.eqb_refl; cbn; auto; intros Hin; apply in_remove in Hin; apply Hin
  | js_nodisp ].

Section ProgS4.
  Variable c : cfg.
  Notation RB := (c_RB c).
  Hypothesis HRB : 4 <= RB.
  Hypothesis Hold : c_old c = false.
  Hypothesis Htail : c_oldtail c = false.
  Let HRB1 : 1 <= RB. Proof. lia. Qed.

  Lemma help_recs_specS t me (Q : option unit -> VB -> Prop) : forall fuel node l,
    idle l -> In me (vb_own l) -> (forall h, node = Some h -> vb_node l = Some h) ->
    (forall l', idle l' -> In me (vb_own l') -> Q (Some tt) l') -> (forall l', Q None l') ->
    dsafeS c t (help_recs c fuel me (S t) node) l Q.
  Proof.
    induction fuel as [|fuel IH]; intros node l Hi Hme Hn HQ HN; destruct node as [h|]; cbn [help_recs].
    - apply dsafeS_fuel_out. apply HN.
    - apply dsafeS_ret. apply HQ; auto.
    - specialize (Hn h eq_refl). cbn zeta.
      assert (Hcont : forall l1, idle l1 -> In me (vb_own l1) -> vb_node l1 = Some h ->
                dsafeS c t (xbind (loc (fun g => (g, r_next (grec g h)))) (fun nx => help_recs c fuel me (S t) nx)) l1 Q).
      { intros l1 Hi1 Hme1 Hn1. apply dsafeS_xloc. intros g a tr Hv. unfold viewB in Hv.
        exists (setv a t (set_node (bvs a t) (r_next (grec g h)))). split; [eapply frame_bvs; reflexivity|]. split.
        - intros J. apply S_node; auto. intros n En. eapply JB_tl_next; eauto. destruct J as [[_ O2 _ _ _] _ _ _]. apply (O2 t). rewrite Hv. exact Hn1.
        - split; [js_loc t|]. unfold viewB. cbn [bvs setv fst snd]. rewrite fn_same, Hv. apply IH; auto. }
      destruct (Nat.eqb h me) eqn:Ehm; [apply Hcont; auto|]. apply Nat.eqb_neq in Ehm.
      apply dsafeS_xact_q; [apply qB_ld_free|]. intros fr. destruct fr; [apply Hcont; auto|].
      apply dsafeS_xact_q; [apply qB_ld_tid|]. intros owner. destruct (negb (owner =? 0)); [apply Hcont; auto|].
      apply dsafeS_xact. intros g a tr Hv. unfold viewB in Hv. unfold a_cas_tid. destruct (Nat.eqb_spec (r_tid (grec g h)) 0) as [E|E]; cbn [fst snd negb].
      + exists (setv a t (set_own (bvs a t) (h :: vb_own (bvs a t)))). split; [eapply frame_bvs; reflexivity|]. split.
        { intros _ _ J. apply JB_quiet_ev; [apply qev_acc|]. apply S_cas_ok; auto. rewrite Hv. exact Hn. }
        split; [js_own KCas h|].
        unfold viewB. cbn [bvs setv]. rewrite fn_same, Hv. clear E g a tr Hv.
        pose proof Hi as (I1 & I2 & I3 & I4 & I5 & I6 & I7 & I8 & I9).
        set (l1 := set_own l (h :: vb_own l)).
        apply dsafeS_xact_q; [apply qB_faa_sync|]. intros _.
        apply dsafeS_xloc. intros g a tr Hv. unfold viewB in Hv.
        exists (setv a t (set_move (bvs a t) (Some (h, r_head (grec g h))))). split; [eapply frame_bvs; reflexivity|]. split.
        { intros J. apply S_move_start; auto; rewrite Hv; cbn; auto. }
        split; [js_loc t|].
        unfold viewB. cbn [bvs setv fst snd]. rewrite fn_same, Hv. generalize (r_head (grec g h)) as hd. clear g a tr Hv. intros hd.
        apply dsafeS_xbind. eapply (move_blocks_specS c HRB Hold) with (src := h); [exact Ehm|reflexivity|exact I8| | |intros; apply HN].
        { constructor; cbn; auto. }
        intros ob'. cbn beta iota. apply dsafeS_xbind. apply rt_fini_specS; cbn [vb_own vb_limbo vb_blk vb_dead vb_cur vb_full vb_move set_move set_own]; auto.
        all: try solve [intros r0 ob0 E0; inversion E0; reflexivity].
        all: try solve [intros; apply HN].
        { unfold l1. cbn. now left. }
        apply dsafeS_xact_q; [apply qB_st_free|]. intros _.
        apply dsafeS_xact. intros g a tr Hv. unfold viewB in Hv.
        exists (setv a t (set_own (bvs a t) (remove Nat.eq_dec h (vb_own (bvs a t))))). split; [eapply frame_bvs; reflexivity|]. split.
        { intros _ _ J. apply JB_quiet_ev; [apply qev_acc|]. apply S_sttid0; auto; rewrite Hv; cbn; auto; congruence. }
        split; [js_rm t|].
        unfold viewB. cbn [bvs setv fst snd a_st_tid]. rewrite fn_same, Hv. clear g a tr Hv.
        apply Hcont; cbn.
        * unfold idle in *. cbn. tauto.
        * destruct (Nat.eq_dec h h) as [_|X]; [|congruence]. apply in_in_remove; auto.
        * exact Hn.
      + exists a. split; [apply frame_refl|]. split; [intros _ _ J; apply JB_quiet_ev; [apply qev_acc|exact J]|].
        split; [js_same|].
        unfold viewB. rewrite Hv. apply Hcont; auto.
    - apply dsafeS_ret. apply HQ; auto.
  Qed.

  Lemma help_scan_specS t me l (Q : option unit -> VB -> Prop) :
    idle l -> In me (vb_own l) -> (forall l', idle l' -> In me (vb_own l') -> Q (Some tt) l') -> (forall l', Q None l') ->
    dsafeS c t (help_scan c me (S t)) l Q.
  Proof.
    intros Hi Hme HQ HN. unfold help_scan.
    apply dsafeS_xact. intros g a tr Hv. unfold viewB in Hv. exists (setv a t (set_node (bvs a t) (tlist g))). split; [eapply frame_bvs; reflexivity|]. split.
    { intros _ _ J. apply S_node; [|apply JB_quiet_ev; [apply qev_acc|exact J]]. intros h E. eapply JB_tl_head; eauto. }
    split; [js_ev t|].
    unfold viewB. cbn [bvs setv fst snd a_ld_tlist]. rewrite fn_same, Hv. generalize (tlist g) as node. clear g a tr Hv. intros node.
    apply dsafeS_xbind. apply help_recs_specS; auto; try (apply idle_set_node; exact Hi).
    intros l' Hi' Hme'. cbn beta iota. pose proof Hi' as (I1 & I2 & I3 & I4 & I5 & I6 & I7 & I8 & I9).
    apply scan_specS; auto; try congruence. apply HQ; [unfold idle in *; cbn; tauto|exact Hme'].
  Qed.

  Lemma trunc_go_specS t r (Q : option unit -> VB -> Prop) : forall fuel p l lb,
    vb_limbo l = Some (p, lb) -> vb_blk l = None -> (forall x, Q (Some tt) (set_limbo l x)) -> (forall l', Q None l') ->
    dsafeS c t (trunc_go c r fuel p) l Q.
  Proof.
    induction fuel as [|fuel IH]; intros p l lb Hl Hb HQ HN; destruct p as [b|]; cbn [trunc_go].
    - apply dsafeS_fuel_out. apply HN.
    - assert (E : l = set_limbo l (vb_limbo l)) by (destruct l; reflexivity). rewrite E. apply HQ.
    - apply dsafeS_xloc. intros g a tr Hv. unfold viewB in Hv.
      exists (setv a t (set_blk (set_limbo (bvs a t) (Some (rb_next (grb g b), List.tl lb))) (Some (b, false)))).
      split; [eapply frame_bvs; reflexivity|]. split; [intros J; apply S_rdnext; auto; rewrite Hv; auto|].
      split; [js_loc t|].
      unfold viewB. cbn [bvs setv fst snd]. rewrite fn_same, Hv. generalize (rb_next (grb g b)) as nx. clear g a tr Hv. intros nx.
      apply dsafeS_xbind. eapply rt_free_specS; [reflexivity| |apply HN]. cbn beta iota.
      apply dsafeS_xloc_q; [intros g; apply piB_upd_rec; intros []; repeat split; reflexivity|]. intros _.
      eapply IH; [reflexivity|reflexivity| |apply HN]. intros x.
      assert (E : set_limbo (set_blk (set_blk (set_limbo l (Some (nx, List.tl lb))) (Some (b, false))) None) x = set_limbo l x)
        by (destruct l; cbn in *; subst; reflexivity).
      rewrite E. apply HQ.
    - assert (E : l = set_limbo l (vb_limbo l)) by (destruct l; reflexivity). rewrite E. apply HQ.
  Qed.

  Lemma free_thread_data_specS t l r help det (Q : option unit -> VB -> Prop) :
    idle l -> In r (vb_own l) -> Forall qevB det -> (forall l', idle l' -> Q (Some tt) l') -> (forall l', Q None l') ->
    dsafeS c t (free_thread_data c r (S t) help det) l Q.
  Proof.
    intros Hi Hr Hdet HQ HN. unfold free_thread_data.
    pose proof Hi as (I1 & I2 & I3 & I4 & I5 & I6 & I7 & I8 & I9).
    apply dsafeS_quiet_seq; [apply qB_hp_clear; exact Hdet|apply HN|]. intros _.
    apply dsafeS_xbind. apply scan_specS; auto; try congruence. cbn beta iota.
    assert (E0 : set_full l None = l) by (destruct l; cbn in *; subst; reflexivity). rewrite E0.
    (* the last store, for any view that is idle up to a leftover private chain *)
    assert (Hlast : forall l2, In r (vb_own l2) -> idle (set_limbo l2 None) -> dsafeS c t (act (a_st_tid r 0)) l2 Q).
    { intros l2 Hr2 Hi2. pose proof Hi2 as (J1 & J2 & J3 & J4 & J5 & J6 & J7 & J8 & J9). cbn in J1, J2, J4, J5, J6, J7, J8, J9.
      apply dsafeS_act_J. intros g a tr Hv. unfold viewB in Hv.
      set (a1 := setv a t (set_own (bvs a t) (remove Nat.eq_dec r (vb_own (bvs a t))))).
      exists (setv a1 t (set_limbo (bvs a1 t) None)). split.
      { intros t' Ht. unfold viewB. cbn. now rewrite !fn_other by exact Ht. }
      split.
      { intros _ _ J. apply JB_quiet_ev; [apply qev_acc|]. apply S_limbo_none. apply S_sttid0; auto; rewrite Hv; auto; congruence. }
      split.
      { unfold a1. js_rm t. }
      unfold viewB, a1. cbn [bvs setv fst snd a_st_tid]. rewrite !fn_same, Hv. apply HQ. unfold idle in *. cbn. tauto. }
    assert (Hmid : forall l1, idle l1 -> In r (vb_own l1) ->
              dsafeS c t (xbind (loc (fun g => (g, rt_empty g r))) (fun e =>
                 xbind (if e then xbind (rt_fini c r) (fun _ => act (a_st_free r true))
                        else xbind (loc (trunc_f c r)) (fun fb => trunc_go c r (c_spin c) fb)) (fun _ => act (a_st_tid r 0)))) l1 Q).
    { intros l1 Hi1 Hr1. pose proof Hi1 as (J1 & J2 & J3 & J4 & J5 & J6 & J7 & J8 & J9).
      apply dsafeS_xloc_q; [intros; apply piB_refl|]. intros e. apply dsafeS_xbind. destruct e.
      - apply dsafeS_xbind. apply rt_fini_specS; auto.
        all: try solve [intros r0 ob0 E; congruence].
        cbn beta iota.
        assert (E1 : set_move l1 None = l1) by (destruct l1; cbn in *; subst; reflexivity). rewrite E1.
        apply dsafeS_act_quiet; [apply qB_st_free|]. intros []. cbn beta iota. apply Hlast; auto. unfold idle in *. cbn. tauto.
      - apply dsafeS_xloc. intros g a tr Hv. unfold viewB in Hv. exists (aux_trunc a t r g (snd (trunc_f c r g))).
        split; [eapply frame_bvs; reflexivity|]. split.
        { intros J. apply S_truncate; auto; rewrite Hv; auto; congruence. }
        split; [js_loc t|].
        unfold viewB. cbn [bvs aux_trunc]. rewrite fn_same, Hv. generalize (skipn (trunc_k a r g) (rch a r)) as lb. generalize (snd (trunc_f c r g)) as fb.
        clear g a tr Hv. intros fb lb.
        eapply trunc_go_specS; [reflexivity|exact J2| |intros; apply HN]. intros x. cbn beta iota.
        apply Hlast; cbn; auto; unfold idle in *; cbn; tauto. }
    apply dsafeS_xbind. destruct help.
    - apply help_scan_specS; auto.
    - apply dsafeS_ret. cbn beta iota. apply Hmid; auto.
  Qed.
End ProgS4.

Section MainS.
  Variable c : cfg.
  Notation RB := (c_RB c).
  Hypothesis HRB : 4 <= RB.
  Hypothesis Hold : c_old c = false.

  Lemma dsafeS_inv {Y} t code args (q : P Y) l Q : code <> 9 -> dsafeS c t q l Q -> dsafeS c t (inv code args ;;; q) l Q.
  Proof. intros H Hq. unfold inv. apply dsafeS_xemit_q; [apply (qev_inv c HRB); exact H|exact Hq]. Qed.
  Lemma dsafeS_rsp_ret t v L l : Rel L l -> dsafeS c t (rsp v ;;; ret L) l Qop.
  Proof. intros H. unfold rsp. apply dsafeS_xemit_q; [apply qev_rsp|]. exact H. Qed.
  Lemma dsafeS_skip_ret t L l : Rel L l -> dsafeS c t (skip ;;; ret L) l Qop.
  Proof. intros H. unfold skip. apply dsafeS_xemit_q; [constructor; [apply qevB_skip|constructor]|]. exact H. Qed.

  Lemma spec_run_opS t L l o : okop c o -> Rel L l -> dsafeS c t (run_op c t L o) l Qop.
  Proof.
    intros Hnd HR. pose proof HR as (Hi & Ht). pose proof Hi as (I1 & I2 & I3 & I4 & I5 & I6 & I7 & I8 & I9).
    destruct o; cbn [run_op].
    - (* attach *)
      apply dsafeS_inv; [lia|]. destruct (l_tls L) as [r|] eqn:E; [apply dsafeS_skip_ret; exact HR|].
      apply dsafeS_xbind. apply alloc_thread_data_specS; auto; [|intros; exact I].
      intros r l' (X1 & X2) Hr. cbn beta iota. apply dsafeS_xemit_q; [constructor; [apply qevB_att|constructor]|].
      apply dsafeS_rsp_ret. split; auto. cbn. intros r' E'. inversion E'; subst. exact Hr.
    - (* detach *)
      destruct Hnd as [Hnd|Htail]; [exfalso; apply Hnd; reflexivity|].
      apply dsafeS_inv; [lia|]. destruct (l_tls L) as [r|] eqn:E; [|apply dsafeS_skip_ret; exact HR].
      apply dsafeS_xbind. apply free_thread_data_specS; auto.
      + constructor; [apply qevB_relall|constructor; [apply qevB_det|constructor]].
      + intros l' Hi'. cbn beta iota. apply dsafeS_rsp_ret. split; auto. cbn. discriminate.
      + intros; exact I.
    - (* Guard ctor *)
      apply dsafeS_inv; [lia|]. destruct (l_tls L) as [r|] eqn:E; [|apply dsafeS_skip_ret; exact HR].
      destruct (gfind (l_guards L) j); [apply dsafeS_skip_ret; exact HR|].
      apply dsafeS_quiet_seq; [apply qB_hp_galloc|exact I|]. intros [s|].
      + apply dsafeS_xemit_q; [constructor; [apply qevB_own|constructor]|]. apply dsafeS_rsp_ret. eapply Rel_tls; eauto.
      + apply dsafeS_xemit_q; [constructor; [apply qevB_err|constructor]|]. exact HR.
    - (* Guard dtor *)
      apply dsafeS_inv; [lia|]. destruct (l_tls L) as [r|] eqn:E; [|apply dsafeS_skip_ret; exact HR].
      destruct (gfind (l_guards L) j) as [s|]; [|apply dsafeS_skip_ret; exact HR].
      apply dsafeS_xemit_q; [constructor; [apply qevB_rel|constructor]|].
      apply dsafeS_quiet_seq; [apply qB_hp_gfree|exact I|]. intros _. apply dsafeS_rsp_ret. eapply Rel_tls; eauto.
    - (* assign *)
      apply dsafeS_inv; [lia|]. destruct (l_tls L) as [r|] eqn:E; [|apply dsafeS_skip_ret; exact HR].
      destruct (gfind (l_guards L) j) as [s|]; [|apply dsafeS_skip_ret; exact HR].
      apply dsafeS_xact_q; [apply qB_st_slot|]. intros _. apply dsafeS_xact_q; [apply qB_faa_sync|]. intros _. apply dsafeS_rsp_ret. exact HR.
    - (* clear *)
      apply dsafeS_inv; [lia|]. destruct (l_tls L) as [r|] eqn:E; [|apply dsafeS_skip_ret; exact HR].
      destruct (gfind (l_guards L) j) as [s|]; [|apply dsafeS_skip_ret; exact HR].
      apply dsafeS_xact_q; [apply qB_st_slot|]. intros _. apply dsafeS_rsp_ret. exact HR.
    - (* protect *)
      apply dsafeS_inv; [lia|]. destruct (l_tls L) as [r|] eqn:E; [|apply dsafeS_skip_ret; exact HR].
      destruct (gfind (l_guards L) j) as [s|]; [|apply dsafeS_skip_ret; exact HR].
      apply dsafeS_xact_q; [apply qB_ld_src|]. intros p0. apply dsafeS_quiet_seq; [apply qB_protect_loop|exact I|]. intros v.
      apply dsafeS_rsp_ret. exact HR.
    - (* publish *)
      apply dsafeS_inv; [lia|]. apply dsafeS_xact_q; [apply qB_st_src|]. intros _. apply dsafeS_rsp_ret. exact HR.
    - (* retire *)
      unfold inv. destruct (l_tls L) as [r|] eqn:E.
      + specialize (Ht r eq_refl).
        apply dsafeS_xemit. intros g a tr Hv. unfold viewB in Hv. exists (aux_pend a t p). split; [eapply frame_bvs; reflexivity|]. split.
        { intros _ Hnd' J. apply (S_retire_ev c g a tr t p Hnd' J). }
        split.
        { intros Hto J HS. apply (JS_retire_ev c HRB a tr t p); auto. apply (TO_last tr t _ Hto). reflexivity. }
        unfold viewB. cbn [bvs aux_pend]. rewrite fn_same, Hv. clear g a tr Hv.
        apply dsafeS_xloc. intros g a tr Hv. unfold viewB in Hv.
        exists (aux_push a t r p (snd (rt_push c r p g))). split; [eapply frame_bvs; reflexivity|]. split.
        { intros J. apply S_push; auto; rewrite Hv; cbn; auto; congruence. }
        split.
        { intros J HS. apply (JS_push c g a tr t r p); auto; rewrite Hv; cbn; auto. }
        unfold viewB. cbn [bvs aux_push aux_arr]. rewrite fn_same, Hv. generalize (snd (rt_push c r p g)) as ok. clear g a tr Hv. intros ok.
        apply dsafeS_xbind. destruct ok.
        * apply dsafeS_ret. cbn beta iota. apply dsafeS_rsp_ret. split; [unfold idle; cbn; tauto|]. intros r' E'. rewrite E in E'. inversion E'; subst. exact Ht.
        * apply scan_specS; auto; cbn [vb_own vb_dead vb_move vb_full vb_freed vb_blk set_full set_pend]; auto; try congruence.
          all: try solve [intros; exact I].
          apply dsafeS_rsp_ret. split; [unfold idle; cbn; tauto|]. intros r' E'. rewrite E in E'. inversion E'; subst. exact Ht.
      + apply dsafeS_xemit. intros g a tr Hv. exists a. split; [apply frame_refl|]. split.
        { intros _ _ J. apply JB_ev_other; auto. }
        split; [js_same|].
        rewrite Hv. apply dsafeS_skip_ret. exact HR.
    - (* scan *)
      apply dsafeS_inv; [lia|]. destruct (l_tls L) as [r|] eqn:E; [|apply dsafeS_skip_ret; exact HR].
      specialize (Ht r eq_refl). apply dsafeS_xbind. apply scan_specS; auto; try congruence.
      all: try solve [intros; exact I].
      apply dsafeS_rsp_ret. split; [unfold idle; cbn; tauto|]. intros r' E'. rewrite E in E'. inversion E'; subst. exact Ht.
    - (* wait *)
      apply dsafeS_inv; [lia|]. apply dsafeS_quiet_seq; [apply qB_wait_loop|exact I|]. intros _. apply dsafeS_rsp_ret. exact HR.
  Qed.

  Lemma spec_run_opsS t : forall os L l, Forall (okop c) os -> Rel L l -> dsafeS c t (run_ops c t L os) l (fun _ _ => True).
  Proof.
    induction os as [|o os IH]; intros L l Hnd HR; cbn [run_ops]; [exact I|]. inversion Hnd; subst.
    apply dsafeS_xbind. eapply dsafe_weaken; [|apply spec_run_opS; eauto]. intros [L'|] l' H; cbn; auto.
  Qed.

  Lemma spec_threadS t os : Forall (okop c) os -> dsafeS c t (thread_src c t os) vb0 (fun _ _ => True).
  Proof.
    intros Hnd. unfold thread_src. apply dsafeS_act_quiet; [apply qB_begin|]. intros _. unfold to_unit. apply dsafe_bind.
    eapply dsafe_weaken; [|apply spec_run_opsS; auto]; [intros; exact I|].
    split; [unfold idle; cbn; tauto|]. cbn. discriminate.
  Qed.
End MainS.

Lemma JS_init : JS auxb0 [].
Proof.
  constructor.
  - intros p H. exfalso. apply H. reflexivity.
  - intros u s0 p H. discriminate.
  - intros d u p s0 H. destruct d; discriminate.
Qed.

Lemma cfg_ok_initS fuel c ths : 4 <= c_RB c -> c_old c = false -> c_oldtail c = false ->
  Conc.cfg_ok viewB (InvS c) (init_cfg fuel c ths).
Proof.
  intros H4 Ho Ht. exists auxb0. split.
  - cbn. intros _ _ _. split; [apply JB_init|apply JS_init].
  - intros t p Hp. unfold init_cfg in Hp. cbn [Conc.threads] in Hp. rewrite nth_error_map in Hp.
    destruct (nth_error (combine (seq 0 (List.length ths)) ths) t) as [[t' os]|] eqn:E; [|discriminate].
    cbn in Hp. inversion Hp; subst p. pose proof (nth_error_combine_seq ths _ _ _ _ E) as Et. cbn in Et. subst t'.
    apply compile_safe. apply spec_threadS; auto.
    apply Forall_forall. intros o _. right. exact Ht.
Qed.
