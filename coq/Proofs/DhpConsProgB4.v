(** DhpConsProgB4: copy of LV.Proofs.DhpProgB4 over the two-directional pointer invariant of LV.Proofs.DhpConsInv (conservation);
    the text differs from the original where the JW part of a goal is proved. *)
(** * DhpProgB4: smr::help_scan and smr::free_thread_data preserve the C03 invariant. *)
From Coq Require Import ZArith NArith List String Bool Lia PeanoNat.
From LV Require Import Base.Conc Base.Events Model.DhpLang Model.Dhp Proofs.DhpBase Proofs.DhpSeq Proofs.DhpSeqThm Proofs.DhpHist
  Proofs.DhpLangProofs Proofs.DhpAllocA Proofs.DhpInvB Proofs.DhpConsInv Proofs.DhpConsQuietB Proofs.DhpConsQuietB2 Proofs.DhpConsRulesB Proofs.DhpConsStepsB1 Proofs.DhpConsStepsB2
  Proofs.DhpConsStepsB3 Proofs.DhpConsStepsB4 Proofs.DhpConsStepsB5 Proofs.DhpConsStepsB6 Proofs.DhpConsStepsB7 Proofs.DhpConsStepsB8 Proofs.DhpConsStepsB9 Proofs.DhpConsStepsB10
  Proofs.DhpConsProgB1 Proofs.DhpConsProgB2 Proofs.DhpConsProgB3.
Import ListNotations.

Definition trunc_go (c : cfg) (r : nat) : nat -> option nat -> P unit :=
  fix go (fuel : nat) (p : option nat) : P unit :=
    match p with
    | None => ret tt
    | Some b =>
        match fuel with
        | O => fuel_out
        | S f =>
            nx <- loc (fun g => (g, rb_next (grb g b))) ;;
            rt_free c b ;;;
            loc (fun g => (upd_rec g r (fun x => rs_ret (r_cb x) (r_cc x) (r_head x) (r_tail x) (pred (r_bcount x)) x), tt)) ;;;
            go f nx
        end
    end.

Section ProgB4.
  Variable c : cfg.
  Notation RB := (c_RB c).
  Hypothesis HRB : 4 <= RB.
  Hypothesis Hold : c_old c = false.
  Hypothesis Htail : c_oldtail c = false.
  Let HRB1 : 1 <= RB. Proof. lia. Qed.

  Lemma idle_mv me l : idle l -> In me (vb_own l) -> vb_arr l = Some me -> vb_mine l = Some me -> mv_ok me l.
  Proof. intros (I1 & I2 & I3 & I4 & I5 & I6 & I7 & I8 & I9 & I10) H Ha Hm. constructor; auto. Qed.

  Lemma help_recs_spec t me (Q : option unit -> VB -> Prop) : forall fuel node l,
    idle l -> In me (vb_own l) -> vb_arr l = Some me -> vb_mine l = Some me -> (forall h, node = Some h -> vb_node l = Some h) ->
    (forall l', idle l' -> In me (vb_own l') -> vb_arr l' = Some me -> vb_mine l' = Some me -> Q (Some tt) l') -> (forall l', Q None l') ->
    dsafeB c t (help_recs c fuel me (S t) node) l Q.
  Proof.
    induction fuel as [|fuel IH]; intros node l Hi Hme Ha Hmi Hn HQ HN; destruct node as [h|]; cbn [help_recs].
    - apply dsafeB_fuel_out. apply HN.
    - apply dsafeB_ret. apply HQ; auto.
    - specialize (Hn h eq_refl). cbn zeta.
      assert (Hcont : forall l1, idle l1 -> In me (vb_own l1) -> vb_node l1 = Some h -> vb_arr l1 = Some me -> vb_mine l1 = Some me ->
                dsafeB c t (xbind (loc (fun g => (g, r_next (grec g h)))) (fun nx => help_recs c fuel me (S t) nx)) l1 Q).
      { intros l1 Hi1 Hme1 Hn1 Ha1 Hmi1. apply dsafeB_xloc. intros g a tr Hv. unfold viewB in Hv.
        exists (setv a t (set_node (bvs a t) (r_next (grec g h)))). split; [eapply frame_bvs; reflexivity|]. split.
        - intros J. apply S_node; auto. intros n En. eapply JB_tl_next; eauto. destruct J as [[_ O2 _ _ _] _ _ _]. apply (O2 t). rewrite Hv. exact Hn1.
        - unfold viewB. cbn [bvs setv fst snd]. rewrite fn_same, Hv. apply IH; auto. }
      destruct (Nat.eqb h me) eqn:Ehm; [apply Hcont; auto|]. apply Nat.eqb_neq in Ehm.
      apply dsafeB_xact_q; [apply qB_ld_free|]. intros fr. destruct fr; [apply Hcont; auto|].
      apply dsafeB_xact_q; [apply qB_ld_tid|]. intros owner. destruct (negb (owner =? 0)); [apply Hcont; auto|].
      apply dsafeB_xact. intros g a tr Hv. unfold viewB in Hv. unfold a_cas_tid. destruct (Nat.eqb_spec (r_tid (grec g h)) 0) as [E|E]; cbn [fst snd negb].
      + exists (setv a t (set_own (bvs a t) (h :: vb_own (bvs a t)))). split; [eapply frame_bvs; reflexivity|]. split.
        { intros _ _ J. apply JB_quiet_ev; [apply qev_acc|]. apply S_cas_ok; auto. rewrite Hv. exact Hn. }
        unfold viewB. cbn [bvs setv]. rewrite fn_same, Hv. clear E g a tr Hv.
        pose proof Hi as (I1 & I2 & I3 & I4 & I5 & I6 & I7 & I8 & I9 & I10).
        set (l1 := set_own l (h :: vb_own l)).
        apply dsafeB_xact_q; [apply qB_faa_sync|]. intros _.
        apply dsafeB_xloc. intros g a tr Hv. unfold viewB in Hv.
        exists (setv a t (set_move (bvs a t) (Some (h, r_head (grec g h))))). split; [eapply frame_bvs; reflexivity|]. split.
        { intros J. apply S_move_start; auto; rewrite Hv; cbn; auto. }
        unfold viewB. cbn [bvs setv fst snd]. rewrite fn_same, Hv. generalize (r_head (grec g h)) as hd. clear g a tr Hv. intros hd.
        apply dsafeB_xbind. eapply (move_blocks_spec c HRB Hold) with (src := h); [exact Ehm|reflexivity|exact I8| | |intros; apply HN].
        { constructor; cbn; auto. }
        cbn beta iota. apply dsafeB_xbind. apply rt_fini_spec; cbn [vb_own vb_limbo vb_blk vb_dead vb_cur vb_full vb_move set_move set_own]; auto.
        all: try solve [intros r0 ob0 E0; inversion E0; reflexivity].
        all: try solve [intros; apply HN].
        { unfold l1. cbn. now left. }
        { unfold l1. cbn. rewrite Ha. congruence. }
        apply dsafeB_xact_q; [apply qB_st_free|]. intros _.
        apply dsafeB_xact. intros g a tr Hv. unfold viewB in Hv.
        exists (setv a t (set_own (bvs a t) (remove Nat.eq_dec h (vb_own (bvs a t))))). split; [eapply frame_bvs; reflexivity|]. split.
        { intros _ _ J. apply JB_quiet_ev; [apply qev_acc|]. apply S_sttid0; auto; rewrite Hv; cbn; auto; congruence. }
        unfold viewB. cbn [bvs setv fst snd a_st_tid]. rewrite fn_same, Hv. clear g a tr Hv.
        apply Hcont; cbn.
        * unfold idle in *. cbn. tauto.
        * destruct (Nat.eq_dec h h) as [_|X]; [|congruence]. apply in_in_remove; auto.
        * exact Hn.
        * exact Ha.
        * exact Hmi.
      + exists a. split; [apply frame_refl|]. split; [intros _ _ J; apply JB_quiet_ev; [apply qev_acc|exact J]|].
        unfold viewB. rewrite Hv. apply Hcont; auto.
    - apply dsafeB_ret. apply HQ; auto.
  Qed.

  Lemma help_scan_spec t me l (Q : option unit -> VB -> Prop) :
    idle l -> In me (vb_own l) -> vb_arr l = Some me -> vb_mine l = Some me ->
    (forall l', idle l' -> In me (vb_own l') -> vb_arr l' = Some me -> vb_mine l' = Some me -> Q (Some tt) l') -> (forall l', Q None l') ->
    dsafeB c t (help_scan c me (S t)) l Q.
  Proof.
    intros Hi Hme Ha Hmi HQ HN. unfold help_scan.
    apply dsafeB_xact. intros g a tr Hv. unfold viewB in Hv. exists (setv a t (set_node (bvs a t) (tlist g))). split; [eapply frame_bvs; reflexivity|]. split.
    { intros _ _ J. apply S_node; [|apply JB_quiet_ev; [apply qev_acc|exact J]]. intros h E. eapply JB_tl_head; eauto. }
    unfold viewB. cbn [bvs setv fst snd a_ld_tlist]. rewrite fn_same, Hv. generalize (tlist g) as node. clear g a tr Hv. intros node.
    apply dsafeB_xbind. apply help_recs_spec; auto; try (apply idle_set_node; exact Hi).
    intros l' Hi' Hme' Ha' Hmi'. cbn beta iota. pose proof Hi' as (I1 & I2 & I3 & I4 & I5 & I6 & I7 & I8 & I9 & I10).
    apply scan_spec; auto; try congruence. apply HQ; [unfold idle in *; cbn; tauto|exact Hme'|exact Ha'|exact Hmi'].
  Qed.

  Lemma trunc_go_spec t r (Q : option unit -> VB -> Prop) : forall fuel p l lb,
    vb_limbo l = Some (p, lb) -> vb_blk l = None -> (forall x, Q (Some tt) (set_limbo l x)) -> (forall l', Q None l') ->
    dsafeB c t (trunc_go c r fuel p) l Q.
  Proof.
    induction fuel as [|fuel IH]; intros p l lb Hl Hb HQ HN; destruct p as [b|]; cbn [trunc_go].
    - apply dsafeB_fuel_out. apply HN.
    - assert (E : l = set_limbo l (vb_limbo l)) by (destruct l; reflexivity). rewrite E. apply HQ.
    - apply dsafeB_xloc. intros g a tr Hv. unfold viewB in Hv.
      exists (setv a t (set_blk (set_limbo (bvs a t) (Some (rb_next (grb g b), List.tl lb))) (Some (b, false)))).
      split; [eapply frame_bvs; reflexivity|]. split; [intros J; apply S_rdnext; auto; rewrite Hv; auto|].
      unfold viewB. cbn [bvs setv fst snd]. rewrite fn_same, Hv. generalize (rb_next (grb g b)) as nx. clear g a tr Hv. intros nx.
      apply dsafeB_xbind. eapply rt_free_spec; [reflexivity| |apply HN]. cbn beta iota.
      apply dsafeB_xloc_q; [intros g; apply piB_upd_rec; intros []; repeat split; reflexivity|]. intros _.
      eapply IH; [reflexivity|reflexivity| |apply HN]. intros x.
      assert (E : set_limbo (set_blk (set_blk (set_limbo l (Some (nx, List.tl lb))) (Some (b, false))) None) x = set_limbo l x)
        by (destruct l; cbn in *; subst; reflexivity).
      rewrite E. apply HQ.
    - assert (E : l = set_limbo l (vb_limbo l)) by (destruct l; reflexivity). rewrite E. apply HQ.
  Qed.

  Lemma free_thread_data_spec t l r help det (Q : option unit -> VB -> Prop) :
    idle l -> In r (vb_own l) -> vb_arr l = Some r -> vb_mine l = Some r -> Forall qevB det -> (forall l', idle l' -> vb_mine l' = None -> Q (Some tt) l') -> (forall l', Q None l') ->
    dsafeB c t (free_thread_data c r (S t) help det) l Q.
  Proof.
    intros Hi Hr Ha Hmi Hdet HQ HN. unfold free_thread_data.
    pose proof Hi as (I1 & I2 & I3 & I4 & I5 & I6 & I7 & I8 & I9 & I10).
    apply dsafeB_quiet_seq; [apply qB_hp_clear; exact Hdet|apply HN|]. intros _.
    apply dsafeB_xbind. apply scan_spec; auto; try congruence. cbn beta iota.
    assert (E0 : set_full l None = l) by (destruct l; cbn in *; subst; reflexivity). rewrite E0.
    (* the last store, for any view that is idle up to a leftover private chain *)
    assert (Hlast : forall l2, In r (vb_own l2) -> idle (set_limbo l2 None) -> vb_arr l2 = None -> dsafeB c t (act (a_st_tid r 0)) l2 Q).
    { intros l2 Hr2 Hi2 Ha2. pose proof Hi2 as (J1 & J2 & J3 & J4 & J5 & J6 & J7 & J8 & J9 & J10). cbn in J1, J2, J4, J5, J6, J7, J8, J9, J10.
      apply dsafeB_act_J. intros g a0 tr Hv0. unfold viewB in Hv0.
      set (a := setv a0 t (set_s0 (set_mine (bvs a0 t) None) None)).
      assert (Hv : bvs a t = set_s0 (set_mine l2 None) None) by (unfold a; cbn [bvs setv]; rewrite fn_same, Hv0; reflexivity).
      set (a1 := setv a t (set_own (bvs a t) (remove Nat.eq_dec r (vb_own (bvs a t))))).
      exists (setv a1 t (set_limbo (bvs a1 t) None)). split.
      { intros t' Ht. unfold viewB, a1, a. cbn. now rewrite !fn_other by exact Ht. }
      split.
      { intros _ _ J0. assert (J : JB c g a tr) by (apply S_mineclr; [rewrite Hv0; exact J10|exact J0]).
        apply JB_quiet_ev; [apply qev_acc|]. apply S_limbo_none. apply S_sttid0; auto; rewrite Hv; cbn; auto; congruence. }
      unfold viewB, a1. cbn [bvs setv fst snd a_st_tid]. rewrite !fn_same, Hv. apply HQ; [unfold idle in *; cbn; tauto|reflexivity]. }
    assert (Hmid : forall l1, idle l1 -> In r (vb_own l1) ->
              dsafeB c t (xbind (loc (fun g => (g, rt_empty g r))) (fun e =>
                 xbind (if e then xbind (rt_fini c r) (fun _ => act (a_st_free r true))
                        else xbind (loc (trunc_f c r)) (fun fb => trunc_go c r (c_spin c) fb)) (fun _ => act (a_st_tid r 0)))) l1 Q).
    { intros l1 Hi1 Hr1. pose proof Hi1 as (J1 & J2 & J3 & J4 & J5 & J6 & J7 & J8 & J9 & J10).
      (* ghost step: the thread forgets that its record has an array *)
      apply dsafeB_xloc. intros g a0 tr Hv0. unfold viewB in Hv0.
      set (a := setv a0 t (set_arr (bvs a0 t) None)).
      assert (Hv : bvs a t = set_arr l1 None) by (unfold a; cbn [bvs setv]; rewrite fn_same, Hv0; reflexivity).
      exists (if rt_empty g r then setv a t (set_move (bvs a t) (Some (r, None))) else a).
      split.
      { destruct (rt_empty g r); intros t' Ht; unfold viewB, a; cbn; now rewrite ?fn_other by exact Ht. }
      split.
      { intros J0. assert (J : JB c g a tr) by (apply S_setarr; [discriminate|exact J0]).
        cbn [fst]. destruct (rt_empty g r) eqn:Ee; [|exact J]. apply S_mark; auto; try (rewrite Hv; auto).
        eapply (rw0_of_empty c g a tr t r); eauto; rewrite Hv; auto. cbn. congruence. }
      cbn [fst snd]. destruct (rt_empty g r).
      - unfold viewB. cbn [bvs setv]. rewrite fn_same, Hv. clear g a0 a tr Hv0 Hv. apply dsafeB_xbind.
        apply dsafeB_xbind. apply rt_fini_spec; cbn [vb_own vb_limbo vb_blk vb_dead vb_cur vb_full vb_move vb_arr set_move set_arr]; auto.
        { discriminate. }
        cbn beta iota.
        assert (E1 : set_move (set_move (set_arr l1 None) (Some (r, None))) None = set_arr l1 None) by (destruct l1; cbn in *; subst; reflexivity). rewrite E1.
        apply dsafeB_act_quiet; [apply qB_st_free|]. intros []. cbn beta iota. apply Hlast; auto. unfold idle in *. cbn. tauto.
      - unfold viewB. rewrite Hv. clear g a0 a tr Hv0 Hv. apply dsafeB_xbind.
        apply dsafeB_xloc. intros g a tr Hv. unfold viewB in Hv. exists (aux_trunc a t r g (snd (trunc_f c r g))).
        split; [eapply frame_bvs; reflexivity|]. split.
        { intros J. apply S_truncate; auto; rewrite Hv; cbn; auto; congruence. }
        unfold viewB. cbn [bvs aux_trunc]. rewrite fn_same, Hv. generalize (skipn (trunc_k a r g) (rch a r)) as lb. generalize (snd (trunc_f c r g)) as fb.
        clear g a tr Hv. intros fb lb.
        eapply trunc_go_spec; [reflexivity|exact J2| |intros; apply HN]. intros x. cbn beta iota.
        apply Hlast; cbn; auto; unfold idle in *; cbn; tauto. }
    apply dsafeB_xbind. destruct help.
    - apply help_scan_spec; auto.
    - apply dsafeB_ret. cbn beta iota. apply Hmid; auto.
  Qed.
End ProgB4.
