(** * C26_Trace — reachable states and slot sequences of the GENERATED bit_reverse_counter (Gen_brc).

    - [reachable]: every state obtained from the constructor's state by ANY sequence of [brc_inc] (while the
      counter is below 2^64-1) and [brc_dec] (while it is positive), any fuel for which the call returns.
    - [reachable_closed_form]: these are exactly the states [st n], 0 <= n <= 2^64-1.
    - [exec]: run a list of operations on the generated code; [exec_closed_form] gives every returned slot for
      every Dyck-like sequence, [exec_lifo] the stack discipline (dec returns the most recent live slot).
    - [inc_slots]: the slots of the first n increments, and the list theorems about them.             *)

Require Import ZArith Lia Bool List Permutation.
Require Import LV.Base.CInt LV.Proofs.C25_Bits LV.Proofs.C26_Counter.
Require Import LV.Gen.Gen_brc.
Import ListNotations.
Local Open Scope Z_scope.

(** ** Fuel monotonicity: a call that returns, returns the same with more fuel *)

(** The proofs follow the structure of the generated term generically (binds, conditionals, pairs), so that they
    do not depend on the exact shape of the loop body. *)
Ltac mono_step IH :=
  match goal with
  | H : ?x = Some _ |- ?x = Some _ => exact H
  | H : None = Some _ |- _ => discriminate H
  | H : obind ?m _ = Some _ |- _ => destruct m as [?|]; cbn [obind] in H |- *
  | H : (if ?c then _ else _) = Some _ |- _ => destruct c
  | H : (let (_, _) := ?p in _) = Some _ |- _ => destruct p
  | H : _ = Some _ |- _ => eapply IH; [exact H|lia]
  end.

Lemma inc_loop_mono fuel : forall r nb v, brc_inc_loop1 fuel r nb = Some v ->
  forall fuel', (fuel <= fuel')%nat -> brc_inc_loop1 fuel' r nb = Some v.
Proof.
  induction fuel as [|fuel IH]; intros r nb v H fuel' Hle; [discriminate|].
  destruct fuel' as [|fuel']; [lia|]. cbn [brc_inc_loop1] in *.
  repeat mono_step IH.
Qed.

Lemma dec_loop_mono fuel : forall r nb v, brc_dec_loop1 fuel r nb = Some v ->
  forall fuel', (fuel <= fuel')%nat -> brc_dec_loop1 fuel' r nb = Some v.
Proof.
  induction fuel as [|fuel IH]; intros r nb v H fuel' Hle; [discriminate|].
  destruct fuel' as [|fuel']; [lia|]. cbn [brc_dec_loop1] in *.
  repeat mono_step IH.
Qed.

Lemma brc_inc_mono fuel fuel' s v : brc_inc fuel s = Some v -> (fuel <= fuel')%nat -> brc_inc fuel' s = Some v.
Proof.
  unfold brc_inc. intros H Hle.
  destruct (ssub i32 (brc_m_nHighBit s) 1) as [t1|]; cbn [obind] in *; [|discriminate].
  destruct (brc_inc_loop1 fuel (brc_m_nReversed s) t1) as [p|] eqn:E; cbn [obind] in H; [|discriminate].
  rewrite (inc_loop_mono _ _ _ _ E _ Hle). exact H.
Qed.

Lemma brc_dec_mono fuel fuel' s v : brc_dec fuel s = Some v -> (fuel <= fuel')%nat -> brc_dec fuel' s = Some v.
Proof.
  unfold brc_dec. intros H Hle.
  destruct (ssub i32 (brc_m_nHighBit s) 1) as [t1|]; cbn [obind] in *; [|discriminate].
  destruct (brc_dec_loop1 fuel (brc_m_nReversed s) t1) as [p|] eqn:E; cbn [obind] in H; [|discriminate].
  rewrite (dec_loop_mono _ _ _ _ E _ Hle). exact H.
Qed.

(** ** Reachable states *)

Inductive reachable : brc -> Prop :=
| reach_init : reachable brc_init
| reach_inc fuel s slot s' :
    reachable s -> brc_m_nCounter s < brc_max -> brc_inc fuel s = Some (slot, s') -> reachable s'
| reach_dec fuel s slot s' :
    reachable s -> 0 < brc_m_nCounter s -> brc_dec fuel s = Some (slot, s') -> reachable s'.

Lemma st_counter n : brc_m_nCounter (st n) = n.
Proof. unfold st. destruct (Z.eqb_spec n 0) as [->|]; reflexivity. Qed.

Lemma st_reversed n : 1 <= n -> brc_m_nReversed (st n) = slot_of n.
Proof. intros. unfold st. replace (n =? 0) with false by (symmetry; apply Z.eqb_neq; lia). reflexivity. Qed.

Lemma st_high_bit n : 1 <= n -> brc_m_nHighBit (st n) = Z.log2 n.
Proof. intros. unfold st. replace (n =? 0) with false by (symmetry; apply Z.eqb_neq; lia). reflexivity. Qed.

Lemma st_0 : st 0 = brc_init.
Proof. reflexivity. Qed.

Lemma reachable_st n : 0 <= n <= brc_max -> reachable (st n).
Proof.
  intros [H0 Hm]. revert Hm. pattern n. apply natlike_ind; [| |exact H0].
  - intros _. apply reach_init.
  - intros x Hx IH Hm. rewrite <- Z.add_1_r.
    apply (reach_inc 64 (st x) (slot_of (x + 1))); [apply IH; lia|rewrite st_counter; lia|].
    apply inc_st; [lia|lia].
Qed.

Theorem reachable_closed_form s : reachable s <-> exists n, 0 <= n <= brc_max /\ s = st n.
Proof.
  split.
  - induction 1 as [|fuel s slot s' Hr [n [Hn ->]] Hc He|fuel s slot s' Hr [n [Hn ->]] Hc He].
    + exists 0. unfold brc_max. split; [lia|reflexivity].
    + rewrite st_counter in Hc.
      apply brc_inc_mono with (fuel' := Nat.max fuel 64) in He; [|lia].
      rewrite inc_st in He by lia. injection He as _ <-. exists (n + 1). split; [lia|reflexivity].
    + rewrite st_counter in Hc.
      apply brc_dec_mono with (fuel' := Nat.max fuel 64) in He; [|lia].
      replace n with ((n - 1) + 1) in He at 1 by lia.
      rewrite dec_st in He by lia. injection He as _ <-. exists (n - 1). split; [lia|reflexivity].
  - intros [n [Hn ->]]. apply reachable_st, Hn.
Qed.

(** The closed-form invariant, spelled out on the three fields. *)
Theorem closed_form_invariant s :
  reachable s ->
  let c := brc_m_nCounter s in let r := brc_m_nReversed s in let hb := brc_m_nHighBit s in
  0 <= c <= brc_max /\
  (c = 0 -> r = 0 /\ hb = -1) /\
  (1 <= c -> hb = Z.log2 c /\ 0 <= hb < 64 /\ 2 ^ hb <= c < 2 * 2 ^ hb /\ r = 2 ^ hb + rev hb (c - 2 ^ hb)).
Proof.
  intros Hr. apply reachable_closed_form in Hr as [n [Hn ->]]. cbv zeta. rewrite st_counter.
  split; [exact Hn|]. split.
  - intros ->. split; reflexivity.
  - intros H1. rewrite st_high_bit, st_reversed by lia.
    destruct (log2_bounds n H1) as [Hh Hb]. unfold brc_max in Hn.
    pose proof (log2_lt64 n ltac:(lia)). repeat split; try lia.
Qed.

(** The property's second sentence, for every reachable state. *)
Theorem dec_undoes_inc s fuel :
  reachable s -> brc_m_nCounter s < brc_max -> (64 <= fuel)%nat ->
  exists slot s', brc_inc fuel s = Some (slot, s') /\ brc_dec fuel s' = Some (slot, s) /\ reachable s'
                  /\ brc_m_nCounter s' = brc_m_nCounter s + 1 /\ brc_m_nReversed s' = slot.
Proof.
  intros Hr Hc Hf. apply reachable_closed_form in Hr as [n [Hn ->]]. rewrite st_counter in *.
  exists (slot_of (n + 1)), (st (n + 1)).
  split; [apply inc_st; lia|]. split; [apply dec_st; lia|].
  split; [apply reachable_st; lia|]. split; [rewrite !st_counter; reflexivity|]. apply st_reversed. lia.
Qed.

(** And the converse: inc after dec gives the same slot back. *)
Theorem inc_redoes_dec s fuel :
  reachable s -> 0 < brc_m_nCounter s -> (64 <= fuel)%nat ->
  exists slot s', brc_dec fuel s = Some (slot, s') /\ brc_inc fuel s' = Some (slot, s) /\ reachable s'
                  /\ brc_m_nReversed s = slot.
Proof.
  intros Hr Hc Hf. apply reachable_closed_form in Hr as [n [Hn ->]]. rewrite st_counter in *.
  assert (En : n = (n - 1) + 1) by lia. set (m := n - 1) in *. clearbody m. subst n.
  exists (slot_of (m + 1)), (st m).
  split; [apply dec_st; lia|]. split; [apply inc_st; lia|].
  split; [apply reachable_st; lia|]. apply st_reversed. lia.
Qed.

(** The slot produced by [inc] depends only on the current count. *)
Theorem slot_function_of_count s fuel :
  reachable s -> brc_m_nCounter s < brc_max -> (64 <= fuel)%nat ->
  exists s', brc_inc fuel s = Some (slot_of (brc_m_nCounter s + 1), s').
Proof.
  intros Hr Hc Hf. apply reachable_closed_form in Hr as [n [Hn ->]]. rewrite st_counter in *.
  exists (st (n + 1)). apply inc_st; lia.
Qed.

(** ** Arbitrary interleavings of inc and dec *)

Inductive op := Inc | Dec.

Fixpoint exec (fuel : nat) (ops : list op) (s : brc) : option (list Z * brc) :=
  match ops with
  | [] => Some ([], s)
  | o :: r =>
    '(v, s1) <- (match o with Inc => brc_inc fuel s | Dec => brc_dec fuel s end) ;;
    '(vs, s2) <- exec fuel r s1 ;;
    Some (v :: vs, s2)
  end.

(** Dyck-like and bounded: never decrement at count 0, never increment at count 2^64-1. *)
Fixpoint valid (ops : list op) (c : nat) : Prop :=
  match ops with
  | [] => True
  | Inc :: r => Z.of_nat c < brc_max /\ valid r (S c)
  | Dec :: r => match c with O => False | S c' => valid r c' end
  end.

Fixpoint outputs (ops : list op) (c : nat) : list Z :=
  match ops with
  | [] => []
  | Inc :: r => slot_of (Z.of_nat (S c)) :: outputs r (S c)
  | Dec :: r => slot_of (Z.of_nat c) :: outputs r (Nat.pred c)
  end.

Fixpoint final (ops : list op) (c : nat) : nat :=
  match ops with
  | [] => c
  | Inc :: r => final r (S c)
  | Dec :: r => final r (Nat.pred c)
  end.

Lemma exec_closed_form fuel : (64 <= fuel)%nat -> forall ops c,
  valid ops c -> Z.of_nat c <= brc_max ->
  exec fuel ops (st (Z.of_nat c)) = Some (outputs ops c, st (Z.of_nat (final ops c))).
Proof.
  intros Hf. induction ops as [|o r IH]; intros c Hv Hc; [reflexivity|].
  destruct o; cbn [exec valid outputs final] in *.
  - destruct Hv as [Hlt Hv]. rewrite inc_st by lia. cbn [obind].
    replace (Z.of_nat c + 1) with (Z.of_nat (S c)) by lia.
    rewrite IH by (assumption || lia). reflexivity.
  - destruct c as [|c']; [contradiction|].
    replace (Z.of_nat (S c')) with (Z.of_nat c' + 1) by lia.
    rewrite dec_st by lia. cbn [obind Nat.pred].
    rewrite IH by (assumption || lia). reflexivity.
Qed.

(** Stack discipline: [dec] returns the most recently produced slot that has not been returned yet. *)
Fixpoint lifo_ok (ops : list op) (outs : list Z) (stack : list Z) : Prop :=
  match ops, outs with
  | [], [] => True
  | Inc :: r, v :: vs => lifo_ok r vs (v :: stack)
  | Dec :: r, v :: vs => match stack with top :: stack' => v = top /\ lifo_ok r vs stack' | [] => False end
  | _, _ => False
  end.

Fixpoint stack_of (c : nat) : list Z :=
  match c with O => [] | S c' => slot_of (Z.of_nat c) :: stack_of c' end.

Lemma outputs_lifo ops : forall c, valid ops c -> lifo_ok ops (outputs ops c) (stack_of c).
Proof.
  induction ops as [|o r IH]; intros c Hv; [exact I|].
  destruct o; cbn [valid outputs lifo_ok] in *.
  - destruct Hv as [_ Hv]. apply (IH (S c) Hv).
  - destruct c as [|c']; [contradiction|]. cbn [stack_of Nat.pred]. split; [reflexivity|]. apply IH, Hv.
Qed.

Theorem exec_lifo fuel ops :
  (64 <= fuel)%nat -> valid ops 0 ->
  exists outs s, exec fuel ops brc_init = Some (outs, s) /\ lifo_ok ops outs [] /\ reachable s /\
                 brc_m_nCounter s = Z.of_nat (final ops 0) /\ outs = outputs ops 0.
Proof.
  intros Hf Hv. exists (outputs ops 0), (st (Z.of_nat (final ops 0))).
  split; [apply (exec_closed_form fuel Hf ops 0 Hv); unfold brc_max; cbn; lia|].
  split; [apply (outputs_lifo ops 0 Hv)|].
  assert (Hfin : forall ops c, valid ops c -> Z.of_nat c <= brc_max -> Z.of_nat (final ops c) <= brc_max).
  { clear. induction ops as [|o r IH]; intros c Hv Hc; [exact Hc|].
    destruct o; cbn [valid final] in *.
    - destruct Hv as [Hlt Hv]. apply IH; [assumption|lia].
    - destruct c as [|c']; [contradiction|]. apply IH; [assumption|cbn [Nat.pred]; lia]. }
  split; [apply reachable_st; split; [lia|apply Hfin; [assumption|unfold brc_max; cbn; lia]]|].
  split; [apply st_counter|reflexivity].
Qed.

(** ** Integer intervals as lists *)

Fixpoint zseq (lo : Z) (n : nat) : list Z :=
  match n with O => [] | S n' => lo :: zseq (lo + 1) n' end.

Lemma zseq_length lo n : length (zseq lo n) = n.
Proof. revert lo. induction n; intros; cbn; [reflexivity|now rewrite IHn]. Qed.

Lemma zseq_in lo n x : In x (zseq lo n) <-> lo <= x < lo + Z.of_nat n.
Proof.
  revert lo. induction n as [|n IH]; intros lo; cbn [zseq In].
  - lia.
  - rewrite IH. lia.
Qed.

Lemma zseq_nodup lo n : NoDup (zseq lo n).
Proof.
  revert lo. induction n as [|n IH]; intros lo; cbn [zseq]; constructor; [|apply IH].
  rewrite zseq_in. lia.
Qed.

Lemma zseq_app lo a b : zseq lo (a + b) = zseq lo a ++ zseq (lo + Z.of_nat a) b.
Proof.
  revert lo. induction a as [|a IH]; intros lo.
  - cbn. f_equal. lia.
  - cbn [zseq Nat.add app]. f_equal. rewrite IH. do 2 f_equal. lia.
Qed.

Lemma zseq_nth lo n i d : (i < n)%nat -> nth i (zseq lo n) d = lo + Z.of_nat i.
Proof.
  revert lo i. induction n as [|n IH]; intros lo i Hi; [lia|].
  destruct i as [|i]; cbn [zseq nth]; [lia|]. rewrite IH by lia. lia.
Qed.

Lemma skipn_app_exact {A} (l1 l2 : list A) n : length l1 = n -> skipn n (l1 ++ l2) = l2.
Proof. intros <-. induction l1; cbn; auto. Qed.

Lemma firstn_app_exact {A} (l1 l2 : list A) n : length l1 = n -> firstn n (l1 ++ l2) = l1.
Proof. intros <-. induction l1; cbn; [reflexivity|]. now f_equal. Qed.

Lemma NoDup_map_inj_on {A B} (f : A -> B) l :
  (forall x y, In x l -> In y l -> f x = f y -> x = y) -> NoDup l -> NoDup (map f l).
Proof.
  intros Hinj Hnd. induction Hnd as [|a l Hna Hnd IH]; cbn; constructor.
  - intros Hin. apply in_map_iff in Hin as [y [Hy Hin]].
    assert (y = a) by (apply Hinj; cbn; auto). subst. contradiction.
  - apply IH. intros x y Hx Hy. apply Hinj; cbn; auto.
Qed.

(** ** The slot sequence as a list *)

Definition slots (lo : Z) (n : nat) : list Z := map slot_of (zseq lo n).

Lemma slots_length lo n : length (slots lo n) = n.
Proof. unfold slots. now rewrite map_length, zseq_length. Qed.

Lemma slots_nth lo n i : (i < n)%nat -> nth i (slots lo n) 0 = slot_of (lo + Z.of_nat i).
Proof.
  intros Hi. unfold slots. rewrite nth_indep with (d' := slot_of 0) by (now rewrite map_length, zseq_length).
  rewrite map_nth, zseq_nth by assumption. reflexivity.
Qed.

Lemma slot_of_inj x y : 1 <= x -> 1 <= y -> slot_of x = slot_of y -> x = y.
Proof. intros Hx Hy H. rewrite <- (slot_of_involutive x Hx), <- (slot_of_involutive y Hy). now f_equal. Qed.

Lemma slot_of_pos n : 1 <= n -> 1 <= slot_of n.
Proof.
  intros Hn. pose proof (slot_of_level n Hn). destruct (log2_bounds n Hn) as [Hh _].
  assert (0 < 2 ^ Z.log2 n) by (apply pow2_pos; lia). lia.
Qed.

Lemma slots_nodup lo n : 1 <= lo -> NoDup (slots lo n).
Proof.
  intros Hlo. unfold slots. apply NoDup_map_inj_on; [|apply zseq_nodup].
  intros x y Hx Hy. apply zseq_in in Hx, Hy. apply slot_of_inj; lia.
Qed.

(** An interval closed under [slot_of] is permuted by it. *)
Lemma slots_permutation lo n :
  1 <= lo -> (forall x, lo <= x < lo + Z.of_nat n -> lo <= slot_of x < lo + Z.of_nat n) ->
  Permutation (slots lo n) (zseq lo n).
Proof.
  intros Hlo Hcl. apply NoDup_Permutation; [apply slots_nodup, Hlo|apply zseq_nodup|].
  intros x. unfold slots. rewrite in_map_iff. split.
  - intros [y [<- Hy]]. apply zseq_in in Hy. apply zseq_in. apply Hcl, Hy.
  - intros Hx. apply zseq_in in Hx. exists (slot_of x). split; [apply slot_of_involutive; lia|].
    apply zseq_in. apply Hcl, Hx.
Qed.

Lemma of_nat_pow2 k : Z.of_nat (2 ^ k) = 2 ^ Z.of_nat k.
Proof. rewrite Nat2Z.inj_pow. reflexivity. Qed.

Lemma level_permutation_math (k : nat) :
  Permutation (slots (2 ^ Z.of_nat k) (2 ^ k)) (zseq (2 ^ Z.of_nat k) (2 ^ k)).
Proof.
  assert (Hp : 0 < 2 ^ Z.of_nat k) by (apply pow2_pos; lia).
  apply slots_permutation; [lia|]. rewrite of_nat_pow2. intros x Hx.
  assert (Hl : Z.log2 x = Z.of_nat k) by (apply log2_unique'; lia).
  pose proof (slot_of_level x ltac:(lia)) as H. rewrite Hl in H. lia.
Qed.

Lemma prefix_closed (K : Z) x : 0 <= K -> 1 <= x < 2 ^ K -> 1 <= slot_of x < 2 ^ K.
Proof.
  intros HK Hx. split; [apply slot_of_pos; lia|].
  destruct (log2_bounds x ltac:(lia)) as [Hh Hb]. pose proof (slot_of_level x ltac:(lia)) as Hs.
  assert (Z.log2 x < K) by (apply Z.log2_lt_pow2; lia).
  assert (2 ^ (Z.log2 x + 1) <= 2 ^ K) by (apply pow2_le_mono; lia).
  rewrite pow2_succ in H0 by lia. lia.
Qed.

Lemma full_levels_prefix_math (k : nat) :
  Permutation (slots 1 (2 ^ k - 1)) (zseq 1 (2 ^ k - 1)).
Proof.
  apply slots_permutation; [lia|]. intros x Hx.
  assert (Hk : (1 <= 2 ^ k)%nat) by (clear; induction k; cbn; lia).
  rewrite Nat2Z.inj_sub, of_nat_pow2 in Hx |- * by lia. cbn [Z.of_nat] in *.
  pose proof (prefix_closed (Z.of_nat k) x). lia.
Qed.

(** The parent of every slot beyond the root was produced strictly earlier. *)
Lemma slot_parent n : 2 <= n -> exists m, 1 <= m < n /\ slot_of m = slot_of n / 2.
Proof.
  intros Hn. destruct (log2_bounds n ltac:(lia)) as [Hh Hb]. pose proof (slot_of_level n ltac:(lia)) as Hs.
  set (h := Z.log2 n) in *.
  assert (1 <= h).
  { destruct (Z.eq_dec h 0) as [E|]; [|lia]. rewrite E in Hb. change (2 ^ 0) with 1 in Hb. lia. }
  assert (Hpp : 2 ^ h = 2 * 2 ^ (h - 1)).
  { replace h with ((h - 1) + 1) at 1 by lia. apply pow2_succ. lia. }
  assert (Hp : 0 < 2 ^ (h - 1)) by (apply pow2_pos; lia).
  set (p := slot_of n / 2).
  assert (Hpr : 2 ^ (h - 1) <= p < 2 * 2 ^ (h - 1)).
  { unfold p. split.
    - apply Z.div_le_lower_bound; lia.
    - apply Z.div_lt_upper_bound; lia. }
  assert (Hlp : Z.log2 p = h - 1) by (apply log2_unique'; lia).
  exists (slot_of p). pose proof (slot_of_level p ltac:(lia)) as Hsp. rewrite Hlp in Hsp.
  split; [lia|]. apply slot_of_involutive. lia.
Qed.

(** ** The first n increments on the generated code *)

Fixpoint inc_slots (fuel : nat) (n : nat) (s : brc) : option (list Z * brc) :=
  match n with
  | O => Some ([], s)
  | S n' => '(v, s1) <- brc_inc fuel s ;; '(vs, s2) <- inc_slots fuel n' s1 ;; Some (v :: vs, s2)
  end.

Lemma inc_slots_closed_form fuel : (64 <= fuel)%nat -> forall n c,
  0 <= c -> c + Z.of_nat n <= brc_max ->
  inc_slots fuel n (st c) = Some (slots (c + 1) n, st (c + Z.of_nat n)).
Proof.
  intros Hf. induction n as [|n IH]; intros c Hc Hb.
  - cbn. do 3 f_equal. lia.
  - cbn [inc_slots]. rewrite inc_st by lia. cbn [obind]. rewrite IH by lia. cbn [obind].
    unfold slots. cbn [zseq map]. do 3 f_equal. lia.
Qed.

Lemma first_slots_closed_form fuel n :
  (64 <= fuel)%nat -> Z.of_nat n <= brc_max ->
  inc_slots fuel n brc_init = Some (slots 1 n, st (Z.of_nat n)).
Proof.
  intros Hf Hn. rewrite <- st_0. rewrite inc_slots_closed_form by lia. reflexivity.
Qed.

(** ** List theorems about the generated code *)

Definition first_slots_sat (P : nat -> list Z -> Prop) : Prop :=
  forall fuel n, (64 <= fuel)%nat -> Z.of_nat n <= brc_max ->
  exists l s, inc_slots fuel n brc_init = Some (l, s) /\ length l = n /\ reachable s /\
              brc_m_nCounter s = Z.of_nat n /\ P n l.

Lemma first_slots_sat_intro (P : nat -> list Z -> Prop) :
  (forall n, Z.of_nat n <= brc_max -> P n (slots 1 n)) -> first_slots_sat P.
Proof.
  intros H fuel n Hf Hn. exists (slots 1 n), (st (Z.of_nat n)).
  split; [apply first_slots_closed_form; assumption|].
  split; [apply slots_length|]. split; [apply reachable_st; lia|]. split; [apply st_counter|]. apply H, Hn.
Qed.

Theorem slots_distinct : first_slots_sat (fun n l => NoDup l).
Proof. apply first_slots_sat_intro. intros n _. apply slots_nodup. lia. Qed.

Lemma pow2_nat_pos k : (1 <= 2 ^ k)%nat.
Proof. induction k; cbn; lia. Qed.

Theorem level_permutation :
  first_slots_sat (fun n l => forall k : nat, (2 ^ (k + 1) - 1 <= n)%nat ->
     Permutation (firstn (2 ^ k) (skipn (2 ^ k - 1) l)) (zseq (2 ^ Z.of_nat k) (2 ^ k))).
Proof.
  apply first_slots_sat_intro. intros n _ k Hk.
  pose proof (pow2_nat_pos k) as Hp.
  assert (H2 : (2 ^ (k + 1) = 2 * 2 ^ k)%nat) by (rewrite Nat.add_1_r; reflexivity).
  replace n with ((2 ^ k - 1) + (2 ^ k + (n - (2 ^ (k + 1) - 1))))%nat by lia.
  unfold slots. rewrite zseq_app, zseq_app, !map_app.
  rewrite skipn_app_exact by (now rewrite map_length, zseq_length).
  rewrite firstn_app_exact by (now rewrite map_length, zseq_length).
  assert (Hz : 1 + Z.of_nat (2 ^ k - 1) = 2 ^ Z.of_nat k).
  { rewrite Nat2Z.inj_sub by lia. rewrite of_nat_pow2. change (Z.of_nat 1) with 1. lia. }
  rewrite Hz.
  apply level_permutation_math.
Qed.

Theorem full_levels_prefix :
  first_slots_sat (fun n l => forall k : nat, n = (2 ^ k - 1)%nat -> Permutation l (zseq 1 n)).
Proof.
  apply first_slots_sat_intro. intros n _ k ->. apply full_levels_prefix_math.
Qed.

Theorem parent_allocated_first :
  first_slots_sat (fun n l => forall i, (1 <= i < n)%nat -> exists j, (j < i)%nat /\ nth j l 0 = nth i l 0 / 2).
Proof.
  apply first_slots_sat_intro. intros n _ i Hi.
  destruct (slot_parent (1 + Z.of_nat i) ltac:(lia)) as [m [Hm He]].
  exists (Z.to_nat (m - 1)). split; [lia|].
  rewrite !slots_nth by lia. rewrite <- He. f_equal. lia.
Qed.

Theorem slot_below_ceil2 :
  first_slots_sat (fun n l => forall i, (i < n)%nat ->
     2 ^ Z.log2 (Z.of_nat (S i)) <= nth i l 0 < 2 * 2 ^ Z.log2 (Z.of_nat (S i))).
Proof.
  apply first_slots_sat_intro. intros n _ i Hi. rewrite slots_nth by lia.
  replace (1 + Z.of_nat i) with (Z.of_nat (S i)) by lia. apply slot_of_level. lia.
Qed.

(** ** The property's first sentence, as stated, and its refutation *)

Definition prefix_permutation_statement : Prop :=
  forall fuel n l s, (64 <= fuel)%nat -> Z.of_nat n <= brc_max ->
    inc_slots fuel n brc_init = Some (l, s) -> Permutation l (zseq 1 n).

Theorem prefix_permutation_refuted :
  exists n l s, inc_slots 64 n brc_init = Some (l, s) /\ l = [1; 2; 3; 4; 6] /\ n = 5%nat /\
                ~ Permutation l (zseq 1 n).
Proof.
  exists 5%nat, [1; 2; 3; 4; 6], (mk_brc 5 6 2).
  split; [vm_compute; reflexivity|]. split; [reflexivity|]. split; [reflexivity|].
  intros HP. apply (Permutation_in 6) in HP; [|cbn; tauto].
  cbn in HP. intuition discriminate.
Qed.

Theorem prefix_permutation_statement_false : ~ prefix_permutation_statement.
Proof.
  intros H. destruct prefix_permutation_refuted as [n [l [s [He [_ [Hn Hnp]]]]]].
  apply Hnp. apply (H 64%nat n l s); [lia| |exact He].
  subst n. unfold brc_max. cbn. lia.
Qed.

(** The true part of the first sentence: full levels. *)
Theorem prefix_permutation_partial : forall fuel (k : nat), (64 <= fuel)%nat -> (k <= 64)%nat ->
  exists l s, inc_slots fuel (2 ^ k - 1) brc_init = Some (l, s) /\ Permutation l (zseq 1 (2 ^ k - 1)).
Proof.
  intros fuel k Hf Hk.
  assert (Hn : Z.of_nat (2 ^ k - 1) <= brc_max).
  { pose proof (pow2_nat_pos k). rewrite Nat2Z.inj_sub, of_nat_pow2 by lia. unfold brc_max.
    assert (2 ^ Z.of_nat k <= 2 ^ 64) by (apply pow2_le_mono; lia). change (Z.of_nat 1) with 1. lia. }
  destruct (full_levels_prefix fuel (2 ^ k - 1)%nat Hf Hn) as [l [s [He [_ [_ [_ HP]]]]]].
  exists l, s. split; [exact He|]. apply (HP k). reflexivity.
Qed.
