(** * C25_Popcount — [sbc32]/[sbc64]/[zbc32]/[zbc64] of cds/details/bitop_generic.h count bits (part (b)).
    Technique: a word is written in base 2^f as a list of digits ([fromd]); masking with a periodic mask,
    shifting by f and adding act digit-wise; the digit width doubles at each stage (1, 2, 4, 8). *)

Require Import ZArith Lia Bool List.
Require Import LV.Base.CInt LV.Proofs.C25_Bits LV.Gen.Gen_bitop.
Import ListNotations.
Local Open Scope Z_scope.

Fixpoint fromd (f : Z) (ds : list Z) : Z :=
  match ds with [] => 0 | d :: r => d + 2 ^ f * fromd f r end.

Definition digits_ok (f : Z) (ds : list Z) : Prop := Forall (fun d => 0 <= d < 2 ^ f) ds.

Lemma fromd_nonneg f ds : 0 <= f -> digits_ok f ds -> 0 <= fromd f ds.
Proof.
  intros Hf H. induction H; cbn [fromd]; [lia|].
  assert (0 < 2 ^ f) by (apply pow2_pos; lia). nia.
Qed.

Lemma testbit_digit f a B i :
  0 <= f -> 0 <= a < 2 ^ f -> 0 <= i ->
  Z.testbit (a + 2 ^ f * B) i = if i <? f then Z.testbit a i else Z.testbit B (i - f).
Proof.
  intros Hf Ha Hi. assert (0 < 2 ^ f) by (apply pow2_pos; lia).
  destruct (Z.ltb_spec i f).
  - rewrite <- (Z.mod_pow2_bits_low (a + 2 ^ f * B) f i) by lia.
    rewrite Z.mul_comm, Z.mod_add by lia. rewrite Z.mod_small by lia. reflexivity.
  - replace i with ((i - f) + f) at 1 by lia. rewrite <- Z.shiftr_spec by lia.
    rewrite Z.shiftr_div_pow2 by lia. rewrite Z.mul_comm, Z.div_add by lia.
    rewrite Z.div_small by lia. reflexivity.
Qed.

Lemma land_digit f a B m M :
  0 <= f -> 0 <= a < 2 ^ f -> 0 <= m < 2 ^ f ->
  Z.land (a + 2 ^ f * B) (m + 2 ^ f * M) = Z.land a m + 2 ^ f * Z.land B M.
Proof.
  intros Hf Ha Hm. apply Z.bits_inj'. intros i Hi.
  assert (Hl : 0 <= Z.land a m < 2 ^ f) by (apply land_range; lia).
  rewrite Z.land_spec, !testbit_digit by lia.
  destruct (i <? f); rewrite Z.land_spec; reflexivity.
Qed.

Fixpoint landl (ds ms : list Z) : list Z :=
  match ds, ms with
  | d :: ds', m :: ms' => Z.land d m :: landl ds' ms'
  | _, _ => []
  end.

Lemma land_fromd f ds ms :
  0 <= f -> digits_ok f ds -> digits_ok f ms -> Z.land (fromd f ds) (fromd f ms) = fromd f (landl ds ms).
Proof.
  intros Hf Hd. revert ms. induction Hd as [|d ds Hd0 Hd IH]; intros ms Hm.
  - reflexivity.
  - destruct Hm as [|m ms Hm0 Hm]; cbn [fromd landl]; [apply Z.land_0_r|].
    rewrite land_digit by lia. rewrite IH by assumption. reflexivity.
Qed.

Lemma shiftr_fromd f d ds : 0 <= f -> 0 <= d < 2 ^ f -> Z.shiftr (fromd f (d :: ds)) f = fromd f ds.
Proof.
  intros Hf Hd. cbn [fromd]. assert (0 < 2 ^ f) by (apply pow2_pos; lia).
  rewrite Z.shiftr_div_pow2 by lia. rewrite Z.mul_comm, Z.div_add by lia. rewrite Z.div_small by lia. lia.
Qed.

Lemma land_small_ones d k : 0 <= k -> 0 <= d < 2 ^ k -> Z.land d (2 ^ k - 1) = d.
Proof.
  intros Hk Hd. replace (2 ^ k - 1) with (Z.ones k) by (rewrite Z.ones_equiv; lia).
  rewrite Z.land_ones by lia. apply Z.mod_small. lia.
Qed.

(** Bits of a number, least significant first. *)
Fixpoint bitsl (n : nat) (x : Z) : list Z :=
  match n with O => [] | S n' => Z.b2z (Z.testbit x 0) :: bitsl n' (Z.shiftr x 1) end.

Lemma fromd_bitsl n x : 0 <= x < 2 ^ Z.of_nat n -> fromd 1 (bitsl n x) = x.
Proof.
  revert x. induction n; intros x Hx.
  - cbn in *. lia.
  - cbn [bitsl fromd]. rewrite IHn.
    + rewrite Z.bit0_odd, Z.shiftr_div_pow2 by lia. change (2 ^ 1) with 2.
      rewrite (Z.div_mod x 2) at 3 by lia. rewrite Zmod_odd. destruct (Z.odd x); cbn [Z.b2z]; lia.
    + rewrite Z.shiftr_div_pow2 by lia. change (2 ^ 1) with 2.
      rewrite Nat2Z.inj_succ, Z.pow_succ_r in Hx by lia.
      split; [apply Z.div_pos; lia|apply Z.div_lt_upper_bound; lia].
Qed.

Fixpoint zsum (l : list Z) : Z := match l with [] => 0 | a :: r => a + zsum r end.

Lemma popcount_nat_bitsl n x : popcount_nat n x = zsum (bitsl n x).
Proof. revert x. induction n; intros x; cbn [popcount_nat bitsl zsum]; [reflexivity|]. now rewrite IHn. Qed.

Lemma b2z_range b : 0 <= Z.b2z b <= 1.
Proof. destruct b; cbn; lia. Qed.

(** ** sbc32: the SWAR population count, stage by stage (statements generated, digits b/c/e/p) *)

Definition isbit (b : Z) : Prop := 0 <= b <= 1.

Lemma bitsl_length n x : length (bitsl n x) = n.
Proof. revert x; induction n; intros; cbn [bitsl length]; [reflexivity|now rewrite IHn]. Qed.
Lemma bitsl_bits n x : Forall isbit (bitsl n x).
Proof. revert x; induction n; intros; cbn [bitsl]; constructor; [apply b2z_range|apply IHn]. Qed.

Lemma land_1 d : 0 <= d <= 1 -> Z.land d 1 = d.
Proof. intros. apply (land_small_ones d 1); [lia|]. change (2 ^ 1) with 2. lia. Qed.
Lemma land_3 d : 0 <= d <= 3 -> Z.land d 3 = d.
Proof. intros. apply (land_small_ones d 2); [lia|]. change (2 ^ 2) with 4. lia. Qed.
Lemma land_15 d : 0 <= d <= 15 -> Z.land d 15 = d.
Proof. intros. apply (land_small_ones d 4); [lia|]. change (2 ^ 4) with 16. lia. Qed.

Ltac pow_lits := change (2 ^ 1) with 2 in *; change (2 ^ 2) with 4 in *; change (2 ^ 4) with 16 in *;
                 change (2 ^ 8) with 256 in *; change (2 ^ 32) with 4294967296 in *.
Ltac dok := unfold digits_ok; repeat (constructor; [pow_lits; lia|]); constructor.

Lemma sbc_stage1 b0 b1 b2 b3 b4 b5 b6 b7 b8 b9 b10 b11 b12 b13 b14 b15 b16 b17 b18 b19 b20 b21 b22 b23 b24 b25 b26 b27 b28 b29 b30 b31 (Hb0 : 0 <= b0 <= 1) (Hb1 : 0 <= b1 <= 1) (Hb2 : 0 <= b2 <= 1) (Hb3 : 0 <= b3 <= 1) (Hb4 : 0 <= b4 <= 1) (Hb5 : 0 <= b5 <= 1) (Hb6 : 0 <= b6 <= 1) (Hb7 : 0 <= b7 <= 1) (Hb8 : 0 <= b8 <= 1) (Hb9 : 0 <= b9 <= 1) (Hb10 : 0 <= b10 <= 1) (Hb11 : 0 <= b11 <= 1) (Hb12 : 0 <= b12 <= 1) (Hb13 : 0 <= b13 <= 1) (Hb14 : 0 <= b14 <= 1) (Hb15 : 0 <= b15 <= 1) (Hb16 : 0 <= b16 <= 1) (Hb17 : 0 <= b17 <= 1) (Hb18 : 0 <= b18 <= 1) (Hb19 : 0 <= b19 <= 1) (Hb20 : 0 <= b20 <= 1) (Hb21 : 0 <= b21 <= 1) (Hb22 : 0 <= b22 <= 1) (Hb23 : 0 <= b23 <= 1) (Hb24 : 0 <= b24 <= 1) (Hb25 : 0 <= b25 <= 1) (Hb26 : 0 <= b26 <= 1) (Hb27 : 0 <= b27 <= 1) (Hb28 : 0 <= b28 <= 1) (Hb29 : 0 <= b29 <= 1) (Hb30 : 0 <= b30 <= 1) (Hb31 : 0 <= b31 <= 1) :
  (fromd 1 [b0; b1; b2; b3; b4; b5; b6; b7; b8; b9; b10; b11; b12; b13; b14; b15; b16; b17; b18; b19; b20; b21; b22; b23; b24; b25; b26; b27; b28; b29; b30; b31] - Z.land (Z.shiftr (fromd 1 [b0; b1; b2; b3; b4; b5; b6; b7; b8; b9; b10; b11; b12; b13; b14; b15; b16; b17; b18; b19; b20; b21; b22; b23; b24; b25; b26; b27; b28; b29; b30; b31]) 1) 0x55555555) mod 2 ^ 32 = fromd 2 [b0 + b1; b2 + b3; b4 + b5; b6 + b7; b8 + b9; b10 + b11; b12 + b13; b14 + b15; b16 + b17; b18 + b19; b20 + b21; b22 + b23; b24 + b25; b26 + b27; b28 + b29; b30 + b31].
Proof.

  rewrite (shiftr_fromd 1) by lia.
  change 0x55555555 with (fromd 1 [1; 0; 1; 0; 1; 0; 1; 0; 1; 0; 1; 0; 1; 0; 1; 0; 1; 0; 1; 0; 1; 0; 1; 0; 1; 0; 1; 0; 1; 0; 1]).
  rewrite land_fromd by (try lia; dok). cbn [landl]. rewrite !land_1 by lia. rewrite !Z.land_0_r.
  cbn [fromd]. pow_lits. rewrite Z.mod_small by lia. lia.
Qed.

Lemma sbc_stage2 c0 c1 c2 c3 c4 c5 c6 c7 c8 c9 c10 c11 c12 c13 c14 c15 (Hc0 : 0 <= c0 <= 2) (Hc1 : 0 <= c1 <= 2) (Hc2 : 0 <= c2 <= 2) (Hc3 : 0 <= c3 <= 2) (Hc4 : 0 <= c4 <= 2) (Hc5 : 0 <= c5 <= 2) (Hc6 : 0 <= c6 <= 2) (Hc7 : 0 <= c7 <= 2) (Hc8 : 0 <= c8 <= 2) (Hc9 : 0 <= c9 <= 2) (Hc10 : 0 <= c10 <= 2) (Hc11 : 0 <= c11 <= 2) (Hc12 : 0 <= c12 <= 2) (Hc13 : 0 <= c13 <= 2) (Hc14 : 0 <= c14 <= 2) (Hc15 : 0 <= c15 <= 2) :
  (Z.land (fromd 2 [c0; c1; c2; c3; c4; c5; c6; c7; c8; c9; c10; c11; c12; c13; c14; c15]) 0x33333333 + Z.land (Z.shiftr (fromd 2 [c0; c1; c2; c3; c4; c5; c6; c7; c8; c9; c10; c11; c12; c13; c14; c15]) 2) 0x33333333) mod 2 ^ 32 = fromd 4 [c0 + c1; c2 + c3; c4 + c5; c6 + c7; c8 + c9; c10 + c11; c12 + c13; c14 + c15].
Proof.

  rewrite (shiftr_fromd 2) by (pow_lits; lia).
  change 0x33333333 with (fromd 2 [3; 0; 3; 0; 3; 0; 3; 0; 3; 0; 3; 0; 3; 0; 3; 0]) at 1.
  rewrite land_fromd by (try lia; dok). cbn [landl].
  change 0x33333333 with (fromd 2 [3; 0; 3; 0; 3; 0; 3; 0; 3; 0; 3; 0; 3; 0; 3]).
  rewrite land_fromd by (try lia; dok). cbn [landl]. rewrite !land_3 by lia. rewrite !Z.land_0_r.
  cbn [fromd]. pow_lits. rewrite Z.mod_small by lia. lia.
Qed.

Lemma sbc_stage3 e0 e1 e2 e3 e4 e5 e6 e7 (He0 : 0 <= e0 <= 4) (He1 : 0 <= e1 <= 4) (He2 : 0 <= e2 <= 4) (He3 : 0 <= e3 <= 4) (He4 : 0 <= e4 <= 4) (He5 : 0 <= e5 <= 4) (He6 : 0 <= e6 <= 4) (He7 : 0 <= e7 <= 4) :
  Z.land ((fromd 4 [e0; e1; e2; e3; e4; e5; e6; e7] + Z.shiftr (fromd 4 [e0; e1; e2; e3; e4; e5; e6; e7]) 4) mod 2 ^ 32) 0xf0f0f0f = fromd 8 [e0 + e1; e2 + e3; e4 + e5; e6 + e7].
Proof.

  rewrite (shiftr_fromd 4) by (pow_lits; lia).
  replace ((fromd 4 [e0; e1; e2; e3; e4; e5; e6; e7] + fromd 4 [e1; e2; e3; e4; e5; e6; e7]) mod 2 ^ 32) with (fromd 4 [e0 + e1; e1 + e2; e2 + e3; e3 + e4; e4 + e5; e5 + e6; e6 + e7; e7])
    by (cbn [fromd]; pow_lits; rewrite Z.mod_small by lia; lia).
  change 0xf0f0f0f with (fromd 4 [15; 0; 15; 0; 15; 0; 15; 0]).
  rewrite land_fromd by (try lia; dok). cbn [landl]. rewrite !land_15 by lia. rewrite !Z.land_0_r.
  cbn [fromd]. pow_lits. lia.
Qed.

Lemma sbc_stage4 p0 p1 p2 p3 (Hp0 : 0 <= p0 <= 8) (Hp1 : 0 <= p1 <= 8) (Hp2 : 0 <= p2 <= 8) (Hp3 : 0 <= p3 <= 8) :
  Z.shiftr ((fromd 8 [p0; p1; p2; p3] * 0x1010101) mod 2 ^ 32) 24 = p0 + p1 + p2 + p3.
Proof.
  rewrite Z.shiftr_div_pow2 by lia. cbn [fromd]. pow_lits. change (2 ^ 24) with 16777216.
  Z.div_mod_to_equations. lia.
Qed.


Lemma sbc32_core l : length l = 32%nat -> Forall isbit l -> sbc32 (fromd 1 l) = Some (zsum l).
Proof.
  intros Hl Hb.
  destruct l as [|b0 l]; [discriminate Hl|].
  destruct l as [|b1 l]; [discriminate Hl|].
  destruct l as [|b2 l]; [discriminate Hl|].
  destruct l as [|b3 l]; [discriminate Hl|].
  destruct l as [|b4 l]; [discriminate Hl|].
  destruct l as [|b5 l]; [discriminate Hl|].
  destruct l as [|b6 l]; [discriminate Hl|].
  destruct l as [|b7 l]; [discriminate Hl|].
  destruct l as [|b8 l]; [discriminate Hl|].
  destruct l as [|b9 l]; [discriminate Hl|].
  destruct l as [|b10 l]; [discriminate Hl|].
  destruct l as [|b11 l]; [discriminate Hl|].
  destruct l as [|b12 l]; [discriminate Hl|].
  destruct l as [|b13 l]; [discriminate Hl|].
  destruct l as [|b14 l]; [discriminate Hl|].
  destruct l as [|b15 l]; [discriminate Hl|].
  destruct l as [|b16 l]; [discriminate Hl|].
  destruct l as [|b17 l]; [discriminate Hl|].
  destruct l as [|b18 l]; [discriminate Hl|].
  destruct l as [|b19 l]; [discriminate Hl|].
  destruct l as [|b20 l]; [discriminate Hl|].
  destruct l as [|b21 l]; [discriminate Hl|].
  destruct l as [|b22 l]; [discriminate Hl|].
  destruct l as [|b23 l]; [discriminate Hl|].
  destruct l as [|b24 l]; [discriminate Hl|].
  destruct l as [|b25 l]; [discriminate Hl|].
  destruct l as [|b26 l]; [discriminate Hl|].
  destruct l as [|b27 l]; [discriminate Hl|].
  destruct l as [|b28 l]; [discriminate Hl|].
  destruct l as [|b29 l]; [discriminate Hl|].
  destruct l as [|b30 l]; [discriminate Hl|].
  destruct l as [|b31 l]; [discriminate Hl|].
  destruct l; [|discriminate Hl]. clear Hl.
  repeat match goal with H : Forall _ (_ :: _) |- _ => inversion_clear H end.
  unfold isbit in *.
  unfold sbc32. monad_run. unfold c_and, usub, uadd, umul. cbn [ibits u32].
  rewrite sbc_stage1 by assumption.
  rewrite sbc_stage2 by lia.
  rewrite sbc_stage3 by lia.
  rewrite sbc_stage4 by lia.
  f_equal. cbn [zsum]. unfold cast. rewrite wrap_id; [lia|reflexivity|apply in_range_i32; lia].
Qed.

Local Transparent popcount.

Lemma sbc32_spec x : 0 <= x < 2 ^ 32 -> sbc32 x = Some (popcount 32 x).
Proof.
  intros Hx. unfold popcount. change (Z.to_nat 32) with 32%nat. rewrite popcount_nat_bitsl.
  rewrite <- (fromd_bitsl 32 x Hx) at 1. apply sbc32_core; [apply bitsl_length|apply bitsl_bits].
Qed.

(** ** 64-bit and zero-bit counts *)

Lemma popcount_nat_add n m x :
  popcount_nat (n + m) x = popcount_nat n x + popcount_nat m (Z.shiftr x (Z.of_nat n)).
Proof.
  revert x. induction n; intros x.
  - cbn [plus popcount_nat Z.of_nat]. rewrite Z.shiftr_0_r. lia.
  - cbn [plus popcount_nat]. rewrite IHn. rewrite Z.shiftr_shiftr by lia.
    replace (1 + Z.of_nat n) with (Z.of_nat (S n)) by lia. lia.
Qed.

Lemma shiftr1_mod x n : 0 <= n -> Z.shiftr (x mod 2 ^ (n + 1)) 1 = Z.shiftr x 1 mod 2 ^ n.
Proof.
  intros Hn. apply Z.bits_inj'. intros i Hi. rewrite Z.shiftr_spec by lia.
  destruct (Z_lt_le_dec i n).
  - rewrite !Z.mod_pow2_bits_low by lia. rewrite Z.shiftr_spec by lia. reflexivity.
  - rewrite !Z.mod_pow2_bits_high by lia. reflexivity.
Qed.

Lemma popcount_nat_mod n x : popcount_nat n (x mod 2 ^ Z.of_nat n) = popcount_nat n x.
Proof.
  revert x. induction n; intros x; [reflexivity|].
  cbn [popcount_nat]. rewrite Z.mod_pow2_bits_low by lia.
  replace (Z.of_nat (S n)) with (Z.of_nat n + 1) by lia. rewrite shiftr1_mod by lia. rewrite IHn. reflexivity.
Qed.

Lemma popcount_range w x : 0 <= w -> 0 <= popcount w x <= w.
Proof. intros. unfold popcount. pose proof (popcount_nat_range (Z.to_nat w) x). lia. Qed.

Lemma popcount64_halves x :
  popcount 64 x = popcount 32 (Z.shiftr x 32 mod 2 ^ 32) + popcount 32 (x mod 2 ^ 32).
Proof.
  unfold popcount. change (Z.to_nat 64) with (32 + 32)%nat. change (Z.to_nat 32) with 32%nat.
  rewrite popcount_nat_add. change (2 ^ 32) with (2 ^ Z.of_nat 32). rewrite !popcount_nat_mod.
  change (Z.of_nat 32) with 32. lia.
Qed.

Lemma sbc64_spec x : 0 <= x < 2 ^ 64 -> sbc64 x = Some (popcount 64 x).
Proof.
  intros Hx. unfold sbc64. monad_run. rewrite !cast_u32.
  rewrite sbc32_spec by (apply mod_range; lia). monad_run.
  rewrite sbc32_spec by (apply mod_range; lia). monad_run.
  pose proof (popcount_range 32 (Z.shiftr x 32 mod 2 ^ 32) ltac:(lia)).
  pose proof (popcount_range 32 (x mod 2 ^ 32) ltac:(lia)).
  rewrite sadd_i32 by lia. cbn [obind]. f_equal. symmetry. apply popcount64_halves.
Qed.

Lemma zbc32_spec x : 0 <= x < 2 ^ 32 -> zbc32 x = Some (32 - popcount 32 x).
Proof.
  intros Hx. unfold zbc32. rewrite sbc32_spec by assumption. cbn [obind].
  pose proof (popcount_range 32 x ltac:(lia)). rewrite ssub_i32 by lia. reflexivity.
Qed.

Lemma zbc64_spec x : 0 <= x < 2 ^ 64 -> zbc64 x = Some (64 - popcount 64 x).
Proof.
  intros Hx. unfold zbc64. rewrite sbc64_spec by assumption. cbn [obind].
  pose proof (popcount_range 64 x ltac:(lia)). rewrite ssub_i32 by lia. reflexivity.
Qed.

(** [popcount w x] counts the set bits among the low w bits: characterisation used in Properties. *)
Lemma popcount_succ w x : 0 <= w -> popcount (w + 1) x = popcount w x + Z.b2z (Z.testbit x w).
Proof.
  intros Hw. unfold popcount. replace (Z.to_nat (w + 1)) with (Z.to_nat w + 1)%nat by lia.
  rewrite popcount_nat_add. cbn [popcount_nat]. rewrite Z2Nat.id by lia.
  rewrite Z.shiftr_spec by lia. rewrite Z.add_0_l. lia.
Qed.

Lemma popcount_0 x : popcount 0 x = 0.
Proof. reflexivity. Qed.
