(** * C27_Order — the arithmetic of split ordering, on the reference bit reversal [rev 64] of C25_Bits.

    Nothing here mentions the generated code: [so_regular] / [so_dummy] / [so_parent] are the mathematical
    functions that C27_Gen.v proves the generated [regular_hash] / [dummy_hash] / [parent_bucket] compute.

    Key fact ([rev_block]): [rev 64] is order-reversing on suffixes — the hashes with the same low [k] bits [b]
    are exactly those whose reversal lies in the aligned block [[rev 64 b, rev 64 b + 2^(64-k))]. *)

Require Import ZArith Lia Bool List Sorted.
Require Import LV.Base.CInt LV.Proofs.C25_Bits.
Import ListNotations.
Local Open Scope Z_scope.

Definition so_regular (h : Z) : Z := Z.lor (rev 64 h) 1.
Definition so_dummy (b : Z) : Z := Z.land (rev 64 b) (2 ^ 64 - 2).
Definition so_parent (b : Z) : Z := b - 2 ^ Z.log2 b.

(** ** Small facts about [lor _ 1] and [land _ (2^64-2)] *)

Lemma lor1_odd x : Z.odd (Z.lor x 1) = true.
Proof. rewrite <- Z.bit0_odd, Z.lor_spec. change (Z.testbit 1 0) with true. apply orb_true_r. Qed.

Lemma lor1_range x : 0 <= x < 2 ^ 64 -> 0 <= Z.lor x 1 < 2 ^ 64.
Proof. intros. apply lor_range; lia. Qed.

Lemma shiftr_lor1 x n : 1 <= n -> Z.shiftr (Z.lor x 1) n = Z.shiftr x n.
Proof.
  intros Hn. rewrite Z.shiftr_lor. replace (Z.shiftr 1 n) with 0; [apply Z.lor_0_r|].
  symmetry. rewrite Z.shiftr_div_pow2 by lia. apply Z.div_small.
  assert (2 ^ 1 <= 2 ^ n) by (apply Z.pow_le_mono_r; lia). lia.
Qed.

Lemma land_even_mask x : 0 <= x < 2 ^ 64 -> Z.land x (2 ^ 64 - 2) = 2 * (x / 2).
Proof.
  intros Hx. change (2 ^ 64 - 2) with (Z.shiftl (Z.ones 63) 1).
  apply Z.bits_inj'. intros i Hi. rewrite Z.land_spec.
  destruct (Z.eq_dec i 0) as [->|Hn].
  - rewrite Z.shiftl_spec_low by lia. rewrite andb_false_r.
    rewrite Z.mul_comm. change 2 with (2 ^ 1) at 2. rewrite Z.mul_pow2_bits_low by lia. reflexivity.
  - rewrite Z.shiftl_spec by lia.
    replace (2 * (x / 2)) with (Z.shiftl (Z.shiftr x 1) 1).
    2:{ rewrite Z.shiftl_mul_pow2, Z.shiftr_div_pow2 by lia. change (2 ^ 1) with 2. lia. }
    rewrite Z.shiftl_spec, Z.shiftr_spec by lia. replace (i - 1 + 1) with i by lia.
    destruct (Z_lt_le_dec i 64).
    + rewrite Z.ones_spec_low by lia. apply andb_true_r.
    + rewrite (testbit_high x 64 i) by lia. reflexivity.
Qed.

Lemma land_even_mask_even x : 0 <= x < 2 ^ 64 -> Z.even x = true -> Z.land x (2 ^ 64 - 2) = x.
Proof.
  intros Hx He. rewrite land_even_mask by assumption.
  apply Zeven_bool_iff in He. apply Zeven_div2 in He. rewrite Z.div2_div in He. lia.
Qed.

Lemma so_regular_odd h : Z.odd (so_regular h) = true.
Proof. apply lor1_odd. Qed.

Lemma so_regular_range h : 0 <= so_regular h < 2 ^ 64.
Proof. apply lor1_range, rev_range. lia. Qed.

Lemma so_dummy_even b : Z.even (so_dummy b) = true.
Proof.
  unfold so_dummy. rewrite land_even_mask by (apply rev_range; lia).
  rewrite Z.even_mul. reflexivity.
Qed.

Lemma so_dummy_range b : 0 <= so_dummy b < 2 ^ 64.
Proof. apply land_range_l; [lia|apply rev_range; lia|lia]. Qed.

(** ** The block lemma *)

(** Reversal of the low [k] bits = the reversal with its low [64-k] bits cleared. *)
Lemma rev_block k h : 0 <= k <= 64 -> 0 <= h < 2 ^ 64 ->
  rev 64 (h mod 2 ^ k) = 2 ^ (64 - k) * (rev 64 h / 2 ^ (64 - k)).
Proof.
  intros Hk Hh.
  replace (2 ^ (64 - k) * (rev 64 h / 2 ^ (64 - k))) with (Z.shiftl (Z.shiftr (rev 64 h) (64 - k)) (64 - k)).
  2:{ rewrite Z.shiftl_mul_pow2, Z.shiftr_div_pow2 by lia. lia. }
  pose proof (rev_range 64 h ltac:(lia)) as Hr.
  assert (Hq : 0 <= Z.shiftl (Z.shiftr (rev 64 h) (64 - k)) (64 - k) < 2 ^ 64).
  { rewrite Z.shiftl_mul_pow2, Z.shiftr_div_pow2 by lia.
    assert (0 < 2 ^ (64 - k)) by (apply pow2_pos; lia).
    pose proof (Z.mul_div_le (rev 64 h) (2 ^ (64 - k)) ltac:(lia)).
    assert (0 <= rev 64 h / 2 ^ (64 - k)) by (apply Z.div_pos; lia). nia. }
  apply (eq_by_bits 64); [lia|apply rev_range; lia|exact Hq|].
  intros i Hi. rewrite rev_spec by lia.
  destruct (Z_lt_le_dec i (64 - k)).
  - rewrite Z.shiftl_spec_low by lia. apply Z.mod_pow2_bits_high. lia.
  - rewrite Z.shiftl_spec, Z.shiftr_spec by lia. replace (i - (64 - k) + (64 - k)) with i by lia.
    rewrite rev_spec by lia. apply Z.mod_pow2_bits_low. lia.
Qed.

(** For a bucket number [b < 2^k] the reversal is a multiple of [2^(64-k)]. *)
Lemma rev_bucket_aligned k b : 0 <= k <= 64 -> 0 <= b < 2 ^ k ->
  rev 64 b = 2 ^ (64 - k) * (rev 64 b / 2 ^ (64 - k)).
Proof.
  intros Hk Hb.
  assert (2 ^ k <= 2 ^ 64) by (apply Z.pow_le_mono_r; lia).
  rewrite <- (Z.mod_small b (2 ^ k)) at 1 by lia. apply rev_block; lia.
Qed.

(** [h]'s reversal lies in the block of its bucket ... *)
Lemma rev_in_block k h : 0 <= k <= 64 -> 0 <= h < 2 ^ 64 ->
  rev 64 (h mod 2 ^ k) <= rev 64 h < rev 64 (h mod 2 ^ k) + 2 ^ (64 - k).
Proof.
  intros Hk Hh. rewrite rev_block by assumption.
  assert (0 < 2 ^ (64 - k)) by (apply pow2_pos; lia).
  pose proof (Z.div_mod (rev 64 h) (2 ^ (64 - k)) ltac:(lia)).
  pose proof (Z.mod_pos_bound (rev 64 h) (2 ^ (64 - k)) ltac:(lia)). lia.
Qed.

(** ... and conversely the block of [b] contains only reversals of hashes of bucket [b]. *)
Lemma rev_block_inv k h b : 0 <= k <= 64 -> 0 <= h < 2 ^ 64 -> 0 <= b < 2 ^ k ->
  rev 64 b <= rev 64 h < rev 64 b + 2 ^ (64 - k) -> h mod 2 ^ k = b.
Proof.
  intros Hk Hh Hb Hin.
  assert (Hp : 0 < 2 ^ (64 - k)) by (apply pow2_pos; lia).
  assert (H64 : 2 ^ k <= 2 ^ 64) by (apply Z.pow_le_mono_r; lia).
  pose proof (rev_bucket_aligned k b Hk Hb) as Hal.
  assert (Hq : rev 64 h / 2 ^ (64 - k) = rev 64 b / 2 ^ (64 - k)).
  { symmetry. apply (Z.div_unique _ _ _ (rev 64 h - rev 64 b)); lia. }
  pose proof (rev_block k h Hk Hh) as Hbl. rewrite Hq, <- Hal in Hbl.
  pose proof (mod_range h k ltac:(lia)).
  rewrite <- (rev_involutive 64 (h mod 2 ^ k)) by lia.
  rewrite Hbl. apply rev_involutive; lia.
Qed.

(** ** Odd / even encodings inside the block (k <= 63: the block has at least two elements) *)

Lemma so_dummy_is_rev k b : 0 <= k <= 63 -> 0 <= b < 2 ^ k -> so_dummy b = rev 64 b.
Proof.
  intros Hk Hb. unfold so_dummy. apply land_even_mask_even; [apply rev_range; lia|].
  rewrite (rev_bucket_aligned k b) by lia.
  replace (64 - k) with (Z.succ (63 - k)) at 1 by lia. rewrite Z.pow_succ_r by lia.
  rewrite <- Z.mul_assoc, Z.even_mul. reflexivity.
Qed.

Lemma so_regular_block k h : 0 <= k <= 63 -> 0 <= h < 2 ^ 64 ->
  so_regular h / 2 ^ (64 - k) = rev 64 h / 2 ^ (64 - k).
Proof.
  intros Hk Hh. unfold so_regular. rewrite <- !Z.shiftr_div_pow2 by lia. apply shiftr_lor1. lia.
Qed.

(** The property: the regular key of [h] lies strictly after the dummy of its bucket [b = h mod 2^k], and strictly
    before the dummy of every bucket [b' < 2^k] that sorts after [b]. *)
Lemma so_contiguous k h : 0 <= k <= 63 -> 0 <= h < 2 ^ 64 ->
  let b := h mod 2 ^ k in
  so_dummy b < so_regular h /\
  forall b', 0 <= b' < 2 ^ k -> so_dummy b < so_dummy b' -> so_regular h < so_dummy b'.
Proof.
  intros Hk Hh b.
  assert (Hp : 0 < 2 ^ (64 - k)) by (apply pow2_pos; lia).
  pose proof (mod_range h k ltac:(lia)) as Hb. fold b in Hb.
  rewrite (so_dummy_is_rev k b) by lia.
  pose proof (rev_block k h ltac:(lia) Hh) as Hbl. fold b in Hbl.
  pose proof (so_regular_block k h Hk Hh) as Hrq.
  pose proof (Z.div_mod (so_regular h) (2 ^ (64 - k)) ltac:(lia)) as Hdm.
  pose proof (Z.mod_pos_bound (so_regular h) (2 ^ (64 - k)) ltac:(lia)) as Hmb.
  rewrite Hrq, <- Hbl in Hdm.
  split.
  - (* dummy b = rev b is even and <= regular h, which is odd *)
    assert (so_regular h <> rev 64 b).
    { intros E. pose proof (so_regular_odd h) as Ho. rewrite E in Ho.
      rewrite <- (so_dummy_is_rev k b) in Ho by lia. pose proof (so_dummy_even b) as He.
      rewrite <- Z.negb_odd, Ho in He. discriminate. }
    lia.
  - intros b' Hb' Hlt. rewrite (so_dummy_is_rev k b') in * by lia.
    pose proof (rev_bucket_aligned k b' ltac:(lia) Hb') as Hal'.
    pose proof (rev_bucket_aligned k b ltac:(lia) Hb) as Hal.
    (* both are multiples of 2^(64-k): rev b < rev b' implies rev b + 2^(64-k) <= rev b' *)
    set (P := 2 ^ (64 - k)) in *. set (q := rev 64 b / P) in *. set (q' := rev 64 b' / P) in *.
    assert (q < q') by nia. nia.
Qed.

(** The converse: a regular key that lies after the dummy of [b] and before every later dummy belongs to [b]. *)
Lemma so_contiguous_inv k h b : 0 <= k <= 63 -> 0 <= h < 2 ^ 64 -> 0 <= b < 2 ^ k ->
  so_dummy b < so_regular h ->
  (forall b', 0 <= b' < 2 ^ k -> so_dummy b < so_dummy b' -> so_regular h < so_dummy b') ->
  h mod 2 ^ k = b.
Proof.
  intros Hk Hh Hb Hlo Hhi.
  pose proof (mod_range h k ltac:(lia)) as Hb0. set (b0 := h mod 2 ^ k) in *.
  destruct (so_contiguous k h Hk Hh) as [H1 H2]. fold b0 in H1, H2.
  destruct (Z.lt_total (so_dummy b0) (so_dummy b)) as [Hc|[Hc|Hc]].
  - specialize (H2 b Hb Hc). lia.
  - rewrite (so_dummy_is_rev k b0), (so_dummy_is_rev k b) in Hc by lia.
    rewrite <- (rev_involutive 64 b0), Hc, rev_involutive; try lia.
    + assert (2 ^ k <= 2 ^ 64) by (apply Z.pow_le_mono_r; lia). lia.
    + assert (2 ^ k <= 2 ^ 64) by (apply Z.pow_le_mono_r; lia). lia.
  - specialize (Hhi b0 Hb0 Hc). lia.
Qed.

(** ** Parent bucket *)

Lemma so_parent_clearbit b : 0 < b -> so_parent b = Z.clearbit b (Z.log2 b).
Proof.
  intros Hb. unfold so_parent. pose proof (Z.log2_spec b Hb) as [Hlo Hhi]. pose proof (Z.log2_nonneg b) as Hm.
  set (m := Z.log2 b) in *.
  rewrite Z.pow_succ_r in Hhi by lia.
  assert (Hmod : b mod 2 ^ m = b - 2 ^ m).
  { symmetry. apply (Z.mod_unique_pos _ _ 1); lia. }
  rewrite <- Hmod. apply Z.bits_inj'. intros i Hi. rewrite Z.clearbit_eqb.
  destruct (Z_lt_le_dec i m).
  - rewrite Z.mod_pow2_bits_low by lia. replace (m =? i) with false by (symmetry; apply Z.eqb_neq; lia).
    now rewrite andb_true_r.
  - rewrite Z.mod_pow2_bits_high by lia.
    destruct (Z.eqb_spec m i); [now rewrite andb_false_r|].
    rewrite Z.bits_above_log2; [reflexivity|lia|fold m; lia].
Qed.

Lemma so_parent_lt b : 0 < b -> 0 <= so_parent b < b /\ so_parent b < 2 ^ Z.log2 b.
Proof.
  intros Hb. unfold so_parent. pose proof (Z.log2_spec b Hb) as [Hlo Hhi]. pose proof (Z.log2_nonneg b).
  rewrite Z.pow_succ_r in Hhi by lia. lia.
Qed.

(** the parent is the bucket [b]'s keys lived in before the table grew to contain [b] *)
Lemma so_parent_mod b : 0 < b -> so_parent b = b mod 2 ^ Z.log2 b.
Proof.
  intros Hb. unfold so_parent. pose proof (Z.log2_spec b Hb) as [Hlo Hhi]. pose proof (Z.log2_nonneg b).
  rewrite Z.pow_succ_r in Hhi by lia. apply (Z.mod_unique_pos _ _ 1); lia.
Qed.

Lemma rev_parent b : 0 < b < 2 ^ 64 -> rev 64 b = rev 64 (so_parent b) + 2 ^ (63 - Z.log2 b).
Proof.
  intros Hb. assert (Hb0 : 0 < b) by lia.
  pose proof (Z.log2_nonneg b) as Hm. assert (Hm64 : Z.log2 b < 64) by (apply Z.log2_lt_pow2; lia).
  rewrite (so_parent_clearbit b Hb0). set (m := Z.log2 b) in *.
  assert (Hdisj : Z.land (rev 64 (Z.clearbit b m)) (2 ^ (63 - m)) = 0).
  { apply Z.bits_inj'. intros i Hi. rewrite Z.land_spec, Z.bits_0, Z.pow2_bits_eqb by lia.
    destruct (Z.eqb_spec (63 - m) i) as [<-|]; [|apply andb_false_r].
    rewrite rev_spec by lia. rewrite Z.clearbit_eqb. replace (64 - 1 - (63 - m)) with m by lia.
    rewrite Z.eqb_refl. now rewrite andb_false_r. }
  rewrite Z.add_nocarry_lxor, Z.lxor_lor by exact Hdisj.
  assert (Hpow : 0 <= 2 ^ (63 - m) < 2 ^ 64).
  { split; [apply Z.pow_nonneg; lia|apply Z.pow_lt_mono_r; lia]. }
  apply (eq_by_bits 64); [lia|apply rev_range; lia|apply lor_range; [lia|apply rev_range; lia|exact Hpow]|].
  intros i Hi. rewrite Z.lor_spec, !rev_spec, Z.clearbit_eqb, Z.pow2_bits_eqb by lia.
  destruct (Z.eqb_spec (63 - m) i) as [<-|Hn].
  - replace (64 - 1 - (63 - m)) with m by lia. rewrite Z.eqb_refl, andb_false_r. cbn [orb].
    apply Z.bit_log2. lia.
  - replace (m =? 64 - 1 - i) with false by (symmetry; apply Z.eqb_neq; lia).
    now rewrite andb_true_r, orb_false_r.
Qed.

Lemma so_parent_dummy_lt b : 0 < b < 2 ^ 63 -> so_dummy (so_parent b) < so_dummy b.
Proof.
  intros Hb. assert (Hb0 : 0 < b) by lia.
  destruct (so_parent_lt b Hb0) as [Hp _].
  rewrite (so_dummy_is_rev 63 b), (so_dummy_is_rev 63 (so_parent b)) by lia.
  rewrite (rev_parent b) by lia.
  assert (0 < 2 ^ (63 - Z.log2 b)); [|lia].
  apply pow2_pos. assert (Z.log2 b < 63) by (apply Z.log2_lt_pow2; lia). lia.
Qed.

(** Initialising bucket [b] splits the segment of its parent in the table of [2^(log2 b)] buckets: the new dummy
    lies after the parent's dummy and before every dummy of that smaller table that follows the parent's. *)
Lemma so_dummy_parent_segment b : 0 < b < 2 ^ 63 ->
  so_dummy (so_parent b) < so_dummy b /\
  forall b2, 0 <= b2 < 2 ^ Z.log2 b -> so_dummy (so_parent b) < so_dummy b2 -> so_dummy b < so_dummy b2.
Proof.
  intros Hb. split; [apply so_parent_dummy_lt; assumption|].
  assert (Hb0 : 0 < b) by lia.
  pose proof (Z.log2_nonneg b) as Hm. assert (Hm63 : Z.log2 b < 63) by (apply Z.log2_lt_pow2; lia).
  destruct (so_parent_lt b Hb0) as [Hp Hp2].
  intros b2 Hb2. rewrite (so_dummy_is_rev 63 b) by lia.
  rewrite (so_dummy_is_rev (Z.log2 b) (so_parent b)), (so_dummy_is_rev (Z.log2 b) b2) by lia.
  intros Hlt.
  pose proof (rev_in_block (Z.log2 b) b ltac:(lia) ltac:(lia)) as Hin. rewrite <- so_parent_mod in Hin by lia.
  pose proof (rev_bucket_aligned (Z.log2 b) b2 ltac:(lia) Hb2) as Hal2.
  pose proof (rev_bucket_aligned (Z.log2 b) (so_parent b) ltac:(lia) ltac:(lia)) as Hal.
  assert (0 < 2 ^ (64 - Z.log2 b)) by (apply pow2_pos; lia).
  set (P := 2 ^ (64 - Z.log2 b)) in *. set (q := rev 64 (so_parent b) / P) in *. set (q2 := rev 64 b2 / P) in *.
  assert (q < q2) by nia. nia.
Qed.

(** At [b >= 2^63] (a table of 2^64 buckets, which [bucket_no] cannot address anyway) the encoding breaks down:
    the dummy of [2^63] collides with the dummy of its parent 0. *)
Lemma so_parent_dummy_collides_at_2p63 : so_dummy (so_parent (2 ^ 63)) = so_dummy (2 ^ 63).
Proof. vm_compute. reflexivity. Qed.

(** ** Sorted lists: traversal from a dummy *)

Lemma sorted_split (l1 l2 : list Z) x :
  StronglySorted Z.lt (l1 ++ x :: l2) ->
  Forall (fun y => y < x) l1 /\ Forall (fun y => x < y) l2 /\ StronglySorted Z.lt l2.
Proof.
  induction l1 as [|a l1 IH]; cbn [app]; intros H; inversion H as [|? ? Hs Hf]; subst.
  - repeat split; auto.
  - destruct (IH Hs) as (A & B & C). repeat split; auto. constructor; auto.
    rewrite Forall_forall in Hf. apply Hf. apply in_or_app. right. left. reflexivity.
Qed.

(** In a strictly sorted list containing [lo < hi], the list reads  l1 ++ lo :: mid ++ hi :: l3  with every
    element of [mid] strictly between. *)
Lemma sorted_between (L : list Z) lo hi :
  StronglySorted Z.lt L -> In lo L -> In hi L -> lo < hi ->
  exists l1 mid l3, L = l1 ++ lo :: mid ++ hi :: l3 /\ forall x, In x mid -> lo < x < hi.
Proof.
  intros Hs Hlo Hhi Hlt.
  destruct (in_split _ _ Hlo) as (l1 & l2 & ->).
  destruct (sorted_split _ _ _ Hs) as (F1 & F2 & S2).
  assert (Hin2 : In hi l2).
  { apply in_app_or in Hhi. destruct Hhi as [Hin|[Heq|Hin]]; [|lia|assumption].
    rewrite Forall_forall in F1. specialize (F1 _ Hin). lia. }
  destruct (in_split _ _ Hin2) as (mid & l3 & ->).
  destruct (sorted_split _ _ _ S2) as (G1 & _ & _).
  exists l1, mid, l3. split; [reflexivity|].
  intros x Hx. rewrite Forall_forall in F2, G1. split.
  - apply F2. apply in_or_app. left. assumption.
  - apply G1. assumption.
Qed.
