(** * Completeness of the FeldmanHashSet iterators at trace level, for every schedule.

    [steps c0 cs c]: an execution from [c0] to [c] with the list [cs] of all its configurations.
    [feldman_iter_complete_hash]: in every execution of LV.Model.FeldmanIter (any threads, any operations, any schedule),
    for every complete iteration of a thread [t] - invocation "inv 20|21 k", response "ret 1 0", no other invocation /
    response of [t] in between - every hash that is present in the tree in all configurations from the invocation up
    to the first configuration that contains the response has a "visit" event of [t] in between.
    [feldman_iter_visited_was_in]: every "visit k" of the iteration: k is the key of an element that was in the tree in one of
    these configurations.  [feldman_iter_complete_elem]: an element in the tree with a constant key in all of them is visited.
    [feldman_iter_erase_at], [removal_exact]: what "erased true / false" means (a removal step of this thread that takes exactly
    the visited element out of the tree / the element was seen to be nowhere).
    Proof: induction along the execution with the invariant [GI] (ConcRel.okR + FeldmanIterTraceInv.Emb per thread), each step
    decomposed by ConcRel.step_R into the ghost transition of its access and those of the emissions settled with it. *)
From Coq Require Import ZArith NArith List Bool Arith PeanoNat Lia String.
From LV Require Import Base.Conc Base.Events Model.Feldman Model.FeldmanIter.
From LV Require Proofs.FeldmanIterSafe Proofs.FeldmanIterThm.
From LV Require Import Proofs.FeldmanStepInv Proofs.FeldmanStepThm Proofs.ConcRel Proofs.FeldmanIterTraceDefs
                       Proofs.FeldmanIterTraceInv Proofs.FeldmanIterReachIter.
Import ListNotations.

Set Implicit Arguments.

Section Steps.
  Variables (G V E : Type).
  Notation config := (Conc.config G V E).

  Inductive steps (c0 : config) : list config -> config -> Prop :=
  | st_refl : steps c0 [c0] c0
  | st_step cs c t c' : steps c0 cs c -> Conc.step_cfg c t = Some c' -> steps c0 (cs ++ [c']) c'.

  Lemma reach_steps c0 c : Conc.reach c0 c <-> exists cs, steps c0 cs c.
  Proof.
    split.
    - intros H. induction H as [|c t c' H [cs IH] Hs]; [exists [c0]; constructor|]. exists (cs ++ [c']). econstructor; eauto.
    - intros [cs H]. induction H as [|cs c t c' H IH Hs]; [constructor|]. econstructor; eauto.
  Qed.

  Lemma steps_in_reach c0 cs c : steps c0 cs c -> forall c', In c' cs -> Conc.reach c0 c'.
  Proof.
    intros H. induction H as [|cs c t c' H IH Hs]; intros c1 H1.
    - destruct H1 as [<-|[]]. constructor.
    - apply in_app_or in H1. destruct H1 as [H1|[<-|[]]]; [apply IH; exact H1|].
      econstructor; [|exact Hs]. apply reach_steps. eauto.
  Qed.
End Steps.

Section Thm.
  Variables (hbits abits W : nat) (hs : list N).
  Hypothesis Hh : 0 < hbits.
  Hypothesis Ha : 0 < abits.

  Notation hash := (Feldman.hash hs).
  Notation Inv := (@FeldmanStepInv.Inv hbits abits hs).
  Notation present := (FeldmanStepThm.present hs).
  Notation SR := (@FeldmanIterTraceDefs.SR hs).
  Notation config := (Conc.config G V ev).
  Notation len := (@List.length (nat * ev)).
  Notation Emb := (@FeldmanIterTraceInv.Emb hs).
  Notation okR := (@ConcRel.okR G V ev Aux L WI view Inv SR).

  Lemma Emb_chunk t cs g' cg L :
    In cg cs -> Conc.shared cg = g' -> len (Conc.trace cg) = L -> (forall c', In c' cs -> len (Conc.trace c') <= L) ->
    forall tr es w w2, ConcRel.chunk SR t g' tr es w w2 -> Emb t cs tr w -> len tr + List.length es <= L ->
      (forall c', In c' cs -> len (Conc.trace c') <= len tr \/ len (Conc.trace c') = L) ->
      Emb t cs (tr ++ Conc.tag t es) w2.
  Proof.
    intros Hcg Hg HLc HL tr es w w2 Hch. induction Hch as [tr w|tr es es' w w1 w2 [_ HT] Hch IH]; intros HE Hlen Hcs.
    - cbn. rewrite app_nil_r. exact HE.
    - rewrite app_length in Hlen. rewrite Conc.tag_app, app_assoc. apply IH.
      + eapply Emb_TR; eauto. split; [exact Hcg|]. split; [exact Hg|]. split; [lia|left; reflexivity].
      + rewrite len_tag. lia.
      + intros c' Hc'. destruct (Hcs c' Hc') as [K|K]; [left; rewrite len_tag; lia|right; exact K].
  Qed.

  (** the invariant of an execution *)
  Definition GI (cs : list config) (c : config) : Prop :=
    exists a ws, okR c a ws /\ (forall c', In c' cs -> len (Conc.trace c') <= len (Conc.trace c)) /\ (exists l, cs = l ++ [c]) /\
                 forall t, Emb t cs (Conc.trace c) (ws t).

  Lemma GI_step cs c t c' : GI cs c -> Conc.step_cfg c t = Some c' -> GI (cs ++ [c']) c'.
  Proof.
    intros (a & ws & Hok & Hlen & (l0 & Hl0) & HE) Hs.
    assert (Hin : In c cs) by (rewrite Hl0; apply in_or_app; right; left; reflexivity).
    destruct (@ConcRel.step_R G V ev Aux L WI view Inv SR c t c' a ws Hok Hs) as (a' & es0 & es1 & w1 & w2 & Etr & [_ HT0] & Hch & Hok').
    assert (Ltr : len (Conc.trace c') = len (Conc.trace c) + List.length es0 + List.length es1).
    { rewrite Etr, len_tag, app_length. lia. }
    assert (Hlen' : forall c1, In c1 (cs ++ [c']) -> len (Conc.trace c1) <= len (Conc.trace c')).
    { intros c1 H1. apply in_app_or in H1. destruct H1 as [H1|[<-|[]]]; [specialize (Hlen c1 H1); lia|lia]. }
    assert (Hcs0 : forall c1, In c1 (cs ++ [c']) -> len (Conc.trace c1) <= len (Conc.trace c) \/ len (Conc.trace c1) = len (Conc.trace c')).
    { intros c1 H1. apply in_app_or in H1. destruct H1 as [H1|[<-|[]]]; [left; apply Hlen; exact H1|right; reflexivity]. }
    exists a', (ConcRel.updw ws t w2). split; [exact Hok'|]. split; [exact Hlen'|]. split; [exists cs; reflexivity|].
    intros u. unfold ConcRel.updw. destruct (Nat.eqb_spec u t) as [->|Hne].
    - assert (E0 : Emb t (cs ++ [c']) (Conc.trace c) (ws t)).
      { apply Emb_cs_ext; [apply HE|]. intros c1 H1. specialize (Hlen c1 H1). lia. }
      assert (E1 : Emb t (cs ++ [c']) (Conc.trace c ++ Conc.tag t es0) w1).
      { eapply Emb_TR with (cg := c) (L := len (Conc.trace c')); eauto.
        split; [apply in_or_app; left; exact Hin|]. split; [reflexivity|]. split; [apply le_n|]. right. exists c'.
        split; [exists l0, []; rewrite Hl0, <- app_assoc; reflexivity|]. split; [reflexivity|]. split; [reflexivity|].
        exists (es0 ++ es1). exact Etr. }
      rewrite Etr, Conc.tag_app, app_assoc.
      eapply Emb_chunk with (cg := c') (L := len (Conc.trace c')); eauto.
      + apply in_or_app; right; left; reflexivity.
      + rewrite len_tag. lia.
      + intros c1 H1. destruct (Hcs0 c1 H1) as [K|K]; [left; rewrite len_tag; lia|right; exact K].
    - rewrite Etr. apply Emb_other; [apply HE| |].
      + intros [u' e] Hx. apply in_tag in Hx. destruct Hx as [-> _]. cbn. auto.
      + intros c1 H1. specialize (Hlen c1 H1). lia.
  Qed.

  Lemma GI_init fuel ths : GI [init_cfgI hbits abits W hs fuel ths] (init_cfgI hbits abits W hs fuel ths).
  Proof.
    exists FeldmanStepSafe.A0, (fun _ => w0). split; [apply init_okRI; assumption|]. split.
    - intros c' [<-|[]]. lia.
    - split; [exists []; reflexivity|]. intros t. split; [apply TInv_init|].
      split; [intros X; discriminate X|]. split; [intros X; discriminate X|]. split; [intros X; discriminate X|].
      split; [apply Fin_init|apply FinE_init].
  Qed.

  Lemma GI_steps fuel ths cs c : steps (init_cfgI hbits abits W hs fuel ths) cs c -> GI cs c.
  Proof. intros H. induction H as [|cs c t c' H IH Hs]; [apply GI_init|eapply GI_step; eauto]. Qed.

  (** ** lists *)
  Lemma nth_mid {A} (l1 l2 : list A) x : nth_error (l1 ++ x :: l2) (List.length l1) = Some x.
  Proof. rewrite nth_error_app2 by lia. rewrite Nat.sub_diag. reflexivity. Qed.

  Lemma nth_inner {A} (l1 mid l2 : list A) x j :
    List.length l1 < j -> j < List.length l1 + 1 + List.length mid ->
    nth_error (l1 ++ [x] ++ mid ++ l2) j = nth_error mid (j - List.length l1 - 1).
  Proof.
    intros H1 H2. rewrite nth_error_app2 by lia. cbn [app].
    destruct (j - List.length l1) as [|d] eqn:E; [lia|]. cbn [nth_error].
    rewrite nth_error_app1 by lia. f_equal. lia.
  Qed.

  (** ** the theorems *)
  (** do_erase_at: what the answer reported by an "erased" event means ([FeldmanIterTraceInv.ErC]) *)
  Theorem feldman_iter_erase_at fuel ths cs c :
    steps (init_cfgI hbits abits W hs fuel ths) cs c ->
    forall t e b, nth_error (Conc.trace c) e = Some (t, ev_erased b) -> ErC t (Conc.trace c) cs e b.
  Proof.
    intros Hst t e b E. destruct (GI_steps Hst) as (a & ws & _ & _ & _ & HE). destruct (HE t) as (_ & _ & _ & _ & _ & HFE).
    apply HFE. exact E.
  Qed.

  (** a removal step changes the tree exactly by taking [x] out (FeldmanIterThm.erase_at_true_exact at that step) *)
  Theorem removal_exact fuel ths cs c t c1 c2 x :
    steps (init_cfgI hbits abits W hs fuel ths) cs c -> removal t cs c1 c2 x -> x <> 0 ->
    (forall a' i' y, data_at (Conc.shared c2) a' i' y <->
                     (data_at (Conc.shared c1) a' i' y /\ arr (Conc.shared c1) a' i' <> mkSlot x 0)) /\
    (forall a' i', ~ data_at (Conc.shared c2) a' i' x) /\
    (forall h, present (Conc.shared c2) h <-> (present (Conc.shared c1) h /\ h <> hash (ikey (Conc.shared c1) x))).
  Proof.
    intros Hst ((l1 & l2 & Hcs) & _ & a & i & Hs & Hr & E2) Hx.
    assert (Hin : In c1 cs) by (rewrite Hcs; apply in_or_app; right; left; reflexivity).
    destruct (@FeldmanIterSafe.feldman_iter_inv hbits abits W hs Hh Ha fuel ths c1 (steps_in_reach Hst c1 Hin)) as (A & HI).
    destruct (@FeldmanIterThm.erase_at_true_exact hbits abits hs Hh Ha (Conc.shared c1) A (Conc.trace c1) a i x HI Hr Hs Hx) as (F1 & F2 & F3).
    rewrite E2. split; [|split; [exact F2|exact F3]].
    intros a' i' y. rewrite (F1 a' i' y). split.
    - intros [D Hne]. split; [exact D|]. intros E. apply Hne.
      assert (Da : data_at (Conc.shared c1) a i x) by (split; [exact Hr|exists 0; repeat split; auto]).
      assert (Da' : data_at (Conc.shared c1) a' i' x).
      { destruct D as (R' & b' & Hb' & _). split; [exact R'|]. exists 0. rewrite E. repeat split; auto. }
      destruct (FeldmanStepThm.nodup_inv Hh Ha HI Da' Da eq_refl) as (E1 & E3 & _). congruence.
    - intros [D Hne]. split; [exact D|]. intros E. inversion E; subst. apply Hne. exact Hs.
  Qed.

  Section Iteration.
    Variables (fuel : nat) (ths : list (list (list Z))) (cs : list config) (c : config).
    Hypothesis Hst : steps (init_cfgI hbits abits W hs fuel ths) cs c.
    Variables (t code k : nat) (tr0 mid rest : list (nat * ev)).
    Hypothesis Hcode : iter_code code.
    Hypothesis Etr : Conc.trace c = tr0 ++ [(t, ev_inv code k)] ++ mid ++ [(t, ev_ret true false)] ++ rest.
    Hypothesis Hmid : forall e, In (t, e) mid -> is_cli "inv" e = false /\ is_cli "ret" e = false.

    Let n := len tr0.
    Let m := n + 1 + len mid.

    Lemma inner j x : n < j -> j < m -> nth_error (Conc.trace c) j = Some x -> In x mid.
    Proof.
      intros H1 H2 H3. rewrite Etr in H3. rewrite nth_inner in H3 by (fold n; fold m; assumption). eapply nth_error_In; eauto.
    Qed.

    Lemma inner_inv x : In x mid -> exists j, n < j /\ j < m /\ nth_error (Conc.trace c) j = Some x.
    Proof.
      intros H. apply In_nth_error in H. destruct H as (d & Hd). pose proof (nth_lt _ _ Hd) as Hl.
      exists (n + 1 + d). split; [lia|]. split; [unfold m; lia|]. rewrite Etr. rewrite nth_inner by (fold n; lia).
      rewrite <- Hd. f_equal. fold n. lia.
    Qed.

    Lemma iter_FinC : FinC hs t (Conc.trace c) cs n m.
    Proof.
      destruct (GI_steps Hst) as (a & ws & _ & _ & _ & HE). destruct (HE t) as (_ & _ & _ & _ & HF & _).
      assert (E1 : nth_error (Conc.trace c) n = Some (t, ev_inv code k)) by (rewrite Etr; apply nth_mid).
      assert (E2 : nth_error (Conc.trace c) m = Some (t, ev_ret true false)).
      { rewrite Etr. replace (tr0 ++ [(t, ev_inv code k)] ++ mid ++ [(t, ev_ret true false)] ++ rest)
          with ((tr0 ++ [(t, ev_inv code k)] ++ mid) ++ (t, ev_ret true false) :: rest) by (rewrite <- !app_assoc; reflexivity).
        replace m with (len (tr0 ++ [(t, ev_inv code k)] ++ mid)) by (rewrite !app_length; cbn; unfold m, n; lia).
        apply nth_mid. }
      apply (HF n m code k E1 Hcode E2 ltac:(unfold m; lia)).
      intros j e H1 H2 H3. apply Hmid. eapply inner; eauto.
    Qed.

    (** completeness: a hash present throughout is visited *)
    Theorem feldman_iter_complete_hash h :
      (forall c', In c' cs -> n < len (Conc.trace c') -> upto cs m c' -> present (Conc.shared c') h) ->
      exists k', In (t, ev_visit k') mid /\ hash k' = h.
    Proof.
      intros Hp. destruct iter_FinC as [F1 _]. destruct (F1 h Hp) as (j & k' & J1 & J2 & J3 & J4).
      exists k'. split; [eapply inner; eauto|exact J4].
    Qed.

    (** every visited key is the key of an element that was in the tree in some configuration of the iteration *)
    Theorem feldman_iter_visited_was_in k' :
      In (t, ev_visit k') mid ->
      exists y c', In c' cs /\ n < len (Conc.trace c') /\ upto cs m c' /\
                   (exists a i, data_at (Conc.shared c') a i y) /\ ikey (Conc.shared c') y = k'.
    Proof.
      intros Hv. destruct (inner_inv _ Hv) as (j & J1 & J2 & J3). destruct iter_FinC as [_ F2].
      destruct (F2 j k' J1 J2 J3) as (y & c' & (W1 & W2 & W3 & W4) & Hup). exists y, c'. auto.
    Qed.

    (** completeness for an element: in the tree, with the same key, throughout: it is visited *)
    Theorem feldman_iter_complete_elem x kx :
      (forall c', In c' cs -> n < len (Conc.trace c') -> upto cs m c' ->
                  (exists a i, data_at (Conc.shared c') a i x) /\ ikey (Conc.shared c') x = kx) ->
      In (t, ev_visit kx) mid.
    Proof.
      intros Hx.
      destruct (@feldman_iter_complete_hash (hash kx)) as (k' & Hv & Hk).
      { intros c' H1 H2 H3. destruct (Hx c' H1 H2 H3) as [(a & i & Hd) Hkx]. exists a, i, x. split; [exact Hd|]. rewrite Hkx. reflexivity. }
      destruct (feldman_iter_visited_was_in _ Hv) as (y & c' & W1 & W2 & Wup & (a & i & Hd) & Hy).
      destruct (Hx c' W1 W2 Wup) as [(a' & i' & Hd') Hkx].
      destruct (@FeldmanIterSafe.feldman_iter_inv hbits abits W hs Hh Ha fuel ths c' (steps_in_reach Hst c' W1)) as (A & HI).
      assert (E : hash (ikey (Conc.shared c') y) = hash (ikey (Conc.shared c') x)) by (rewrite Hy, Hkx; exact Hk).
      destruct (FeldmanStepThm.nodup_inv Hh Ha HI Hd Hd' E) as (_ & _ & Eyx). subst y. rewrite Hkx in Hy. subst k'. exact Hv.
    Qed.
  End Iteration.
End Thm.
