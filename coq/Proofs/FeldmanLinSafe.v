(** * Every program of LV.Model.Feldman preserves the linearization invariant [Inv3] of FeldmanLinInv, for every schedule;
      consequence: the history of every reachable configuration is linearizable to the sequential set (reads included). *)
From Coq Require Import ZArith NArith List Bool Arith PeanoNat Lia String.
From LV Require Import Base.Conc Base.Events Base.Lin Spec.Specs Proofs.LinProofs.
From LV Require Import Model.Feldman Proofs.FeldmanStepInv Proofs.FeldmanStepSafe Proofs.FeldmanStepThm Proofs.PartitionLin
                       Proofs.FeldmanLinInv.
From LV Require Proofs.MichaelListInv Proofs.MichaelListFullInv.
Import ListNotations.

Set Implicit Arguments.

Module MF := LV.Proofs.MichaelListFullInv.

Section Safe3.
  Variables (hbits abits W : nat) (hs : list N).
  Hypothesis Hh : 0 < hbits.
  Hypothesis Ha : 0 < abits.
  (** hashes are W-bit values (W = 32 in the harness) *)
  Hypothesis Hbound : forall k, (Feldman.hash hs k < 2 ^ N.of_nat W)%N.

  Notation hash := (Feldman.hash hs).
  Notation cut := Feldman.cut.
  Notation bits_of := (Feldman.bits_of hbits abits).
  Notation Inv := (@FeldmanStepInv.Inv hbits abits hs).
  Notation Inv3 := (@FeldmanLinInv.Inv3 hbits abits hs).
  Notation IL := (@FeldmanLinInv.IL hs).
  Notation present := (FeldmanStepThm.present hs).
  Notation safe3 := (@Conc.safe G V ev Aux3 L3 view3 Inv3).
  Notation prog := (Conc.prog G V ev).
  Notation posP := (@FeldmanStepSafe.posP hbits abits).
  Notation statusS := (status SetSpec).

  Lemma same_refl g : same_presence hs g g.
  Proof. intros x; tauto. Qed.

  (** ** an access that changes neither presence nor the LP bookkeeping *)
  Lemma safe3_neutral {R} t (f : G -> G * V * list ev) (k : V -> prog R) l s (Q : R -> L3 -> Prop) :
    (forall g A tr, Inv g A tr -> view A t = l ->
       exists B, Inv (fst (fst (f g))) B (tr ++ Conc.tag t (snd (f g))) /\ Conc.frame view t A B /\
                 same_presence hs g (fst (fst (f g))) /\ (exists kd ob ok, snd (f g) = [EvAcc kd ob ok]) /\
                 safe3 t (k (snd (fst (f g)))) (view B t, s) Q) ->
    safe3 t (Act f k) (l, s) Q.
  Proof.
    intros H. cbn [Conc.safe]. intros g A3 tr [HI HL] Hv. unfold view3 in Hv. injection Hv as Hv1 Hv2. subst l s.
    destruct (H g (base A3) tr HI eq_refl) as (B & H1 & H2 & H3 & (kd & ob & ok & E) & H5).
    exists (set3 A3 B t (vst A3 t) (atr A3)). split; [split; [exact H1|rewrite E; apply IL_neutral with (g := g); auto]|].
    split; [apply frame3_set; exact H2|]. rewrite view3_set_same. exact H5.
  Qed.

  Lemma safe3_nop {R} t kd o (k : V -> prog R) l s (Q : R -> L3 -> Prop) :
    safe3 t (k v0) (l, s) Q -> safe3 t (Act (a_nop kd o) k) (l, s) Q.
  Proof.
    intros H. apply safe3_neutral. intros g A tr HI Hv. exists A. cbn [a_nop fst snd].
    split; [eapply Inv_trace; exact HI|]. split; [apply frame_refl|]. split; [apply same_refl|]. split; [eauto|]. rewrite Hv. exact H.
  Qed.

  Lemma same_arr g g' : arr g' = arr g -> ikey g' = ikey g -> same_presence hs g g'.
  Proof.
    intros E1 E2 x. unfold FeldmanStepThm.present, data_at. rewrite E1, E2.
    assert (R : forall y, reach_arr g' y <-> reach_arr g y).
    { apply reach_arr_ext. intros; rewrite E1; tauto. }
    split; intros (a & i & p & (Hr & H) & Hx); exists a, i, p; (split; [split; [apply R; exact Hr|exact H]|exact Hx]).
  Qed.

  Lemma safe3_cnt {R} t kd d (k : V -> prog R) l s (Q : R -> L3 -> Prop) :
    safe3 t (k v0) (l, s) Q -> safe3 t (Act (a_cnt kd d) k) (l, s) Q.
  Proof.
    intros H. apply safe3_neutral. intros g A tr HI Hv. exists A. cbn [a_cnt fst snd].
    split; [eapply Inv_trace; apply Inv_count; exact HI|]. split; [apply frame_refl|]. split; [apply same_arr; reflexivity|]. split; [eauto|].
    rewrite Hv. exact H.
  Qed.

  (** an Emit of events that are neither "inv" nor "ret" *)
  Lemma fhfold_other tr t name args : String.eqb name "inv" = false -> String.eqb name "ret" = false ->
    fhfold hs (tr ++ Conc.tag t [EvCli name args]) = fhfold hs tr.
  Proof. intros N1 N2. rewrite fhfold_app. unfold Conc.tag. cbn [map fold_left]. unfold fhstep. destruct (fhfold hs tr). rewrite N1, N2. reflexivity. Qed.

  Lemma safe3_emit_other {R} t name args (k : prog R) l s (Q : R -> L3 -> Prop) :
    String.eqb name "inv" = false -> String.eqb name "ret" = false ->
    safe3 t k (l, s) Q -> safe3 t (Emit [EvCli name args] k) (l, s) Q.
  Proof.
    intros N1 N2 H. cbn [Conc.safe]. intros g A tr [HI [(S & stf & H1 & H2 & H3) H4 H5]] Hv.
    exists A. split; [|split; [intros u Hu; reflexivity|rewrite Hv; exact H]].
    split; [eapply Inv_trace; exact HI|]. constructor.
    - exists S, stf. auto.
    - unfold full_hist. rewrite fhfold_other by assumption. exact H4.
    - intros u o Hc. rewrite fhfold_other by assumption. apply H5; exact Hc.
  Qed.

  (** ** observations *)
  Definition obsb (h : N) (v : V) : bool := negb (Nat.eqb (sptr (vslot v)) 0) && N.eqb (hash (vkey v)) h.

  Definition fitsK (p : pos) (l : L) (kk : nat) : Prop :=
    (hash kk mod 2 ^ N.of_nat (ko l))%N = kpre l /\ pidx p = cut (hash kk) (ko l) (bits_of (parr p)).

  Definition obs_st (o : set_op) (h : N) (v : V) (s : statusS) : statusS :=
    if Nat.eqb (sbits (vslot v)) 0 then MF.lin_read o (obsb h v) s else s.

  Lemma obs_st_open o h v s : MF.open_read s o -> MF.open_read (obs_st o h v s) o.
  Proof. intros H. unfold obs_st. destruct (Nat.eqb _ 0); [apply MF.open_read_lin; exact H|exact H]. Qed.

  (** a load of the slot at the thread's position, by a thread whose operation [o] on hash [h] is open *)
  Lemma safe3_obs_ld {R} t (h : N) (o : set_op) (p : pos) (k : V -> prog R) l s (Q : R -> L3 -> Prop) :
    posP h p l -> MF.open_read s o -> MF.op_key o = Z.of_N h ->
    (forall v, (itm (vslot v) <> 0 -> fitsK p l (vkey v)) ->
       safe3 t (k v) (know_item l (itm (vslot v)) (vkey v), obs_st o h v s) Q) ->
    safe3 t (Act (a_ld (parr p) (pidx p)) k) (l, s) Q.
  Proof.
    intros HP Hopen Hkey Hk. cbn [Conc.safe]. intros g A3 tr [HI HL] Hv. unfold view3 in Hv. injection Hv as Hv1 Hv2.
    cbn [a_ld fst snd]. set (sl := arr g (parr p) (pidx p)). set (v := mkV sl (ikey g (sptr sl)) true 0).
    set (l1 := know_item l (itm sl) (ikey g (sptr sl))).
    destruct HP as (P1 & P2 & P3 & P4 & P5).
    pose proof (i_known HI t) as HK. rewrite Hv1, P2, P3 in HK.
    set (B := set_view (base A3) t l1).
    assert (HB : Inv g B tr).
    { apply Inv_view_fields; try (rewrite Hv1; reflexivity); [exact HI|]. cbn [kit kkey kid kidk l1 know_item]. split.
      - intros Hn. eapply (load_item_fact t p HI Hv1); [exact P2|exact Hn].
      - rewrite <- Hv1. apply (i_items HI t). }
    assert (FK : itm sl <> 0 -> fitsK p l (ikey g (sptr sl))).
    { intros Hn. unfold itm in Hn. destruct sl as [c b] eqn:Esl. cbn [sptr sbits] in *.
      destruct (Nat.eqb_spec c 0); [cbn in Hn; congruence|]. destruct (Nat.eqb_spec b 2); [cbn in Hn; congruence|].
      assert (HK' : pfx (base A3) (parr p) = Some (ko l, kpre l)) by (rewrite P3; exact HK).
      destruct (i_data HI _ _ HK' Esl n0 n) as ((F1 & F2) & _). split; assumption. }
    assert (OBS : exists atr', IL g (set3 A3 B t (obs_st o h v s) atr') (tr ++ Conc.tag t [EvAcc KLd (obj_slot (parr p) (pidx p)) true])).
    { unfold obs_st. cbn [vslot v]. destruct (Nat.eqb_spec (sbits sl) 0) as [Hb|Hb].
      - rewrite <- Hv2. apply IL_obs; [exact HL|rewrite Hv2; exact Hopen|].
        intros S HS. rewrite Hkey. destruct sl as [c b] eqn:Esl. cbn in Hb. subst b.
        assert (Hs' : arr g (parr p) (cut h (ko l) (bits_of (parr p))) = mkSlot c 0) by (rewrite <- P5; exact Esl).
        pose proof (@obs_slot hbits abits hs Hh Ha g (base A3) tr (parr p) (ko l) h c HI HK Hs') as OS.
        unfold obsb; cbn [vslot vkey v sptr].
        destruct (zmem (Z.of_N h) S) eqn:Ez.
        + apply HS in Ez. apply OS in Ez. destruct Ez as [Hc Hx]. symmetry. apply andb_true_iff. split.
          * apply negb_true_iff. apply Nat.eqb_neq. exact Hc.
          * apply N.eqb_eq. exact Hx.
        + symmetry. apply not_true_is_false. intros Hb. apply andb_true_iff in Hb. destruct Hb as [Hb1 Hb2].
          apply negb_true_iff in Hb1. apply Nat.eqb_neq in Hb1. apply N.eqb_eq in Hb2.
          assert (present g h) by (apply OS; auto). apply HS in H. congruence.
      - exists (atr A3). rewrite <- Hv2. apply IL_neutral with (g := g); [exact HL|apply same_refl]. }
    destruct OBS as (atr' & HIL').
    exists (set3 A3 B t (obs_st o h v s) atr'). split; [split; [eapply Inv_trace; exact HB|exact HIL']|].
    split; [apply frame3_set; apply frame_set_view|]. rewrite view3_set_same. unfold B. cbn [views set_view]. rewrite Nat.eqb_refl.
    apply Hk. exact FK.
  Qed.

  (** a plain load / nop that keeps everything (view included) *)
  Lemma safe3_plain_ld {R} t a i (k : V -> prog R) l s (Q : R -> L3 -> Prop) :
    (forall v, safe3 t (k v) (l, s) Q) -> safe3 t (Act (a_ld a i) k) (l, s) Q.
  Proof.
    intros H. apply safe3_neutral. intros g A tr HI Hv. exists A. cbn [a_ld fst snd].
    split; [eapply Inv_trace; exact HI|]. split; [apply frame_refl|]. split; [apply same_refl|]. split; [eauto|]. rewrite Hv. apply H.
  Qed.

  Notation idP := FeldmanStepSafe.idP.

  (** ** traverse *)
  Lemma safe3_traverse t h k id sf s : forall p l, posP h p l -> idP k id l ->
    safe3 t (traverse abits sf h p) (l, s)
      (fun r l3 => snd l3 = s /\ match r with
                                 | None => ph (fst l3) = PIdle
                                 | Some (p', v) => posP h p' (fst l3) /\ idP k id (fst l3) /\ sbits (vslot v) = 0
                                 end).
  Proof.
    induction sf as [|sf IH]; intros p l HP HID; cbn [traverse].
    - cbn. split; [reflexivity|apply HP].
    - apply safe3_neutral. intros g A tr HI Hv. cbn [a_ld fst snd vslot].
      destruct HP as (P1 & P2 & P3 & P4 & P5).
      pose proof (i_known HI t) as HK. unfold view in Hv. rewrite Hv in HK. rewrite P2 in HK.
      destruct (arr g (parr p) (pidx p)) as [c b] eqn:Hs. cbn [sbits sptr].
      destruct (Nat.eqb_spec b 2) as [->|Hb2].
      + destruct (i_child HI _ _ HK Hs) as (C1 & C2 & C3).
        exists (set_view A t (know (views A t) c (ko l + bits_of (parr p)) (kpre l + N.of_nat (pidx p) * 2 ^ N.of_nat (ko l))%N)).
        split; [eapply Inv_trace; apply Inv_know; [exact HI|exact C1]|]. split; [apply frame_set_view|]. split; [apply same_refl|]. split; [eauto|].
        rewrite view_set_same. apply IH.
        * assert (Hbc : bits_of c = abits) by (unfold Feldman.bits_of; destruct (Nat.eqb_spec c 0); [congruence|reflexivity]).
          unfold FeldmanStepSafe.posP, know; cbn. rewrite Hv, Hbc.
          repeat split; auto; try lia; try (rewrite P3, P5, mod_extend, cut_N; reflexivity); try (rewrite P4; reflexivity).
        * unfold FeldmanStepSafe.idP, know in *; cbn. rewrite Hv. exact HID.
      + destruct (Nat.eqb_spec b 1) as [->|Hb1].
        * exists A. split; [eapply Inv_trace; exact HI|]. split; [apply frame_refl|]. split; [apply same_refl|]. split; [eauto|].
          unfold view. rewrite Hv. apply IH; [repeat split; auto|exact HID].
        * exists A. split; [eapply Inv_trace; exact HI|]. split; [apply frame_refl|]. split; [apply same_refl|]. split; [eauto|].
          unfold view. rewrite Hv. cbn. split; [reflexivity|]. split; [repeat split; auto|]. split; [exact HID|].
          destruct (le_lt_dec 2 b) as [Hge|Hlt]; [|lia]. destruct (i_arrslot HI _ _ Hs Hge) as [-> _]. congruence.
  Qed.

  (** ** protect: the returned value was observed by a load of the slot at the thread's position *)
  Definition protP3 (h : N) (p : pos) (k id : nat) (o : set_op) : option V -> L3 -> Prop :=
    fun r l3 => MF.open_read (snd l3) o /\
      match r with
      | None => ph (fst l3) = PIdle
      | Some v => posP h p (fst l3) /\ idP k id (fst l3) /\ kit (fst l3) = itm (vslot v) /\ (itm (vslot v) <> 0 -> kkey (fst l3) = vkey v) /\
                  (itm (vslot v) <> 0 -> fitsK p (fst l3) (vkey v)) /\
                  (sbits (vslot v) = 0 -> exists s0, snd l3 = MF.lin_read o (obsb h v) s0)
      end.

  Lemma fitsK_know p l a b kk : fitsK p l kk -> fitsK p (know_item l a b) kk.
  Proof. unfold fitsK, know_item; cbn. tauto. Qed.

  Lemma obs_st_zero o h v s : sbits (vslot v) = 0 -> obs_st o h v s = MF.lin_read o (obsb h v) s.
  Proof. intros H. unfold obs_st. rewrite H. reflexivity. Qed.

  Lemma safe3_protect_arr t h k id o g0 sf : MF.op_key o = Z.of_N h -> forall p l s, posP h p l -> idP k id l -> MF.open_read s o ->
    safe3 t (protect_arr sf t g0 p) (l, s) (protP3 h p k id o).
  Proof.
    intros Hkey. induction sf as [|sf IH]; intros p l s HP HID Hopen; cbn [protect_arr].
    - cbn. split; [exact Hopen|apply HP].
    - eapply safe3_obs_ld; eauto. intros cur FK.
      apply safe3_nop. apply safe3_nop. apply safe3_plain_ld. intros v.
      destruct (slot_eqb (vslot v) (vslot cur)).
      + cbn [Conc.safe protP3 fst snd]. split; [apply obs_st_open; exact Hopen|].
        split; [apply posP_know_item; exact HP|]. split; [apply idP_know_item; exact HID|]. split; [reflexivity|]. split; [reflexivity|].
        split; [intros Hn; apply fitsK_know; apply FK; exact Hn|]. intros Hz. exists s. apply obs_st_zero; exact Hz.
      + apply IH; [apply posP_know_item; exact HP|apply idP_know_item; exact HID|apply obs_st_open; exact Hopen].
  Qed.

  Lemma safe3_protect t h k id o g0 sf : MF.op_key o = Z.of_N h -> forall p l s, posP h p l -> idP k id l -> MF.open_read s o ->
    safe3 t (protect sf t g0 p) (l, s) (protP3 h p k id o).
  Proof.
    intros Hkey p l s HP HID Hopen. unfold protect.
    assert (LOOP : forall sf cur l1 s1, posP h p l1 -> idP k id l1 -> MF.open_read s1 o ->
                   kit l1 = itm (vslot cur) -> (itm (vslot cur) <> 0 -> kkey l1 = vkey cur) -> (itm (vslot cur) <> 0 -> fitsK p l1 (vkey cur)) ->
                   (sbits (vslot cur) = 0 -> exists s0, s1 = MF.lin_read o (obsb h cur) s0) ->
                   safe3 t (protect_loop sf t g0 p cur) (l1, s1) (protP3 h p k id o)).
    { clear sf. induction sf as [|sf IH]; intros cur l1 s1 HP1 HID1 Ho1 K1 K2 K3 K4; cbn [protect_loop].
      - cbn. split; [exact Ho1|apply HP1].
      - apply safe3_nop. apply safe3_nop. eapply safe3_obs_ld; eauto. intros v FK.
        destruct (slot_eqb (vslot v) (vslot cur)).
        + cbn [Conc.safe protP3 fst snd]. split; [apply obs_st_open; exact Ho1|].
          split; [apply posP_know_item; exact HP1|]. split; [apply idP_know_item; exact HID1|]. split; [reflexivity|]. split; [reflexivity|].
          split; [intros Hn; apply fitsK_know; apply FK; exact Hn|]. intros Hz. exists s1. apply obs_st_zero; exact Hz.
        + apply IH; [apply posP_know_item; exact HP1|apply idP_know_item; exact HID1|apply obs_st_open; exact Ho1|reflexivity|reflexivity| |].
          * intros Hn. apply fitsK_know. apply FK. exact Hn.
          * intros Hz. exists s1. apply obs_st_zero; exact Hz. }
    eapply safe3_obs_ld; eauto. intros v FK.
    apply LOOP; [apply posP_know_item; exact HP|apply idP_know_item; exact HID|apply obs_st_open; exact Hopen|reflexivity|reflexivity| |].
    - intros Hn. apply fitsK_know. apply FK. exact Hn.
    - intros Hz. exists s. apply obs_st_zero; exact Hz.
  Qed.
End Safe3.
