(** * Every program of LV.Model.Feldman preserves the linearization invariant [Inv3] of FeldmanLinInv, for every schedule;
      consequence: the history of every reachable configuration is linearizable to the sequential set (reads included). *)
From Coq Require Import ZArith NArith List Bool Arith PeanoNat Lia String.
From LV Require Import Base.Conc Base.Events Base.Lin Spec.Specs Proofs.LinProofs.
From LV Require Import Model.Feldman Proofs.FeldmanStepInv Proofs.FeldmanStepSafe Proofs.FeldmanStepThm Proofs.PartitionLin
                       Proofs.FeldmanLinInv.
From LV Require Proofs.MichaelListInv Proofs.MichaelListFullInv.
Import ListNotations.

Set Implicit Arguments.

Module MF := LV.Proofs.MichaelListFullInv.

Section Safe3.
  Variables (hbits abits W : nat) (hs : list N).
  Hypothesis Hh : 0 < hbits.
  Hypothesis Ha : 0 < abits.
  (** hashes are W-bit values (W = 32 in the harness) *)
  Hypothesis Hbound : forall k, (Feldman.hash hs k < 2 ^ N.of_nat W)%N.

  Notation hash := (Feldman.hash hs).
  Notation cut := Feldman.cut.
  Notation bits_of := (Feldman.bits_of hbits abits).
  Notation Inv := (@FeldmanStepInv.Inv hbits abits hs).
  Notation Inv3 := (@FeldmanLinInv.Inv3 hbits abits hs).
  Notation IL := (@FeldmanLinInv.IL hs).
  Notation present := (FeldmanStepThm.present hs).
  Notation safe3 := (@Conc.safe G V ev Aux3 L3 view3 Inv3).
  Notation prog := (Conc.prog G V ev).
  Notation posP := (@FeldmanStepSafe.posP hbits abits).
  Notation statusS := (status SetSpec).

  Lemma same_refl g : same_presence hs g g.
  Proof. intros x; tauto. Qed.

  (** ** an access that changes neither presence nor the LP bookkeeping *)
  Lemma safe3_neutral {R} t (f : G -> G * V * list ev) (k : V -> prog R) l s (Q : R -> L3 -> Prop) :
    (forall g A tr, Inv g A tr -> view A t = l ->
       exists B, Inv (fst (fst (f g))) B (tr ++ Conc.tag t (snd (f g))) /\ Conc.frame view t A B /\
                 same_presence hs g (fst (fst (f g))) /\ (exists kd ob ok, snd (f g) = [EvAcc kd ob ok]) /\
                 safe3 t (k (snd (fst (f g)))) (view B t, s) Q) ->
    safe3 t (Act f k) (l, s) Q.
  Proof.
    intros H. cbn [Conc.safe]. intros g A3 tr [HI HL] Hv. unfold view3 in Hv. injection Hv as Hv1 Hv2. subst l s.
    destruct (H g (base A3) tr HI eq_refl) as (B & H1 & H2 & H3 & (kd & ob & ok & E) & H5).
    exists (set3 A3 B t (vst A3 t) (atr A3)). split; [split; [exact H1|rewrite E; apply IL_neutral with (g := g); auto]|].
    split; [apply frame3_set; exact H2|]. rewrite view3_set_same. exact H5.
  Qed.

  Lemma safe3_nop {R} t kd o (k : V -> prog R) l s (Q : R -> L3 -> Prop) :
    safe3 t (k v0) (l, s) Q -> safe3 t (Act (a_nop kd o) k) (l, s) Q.
  Proof.
    intros H. apply safe3_neutral. intros g A tr HI Hv. exists A. cbn [a_nop fst snd].
    split; [eapply Inv_trace; exact HI|]. split; [apply frame_refl|]. split; [apply same_refl|]. split; [eauto|]. rewrite Hv. exact H.
  Qed.

  Lemma same_arr g g' : arr g' = arr g -> ikey g' = ikey g -> same_presence hs g g'.
  Proof.
    intros E1 E2 x. unfold FeldmanStepThm.present, data_at. rewrite E1, E2.
    assert (R : forall y, reach_arr g' y <-> reach_arr g y).
    { apply reach_arr_ext. intros; rewrite E1; tauto. }
    split; intros (a & i & p & (Hr & H) & Hx); exists a, i, p; (split; [split; [apply R; exact Hr|exact H]|exact Hx]).
  Qed.

  Lemma safe3_cnt {R} t kd d (k : V -> prog R) l s (Q : R -> L3 -> Prop) :
    safe3 t (k v0) (l, s) Q -> safe3 t (Act (a_cnt kd d) k) (l, s) Q.
  Proof.
    intros H. apply safe3_neutral. intros g A tr HI Hv. exists A. cbn [a_cnt fst snd].
    split; [eapply Inv_trace; apply Inv_count; exact HI|]. split; [apply frame_refl|]. split; [apply same_arr; reflexivity|]. split; [eauto|].
    rewrite Hv. exact H.
  Qed.

  (** an Emit of events that are neither "inv" nor "ret" *)
  Lemma fhfold_other tr t name args : String.eqb name "inv" = false -> String.eqb name "ret" = false ->
    fhfold hs (tr ++ Conc.tag t [EvCli name args]) = fhfold hs tr.
  Proof. intros N1 N2. rewrite fhfold_app. unfold Conc.tag. cbn [map fold_left]. unfold fhstep. destruct (fhfold hs tr). rewrite N1, N2. reflexivity. Qed.

  Lemma safe3_emit_other {R} t name args (k : prog R) l s (Q : R -> L3 -> Prop) :
    String.eqb name "inv" = false -> String.eqb name "ret" = false ->
    safe3 t k (l, s) Q -> safe3 t (Emit [EvCli name args] k) (l, s) Q.
  Proof.
    intros N1 N2 H. cbn [Conc.safe]. intros g A tr [HI [(S & stf & H1 & H2 & H3) H4 H5]] Hv.
    exists A. split; [|split; [intros u Hu; reflexivity|rewrite Hv; exact H]].
    split; [eapply Inv_trace; exact HI|]. constructor.
    - exists S, stf. auto.
    - unfold full_hist. rewrite fhfold_other by assumption. exact H4.
    - intros u o Hc. rewrite fhfold_other by assumption. apply H5; exact Hc.
  Qed.

  (** ** observations *)
  Definition obsb (h : N) (v : V) : bool := negb (Nat.eqb (sptr (vslot v)) 0) && N.eqb (hash (vkey v)) h.

  Definition fitsK (p : pos) (l : L) (kk : nat) : Prop :=
    (hash kk mod 2 ^ N.of_nat (ko l))%N = kpre l /\ pidx p = cut (hash kk) (ko l) (bits_of (parr p)).

  Definition obs_st (o : set_op) (h : N) (v : V) (s : statusS) : statusS :=
    if Nat.eqb (sbits (vslot v)) 0 then MF.lin_read o (obsb h v) s else s.

  Lemma obs_st_open o h v s : MF.open_read s o -> MF.open_read (obs_st o h v s) o.
  Proof. intros H. unfold obs_st. destruct (Nat.eqb _ 0); [apply MF.open_read_lin; exact H|exact H]. Qed.

  (** a load of the slot at the thread's position, by a thread whose operation [o] on hash [h] is open *)
  Lemma safe3_obs_ld {R} t (h : N) (o : set_op) (p : pos) (k : V -> prog R) l s (Q : R -> L3 -> Prop) :
    posP h p l -> MF.open_read s o -> MF.op_key o = Z.of_N h ->
    (forall v, (itm (vslot v) <> 0 -> fitsK p l (vkey v)) ->
       safe3 t (k v) (know_item l (itm (vslot v)) (vkey v), obs_st o h v s) Q) ->
    safe3 t (Act (a_ld (parr p) (pidx p)) k) (l, s) Q.
  Proof.
    intros HP Hopen Hkey Hk. cbn [Conc.safe]. intros g A3 tr [HI HL] Hv. unfold view3 in Hv. injection Hv as Hv1 Hv2.
    cbn [a_ld fst snd]. set (sl := arr g (parr p) (pidx p)). set (v := mkV sl (ikey g (sptr sl)) true 0).
    set (l1 := know_item l (itm sl) (ikey g (sptr sl))).
    destruct HP as (P1 & P2 & P3 & P4 & P5).
    pose proof (i_known HI t) as HK. rewrite Hv1, P2, P3 in HK.
    set (B := set_view (base A3) t l1).
    assert (HB : Inv g B tr).
    { apply Inv_view_fields; try (rewrite Hv1; reflexivity); [exact HI|]. cbn [kit kkey kid kidk l1 know_item]. split.
      - intros Hn. eapply (load_item_fact t p HI Hv1); [exact P2|exact Hn].
      - rewrite <- Hv1. apply (i_items HI t). }
    assert (FK : itm sl <> 0 -> fitsK p l (ikey g (sptr sl))).
    { intros Hn. unfold itm in Hn. destruct sl as [c b] eqn:Esl. cbn [sptr sbits] in *.
      destruct (Nat.eqb_spec c 0); [cbn in Hn; congruence|]. destruct (Nat.eqb_spec b 2); [cbn in Hn; congruence|].
      assert (HK' : pfx (base A3) (parr p) = Some (ko l, kpre l)) by (rewrite P3; exact HK).
      destruct (i_data HI _ _ HK' Esl n0 n) as ((F1 & F2) & _). split; assumption. }
    assert (OBS : exists atr', IL g (set3 A3 B t (obs_st o h v s) atr') (tr ++ Conc.tag t [EvAcc KLd (obj_slot (parr p) (pidx p)) true])).
    { unfold obs_st. cbn [vslot v]. destruct (Nat.eqb_spec (sbits sl) 0) as [Hb|Hb].
      - rewrite <- Hv2. apply IL_obs; [exact HL|rewrite Hv2; exact Hopen|].
        intros S HS. rewrite Hkey. destruct sl as [c b] eqn:Esl. cbn in Hb. subst b.
        assert (Hs' : arr g (parr p) (cut h (ko l) (bits_of (parr p))) = mkSlot c 0) by (rewrite <- P5; exact Esl).
        pose proof (@obs_slot hbits abits hs Hh Ha g (base A3) tr (parr p) (ko l) h c HI HK Hs') as OS.
        unfold obsb; cbn [vslot vkey v sptr].
        destruct (zmem (Z.of_N h) S) eqn:Ez.
        + apply HS in Ez. apply OS in Ez. destruct Ez as [Hc Hx]. symmetry. apply andb_true_iff. split.
          * apply negb_true_iff. apply Nat.eqb_neq. exact Hc.
          * apply N.eqb_eq. exact Hx.
        + symmetry. apply not_true_is_false. intros Hb. apply andb_true_iff in Hb. destruct Hb as [Hb1 Hb2].
          apply negb_true_iff in Hb1. apply Nat.eqb_neq in Hb1. apply N.eqb_eq in Hb2.
          assert (present g h) by (apply OS; auto). apply HS in H. congruence.
      - exists (atr A3). rewrite <- Hv2. apply IL_neutral with (g := g); [exact HL|apply same_refl]. }
    destruct OBS as (atr' & HIL').
    exists (set3 A3 B t (obs_st o h v s) atr'). split; [split; [eapply Inv_trace; exact HB|exact HIL']|].
    split; [apply frame3_set; apply frame_set_view|]. rewrite view3_set_same. unfold B. cbn [views set_view]. rewrite Nat.eqb_refl.
    apply Hk. exact FK.
  Qed.

  (** a plain load / nop that keeps everything (view included) *)
  Lemma safe3_plain_ld {R} t a i (k : V -> prog R) l s (Q : R -> L3 -> Prop) :
    (forall v, safe3 t (k v) (l, s) Q) -> safe3 t (Act (a_ld a i) k) (l, s) Q.
  Proof.
    intros H. apply safe3_neutral. intros g A tr HI Hv. exists A. cbn [a_ld fst snd].
    split; [eapply Inv_trace; exact HI|]. split; [apply frame_refl|]. split; [apply same_refl|]. split; [eauto|]. rewrite Hv. apply H.
  Qed.

  Notation idP := FeldmanStepSafe.idP.

  (** ** traverse *)
  Lemma safe3_traverse t h k id sf s : forall p l, posP h p l -> idP k id l ->
    safe3 t (traverse abits sf h p) (l, s)
      (fun r l3 => snd l3 = s /\ match r with
                                 | None => ph (fst l3) = PIdle
                                 | Some (p', v) => posP h p' (fst l3) /\ idP k id (fst l3) /\ sbits (vslot v) = 0
                                 end).
  Proof.
    induction sf as [|sf IH]; intros p l HP HID; cbn [traverse].
    - cbn. split; [reflexivity|apply HP].
    - apply safe3_neutral. intros g A tr HI Hv. cbn [a_ld fst snd vslot].
      destruct HP as (P1 & P2 & P3 & P4 & P5).
      pose proof (i_known HI t) as HK. unfold view in Hv. rewrite Hv in HK. rewrite P2 in HK.
      destruct (arr g (parr p) (pidx p)) as [c b] eqn:Hs. cbn [sbits sptr].
      destruct (Nat.eqb_spec b 2) as [->|Hb2].
      + destruct (i_child HI _ _ HK Hs) as (C1 & C2 & C3).
        exists (set_view A t (know (views A t) c (ko l + bits_of (parr p)) (kpre l + N.of_nat (pidx p) * 2 ^ N.of_nat (ko l))%N)).
        split; [eapply Inv_trace; apply Inv_know; [exact HI|exact C1]|]. split; [apply frame_set_view|]. split; [apply same_refl|]. split; [eauto|].
        rewrite view_set_same. apply IH.
        * assert (Hbc : bits_of c = abits) by (unfold Feldman.bits_of; destruct (Nat.eqb_spec c 0); [congruence|reflexivity]).
          unfold FeldmanStepSafe.posP, know; cbn. rewrite Hv, Hbc.
          repeat split; auto; try lia; try (rewrite P3, P5, mod_extend, cut_N; reflexivity); try (rewrite P4; reflexivity).
        * unfold FeldmanStepSafe.idP, know in *; cbn. rewrite Hv. exact HID.
      + destruct (Nat.eqb_spec b 1) as [->|Hb1].
        * exists A. split; [eapply Inv_trace; exact HI|]. split; [apply frame_refl|]. split; [apply same_refl|]. split; [eauto|].
          unfold view. rewrite Hv. apply IH; [repeat split; auto|exact HID].
        * exists A. split; [eapply Inv_trace; exact HI|]. split; [apply frame_refl|]. split; [apply same_refl|]. split; [eauto|].
          unfold view. rewrite Hv. cbn. split; [reflexivity|]. split; [repeat split; auto|]. split; [exact HID|].
          destruct (le_lt_dec 2 b) as [Hge|Hlt]; [|lia]. destruct (i_arrslot HI _ _ Hs Hge) as [-> _]. congruence.
  Qed.

  (** ** protect: the returned value was observed by a load of the slot at the thread's position *)
  Definition protP3 (h : N) (p : pos) (k id : nat) (o : set_op) : option V -> L3 -> Prop :=
    fun r l3 => MF.open_read (snd l3) o /\
      match r with
      | None => ph (fst l3) = PIdle
      | Some v => posP h p (fst l3) /\ idP k id (fst l3) /\ kit (fst l3) = itm (vslot v) /\ (itm (vslot v) <> 0 -> kkey (fst l3) = vkey v) /\
                  (itm (vslot v) <> 0 -> fitsK p (fst l3) (vkey v)) /\
                  (sbits (vslot v) = 0 -> exists s0, snd l3 = MF.lin_read o (obsb h v) s0)
      end.

  Lemma fitsK_know p l a b kk : fitsK p l kk -> fitsK p (know_item l a b) kk.
  Proof. unfold fitsK, know_item; cbn. tauto. Qed.

  Lemma obs_st_zero o h v s : sbits (vslot v) = 0 -> obs_st o h v s = MF.lin_read o (obsb h v) s.
  Proof. intros H. unfold obs_st. rewrite H. reflexivity. Qed.

  Lemma safe3_protect_arr t h k id o g0 sf : MF.op_key o = Z.of_N h -> forall p l s, posP h p l -> idP k id l -> MF.open_read s o ->
    safe3 t (protect_arr sf t g0 p) (l, s) (protP3 h p k id o).
  Proof.
    intros Hkey. induction sf as [|sf IH]; intros p l s HP HID Hopen; cbn [protect_arr].
    - cbn. split; [exact Hopen|apply HP].
    - eapply safe3_obs_ld; eauto. intros cur FK.
      apply safe3_nop. apply safe3_nop. apply safe3_plain_ld. intros v.
      destruct (slot_eqb (vslot v) (vslot cur)).
      + cbn [Conc.safe protP3 fst snd]. split; [apply obs_st_open; exact Hopen|].
        split; [apply posP_know_item; exact HP|]. split; [apply idP_know_item; exact HID|]. split; [reflexivity|]. split; [reflexivity|].
        split; [intros Hn; apply fitsK_know; apply FK; exact Hn|]. intros Hz. exists s. apply obs_st_zero; exact Hz.
      + apply IH; [apply posP_know_item; exact HP|apply idP_know_item; exact HID|apply obs_st_open; exact Hopen].
  Qed.

  Lemma safe3_protect t h k id o g0 sf : MF.op_key o = Z.of_N h -> forall p l s, posP h p l -> idP k id l -> MF.open_read s o ->
    safe3 t (protect sf t g0 p) (l, s) (protP3 h p k id o).
  Proof.
    intros Hkey p l s HP HID Hopen. unfold protect.
    assert (LOOP : forall sf cur l1 s1, posP h p l1 -> idP k id l1 -> MF.open_read s1 o ->
                   kit l1 = itm (vslot cur) -> (itm (vslot cur) <> 0 -> kkey l1 = vkey cur) -> (itm (vslot cur) <> 0 -> fitsK p l1 (vkey cur)) ->
                   (sbits (vslot cur) = 0 -> exists s0, s1 = MF.lin_read o (obsb h cur) s0) ->
                   safe3 t (protect_loop sf t g0 p cur) (l1, s1) (protP3 h p k id o)).
    { clear sf. induction sf as [|sf IH]; intros cur l1 s1 HP1 HID1 Ho1 K1 K2 K3 K4; cbn [protect_loop].
      - cbn. split; [exact Ho1|apply HP1].
      - apply safe3_nop. apply safe3_nop. eapply safe3_obs_ld; eauto. intros v FK.
        destruct (slot_eqb (vslot v) (vslot cur)).
        + cbn [Conc.safe protP3 fst snd]. split; [apply obs_st_open; exact Ho1|].
          split; [apply posP_know_item; exact HP1|]. split; [apply idP_know_item; exact HID1|]. split; [reflexivity|]. split; [reflexivity|].
          split; [intros Hn; apply fitsK_know; apply FK; exact Hn|]. intros Hz. exists s1. apply obs_st_zero; exact Hz.
        + apply IH; [apply posP_know_item; exact HP1|apply idP_know_item; exact HID1|apply obs_st_open; exact Ho1|reflexivity|reflexivity| |].
          * intros Hn. apply fitsK_know. apply FK. exact Hn.
          * intros Hz. exists s1. apply obs_st_zero; exact Hz. }
    eapply safe3_obs_ld; eauto. intros v FK.
    apply LOOP; [apply posP_know_item; exact HP|apply idP_know_item; exact HID|apply obs_st_open; exact Hopen|reflexivity|reflexivity| |].
    - intros Hn. apply fitsK_know. apply FK. exact Hn.
    - intros Hz. exists s. apply obs_st_zero; exact Hz.
  Qed.

  (** ** real linearization points *)
  Lemma zofN_inj x y : Z.of_N x = Z.of_N y -> x = y.
  Proof. apply N2Z.inj. Qed.

  Lemma abs_absent g S h : abs hs g S -> ~ present g h -> zmem (Z.of_N h) S = false.
  Proof. intros HA Hn. destruct (zmem (Z.of_N h) S) eqn:E; [|reflexivity]. exfalso. apply Hn. apply HA. exact E. Qed.
  Lemma abs_present g S h : abs hs g S -> present g h -> zmem (Z.of_N h) S = true.
  Proof. intros HA Hn. apply HA. exact Hn. Qed.

  (** CAS null -> new item at the thread's position: the linearization point of a successful insert / inserting update *)
  Lemma safe3_cas_insert {R} t k id o r p (kont : V -> prog R) l s (Q : R -> L3 -> Prop) :
    posP (hash k) p l -> idP k id l -> id <> 0 -> MF.open_read s o ->
    (forall S, zmem (Z.of_N (hash k)) S = false -> set_step S o = (Z.of_N (hash k) :: S, r)) ->
    (forall v, vok v = true -> safe3 t (kont v) (l, @Linearized SetSpec o r) Q) -> (forall v, vok v = false -> safe3 t (kont v) (l, s) Q) ->
    safe3 t (Act (a_cas (parr p) (pidx p) snull (mkSlot id 0)) kont) (l, s) Q.
  Proof.
    intros HP HID Hid Hopen Hstep Hk1 Hk2. cbn [Conc.safe]. intros g A3 tr [HI HL] Hv. unfold view3 in Hv. injection Hv as Hv1 Hv2.
    unfold a_cas. destruct (slot_eqb (arr g (parr p) (pidx p)) snull) eqn:E; cbn [fst snd].
    - apply slot_eqb_eq in E.
      destruct HP as (P1 & P2 & P3 & P4 & P5).
      pose proof (i_known HI t) as HK. rewrite Hv1, P2, P3 in HK.
      destruct HID as (D1 & D2).
      destruct (i_items HI t) as [_ KI]. rewrite Hv1, D1 in KI. destruct (KI Hid) as [KI1 KI2]. rewrite D2 in KI2.
      assert (Es : arr g (parr p) (cut (hash k) (ko l) (bits_of (parr p))) = snull) by (rewrite <- P5; exact E).
      set (g' := with_arr g (set_slot (arr g) (parr p) (pidx p) (mkSlot id 0))).
      assert (HI' : Inv g' (base A3) tr).
      { eapply (Inv_data_cas Hh Ha) with (p := 0); [exact HI|exact E|exact HK|]. right. split; [|exact KI1].
        unfold fits. rewrite KI2. split; [reflexivity|exact P5]. }
      assert (Habs : ~ present g (hash k)).
      { intros Hpr. apply (@obs_slot hbits abits hs Hh Ha g (base A3) tr (parr p) (ko l) (hash k) 0 HI HK Es) in Hpr. destruct Hpr; congruence. }
      destruct (@IL_lin_real hs g g' A3 (base A3) tr t KCas (obj_slot (parr p) (pidx p)) true o r HL) as (atr' & HIL').
      { rewrite Hv2. exact Hopen. }
      { intros S HS. rewrite (Hstep S (abs_absent HS Habs)). cbn [fst snd]. split; [|reflexivity].
        intros x. rewrite zmem_cons. unfold g'. rewrite P5.
        assert (KIh : hash (ikey g id) = hash k) by (rewrite KI2; reflexivity).
        rewrite (@insert_present hbits abits hs Hh Ha g (base A3) tr (parr p) (ko l) (hash k) id HI HK Es Hid KIh x). rewrite <- (HS x). split.
        - intros Hx. apply orb_true_iff in Hx. destruct Hx as [Hx|Hx]; [left; apply Z.eqb_eq in Hx; apply zofN_inj; exact Hx|right; exact Hx].
        - intros [->|Hx]; apply orb_true_iff; [left; apply Z.eqb_refl|right; exact Hx]. }
      exists (set3 A3 (base A3) t (@Linearized SetSpec o r) atr'). split; [split; [eapply Inv_trace; exact HI'|exact HIL']|].
      split; [apply frame3_set; apply frame_refl|]. rewrite view3_set_same. rewrite Hv1. apply Hk1. reflexivity.
    - exists (set3 A3 (base A3) t (vst A3 t) (atr A3)). split; [split; [eapply Inv_trace; exact HI|apply IL_neutral with (g := g); [exact HL|apply same_refl]]|].
      split; [apply frame3_set; apply frame_refl|]. rewrite view3_set_same. rewrite Hv1, Hv2. apply Hk2. reflexivity.
  Qed.

  (** CAS item -> null: the linearization point of a successful erase *)
  Lemma safe3_cas_erase {R} t k kk p e (kont : V -> prog R) l s (Q : R -> L3 -> Prop) :
    posP (hash k) p l -> sbits e = 0 -> sptr e <> 0 -> kit l = sptr e -> kkey l = kk -> hash kk = hash k ->
    MF.open_read s (SErase (Z.of_N (hash k))) ->
    (forall v, vok v = true -> safe3 t (kont v) (l, @Linearized SetSpec (SErase (Z.of_N (hash k))) (RBool true)) Q) -> (forall v, vok v = false -> safe3 t (kont v) (l, s) Q) ->
    safe3 t (Act (a_cas (parr p) (pidx p) e snull) kont) (l, s) Q.
  Proof.
    intros HP He Hp0 Hkit Hkkey Hhash Hopen Hk1 Hk2. cbn [Conc.safe]. intros g A3 tr [HI HL] Hv. unfold view3 in Hv. injection Hv as Hv1 Hv2.
    unfold a_cas. destruct (slot_eqb (arr g (parr p) (pidx p)) e) eqn:E; cbn [fst snd].
    - apply slot_eqb_eq in E. destruct e as [pp bb]. cbn in He, Hp0, Hkit. subst bb.
      destruct HP as (P1 & P2 & P3 & P4 & P5).
      pose proof (i_known HI t) as HK. rewrite Hv1, P2 in HK.
      destruct (i_items HI t) as [KI _]. rewrite Hv1, Hkit in KI. destruct (KI Hp0) as [_ KI2]. rewrite Hkkey in KI2.
      set (g' := with_arr g (set_slot (arr g) (parr p) (pidx p) (mkSlot 0 0))).
      assert (HI' : Inv g' (base A3) tr).
      { eapply (Inv_data_cas Hh Ha); [exact HI|exact E|exact HK|]. left; reflexivity. }
      assert (Hpres : present g (hash k)).
      { exists (parr p), (pidx p), pp. split; [|rewrite KI2; exact Hhash].
        split; [eapply (@pfx_reach hbits abits hs Hh Ha g (base A3) tr HI (ko l) (parr p) (ko l) _ (le_n _) HK)|]. exists 0. repeat split; auto. }
      destruct (@IL_lin_real hs g g' A3 (base A3) tr t KCas (obj_slot (parr p) (pidx p)) true (SErase (Z.of_N (hash k))) (RBool true) HL) as (atr' & HIL').
      { rewrite Hv2. exact Hopen. }
      { intros S HS. cbn [set_step]. rewrite (abs_present HS Hpres). cbn [fst snd]. split; [|reflexivity].
        intros x. unfold g'. rewrite (@erase_present hbits abits hs Hh Ha g (base A3) tr (parr p) _ _ (pidx p) pp HI HK E Hp0 x). rewrite KI2, Hhash. rewrite <- (HS x).
        destruct (N.eq_dec x (hash k)) as [->|Hne].
        - rewrite zmem_zdel_same. split; [discriminate|intros [_ Hc]; congruence].
        - rewrite zmem_zdel_other by (intros Hc; apply Hne; apply zofN_inj; exact Hc). split; [intros Hx; split; assumption|intros [Hx _]; exact Hx]. }
      exists (set3 A3 (base A3) t (@Linearized SetSpec (SErase (Z.of_N (hash k))) (RBool true)) atr').
      split; [split; [eapply Inv_trace; exact HI'|exact HIL']|].
      split; [apply frame3_set; apply frame_refl|]. rewrite view3_set_same. rewrite Hv1. apply Hk1. reflexivity.
    - exists (set3 A3 (base A3) t (vst A3 t) (atr A3)). split; [split; [eapply Inv_trace; exact HI|apply IL_neutral with (g := g); [exact HL|apply same_refl]]|].
      split; [apply frame3_set; apply frame_refl|]. rewrite view3_set_same. rewrite Hv1, Hv2. apply Hk2. reflexivity.
  Qed.

  (** CAS item -> new item with the same hash (update of an existing item): presence does not change *)
  Lemma safe3_cas_replace {R} t k id kk p e (kont : V -> prog R) l s (Q : R -> L3 -> Prop) :
    posP (hash k) p l -> idP k id l -> id <> 0 -> sbits e = 0 -> sptr e <> 0 -> kit l = sptr e -> kkey l = kk -> hash kk = hash k ->
    (forall v, safe3 t (kont v) (l, s) Q) ->
    safe3 t (Act (a_cas (parr p) (pidx p) e (mkSlot id 0)) kont) (l, s) Q.
  Proof.
    intros HP HID Hid He Hp0 Hkit Hkkey Hhash Hk. apply safe3_neutral. intros g A tr HI Hv. unfold a_cas.
    destruct (slot_eqb (arr g (parr p) (pidx p)) e) eqn:E; cbn [fst snd].
    - apply slot_eqb_eq in E. destruct e as [pp bb]. cbn in He, Hp0, Hkit. subst bb.
      destruct HP as (P1 & P2 & P3 & P4 & P5).
      pose proof (i_known HI t) as HK. unfold view in Hv. rewrite Hv, P2 in HK.
      destruct HID as (D1 & D2).
      destruct (i_items HI t) as [KI KJ]. rewrite Hv in KI, KJ. rewrite Hkit in KI. rewrite D1 in KJ.
      destruct (KI Hp0) as [_ KI2]. rewrite Hkkey in KI2. destruct (KJ Hid) as [KJ1 KJ2]. rewrite D2 in KJ2.
      exists A. split.
      { eapply Inv_trace. eapply (Inv_data_cas Hh Ha); [exact HI|exact E|exact HK|]. right. split; [|exact KJ1].
        unfold fits. rewrite KJ2. split; [rewrite P3; reflexivity|exact P5]. }
      split; [apply frame_refl|]. split.
      { intros x. apply (@replace_present hbits abits hs Hh Ha g A tr (parr p) _ _ (pidx p) pp id HI HK E Hp0 Hid). rewrite KJ2, KI2. symmetry. exact Hhash. }
      split; [eauto|]. unfold view. rewrite Hv. apply Hk.
    - exists A. split; [eapply Inv_trace; exact HI|]. split; [apply frame_refl|]. split; [apply same_refl|]. split; [eauto|].
      rewrite Hv. apply Hk.
  Qed.

  Lemma safe3_retire {R} t (k : unit -> prog R) l s (Q : R -> L3 -> Prop) :
    safe3 t (k tt) (l, s) Q -> safe3 t (Conc.bind (retire t) k) (l, s) Q.
  Proof. intros H. unfold retire. cbn [Conc.bind]. apply safe3_nop. apply safe3_nop. exact H. Qed.

  (** ** expand_slot: three presence-preserving accesses *)
  Lemma safe3_expand t h k id p cur l s :
    posP h p l -> idP k id l -> sbits (vslot cur) = 0 -> sptr (vslot cur) <> 0 ->
    kit l = sptr (vslot cur) -> kkey l = vkey cur ->
    safe3 t (expand_slot abits hs p cur) (l, s) (fun _ l3 => posP h p (fst l3) /\ idP k id (fst l3) /\ snd l3 = s).
  Proof.
    intros HP HID Hb Hp0 Hkit Hkkey. unfold expand_slot.
    destruct (vslot cur) as [pp bb] eqn:Hcur. cbn in Hb, Hp0, Hkit. subst bb.
    destruct HP as (P1 & P2 & P3 & P4 & P5).
    apply safe3_neutral. intros g A tr HI Hv. unfold a_cas_conv.
    destruct (slot_eqb (arr g (parr p) (pidx p)) (mkSlot pp 0)) eqn:E; cbn [fst snd vok vid sptr].
    - apply slot_eqb_eq in E.
      pose proof (i_known HI t) as HK. unfold view in Hv. rewrite Hv, P2 in HK.
      exists (set_view A t (set_ph (views A t) (PConv (parr p) (pidx p) pp (narr g)))).
      split; [eapply Inv_trace; eapply (Inv_conv Hh Ha); eauto; rewrite Hv; exact P1|]. split; [apply frame_set_view|].
      split; [intros x; apply conv_preserves; exact E|]. split; [eauto|].
      rewrite view_set_same. rewrite Hv. generalize (narr g). intros n.
      (* the store *)
      clear g A tr HI E HK Hv. apply safe3_neutral. intros g A tr HI Hv. cbn [a_st fst snd]. unfold view in Hv.
      assert (Hph : ph (views A t) = PConv (parr p) (pidx p) pp n) by (rewrite Hv; reflexivity).
      pose proof (i_known HI t) as HK. rewrite Hv in HK. cbn [set_ph ka ko kpre] in HK. rewrite P2 in HK.
      destruct (i_items HI t) as [KI _]. rewrite Hv in KI. cbn [set_ph kit kkey] in KI. rewrite Hkit in KI. destruct (KI Hp0) as [_ KI2].
      exists (set_view A t (set_ph (views A t) (PStored (parr p) (pidx p) pp n))).
      replace (cut (hash (vkey cur)) (poff p) abits) with (cut (hash (ikey g pp)) (ko l + bits_of (parr p)) abits)
        by (rewrite KI2, Hkkey, P4; reflexivity).
      change (mkG (set_slot (arr g) n (cut (hash (ikey g pp)) (ko l + bits_of (parr p)) abits) (mkSlot pp 0)) (narr g) (nitem g) (ikey g) (count g))
        with (with_arr g (set_slot (arr g) n (cut (hash (ikey g pp)) (ko l + bits_of (parr p)) abits) (mkSlot pp 0))).
      split; [eapply Inv_trace; eapply (Inv_store Hh Ha); eauto|]. split; [apply frame_set_view|].
      split; [intros x; eapply store_preserves; eauto|]. split; [eauto|].
      rewrite view_set_same. rewrite Hv.
      (* the linking CAS *)
      clear g A tr HI Hv Hph HK KI KI2. apply safe3_neutral. intros g A tr HI Hv. unfold view in Hv. unfold a_cas.
      assert (Hph : ph (views A t) = PStored (parr p) (pidx p) pp n) by (rewrite Hv; reflexivity).
      destruct (i_pend HI t (or_intror Hph)) as (Hs & _).
      rewrite Hs. cbn [sptr]. replace (slot_eqb (mkSlot pp 1) (mkSlot pp 1)) with true by (symmetry; apply slot_eqb_eq; reflexivity).
      cbn [fst snd].
      pose proof (i_known HI t) as HK. rewrite Hv in HK. cbn [set_ph ka ko kpre] in HK. rewrite P2 in HK.
      exists (set_view (set_pfx A n (child (ko l) (kpre l) (bits_of (parr p)) (pidx p))) t (set_ph (views A t) PIdle)).
      change (mkG (set_slot (arr g) (parr p) (pidx p) (mkSlot n 2)) (narr g) (nitem g) (ikey g) (count g))
        with (with_arr g (set_slot (arr g) (parr p) (pidx p) (mkSlot n 2))).
      split; [eapply Inv_trace; eapply (Inv_link Hh Ha); eauto|].
      split; [intros u Hu; unfold view; cbn; destruct (Nat.eqb_spec u t); [congruence|reflexivity]|].
      split; [intros x; eapply link_preserves; eauto|]. split; [eauto|].
      unfold view at 1. cbn [views set_view set_pfx]. rewrite Nat.eqb_refl. rewrite Hv. cbn [set_ph ph ka ko kpre kit kkey kid kidk].
      cbn. split; [repeat split; auto|]. split; [exact HID|reflexivity].
    - exists A. split; [eapply Inv_trace; exact HI|]. split; [apply frame_refl|]. split; [apply same_refl|]. split; [eauto|].
      rewrite Hv. cbn. split; [repeat split; auto|]. split; [exact HID|reflexivity].
  Qed.

  (** ** the loops *)
  Definition rx (o : set_op) (x y : bool) : res := match o with SUpdate _ _ => RPair x y | _ => RBool x end.

  Definition QL (o : set_op) : out -> L3 -> Prop :=
    fun r l3 => ph (fst l3) = PIdle /\ match r with None => True | Some (x, y) => snd l3 = @Linearized SetSpec o (rx o x y) end.

  Lemma lin_read_some o b r s0 : MF.obs_res o b = Some r -> MF.lin_read o b s0 = @Linearized SetSpec o r.
  Proof. intros E. unfold MF.lin_read. rewrite E. reflexivity. Qed.

  (** all W bits of the hash consumed: the item in the slot has the same hash *)
  Lemma eos_contra k p l kk : posP (hash k) p l -> fitsK p l kk -> ~ (poff p < W) -> hash kk = hash k.
  Proof.
    intros (P1 & P2 & P3 & P4 & P5) (F1 & F2) Hn.
    assert (E : (hash kk mod 2 ^ N.of_nat (ko l + bits_of (parr p)) = hash k mod 2 ^ N.of_nat (ko l + bits_of (parr p)))%N).
    { rewrite !mod_extend. rewrite <- !cut_N. rewrite <- F2, <- P5. rewrite F1, P3. reflexivity. }
    assert (Hle : (2 ^ N.of_nat W <= 2 ^ N.of_nat (ko l + bits_of (parr p)))%N) by (apply N.pow_le_mono_r; lia).
    rewrite !N.mod_small in E; [exact E| |]; (eapply N.lt_le_trans; [apply Hbound|exact Hle]).
  Qed.

  Definition opU (is_update allow : bool) (z : Z) : set_op := if is_update then SUpdate z allow else SInsert z.

  Lemma opU_key iu al z : MF.op_key (opU iu al z) = z.
  Proof. destruct iu; reflexivity. Qed.

  Lemma safe3_upd_loop t is_update allow g0 k id sf : id <> 0 -> (is_update = false -> allow = true) ->
    let o := opU is_update allow (Z.of_N (hash k)) in
    forall fuel p l s, posP (hash k) p l -> idP k id l -> MF.open_read s o ->
    safe3 t (upd_loop abits W hs fuel sf is_update allow t g0 k id p) (l, s) (QL o).
  Proof.
    intros Hid Himp o. assert (Hkey : MF.op_key o = Z.of_N (hash k)) by apply opU_key.
    induction fuel as [|fuel IH]; intros p l s HP HID Hopen; cbn [upd_loop].
    - cbn. split; [apply HP|exact I].
    - apply Conc.safe_bind. eapply Conc.safe_weaken; [|eapply safe3_traverse with (h := hash k) (k := k) (id := id); eauto].
      intros [[p' v]|] [l1 s1] H1; cbn [fst snd] in H1; destruct H1 as (-> & H1); [|cbn; split; [exact H1|exact I]].
      destruct H1 as (HP1 & HID1 & Hb).
      apply Conc.safe_bind. eapply Conc.safe_weaken; [|eapply safe3_protect_arr with (h := hash k) (k := k) (id := id) (o := o); eauto].
      intros [v'|] [l2 s2] H2; cbn [protP3 fst snd] in H2; destruct H2 as (Hopen2 & H2); [|cbn; split; [exact H2|exact I]].
      destruct H2 as (HP2 & HID2 & K1 & K2 & FK & KS). cbn [fst snd] in HP2, HID2, K1, K2, FK, KS, Hopen2.
      destruct (slot_eqb (vslot v') (vslot v)) eqn:E; cbn [negb].
      2:{ apply IH; assumption. }
      apply slot_eqb_eq in E.
      assert (Hb' : sbits (vslot v') = 0) by (rewrite E; exact Hb).
      destruct (KS Hb') as (s0 & Es2).
      destruct (Nat.eqb_spec (sptr (vslot v)) 0) as [Hz|Hnz]; cbn [negb].
      + (* empty slot: key absent at the observation *)
        assert (Hob : obsb (hash k) v' = false) by (unfold obsb; rewrite E, Hz; reflexivity).
        destruct allow.
        * assert (Hsn : vslot v = snull) by (destruct (vslot v) as [a b]; cbn in *; subst; reflexivity).
          eapply safe3_cas_insert with (k := k) (id := id) (o := o) (r := rx o true true); [exact HP2|exact HID2|exact Hid|exact Hopen2| | |].
          -- intros S HS. unfold o, opU. destruct is_update; cbn [set_step rx]; rewrite HS; reflexivity.
          -- intros c Hc. rewrite Hc. apply safe3_cnt. cbn. split; [apply HP2|reflexivity].
          -- intros c Hc. rewrite Hc. apply IH; assumption.
        * cbn. split; [apply HP2|]. rewrite Es2, Hob.
          destruct is_update; [|specialize (Himp eq_refl); discriminate]. unfold o, opU; cbn. reflexivity.
      + assert (Hit : itm (vslot v') = sptr (vslot v)) by (rewrite E; apply itm_data; assumption).
        assert (Hitn : itm (vslot v') <> 0) by (rewrite Hit; exact Hnz).
        destruct (N.eqb (hash (vkey v')) (hash k)) eqn:Eh.
        * assert (Hob : obsb (hash k) v' = true).
          { unfold obsb. rewrite E. destruct (Nat.eqb_spec (sptr (vslot v)) 0); [congruence|]. cbn. exact Eh. }
          apply N.eqb_eq in Eh.
          destruct is_update.
          -- eapply safe3_cas_replace with (k := k) (id := id) (kk := vkey v');
               [exact HP2|exact HID2|exact Hid|exact Hb|exact Hnz|rewrite K1; exact Hit|apply K2; exact Hitn|exact Eh|].
             intros c. destruct (vok c).
             ++ apply safe3_retire. cbn. split; [apply HP2|]. rewrite Es2, Hob. unfold o, opU; cbn. try reflexivity; destruct allow; reflexivity.
             ++ apply IH; assumption.
          -- cbn. split; [apply HP2|]. rewrite Es2, Hob. unfold o, opU; cbn. try reflexivity; destruct allow; reflexivity.
        * assert (Hob : obsb (hash k) v' = false) by (unfold obsb; rewrite Eh; apply andb_false_r).
          destruct allow.
          -- destruct (Nat.ltb_spec (poff p') W) as [Hlt|Hge].
             ++ apply Conc.safe_bind. eapply Conc.safe_weaken; [|eapply safe3_expand with (h := hash k) (k := k) (id := id); [exact HP2|exact HID2|exact Hb'|rewrite E; exact Hnz|rewrite K1, Hit, E; reflexivity|apply K2; exact Hitn]].
                intros _ [l3 s3] (HP3 & HID3 & Es3). cbn [fst snd] in *. subst s3. apply IH; assumption.
             ++ exfalso. assert (hash (vkey v') = hash k) by (eapply eos_contra; eauto; lia).
                apply N.eqb_neq in Eh. congruence.
          -- cbn. split; [apply HP2|]. rewrite Es2, Hob.
             destruct is_update; [|specialize (Himp eq_refl); discriminate]. unfold o, opU; cbn. reflexivity.
  Qed.

  Lemma safe3_erase_loop t g0 k sf :
    let o := SErase (Z.of_N (hash k)) in
    forall fuel p l s, posP (hash k) p l -> MF.open_read s o ->
    safe3 t (erase_loop abits hs fuel sf t g0 k p) (l, s) (QL o).
  Proof.
    intros o. induction fuel as [|fuel IH]; intros p l s HP Hopen; cbn [erase_loop].
    - cbn. split; [apply HP|exact I].
    - assert (HID : idP (kidk l) (kid l) l) by (split; reflexivity).
      apply Conc.safe_bind. eapply Conc.safe_weaken; [|eapply safe3_traverse with (h := hash k) (k := kidk l) (id := kid l); eauto].
      intros [[p' v]|] [l1 s1] H1; cbn [fst snd] in H1; destruct H1 as (-> & H1); [|cbn; split; [exact H1|exact I]].
      destruct H1 as (HP1 & HID1 & Hb).
      apply Conc.safe_bind. eapply Conc.safe_weaken; [|eapply safe3_protect with (h := hash k) (k := kidk l) (id := kid l) (o := o); eauto].
      intros [v'|] [l2 s2] H2; cbn [protP3 fst snd] in H2; destruct H2 as (Hopen2 & H2); [|cbn; split; [exact H2|exact I]].
      destruct H2 as (HP2 & HID2 & K1 & K2 & FK & KS). cbn [fst snd] in HP2, HID2, K1, K2, FK, KS, Hopen2.
      destruct (slot_eqb (vslot v') (vslot v)) eqn:E; cbn [negb].
      2:{ apply IH; assumption. }
      apply slot_eqb_eq in E.
      assert (Hb' : sbits (vslot v') = 0) by (rewrite E; exact Hb).
      destruct (KS Hb') as (s0 & Es2).
      destruct (Nat.eqb_spec (sptr (vslot v)) 0) as [Hz|Hnz]; cbn [negb].
      + cbn. split; [apply HP2|]. rewrite Es2. unfold obsb. rewrite E, Hz. reflexivity.
      + assert (Hit : itm (vslot v') = sptr (vslot v)) by (rewrite E; apply itm_data; assumption).
        assert (Hitn : itm (vslot v') <> 0) by (rewrite Hit; exact Hnz).
        destruct (N.eqb (hash (vkey v')) (hash k)) eqn:Eh.
        * apply N.eqb_eq in Eh.
          eapply safe3_cas_erase with (k := k) (kk := vkey v');
            [exact HP2|exact Hb|exact Hnz|rewrite K1; exact Hit|apply K2; exact Hitn|exact Eh|exact Hopen2| |].
          -- intros c Hc. rewrite Hc. apply safe3_retire. apply safe3_cnt. cbn. split; [apply HP2|reflexivity].
          -- intros c Hc. rewrite Hc. apply IH; assumption.
        * cbn. split; [apply HP2|]. rewrite Es2. unfold obsb. rewrite Eh, andb_false_r. reflexivity.
  Qed.

  Lemma safe3_find_loop t g0 k sf :
    let o := SContains (Z.of_N (hash k)) in
    forall fuel p l s, posP (hash k) p l -> MF.open_read s o ->
    safe3 t (find_loop abits hs fuel sf t g0 k p) (l, s) (QL o).
  Proof.
    intros o. induction fuel as [|fuel IH]; intros p l s HP Hopen; cbn [find_loop].
    - cbn. split; [apply HP|exact I].
    - assert (HID : idP (kidk l) (kid l) l) by (split; reflexivity).
      apply Conc.safe_bind. eapply Conc.safe_weaken; [|eapply safe3_traverse with (h := hash k) (k := kidk l) (id := kid l); eauto].
      intros [[p' v]|] [l1 s1] H1; cbn [fst snd] in H1; destruct H1 as (-> & H1); [|cbn; split; [exact H1|exact I]].
      destruct H1 as (HP1 & HID1 & Hb).
      apply Conc.safe_bind. eapply Conc.safe_weaken; [|eapply safe3_protect with (h := hash k) (k := kidk l) (id := kid l) (o := o); eauto].
      intros [v'|] [l2 s2] H2; cbn [protP3 fst snd] in H2; destruct H2 as (Hopen2 & H2); [|cbn; split; [exact H2|exact I]].
      destruct H2 as (HP2 & HID2 & K1 & K2 & FK & KS). cbn [fst snd] in HP2, HID2, K1, K2, FK, KS, Hopen2.
      destruct (slot_eqb (vslot v') (vslot v)) eqn:E; cbn [negb].
      2:{ apply IH; assumption. }
      apply slot_eqb_eq in E.
      assert (Hb' : sbits (vslot v') = 0) by (rewrite E; exact Hb).
      destruct (KS Hb') as (s0 & Es2).
      cbn. split; [apply HP2|]. rewrite Es2. unfold obsb. rewrite E. reflexivity.
  Qed.

  (** ** invocation and response *)
  Lemma fhfold_inv tr t c k :
    fhfold hs (tr ++ Conc.tag t [EvCli "inv" [c; k]]) =
    (fst (fhfold hs tr) ++ [@HInv SetSpec t (spec_op hs c k)], fun u => if Nat.eqb u t then Some (spec_op hs c k) else snd (fhfold hs tr) u).
  Proof. rewrite fhfold_app. unfold Conc.tag. cbn [map fold_left]. unfold fhstep. destruct (fhfold hs tr). reflexivity. Qed.

  Lemma fhfold_ret tr t a b o : snd (fhfold hs tr) t = Some o ->
    fhfold hs (tr ++ Conc.tag t [EvCli "ret" [a; b]]) = (fst (fhfold hs tr) ++ [@HRes SetSpec t (res_of o a b)], snd (fhfold hs tr)).
  Proof. intros H. rewrite fhfold_app. unfold Conc.tag. cbn [map fold_left]. unfold fhstep. destruct (fhfold hs tr) as [out pend]. cbn in *. rewrite H. reflexivity. Qed.

  Lemma safe3_emit_inv {R} t c k (kont : prog R) l (Q : R -> L3 -> Prop) :
    safe3 t kont (know l 0 0 0%N, @Pending SetSpec (spec_op hs (Z.of_nat c) (Z.of_nat k))) Q ->
    safe3 t (Emit [ev_inv c k] kont) (l, @Idle SetSpec) Q.
  Proof.
    intros H. cbn [Conc.safe]. intros g A3 tr [HI [(S & stf & H1 & H2 & H3) H4 H5]] Hv. unfold view3 in Hv. injection Hv as Hv1 Hv2.
    set (o := spec_op hs (Z.of_nat c) (Z.of_nat k)).
    set (B := set_view (base A3) t (know (views (base A3) t) 0 0 0%N)).
    exists (set3 A3 B t (@Pending SetSpec o) (atr A3 ++ [@AInv SetSpec t o])). unfold ev_inv.
    split; [split|].
    - eapply Inv_trace. apply Inv_know; [exact HI|apply (i_head HI)].
    - constructor; cbn [atr vst set3].
      + exists S, (upd stf t (@Pending SetSpec o)). split; [|split; [|exact H3]].
        * eapply lp_append; [exact H1|]. cbn [lp_step]. rewrite H2, Hv2. reflexivity.
        * intros u. unfold upd. destruct (Nat.eqb_spec u t); [reflexivity|apply H2].
      + unfold full_hist. rewrite fhfold_inv. cbn [fst]. rewrite erase_app. cbn [erase]. rewrite H4. reflexivity.
      + intros u o0 Hc. rewrite fhfold_inv. cbn [snd]. destruct (Nat.eqb_spec u t) as [->|Hu]; [cbn in Hc; exact Hc|apply H5; exact Hc].
    - split; [apply frame3_set; apply frame_set_view|]. rewrite view3_set_same. unfold B. cbn [views set_view]. rewrite Nat.eqb_refl, Hv1. exact H.
  Qed.

  Lemma safe3_emit_ret {R} t x y o r (kont : prog R) l (Q : R -> L3 -> Prop) :
    res_of o (zb x) (zb y) = r ->
    safe3 t kont (l, @Idle SetSpec) Q ->
    safe3 t (Emit [ev_ret x y] kont) (l, @Linearized SetSpec o r) Q.
  Proof.
    intros Hr H. cbn [Conc.safe]. intros g A3 tr [HI [(S & stf & H1 & H2 & H3) H4 H5]] Hv. unfold view3 in Hv. injection Hv as Hv1 Hv2.
    exists (set3 A3 (base A3) t (@Idle SetSpec) (atr A3 ++ [@ARes SetSpec t r])). unfold ev_ret.
    assert (Hp : snd (fhfold hs tr) t = Some o) by (apply H5; rewrite Hv2; reflexivity).
    split; [split|].
    - eapply Inv_trace. exact HI.
    - constructor; cbn [atr vst set3].
      + exists S, (upd stf t (@Idle SetSpec)). split; [|split; [|exact H3]].
        * eapply lp_append; [exact H1|]. cbn [lp_step]. rewrite H2, Hv2.
          replace (res_eqb SetSpec r r) with true by (symmetry; apply (res_eqb_spec SetSpec); reflexivity). reflexivity.
        * intros u. unfold upd. destruct (Nat.eqb_spec u t); [reflexivity|apply H2].
      + unfold full_hist. rewrite (fhfold_ret _ _ _ _ Hp). cbn [fst]. rewrite erase_app. cbn [erase]. rewrite H4, Hr. reflexivity.
      + intros u o0 Hc. rewrite (fhfold_ret _ _ _ _ Hp). cbn [snd]. destruct (Nat.eqb_spec u t) as [->|Hu]; [cbn in Hc; discriminate|apply H5; exact Hc].
    - split; [apply frame3_set; apply frame_refl|]. rewrite view3_set_same. rewrite Hv1. exact H.
  Qed.

  (** the new item of an insert / update: presence is about items already in the tree *)
  Lemma same_new_item g A tr k : Inv g A tr ->
    same_presence hs g (mkG (arr g) (narr g) (S (nitem g)) (fun x => if Nat.eqb x (S (nitem g)) then k else ikey g x) (count g)).
  Proof.
    intros HI x. set (g' := mkG _ _ _ _ _).
    assert (R : forall y, reach_arr g' y <-> reach_arr g y) by (apply reach_arr_ext; intros; cbn; tauto).
    assert (K : forall a i p, data_at g a i p -> ikey g' p = ikey g p).
    { intros a i p (Hr & b & Hs & Hb & Hp0). destruct (reach_pfx HI Hr) as (o & pre & Hp).
      destruct (i_data HI _ _ Hp Hs Hb Hp0) as (_ & Hle & _). cbn. destruct (Nat.eqb_spec p (S (nitem g))); [lia|reflexivity]. }
    split; intros (a & i & p & (Hr & H) & Hx).
    - assert (Hd : data_at g a i p) by (split; [apply R; exact Hr|exact H]). exists a, i, p. split; [exact Hd|]. rewrite <- (K a i p Hd). exact Hx.
    - assert (Hd : data_at g a i p) by (split; assumption). exists a, i, p. split; [split; [apply R; exact Hr|exact H]|]. rewrite (K a i p Hd). exact Hx.
  Qed.

  Definition QI3 : option bool -> L3 -> Prop := fun _ l3 => ph (fst l3) = PIdle /\ (snd l3 = @Idle SetSpec \/ True).

  Lemma zb_nz b : nz (zb b) = b.
  Proof. destruct b; reflexivity. Qed.

  Lemma spec_op_code c k :
    spec_op hs (Z.of_nat c) (Z.of_nat k) =
    if Nat.eqb c 1 then SInsert (Z.of_N (hash k)) else if Nat.eqb c 3 then SUpdate (Z.of_N (hash k)) true
    else if Nat.eqb c 4 then SUpdate (Z.of_N (hash k)) false else if Nat.eqb c 7 then SErase (Z.of_N (hash k)) else SContains (Z.of_N (hash k)).
  Proof.
    unfold spec_op, hz. rewrite Nat2Z.id.
    replace (Z.of_nat c =? 1)%Z with (Nat.eqb c 1) by (destruct (Nat.eqb_spec c 1); destruct (Z.eqb_spec (Z.of_nat c) 1); lia).
    replace (Z.of_nat c =? 3)%Z with (Nat.eqb c 3) by (destruct (Nat.eqb_spec c 3); destruct (Z.eqb_spec (Z.of_nat c) 3); lia).
    replace (Z.of_nat c =? 4)%Z with (Nat.eqb c 4) by (destruct (Nat.eqb_spec c 4); destruct (Z.eqb_spec (Z.of_nat c) 4); lia).
    replace (Z.of_nat c =? 7)%Z with (Nat.eqb c 7) by (destruct (Nat.eqb_spec c 7); destruct (Z.eqb_spec (Z.of_nat c) 7); lia).
    reflexivity.
  Qed.

  (** post-condition of an operation: the thread is idle again (or stopped out of fuel) *)
  Definition QOP : option bool -> L3 -> Prop :=
    fun r l3 => match r with Some _ => ph (fst l3) = PIdle /\ snd l3 = @Idle SetSpec | None => True end.

  Lemma safe3_give_up t l s : safe3 t give_up (l, s) QOP.
  Proof. unfold give_up. apply safe3_emit_other; [reflexivity|reflexivity|]. exact I. Qed.

  Lemma safe3_run_op fuel t o gs l : ph l = PIdle -> safe3 t (run_op hbits abits W hs fuel t o gs) (l, @Idle SetSpec) QOP.
  Proof.
    intros HPh. unfold run_op.
    destruct o as [|code [|kz [|x r]]]; try (cbn; split; [exact HPh|reflexivity]).
    set (k := Z.to_nat kz). set (c := Z.to_nat code). clearbody k c.
    destruct (Nat.eqb c 1 || Nat.eqb c 3 || Nat.eqb c 4) eqn:Ec.
    - apply safe3_emit_inv. rewrite spec_op_code.
      set (iu := negb (Nat.eqb c 1)). set (al := negb (Nat.eqb c 4)).
      assert (Eo : (if Nat.eqb c 1 then SInsert (Z.of_N (hash k)) else if Nat.eqb c 3 then SUpdate (Z.of_N (hash k)) true
                    else if Nat.eqb c 4 then SUpdate (Z.of_N (hash k)) false else if Nat.eqb c 7 then SErase (Z.of_N (hash k)) else SContains (Z.of_N (hash k)))
                   = opU iu al (Z.of_N (hash k))).
      { unfold iu, al, opU. destruct (Nat.eqb_spec c 1) as [E1|N1]; [reflexivity|]. destruct (Nat.eqb_spec c 3) as [E3|N3]; [rewrite E3; reflexivity|].
        destruct (Nat.eqb_spec c 4) as [E4|N4]; [reflexivity|]. cbn in Ec. discriminate. }
      rewrite Eo. set (o := opU iu al (Z.of_N (hash k))).
      assert (Himp : iu = false -> al = true).
      { unfold iu, al. destruct (Nat.eqb_spec c 1) as [E1|]; [rewrite E1; reflexivity|discriminate]. }
      (* the new item *)
      apply safe3_neutral. intros g A tr HI Hv. cbn [a_gst_new fst snd vid]. unfold view in Hv.
      set (id := S (nitem g)).
      set (l1 := know_id (know l 0 0 0%N) id k).
      exists (set_view A t l1). split.
      { eapply Inv_trace. apply Inv_view_fields; try (rewrite Hv; reflexivity).
        - apply (Inv_new_item Hh Ha). exact HI.
        - cbn [l1 know_id know kit kkey kid kidk nitem ikey]. split.
          + intros Hn. destruct (i_items HI t) as [K _]. rewrite Hv in K. cbn [know kit kkey] in K. destruct (K Hn) as [K1 K2].
            split; [lia|]. unfold id. destruct (Nat.eqb_spec (kit l) (S (nitem g))); [lia|exact K2].
          + intros _. split; [unfold id; lia|]. unfold id. rewrite Nat.eqb_refl. reflexivity. }
      split; [apply frame_set_view|]. split; [apply (same_new_item k HI)|]. split; [eauto|].
      rewrite view_set_same. cbn beta.
      apply safe3_nop. apply Conc.safe_bind.
      eapply Conc.safe_weaken; [|eapply safe3_upd_loop with (is_update := iu) (allow := al) (k := k) (id := id); [unfold id; lia|exact Himp| | |left; reflexivity]].
      + intros [[x y]|] [l2 s2] (H2 & H3); cbn [fst snd] in *; [|apply safe3_give_up].
        subst s2. apply safe3_nop. apply safe3_nop.
        eapply safe3_emit_ret; [|cbn; split; [exact H2|reflexivity]].
        fold o. unfold res_of, rx. destruct o eqn:Eoo; rewrite ?zb_nz; try reflexivity.
        unfold o, opU, iu in Eoo. destruct (Nat.eqb_spec c 1) as [E1|]; cbn in Eoo; [discriminate|]. cbn. rewrite andb_true_r. reflexivity.
      + unfold l1, know_id, know, FeldmanStepSafe.posP, start; cbn. repeat split; auto. rewrite N.mod_1_r. reflexivity.
      + split; reflexivity.
    - destruct (Nat.eqb c 7) eqn:E7.
      + apply safe3_emit_inv. rewrite spec_op_code.
        assert (N1 : Nat.eqb c 1 = false) by (destruct (Nat.eqb c 1); [discriminate|reflexivity]).
        assert (N3 : Nat.eqb c 3 = false) by (destruct (Nat.eqb c 1); destruct (Nat.eqb c 3); cbn in Ec; try discriminate; reflexivity).
        assert (N4 : Nat.eqb c 4 = false) by (destruct (Nat.eqb c 1); destruct (Nat.eqb c 3); destruct (Nat.eqb c 4); cbn in Ec; try discriminate; reflexivity).
        rewrite N1, N3, N4, E7.
        apply Conc.safe_bind. eapply Conc.safe_weaken; [|apply safe3_erase_loop; [apply start_posP; exact HPh|left; reflexivity]].
        intros [[x y]|] [l2 s2] (H2 & H3); cbn [fst snd] in *; [|apply safe3_give_up].
        subst s2. apply safe3_nop. eapply safe3_emit_ret; [|cbn; split; [exact H2|reflexivity]]. cbn. rewrite zb_nz. reflexivity.
      + apply safe3_emit_inv. rewrite spec_op_code.
        assert (N1 : Nat.eqb c 1 = false) by (destruct (Nat.eqb c 1); [discriminate|reflexivity]).
        assert (N3 : Nat.eqb c 3 = false) by (destruct (Nat.eqb c 1); destruct (Nat.eqb c 3); cbn in Ec; try discriminate; reflexivity).
        assert (N4 : Nat.eqb c 4 = false) by (destruct (Nat.eqb c 1); destruct (Nat.eqb c 3); destruct (Nat.eqb c 4); cbn in Ec; try discriminate; reflexivity).
        rewrite N1, N3, N4, E7.
        apply Conc.safe_bind. eapply Conc.safe_weaken; [|apply safe3_find_loop; [apply start_posP; exact HPh|left; reflexivity]].
        intros [[x y]|] [l2 s2] (H2 & H3); cbn [fst snd] in *; [|apply safe3_give_up].
        subst s2. apply safe3_nop. eapply safe3_emit_ret; [|cbn; split; [exact H2|reflexivity]]. cbn. rewrite zb_nz. reflexivity.
  Qed.

  Lemma safe3_run_ops fuel t : forall os gs l, ph l = PIdle ->
    safe3 t (run_ops hbits abits W hs fuel t os gs) (l, @Idle SetSpec) (fun _ _ => True).
  Proof.
    induction os as [|o r IH]; intros gs l H; cbn [run_ops]; [exact I|].
    apply Conc.safe_bind. eapply Conc.safe_weaken; [|apply safe3_run_op; exact H].
    intros [gs'|] [l' s'] H'; cbn in H'; [destruct H' as [H1 H2]; cbn in H2; subst s'; apply IH; exact H1|exact I].
  Qed.

  Lemma safe3_thread fuel t os l : ph l = PIdle ->
    safe3 t (thread_prog hbits abits W hs fuel t os) (l, @Idle SetSpec) (@Conc.QTrue L3).
  Proof.
    intros H. unfold thread_prog. apply safe3_neutral. intros g A tr HI Hv. exists A. cbn [a_begin fst snd].
    split; [eapply Inv_trace; exact HI|]. split; [apply frame_refl|]. split; [apply same_refl|]. split; [eauto|]. rewrite Hv.
    eapply Conc.safe_weaken; [|apply safe3_run_ops; exact H]. intros; exact I.
  Qed.

  (** ** the initial configuration *)
  Definition A30 : Aux3 := mkAux3 A0 [] (fun _ => @Idle SetSpec).

  Lemma Inv3_init : Inv3 init A30 [].
  Proof.
    split; [apply Inv_init; assumption|]. constructor; cbn.
    - exists [], (fun _ => @Idle SetSpec). split; [reflexivity|]. split; [reflexivity|].
      intros x. cbn. split; [discriminate|]. intros (a & i & p & (_ & b & Hs & _ & Hp0) & _). cbn in Hs. inversion Hs; congruence.
    - reflexivity.
    - intros t o H. discriminate.
  Qed.

  Lemma init_ok3 fuel ths : Conc.cfg_ok view3 Inv3 (init_cfg hbits abits W hs fuel ths).
  Proof.
    exists A30. split; [exact Inv3_init|].
    intros t p Hp. cbn [init_cfg Conc.threads] in Hp. destruct (@nth_thread_progs hbits abits W hs Hh Ha fuel ths 0 t p Hp) as (os & ->).
    cbn [Nat.add]. apply safe3_thread. reflexivity.
  Qed.

  (** ** linearizability of the Feldman model, every schedule, reads included *)
  Theorem feldman_linearizable_lp fuel ths c :
    Conc.reach (init_cfg hbits abits W hs fuel ths) c ->
    exists atr, lp_valid SetSpec atr /\ erase atr = full_hist hs (Conc.trace c).
  Proof.
    intros Hr. destruct (Conc.reach_Inv (init_ok3 fuel ths) Hr) as (A & _ & [(S & stf & H1 & _) H2 _]).
    exists (atr A). split; [exists (S, stf); exact H1|exact H2].
  Qed.

  Theorem feldman_linearizable fuel ths c :
    Conc.reach (init_cfg hbits abits W hs fuel ths) c -> linearizable SetSpec (full_hist hs (Conc.trace c)).
  Proof.
    intros Hr. destruct (feldman_linearizable_lp Hr) as (atr & Hv & <-). apply lp_valid_linearizable. exact Hv.
  Qed.
End Safe3.
