(** * WeakRingBuffer<void> across the wrap of its uint64_t byte counters: every record returned by front() has
      the pushed size and bytes, for every schedule, every sequence of record sizes of ANY total volume, every
      start offset, provided the capacity divides 2^64.

    The invariant of LV.Proofs.RingVProofs with GHOST UNBOUNDED counters: the views hold unbounded integers
    B (ghost back_), F (ghost front_), PF, CB (ghost pfront_, cback_); the concrete uint64_t state is their
    image under [u64].  Segments, [lay], [seg_ok], the history predicate [Phi] and the byte-level lemmas are
    those of RingVProofs (they speak about unbounded positions p and the offset p mod cap);
    idx (u64 p) = p mod cap because the capacity divides 2^64. *)
From Coq Require Import ZArith List String Bool Lia PeanoNat Znumtheory.
From LV Require Import Base.Conc Base.Events Model.Ring Model.RingV Model.RingWrap Proofs.RingBase Proofs.RingVBase.
From LV Require Proofs.RingWrapProofs.
From LV Require Import Proofs.RingVProofs.
Import ListNotations.
Local Open Scope Z_scope.

Lemma vinit_cfg_at_0 exp2 cap pos cos : vinit_cfg_at exp2 cap 0 pos cos = vinit_cfg exp2 cap pos cos.
Proof. reflexivity. Qed.

(** ** capacity predicate: [capv_ok] (>= 1, multiple of 8, < 2^62, power of two under the mask) and a divisor
       of 2^64 *)
Definition capv_wrap_ok (exp2 : bool) (cap : Z) : bool := capv_ok exp2 cap && Z.eqb (two64 mod cap) 0.

Lemma u64_sub_le f b : 0 <= b - f < two64 -> u64 b - u64 f <= b - f.
Proof.
  intros H. unfold u64. pose proof two64_pos as T.
  pose proof (Z.div_mod b two64 ltac:(lia)) as Db. pose proof (Z.div_mod f two64 ltac:(lia)) as Df.
  pose proof (Z.mod_pos_bound b two64 T) as Mb. pose proof (Z.mod_pos_bound f two64 T) as Mf.
  assert (0 <= b / two64 - f / two64) by nia. nia.
Qed.

Lemma space_u pf c b : 0 <= pf + c - b < two64 -> u64 (u64 pf + c - u64 b) = pf + c - b.
Proof. intros H. rewrite RingWrapProofs.u64_space. apply u64_small. exact H. Qed.
Lemma avail_u cb f : 0 <= cb - f < two64 -> u64 (u64 cb - u64 f) = cb - f.
Proof. intros H. rewrite RingWrapProofs.u64_diff. apply u64_small. exact H. Qed.

Section RingWV.
  Variables (exp2 : bool) (cap : Z).
  Hypothesis Hwv : capv_wrap_ok exp2 cap = true.

  Lemma Hcapv : capv_ok exp2 cap = true.
  Proof. pose proof Hwv as H. unfold capv_wrap_ok in H. apply andb_prop in H. tauto. Qed.
  Lemma Hcap0 : cap_ok exp2 cap = true.
  Proof. exact (RingVProofs.Hcap exp2 cap Hcapv). Qed.
  Lemma vcap8 : cap mod 8 = 0.
  Proof. exact (RingVProofs.cap8 exp2 cap Hcapv). Qed.
  Lemma vcap_small : cap < 2 ^ 62.
  Proof. exact (RingVProofs.cap_small exp2 cap Hcapv). Qed.
  Lemma vcap_pos : 1 <= cap.
  Proof. exact (RingVProofs.cap_pos exp2 cap Hcapv). Qed.
  Lemma Hcw : RingWrapProofs.cap_wrap_ok exp2 cap = true.
  Proof.
    unfold RingWrapProofs.cap_wrap_ok. rewrite Hcap0. pose proof vcap_small.
    pose proof Hwv as H0. unfold capv_wrap_ok in H0. apply andb_prop in H0. destruct H0 as [_ H0]. rewrite H0.
    replace (Z.leb cap (2 ^ 63)) with true by (symmetry; apply Z.leb_le; lia). reflexivity.
  Qed.
  Lemma vcap_div : (cap | two64).
  Proof. exact (RingWrapProofs.cap_div exp2 cap Hcw). Qed.

  Lemma idx_u p : idx exp2 cap (u64 p) = p mod cap.
  Proof. exact (RingWrapProofs.idx_u64 exp2 cap Hcw p). Qed.

  Lemma u64_mod_cap p : u64 p mod cap = p mod cap.
  Proof.
    unfold u64. symmetry. apply Zmod_div_mod; [pose proof vcap_pos; lia|apply two64_pos|apply vcap_div].
  Qed.

  (** the ghost flag's test on the wrapped counters is implied by the test on the ghost counters *)
  Lemma occupied_u f b i : 0 <= b - f < two64 -> occupied cap f b i = false -> occupied cap (u64 f) (u64 b) i = false.
  Proof.
    unfold occupied. intros H E. apply Z.ltb_ge in E. apply Z.ltb_ge.
    pose proof (u64_sub_le f b H) as L.
    assert (M : (i - u64 f) mod cap = (i - f) mod cap).
    { rewrite Zminus_mod, u64_mod_cap, <- Zminus_mod. reflexivity. }
    rewrite M. lia.
  Qed.

  (** what back( size ) guarantees when it fails, in terms of the (possibly wrapped) counters at the deciding
      access: the number of occupied bytes is the difference modulo 2^64 *)
  Definition fail_condw (f b size : Z) : Prop :=
    let rs := rsz size in
    let free := cap - u64 (b - f) in
    let tail := cap - b mod cap in
    free < rs \/ (tail < rs /\ free - tail < rs).

  Lemma fail_condw_intro F B size :
    0 <= B - F < two64 -> fail_cond cap F B size -> fail_condw (u64 F) (u64 B) size.
  Proof.
    intros H. unfold fail_cond, fail_condw. rewrite avail_u by exact H. rewrite u64_mod_cap. tauto.
  Qed.

  Notation seg_ok := (RingVProofs.seg_ok cap).
  Notation lay := (RingVProofs.lay cap).

  (** phases, with the ghost counter of the owner as a parameter *)
  Definition pphw (g : GV) (back : Z) (l : lview) : Prop :=
    let tail := cap - back mod cap in
    match lv_ph l with
    | PTailT size =>
        1 <= size <= cap /\ rsz size <= cap /\
        tail < rsz size /\ 8 <= tail /\ read64 g (back mod cap) = make_tail (tail - 8) /\
        back + rsz size <= lv_loc l + cap
    | PTailS size =>
        1 <= size <= cap /\ rsz size <= cap /\
        tail < rsz size /\ 8 <= tail /\ read64 g (back mod cap) = make_tail (tail - 8) /\
        back + tail + rsz size <= lv_loc l + cap
    | PRec size seed =>
        seg_ok g back (SRec size seed) /\ back + rsz size <= lv_loc l + cap
    | _ => True
    end.

  Definition cphw (front : Z) (sg : list seg) (l : lview) : Prop :=
    match lv_ph l with
    | CRec size => front + 8 <= lv_loc l /\ exists seed rest, sg = SRec size seed :: rest
    | CTail t => front + 8 <= lv_loc l /\ exists rest, sg = STail t :: rest
    | CZero => front mod cap = 0
    | _ => True
    end.

  Record Inv (g : GV) (a : Aux) (tr : list (nat * ev)) : Prop := mkInv {
    j_gb : v_back g = u64 (lv_mine (pv a));
    j_gf : v_front g = u64 (lv_mine (cv a));
    j_chain : 0 <= lv_loc (pv a) /\ lv_loc (pv a) <= lv_mine (cv a) /\ lv_mine (cv a) <= lv_loc (cv a) /\
              lv_loc (cv a) <= lv_mine (pv a) /\ lv_mine (pv a) <= lv_loc (pv a) + cap;
    j_align : lv_mine (pv a) mod 8 = 0;
    j_len : lv_mine (cv a) + segs_len (segs a) = lv_mine (pv a);
    j_lay : lay g (lv_mine (cv a)) (segs a);
    (* cback_ is a segment boundary *)
    j_cb : exists l1 l2, segs a = l1 ++ l2 /\ lv_mine (cv a) + segs_len l1 = lv_loc (cv a);
    j_recs : recs_of (segs a) = skipn (npopped tr) (vpushed tr) /\ (npopped tr <= List.length (vpushed tr))%nat;
    j_fails : forall f b size, In (f, b, size) (v_fails g) -> fail_condw f b size;
    j_wbad : v_wbad g = false;
    j_pph : pphw g (lv_mine (pv a)) (pv a);
    j_cph : cphw (lv_mine (cv a)) (segs a) (cv a);
    j_hist : hist_ok Phi tr
  }.

  (** ** a producer write of the bytes [bs] at the ghost counters [b + d, b + d + |bs|), all of them free *)
  Lemma producer_write g bs d f b :
    v_front g = u64 f -> v_back g = u64 b ->
    0 <= f <= b -> 0 <= d -> b mod cap + d + Z.of_nat (List.length bs) <= cap ->
    b + d + Z.of_nat (List.length bs) <= f + cap -> v_wbad g = false ->
    let g' := write_bytes cap g (b mod cap + d) bs in
    v_front g' = v_front g /\ v_back g' = v_back g /\ v_fails g' = v_fails g /\ v_wbad g' = false /\
    (forall x, f <= x < b + d -> v_mem g' (x mod cap) = v_mem g (x mod cap)) /\
    read_bytes g' (b mod cap + d) (List.length bs) = bs.
  Proof.
    intros Gf Gb Hfb Hd Hfit Hfree Hw g'. pose proof vcap_pos as Hc. pose proof vcap_small as Hcs.
    pose proof (Z.mod_pos_bound b cap ltac:(lia)) as Mb.
    destruct (write_bytes_counters cap bs g (b mod cap + d)) as (A & B & C).
    split; [exact A|]. split; [exact B|]. split; [exact C|]. split; [|split].
    - apply write_bytes_wbad; [exact Hw|]. intros i Hi. split; [lia|].
      rewrite Gf, Gb. apply occupied_u; [unfold two64; lia|].
      unfold occupied. apply Z.ltb_ge.
      replace (b mod cap + d + i - f) with ((b + d + i - f) + (- (b / cap)) * cap).
      2:{ pose proof (Z.div_mod b cap ltac:(lia)). lia. }
      rewrite Z_mod_plus_full. rewrite Z.mod_small by lia. lia.
    - intros x Hx. unfold g'. apply write_bytes_other.
      destruct (Z.lt_ge_cases (x mod cap) (b mod cap + d)) as [Hlt|Hge]; [left; exact Hlt|right].
      destruct (Z.lt_ge_cases (x mod cap) (b mod cap + d + Z.of_nat (List.length bs))) as [Hin|Hout]; [|exact Hout].
      exfalso. set (i := x mod cap - (b mod cap)).
      assert ((b + i) mod cap = x mod cap) as E.
      { rewrite (RingVProofs.mod_offset exp2 cap Hcapv) by (unfold i; lia). unfold i. lia. }
      symmetry in E. apply mod_inj_window in E; [|lia|unfold i; lia]. unfold i in E. lia.
    - apply write_bytes_read.
  Qed.

  Lemma pphw_mem g g' b l : v_mem g' = v_mem g -> pphw g b l -> pphw g' b l.
  Proof.
    intros E. unfold pphw. destruct (lv_ph l); auto.
    - rewrite (read64_mem g g') by exact E. auto.
    - rewrite (read64_mem g g') by exact E. auto.
    - intros (H1 & H2). split; [eapply seg_ok_mem; eauto|exact H2].
  Qed.

  (** ** histories *)
  Lemma Inv_neutral g a tr t e :
    Inv g a tr -> vpush_rec e = [] -> vpop_cnt e = 0%nat -> Phi tr t e -> Inv g a (tr ++ [(t, e)]).
  Proof.
    intros I E1 E2 HP. destruct I.
    constructor; rewrite ?vpushed_snoc, ?npopped_snoc, ?E1, ?E2, ?app_nil_r, ?Nat.add_0_r; auto.
    apply hist_ok_snoc; assumption.
  Qed.

  Lemma Inv_acc g a tr t k o ok : Inv g a tr -> Inv g a (tr ++ [(t, EvAcc k o ok)]).
  Proof. intros I. apply Inv_neutral; auto. exact Logic.I. Qed.

  (** ** producer steps *)

  (** the producer changes its view and possibly writes free bytes / logs a failure *)
  Lemma Inv_p_write g g' a tr l' :
    Inv g a tr ->
    v_front g' = v_front g -> v_back g' = v_back g -> v_wbad g' = false ->
    (forall f b size, In (f, b, size) (v_fails g') -> fail_condw f b size) ->
    (forall x, lv_mine (cv a) <= x < lv_mine (pv a) -> v_mem g' (x mod cap) = v_mem g (x mod cap)) ->
    lv_mine l' = lv_mine (pv a) -> lv_loc (pv a) <= lv_loc l' <= lv_mine (cv a) ->
    pphw g' (lv_mine (pv a)) l' ->
    Inv g' (mkA (segs a) l' (cv a)) tr.
  Proof.
    intros I F B W FL AG M LOC PP. destruct I.
    constructor; cbn [segs pv cv]; rewrite ?F, ?B, ?M; auto; try lia.
    eapply (RingVProofs.lay_frame exp2 cap Hcapv); [exact AG| |rewrite j_len0; apply Z.le_refl|exact j_lay0]. lia.
  Qed.

  (** D: back_.store( back + tail ) publishes the tail marker *)
  Lemma Inv_p_pubtail g a tr pf b size :
    Inv g a tr -> pv a = mkL pf b 0 (PTailS size) ->
    let tail := cap - b mod cap in
    Inv (setv_back g (u64 (b + tail))) (mkA (segs a ++ [STail tail]) (mkL pf (b + tail) 0 PIdle) (cv a)) tr.
  Proof.
    intros I Hpv tail. destruct I. rewrite Hpv in *. cbn [lv_loc lv_mine lv_rem lv_ph] in *.
    unfold pphw in j_pph0. cbn [lv_loc lv_mine lv_rem lv_ph] in j_pph0.
    destruct j_pph0 as (S1 & S2 & S4 & S5 & S6 & S7). fold tail in S4, S5, S6, S7.
    pose proof vcap_pos as Hc. pose proof (Z.mod_pos_bound b cap ltac:(lia)) as Mb.
    assert (Ht8 : tail mod 8 = 0).
    { unfold tail. rewrite Zminus_mod, vcap8, (RingVProofs.off_mod8 exp2 cap Hcapv) by exact j_align0. reflexivity. }
    destruct (RingVProofs.segs_len_nonneg cap _ _ _ j_lay0) as (N1 & _ & _).
    constructor; cbn [segs pv cv lv_loc lv_mine lv_rem lv_ph setv_back v_front v_back v_mem v_fails v_wbad]; auto; try lia.
    - rewrite Z.add_mod, j_align0, Ht8 by lia. reflexivity.
    - rewrite segs_len_app. cbn [segs_len seg_len]. lia.
    - apply (RingVProofs.lay_app cap). split; [eapply lay_mem; [|exact j_lay0]; reflexivity|].
      cbn [RingVProofs.lay]. split; [|exact Logic.I]. rewrite j_len0. cbn [RingVProofs.seg_ok].
      repeat split; try lia. rewrite (read64_mem g) by reflexivity. exact S6.
    - destruct j_cb0 as (l1 & l2 & E1 & E2). exists l1, (l2 ++ [STail tail]). rewrite E1, app_assoc. auto.
    - rewrite recs_of_app. cbn [recs_of]. rewrite app_nil_r. exact j_recs0.
    - unfold pphw. cbn. exact Logic.I.
    - unfold cphw in *. destruct (lv_ph (cv a)); auto.
      + destruct j_cph0 as (C1 & seed & rest & C2). split; [exact C1|]. rewrite C2. cbn [app]. eauto.
      + destruct j_cph0 as (C1 & rest & C2). split; [exact C1|]. rewrite C2. cbn [app]. eauto.
  Qed.

  (** F: back_.store( back + real_size ) publishes the record, with its "vpush_ok" event *)
  Lemma Inv_p_push g a tr pf b size seed :
    Inv g a tr -> pv a = mkL pf b 0 (PRec size seed) ->
    Inv (setv_back g (u64 (b + rsz size))) (mkA (segs a ++ [SRec size seed]) (mkL pf (b + rsz size) 0 PIdle) (cv a))
        (tr ++ [(0%nat, EvCli "vpush_ok" [size; seed])]).
  Proof.
    intros I Hpv. destruct I. rewrite Hpv in *. cbn [lv_loc lv_mine lv_rem lv_ph] in *.
    unfold pphw in j_pph0. cbn [lv_loc lv_mine lv_rem lv_ph] in j_pph0.
    destruct j_pph0 as (S1 & S2).
    destruct (RingVProofs.seg_len_pos cap _ _ _ S1) as (L1 & L2 & L3). cbn [seg_len] in *.
    destruct (RingVProofs.segs_len_nonneg cap _ _ _ j_lay0) as (N1 & _ & _).
    constructor; cbn [segs pv cv lv_loc lv_mine lv_rem lv_ph setv_back v_front v_back v_mem v_fails v_wbad];
      rewrite ?vpushed_snoc, ?npopped_snoc; cbn [vpush_rec vpop_cnt String.eqb Ascii.eqb Bool.eqb];
      rewrite ?Nat.add_0_r; auto; try lia.
    - rewrite Z.add_mod, j_align0, L2 by lia. reflexivity.
    - rewrite segs_len_app. cbn [segs_len seg_len]. lia.
    - apply (RingVProofs.lay_app cap). split; [eapply lay_mem; [|exact j_lay0]; reflexivity|].
      cbn [RingVProofs.lay]. split; [|exact Logic.I]. rewrite j_len0. eapply seg_ok_mem; [|exact S1]. reflexivity.
    - destruct j_cb0 as (l1 & l2 & E1 & E2). exists l1, (l2 ++ [SRec size seed]). rewrite E1, app_assoc. auto.
    - destruct j_recs0 as (R1 & R2). rewrite recs_of_app. cbn [recs_of]. rewrite R1. split.
      + symmetry. apply skipn_snoc. exact R2.
      + rewrite app_length. lia.
    - unfold pphw. cbn. exact Logic.I.
    - unfold cphw in *. destruct (lv_ph (cv a)); auto.
      + destruct j_cph0 as (C1 & seed' & rest & C2). split; [exact C1|]. rewrite C2. cbn [app]. eauto.
      + destruct j_cph0 as (C1 & rest & C2). split; [exact C1|]. rewrite C2. cbn [app]. eauto.
    - apply hist_ok_snoc; [assumption|]. apply Phi_trivial; discriminate.
  Qed.

  (** ** consumer steps *)

  (** the consumer changes its phase, or reloads cback_ = back_ *)
  Lemma Inv_c_view g a tr l' :
    Inv g a tr -> lv_mine l' = lv_mine (cv a) ->
    (lv_loc l' = lv_loc (cv a) \/ lv_loc l' = lv_mine (pv a)) ->
    cphw (lv_mine (cv a)) (segs a) l' -> Inv g (mkA (segs a) (pv a) l') tr.
  Proof.
    intros I M LOC CP. destruct I.
    constructor; cbn [segs pv cv]; rewrite ?M; auto; try (destruct LOC as [->| ->]; lia).
    destruct LOC as [->| ->]; [exact j_cb0|]. exists (segs a), []. rewrite app_nil_r. auto.
  Qed.

  Lemma head_boundary g a tr s rest :
    Inv g a tr -> segs a = s :: rest -> lv_mine (cv a) + 8 <= lv_loc (cv a) ->
    lv_mine (cv a) + seg_len s <= lv_loc (cv a) /\
    exists l1 l2, rest = l1 ++ l2 /\ lv_mine (cv a) + seg_len s + segs_len l1 = lv_loc (cv a).
  Proof.
    intros I Hs H8. destruct I. destruct j_cb0 as (l1 & l2 & E1 & E2).
    destruct l1 as [|s' l1']; [cbn in E2; lia|].
    rewrite Hs in E1. cbn in E1. inversion E1; subst s' rest.
    rewrite Hs in j_lay0. cbn [RingVProofs.lay] in j_lay0. destruct j_lay0 as (_ & Hr).
    apply (RingVProofs.lay_app cap) in Hr. destruct Hr as (Hr1 & _).
    destruct (RingVProofs.segs_len_nonneg cap _ _ _ Hr1) as (N1 & _ & _). cbn [segs_len] in E2.
    split; [lia|]. exists l1', l2. split; [reflexivity|lia].
  Qed.

  (** D of pop_front() on a record, with its "vpop_ok" event *)
  Lemma Inv_c_pop_rec g a tr cb f size :
    Inv g a tr -> cv a = mkL cb f 0 (CRec size) ->
    exists seed rest, segs a = SRec size seed :: rest /\
    Inv (setv_front g (u64 (f + rsz size))) (mkA rest (pv a) (mkL cb (f + rsz size) 0 PIdle))
        (tr ++ [(1%nat, EvCli "vpop_ok" [])]).
  Proof.
    intros I Hcv. pose proof I as I'. destruct I'. rewrite Hcv in *. cbn [lv_loc lv_mine lv_rem lv_ph] in *.
    unfold cphw in j_cph0. cbn [lv_loc lv_ph] in j_cph0. destruct j_cph0 as (C1 & seed & rest & C2).
    exists seed, rest. split; [exact C2|].
    destruct (head_boundary g a tr _ _ I C2) as (B1 & l1 & l2 & B2 & B3); [rewrite Hcv; exact C1|].
    rewrite Hcv in B1, B3. cbn [lv_loc lv_mine seg_len] in B1, B3.
    rewrite C2 in *. cbn [RingVProofs.lay segs_len seg_len recs_of] in *. destruct j_lay0 as (Hs & Hr).
    destruct (RingVProofs.seg_len_pos cap _ _ _ Hs) as (L1 & L2 & L3). cbn [seg_len] in *.
    destruct j_recs0 as (R1 & R2). symmetry in R1. destruct (skipn_cons_nth _ _ _ _ R1) as (K1 & K2 & K3).
    constructor; cbn [segs pv cv lv_loc lv_mine lv_rem lv_ph setv_front v_front v_back v_mem v_fails v_wbad];
      rewrite ?vpushed_snoc, ?npopped_snoc; cbn [vpush_rec vpop_cnt String.eqb Ascii.eqb Bool.eqb];
      rewrite ?app_nil_r; auto; try lia.
    - eapply lay_mem; [|exact Hr]. reflexivity.
    - exists l1, l2. auto.
    - replace (npopped tr + 1)%nat with (S (npopped tr)) by lia. split; [symmetry; exact K2|exact K3].
    - eapply pphw_mem; [|exact j_pph0]. reflexivity.
    - unfold cphw. cbn. exact Logic.I.
    - apply hist_ok_snoc; [assumption|]. apply Phi_trivial; discriminate.
  Qed.

  (** D of the pop_front() inside front() on a tail marker: no client event *)
  Lemma Inv_c_pop_tail g a tr cb f t :
    Inv g a tr -> cv a = mkL cb f 0 (CTail t) ->
    exists rest, segs a = STail t :: rest /\
    Inv (setv_front g (u64 (f + t))) (mkA rest (pv a) (mkL cb (f + t) 0 CZero)) tr.
  Proof.
    intros I Hcv. pose proof I as I'. destruct I'. rewrite Hcv in *. cbn [lv_loc lv_mine lv_rem lv_ph] in *.
    unfold cphw in j_cph0. cbn [lv_loc lv_ph] in j_cph0. destruct j_cph0 as (C1 & rest & C2).
    exists rest. split; [exact C2|].
    destruct (head_boundary g a tr _ _ I C2) as (B1 & l1 & l2 & B2 & B3); [rewrite Hcv; exact C1|].
    rewrite Hcv in B1, B3. cbn [lv_loc lv_mine seg_len] in B1, B3.
    rewrite C2 in *. cbn [RingVProofs.lay segs_len seg_len recs_of] in *. destruct j_lay0 as (Hs & Hr).
    destruct (RingVProofs.seg_len_pos cap _ _ _ Hs) as (L1 & L2 & L3). cbn [seg_len RingVProofs.seg_ok] in *.
    destruct Hs as (T1 & T2 & T3 & T4 & T5). pose proof vcap_pos as Hc.
    constructor; cbn [segs pv cv lv_loc lv_mine lv_rem lv_ph setv_front v_front v_back v_mem v_fails v_wbad];
      auto; try lia.
    - eapply lay_mem; [|exact Hr]. reflexivity.
    - exists l1, l2. auto.
    - eapply pphw_mem; [|exact j_pph0]. reflexivity.
    - unfold cphw. cbn [lv_ph].
      rewrite (Z.div_mod f cap) at 1 by lia.
      replace (cap * (f / cap) + f mod cap + t) with ((f / cap + 1) * cap) by lia.
      apply Z_mod_mult.
  Qed.

  (** ** producer memory writes *)
  Lemma write_tail g v f b :
    v_front g = u64 f -> v_back g = u64 b ->
    0 <= f <= b -> b mod cap + 8 <= cap -> b + 8 <= f + cap ->
    v_wbad g = false -> 0 <= v < two64 ->
    let g' := write64 cap g (b mod cap) v in
    v_front g' = v_front g /\ v_back g' = v_back g /\ v_fails g' = v_fails g /\ v_wbad g' = false /\
    (forall x, f <= x < b -> v_mem g' (x mod cap) = v_mem g (x mod cap)) /\
    read64 g' (b mod cap) = v.
  Proof.
    intros Gf Gb Hfb Hfit Hfree Hw Hv g'.
    pose proof (producer_write g (le_bytes 8 v) 0 f b Gf Gb) as P. cbn zeta in P.
    rewrite le_bytes_length, !Z.add_0_r in P. change (Z.of_nat 8) with 8 in P.
    destruct (P Hfb ltac:(lia) ltac:(lia) ltac:(lia) Hw) as (A & B & C & D & E & F).
    repeat split; auto.
    unfold read64. unfold g', write64. rewrite F. apply le_roundtrip. exact Hv.
  Qed.

  Lemma write_record g size seed f b :
    v_front g = u64 f -> v_back g = u64 b ->
    0 <= f <= b -> 1 <= size <= cap -> b mod cap + rsz size <= cap ->
    b + rsz size <= f + cap -> v_wbad g = false ->
    let o := b mod cap in
    let g' := write_bytes cap (write64 cap g o size) (o + 8) (data_bytes size seed) in
    v_front g' = v_front g /\ v_back g' = v_back g /\ v_fails g' = v_fails g /\ v_wbad g' = false /\
    (forall x, f <= x < b -> v_mem g' (x mod cap) = v_mem g (x mod cap)) /\
    seg_ok g' b (SRec size seed).
  Proof.
    intros Gf Gb Hfb Hsz Hfit Hfree Hw o g'. pose proof vcap_small as Hcs. pose proof vcap_pos as Hc.
    destruct (rsz_bounds size ltac:(lia)) as (R1 & R2 & R3).
    pose proof (Z.mod_pos_bound b cap ltac:(lia)) as Mb.
    assert (Hv : 0 <= size < two64) by (unfold two64; lia).
    (* header *)
    pose proof (producer_write g (le_bytes 8 size) 0 f b Gf Gb) as P. cbn zeta in P.
    rewrite le_bytes_length, !Z.add_0_r in P. change (Z.of_nat 8) with 8 in P.
    destruct (P Hfb ltac:(lia) ltac:(lia) ltac:(lia) Hw) as (A1 & B1 & C1 & D1 & E1 & F1).
    fold (write64 cap g (b mod cap) size) in A1, B1, C1, D1, E1, F1.
    set (g1 := write64 cap g (b mod cap) size) in *.
    (* data *)
    pose proof (producer_write g1 (data_bytes size seed) 8 f b (eq_trans A1 Gf) (eq_trans B1 Gb)) as P2. cbn zeta in P2.
    rewrite data_bytes_length in P2 by lia.
    destruct (P2 Hfb ltac:(lia) ltac:(lia) ltac:(lia) D1) as (A2 & B2 & C2 & D2 & E2 & F2).
    fold o in A2, B2, C2, D2, E2, F2. fold g' in A2, B2, C2, D2, E2, F2.
    split; [exact (eq_trans A2 A1)|]. split; [exact (eq_trans B2 B1)|]. split; [exact (eq_trans C2 C1)|].
    split; [exact D2|]. split.
    - intros x Hx. rewrite E2 by lia. apply E1. exact Hx.
    - cbn [RingVProofs.seg_ok]. fold o. repeat split; try lia.
      + unfold read64. rewrite (read_bytes_agree g1 g' 8 o).
        * fold o in F1. rewrite F1. apply le_roundtrip. exact Hv.
        * intros i Hi. change (Z.of_nat 8) with 8 in Hi. unfold o.
          rewrite <- (RingVProofs.mod_offset exp2 cap Hcapv b i) by lia. apply E2. lia.
      + replace (Z.to_nat size) with (List.length (data_bytes size seed)); [exact F2|].
        pose proof (data_bytes_length size seed ltac:(lia)). lia.
  Qed.

  (** ** the operations are safe *)
  Notation safe := (@Conc.safe GV V ev Aux lview view Inv).

  Lemma frame_p a sg l : Conc.frame view 0 a (mkA sg l (cv a)).
  Proof. intros t' Ht. destruct t' as [|[|t']]; [congruence| |]; reflexivity. Qed.
  Lemma frame_c a sg l : Conc.frame view 1 a (mkA sg (pv a) l).
  Proof. intros t' Ht. destruct t' as [|[|t']]; [|congruence|]; reflexivity. Qed.
  Lemma frame_refl t a : Conc.frame view t a a.
  Proof. intros t' Ht. reflexivity. Qed.
  Lemma tag1 t (e : ev) : Conc.tag t [e] = [(t, e)].
  Proof. reflexivity. Qed.
  Lemma tag2 t (e1 e2 : ev) tr : tr ++ Conc.tag t [e1; e2] = (tr ++ [(t, e1)]) ++ [(t, e2)].
  Proof. unfold Conc.tag. cbn [map]. rewrite <- app_assoc. reflexivity. Qed.

  (** the tests of the code, on counters that may have wrapped, decide the ghost inequalities *)
  Lemma space_lt_false pf back n :
    0 <= pf + cap - back < two64 -> space_lt cap (u64 pf) (u64 back) n = false -> back + n <= pf + cap.
  Proof. unfold space_lt. intros H E. rewrite space_u in E by exact H. apply Z.ltb_ge in E. lia. Qed.
  Lemma space_lt_true pf back n :
    0 <= pf + cap - back < two64 -> space_lt cap (u64 pf) (u64 back) n = true -> pf + cap - back < n.
  Proof. unfold space_lt. intros H E. rewrite space_u in E by exact H. apply Z.ltb_lt in E. lia. Qed.
  Lemma avail_lt_false cb f n :
    0 <= cb - f < two64 -> avail_lt (u64 cb) (u64 f) n = false -> f + n <= cb.
  Proof. unfold avail_lt. intros H E. rewrite avail_u in E by exact H. apply Z.ltb_ge in E. lia. Qed.
  Lemma avail_lt_true cb f n :
    0 <= cb - f < two64 -> avail_lt (u64 cb) (u64 f) n = true -> cb - f < n.
  Proof. unfold avail_lt. intros H E. rewrite avail_u in E by exact H. apply Z.ltb_lt in E. lia. Qed.

  Lemma vcrs_eq size : 1 <= size <= cap -> calc_real_size size = rsz size.
  Proof. exact (RingVProofs.crs_eq exp2 cap Hcapv size). Qed.

  Definition Qp : Z -> lview -> Prop :=
    fun pf l => exists PF b, pf = u64 PF /\ l = mkL PF b 0 PIdle.

  (** push_back(): E, F *)
  Lemma safe_push_back_op pf b size seed ret :
    1 <= size <= cap ->
    safe 0 (push_back_op exp2 cap size seed ret) (mkL pf b 0 (PRec size seed))
         (fun r l => r = ret /\ exists b', l = mkL pf b' 0 PIdle).
  Proof.
    intros Hsz. unfold push_back_op. cbn [Conc.safe]. intros g a tr I Hv. cbn [view] in Hv.
    unfold av_pb_ld_back. cbn [fst snd hd].
    exists a. split; [rewrite tag1; apply Inv_acc; exact I|]. split; [apply frame_refl|].
    cbn [view]. rewrite Hv.
    assert (Hb : v_back g = u64 b /\ read64 g (b mod cap) = size).
    { destruct I. rewrite Hv in *. cbn [lv_loc lv_mine lv_rem lv_ph] in *.
      unfold pphw in j_pph0. cbn [lv_loc lv_mine lv_rem lv_ph] in j_pph0.
      destruct j_pph0 as (S1 & S2). cbn [RingVProofs.seg_ok] in S1. destruct S1 as (_ & _ & _ & S1 & _).
      split; [auto|exact S1]. }
    destruct Hb as (Hb1 & Hb2). rewrite Hb1, idx_u, Hb2, vcrs_eq, RingWrapProofs.u64_add_l by exact Hsz.
    clear g a tr I Hv Hb1 Hb2.
    cbn [Conc.safe]. intros g a tr I Hv. cbn [view] in Hv. unfold av_pb_st_back. cbn [fst snd].
    exists (mkA (segs a ++ [SRec size seed]) (mkL pf (b + rsz size) 0 PIdle) (cv a)).
    split; [|split; [apply frame_p|]].
    - rewrite tag2. eapply Inv_p_push; [apply Inv_acc; exact I|exact Hv].
    - cbn. split; [reflexivity|]. eexists. reflexivity.
  Qed.

  (** D: publish the tail, write the record at the start of the buffer, then push_back() *)
  Lemma safe_D pf b size seed ret :
    1 <= size <= cap ->
    safe 0 (Act (av_back_st_back cap (u64 (b + (cap - b mod cap))) size seed) (fun _ => push_back_op exp2 cap size seed ret))
         (mkL pf b 0 (PTailS size)) (fun r l => r = ret /\ exists b', l = mkL pf b' 0 PIdle).
  Proof.
    intros Hsz. cbn [Conc.safe]. intros g a tr I Hv. cbn [view] in Hv.
    unfold av_back_st_back. cbn [fst snd].
    pose proof (Inv_p_pubtail g a tr pf b size I Hv) as I1. cbn zeta in I1.
    set (tail := cap - b mod cap) in *.
    set (g1 := setv_back g (u64 (b + tail))) in *.
    assert (Hfacts : 8 <= tail <= cap /\ rsz size <= cap /\
                     b + tail + rsz size <= pf + cap /\ (b + tail) mod cap = 0 /\ 0 <= pf <= lv_mine (cv a) /\
                     lv_mine (cv a) <= b).
    { destruct I. rewrite Hv in *. cbn [lv_loc lv_mine lv_rem lv_ph] in *.
      unfold pphw in j_pph0. cbn [lv_loc lv_mine lv_rem lv_ph] in j_pph0.
      destruct j_pph0 as (S1 & S2 & S4 & S5 & S6 & S7). pose proof vcap_pos as Hc.
      pose proof (Z.mod_pos_bound b cap ltac:(lia)) as Mb. fold tail in S4, S5, S6, S7.
      repeat split; try lia. unfold tail.
      rewrite (Z.div_mod b cap) at 1 by lia.
      replace (cap * (b / cap) + b mod cap + (cap - b mod cap)) with ((b / cap + 1) * cap) by lia.
      apply Z_mod_mult. }
    destruct Hfacts as (Ht & Hrs & Hsp & Hz & Hpf & Hfb).
    pose proof I1 as I1'. destruct I1'. cbn [segs pv cv lv_loc lv_mine lv_rem lv_ph] in *.
    destruct (write_record g1 size seed (lv_mine (cv a)) (b + tail)) as (A & B & C & D & E & F);
      [exact j_gf0|exact j_gb0|lia|exact Hsz|rewrite Hz; lia|lia|exact j_wbad0|].
    rewrite Hz in A, B, C, D, E, F. cbn [Z.add] in A, B, C, D, E, F.
    set (g2 := write_bytes cap (write64 cap g1 0 size) 8 (data_bytes size seed)) in *.
    exists (mkA (segs a ++ [STail tail]) (mkL pf (b + tail) 0 (PRec size seed)) (cv a)).
    split; [|split; [apply frame_p|]].
    - rewrite tag1. apply Inv_acc.
      apply (Inv_p_write g1 g2 (mkA (segs a ++ [STail tail]) (mkL pf (b + tail) 0 PIdle) (cv a)) tr
                         (mkL pf (b + tail) 0 (PRec size seed))); auto;
        cbn [segs pv cv lv_loc lv_mine lv_rem lv_ph]; try lia.
      + intros f0 b0 s0 Hin. rewrite C in Hin. apply j_fails0. exact Hin.
      + unfold pphw. cbn [lv_loc lv_mine lv_rem lv_ph]. split; [exact F|]. lia.
    - cbn [view pv]. apply safe_push_back_op. exact Hsz.
  Qed.

  Lemma fail_cond_second f b size :
    let tail := cap - b mod cap in
    tail < rsz size -> f + cap - (b + tail) < rsz size -> fail_cond cap f b size.
  Proof. intros tail H1 H2. unfold fail_cond. right. fold tail. lia. Qed.

  (** C: the reload for the second space test *)
  Lemma safe_C pf b size seed :
    1 <= size <= cap ->
    safe 0 (Act (av_back_ld_front2 cap (u64 (b + (cap - b mod cap))) size) (fun r =>
              let pf' := fst r in
              if space_lt cap pf' (u64 (b + (cap - b mod cap))) (rsz size) then Ret pf'
              else Act (av_back_st_back cap (u64 (b + (cap - b mod cap))) size seed) (fun _ => push_back_op exp2 cap size seed pf')))
         (mkL pf b 0 (PTailT size)) Qp.
  Proof.
    intros Hsz. cbn [Conc.safe]. intros g a tr I Hv. cbn [view] in Hv.
    unfold av_back_ld_front2. rewrite vcrs_eq by exact Hsz.
    pose proof I as I'. destruct I'. rewrite Hv in *. cbn [lv_loc lv_mine lv_rem lv_ph] in *.
    unfold pphw in j_pph0. cbn [lv_loc lv_mine lv_rem lv_ph] in j_pph0.
    destruct j_pph0 as (S1 & S2 & S4 & S5 & S6). pose proof vcap_pos as Hc. pose proof vcap_small as Hcs.
    pose proof (Z.mod_pos_bound b cap ltac:(lia)) as Mb.
    set (tail := cap - b mod cap) in *. set (F := lv_mine (cv a)) in *. rewrite j_gf0.
    assert (Hrng : 0 <= F + cap - (b + tail) < two64) by (unfold two64; lia).
    destruct (space_lt cap (u64 F) (u64 (b + tail)) (rsz size)) eqn:Hs; cbn [fst snd]; pose proof Hs as Hs0.
    - apply space_lt_true in Hs; [|exact Hrng].
      exists (mkA (segs a) (mkL F b 0 PIdle) (cv a)).
      split; [|split; [apply frame_p|]].
      + rewrite tag2. apply Inv_neutral; try reflexivity; [apply Inv_acc|apply Phi_trivial; discriminate].
        apply (Inv_p_write g (log_fail g size) a tr (mkL F b 0 PIdle)); auto;
          rewrite ?Hv; cbn [log_fail v_fails lv_loc lv_mine lv_rem lv_ph]; try (fold F; lia).
        * intros f0 b0 s0 [Hin|Hin]; [|apply j_fails0; exact Hin].
          inversion Hin; subst. rewrite j_gf0, j_gb0. apply fail_condw_intro; [unfold two64; fold F; lia|].
          apply fail_cond_second; fold tail; fold F; lia.
        * unfold pphw. cbn. exact Logic.I.
      + rewrite Hs0. cbn. do 2 eexists. split; reflexivity.
    - apply space_lt_false in Hs; [|exact Hrng].
      exists (mkA (segs a) (mkL F b 0 (PTailS size)) (cv a)).
      split; [|split; [apply frame_p|]].
      + rewrite tag1. apply Inv_acc.
        apply (Inv_p_write g g a tr (mkL F b 0 (PTailS size))); auto;
          rewrite ?Hv; cbn [lv_loc lv_mine lv_rem lv_ph]; try (fold F; lia).
        unfold pphw. cbn [lv_loc lv_mine lv_rem lv_ph]. fold tail. repeat split; try lia; try exact S6.
      + rewrite Hs0. cbn [view pv]. eapply Conc.safe_weaken; [|apply safe_D; exact Hsz].
        intros r l (-> & b' & ->). do 2 eexists. split; reflexivity.
  Qed.

  (** the code of back() after a successful first space test with pfront_ = u64 [pf], and what follows *)
  Lemma post_space_step g a tr pf0 pf b size seed :
    Inv g a tr -> pv a = mkL pf0 b 0 PIdle -> pf0 <= pf <= lv_mine (cv a) ->
    b + rsz size <= pf + cap ->
    1 <= size <= cap -> rsz size <= cap ->
    exists l', Inv (post_space exp2 cap g (u64 b) size seed) (mkA (segs a) l' (cv a)) tr /\
               safe 0 (after_space exp2 cap (u64 b) (u64 pf) size seed) l' Qp.
  Proof.
    intros I Hpv Hpf Hsp Hsz Hrs.
    pose proof I as I'. destruct I'. rewrite Hpv in *. cbn [lv_loc lv_mine lv_rem lv_ph] in *.
    pose proof vcap_pos as Hc. pose proof vcap_small as Hcs.
    set (F := lv_mine (cv a)) in *.
    assert (Hb0 : 0 <= b) by lia.
    pose proof (Z.mod_pos_bound b cap ltac:(lia)) as Mb.
    destruct (RingVProofs.tail_ge8 exp2 cap Hcapv b Hb0 j_align0) as (T1 & T2 & T3).
    destruct (rsz_bounds size ltac:(lia)) as (Q1 & Q2 & Q3).
    unfold post_space, after_space. cbn zeta.
    rewrite !vcrs_eq by exact Hsz. rewrite !idx_u.
    rewrite !(u64_small (cap - b mod cap)) by (unfold two64; lia).
    set (tail := cap - b mod cap) in *.
    destruct (Z.ltb tail (rsz size)) eqn:Ht.
    - apply Z.ltb_lt in Ht.
      rewrite !(u64_small (tail - 8)) by (unfold two64; lia).
      rewrite !RingWrapProofs.u64_add_l.
      assert (Hv : 0 <= make_tail (tail - 8) < two64).
      { rewrite make_tail_add by (unfold top_bit; lia). unfold top_bit, two64. lia. }
      destruct (write_tail g (make_tail (tail - 8)) F b) as (A & B & C & D & E & F0); try lia; try assumption.
      set (g' := write64 cap g (b mod cap) (make_tail (tail - 8))) in *.
      destruct (space_lt cap (u64 pf) (u64 (b + tail)) (rsz size)) eqn:Hs2.
      + exists (mkL pf b 0 (PTailT size)). split.
        * apply (Inv_p_write g g' a tr (mkL pf b 0 (PTailT size))); auto;
            rewrite ?Hpv; cbn [lv_loc lv_mine lv_rem lv_ph]; try (fold F; lia); try exact E;
            try (intros f0 b0 s0 Hin; rewrite C in Hin; apply j_fails0; exact Hin).
          unfold pphw. cbn [lv_loc lv_mine lv_rem lv_ph]. fold tail. repeat split; try lia; try exact F0.
        * apply safe_C. exact Hsz.
      + apply space_lt_false in Hs2; [|unfold two64; lia].
        exists (mkL pf b 0 (PTailS size)). split.
        * apply (Inv_p_write g g' a tr (mkL pf b 0 (PTailS size))); auto;
            rewrite ?Hpv; cbn [lv_loc lv_mine lv_rem lv_ph]; try (fold F; lia); try exact E;
            try (intros f0 b0 s0 Hin; rewrite C in Hin; apply j_fails0; exact Hin).
          unfold pphw. cbn [lv_loc lv_mine lv_rem lv_ph]. fold tail. repeat split; try lia; try exact F0.
        * eapply Conc.safe_weaken; [|apply safe_D; exact Hsz].
          intros r l (-> & b' & ->). do 2 eexists. split; reflexivity.
    - apply Z.ltb_ge in Ht.
      destruct (write_record g size seed F b) as (A & B & C & D & E & F0); try lia; try assumption.
      set (g' := write_bytes cap (write64 cap g (b mod cap) size) (b mod cap + 8) (data_bytes size seed)) in *.
      exists (mkL pf b 0 (PRec size seed)). split.
      + apply (Inv_p_write g g' a tr (mkL pf b 0 (PRec size seed))); auto;
          rewrite ?Hpv; cbn [lv_loc lv_mine lv_rem lv_ph]; try (fold F; lia); try exact E;
          try (intros f0 b0 s0 Hin; rewrite C in Hin; apply j_fails0; exact Hin).
        unfold pphw. cbn [lv_loc lv_mine lv_rem lv_ph]. split; [exact F0|]. lia.
      + eapply Conc.safe_weaken; [|apply (safe_push_back_op pf b size seed (u64 pf)); exact Hsz].
        intros r l (-> & b' & ->). do 2 eexists. split; reflexivity.
  Qed.

  (** B: the reload for the first space test *)
  Lemma safe_vpush_B pf b size seed :
    1 <= size <= cap -> rsz size <= cap ->
    safe 0 (Act (av_back_ld_front1 exp2 cap (u64 b) size seed) (fun r2 =>
              let pf' := fst r2 in
              if space_lt cap pf' (u64 b) (rsz size) then Ret pf' else after_space exp2 cap (u64 b) pf' size seed))
         (mkL pf b 0 PIdle) Qp.
  Proof.
    intros Hsz Hrs. cbn [Conc.safe]. intros g a tr I Hv. cbn [view] in Hv.
    unfold av_back_ld_front1. rewrite vcrs_eq by exact Hsz.
    pose proof I as I'. destruct I'. rewrite Hv in *. cbn [lv_loc lv_mine lv_rem lv_ph] in *.
    pose proof vcap_small as Hcs. set (F := lv_mine (cv a)) in *. rewrite j_gf0.
    assert (Hrng : 0 <= F + cap - b < two64) by (unfold two64; lia).
    destruct (space_lt cap (u64 F) (u64 b) (rsz size)) eqn:Hs; cbn [fst snd]; pose proof Hs as Hs0.
    - apply space_lt_true in Hs; [|exact Hrng].
      exists (mkA (segs a) (mkL F b 0 PIdle) (cv a)).
      split; [|split; [apply frame_p|]].
      + rewrite tag2. apply Inv_neutral; try reflexivity; [apply Inv_acc|apply Phi_trivial; discriminate].
        apply (Inv_p_write g (log_fail g size) a tr (mkL F b 0 PIdle)); auto;
          rewrite ?Hv; cbn [log_fail v_fails lv_loc lv_mine lv_rem lv_ph]; try (fold F; lia);
          try (unfold pphw; cbn; exact Logic.I).
        intros f0 b0 s0 [Hin|Hin]; [|apply j_fails0; exact Hin].
        inversion Hin; subst. rewrite j_gf0, j_gb0. apply fail_condw_intro; [unfold two64; fold F; lia|].
        unfold fail_cond. left. fold F. lia.
      + rewrite Hs0. cbn. do 2 eexists. split; reflexivity.
    - apply space_lt_false in Hs; [|exact Hrng].
      destruct (post_space_step g a tr pf F b size seed I Hv) as (l' & I1 & S1); try (fold F; lia).
      exists (mkA (segs a) l' (cv a)). split; [rewrite tag1; apply Inv_acc; exact I1|].
      split; [apply frame_p|]. rewrite Hs0. cbn [view pv]. exact S1.
  Qed.

  Lemma safe_vpush pf b size seed :
    1 <= size <= cap -> rsz size <= cap ->
    safe 0 (vpush exp2 cap (u64 pf) size seed) (mkL pf b 0 PIdle) Qp.
  Proof.
    intros Hsz Hrs. unfold vpush. cbn zeta. rewrite !vcrs_eq by exact Hsz.
    cbn [Conc.safe]. intros g a tr I Hv. cbn [view] in Hv.
    unfold av_back_ld_back. rewrite vcrs_eq by exact Hsz.
    pose proof I as I'. destruct I'. rewrite Hv in *. cbn [lv_loc lv_mine lv_rem lv_ph] in *.
    pose proof vcap_small as Hcs. rewrite j_gb0.
    assert (Hrng : 0 <= pf + cap - b < two64) by (unfold two64; lia).
    destruct (space_lt cap (u64 pf) (u64 b) (rsz size)) eqn:Hs; cbn [fst snd]; pose proof Hs as Hs0.
    - exists a. split; [rewrite tag1; apply Inv_acc; exact I|]. split; [apply frame_refl|].
      rewrite Hs0. cbn [view]. rewrite Hv. apply safe_vpush_B; assumption.
    - apply space_lt_false in Hs; [|exact Hrng].
      destruct (post_space_step g a tr pf pf b size seed I Hv) as (l' & I1 & S1); try lia.
      exists (mkA (segs a) l' (cv a)). split; [rewrite tag1; apply Inv_acc; exact I1|].
      split; [apply frame_p|]. rewrite Hs0. cbn [view pv]. exact S1.
  Qed.

  (** *** consumer *)

  (** what the reads of front() see once [front_ + 8 <= cback_]: the head segment *)
  Lemma front_found g a tr cb0 f ph0 cbx ct :
    Inv g a tr -> cv a = mkL cb0 f 0 ph0 -> (cbx = cb0 \/ cbx = lv_mine (pv a)) -> f + 8 <= cbx ->
    (ct = false -> f mod cap = 0) ->
    (exists t, ct = true /\ vf_read exp2 cap ct g (u64 f) = ([make_tail (t - 8)], []) /\
               is_tail (make_tail (t - 8)) = true /\
               Inv g (mkA (segs a) (pv a) (mkL cbx f 0 (CTail t))) tr) \/
    (exists sz seed,
        vf_read exp2 cap ct g (u64 f) = (sz :: data_bytes sz seed, [EvCli "vfront_ok" (sz :: data_bytes sz seed)]) /\
        is_tail sz = false /\
        Inv g (mkA (segs a) (pv a) (mkL cbx f 0 (CRec sz))) tr /\
        nth_error (vpushed tr) (npopped tr) = Some (sz, seed)).
  Proof.
    intros I Hcv Hcbx H8 Hct. pose proof I as I'. destruct I'. rewrite Hcv in *.
    cbn [lv_loc lv_mine lv_rem lv_ph] in *.
    pose proof vcap_pos as Hc. pose proof vcap_small as Hcs.
    assert (Hcb : cbx <= lv_mine (pv a)) by (destruct Hcbx; subst; lia).
    assert (Hf0 : 0 <= f) by lia.
    destruct (segs a) as [|s rest] eqn:Hsegs; [cbn [segs_len] in j_len0; lia|].
    cbn [RingVProofs.lay] in j_lay0. destruct j_lay0 as (Hs & Hr).
    unfold vf_read. rewrite idx_u.
    destruct s as [sz seed|t]; cbn [RingVProofs.seg_ok] in Hs.
    - right. destruct Hs as (S1 & S2 & S3 & S4 & S5). exists sz, seed.
      assert (Hnt : is_tail sz = false) by (apply is_tail_small; unfold top_bit; lia).
      rewrite S4, Hnt, andb_false_r. replace (Z.leb sz cap) with true by (symmetry; apply Z.leb_le; lia).
      rewrite S5. split; [reflexivity|]. split; [reflexivity|]. split.
      + rewrite <- Hsegs. apply Inv_c_view; auto; rewrite ?Hcv; cbn [lv_loc lv_mine lv_rem lv_ph]; [reflexivity|tauto|].
        unfold cphw. cbn [lv_loc lv_ph]. split; [lia|]. rewrite Hsegs. eauto.
      + destruct j_recs0 as (R1 & R2). cbn [recs_of] in R1. symmetry in R1.
        destruct (skipn_cons_nth _ _ _ _ R1) as (K1 & _). exact K1.
    - left. destruct Hs as (T1 & T2 & T3 & T4 & T5). exists t.
      destruct ct; [|specialize (Hct eq_refl); lia].
      assert (Hit : is_tail (make_tail (t - 8)) = true) by (apply is_tail_make_tail; unfold top_bit; lia).
      rewrite T5, Hit. cbn [andb]. split; [reflexivity|]. split; [reflexivity|]. split; [reflexivity|].
      rewrite <- Hsegs. apply Inv_c_view; auto; rewrite ?Hcv; cbn [lv_loc lv_mine lv_rem lv_ph]; [reflexivity|tauto|].
      unfold cphw. cbn [lv_loc lv_ph]. split; [lia|]. rewrite Hsegs. eauto.
  Qed.

  Lemma Phi_vfront_null g a tr t :
    Inv g a tr -> lv_mine (pv a) - lv_mine (cv a) < 8 -> Phi tr t (EvCli "vfront_null" []).
  Proof.
    intros I H. destruct I. cbn. repeat split; intros; try discriminate.
    destruct (RingVProofs.segs_len_nonneg cap _ _ _ j_lay0) as (N1 & N2 & N3).
    assert (segs_len (segs a) = 0).
    { pose proof (Z.div_mod (segs_len (segs a)) 8 ltac:(lia)). lia. }
    rewrite (N2 H1) in j_recs0. cbn [recs_of] in j_recs0. destruct j_recs0 as (R1 & R2).
    symmetry in R1. apply skipn_nil_len in R1. lia.
  Qed.

  Definition Qf : Z * bool -> lview -> Prop :=
    fun res l => exists CB f, fst res = u64 CB /\
      if snd res then exists sz, l = mkL CB f 0 (CRec sz) else l = mkL CB f 0 PIdle.
  Definition Qc : Z -> lview -> Prop :=
    fun cb l => exists CB f, cb = u64 CB /\ l = mkL CB f 0 PIdle.

  (** pop_front() on the record front() just returned *)
  Lemma safe_vpop_rec cb f sz :
    safe 1 (vpop_front exp2 cap (u64 cb) [EvCli "vpop_ok" []] [EvCli "vpop_fail" []]) (mkL cb f 0 (CRec sz)) Qc.
  Proof.
    unfold vpop_front. cbn [Conc.safe]. intros g a tr I Hv. cbn [view] in Hv.
    pose proof I as I'. destruct I'. rewrite Hv in *. cbn [lv_loc lv_mine lv_rem lv_ph] in *.
    unfold cphw in j_cph0. cbn [lv_loc lv_ph] in j_cph0. destruct j_cph0 as (C1 & seed & rest & C2).
    pose proof vcap_pos as Hc. pose proof vcap_small as Hcs.
    assert (Hf0 : 0 <= f) by lia.
    rewrite C2 in j_lay0. cbn [RingVProofs.lay RingVProofs.seg_ok] in j_lay0.
    destruct j_lay0 as ((S1 & S2 & S3 & S4 & S5) & _).
    rewrite C2 in j_len0. cbn [segs_len seg_len] in j_len0.
    destruct (RingVProofs.segs_len_nonneg cap g rest (f + rsz sz)) as (N1 & _ & _).
    { pose proof (j_lay _ _ _ I) as L. rewrite C2, Hv in L. cbn [RingVProofs.lay lv_mine] in L. apply L. }
    unfold av_pop_ld_front. rewrite j_gf0.
    assert (Hs : avail_lt (u64 cb) (u64 f) 8 = false).
    { unfold avail_lt. rewrite avail_u by (unfold two64; lia). apply Z.ltb_ge. lia. }
    rewrite Hs. cbn [fst snd hd]. rewrite Hs.
    rewrite idx_u, S4.
    rewrite untail_small by (unfold top_bit; lia). rewrite vcrs_eq by lia.
    rewrite RingWrapProofs.u64_add_l.
    exists a. split; [rewrite tag1; apply Inv_acc; exact I|]. split; [apply frame_refl|].
    cbn [view]. rewrite Hv.
    cbn [Conc.safe]. intros g2 a2 tr2 I2 Hv2. cbn [view] in Hv2.
    unfold av_pop_st_front. cbn [fst snd].
    destruct (Inv_c_pop_rec g2 a2 (tr2 ++ [(1%nat, EvAcc KSt vobj_front true)]) cb f sz) as (seed2 & rest2 & E2 & I3).
    { apply Inv_acc. exact I2. } { exact Hv2. }
    exists (mkA rest2 (pv a2) (mkL cb (f + rsz sz) 0 PIdle)).
    split; [rewrite tag2; exact I3|]. split; [apply frame_c|]. cbn. do 2 eexists. split; reflexivity.
  Qed.

  (** the pop_front() inside front(), on a tail marker *)
  Lemma safe_vpop_tail cb f t :
    safe 1 (vpop_front exp2 cap (u64 cb) [] []) (mkL cb f 0 (CTail t))
         (fun cb' l => cb' = u64 cb /\ exists f', l = mkL cb f' 0 CZero).
  Proof.
    unfold vpop_front. cbn [Conc.safe]. intros g a tr I Hv. cbn [view] in Hv.
    pose proof I as I'. destruct I'. rewrite Hv in *. cbn [lv_loc lv_mine lv_rem lv_ph] in *.
    unfold cphw in j_cph0. cbn [lv_loc lv_ph] in j_cph0. destruct j_cph0 as (C1 & rest & C2).
    pose proof vcap_pos as Hc. pose proof vcap_small as Hcs.
    assert (Hf0 : 0 <= f) by lia.
    rewrite C2 in j_lay0. cbn [RingVProofs.lay RingVProofs.seg_ok] in j_lay0.
    destruct j_lay0 as ((T1 & T2 & T3 & T4 & T5) & Hr).
    rewrite C2 in j_len0. cbn [segs_len seg_len] in j_len0.
    destruct (RingVProofs.segs_len_nonneg cap g rest _ Hr) as (N1 & _ & _).
    unfold av_pop_ld_front. rewrite j_gf0.
    assert (Hs : avail_lt (u64 cb) (u64 f) 8 = false).
    { unfold avail_lt. rewrite avail_u by (unfold two64; lia). apply Z.ltb_ge. lia. }
    rewrite Hs. cbn [fst snd hd]. rewrite Hs.
    rewrite idx_u, T5.
    pose proof (Z.mod_pos_bound f cap ltac:(lia)) as Mf.
    rewrite untail_make_tail by (unfold top_bit; lia).
    rewrite calc_real_size_eq by (unfold two64; lia).
    assert (Ht8 : (t - 8) mod 8 = 0).
    { pose proof (Z.div_mod t 8 ltac:(lia)). replace (t - 8) with ((t / 8 - 1) * 8) by lia. apply Z_mod_mult. }
    rewrite rsz_of_multiple by (lia || exact Ht8). replace (t - 8 + 8) with t by lia.
    rewrite RingWrapProofs.u64_add_l.
    exists a. split; [rewrite tag1; apply Inv_acc; exact I|]. split; [apply frame_refl|].
    cbn [view]. rewrite Hv.
    cbn [Conc.safe]. intros g2 a2 tr2 I2 Hv2. cbn [view] in Hv2.
    unfold av_pop_st_front. cbn [fst snd].
    destruct (Inv_c_pop_tail g2 a2 (tr2 ++ [(1%nat, EvAcc KSt vobj_front true)]) cb f t) as (rest2 & E2 & I3).
    { apply Inv_acc. exact I2. } { exact Hv2. }
    exists (mkA rest2 (pv a2) (mkL cb (f + t) 0 CZero)).
    split; [rewrite tag1; exact I3|]. split; [apply frame_c|]. cbn. split; [reflexivity|]. eexists. reflexivity.
  Qed.

  Lemma Inv_found_event g a tr k o sz seed :
    Inv g a tr -> nth_error (vpushed tr) (npopped tr) = Some (sz, seed) ->
    Inv g a (tr ++ Conc.tag 1 [EvAcc k o true; EvCli "vfront_ok" (sz :: data_bytes sz seed)]).
  Proof.
    intros I H. rewrite tag2. apply Inv_neutral; try reflexivity; [apply Inv_acc; exact I|].
    apply Phi_vfront_ok. rewrite vpushed_snoc, npopped_snoc. cbn [vpush_rec vpop_cnt].
    rewrite app_nil_r, Nat.add_0_r. exact H.
  Qed.

  (** reads after the tail skip: the segment at the start of the buffer is a record *)
  Lemma found_step_false g a tr cb0 f ph0 cbx k o :
    Inv g a tr -> cv a = mkL cb0 f 0 ph0 -> (cbx = cb0 \/ cbx = lv_mine (pv a)) -> f + 8 <= cbx -> f mod cap = 0 ->
    exists a', Inv g a' (tr ++ Conc.tag 1 (EvAcc k o true :: snd (vf_read exp2 cap false g (u64 f)))) /\
               Conc.frame view 1 a a' /\ Qf (u64 cbx, true) (view a' 1).
  Proof.
    intros I Hcv Hcbx H8 Hz.
    destruct (front_found g a tr cb0 f ph0 cbx false I Hcv Hcbx H8 (fun _ => Hz))
      as [(t & Hct & _)|(sz & seed & E & Hnt & I2 & Hn)]; [discriminate|].
    rewrite E. cbn [snd].
    exists (mkA (segs a) (pv a) (mkL cbx f 0 (CRec sz))). split; [|split; [apply frame_c|]].
    - apply Inv_found_event; assumption.
    - cbn. exists cbx, f. split; [reflexivity|]. exists sz. reflexivity.
  Qed.

  Lemma safe_after_tail_F cb f :
    safe 1 (Act (av_front_ld_back exp2 cap (u64 f) false) (fun r2 =>
              let cb' := fst r2 in if avail_lt cb' (u64 f) 8 then Ret (cb', false) else Ret (cb', true)))
         (mkL cb f 0 CZero) Qf.
  Proof.
    cbn [Conc.safe]. intros g a tr I Hv. cbn [view] in Hv.
    pose proof I as I'. destruct I'. rewrite Hv in *. cbn [lv_loc lv_mine lv_rem lv_ph] in *.
    unfold cphw in j_cph0. cbn [lv_ph] in j_cph0. pose proof vcap_small as Hcs.
    unfold av_front_ld_back. rewrite j_gb0. set (B := lv_mine (pv a)) in *.
    assert (Hrng : 0 <= B - f < two64) by (unfold two64; lia).
    destruct (avail_lt (u64 B) (u64 f) 8) eqn:Hs; pose proof Hs as Hs0.
    - apply avail_lt_true in Hs; [|exact Hrng]. cbn [fst snd]. rewrite Hs0.
      exists (mkA (segs a) (pv a) (mkL B f 0 PIdle)).
      split; [|split; [apply frame_c|]].
      + rewrite tag2. apply Inv_neutral; try reflexivity.
        * apply Inv_acc. apply Inv_c_view; auto; rewrite ?Hv; cbn [lv_loc lv_mine lv_ph]; try reflexivity; try tauto; try (unfold cphw; cbn; exact Logic.I).
        * eapply Phi_vfront_null; [apply Inv_acc; exact I|]. rewrite Hv. cbn [lv_mine]. exact Hs.
      + cbn. do 2 eexists. split; reflexivity.
    - apply avail_lt_false in Hs; [|exact Hrng].
      destruct (found_step_false g a tr cb f CZero B KLd vobj_back I Hv) as (a' & I2 & F2 & Q2);
        [tauto|lia|exact j_cph0|].
      destruct (vf_read exp2 cap false g (u64 f)) as [vals es]. cbn [fst snd] in *. rewrite Hs0.
      exists a'. split; [exact I2|]. split; [exact F2|exact Q2].
  Qed.

  Lemma safe_after_tail cb f :
    safe 1 (vfront_after_tail exp2 cap (u64 cb)) (mkL cb f 0 CZero) Qf.
  Proof.
    unfold vfront_after_tail. cbn [Conc.safe]. intros g a tr I Hv. cbn [view] in Hv.
    pose proof I as I'. destruct I'. rewrite Hv in *. cbn [lv_loc lv_mine lv_rem lv_ph] in *.
    unfold cphw in j_cph0. cbn [lv_ph] in j_cph0. pose proof vcap_small as Hcs.
    unfold av_front_ld_front. rewrite j_gf0.
    assert (Hrng : 0 <= cb - f < two64) by (unfold two64; lia).
    destruct (avail_lt (u64 cb) (u64 f) 8) eqn:Hs; pose proof Hs as Hs0.
    - cbn [fst snd]. rewrite Hs0.
      exists a. split; [rewrite tag1; apply Inv_acc; exact I|]. split; [apply frame_refl|].
      cbn [view]. rewrite Hv. apply safe_after_tail_F.
    - apply avail_lt_false in Hs; [|exact Hrng].
      destruct (found_step_false g a tr cb f CZero cb KLd vobj_front I Hv) as (a' & I2 & F2 & Q2);
        [tauto|lia|exact j_cph0|].
      destruct (vf_read exp2 cap false g (u64 f)) as [vals es]. cbn [fst snd] in *. rewrite Hs0.
      exists a'. split; [exact I2|]. split; [exact F2|exact Q2].
  Qed.

  (** first reads of front(): a record, or a tail marker to be skipped *)
  Lemma found_step_true g a tr cb0 f ph0 cbx k o :
    Inv g a tr -> cv a = mkL cb0 f 0 ph0 -> (cbx = cb0 \/ cbx = lv_mine (pv a)) -> f + 8 <= cbx ->
    exists a', Inv g a' (tr ++ Conc.tag 1 (EvAcc k o true :: snd (vf_read exp2 cap true g (u64 f)))) /\
               Conc.frame view 1 a a' /\
               safe 1 (vfront_tail_or_ret exp2 cap (u64 cbx) (fst (vf_read exp2 cap true g (u64 f)))) (view a' 1) Qf.
  Proof.
    intros I Hcv Hcbx H8.
    destruct (front_found g a tr cb0 f ph0 cbx true I Hcv Hcbx H8 ltac:(intros; discriminate))
      as [(t & _ & E & Hit & I2)|(sz & seed & E & Hnt & I2 & Hn)]; rewrite E; cbn [fst snd].
    - exists (mkA (segs a) (pv a) (mkL cbx f 0 (CTail t))). split; [|split; [apply frame_c|]].
      + rewrite tag1. apply Inv_acc. exact I2.
      + cbn [view cv]. unfold vfront_tail_or_ret. cbn [hd]. rewrite Hit.
        apply Conc.safe_bind. eapply Conc.safe_weaken; [|apply safe_vpop_tail].
        intros cb' l (-> & f' & ->). apply safe_after_tail.
    - exists (mkA (segs a) (pv a) (mkL cbx f 0 (CRec sz))). split; [|split; [apply frame_c|]].
      + apply Inv_found_event; assumption.
      + cbn [view cv]. unfold vfront_tail_or_ret. cbn [hd]. rewrite Hnt. cbn.
        exists cbx, f. split; [reflexivity|]. exists sz. reflexivity.
  Qed.

  Lemma safe_vfront_B cb f :
    safe 1 (Act (av_front_ld_back exp2 cap (u64 f) true) (fun r2 =>
              let cb' := fst r2 in
              if avail_lt cb' (u64 f) 8 then Ret (cb', false) else vfront_tail_or_ret exp2 cap cb' (snd r2)))
         (mkL cb f 0 PIdle) Qf.
  Proof.
    cbn [Conc.safe]. intros g a tr I Hv. cbn [view] in Hv.
    pose proof I as I'. destruct I'. rewrite Hv in *. cbn [lv_loc lv_mine lv_rem lv_ph] in *.
    pose proof vcap_small as Hcs.
    unfold av_front_ld_back. rewrite j_gb0. set (B := lv_mine (pv a)) in *.
    assert (Hrng : 0 <= B - f < two64) by (unfold two64; lia).
    destruct (avail_lt (u64 B) (u64 f) 8) eqn:Hs; pose proof Hs as Hs0.
    - apply avail_lt_true in Hs; [|exact Hrng]. cbn [fst snd]. rewrite Hs0.
      exists (mkA (segs a) (pv a) (mkL B f 0 PIdle)).
      split; [|split; [apply frame_c|]].
      + rewrite tag2. apply Inv_neutral; try reflexivity.
        * apply Inv_acc. apply Inv_c_view; auto; rewrite ?Hv; cbn [lv_loc lv_mine lv_ph]; try reflexivity; try tauto; try (unfold cphw; cbn; exact Logic.I).
        * eapply Phi_vfront_null; [apply Inv_acc; exact I|]. rewrite Hv. cbn [lv_mine]. exact Hs.
      + cbn. do 2 eexists. split; reflexivity.
    - apply avail_lt_false in Hs; [|exact Hrng].
      destruct (found_step_true g a tr cb f PIdle B KLd vobj_back I Hv) as (a' & I2 & F2 & S2);
        [tauto|lia|].
      destruct (vf_read exp2 cap true g (u64 f)) as [vals es]. cbn [fst snd] in *. rewrite Hs0.
      exists a'. split; [exact I2|]. split; [exact F2|exact S2].
  Qed.

  Lemma safe_vfront cb f ph :
    cstart ph -> safe 1 (vfront exp2 cap (u64 cb)) (mkL cb f 0 ph) Qf.
  Proof.
    intros Hph. unfold vfront. cbn [Conc.safe]. intros g a tr I Hv. cbn [view] in Hv.
    pose proof I as I'. destruct I'. rewrite Hv in *. cbn [lv_loc lv_mine lv_rem lv_ph] in *.
    pose proof vcap_small as Hcs.
    unfold av_front_ld_front. rewrite j_gf0.
    assert (Hrng : 0 <= cb - f < two64) by (unfold two64; lia).
    destruct (avail_lt (u64 cb) (u64 f) 8) eqn:Hs; pose proof Hs as Hs0.
    - cbn [fst snd]. rewrite Hs0.
      exists (mkA (segs a) (pv a) (mkL cb f 0 PIdle)).
      split; [|split; [apply frame_c|]].
      + rewrite tag1. apply Inv_acc. apply Inv_c_view; auto; rewrite ?Hv; cbn [lv_loc lv_mine lv_ph]; try reflexivity; try tauto; try (unfold cphw; cbn; exact Logic.I).
      + cbn [view cv]. apply safe_vfront_B.
    - apply avail_lt_false in Hs; [|exact Hrng].
      destruct (found_step_true g a tr cb f ph cb KLd vobj_front I Hv) as (a' & I2 & F2 & S2);
        [tauto|lia|].
      destruct (vf_read exp2 cap true g (u64 f)) as [vals es]. cbn [fst snd] in *. rewrite Hs0.
      exists a'. split; [exact I2|]. split; [exact F2|exact S2].
  Qed.

  (** *** client programs: no volume bound *)
  Lemma safe_emit t e (k : progv Z) l (Q : Z -> lview -> Prop) :
    vpush_rec e = [] -> vpop_cnt e = 0%nat -> (forall tr, Phi tr t e) ->
    safe t k l Q -> safe t (Emit [e] k) l Q.
  Proof.
    intros E1 E2 HP Hk. cbn [Conc.safe]. intros g a tr I Hv. exists a.
    split; [rewrite tag1; apply Inv_neutral; auto|]. split; [apply frame_refl|]. rewrite Hv. exact Hk.
  Qed.

  Lemma safe_run_vpop pf b o :
    vop_ok cap o = true ->
    safe 0 (run_vpop exp2 cap (u64 pf) o) (mkL pf b 0 PIdle) Qp.
  Proof.
    destruct o as [size seed]. cbn [vop_ok run_vpop]. intros H.
    apply andb_prop in H. destruct H as [H H3]. apply andb_prop in H. destruct H as [H1 H2].
    apply Z.leb_le in H1, H2, H3. rewrite vcrs_eq in H3 by lia.
    apply safe_emit; try reflexivity; [intros tr; apply Phi_trivial; discriminate|].
    apply safe_vpush; lia.
  Qed.

  Lemma safe_run_vpops os : forall pf b,
    forallb (vop_ok cap) os = true ->
    safe 0 (run_vpops exp2 cap (u64 pf) os) (mkL pf b 0 PIdle) (@Conc.QTrue lview).
  Proof.
    induction os as [|o r IH]; intros pf b Hok; cbn [run_vpops forallb] in *; [exact Logic.I|].
    apply andb_prop in Hok. destruct Hok as [H1 H2].
    apply Conc.safe_bind. eapply Conc.safe_weaken; [|apply safe_run_vpop; exact H1].
    intros pf' l' (PF' & b' & -> & ->). apply IH. exact H2.
  Qed.

  Definition Qcs : Z -> lview -> Prop :=
    fun cb l => exists CB f ph, cb = u64 CB /\ l = mkL CB f 0 ph /\ cstart ph.

  Lemma safe_run_vcop cb f ph o :
    cstart ph -> safe 1 (run_vcop exp2 cap (u64 cb) o) (mkL cb f 0 ph) Qcs.
  Proof.
    intros Hph. destruct o; cbn [run_vcop].
    - apply safe_emit; try reflexivity; [intros tr; apply Phi_trivial; discriminate|].
      apply Conc.safe_bind. eapply Conc.safe_weaken; [|apply safe_vfront; exact Hph].
      intros [cb' found] l' (CB' & f' & E & H). cbn [fst snd] in *. cbn. subst cb'. destruct found.
      + destruct H as (sz & ->). exists CB', f', (CRec sz). split; [reflexivity|]. split; [reflexivity|right; eauto].
      + subst l'. exists CB', f', PIdle. split; [reflexivity|]. split; [reflexivity|left; reflexivity].
    - apply safe_emit; try reflexivity; [intros tr; apply Phi_trivial; discriminate|].
      apply Conc.safe_bind. eapply Conc.safe_weaken; [|apply safe_vfront; exact Hph].
      intros [cb' found] l' (CB' & f' & E & H). cbn [fst snd] in *. subst cb'. destruct found.
      + destruct H as (sz & ->). eapply Conc.safe_weaken; [|apply safe_vpop_rec].
        intros cb2 l2 (CB2 & f2 & -> & ->). exists CB2, f2, PIdle. split; [reflexivity|]. split; [reflexivity|left; reflexivity].
      + subst l'. cbn. exists CB', f', PIdle. split; [reflexivity|]. split; [reflexivity|left; reflexivity].
  Qed.

  Lemma safe_run_vcops os : forall cb f ph,
    cstart ph -> safe 1 (run_vcops exp2 cap (u64 cb) os) (mkL cb f 0 ph) (@Conc.QTrue lview).
  Proof.
    induction os as [|o rest IH]; intros cb f ph Hph; cbn [run_vcops]; [exact Logic.I|].
    apply Conc.safe_bind. eapply Conc.safe_weaken; [|apply safe_run_vcop; exact Hph].
    intros cb' l' (CB' & f' & ph' & -> & -> & Hph'). apply IH. exact Hph'.
  Qed.

  Lemma safe_begin t (k : Conc.thread GV V ev) l :
    safe t k l (@Conc.QTrue lview) -> safe t (Act av_begin (fun _ => k)) l (@Conc.QTrue lview).
  Proof.
    intros Hk. cbn [Conc.safe]. intros g a tr I Hv. unfold av_begin. cbn [fst snd].
    exists a. split; [rewrite tag1; apply Inv_acc; exact I|]. split; [apply frame_refl|].
    rewrite Hv. exact Hk.
  Qed.

  Lemma vinit_ok s pos cos :
    0 <= s -> s mod 8 = 0 -> forallb (vop_ok cap) pos = true ->
    Conc.cfg_ok view Inv (vinit_cfg_at exp2 cap s pos cos).
  Proof.
    intros Hs0 Hs8 Hok. pose proof vcap_pos as Hc.
    exists (mkA [] (mkL s s 0 PIdle) (mkL s s 0 PIdle)). split.
    - cbn [vinit_cfg_at Conc.shared Conc.trace].
      constructor; try apply hist_ok_nil;
        cbn [segs pv cv lv_loc lv_mine lv_rem lv_ph vinit_at v_front v_back v_mem v_fails v_wbad
             segs_len recs_of RingVProofs.lay vpushed npopped skipn List.length In];
        try lia; try reflexivity; try exact Logic.I; try exact Hs8;
        try (exists [], []; split; [reflexivity|cbn [segs_len]; lia]); try (split; [reflexivity|lia]);
        try (intros f b size []).
    - intros t p Hp'. cbn [vinit_cfg_at Conc.threads] in Hp'.
      destruct t as [|[|t]]; cbn in Hp'.
      + inversion Hp'; subst p. unfold vproducer_at. apply safe_begin. cbn [view pv]. apply safe_run_vpops. exact Hok.
      + inversion Hp'; subst p. unfold vconsumer_at. apply safe_begin. cbn [view cv]. apply safe_run_vcops. left. reflexivity.
      + destruct t; discriminate.
  Qed.

  Lemma reach_Inv s pos cos c :
    0 <= s -> s mod 8 = 0 -> forallb (vop_ok cap) pos = true ->
    Conc.reach (vinit_cfg_at exp2 cap s pos cos) c ->
    exists a, Inv (Conc.shared c) a (Conc.trace c).
  Proof. intros H0 H8 Hok Hr. eapply Conc.reach_Inv; [apply vinit_ok; eauto|exact Hr]. Qed.

End RingWV.

(** ** the theorems: every capacity that is a multiple of 8, below 2^62 and a divisor of 2^64 (so a power of
       two 8 .. 2^61, whichever index function is used), every start offset that is a multiple of 8, every
       sequence of record sizes with 1 <= size, real size <= capacity — of ANY total volume —, EVERY schedule *)
Section TheoremsV.
  Variables (exp2 : bool) (cap s : Z) (pos : list vpop_) (cos : list vcop) (c : Conc.config GV V ev).
  Hypothesis Hwv : capv_wrap_ok exp2 cap = true.
  Hypothesis Hs0 : 0 <= s.
  Hypothesis Hs8 : s mod 8 = 0.
  Hypothesis Hops : forallb (vop_ok cap) pos = true.
  Hypothesis Hreach : Conc.reach (vinit_cfg_at exp2 cap s pos cos) c.

  (** every record front() returns is the oldest pushed-and-not-popped record, size and bytes *)
  Theorem ringwv_record_exact :
    forall tr1 t args tr2, Conc.trace c = tr1 ++ (t, EvCli "vfront_ok" args) :: tr2 ->
      exists size seed, nth_error (vpushed tr1) (npopped tr1) = Some (size, seed) /\
                        args = size :: data_bytes size seed.
  Proof.
    destruct (reach_Inv exp2 cap Hwv s pos cos c Hs0 Hs8 Hops Hreach) as (a & I). destruct I.
    intros tr1 t args tr2 E. specialize (j_hist0 _ _ _ _ E). cbn in j_hist0.
    destruct j_hist0 as (H & _). apply H. reflexivity.
  Qed.

  Theorem ringwv_front_null_only_if_empty :
    forall tr1 t tr2, Conc.trace c = tr1 ++ (t, EvCli "vfront_null" []) :: tr2 ->
      List.length (vpushed tr1) = npopped tr1.
  Proof.
    destruct (reach_Inv exp2 cap Hwv s pos cos c Hs0 Hs8 Hops Hreach) as (a & I). destruct I.
    intros tr1 t tr2 E. specialize (j_hist0 _ _ _ _ E). cbn in j_hist0.
    destruct j_hist0 as (_ & H & _). apply H. reflexivity.
  Qed.

  Theorem ringwv_pop_front_after_front_succeeds :
    forall tr1 t args tr2, Conc.trace c <> tr1 ++ (t, EvCli "vpop_fail" args) :: tr2.
  Proof.
    destruct (reach_Inv exp2 cap Hwv s pos cos c Hs0 Hs8 Hops Hreach) as (a & I). destruct I.
    intros tr1 t args tr2 E. specialize (j_hist0 _ _ _ _ E). cbn in j_hist0.
    destruct j_hist0 as (_ & _ & H). apply H. reflexivity.
  Qed.

  (** the producer never wrote outside the buffer nor on a byte the ghost flag of the model sees as occupied.
      (The flag of LV.Model.RingV compares the concrete counters without reduction modulo 2^64: while back_ has
      wrapped and front_ has not it sees no byte as occupied, so across the wrap this statement only says "inside
      the buffer"; that no published byte is overwritten is part of [ringwv_record_exact].) *)
  Theorem ringwv_no_overlap : v_wbad (Conc.shared c) = false.
  Proof.
    destruct (reach_Inv exp2 cap Hwv s pos cos c Hs0 Hs8 Hops Hreach) as (a & I). destruct I. exact j_wbad0.
  Qed.

  (** back( size ) failed only when, at the deciding access, free space < real size, or the record does not fit
      before the end of the buffer and free space minus that unusable tail < real size; the number of occupied
      bytes is (back_ - front_) mod 2^64 *)
  Theorem ringwv_push_fails_only_if_no_contiguous_space :
    forall f b size, In (f, b, size) (v_fails (Conc.shared c)) -> fail_condw cap f b size.
  Proof.
    destruct (reach_Inv exp2 cap Hwv s pos cos c Hs0 Hs8 Hops Hreach) as (a & I). destruct I. exact j_fails0.
  Qed.

  (** the concrete counters are the u64 images of ghost counters F <= B <= F + cap, B a multiple of 8 *)
  Theorem ringwv_counters :
    exists F B, v_front (Conc.shared c) = u64 F /\ v_back (Conc.shared c) = u64 B /\
      0 <= F <= B /\ B <= F + cap /\ B mod 8 = 0 /\
      (npopped (Conc.trace c) <= List.length (vpushed (Conc.trace c)))%nat.
  Proof.
    destruct (reach_Inv exp2 cap Hwv s pos cos c Hs0 Hs8 Hops Hreach) as (a & I). destruct I.
    destruct j_recs0. exists (lv_mine (cv a)), (lv_mine (pv a)). repeat split; try lia; try assumption.
  Qed.
End TheoremsV.

(** ** the divisibility hypothesis is necessary: with a capacity that does not divide 2^64 the void ring is WRONG
       once back_ wraps while the ring is not empty.

    Capacity 40 bytes (Exp2 = false; [capv_ok false 40 = true]: a multiple of 8), counters at s = 2^64 - 16
    (s mod 40 = 0).  back( 8 ) + push_back() puts a record of real size 16 at offset 0 and stores
    back_ = (2^64 - 16 + 16) mod 2^64 = 0, whose offset 0 % 40 is 0 AGAIN: the second back( 8 ) sees
    24 free bytes and writes its record over the first one.  front() then returns the bytes of the second
    record although the first one has not been popped. *)
Definition ringv_record_any_cap_statement : Prop :=
  forall (exp2 : bool) (cap s : Z) (pos : list vpop_) (cos : list vcop) c,
    capv_ok exp2 cap = true -> 0 <= s -> s mod 8 = 0 -> forallb (vop_ok cap) pos = true ->
    Conc.reach (vinit_cfg_at exp2 cap s pos cos) c ->
    forall tr1 t args tr2, Conc.trace c = tr1 ++ (t, EvCli "vfront_ok" args) :: tr2 ->
      exists size seed, nth_error (vpushed tr1) (npopped tr1) = Some (size, seed) /\
                        args = size :: data_bytes size seed.

Theorem ringv_wrap_nondiv_refuted :
  ~ ringv_record_any_cap_statement /\
  exists (pos : list vpop_) (cos : list vcop) c tr1 t tr2,
    capv_ok false 40 = true /\ forallb (vop_ok 40) pos = true /\
    Conc.reach (vinit_cfg_at false 40 (2 ^ 64 - 16) pos cos) c /\
    Conc.trace c = tr1 ++ (t, EvCli "vfront_ok" (8 :: data_bytes 8 2)) :: tr2 /\
    vpushed tr1 = [(8, 1); (8, 2)] /\ npopped tr1 = 0%nat /\ v_wbad (Conc.shared c) = false.
Proof.
  set (pos := [VPush 8 1; VPush 8 2]).
  set (cos := [VFront]).
  set (sched := (repeat 0 12 ++ repeat 1 10)%nat).
  set (c := fst (Conc.run 1000 0 sched (vinit_cfg_at false 40 (2 ^ 64 - 16) pos cos))).
  set (tr1 := removelast (Conc.trace c)).
  assert (Hr : Conc.reach (vinit_cfg_at false 40 (2 ^ 64 - 16) pos cos) c) by apply Conc.run_reach.
  assert (Ht : Conc.trace c = tr1 ++ (1%nat, EvCli "vfront_ok" (8 :: data_bytes 8 2)) :: []) by (vm_compute; reflexivity).
  assert (Hp : vpushed tr1 = [(8, 1); (8, 2)]) by (vm_compute; reflexivity).
  assert (Hn : npopped tr1 = 0%nat) by (vm_compute; reflexivity).
  split.
  - intros H.
    destruct (H false 40 (2 ^ 64 - 16) pos cos c eq_refl ltac:(lia) eq_refl eq_refl Hr _ _ _ _ Ht) as (size & seed & E1 & E2).
    rewrite Hp, Hn in E1. cbn in E1. inversion E1; subst size seed. vm_compute in E2. discriminate.
  - exists pos, cos, c, tr1, 1%nat, []. repeat split; try assumption; vm_compute; reflexivity.
Qed.
