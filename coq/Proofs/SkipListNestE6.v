(** * SkipListNestE6: the nested-levels invariant through find_position (with help_remove) and insert. *)
From Coq Require Import ZArith List String Bool Lia PeanoNat.
From LV Require Import Base.Conc Base.Events Model.SkipList Proofs.SkipListProofs Proofs.SkipListSub Proofs.SkipListNest Proofs.SkipListNestProg
  Proofs.SkipListNestE Proofs.SkipListNestE2 Proofs.SkipListNestE3 Proofs.SkipListNestE4 Proofs.SkipListNestE5.
Import ListNotations.

Ltac enx := apply EF_nx; [intros; repeat split; reflexivity|intros ?].
Ltac einc := eauto using incl_tran, incl_refl, incl_tl.

Section Progs.
Context {R : Type}.
Variables (t n : nat).

Lemma EF_assign K O W s slot (k : prog R) : EF t n K O W k -> EF t n K O W (g_assign s slot k).
Proof. intros H. unfold g_assign. enx. enx. exact H. Qed.
Lemma EF_clear K O W s slot (k : prog R) : EF t n K O W k -> EF t n K O W (g_clear s slot k).
Proof. intros H. unfold g_clear. enx. exact H. Qed.
Lemma EF_copy K O W s a b (k : prog R) : EF t n K O W k -> EF t n K O W (g_copy s a b k).
Proof. intros H. unfold g_copy. enx. enx. enx. exact H. Qed.
Lemma EF_retire K O W s (k : prog R) : EF t n K O W k -> EF t n K O W (retire s k).
Proof. intros H. unfold retire. enx. enx. exact H. Qed.

Lemma EF_free_all K O W slots : forall s (k : TL -> prog R),
  tlk t n s -> (forall s', tlk t n s' -> EF t n K O W (k s')) -> EF t n K O W (g_free_all s slots k).
Proof.
  induction slots as [|x r IH]; intros s k Ht H; cbn [g_free_all]; [now apply H|]. apply EF_clear. apply IH; [now apply tlk_free1|exact H].
Qed.

Definition ldpost (K K' : list fact) (p : ptr) (l : nat) (x : mptr) : Prop :=
  (snd x = true -> In (FZ p l (fst x)) K') /\ (snd x = false -> ekn K p l -> l < MAXH -> In (FK (fst x) l) K').

Lemma ldpost_mono K0 K K' K'' p l x : incl K0 K -> incl K' K'' -> ldpost K K' p l x -> ldpost K0 K'' p l x.
Proof. intros I0 I1 [A B]. split; [intros X; apply I1; auto|]. intros X Y Z. apply I1. apply B; auto. eapply ekn_incl; eauto. Qed.

Lemma Q_ga_protect O W fuel : forall s slot p l (k : option mptr -> prog R) K,
  (forall K', incl K K' -> EF t n K' O W (k None)) ->
  (forall x K', incl K K' -> ldpost K K' p l x -> EF t n K' O W (k (Some x))) ->
  EF t n K O W (ga_protect fuel s slot p l k).
Proof.
  induction fuel as [|f IH]; intros s slot p l k K H0 H1; cbn [ga_protect]; [apply H0, incl_refl|].
  apply EF_ld. intros x1 K1 I1 _ Z1 F1. enx. enx. apply EF_ld. intros x2 K2 I2 _ Z2 F2. cbn [vp].
  destruct (mp_eqb x1 x2).
  - apply H1; [einc|]. eapply ldpost_mono; [apply incl_refl|exact I2|split; assumption].
  - apply IH.
    + intros K' I'. apply H0. einc.
    + intros x K' I' P. apply H1; [einc|]. eapply ldpost_mono; [|apply incl_refl|exact P]. einc.
Qed.

Lemma Q_g_protect_again O W fuel : forall s slot p l cur (k : option mptr -> prog R) K,
  (forall K', incl K K' -> EF t n K' O W (k None)) ->
  (forall x K', incl K K' -> (snd x = true -> In (FZ p l (fst x)) K') -> EF t n K' O W (k (Some x))) ->
  EF t n K O W (g_protect_again fuel s slot p l cur k).
Proof.
  induction fuel as [|f IH]; intros s slot p l cur k K H0 H1; cbn [g_protect_again]; [apply H0, incl_refl|].
  enx. enx. apply EF_ld. intros x2 K2 I2 _ Z2 _. cbn [vp]. destruct (mp_eqb cur x2); [now apply H1|].
  apply IH; [intros K' I'; apply H0; einc|]. intros x K' I' Z. apply H1; [einc|exact Z].
Qed.

Lemma Q_g_protect O W fuel : forall s slot p l (k : option mptr -> prog R) K,
  (forall K', incl K K' -> EF t n K' O W (k None)) ->
  (forall x K', incl K K' -> (snd x = true -> In (FZ p l (fst x)) K') -> EF t n K' O W (k (Some x))) ->
  EF t n K O W (g_protect fuel s slot p l k).
Proof.
  destruct fuel as [|f]; intros s slot p l k K H0 H1; cbn [g_protect]; [apply H0, incl_refl|].
  apply EF_ld. intros x1 K1 I1 _ _ _. enx. enx. apply EF_ld. intros x2 K2 I2 _ Z2 _. cbn [vp].
  destruct (mp_eqb x1 x2); [apply H1; [einc|exact Z2]|].
  apply Q_g_protect_again; [intros K' I'; apply H0; einc|]. intros x K' I' Z. apply H1; [einc|exact Z].
Qed.

Lemma Q_help_remove O fuel s l pred cur (k : res TL -> prog R) K :
  tlk t n s -> l < MAXH -> cur <> null -> ekn K pred l -> ekn1 K cur ->
  (forall r K', incl K K' -> match r with Ok s' => tlk t n s' | Fuel => True end -> EF t n K' O None (k r)) ->
  EF t n K O None (help_remove fuel s l pred cur k).
Proof.
  intros Ht Hl Hc Kp Kc Hk. unfold help_remove. apply (EF_ld_unl t n K O None cur (S l)). intros z K1 I1 F1. cbn [vz].
  destruct (Z.eqb_spec z (Z.of_nat l + 1)) as [Ez|Ez]; [|apply Hk; auto].
  assert (B1 : In (FB cur (S l)) K1) by (apply F1; [lia|exact Kc]).
  destruct (alloc1 s) as [hp s1] eqn:Ea. pose proof (tlk_alloc1 _ _ _ _ _ Ea Ht) as Ht1.
  apply Q_g_protect; [intros; apply Hk; [einc|exact Logic.I]|]. intros succ K2 I2 Z2.
  assert (Hdone : forall K', incl K2 K' -> EF t n K' O None (g_clear s1 hp (k (Ok (free1 hp s1))))).
  { intros K' I'. apply EF_clear. apply Hk; [einc|now apply tlk_free1]. }
  destruct (snd succ) eqn:Em; [|apply Hdone, incl_refl].
  apply EF_cas_unlink; auto.
  - eapply ekn_incl; [|exact Kp]. einc.
  - intros c K3 I3 _. cbn [vok]. apply EF_fas_owed. intros u1. cbn [vz].
    destruct (vz u1 =? 1)%Z; [apply EF_retire|]; now apply Hdone.
  - intros c. cbn [vok]. apply Hdone, incl_refl.
Qed.

Lemma Q_fp_level O fuel : forall s key stop own lvl pred ps ncmp (retry : TL -> prog R) k kf kown K,
  tlk t n s -> lvl < MAXH -> ekn K pred lvl ->
  (forall s' K', tlk t n s' -> incl K K' -> EF t n K' O None (retry s')) ->
  (forall K', incl K K' -> EF t n K' O None kf) ->
  (forall s' K', tlk t n s' -> incl K K' -> EF t n K' O None (kown s')) ->
  (forall s' pred' cur c found K', tlk t n s' -> incl K K' -> ekn K' pred' lvl -> (fst cur = null \/ ekn1 K' (fst cur)) ->
      (found = true -> stop = true /\ fst cur <> null) -> EF t n K' O None (k s' pred' cur c found)) ->
  EF t n K O None (fp_level fuel s key stop own lvl pred ps ncmp retry k kf kown).
Proof.
  induction fuel as [|f IH]; intros s key stop own lvl pred ps ncmp retry k kf kown K Ht Hl Kp Hr Hf Ho Hk; cbn [fp_level]; [apply Hf, incl_refl|].
  apply Q_ga_protect; [exact Hf|]. intros cur K1 I1 [Z1 F1]. destruct (snd cur) eqn:Mc; [now apply Hr|].
  assert (Kp1 : ekn K1 pred lvl) by (eapply ekn_incl; eauto).
  destruct (Nat.eqb (fst cur) null) eqn:En; [apply Hk; auto; [left; now apply Nat.eqb_eq|discriminate]|].
  assert (Nc : fst cur <> null) by now apply eqb_nnull.
  assert (Fc : In (FK (fst cur) lvl) K1) by now apply F1.
  assert (Kc : ekn K1 (fst cur) lvl) by (right; split; [exact Nc|exists lvl; split; [lia|exact Fc]]).
  assert (Kc1 : ekn1 K1 (fst cur)) by (split; [exact Nc|now exists lvl]).
  apply EF_ld. intros xs K2 I2 _ _ _. apply EF_ld. intros xr K3 I3 _ _ _. cbn [vp].
  assert (I03 : incl K K3) by einc. assert (I13 : incl K1 K3) by einc.
  destruct (negb (mp_eqb xr (fst cur, false))); [now apply Hr|].
  destruct (snd xs).
  - destruct (negb (Nat.eqb own null) && Nat.eqb (fst cur) own); [now apply Ho|].
    apply Q_help_remove; auto; [eapply ekn_incl; eauto|eapply ekn1_incl; eauto|].
    intros [s'|] K4 I4 Hs; [apply Hr; [exact Hs|einc]|apply Hf; einc].
  - destruct (cmpk (fst cur) key <? 0)%Z.
    + apply EF_copy. apply IH; auto.
      * eapply ekn_incl; eauto.
      * intros s' K' Hs I'. apply Hr; auto. einc.
      * intros K' I'. apply Hf. einc.
      * intros s' K' Hs I'. apply Ho; auto. einc.
      * intros s' pred' cur' c' found K' Hs I'. apply Hk; auto. einc.
    + destruct ((cmpk (fst cur) key =? 0)%Z && stop) eqn:E.
      * apply Hk; auto; [eapply ekn_incl; eauto|right; eapply ekn1_incl; eauto|]. intros _. apply andb_true_iff in E. split; [apply E|exact Nc].
      * apply Hk; auto; [eapply ekn_incl; eauto|right; eapply ekn1_incl; eauto|discriminate].
Qed.

Definition eposk_above (m : nat) (K : list fact) (ps : pos) : Prop := forall L, m <= L < MAXH -> ekn K (pprev ps L) L.
Definition eposk := eposk_above 0.
Definition curk (K : list fact) (p : ptr) : Prop := p = null \/ ekn1 K p.

Lemma eposk_incl m K K' ps : incl K K' -> eposk_above m K ps -> eposk_above m K' ps.
Proof. intros I H L HL. eapply ekn_incl; eauto. Qed.
Lemma curk_incl K K' p : incl K K' -> curk K p -> curk K' p.
Proof. intros I [H|H]; [now left|right; eapply ekn1_incl; eauto]. Qed.

Definition eokn (stop : bool) (K : list fact) (o : fp_out) : Prop :=
  match o with
  | FpFound ps => curk K (pcur ps) /\ ((stop = true /\ pcur ps <> null) \/ eposk K ps)
  | FpNotFound ps => eposk K ps
  | FpOwnRemoved => True
  end.

Lemma Q_fp_levels O fuel : forall m s key stop own pred ps ncmp (retry : TL -> prog R) k kf K,
  tlk t n s -> m <= MAXH -> (forall L, L < m -> ekn K pred L) -> eposk_above m K ps -> (m < MAXH -> curk K (pcur ps)) ->
  (forall s' K', tlk t n s' -> incl K K' -> EF t n K' O None (retry s')) ->
  (forall K', incl K K' -> EF t n K' O None kf) ->
  (forall s' o K', tlk t n s' -> incl K K' -> eokn stop K' o -> EF t n K' O None (k s' o)) ->
  EF t n K O None (fp_levels fuel m s key stop own pred ps ncmp retry k kf).
Proof.
  induction m as [|lvl IH]; intros s key stop own pred ps ncmp retry k kf K Ht Hm Kp Hp Hc Hr Hf Hk; cbn [fp_levels].
  - assert (Hc' : curk K (pcur ps)) by (apply Hc; unfold MAXH; lia).
    destruct (ncmp =? 0)%Z; apply Hk; auto using incl_refl. split; [exact Hc'|right; exact Hp].
  - apply EF_assign. apply Q_fp_level; auto.
    + intros s' K' Hs I'. apply Hk; auto. exact Logic.I.
    + intros s' pred' cur c found K' Hs I' Kp' Kc' Hfd. destruct found.
      * destruct (Hfd eq_refl) as [F1 F2]. apply Hk; auto. cbn [eokn pcur]. split; [exact Kc'|left; auto].
      * apply IH; [exact Hs|lia| | | | | |].
        -- intros L HL. eapply ekn_down; [|exact Kp']. lia.
        -- intros L HL. cbn [pprev]. destruct (Nat.eq_dec L lvl) as [->|NL].
           ++ rewrite set_lvl_same. exact Kp'.
           ++ rewrite set_lvl_other by exact NL. eapply ekn_incl; [exact I'|]. apply Hp. lia.
        -- intros _. cbn [pcur]. exact Kc'.
        -- intros s'' K'' Hs' I''. apply Hr; auto. einc.
        -- intros K'' I''. apply Hf. einc.
        -- intros s'' o K'' Hs' I''. apply Hk; auto. einc.
Qed.

Definition ownpost (own : ptr) (o : fp_out) : Prop := own = null -> match o with FpFound ps => pcur ps <> null | _ => True end.

Lemma Q_find_position O fuel : forall s key stop own ps (k : TL -> fp_out -> prog R) kf K,
  tlk t n s ->
  (forall s' o K', tlk t n s' -> incl K K' -> eokn stop K' o -> ownpost own o -> EF t n K' O None (k s' o)) ->
  (forall K', incl K K' -> EF t n K' O None kf) -> EF t n K O None (find_position fuel s key stop own ps k kf).
Proof.
  induction fuel as [|f IH]; intros s key stop own ps k kf K Ht Hk Hf; cbn [find_position]; [apply Hf, incl_refl|].
  apply Q_fp_levels; auto.
  - intros L _. now left.
  - intros L HL. lia.
  - intros HL. lia.
  - intros s' K' Hs I'. apply IH; auto.
    + intros s'' o K'' Hs' I''. apply Hk; auto. einc.
    + intros K'' I''. apply Hf. einc.
  - intros s' [ps'|ps'|] K' Hs I' Ho.
    + destruct (Nat.eqb own null && Nat.eqb (pcur ps') null) eqn:E.
      * apply andb_true_iff in E. destruct E as [E1 E2]. apply Nat.eqb_eq in E2. apply Hk; auto; [|intros _; exact Logic.I]. cbn [eokn] in *.
        destruct Ho as (_ & [(_ & X)|Ho]); [congruence|exact Ho].
      * apply Hk; auto. intros ->. cbn [Nat.eqb andb] in E. now apply Nat.eqb_neq.
    + apply Hk; auto. intros _. exact Logic.I.
    + apply Hk; auto. intros _. exact Logic.I.
Qed.

(** *** insert_at_position *)
Lemma Q_ia_clear_upper K nw hb W : forall h l (k : prog R) c,
  (forall c', EF t n K (Some (nw, 0, c', hb)) W k) -> EF t n K (Some (nw, 0, c, hb)) W (ia_clear_upper nw l h k).
Proof.
  induction h as [|h IH]; intros l k c H; cbn [ia_clear_upper]; [apply H|].
  destruct (Nat.ltb l (l + S h)); [|apply H]. apply EF_st_own; [reflexivity|]. intros _. apply IH. exact H.
Qed.

Definition eany (k : prog R) : Prop := forall K O, EF t n K O None k.

Lemma Q_ia_level fuel : forall s key nw h l p ps (knext : TL -> pos -> prog R) kdone kf K c,
  tlk t n s -> 1 <= l -> l < h -> h <= MAXH -> snd p = false -> eposk K ps ->
  (forall s' ps' K', tlk t n s' -> incl K K' -> eposk K' ps' -> EF t n K' (Some (nw, S l, None, h)) None (knext s' ps')) ->
  (forall s', tlk t n s' -> eany (kdone s')) -> eany kf ->
  EF t n K (Some (nw, l, c, h)) None (ia_level fuel s key nw h l p ps knext kdone kf).
Proof.
  induction fuel as [|f IH]; intros s key nw h l p ps knext kdone kf K c Ht Hl1 Hlh Hh Hp0 Hp Hk Hd Hf; cbn [ia_level]; [apply Hf|].
  assert (Hgive : forall s' K' c', tlk t n s' ->
            EF t n K' (Some (nw, l, c', h)) None (Act (a_fas_unl nw (Z.of_nat (h - l))) (fun _ => find_position (S f) s' key false null ps (fun s'' _ => kdone s'') kf))).
  { intros s' K' c' Hs. apply EF_fas_giveup; [exact Hl1|]. intros _. apply Q_find_position; [exact Hs|intros; now apply Hd|intros; apply Hf]. }
  apply EF_cas_own; [exact Hp0|reflexivity| |].
  - intros cur. cbn [vok negb fst]. apply EF_cas_link; [lia|exact Hlh|apply Hp; lia| |].
    + intros cur2. cbn [vok]. apply Hk; auto using incl_refl.
    + intros cur2. cbn [vok]. apply Q_find_position; [exact Ht| |intros; apply Hf].
      intros s' o K' Hs I' Ho _. destruct o as [ps'|ps'|]; [|now apply Hgive|now apply Hgive].
      cbn [eokn] in Ho. destruct Ho as (_ & [(X & _)|Ho]); [discriminate|]. apply IH; auto.
      intros s'' ps'' K'' Hs' I''. apply Hk; auto. einc.
  - intros cur. cbn [vok negb]. now apply Hgive.
Qed.

Lemma Q_ia_levels fuel : forall m s key nw h l ps (kdone : TL -> prog R) kf K c,
  tlk t n s -> 1 <= l -> l + m = h -> h <= MAXH -> eposk K ps ->
  (forall s', tlk t n s' -> eany (kdone s')) -> eany kf ->
  EF t n K (Some (nw, l, c, h)) None (ia_levels fuel m s key nw h l ps kdone kf).
Proof.
  induction m as [|m IH]; intros s key nw h l ps kdone kf K c Ht Hl1 Hl Hh Hp Hd Hf; cbn [ia_levels]; [now apply Hd|].
  apply Q_ia_level; auto; [lia|]. intros s' ps' K' Hs I' Hp'. apply IH; auto. lia.
Qed.

Lemma Q_insert_at fuel s key nw h ps (k : TL -> bool -> prog R) kf K c :
  tlk t n s -> 1 <= h <= MAXH -> eposk K ps ->
  (forall s' c', tlk t n s' -> EF t n K (Some (nw, 0, c', h)) None (k s' false)) ->
  (forall s', tlk t n s' -> eany (k s' true)) -> eany kf ->
  EF t n K (Some (nw, 0, c, h)) None (insert_at fuel s key nw h ps k kf).
Proof.
  intros Ht Hh Hp Hk0 Hk1 Hf. unfold insert_at. apply Q_ia_clear_upper. intros c'.
  apply EF_st_own; [reflexivity|]. intros _. cbn [Nat.eqb fst].
  apply EF_cas_link; [unfold MAXH; lia|lia|apply Hp; unfold MAXH; lia| |].
  - intros cur. cbn [vok negb]. apply Q_ia_levels; [exact Ht|lia|lia|lia|exact Hp|exact Hk1|exact Hf].
  - intros cur. cbn [vok negb]. now apply Hk0.
Qed.

Lemma Q_insert_loop fuel : forall s key nw h (tower : bool) ps (k : TL -> bool -> prog R) kf K c,
  tlk t n s -> 1 <= h <= MAXH ->
  (forall s' b, tlk t n s' -> eany (k s' b)) -> eany kf ->
  EF t n K (Some (nw, 0, c, if tower then h else 1)) None (insert_loop fuel s key nw h tower ps k kf).
Proof.
  induction fuel as [|f IH]; intros s key nw h tower ps k kf K c Ht Hh Hk Hf; cbn [insert_loop]; [apply Hf|].
  apply Q_find_position; [exact Ht| |intros; apply Hf]. intros s1 o K' Hs I' Ho _. destruct o as [ps1|ps1|]; [now apply Hk| |now apply Hk].
  cbn [eokn] in Ho.
  assert (Hins : forall c', EF t n K' (Some (nw, 0, c', h)) None (insert_at (S f) s1 key nw h ps1
            (fun s2 ok => if ok then Act a_ld_hgt (fun _ => Act a_faa_cnt (fun _ => k s2 true))
                          else insert_loop f s2 key nw h true ps1 k kf) kf)).
  { intros c'. apply Q_insert_at; [exact Hs|exact Hh|exact Ho| | |exact Hf].
    - intros s' c'' Hs'. now apply (IH s' key nw h true).
    - intros s' Hs' K'' O''. enx. enx. now apply Hk. }
  destruct tower; [apply Hins|]. destruct (Nat.ltb_spec 1 h) as [X|X].
  - apply EF_build; [exact Hh|]. intros _. apply Hins.
  - replace h with 1 by lia. replace h with 1 in Hins by lia. apply Hins.
Qed.

End Progs.
