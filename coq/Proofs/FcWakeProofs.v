(** * Flat-combining kernel with a wait strategy that calls wakeup_any() and with invoke_exclusive: part A
      (one combiner at a time; exactly-once as long as no record is released unanswered).

    Model: LV.Model.FcKernelWake, BOTH orders of the wakeup ([wkin] arbitrary) and [wk] arbitrary.  Invariant,
    auxiliary state and per-step lemmas are those of LV.Proofs.FcKernelProofs, re-used unchanged: the walk of
    wakeup_any() consists of loads only, which are neutral for that invariant in any state of the walking
    thread; invoke_exclusive takes and releases the lock like a combiner that executes nothing. *)
From Coq Require Import ZArith List String Bool Lia PeanoNat.
From LV Require Import Base.Conc Base.Events Base.Lin Model.FcKernel Model.FcKernelWake Model.FcBatch
                       Proofs.FcBatchProofs Proofs.FcKernelProofs.
Import ListNotations.
Local Open Scope string_scope.
Local Open Scope list_scope.

Set Implicit Arguments.

Section WakeA.
  Variable S : Spec.
  Variable rs0 : Res S.
  Variable rs_enc : Res S -> list Z.
  Variable rdec : list Z -> Res S.
  Hypothesis rdec_enc : forall r, rdec (rs_enc r) = r.
  Variable okop : nat -> bool.
  Hypothesis okop_ge2 : forall op, okop op = true -> 2 <= op.
  Variable dec : nat -> Z -> Op S.
  Variable capply : St S -> nat -> Z -> St S * Res S.
  Hypothesis capply_spec : forall c op arg, okop op = true -> capply c op arg = sstep S c (dec op arg).
  Variable P : Type.
  Variable pinit : P.
  Variable pheld : P -> list (nat * nat * Z).
  Hypothesis pinit_held : pheld pinit = [].
  Variable pvisit : P -> St S -> nat -> nat -> nat -> Z -> P * St S * list (nat * Res S).
  Hypothesis pvisit_sound : visit_sound S pheld okop dec pvisit.
  Variables wk wkin : bool.

  Notation G := (FcKernel.G (St S) (Res S)).
  Notation V := (FcKernel.V (Res S) P).
  Notation prog := (Conc.prog G V ev).
  Notation safe := (@Conc.safe G V ev (aux S) (tview S) (@view S) (Inv rdec okop dec)).

  Notation kskip := (@FcKernel.skip_inactive (St S) (Res S) P).
  Notation wwakeup := (@FcKernelWake.wakeup (St S) (Res S) P wk).
  Notation wwait := (@FcKernelWake.wait_for_combining (St S) (Res S) P wk wkin).
  Notation wtry := (@FcKernelWake.try_combining (St S) (Res S) rs0 rs_enc capply P pinit pvisit wk wkin).
  Notation wrequest := (@FcKernelWake.request (St S) (Res S) rs0 rs_enc capply P pinit pvisit wk wkin).
  Notation wspin := (@FcKernelWake.spin_lock (St S) (Res S) P).
  Notation wexcl := (@FcKernelWake.invoke_exclusive (St S) (Res S) P wk wkin).
  Notation wrun_ops := (@FcKernelWake.run_ops (St S) (Res S) rs0 rs_enc capply P pinit pvisit wk wkin).
  Notation wthread_prog := (@FcKernelWake.thread_prog (St S) (Res S) rs0 rs_enc capply P pinit pvisit wk wkin).
  Notation wthread_progs := (@FcKernelWake.thread_progs (St S) (Res S) rs0 rs_enc capply P pinit pvisit wk wkin).
  Notation winit_cfg := (@FcKernelWake.init_cfg (St S) (Res S) rs0 rs_enc capply P pinit pvisit wk wkin).

  Ltac neu_ld := apply safe_neutral; [apply neutral_a_ld|intros ?v].

  (** ** wakeup_any(): loads only, in any state of the thread *)
  Lemma safe_wwalk_a t l (Pq : nat -> tview S -> Prop) : (forall it, Pq it l) ->
    forall fuel p, safe t (kskip fuel p) l (optQ Pq).
  Proof.
    intros HQ. induction fuel as [|fu IH]; intros p; cbn [skip_inactive]; [exact I|].
    destruct p as [|q]; [apply HQ|].
    neu_ld. destruct (Nat.eqb (vn v) st_active).
    - neu_ld. destruct (Nat.leb req_Operation (vn v0)); [apply HQ|]. neu_ld. apply IH.
    - neu_ld. apply IH.
  Qed.

  Lemma safe_wakeup_a t fuel l (Pq : unit -> tview S -> Prop) : Pq tt l -> safe t (wwakeup fuel) l (optQ Pq).
  Proof.
    intros HQ. unfold wakeup. destruct wk; [|exact HQ].
    apply safe_obind. apply safe_wwalk_a. intros it. exact HQ.
  Qed.

  (** the loads of wait() *)
  Lemma safe_wait_strategy_a R t r (k : prog R) l Q : safe t k l Q -> safe t (@wait_strategy (St S) (Res S) P wk R r k) l Q.
  Proof.
    intros K. unfold wait_strategy. destruct wk; [|exact K].
    neu_ld. destruct (Nat.leb req_Operation (vn v)); [|exact K]. neu_ld. exact K.
  Qed.

  (** ** wait_for_combining / try_combining / request *)
  Lemma safe_wait_w t pfuel r : forall fuel l l0, Out l -> same_cl l0 l ->
    safe t (wwait fuel pfuel r) l
         (optQ (fun served l' => same_cl l0 l' /\ v_fin l' = [] /\ v_lk l' = if served : bool then LNone else LInside)).
  Proof.
    induction fuel as [|fu IH]; intros l l0 [Hlk Hfin] Hs; cbn [FcKernelWake.wait_for_combining]; [exact I|].
    neu_ld. destruct (Nat.eqb (vn v) req_Response); [apply safe_ret; repeat split; try apply Hs; assumption|].
    apply safe_obind. apply safe_republish.
    apply safe_wait_strategy_a.
    apply safe_xchg.
    - cbn [vn Nat.eqb]. apply IH; [split; assumption|assumption].
    - cbn [vn Nat.eqb]. apply safe_emit_lock; [reflexivity|]. neu_ld.
      destruct (Nat.eqb (vn v0) req_Response).
      + destruct wkin.
        * apply safe_obind. apply safe_wakeup_a.
          apply safe_emit_unlock; [reflexivity|exact Hfin|]. apply safe_unlock; [reflexivity|]. intros v1.
          apply safe_ret. repeat split; try apply Hs. exact Hfin.
        * apply safe_emit_unlock; [reflexivity|exact Hfin|]. apply safe_unlock; [reflexivity|]. intros v1.
          apply safe_obind. apply safe_wakeup_a.
          apply safe_ret. repeat split; try apply Hs. exact Hfin.
      + apply safe_ret. repeat split; try apply Hs. exact Hfin.
  Qed.

  Lemma safe_try_w t fuel mask npass batch r l l0 : Out l -> same_cl l0 l ->
    safe t (wtry fuel mask npass batch r) l (optQ (fun _ l' => Out l' /\ same_cl l0 l')).
  Proof.
    intros [Hlk Hfin] Hs. unfold FcKernelWake.try_combining. apply safe_xchg.
    - cbn [vn Nat.eqb]. apply safe_obind.
      eapply Conc.safe_weaken; [|apply safe_wait_w with (l0 := l0); [split; assumption|assumption]].
      intros [served|] l' Hx; [|exact I]. unfold optQ in Hx. destruct Hx as (Hs' & Hfin' & Hlk').
      destruct served; [apply safe_ret; split; [split; assumption|assumption]|].
      apply safe_obind. apply safe_republish. apply safe_obind.
      eapply Conc.safe_weaken;
        [|apply (@safe_combining S rs0 rs_enc rdec okop dec capply capply_spec P pinit pheld pinit_held pvisit pvisit_sound true) with (l0 := l0); [split; assumption|exact Hs']].
      intros [u|] l'' Hx; [|exact I]. unfold optQ in Hx. destruct Hx as [[Hlk'' Hfin''] Hs''].
      apply safe_unlock_seq with (l0 := l0); auto.
    - cbn [vn Nat.eqb]. apply (@safe_as_combiner S rs0 rs_enc rdec okop dec capply capply_spec P pinit pheld pinit_held pvisit pvisit_sound true); [reflexivity|exact Hfin|exact Hs].
  Qed.

  Lemma safe_request_w t fuel mask npass batch my op arg l : okop op = true -> Idle_at my l ->
    safe t (wrequest fuel mask npass batch t my op arg) l (optQ (fun r l' => Idle_at (Some r) l')).
  Proof.
    intros Hok (Hm & Hp & Ho). unfold FcKernelWake.request.
    apply safe_emit_inv; [exact Hp|exact Hok|].
    apply safe_obind. eapply Conc.safe_weaken; [|apply safe_acquire; exact Hm].
    intros [r|] l' Hx; [|exact I]. unfold optQ in Hx. subst l'.
    apply safe_request with (op := op) (arg := arg); [reflexivity|reflexivity|]. intros v.
    apply safe_obind.
    eapply Conc.safe_weaken; [|apply safe_try_w with (l0 := vph (vmy (vph l (PInv S op arg)) (Some r)) (PWait S op arg)); [exact Ho|apply same_cl_refl]].
    intros [u|] l' Hx; [|exact I]. unfold optQ in Hx. destruct Hx as [Ho' [Hm' Hp']]. cbn in Hm', Hp'.
    apply (@safe_release S rdec okop okop_ge2 dec) with (op := op) (arg := arg); [exact Hm'|exact Hp'|]. intros rs.
    apply (@safe_emit_ret S rs_enc rdec rdec_enc okop dec) with (op := op) (arg := arg); [reflexivity|]. apply safe_ret.
    repeat split; try apply Ho'. exact Hm'.
  Qed.

  (** ** invoke_exclusive *)
  Lemma neutral_a_ldlock : neutral_act S (@a_ldlock (St S) (Res S) P).
  Proof. intros g. split; [reflexivity|]. split; [apply neutral_upd_refl|]. repeat constructor. Qed.

  Lemma safe_spin_w t : forall fuel sp l (Pq : unit -> tview S -> Prop), Pq tt (vlk l LHeld) ->
    safe t (wspin fuel sp) l (optQ Pq).
  Proof.
    induction fuel as [|fu IH]; intros sp l Pq HQ; cbn [spin_lock]; [exact I|]. destruct sp.
    - apply safe_neutral; [apply neutral_a_ldlock|]. intros v. destruct (Nat.eqb (vn v) 0); apply IH; exact HQ.
    - apply safe_xchg; cbn [vn Nat.eqb]; [apply IH; exact HQ|exact HQ].
  Qed.

  Lemma safe_excl_w t fuel my l : Idle_at my l -> safe t (wexcl fuel) l (optQ (fun _ l' => Idle_at my l')).
  Proof.
    intros (Hm & Hp & Hlk & Hfin). unfold invoke_exclusive.
    apply safe_emit_quiet; try discriminate.
    apply safe_obind. apply safe_spin_w.
    apply safe_emit_lock; [reflexivity|].
    destruct wkin.
    - apply safe_obind. apply safe_wakeup_a.
      apply safe_emit_unlock; [reflexivity|exact Hfin|]. apply safe_unlock; [reflexivity|]. intros v1.
      apply safe_emit_quiet; try discriminate. apply safe_ret. repeat split; assumption.
    - apply safe_emit_unlock; [reflexivity|exact Hfin|]. apply safe_unlock; [reflexivity|]. intros v1.
      apply safe_obind. apply safe_wakeup_a.
      apply safe_emit_quiet; try discriminate. apply safe_ret. repeat split; assumption.
  Qed.

  (** ** client programs *)
  Definition wop_ok (o : wop) : Prop := match o with WReq _ op _ => okop op = true | _ => True end.

  Lemma safe_run_ops_w t fuel mask npass : forall os my l, Forall wop_ok os -> Idle_at my l ->
    safe t (wrun_ops fuel mask npass t my os) l (optQ (fun _ _ => True)).
  Proof.
    induction os as [|o os IH]; intros my l Hall Hi; cbn [FcKernelWake.run_ops].
    - eapply Conc.safe_weaken; [|apply safe_kexit; exact Hi]. intros [u|] l' Hx; exact I.
    - inversion Hall as [|? ? Ho Hall']; subst. destruct o as [batch op arg| |].
      + apply safe_obind. eapply Conc.safe_weaken; [|apply safe_request_w; [exact Ho|exact Hi]].
        intros [r|] l' Hx; [|exact I]. unfold optQ in Hx. apply IH; assumption.
      + apply safe_obind. eapply Conc.safe_weaken; [|apply safe_kexit; exact Hi].
        intros [u|] l' Hx; [|exact I]. unfold optQ in Hx. apply IH; assumption.
      + apply safe_obind. eapply Conc.safe_weaken; [|apply safe_excl_w; exact Hi].
        intros [u|] l' Hx; [|exact I]. unfold optQ in Hx. apply IH; assumption.
  Qed.

  Lemma safe_thread_w t fuel mask npass os l : Forall wop_ok os -> Idle_at None l ->
    safe t (wthread_prog fuel mask npass t os) l (@Conc.QTrue (tview S)).
  Proof.
    intros Hall Hi. unfold FcKernelWake.thread_prog. apply safe_neutral; [apply neutral_a_begin|]. intros v.
    apply Conc.safe_bind.
    eapply Conc.safe_weaken; [|apply safe_run_ops_w; eassumption].
    intros [u|] l' _; [exact I|]. apply safe_emit_quiet; try discriminate. exact I.
  Qed.

  Lemma nth_error_wthread_progs fuel mask npass : forall ths t0 i p,
    nth_error (wthread_progs fuel mask npass t0 ths) i = Some p ->
    exists os, nth_error ths i = Some os /\ p = wthread_prog fuel mask npass (t0 + i) os.
  Proof.
    induction ths as [|os ths IH]; intros t0 i p H; cbn [FcKernelWake.thread_progs] in H; [destruct i; discriminate|].
    destruct i as [|i]; cbn in H.
    - inversion H; subst. exists os. split; [reflexivity|]. rewrite Nat.add_0_r. reflexivity.
    - destruct (IH _ _ _ H) as (os' & A & B). exists os'. split; [exact A|]. rewrite B. f_equal. lia.
  Qed.

  Definition wops_ok (ths : list (list wop)) : Prop := Forall (Forall wop_ok) ths.

  Lemma init_ok_w fuel mask npass ths : wops_ok ths ->
    Conc.cfg_ok (@view S) (Inv rdec okop dec) (winit_cfg fuel mask npass (sinit S) ths).
  Proof.
    intros Hok. exists (aux0 S). split.
    - split.
      + split.
        * intros _ t. reflexivity.
        * intros t t' H. exfalso; apply H; reflexivity.
        * exists None. split; [reflexivity|]. intros t. cbn. split; discriminate.
      + right. split.
        * intros t t' r H. discriminate.
        * intros t r H. discriminate.
        * intros r _. cbn. unfold st_removed. discriminate.
        * intros r H. cbn in H. unfold st_removed in H. discriminate.
        * intros t r H. discriminate.
        * intros r H. cbn in H. unfold req_Operation in H. lia.
        * intros t. unfold phase_ok; cbn. split; [reflexivity|discriminate].
        * intros t q o x [].
        * intros t q [].
        * reflexivity.
        * intros t e [].
        * intros t. constructor.
    - intros t p Hp. cbn [FcKernelWake.init_cfg Conc.threads] in Hp.
      destruct (nth_error_wthread_progs _ _ _ _ _ _ Hp) as (os & A & ->).
      cbn [Nat.add]. apply safe_thread_w.
      + eapply Forall_forall in Hok; [exact Hok|]. eapply nth_error_In; exact A.
      + repeat split.
  Qed.

  (** Part A for the kernel with wakeup_any() and invoke_exclusive, both orders of the wakeup: for every schedule
      the combiner lock is taken by at most one thread at a time and requests are executed and records freed
      only by the thread holding it; as long as no record is released unanswered the LP-annotated trace is
      valid for the container's sequential specification. *)
  Theorem fc_wake_partA fuel mask npass ths c :
    wops_ok ths -> Conc.reach (winit_cfg fuel mask npass (sinit S) ths) c ->
    (exists h, mon None (Conc.trace c) = Some h) /\
    (has_lost (Conc.trace c) = false -> lp_valid S (@annot S rdec dec (Conc.trace c))).
  Proof.
    intros Hok Hr. destruct (Conc.reach_Inv (init_ok_w fuel mask npass Hok) Hr) as (a & [HL HR]).
    split.
    - destruct HL as [_ _ (h & Hm & _)]. exists h. exact Hm.
    - intros Hnl. destruct HR as [Hl|HR]; [congruence|]. eexists. apply (r_lp HR).
  Qed.
End WakeA.
