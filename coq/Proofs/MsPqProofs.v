(** * MSPriorityQueue, every schedule: conservation of items and "push fails only if the heap is full".

    [Conc.safe] is established for every operation of LV.Model.MsPq with the invariant of LV.Proofs.MsPqInv;
    [Conc.reach_Inv] then gives the invariant at every configuration reachable under ANY sequence of thread
    choices, any number of threads, any client programs, any fuels. *)
From Coq Require Import ZArith List String Bool Lia PeanoNat Permutation.
From LV Require Import Base.Conc Base.Events Model.MsPq Proofs.MsPqBrc Proofs.MsPqInv Proofs.MsPqSteps.
Import ListNotations.
Local Open Scope string_scope.
Local Open Scope list_scope.

Definition optQ {A} (Q : A -> tv -> Prop) : option A -> tv -> Prop :=
  fun r l => match r with Some x => Q x l | None => True end.

Lemma div2_pos i : 1 < i -> Nat.div2 i <> 0 /\ Nat.div2 i <> i.
Proof.
  intros H. destruct i as [|[|i]]; try lia. cbn [Nat.div2]. split; [lia|].
  pose proof (Nat.div2_decr i i ltac:(lia)). lia.
Qed.

Section Safe.
  Variable cap : nat.
  Hypothesis OK : slots_ok cap = true.
  Variable bsz : nat.
  Hypothesis Hbsz : cap < bsz.
  Notation Inv := (MsPqInv.Inv cap).
  Notation safe := (@Conc.safe G V ev Aux tv view Inv).

  Lemma acc_irrelevant k o ok : forallb irrelevant [EvAcc k o ok] = true.
  Proof. reflexivity. Qed.

  Lemma safe_stop_err {A} t c P (Q0 : A -> tv -> Prop) : safe t (@stop_err A c) P (optQ Q0).
  Proof.
    unfold stop_err. destruct c as [|[|c]]; cbn [Conc.safe]; intros g a tr Hi Hv; exists a;
      (split; [apply Inv_irrelevant; [reflexivity|exact Hi]|split; [apply frame_refl|exact I]]).
  Qed.

  Lemma safe_checked {A} t v (k : prog (option A)) P (Q0 : A -> tv -> Prop) :
    (verr v = 0 -> safe t k P (optQ Q0)) -> safe t (checked v k) P (optQ Q0).
  Proof.
    intros H. unfold checked. destruct (verr v) as [|c] eqn:E; [apply H; reflexivity|apply safe_stop_err].
  Qed.

  (** *** spin_lock::lock() followed by the plain code [bd] *)
  Lemma safe_lock {A} lf t l bd (k : V -> prog (option A)) P (Q0 : A -> tv -> Prop) :
    (forall g a tr, Inv g a tr -> view a t = P -> lockbit g l = false ->
       exists a',
         Inv (fst (fst (bd (set_lockbit g l true)))) a'
             (tr ++ Conc.tag t (EvAcc KXchg (obj_lock l) true :: snd (bd (set_lockbit g l true)))) /\
         Conc.frame view t a a' /\
         safe t (checked (unbusy (snd (fst (bd (set_lockbit g l true)))))
                         (k (unbusy (snd (fst (bd (set_lockbit g l true))))))) (view a' t) (optQ Q0)) ->
    safe t (lock_ lf l bd k) P (optQ Q0).
  Proof.
    intros H. unfold lock_, obind. apply Conc.safe_bind.
    set (Qmid := fun (r : option V) (l' : tv) =>
           safe t (match r with Some x => checked x (k x) | None => Ret None end) l' (optQ Q0)).
    change (safe t (lock_outer lf l bd) P Qmid).
    assert (Both : safe t (lock_outer lf l bd) P Qmid /\ safe t (lock_inner lf l bd) P Qmid).
    { induction lf as [|f [IHo IHi]]; [split; exact I|]. split.
      - cbn [lock_outer Conc.safe]. intros g a tr Hi Hv. unfold a_lock. destruct (lockbit g l) eqn:Hl.
        + exists a. cbn [fst snd]. split; [apply Inv_irrelevant; [reflexivity|exact Hi]|]. split; [apply frame_refl|].
          cbn [vbusy vbusyV]. rewrite Hv. exact IHi.
        + destruct (H g a tr Hi Hv Hl) as (a' & H1 & H2 & H3).
          destruct (bd (set_lockbit g l true)) as [[g' v] es]. cbn [fst snd] in *.
          exists a'. split; [exact H1|]. split; [exact H2|]. cbn [vbusy unbusy Conc.safe]. exact H3.
      - cbn [lock_inner Conc.safe]. intros g a tr Hi Hv. unfold a_load. cbn [fst snd]. exists a.
        split; [apply Inv_irrelevant; [reflexivity|exact Hi]|]. split; [apply frame_refl|]. rewrite Hv.
        destruct (lockbit g l); cbn [vbusy vbusyV v0]; assumption. }
    apply Both.
  Qed.

  (** *** spin_lock::unlock() and the plain code [bd] of the same step *)
  Lemma safe_unlock {A} t l bd (k : V -> prog (option A)) P (Q0 : A -> tv -> Prop) :
    (forall g a tr, Inv g a tr -> view a t = P ->
       exists a',
         Inv (set_lockbit (fst (fst (bd g))) l false) a'
             (tr ++ Conc.tag t (EvAcc KSt (obj_lock l) true :: snd (bd g))) /\
         Conc.frame view t a a' /\
         safe t (checked (snd (fst (bd g))) (k (snd (fst (bd g))))) (view a' t) (optQ Q0)) ->
    safe t (unlock_ l bd k) P (optQ Q0).
  Proof.
    intros H. unfold unlock_, unlock. cbn [Conc.bind Conc.safe]. intros g a tr Hi Hv.
    destruct (H g a tr Hi Hv) as (a' & H1 & H2 & H3). unfold a_unlock.
    destruct (bd g) as [[g' v] es]. cbn [fst snd] in *. exists a'. auto.
  Qed.

  (** node locks: the invariant does not look at them; the body may rearrange cells *)
  Lemma safe_lock_node {A} lf t l bd (k : V -> prog (option A)) P (Q0 : A -> tv -> Prop) :
    l <> 0 ->
    (forall g a tr, Inv g a tr -> view a t = P ->
       Inv (fst (fst (bd g))) a tr /\ snd (bd g) = [] /\
       (verr (snd (fst (bd g))) = 0 -> safe t (k (unbusy (snd (fst (bd g))))) P (optQ Q0))) ->
    safe t (lock_ lf l bd k) P (optQ Q0).
  Proof.
    intros Hl H. apply safe_lock. intros g a tr Hi Hv _.
    destruct (H (set_lockbit g l true) a tr (Inv_nodelock cap g a tr l true Hl Hi) Hv) as (H1 & H2 & H3).
    exists a. rewrite H2. split; [apply Inv_irrelevant; [reflexivity|exact H1]|]. split; [apply frame_refl|].
    rewrite Hv. apply safe_checked. exact H3.
  Qed.

  Lemma safe_unlock_node {A} t l bd (k : V -> prog (option A)) P (Q0 : A -> tv -> Prop) :
    l <> 0 ->
    (forall g a tr, Inv g a tr -> view a t = P ->
       Inv (fst (fst (bd g))) a tr /\ snd (bd g) = [] /\
       (verr (snd (fst (bd g))) = 0 -> safe t (k (snd (fst (bd g)))) P (optQ Q0))) ->
    safe t (unlock_ l bd k) P (optQ Q0).
  Proof.
    intros Hl H. apply safe_unlock. intros g a tr Hi Hv. destruct (H g a tr Hi Hv) as (H1 & H2 & H3).
    exists a. rewrite H2. split; [apply Inv_irrelevant; [reflexivity|apply Inv_nodelock; assumption]|].
    split; [apply frame_refl|]. rewrite Hv. apply safe_checked. exact H3.
  Qed.

  Lemma safe_lock_none {A} lf t l (k : V -> prog (option A)) P (Q0 : A -> tv -> Prop) :
    l <> 0 -> safe t (k v0) P (optQ Q0) -> safe t (lock_ lf l body_none k) P (optQ Q0).
  Proof. intros Hl H. apply safe_lock_node; [exact Hl|]. intros g a tr Hi Hv. cbn. auto. Qed.

  Lemma safe_unlock_none {A} t l (k : V -> prog (option A)) P (Q0 : A -> tv -> Prop) :
    l <> 0 -> safe t (k v0) P (optQ Q0) -> safe t (unlock_ l body_none k) P (optQ Q0).
  Proof. intros Hl H. apply safe_unlock_node; [exact Hl|]. intros g a tr Hi Hv. cbn. auto. Qed.

  (** *** the plain code that only rearranges occupied cells *)
  Lemma T_some g i : T_ok g -> cellt g i <> TEmpty -> cellv g i <> None.
  Proof. intros HT Ht Hv. apply Ht. apply HT. exact Hv. Qed.

  Lemma tag_eqb_eq a b : tag_eqb a b = true <-> a = b.
  Proof.
    destruct a, b; cbn; try (split; [discriminate|intros E; inversion E]); try tauto.
    rewrite Nat.eqb_eq. split; [intros ->; reflexivity|intros E; inversion E; reflexivity].
  Qed.

  Lemma cmp_swap_inv g a tr p c :
    p <> c -> Inv g a tr -> Inv (fst (fst (cmp_swap p c g))) a tr /\ snd (cmp_swap p c g) = [].
  Proof.
    intros Hne Hi. unfold cmp_swap.
    destruct (nval (heap g c)) as [x|] eqn:Ec; [|split; [exact Hi|reflexivity]].
    destruct (nval (heap g p)) as [y|] eqn:Ep; [|split; [exact Hi|reflexivity]].
    destruct (Z.gtb (prio x) (prio y)); [|split; [exact Hi|reflexivity]].
    split; [|reflexivity]. cbn [fst]. rewrite <- Ec, <- Ep.
    apply (Inv_swap cap g a tr p c Hne); [unfold cellv; rewrite Ep; discriminate|unfold cellv; rewrite Ec; discriminate|exact Hi].
  Qed.

  Lemma sift_up_inv g a tr t i p :
    i <> p -> Inv g a tr -> Inv (fst (fst (body_sift_up t i p g))) a tr /\ snd (body_sift_up t i p g) = [].
  Proof.
    intros Hne Hi. unfold body_sift_up.
    destruct (tag_eqb (ntag (heap g p)) TAvail && tag_eqb (ntag (heap g i)) (TOwner t)).
    - destruct (nval (heap g i)) as [x|] eqn:Ei; [|split; [exact Hi|reflexivity]].
      destruct (nval (heap g p)) as [y|] eqn:Ep; [|split; [exact Hi|reflexivity]].
      destruct (Z.gtb (prio x) (prio y)); (split; [|reflexivity]); cbn [fst].
      + rewrite <- Ei, <- Ep. apply (Inv_swap cap g a tr i p Hne); [unfold cellv; rewrite Ei; discriminate|unfold cellv; rewrite Ep; discriminate|exact Hi].
      + rewrite <- Ei. apply (Inv_retag cap g a tr i TAvail); [discriminate|unfold cellv; rewrite Ei; discriminate|exact Hi].
    - destruct (tag_eqb (ntag (heap g p)) TEmpty); [split; [exact Hi|reflexivity]|].
      destruct (negb (tag_eqb (ntag (heap g i)) (TOwner t))); split; try exact Hi; reflexivity.
  Qed.

  Lemma push_top_inv g a tr t :
    Inv g a tr -> Inv (fst (fst (body_push_top t g))) a tr /\ snd (body_push_top t g) = [] /\ verr (snd (fst (body_push_top t g))) = 0.
  Proof.
    intros Hi. unfold body_push_top. destruct (tag_eqb (ntag (heap g 1)) (TOwner t)) eqn:E; [|auto].
    split; [|auto]. cbn [fst]. apply (Inv_retag cap g a tr 1 TAvail); [discriminate| |exact Hi].
    apply T_some; [apply (iT _ _ _ _ Hi)|]. apply tag_eqb_eq in E. unfold cellt. rewrite E. discriminate.
  Qed.

  Lemma child_inv g a tr p c :
    p <> c -> Inv g a tr -> Inv (fst (fst (body_child bsz p c g))) a tr /\ snd (body_child bsz p c g) = [].
  Proof.
    intros Hne Hi. unfold body_child. destruct (tag_eqb (ntag (heap g c)) TEmpty); [auto|].
    destruct (Nat.ltb (S c) bsz); [auto|].
    destruct (cmp_swap_inv g a tr p c Hne Hi) as [H1 H2]. destruct (cmp_swap p c g) as [[g' v] es]. cbn [fst snd] in *. auto.
  Qed.

  Lemma right_inv g a tr c : Inv g a tr -> Inv (fst (fst (body_right c g))) a tr /\ snd (body_right c g) = [].
  Proof.
    intros Hi. unfold body_right. destruct (negb (tag_eqb (ntag (heap g (S c))) TEmpty)); [|auto].
    destruct (nval (heap g (S c))); [|auto]. destruct (nval (heap g c)); auto.
  Qed.

  (** *** heapify_after_push / heapify_after_pop: the thread's view does not change *)
  Lemma safe_heapify_push lf t : forall hf i P,
    safe t (heapify_push hf lf t i) P (optQ (fun _ l' => l' = P)).
  Proof.
    induction hf as [|hf IH]; intros i P; [exact I|]. cbn [heapify_push].
    destruct (Nat.ltb 1 i) eqn:E1.
    - apply Nat.ltb_lt in E1. destruct (div2_pos i E1) as [Hp0 Hpi].
      assert (Hi0 : i <> 0) by lia.
      apply safe_lock_none; [exact Hp0|].
      apply safe_lock_node; [exact Hi0|]. intros g a tr Hi Hv.
      destruct (sift_up_inv g a tr t i (Nat.div2 i) ltac:(congruence) Hi) as [H1 H2].
      split; [exact H1|]. split; [exact H2|]. intros _.
      apply safe_unlock_none; [exact Hi0|]. apply safe_unlock_none; [exact Hp0|]. apply IH.
    - destruct (Nat.eqb i 1).
      + apply safe_lock_node; [discriminate|]. intros g a tr Hi Hv.
        destruct (push_top_inv g a tr t Hi) as (H1 & H2 & H3). split; [exact H1|]. split; [exact H2|]. intros _.
        apply safe_unlock_none; [discriminate|]. reflexivity.
      + reflexivity.
  Qed.

  Lemma safe_heapify_pop lf t : forall hf p c P, 1 <= p -> c = 2 * p ->
    safe t (heapify_pop hf lf bsz p c) P (optQ (fun _ l' => l' = P)).
  Proof.
    induction hf as [|hf IH]; intros p c P Hp Hc; [exact I|]. cbn [heapify_pop].
    assert (Hc0 : c <> 0) by lia. assert (Hp0 : p <> 0) by lia. assert (Hpc : p <> c) by lia.
    destruct (Nat.ltb c bsz).
    - apply safe_lock_node; [exact Hc0|]. intros g a tr Hi Hv.
      destruct (child_inv g a tr p c Hpc Hi) as [H1 H2]. split; [exact H1|]. split; [exact H2|]. intros _.
      destruct (vn (unbusy (snd (fst (body_child bsz p c g))))) as [|[|[|n]]].
      + apply safe_unlock_none; [exact Hc0|]. apply safe_unlock_none; [exact Hp0|]. reflexivity.
      + apply safe_lock_node; [discriminate|]. intros g2 a2 tr2 Hi2 Hv2.
        destruct (right_inv g2 a2 tr2 c Hi2) as [K1 K2]. split; [exact K1|]. split; [exact K2|]. intros _.
        set (w := unbusy (snd (fst (body_right c g2)))).
        assert (Hch : p <> (if vb w then S c else c)) by (destruct (vb w); lia).
        assert (Hch0 : (if vb w then S c else c) <> 0) by (destruct (vb w); lia).
        assert (Hot0 : (if vb w then c else S c) <> 0) by (destruct (vb w); lia).
        apply safe_unlock_node; [exact Hot0|]. intros g3 a3 tr3 Hi3 Hv3.
        destruct (cmp_swap_inv g3 a3 tr3 p _ Hch Hi3) as [L1 L2]. split; [exact L1|]. split; [exact L2|]. intros _.
        destruct (vb (snd (fst (cmp_swap p (if vb w then S c else c) g3)))).
        * apply safe_unlock_none; [exact Hp0|]. apply IH; [destruct (vb w); lia|reflexivity].
        * apply safe_unlock_none; [exact Hch0|]. apply safe_unlock_none; [exact Hp0|]. reflexivity.
      + apply safe_unlock_none; [exact Hp0|]. apply IH; [lia|reflexivity].
      + apply safe_unlock_none; [exact Hc0|]. apply safe_unlock_none; [exact Hp0|]. reflexivity.
    - apply safe_unlock_none; [exact Hp0|]. reflexivity.
  Qed.

  (** *** push *)
  Definition Vpush (x : item) : tv := mkTv false (Some x) None None true false.
  Definition Qpush (x : item) : bool -> tv -> Prop :=
    fun b l' => if b then l' = mkTv false None None None true false else l' = mkTv false (Some x) None None true true.

  Lemma snoc2 {X} (tr : list X) a b : tr ++ [a; b] = (tr ++ [a]) ++ [b].
  Proof. rewrite <- app_assoc. reflexivity. Qed.

  Lemma safe_push hf lf t x : safe t (push cap bsz hf lf t x) (Vpush x) (optQ (Qpush x)).
  Proof.
    unfold push. apply safe_lock. intros g a tr Hi Hv Hfree. cbn [lockbit] in Hfree.
    pose proof (Inv_acq0 cap g a tr t (Vpush x) Hv eq_refl Hfree Hi) as H1. cbn [set_hs Vpush hs hand pstore pclear inop pfail] in H1.
    set (g1 := set_lockbit g 0 true) in *. set (P1 := mkTv true (Some x) None None true false) in *.
    set (a1 := updv a t P1) in *.
    assert (Hv1 : tvs a1 t = P1) by apply tvs_updv_same.
    unfold body_push_size. destruct (Z.leb (Z.of_nat cap) (bc (ctr g1))) eqn:Efull.
    - (* full *)
      apply Z.leb_le in Efull. cbn [fst snd].
      pose proof (Inv_irrelevant cap g1 a1 tr t _ (acc_irrelevant KXchg (obj_lock 0) true) H1) as H2.
      pose proof (Inv_gfull cap OK g1 a1 _ t P1 Hv1 eq_refl eq_refl eq_refl Efull H2) as H3.
      exists (updv a1 t (set_pfail true P1)). split; [|split].
      + unfold Conc.tag. cbn [map]. rewrite snoc2. exact H3.
      + intros u Hu. unfold view, a1. rewrite !tvs_updv_other by exact Hu. reflexivity.
      + unfold view. rewrite tvs_updv_same. cbn [set_pfail P1 hs hand pstore pclear inop pfail unbusy vb vn vi verr checked].
        apply safe_unlock. intros g2 a2 tr2 Hi2 Hv2. cbn [body_none fst snd].
        pose proof (Inv_rel0 cap g2 a2 tr2 t _ Hv2 eq_refl eq_refl eq_refl Hi2) as H4. cbn [set_hs hs hand pstore pclear inop pfail] in H4.
        exists (updv a2 t (mkTv false (Some x) None None true true)). split; [apply Inv_irrelevant; [reflexivity|exact H4]|].
        split; [apply (frame_updv a2 t _ (held a2))|]. unfold view. rewrite tvs_updv_same. cbn. reflexivity.
    - (* a slot is reserved *)
      apply Z.leb_gt in Efull.
      assert (Hlt : count g1 < cap).
      { pose proof (iC _ _ _ _ H1) as [C1 C2]. unfold count in *. rewrite C1 in Efull at 1. rewrite bc_st in Efull. lia. }
      destruct (Inv_inc cap g1 a1 tr t P1 Hv1 eq_refl eq_refl eq_refl Hlt H1) as [Hslot H2].
      destruct (brc_inc (ctr g1)) as [s c'] eqn:Einc. cbn [fst snd] in *.
      set (i := slot (S (count g1))) in *. rewrite Hslot.
      assert (Ri : 1 <= i <= cap) by (apply (slot_range cap OK); lia).
      assert (Hin : Nat.ltb i bsz = true) by (apply Nat.ltb_lt; lia). rewrite Hin.
      cbn [set_pstore P1 hs hand pstore pclear inop pfail] in H2.
      exists (updv a1 t (mkTv true (Some x) (Some i) None true false)). split; [|split].
      + apply Inv_irrelevant; [reflexivity|exact H2].
      + intros u Hu. unfold view, a1. rewrite !tvs_updv_other by exact Hu. reflexivity.
      + unfold view. rewrite tvs_updv_same. cbn [unbusy vb vn vi verr checked].
        apply safe_lock_none; [lia|].
        apply safe_unlock. intros g2 a2 tr2 Hi2 Hv2. cbn [body_push_store fst snd].
        pose proof (Inv_store cap OK g2 a2 tr2 t _ i x Hv2 eq_refl eq_refl eq_refl Hi2) as H3.
        cbn [set_hand set_pstore hs hand pstore pclear inop pfail] in H3.
        set (a3 := set_held _ _) in H3.
        assert (Hv3 : tvs a3 t = mkTv true None None None true false) by (subst a3; cbn; rewrite Nat.eqb_refl; reflexivity).
        pose proof (Inv_rel0 cap _ a3 tr2 t _ Hv3 eq_refl eq_refl eq_refl H3) as H4. cbn [set_hs hs hand pstore pclear inop pfail] in H4.
        exists (updv a3 t (mkTv false None None None true false)). split; [apply Inv_irrelevant; [reflexivity|exact H4]|]. split.
        * intros u Hu. unfold view. rewrite tvs_updv_other by exact Hu. subst a3. cbn. destruct (Nat.eqb_spec u t); congruence.
        * unfold view. rewrite tvs_updv_same. cbn [v0 verr checked].
          apply safe_unlock_none; [lia|]. unfold obind. apply Conc.safe_bind.
          eapply Conc.safe_weaken; [|apply safe_heapify_push]. intros [[]|] l' Hl'; cbn in Hl' |- *; [exact Hl'|exact I].
  Qed.

  (** *** pop *)
  Definition Vpop : tv := mkTv false None None None true false.
  Definition Qpop : option item -> tv -> Prop := fun r l' => l' = mkTv false r None None true false.

  Lemma safe_pop hf lf t : safe t (pop bsz hf lf) Vpop (optQ Qpop).
  Proof.
    unfold pop. apply safe_lock. intros g a tr Hi Hv Hfree. cbn [lockbit] in Hfree.
    pose proof (Inv_acq0 cap g a tr t Vpop Hv eq_refl Hfree Hi) as H1. cbn [set_hs Vpop hs hand pstore pclear inop pfail] in H1.
    set (g1 := set_lockbit g 0 true) in *. set (P1 := mkTv true None None None true false) in *.
    set (a1 := updv a t P1) in *.
    assert (Hv1 : tvs a1 t = P1) by apply tvs_updv_same.
    unfold body_pop_size. destruct (Z.eqb (bc (ctr g1)) 0) eqn:Eempty.
    - (* empty *)
      cbn [fst snd]. exists a1. split; [apply Inv_irrelevant; [reflexivity|exact H1]|].
      split; [apply (frame_updv a t _ (held a))|]. unfold view. rewrite Hv1. cbn [unbusy vb vn vi verr checked].
      apply safe_unlock. intros g2 a2 tr2 Hi2 Hv2. cbn [body_none fst snd].
      pose proof (Inv_rel0 cap g2 a2 tr2 t _ Hv2 eq_refl eq_refl eq_refl Hi2) as H4. cbn [set_hs P1 hs hand pstore pclear inop pfail] in H4.
      exists (updv a2 t (mkTv false None None None true false)). split; [apply Inv_irrelevant; [reflexivity|exact H4]|].
      split; [apply (frame_updv a2 t _ (held a2))|]. unfold view. rewrite tvs_updv_same. cbn. reflexivity.
    - (* the bottom cell is claimed *)
      apply Z.eqb_neq in Eempty.
      assert (Hge : 1 <= count g1).
      { pose proof (iC _ _ _ _ H1) as [C1 C2]. unfold count in *. rewrite C1 in Eempty at 1. rewrite bc_st in Eempty. rewrite C1, bc_st. lia. }
      destruct (Inv_dec cap OK g1 a1 tr t P1 Hv1 eq_refl eq_refl eq_refl Hge H1) as [Hslot H2].
      destruct (brc_dec (ctr g1)) as [s c'] eqn:Edec. cbn [fst snd] in *.
      set (b := slot (count g1)) in *. rewrite Hslot.
      assert (Rb : 1 <= b <= cap) by (apply (slot_range cap OK); pose proof (iC _ _ _ _ H1) as [_ C2]; lia).
      assert (Hin : Nat.ltb b bsz = true) by (apply Nat.ltb_lt; lia). rewrite Hin.
      cbn [set_pclear P1 hs hand pstore pclear inop pfail] in H2.
      exists (updv a1 t (mkTv true None None (Some b) true false)). split; [|split].
      + apply Inv_irrelevant; [reflexivity|exact H2].
      + intros u Hu. unfold view, a1. rewrite !tvs_updv_other by exact Hu. reflexivity.
      + unfold view. rewrite tvs_updv_same. cbn [unbusy vb vn vi verr checked].
        destruct (Nat.eqb_spec b 1) as [Eb|Nb].
        * (* nBottom = 1: the top cell itself is emptied *)
          apply safe_lock. intros g2 a2 tr2 Hi2 Hv2 _. cbn [body_take fst snd].
          pose proof (Inv_nodelock cap g2 a2 tr2 1 true ltac:(discriminate) Hi2) as Hi2'.
          destruct (Inv_take cap OK _ a2 tr2 t _ 1 Hv2 ltac:(cbn; rewrite Eb; reflexivity) eq_refl eq_refl eq_refl Hi2') as (y & Hy & H3).
          unfold cellv in Hy. rewrite Hy.
          cbn [set_hand set_pclear hs hand pstore pclear inop pfail] in H3.
          set (a3 := set_held _ _) in H3.
          exists a3. split; [apply Inv_irrelevant; [reflexivity|exact H3]|]. split.
          -- intros u Hu. unfold view. subst a3. cbn. destruct (Nat.eqb_spec u t); congruence.
          -- assert (Hv3 : view a3 t = mkTv true (Some y) None None true false) by (unfold view; subst a3; cbn; rewrite Nat.eqb_refl; reflexivity).
             rewrite Hv3. cbn [unbusy vb vn vi verr checked].
             apply safe_unlock_none; [discriminate|].
             apply safe_unlock. intros g4 a4 tr4 Hi4 Hv4. cbn [body_none fst snd].
             pose proof (Inv_rel0 cap g4 a4 tr4 t _ Hv4 eq_refl eq_refl eq_refl Hi4) as H5. cbn [set_hs hs hand pstore pclear inop pfail] in H5.
             exists (updv a4 t (mkTv false (Some y) None None true false)). split; [apply Inv_irrelevant; [reflexivity|exact H5]|].
             split; [apply (frame_updv a4 t _ (held a4))|]. unfold view. rewrite tvs_updv_same. cbn. reflexivity.
        * apply safe_lock_none; [discriminate|]. apply safe_lock_none; [lia|].
          apply safe_unlock. intros g2 a2 tr2 Hi2 Hv2. cbn [body_take fst snd].
          destruct (Inv_take cap OK g2 a2 tr2 t _ b Hv2 eq_refl eq_refl eq_refl eq_refl Hi2) as (y & Hy & H3).
          unfold cellv in Hy. rewrite Hy.
          cbn [set_hand set_pclear hs hand pstore pclear inop pfail] in H3.
          set (a3 := set_held _ _) in H3.
          assert (Hv3 : tvs a3 t = mkTv true (Some y) None None true false) by (subst a3; cbn; rewrite Nat.eqb_refl; reflexivity).
          pose proof (Inv_rel0 cap _ a3 tr2 t _ Hv3 eq_refl eq_refl eq_refl H3) as H4. cbn [set_hs hs hand pstore pclear inop pfail] in H4.
          exists (updv a3 t (mkTv false (Some y) None None true false)). split; [apply Inv_irrelevant; [reflexivity|exact H4]|]. split.
          -- intros u Hu. unfold view. rewrite tvs_updv_other by exact Hu. subst a3. cbn. destruct (Nat.eqb_spec u t); congruence.
          -- unfold view. rewrite tvs_updv_same. cbn [vb vn vi verr checked].
             apply safe_unlock. intros g5 a5 tr5 Hi5 Hv5. unfold body_pop_top.
             destruct (tag_eqb (ntag (heap g5 1)) TEmpty) eqn:Etop; cbn [fst snd].
             ++ exists a5. split; [apply Inv_irrelevant; [reflexivity|apply Inv_nodelock; [lia|exact Hi5]]|]. split; [apply frame_refl|].
                rewrite Hv5. cbn [vb vn vi verr checked].
                apply safe_unlock_none; [discriminate|]. cbn. reflexivity.
             ++ assert (Hz : cellv g5 1 <> None).
                { apply T_some; [apply (iT _ _ _ _ Hi5)|]. intros E. unfold cellt in E. rewrite E in Etop. discriminate. }
                destruct (cellv g5 1) as [z|] eqn:Ez; [|congruence]. unfold cellv in Ez. rewrite Ez.
                pose proof (Inv_poptop cap g5 a5 tr5 t _ y z Hv5 eq_refl Ez Hi5) as H6.
                cbn [set_hand hs hand pstore pclear inop pfail] in H6. set (a6 := set_held _ _) in H6.
                exists a6. split; [apply Inv_irrelevant; [reflexivity|apply Inv_nodelock; [lia|exact H6]]|]. split.
                ** intros u Hu. unfold view. subst a6. cbn. destruct (Nat.eqb_spec u t); congruence.
                ** assert (Hv6 : view a6 t = mkTv false (Some z) None None true false) by (unfold view; subst a6; cbn; rewrite Nat.eqb_refl; reflexivity).
                   rewrite Hv6. cbn [vb vn vi verr checked]. unfold obind. apply Conc.safe_bind.
                   eapply Conc.safe_weaken; [|apply safe_heapify_pop; [lia|reflexivity]].
                   intros [[]|] l' Hl'; cbn in Hl' |- *; [rewrite Hl'; reflexivity|exact I].
  Qed.

  (** *** client operations *)
  Definition Qop : bool -> tv -> Prop := fun ok l' => ok = true -> l' = idle.

  Lemma safe_run_op hf lf t o : safe t (run_op cap bsz hf lf t o) idle Qop.
  Proof.
    destruct o as [x|]; cbn [run_op Conc.safe].
    - intros g a tr Hi Hv.
      pose proof (Inv_inv_push cap g a tr t idle x Hv eq_refl eq_refl eq_refl Hi) as H1.
      cbn [set_inop set_hand idle hs hand pstore pclear inop pfail] in H1. set (a1 := set_held _ _) in H1.
      exists a1. split; [exact H1|]. split; [apply frame_updv|].
      assert (Hv1 : view a1 t = Vpush x) by (unfold view; subst a1; cbn; rewrite Nat.eqb_refl; reflexivity).
      rewrite Hv1. apply Conc.safe_bind. eapply Conc.safe_weaken; [|apply safe_push].
      intros [[|]|] l' Hl'; cbn in Hl'; cbn [Conc.safe].
      + subst l'. intros g2 a2 tr2 Hi2 Hv2.
        pose proof (Inv_ret cap g2 a2 tr2 t _ "ret_push" 1%Z x false Hv2 eq_refl eq_refl eq_refl eq_refl (or_introl eq_refl) eq_refl) as H2.
        exists (set_held (updv a2 t idle) (hdel t (held a2))). split; [|split; [apply frame_updv|]].
        * apply H2; [destruct x; reflexivity|destruct x; discriminate|exact Hi2].
        * unfold view. cbn. rewrite Nat.eqb_refl. intros _. reflexivity.
      + subst l'. intros g2 a2 tr2 Hi2 Hv2.
        pose proof (Inv_ret cap g2 a2 tr2 t _ "ret_push" 0%Z x true Hv2 eq_refl eq_refl eq_refl eq_refl (or_introl eq_refl) eq_refl) as H2.
        exists (set_held (updv a2 t idle) (hdel t (held a2))). split; [|split; [apply frame_updv|]].
        * apply H2; [destruct x; reflexivity|reflexivity|exact Hi2].
        * unfold view. cbn. rewrite Nat.eqb_refl. intros _. reflexivity.
      + intros g2 a2 tr2 Hi2 Hv2. exists a2. split; [apply Inv_irrelevant; [reflexivity|exact Hi2]|].
        split; [apply frame_refl|]. intros E. discriminate.
    - intros g a tr Hi Hv.
      pose proof (Inv_inv_pop cap g a tr t idle Hv eq_refl eq_refl Hi) as H1.
      cbn [set_inop idle hs hand pstore pclear inop pfail] in H1.
      exists (updv a t (mkTv false None None None true false)). split; [exact H1|]. split; [apply (frame_updv a t _ (held a))|].
      unfold view. rewrite tvs_updv_same. apply Conc.safe_bind. eapply Conc.safe_weaken; [|apply safe_pop].
      intros [[x|]|] l' Hl'; cbn in Hl'; cbn [Conc.safe].
      + unfold Qpop in Hl'. subst l'. intros g2 a2 tr2 Hi2 Hv2.
        pose proof (Inv_ret cap g2 a2 tr2 t _ "ret_pop" 1%Z x true Hv2 eq_refl eq_refl eq_refl eq_refl (or_intror eq_refl) eq_refl) as H2.
        exists (set_held (updv a2 t idle) (hdel t (held a2))). split; [|split; [apply frame_updv|]].
        * apply H2; [destruct x; reflexivity|destruct x; discriminate|exact Hi2].
        * unfold view. cbn. rewrite Nat.eqb_refl. intros _. reflexivity.
      + unfold Qpop in Hl'. subst l'. intros g2 a2 tr2 Hi2 Hv2.
        pose proof (Inv_ret cap g2 a2 tr2 t _ "ret_pop" 0%Z (0%Z, 0%Z) false Hv2 eq_refl eq_refl eq_refl eq_refl (or_intror eq_refl) eq_refl) as H2.
        exists (set_held (updv a2 t idle) (hdel t (held a2))). split; [|split; [apply frame_updv|]].
        * apply H2; [reflexivity|discriminate|exact Hi2].
        * unfold view. cbn. rewrite Nat.eqb_refl. intros _. reflexivity.
      + intros g2 a2 tr2 Hi2 Hv2. exists a2. split; [apply Inv_irrelevant; [reflexivity|exact Hi2]|].
        split; [apply frame_refl|]. intros E. discriminate.
  Qed.

  Lemma safe_run_ops hf lf t os : safe t (run_ops cap bsz hf lf t os) idle (@Conc.QTrue tv).
  Proof.
    induction os as [|o r IH]; cbn [run_ops]; [exact I|].
    apply Conc.safe_bind. eapply Conc.safe_weaken; [|apply safe_run_op].
    intros [|] l' Hl'; [rewrite (Hl' eq_refl); exact IH|exact I].
  Qed.

  Lemma safe_thread hf lf t os : safe t (thread_prog cap bsz hf lf t os) idle (@Conc.QTrue tv).
  Proof.
    unfold thread_prog. cbn [Conc.safe]. intros g a tr Hi Hv. cbn [a_begin fst snd]. exists a.
    split; [apply Inv_irrelevant; [reflexivity|exact Hi]|]. split; [apply frame_refl|]. rewrite Hv. apply safe_run_ops.
  Qed.

  Lemma nth_thread_progs hf lf ths : forall k t p,
    nth_error (thread_progs cap bsz hf lf k ths) t = Some p -> exists os, p = thread_prog cap bsz hf lf (k + t) os.
  Proof.
    induction ths as [|os r IH]; intros k t p H; [destruct t; discriminate|].
    destruct t as [|t]; cbn in H.
    - inversion H. exists os. rewrite Nat.add_0_r. reflexivity.
    - destruct (IH (S k) t p H) as [os' E]. exists os'. rewrite E. f_equal. lia.
  Qed.

  Lemma init_ok hf lf ths : Conc.cfg_ok view Inv (init_cfg cap bsz hf lf ths).
  Proof.
    exists (mkA (fun _ => idle) []). split; [apply Inv_init|].
    intros t p Hp. cbn [init_cfg Conc.threads] in Hp. destruct (nth_thread_progs hf lf ths 0 t p Hp) as [os ->].
    cbn [Nat.add]. apply safe_thread.
  Qed.

  Theorem reach_Inv hf lf ths c :
    Conc.reach (init_cfg cap bsz hf lf ths) c -> exists a, Inv (Conc.shared c) a (Conc.trace c).
  Proof. intros Hr. exact (Conc.reach_Inv (init_ok hf lf ths) Hr). Qed.
End Safe.

(** ** the theorems (every schedule) *)
Section Theorems.
  Variable cap : nat.
  Hypothesis OK : slots_ok cap = true.
  Variable bsz : nat.
  Hypothesis Hbsz : cap < bsz.

  (** Conservation.  At every reachable configuration the items in the heap cells, together with the items
      that operations in progress carry in their hands ([held], at most one per thread, and only threads with
      an operation in progress have one) and the items already handed back to clients (returned by pop, or
      refused by a failed push) are exactly the items of the pushes invoked so far -- as multisets. *)
  Theorem mspq_conservation hf lf ths c :
    Conc.reach (init_cfg cap bsz hf lf ths) c ->
    exists held : list (nat * item),
      NoDup (map fst held) /\
      (forall t x, In (t, x) held -> pend (Conc.trace c) t = true) /\
      Permutation (heap_items cap (Conc.shared c) ++ map snd held ++ given_back (Conc.trace c))
                  (invoked (Conc.trace c)).
  Proof.
    intros Hr. destruct (reach_Inv cap OK bsz Hbsz hf lf ths c Hr) as [a Hi].
    destruct (iH _ _ _ _ Hi) as (H1 & H2 & H3).
    exists (held a). split; [exact H1|]. split.
    - intros t x Hin. rewrite (iP _ _ _ _ Hi t). apply H3. apply H2 in Hin. rewrite Hin. discriminate.
    - apply (Permutation_count_occ item_eq_dec). intros x. rewrite !count_occ_app. pose proof (iM _ _ _ _ Hi x) as E.
      unfold hcount in E. lia.
  Qed.

  (** quiescent configurations: nothing is in flight *)
  Corollary mspq_conservation_quiescent hf lf ths c :
    Conc.reach (init_cfg cap bsz hf lf ths) c ->
    (forall t, pend (Conc.trace c) t = false) ->
    Permutation (heap_items cap (Conc.shared c) ++ given_back (Conc.trace c)) (invoked (Conc.trace c)).
  Proof.
    intros Hr Hq. destruct (mspq_conservation hf lf ths c Hr) as (held & _ & H2 & H3).
    destruct held as [|[t x] r]; [exact H3|]. specialize (H2 t x (or_introl eq_refl)). rewrite Hq in H2. discriminate.
  Qed.

  (** no duplication: if the client never pushes the same item twice, no item is in two places *)
  Corollary mspq_no_duplicates hf lf ths c :
    Conc.reach (init_cfg cap bsz hf lf ths) c -> NoDup (invoked (Conc.trace c)) ->
    NoDup (heap_items cap (Conc.shared c) ++ given_back (Conc.trace c)).
  Proof.
    intros Hr Hnd. destruct (mspq_conservation hf lf ths c Hr) as (held & _ & _ & H3).
    apply Permutation_sym in H3. pose proof (Permutation_NoDup H3 Hnd) as H.
    pose proof (Permutation_NoDup (Permutation_app_swap_app _ _ _) H) as H'.
    clear -H'. induction (map snd held) as [|y l IH]; [exact H'|]. apply IH. inversion H'; assumption.
  Qed.

  (** Push fails only if full.  The step that decides the failure (P1, under m_Lock) records the value of the
      item counter and the number of occupied cells at that very instant in the ghost event "g_full n k c":
      both equal the capacity; and every push that returns false has emitted that event. *)
  Theorem mspq_push_fails_only_if_full hf lf ths c :
    Conc.reach (init_cfg cap bsz hf lf ths) c ->
    full_events_ok cap (Conc.trace c) /\ fails_ok (Conc.trace c) = true.
  Proof.
    intros Hr. destruct (reach_Inv cap OK bsz Hbsz hf lf ths c Hr) as [a Hi].
    destruct (iF _ _ _ _ Hi) as (F1 & _ & F3). split; assumption.
  Qed.
End Theorems.

(** what [fails_ok] says, spelled out: a failed push of thread t is preceded by a "g_full" event of t with no
    invocation or response of t in between *)
Lemma just_true_inv tr t :
  just tr t = true ->
  exists tr1 args tr2, tr = tr1 ++ (t, EvCli "g_full" args) :: tr2 /\
    forall e, In e tr2 -> fst e = t -> match snd e with EvCli n _ => is_inv n || is_ret n = false | _ => True end.
Proof.
  induction tr as [|e tr IH] using rev_ind; [discriminate|].
  rewrite just_app. cbn [fold_left]. unfold just_step at 1. destruct (Nat.eqb_spec (fst e) t) as [Et|Nt].
  - destruct e as [u [k o ok|n args]]; cbn [fst snd] in *; subst u.
    + intros H. destruct (IH H) as (tr1 & args & tr2 & -> & K). exists tr1, args, (tr2 ++ [(t, EvAcc k o ok)]).
      split; [rewrite <- app_assoc; reflexivity|]. intros e Hin He. apply in_app_or in Hin. destruct Hin as [Hin|[<-|[]]]; [apply K; assumption|exact I].
    + destruct (String.eqb n "g_full") eqn:Eg.
      * intros _. apply String.eqb_eq in Eg. subst n. exists tr, args, []. split; [reflexivity|]. intros e [].
      * destruct (is_inv n || is_ret n) eqn:Er; [discriminate|].
        intros H. destruct (IH H) as (tr1 & args' & tr2 & -> & K). exists tr1, args', (tr2 ++ [(t, EvCli n args)]).
        split; [rewrite <- app_assoc; reflexivity|]. intros e Hin He. apply in_app_or in Hin.
        destruct Hin as [Hin|[<-|[]]]; [apply K; assumption|cbn; exact Er].
  - intros H. destruct (IH H) as (tr1 & args & tr2 & -> & K). exists tr1, args, (tr2 ++ [e]).
    split; [rewrite <- app_assoc; reflexivity|]. intros e' Hin He. apply in_app_or in Hin.
    destruct Hin as [Hin|[<-|[]]]; [apply K; assumption|congruence].
Qed.

Lemma fails_ok_spec tr :
  fails_ok tr = true ->
  forall tr1 e tr2, tr = tr1 ++ e :: tr2 -> is_fail e = true -> just tr1 (fst e) = true.
Proof.
  intros H tr1 e tr2 -> Hf. unfold fails_ok in H. rewrite fails_ok_from_app in H. cbn [app fails_ok_from] in H.
  rewrite !andb_true_iff in H. destruct H as [_ [H _]]. rewrite Hf in H. cbn in H. exact H.
Qed.
