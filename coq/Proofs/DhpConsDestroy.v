(** * DhpConsDestroy: groundwork for "smr::destruct run from a configuration in which every thread has detached disposes
      exactly the retired objects that were not yet disposed" (DHP half of C03).  Parts 1-3 below; the induction over
      thread_list_ in destroy_recs is in LV.Proofs.DhpConsDRecs, the final theorem
      [dhp_destroy_disposes_all_detached] (= C03_dhp_destroy_disposes_all_detached of Properties_C03_Dhp.v) in
      LV.Proofs.DhpConsDThm.

    Part 1: a big-step evaluator [dexec] for [dprog] and its agreement with [Conc.run] of the single compiled thread
            ([run_single]).
    Part 2: the programs on the path of the destructor under [dexec] ([Good]): what they leave unchanged, no disposer
            call, a [None] result only after an "outoffuel" event; free lists and guard side via quietPB.
    Part 3: frames [FR]: retired_allocator::free, the block-freeing loop and retired_array::fini change only the
            next_ links of the blocks of the record's own chain and the cursor fields of the record itself. *)
From Coq Require Import ZArith NArith List String Bool Lia PeanoNat Permutation.
From LV Require Import Base.Conc Base.Events Model.DhpLang Model.Dhp Proofs.DhpBase Proofs.DhpSeq Proofs.DhpSeqThm Proofs.DhpHist
  Proofs.DhpLangProofs Proofs.DhpInvB Proofs.DhpProofsC02 Proofs.DhpProofsC03.
From LV Require Proofs.DhpQuietB Proofs.DhpQuietB2.
Import ListNotations.

(** ** Part 1 *)
Fixpoint dexec {R} (p : @dprog G ev R) (g : G) : G * list ev * R :=
  match p with
  | DRet r => (g, [], r)
  | DEmit es k => let '(g', es', r) := dexec k g in (g', es ++ es', r)
  | DLoc f k => let (g1, x) := f g in dexec (k x) g1
  | DAct f k => let '(g1, x, es) := f g in let '(g', es', r) := dexec (k x) g1 in (g', es ++ es', r)
  end.

Lemma dexec_dbind {A B} (p : @dprog G ev A) (q : A -> @dprog G ev B) : forall g,
  dexec (dbind p q) g = let '(g1, es1, x) := dexec p g in let '(g2, es2, y) := dexec (q x) g1 in (g2, es1 ++ es2, y).
Proof.
  induction p as [r|es k IH|X f k IH|X f k IH]; intros g; cbn [dbind dexec].
  - destruct (dexec (q r) g) as [[g2 es2] y]. reflexivity.
  - rewrite IH. destruct (dexec k g) as [[g1 es1] x]. destruct (dexec (q x) g1) as [[g2 es2] y]. now rewrite app_assoc.
  - destruct (f g) as [g1 x]. apply IH.
  - destruct (f g) as [[g1 x] es]. rewrite IH. destruct (dexec (k x) g1) as [[g1' es1] x']. destruct (dexec (q x') g1') as [[g2 es2] y]. now rewrite app_assoc.
Qed.

Lemma dexec_dsettle {R} (p : @dprog G ev R) : forall g,
  dexec p g = let '(g2, es2, rest) := dsettle p g in let '(g', es', r) := dexec rest g2 in (g', es2 ++ es', r).
Proof.
  induction p as [r|es k IH|X f k IH|X f k IH]; intros g; cbn [dsettle].
  - reflexivity.
  - cbn [dexec]. rewrite IH. destruct (dsettle k g) as [[g2 es2] rest]. destruct (dexec rest g2) as [[g' es'] r]. now rewrite app_assoc.
  - cbn [dexec]. destruct (f g) as [g1 x]. apply IH.
  - destruct (dexec (DAct f k) g) as [[g' es'] r]. reflexivity.
Qed.

Lemma dsettle_rest {R} (p : @dprog G ev R) : forall g, match snd (dsettle p g) with DRet _ | DAct _ _ => True | _ => False end.
Proof.
  induction p as [r|es k IH|X f k IH|X f k IH]; intros g; cbn [dsettle].
  - exact I.
  - specialize (IH g). destruct (dsettle k g) as [[g2 es2] rest]. exact IH.
  - destruct (f g) as [g1 x]. apply IH.
  - exact I.
Qed.

(** the single compiled thread, run to completion *)
Lemma run_single : forall fuel i (p : @dprog G ev unit) g tr0 cf,
  match p with DAct _ _ => True | _ => False end ->
  Conc.run fuel i [] (Conc.Cfg g [compile fuel p] tr0) = (cf, true) ->
  Conc.trace cf = tr0 ++ Conc.tag 0 (snd (fst (dexec p g))) /\ Conc.shared cf = fst (fst (dexec p g)).
Proof.
  induction fuel as [|n IH]; intros i p g tr0 cf Hp Hrun; [cbn in Hrun; inversion Hrun|].
  destruct p as [r|es k|X f k|X f k]; try contradiction. clear Hp.
  cbn [compile] in Hrun. cbn [Conc.run] in Hrun. unfold Conc.pick in Hrun. cbn [Conc.threads List.length Conc.pick_from] in Hrun.
  replace ((i + (1 - 1)) mod 1) with 0 in Hrun by (rewrite Nat.mod_1_r; reflexivity). cbn [nth_error Conc.enabled] in Hrun.
  unfold Conc.step_cfg in Hrun. cbn [Conc.threads nth_error Conc.shared Conc.step_thread Conc.trace] in Hrun.
  cbn [dexec]. destruct (f g) as [[g1 x] es] eqn:Ef.
  pose proof (dexec_dsettle (k x) g1) as Eds. pose proof (dsettle_rest (k x) g1) as Hrest.
  destruct (dsettle (k x) g1) as [[g2 es2] rest] eqn:Es. cbn [snd] in Hrest.
  destruct (dexec (k x) g1) as [[g' es'] r']. 
  assert (Hst : Conc.settle (compile n rest) = ([], compile n rest)).
  { destruct n; [reflexivity|]. destruct rest; try contradiction; reflexivity. }
  rewrite Hst in Hrun. cbn [Conc.set_nth] in Hrun.
  destruct rest as [r|?|?|Y f2 k2]; try contradiction.
  - (* finished *)
    cbn [dexec] in Eds. inversion Eds; subst g' es' r'. clear Eds.
    destruct n; [cbn in Hrun; inversion Hrun|]. cbn in Hrun. inversion Hrun; subst cf. cbn. rewrite !app_nil_r. split; reflexivity.
  - destruct (IH (S i) (DAct f2 k2) g2 _ cf I Hrun) as (E1 & E2).
    destruct (dexec (DAct f2 k2) g2) as [[g3 es3] r3]. inversion Eds; subst g' es' r'. cbn [fst snd] in *. split; auto.
    rewrite E1. rewrite app_nil_r. unfold Conc.tag. rewrite <- app_assoc, <- map_app. now rewrite app_assoc.
Qed.

(** ** Part 2 *)
Definition oof : ev := EvCli "outoffuel" [].
Definition nodisp (es : list ev) : Prop := forall e, In e es -> disposed_ev e = [].

Lemma nodisp_app es es' : nodisp es -> nodisp es' -> nodisp (es ++ es').
Proof. intros H1 H2 e He. apply in_app_or in He. destruct He; auto. Qed.
Lemma nodisp_nil : nodisp []. Proof. intros e []. Qed.
Lemma nodisp_qev es : Forall DhpQuietB.qevB es -> nodisp es.
Proof.
  intros H e He. rewrite Forall_forall in H. destruct (H e He) as (_ & Hq). unfold disposed_ev. destruct (classify e); try reflexivity. contradiction.
Qed.

(** [Good Rel p]: running p relates the memories by Rel, calls no disposer, and ends with None only after "outoffuel" *)
Definition Good {R} (Rel : G -> G -> Prop) (p : P R) : Prop :=
  forall g, Rel g (fst (fst (dexec p g))) /\ nodisp (snd (fst (dexec p g))) /\ (snd (dexec p g) = None -> In oof (snd (fst (dexec p g)))).

Lemma dexec_xbind {X Y} (p : P X) (q : X -> P Y) g :
  dexec (xbind p q) g = let '(g1, es1, o) := dexec p g in
                        match o with Some x => let '(g2, es2, y) := dexec (q x) g1 in (g2, es1 ++ es2, y) | None => (g1, es1, None) end.
Proof.
  unfold xbind. rewrite dexec_dbind. destruct (dexec p g) as [[g1 es1] [x|]]; [reflexivity|]. cbn. now rewrite app_nil_r.
Qed.

Section GoodRules.
  Variable Rel : G -> G -> Prop.
  Hypothesis Rel_refl : forall g, Rel g g.
  Hypothesis Rel_trans : forall g1 g2 g3, Rel g1 g2 -> Rel g2 g3 -> Rel g1 g3.

  Lemma Good_ret {X} (x : X) : Good Rel (ret x).
  Proof. intros g. cbn. split; auto. split; [apply nodisp_nil|discriminate]. Qed.
  Lemma Good_fuel_out {X} : Good Rel (@fuel_out X).
  Proof. intros g. cbn. split; auto. split; [intros e [<-|[]]; reflexivity|intros _; now left]. Qed.
  Lemma Good_xbind {X Y} (p : P X) (q : X -> P Y) : Good Rel p -> (forall x, Good Rel (q x)) -> Good Rel (xbind p q).
  Proof.
    intros Hp Hq g. rewrite dexec_xbind. destruct (Hp g) as (A1 & A2 & A3). destruct (dexec p g) as [[g1 es1] [x|]]; cbn [fst snd] in *.
    - destruct (Hq x g1) as (B1 & B2 & B3). destruct (dexec (q x) g1) as [[g2 es2] y]. cbn [fst snd] in *.
      split; [eauto|]. split; [now apply nodisp_app|]. intros E. apply in_or_app. right. auto.
    - auto.
  Qed.
  Lemma Good_act {X} (f : A X) : (forall g, Rel g (fst (fst (f g))) /\ nodisp (snd (f g))) -> Good Rel (act f).
  Proof. intros H g. unfold act. cbn [dexec]. destruct (H g) as (H1 & H2). destruct (f g) as [[g1 x] es]. cbn in *. rewrite app_nil_r. split; auto. split; auto. discriminate. Qed.
  Lemma Good_loc {X} (f : G -> G * X) : (forall g, Rel g (fst (f g))) -> Good Rel (loc f).
  Proof. intros H g. unfold loc. cbn [dexec]. specialize (H g). destruct (f g) as [g1 x]. cbn in *. split; auto. split; [apply nodisp_nil|discriminate]. Qed.
  Lemma Good_emit es : nodisp es -> Good Rel (emit es).
  Proof. intros H g. unfold emit. cbn. rewrite app_nil_r. split; auto. split; auto. discriminate. Qed.
End GoodRules.

Lemma Good_weaken {R} (Rel Rel' : G -> G -> Prop) (p : P R) : (forall g g', Rel g g' -> Rel' g g') -> Good Rel p -> Good Rel' p.
Proof. intros H Hp g. destruct (Hp g) as (A1 & A2 & A3). auto. Qed.

(** quiet programs *)
Lemma quietPB_dexec {R} (p : @dprog G ev R) : DhpQuietB.quietPB p -> forall g, piB g (fst (fst (dexec p g))) /\ Forall DhpQuietB.qevB (snd (fst (dexec p g))).
Proof.
  induction p as [r|es k IH|X f k IH|X f k IH]; intros Hq g; cbn [DhpQuietB.quietPB dexec] in *.
  - split; [apply piB_refl|constructor].
  - destruct Hq as (H1 & H2). destruct (IH H2 g) as (A & B). destruct (dexec k g) as [[g' es'] r]. cbn in *. split; auto. apply Forall_app. auto.
  - destruct Hq as (H1 & H2). specialize (H1 g). destruct (f g) as [g1 x]. cbn in H1. destruct (IH x (H2 x) g1) as (A & B). split; auto. eapply piB_trans; eauto.
  - destruct Hq as (H1 & H2). destruct (H1 g) as (H3 & H4). destruct (f g) as [[g1 x] es]. cbn in H3, H4. destruct (IH x (H2 x) g1) as (A & B).
    destruct (dexec (k x) g1) as [[g' es'] r]. cbn in *. split; [eapply piB_trans; eauto|apply Forall_app; auto].
Qed.

Definition Nof {R} (p : P R) : Prop := forall g, snd (dexec p g) = None -> In oof (snd (fst (dexec p g))).
Lemma Good_quiet {R} (p : P R) : DhpQuietB.quietPB p -> Nof p -> Good piB p.
Proof. intros Hq Hn g. destruct (quietPB_dexec p Hq g) as (A & B). split; auto. split; [now apply nodisp_qev|apply Hn]. Qed.

Lemma Nof_of_Good {R} Rel (p : P R) : Good Rel p -> Nof p.
Proof. intros H g. apply H. Qed.

Definition Tr (g g' : G) : Prop := True.
Ltac gd_known := fail.
Ltac gd :=
  repeat first
    [ gd_known
    | match goal with
      | |- Good Tr (ret _) => apply Good_ret; exact (fun _ => I)
      | |- Good Tr fuel_out => apply Good_fuel_out; exact (fun _ => I)
      | |- Good Tr (xbind _ _) => apply Good_xbind; [exact (fun _ _ _ _ _ => I)| |intros]
      | |- Good Tr (act _) => apply Good_act; intros; split; [exact I|]
      | |- Good Tr (loc _) => apply Good_loc; intros; exact I
      | |- Good Tr (if ?b then _ else _) => destruct b
      | |- Good Tr (match ?o with Some _ => _ | None => _ end) => destruct o
      end ].

Lemma nodisp_acc k o ok : nodisp (acc k o ok). Proof. intros e [<-|[]]. reflexivity. Qed.
Lemma nodisp_st_slot s v g : nodisp (snd (a_st_slot s v g)).
Proof. unfold a_st_slot. cbn [snd]. apply nodisp_app; [apply nodisp_acc|]. destruct (slot_valid g s); [|apply nodisp_nil]. intros e [<-|[]]. unfold disposed_ev. now rewrite classify_slot. Qed.

Lemma T_add_knowing sp f : forall n head, Good Tr (add_knowing sp f n head).
Proof. induction sp as [|sp IH]; intros n head; cbn [add_knowing]; gd; try apply nodisp_acc; try apply IH. unfold a_cas_head. destruct (oeqb _ _); apply nodisp_acc. Qed.
Lemma T_fl_add sp f n : Good Tr (fl_add sp f n).
Proof. unfold fl_add. gd; try apply nodisp_acc. apply T_add_knowing. Qed.
Lemma T_fl_put sp f n : Good Tr (fl_put sp f n).
Proof. unfold fl_put. gd; try apply nodisp_acc. apply T_fl_add. Qed.
Lemma T_clear_slots r : forall n i, Good Tr (clear_slots r i n).
Proof. induction n as [|n IH]; intros i; cbn [clear_slots]; gd; try apply nodisp_st_slot. apply IH. Qed.
Lemma T_hp_free c b : Good Tr (hp_free c b).
Proof. unfold hp_free. gd. - apply Good_emit; [exact (fun _ => I)|]. intros e [<-|[]]. unfold disposed_ev. now rewrite classify_free. - apply T_fl_put. Qed.
Lemma T_free_gblocks c : forall fuel p, Good Tr (free_gblocks c fuel p).
Proof. induction fuel as [|fuel IH]; intros [b|]; cbn [free_gblocks]; gd; try apply T_hp_free; try apply IH. Qed.
Lemma T_hp_clear c r : Good Tr (hp_clear c r []).
Proof.
  unfold hp_clear. gd; try apply T_clear_slots; try apply nodisp_acc; try apply T_free_gblocks.
  apply Good_emit; [exact (fun _ => I)|apply nodisp_nil].
Qed.

Lemma G_fl_put sp f n : Good piB (fl_put sp f n).
Proof. apply Good_quiet; [apply DhpQuietB2.qB_fl_put|]. eapply Nof_of_Good. apply T_fl_put. Qed.
Lemma G_hp_clear c r : Good piB (hp_clear c r []).
Proof. apply Good_quiet; [apply DhpQuietB2.qB_hp_clear; constructor|]. eapply Nof_of_Good. apply T_hp_clear. Qed.

(** ** Part 3: frames *)
Definition FR (S H : nat -> Prop) (g g' : G) : Prop :=
  tlist g' = tlist g /\ List.length (recs g') = List.length (recs g) /\ List.length (rbs g') = List.length (rbs g) /\
  (forall r, r_tid (grec g' r) = r_tid (grec g r) /\ r_next (grec g' r) = r_next (grec g r)) /\
  (forall r, ~ H r -> r_cb (grec g' r) = r_cb (grec g r) /\ r_cc (grec g' r) = r_cc (grec g r) /\
                      r_head (grec g' r) = r_head (grec g r) /\ r_tail (grec g' r) = r_tail (grec g r)) /\
  (forall b, ~ S b -> rb_next (grb g' b) = rb_next (grb g b)) /\ (forall b, rb_cells (grb g' b) = rb_cells (grb g b)).

Lemma FR_refl S H g : FR S H g g.
Proof. unfold FR. repeat split; auto. Qed.
Lemma FR_trans S H g1 g2 g3 : FR S H g1 g2 -> FR S H g2 g3 -> FR S H g1 g3.
Proof.
  intros (A0&A1&A2&A3&A4&A5&A6) (B0&B1&B2&B3&B4&B5&B6). unfold FR.
  split; [congruence|]. split; [congruence|]. split; [congruence|]. split; [|split; [|split]].
  - intros r. destruct (A3 r), (B3 r). split; congruence.
  - intros r Hr. destruct (A4 r Hr) as (?&?&?&?), (B4 r Hr) as (?&?&?&?). repeat split; congruence.
  - intros b Hb. rewrite B5, A5; auto.
  - intros b. rewrite B6, A6; auto.
Qed.
Lemma FR_weaken (S S' H H' : nat -> Prop) g g' : (forall b, S b -> S' b) -> (forall r, H r -> H' r) -> FR S H g g' -> FR S' H' g g'.
Proof. intros HS HH (A0&A1&A2&A3&A4&A5&A6). unfold FR. repeat split; auto; try apply A3; try (apply A4; auto). Qed.
Lemma FR_piB S H g g' : piB g g' -> FR S H g g'.
Proof.
  intros (A0&A1&A2&A3&A4). unfold FR. split; auto. split; auto. split; auto. split; [|split; [|split]].
  - intros r. destruct (A3 r) as (?&?&_). auto. - intros r _. destruct (A3 r) as (_&_&?&?&?&?). auto.
  - intros b _. apply A4. - intros b. apply A4.
Qed.

Section Destroy.
  Variable c : cfg.
  Notation RB := (c_RB c).

  Lemma FR_clrnext g b : FR (eq b) (fun _ => False) g (upd_rb g b (bs_next None)).
  Proof.
    unfold FR. split; [reflexivity|]. split; [reflexivity|]. split; [unfold upd_rb; cbn; apply upd_nth_length|].
    split; [intros r; split; reflexivity|]. split; [intros r _; repeat split; reflexivity|]. split.
    - intros b' N. rewrite grb_upd_rb_other; auto.
    - intros b'. destruct (Nat.eq_dec b' b) as [->|N]; [|rewrite grb_upd_rb_other; auto].
      destruct (Nat.lt_ge_cases b (List.length (rbs g))) as [L|L]; [rewrite grb_upd_rb_same by exact L; destruct (grb g b); reflexivity|].
      unfold grb, upd_rb. cbn. now rewrite upd_nth_oob.
  Qed.

  Lemma G_rt_free b : Good (FR (eq b) (fun _ => False)) (rt_free c b).
  Proof.
    unfold rt_free. apply Good_xbind; [apply FR_trans| |intros _].
    - apply Good_loc. intros g. apply FR_clrnext.
    - apply Good_xbind; [apply FR_trans| |intros _].
      + apply Good_emit; [apply FR_refl|]. intros e [<-|[]]. unfold disposed_ev. now rewrite classify_free.
      + eapply Good_weaken; [|apply G_fl_put]. intros g g'. apply FR_piB.
  Qed.

  Lemma free_rblocks_fr : forall ch fuel o g, is_chain c g o ch -> NoDup ch ->
    FR (fun b => In b ch) (fun _ => False) g (fst (fst (dexec (free_rblocks c fuel o) g))) /\
    nodisp (snd (fst (dexec (free_rblocks c fuel o) g))) /\
    (snd (dexec (free_rblocks c fuel o) g) = None -> In oof (snd (fst (dexec (free_rblocks c fuel o) g)))).
  Proof.
    induction ch as [|b ch IH]; intros fuel o g Hc Hn.
    - cbn in Hc. subst o. destruct fuel; cbn; (split; [apply FR_refl|split; [apply nodisp_nil|discriminate]]).
    - cbn in Hc. destruct Hc as (-> & Hlt & Hcl & Hc). inversion Hn as [|? ? Hnin Hn']; subst.
      destruct fuel as [|f]; [cbn; split; [apply FR_refl|split; [intros e [<-|[]]; reflexivity|intros _; now left]]|].
      cbn [free_rblocks]. rewrite dexec_xbind. cbn [loc dexec]. rewrite dexec_xbind.
      destruct (G_rt_free b g) as (A1 & A2 & A3). destruct (dexec (rt_free c b) g) as [[g1 es1] [[]|]]; cbn [fst snd] in *.
      + assert (Hc1 : is_chain c g1 (rb_next (grb g b)) ch).
        { destruct A1 as (_&_&E2&_&_&E5&E6). apply is_chain_frame with (g := g); [lia| |exact Hc].
          intros b' Hb'. split; [apply E5; intros ->; contradiction|now rewrite E6]. }
        destruct (IH f _ g1 Hc1 Hn') as (B1 & B2 & B3). destruct (dexec (free_rblocks c f (rb_next (grb g b))) g1) as [[g2 es2] o2]. cbn [fst snd] in *.
        cbn [app]. split; [|split; [now apply nodisp_app|intros E; apply in_or_app; right; auto]].
        eapply FR_trans; [eapply FR_weaken; [| |exact A1]|eapply FR_weaken; [| |exact B1]]; cbn; auto.
      + cbn [app]. split; [eapply FR_weaken; [| |exact A1]; cbn; auto; intros b' <-; now left|]. split; auto.
  Qed.

  Lemma FR_upd_rec_h g h f : (forall x, r_tid (f x) = r_tid x /\ r_next (f x) = r_next x) -> FR (fun _ => False) (eq h) g (upd_rec g h f).
  Proof.
    intros Hf. unfold FR. split; [reflexivity|]. split; [unfold upd_rec; cbn; apply upd_nth_length|]. split; [reflexivity|].
    split; [|split; [|split; [intros; reflexivity|intros; reflexivity]]].
    - intros r. destruct (Nat.eq_dec r h) as [->|N]; [|rewrite grec_upd_rec_other; auto].
      destruct (Nat.lt_ge_cases h (List.length (recs g))) as [L|L]; [rewrite grec_upd_rec_same by exact L; apply Hf|].
      unfold grec, upd_rec. cbn. rewrite upd_nth_oob by exact L. auto.
    - intros r N. rewrite grec_upd_rec_other; auto.
  Qed.

  Lemma rt_fini_fr ch h g : is_chain c g (r_head (grec g h)) ch -> NoDup ch ->
    FR (fun b => In b ch) (eq h) g (fst (fst (dexec (rt_fini c h) g))) /\ nodisp (snd (fst (dexec (rt_fini c h) g))) /\
    (snd (dexec (rt_fini c h) g) = None -> In oof (snd (fst (dexec (rt_fini c h) g)))).
  Proof.
    intros Hc Hn. unfold rt_fini. rewrite dexec_xbind. cbn [loc dexec]. rewrite dexec_xbind.
    destruct (free_rblocks_fr ch (c_spin c) _ g Hc Hn) as (A1 & A2 & A3).
    destruct (dexec (free_rblocks c (c_spin c) (r_head (grec g h))) g) as [[g1 es1] [[]|]]; cbn [fst snd loc dexec] in *.
    - rewrite app_nil_r. split; [|split; [exact A2|discriminate]].
      eapply FR_trans; [eapply FR_weaken; [| |exact A1]; cbn; auto; intros ? []|].
      eapply FR_weaken; [| |apply FR_upd_rec_h; intros []; cbn; auto]; cbn; auto. intros ? [].
    - split; [eapply FR_weaken; [| |exact A1]; cbn; auto; intros ? []|]. split; auto.
  Qed.
End Destroy.
