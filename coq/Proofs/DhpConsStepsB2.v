(** DhpConsStepsB2: copy of LV.Proofs.DhpStepsB2 over the two-directional pointer invariant of LV.Proofs.DhpConsInv (conservation);
    the text differs from the original where the JW part of a goal is proved. *)
(** * DhpStepsB2: steps of the C03 invariant for a freshly created thread record (alloc_thread_data). *)
From Coq Require Import ZArith NArith List String Bool Lia PeanoNat.
From LV Require Import Base.Conc Base.Events Model.DhpLang Model.Dhp Proofs.DhpBase Proofs.DhpSeq Proofs.DhpSeqThm Proofs.DhpHist
  Proofs.DhpLangProofs Proofs.DhpInvB Proofs.DhpConsInv Proofs.DhpConsQuietB Proofs.DhpConsQuietB2 Proofs.DhpConsRulesB Proofs.DhpConsStepsB1.
Import ListNotations.

Section StepsB2.
  Variable c : cfg.

  Definition aux_newrec (a : AuxB) (t r : nat) : AuxB :=
    mkAuxB (fn (bvs a) t (set_new (bvs a t) (Some (r, None)))) (rbown a) (wh a)
           (fn (rch a) r []) (fn (rw a) r 0) (fn (moved a) r 0) (fn (dead a) r false) (tl a).

  Lemma S_newrec g a tr t : vb_new (bvs a t) = None -> JB c g a tr -> JB c (fst (new_rec c g)) (aux_newrec a t (List.length (recs g))) tr.
  Proof.
    intros Hnn [[O1 O2 O3 O4 O5] K1 [R1 R2 R3 R4 R5 R6] [W1 W2 W3 W4 W5 W6 W7 W8 W9]].
    remember (List.length (recs g)) as r eqn:Er. remember (fst (new_rec c g)) as g' eqn:Eg'.
    assert (El : List.length (recs g') = S r) by (subst g' r; unfold new_rec; cbn; rewrite app_length; cbn; lia).
    assert (Eo : forall r', r' < r -> grec g' r' = grec g r') by (intros r' L; subst g' r; apply grec_newrec_old; exact L).
    destruct (grec_newrec_new c g) as (N1 & N2 & N3 & N4). rewrite <- Er, <- Eg' in N1, N2, N3, N4.
    assert (Eb : forall b, grb g' b = grb g b) by (subst g'; reflexivity).
    assert (Etl : tlist g' = tlist g) by (subst g'; reflexivity).
    assert (Hown : forall t' r', In r' (vb_own (bvs a t')) -> r' <> r) by (intros t' r' H; destruct (O5 t' r' H); subst r; lia).
    constructor.
    - constructor; cbn [tl aux_newrec bvs].
      + split; [|apply O1]. rewrite Etl. apply is_tl_frame with (g := g); [lia| |apply O1].
        intros x Hx. rewrite Eo; auto. rewrite Er. eapply is_tl_lt; [apply O1|exact Hx].
      + intros t' h. unfold fn. destruct (Nat.eqb_spec t' t) as [->|]; cbn; apply O2.
      + intros t' r' nx. unfold fn. destruct (Nat.eqb_spec t' t) as [->|]; cbn.
        * intros E. inversion E; subst r' nx. rewrite El. split; [lia|]. split; [|auto].
          intros H. assert (r < List.length (recs g)) by (eapply is_tl_lt; [apply O1|exact H]). lia.
        * intros E. destruct (O3 t' r' nx E) as (X1 & X2 & X3 & X4). rewrite El, Eo by exact X1. repeat split; auto.
      + intros t1 t2 r' nx nx'. unfold fn. destruct (Nat.eqb_spec t1 t) as [->|], (Nat.eqb_spec t2 t) as [->|]; cbn; auto.
        * intros E1 E2. inversion E1; subst. destruct (O3 t2 _ _ E2) as (X & _). lia.
        * intros E1 E2. inversion E2; subst. destruct (O3 t1 _ _ E1) as (X & _). lia.
        * apply O4.
      + intros t' r' Hr. assert (Hr' : In r' (vb_own (bvs a t'))) by (revert Hr; unfold fn; destruct (Nat.eqb_spec t' t) as [->|]; cbn; auto).
        destruct (O5 t' r' Hr') as (X1 & X2). rewrite El, Eo by exact X1. split; [lia|exact X2].
    - eapply JK_frame with (g := g) (a := a); eauto.
      all: try solve [subst g'; reflexivity].
      all: try solve [intros b; rewrite Eb; auto].
      all: try solve [intros t'; cbn; unfold fn; destruct (Nat.eqb_spec t' t) as [->|]; auto].
    - assert (Vm : forall t', vb_move (fn (bvs a) t (set_new (bvs a t) (Some (r, None))) t') = vb_move (bvs a t') /\
                             vb_own (fn (bvs a) t (set_new (bvs a t) (Some (r, None))) t') = vb_own (bvs a t') /\
                             vb_cur (fn (bvs a) t (set_new (bvs a t) (Some (r, None))) t') = vb_cur (bvs a t') /\
                             vb_dead (fn (bvs a) t (set_new (bvs a t) (Some (r, None))) t') = vb_dead (bvs a t') /\
                             vb_full (fn (bvs a) t (set_new (bvs a t) (Some (r, None))) t') = vb_full (bvs a t'))
        by (intros t'; unfold fn; destruct (Nat.eqb_spec t' t) as [->|]; cbn; auto).
      constructor; cbn [aux_newrec bvs rch rw moved dead rbown].
      + intros r' Hr'. rewrite El in Hr'. destruct (Nat.eq_dec r' r) as [->|N].
        * left. rewrite !fn_same. split; [reflexivity|]. split; [reflexivity|]. split; [reflexivity|]. right. split; assumption.
        * assert (L : r' < r) by lia. rewrite !fn_other by exact N. rewrite Eo by exact L.
          destruct (R1 r' L) as [K|(K0 & K2 & K3 & K4 & K5)]; [left; exact K|right].
          split; auto. split; [|split; auto; split; auto].
          -- apply Rinv_frame with (g := g); auto; try lia.
             all: try solve [subst g'; apply Nat.le_refl].
             all: try solve [rewrite Eo by exact L; auto].
             all: try solve [intros b _; rewrite Eb; auto].
          -- destruct K5 as [K5|(t' & K5)]; [left; exact K5|right; exists t']. destruct (Vm t') as (_ & _ & _ & _ & ->). exact K5.
      + intros r' Hm. destruct (Nat.eq_dec r' r) as [->|N]; [rewrite fn_same in Hm; congruence|]. rewrite fn_other in Hm by exact N.
        destruct (R2 r' Hm) as (t' & ob & K). exists t', ob. destruct (Vm t') as (-> & _). exact K.
      + intros t' r' ob. destruct (Vm t') as (-> & -> & -> & _). intros H. destruct (R3 t' r' ob H) as (X1 & X2). split; auto.
        assert (N : r' <> r) by (eapply Hown; eauto). rewrite !fn_other by exact N. exact X2.
      + intros t' b i n. destruct (Vm t') as (-> & _ & -> & _). intros H. destruct (R4 t' b i n H) as (r0 & ob & j & K0 & K).
        exists r0, ob, j. split; auto. assert (N : r0 <> r) by (eapply Hown; eapply R3; eauto). rewrite !fn_other by exact N.
        assert (L : r0 < r) by (destruct (O5 t' r0 (proj1 (R3 t' r0 ob K0))); lia). rewrite Eo by exact L. exact K.
      + split.
        * intros t' r'. destruct (Vm t') as (_ & -> & _ & -> & _). intros H. destruct (proj1 R5 t' r' H) as (X1 & X2). split; auto.
          rewrite fn_other; auto. eapply Hown; eauto.
        * intros r' H. destruct (Nat.eq_dec r' r) as [->|N]; [rewrite fn_same in H; discriminate|]. rewrite fn_other in H by exact N.
          destruct (proj2 R5 r' H) as (t' & K). exists t'. destruct (Vm t') as (_ & _ & _ & -> & _). exact K.
      + intros t' r'. destruct (Vm t') as (_ & -> & _ & _ & ->). intros H. destruct (R6 t' r' H) as (X1 & X2). split; auto.
        rewrite fn_other; auto. eapply Hown; eauto.
    - constructor; cbn [aux_newrec bvs wh].
      + intros r' Hr'. rewrite El in Hr'. destruct (Nat.eq_dec r' r) as [->|N].
        * unfold ec. cbn [moved rch rw aux_newrec]. rewrite !fn_same. cbn. split; [constructor|intros p []].
        * assert (L : r' < r) by lia. assert (E : ec g' (aux_newrec a t r) r' = ec g a r').
          { unfold ec. cbn [moved rch rw aux_newrec]. rewrite !fn_other by exact N. unfold content, flat. apply f_equal, f_equal. apply flat_map_ext. intros b. now rewrite Eb. }
          rewrite E. apply W1. exact L.
      + intros t' p. unfold fn. destruct (Nat.eqb_spec t' t) as [->|]; cbn; apply W2.
      + intros t'. unfold fn. destruct (Nat.eqb_spec t' t) as [->|]; cbn; apply W3.
      + exact W4.
      + exact W5.
      + intros t' r'. cbn [aux_newrec bvs moved rw]. intros Hm Hc.
        destruct (Nat.eq_dec r' r) as [->|N]; [now rewrite !fn_same|]. rewrite !fn_other by exact N. apply (W6 t' r').
        * revert Hm. unfold fn. destruct (Nat.eqb_spec t' t) as [->|]; cbn; auto.
        * revert Hc. unfold fn. destruct (Nat.eqb_spec t' t) as [->|]; cbn; auto.
      + assert (Eob : oob g' = oob g) by (subst g'; reflexivity). rewrite Eob. intros Hoob. destruct (W7 Hoob) as [C1 C2 C3 C4 C5 C6 C7].
        constructor; cbn [aux_newrec bvs wh tl rch].
        * exact C1.
        * intros p r' H. destruct (C2 p r' H) as (X1 & X2). rewrite <- Er in X1. split; [lia|].
          assert (N : r' <> r) by lia.
          assert (E : ec g' (aux_newrec a t r) r' = ec g a r').
          { unfold ec. cbn [moved rch rw aux_newrec]. rewrite !fn_other by exact N. unfold content, flat. apply f_equal, f_equal. apply flat_map_ext. intros b. now rewrite Eb. }
          rewrite E. exact X2.
        * intros p t' H. destruct (C3 p t' H) as (X1 & X2). unfold fn. destruct (Nat.eqb_spec t' t) as [->|]; cbn; auto.
        * exact C4.
        * intros r' Hr'. rewrite El in Hr'. destruct (Nat.eq_dec r' r) as [->|N]; [right; exists t, None; rewrite fn_same; reflexivity|].
          assert (L : r' < List.length (recs g)) by lia. destruct (C5 r' L) as [X|(t' & nx & X)]; [now left|right; exists t', nx].
          unfold fn. destruct (Nat.eqb_spec t' t) as [->|]; [congruence|exact X].
        * intros t' r' nx. unfold fn at 1. destruct (Nat.eqb_spec t' t) as [->|]; cbn.
          -- intros E. inversion E; subst. now rewrite fn_same.
          -- intros E. unfold fn. destruct (Nat.eqb_spec r' r); [reflexivity|]. eapply C6; eauto.
        * intros t' r' H. assert (H' : vb_arr (bvs a t') = Some r') by (revert H; unfold fn; destruct (Nat.eqb_spec t' t) as [->|]; cbn; auto).
          destruct (C7 t' r' H') as (X1 & X2). split; [unfold fn; destruct (Nat.eqb_spec t' t) as [->|]; cbn; auto|].
          rewrite fn_other; auto. eapply Hown; eauto.
      + subst g'. exact W8.
      + apply (JH_frame a _ tr tr); auto. intros t'. cbn [bvs aux_newrec]. unfold fn. destruct (Nat.eqb_spec t' t) as [->|]; auto.
  Qed.

  (** thread_id_.store( me ) on the record just created *)
  Lemma S_sttid_new g a tr t r nx :
    vb_new (bvs a t) = Some (r, nx) -> JB c g a tr ->
    JB c (upd_rec g r (rs_tid (S t))) (setv a t (set_own (bvs a t) (r :: vb_own (bvs a t)))) tr.
  Proof.
    intros Hn [[O1 O2 O3 O4 O5] K1 R1 W1].
    destruct (O3 t r nx Hn) as (Hlt & Hntl & Hnx & Htid).
    set (g' := upd_rec g r (rs_tid (S t))).
    assert (El : List.length (recs g') = List.length (recs g)) by (unfold g', upd_rec; cbn; apply upd_nth_length).
    assert (Eo : forall r', r' <> r -> grec g' r' = grec g r') by (intros r' N; unfold g'; rewrite grec_upd_rec_other; auto).
    assert (Es : grec g' r = rs_tid (S t) (grec g r)) by (unfold g'; now rewrite grec_upd_rec_same).
    assert (Ef : forall r', r_next (grec g' r') = r_next (grec g r') /\ r_head (grec g' r') = r_head (grec g r') /\ r_tail (grec g' r') = r_tail (grec g r') /\
                           r_cb (grec g' r') = r_cb (grec g r') /\ r_cc (grec g' r') = r_cc (grec g r')).
    { intros r'. destruct (Nat.eq_dec r' r) as [->|N]; [rewrite Es; destruct (grec g r); cbn; auto|rewrite Eo by auto; auto]. }
    assert (Hex : forall t', In r (vb_own (bvs a t')) -> t' = t).
    { intros t' H. destruct (O5 t' r H) as (_ & X). destruct Htid as [Y|Y]; [congruence|]. destruct (O5 t r Y) as (_ & Z). congruence. }
    constructor.
    - constructor; cbn [tl setv bvs].
      + split; [|apply O1]. change (tlist g') with (tlist g). apply is_tl_frame with (g := g); [lia| |apply O1]. intros r' _. apply Ef.
      + intros t' h'. unfold fn. destruct (Nat.eqb_spec t' t) as [->|]; cbn; apply O2.
      + intros t' r' nx' Hv.
        assert (Hv' : vb_new (bvs a t') = Some (r', nx')) by (revert Hv; unfold fn; destruct (Nat.eqb_spec t' t) as [->|]; cbn; auto).
        destruct (O3 t' r' nx' Hv') as (X1 & X2 & X3 & X4). rewrite El. destruct (Ef r') as (-> & _). repeat split; auto.
        destruct (Nat.eq_dec r' r) as [->|N].
        * assert (t' = t) by (eapply O4; eauto). subst t'. right. rewrite fn_same. cbn. now left.
        * rewrite Eo by auto. destruct X4 as [X4|X4]; [now left|right]. unfold fn. destruct (Nat.eqb_spec t' t) as [->|]; cbn; auto.
      + intros t1 t2 r' nx1 nx2. unfold fn. destruct (Nat.eqb_spec t1 t) as [->|], (Nat.eqb_spec t2 t) as [->|]; cbn; auto; apply O4.
      + intros t' r'. rewrite El. unfold fn. destruct (Nat.eqb_spec t' t) as [->|]; cbn.
        * intros [<-|Hr]; [split; auto; rewrite Es; destruct (grec g r); reflexivity|].
          destruct (O5 t r' Hr) as (X1 & X2). destruct (Nat.eq_dec r' r) as [->|N]; [split; auto; rewrite Es; destruct (grec g r); reflexivity|].
          rewrite Eo by auto. auto.
        * intros Hr. destruct (O5 t' r' Hr) as (X1 & X2). assert (N : r' <> r) by (intros ->; apply Hex in Hr; contradiction). rewrite Eo by auto. auto.
    - apply JK_setv; auto. eapply JK_frame with (g := g) (a := a); eauto.
    - apply JR_setv; auto; [cbn; auto|]. eapply JR_frame with (g := g) (a := a); eauto.
      all: try solve [intros r'; destruct (Ef r') as (_ & X); exact X].
    - apply JW_setv; auto. eapply JW_frame with (g := g) (a := a); eauto.
  Qed.

  (** pNew->next_ = old head, before the CAS that publishes the record *)
  Lemma S_setnext g a tr t r nx old :
    vb_new (bvs a t) = Some (r, nx) -> JB c g a tr ->
    JB c (upd_rec g r (rs_next old)) (setv a t (set_new (bvs a t) (Some (r, old)))) tr.
  Proof.
    intros Hn [[O1 O2 O3 O4 O5] K1 R1 W1].
    destruct (O3 t r nx Hn) as (Hlt & Hntl & Hnx & Htid).
    set (g' := upd_rec g r (rs_next old)).
    assert (El : List.length (recs g') = List.length (recs g)) by (unfold g', upd_rec; cbn; apply upd_nth_length).
    assert (Eo : forall r', r' <> r -> grec g' r' = grec g r') by (intros r' N; unfold g'; rewrite grec_upd_rec_other; auto).
    assert (Es : grec g' r = rs_next old (grec g r)) by (unfold g'; now rewrite grec_upd_rec_same).
    assert (Ef : forall r', r_tid (grec g' r') = r_tid (grec g r') /\ r_head (grec g' r') = r_head (grec g r') /\ r_tail (grec g' r') = r_tail (grec g r') /\
                           r_cb (grec g' r') = r_cb (grec g r') /\ r_cc (grec g' r') = r_cc (grec g r')).
    { intros r'. destruct (Nat.eq_dec r' r) as [->|N]; [rewrite Es; destruct (grec g r); cbn; auto|rewrite Eo by auto; auto]. }
    constructor.
    - constructor; cbn [tl setv bvs].
      + split; [|apply O1]. change (tlist g') with (tlist g). apply is_tl_frame with (g := g); [lia| |apply O1].
        intros r' Hr'. rewrite Eo; auto. intros ->. contradiction.
      + intros t' h'. unfold fn. destruct (Nat.eqb_spec t' t) as [->|]; cbn; apply O2.
      + intros t' r' nx'. rewrite El. unfold fn. destruct (Nat.eqb_spec t' t) as [->|]; cbn.
        * intros E. inversion E; subst r' nx'. destruct (Ef r) as (-> & _). repeat split; auto. rewrite Es. destruct (grec g r); reflexivity.
        * intros E. destruct (O3 t' r' nx' E) as (X1 & X2 & X3 & X4). destruct (Ef r') as (-> & _).
          assert (N : r' <> r) by (intros ->; assert (t' = t) by (eapply O4; eauto); contradiction). rewrite Eo by auto. auto.
      + intros t1 t2 r' nx1 nx2. unfold fn. destruct (Nat.eqb_spec t1 t) as [->|], (Nat.eqb_spec t2 t) as [->|]; cbn; auto.
        * intros E1 E2. inversion E1; subst. eapply O4; eauto.
        * intros E1 E2. inversion E2; subst. eapply O4; eauto.
        * apply O4.
      + intros t' r'. rewrite El. destruct (Ef r') as (-> & _). unfold fn. destruct (Nat.eqb_spec t' t) as [->|]; cbn; apply O5.
    - apply JK_setv; auto. eapply JK_frame with (g := g) (a := a); eauto.
    - apply JR_setv; auto. eapply JR_frame with (g := g) (a := a); eauto.
      all: try solve [intros r'; destruct (Ef r') as (_ & X); exact X].
    - apply JW_view with (t := t) (a := a); cbn [setv bvs wh rch rw moved tl]; auto.
      all: try rewrite !fn_same; auto.
      + intros t' N. now rewrite fn_other.
      + cbn. intros r0 nx0 E. inversion E; subst. eauto.
      + cbn. intros r0 nx0 E. left. rewrite Hn in E. inversion E; subst. eauto.
      + eapply JW_frame with (g := g) (a := a); eauto.
  Qed.

  (** thread_list_.compare_exchange( old, pNew ) succeeded *)
  Definition aux_pushed (a : AuxB) (t r : nat) : AuxB :=
    mkAuxB (fn (bvs a) t (set_new (bvs a t) None)) (rbown a) (wh a) (rch a) (rw a) (moved a) (dead a) (r :: tl a).

  Lemma S_castl_ok g a tr t r :
    vb_new (bvs a t) = Some (r, tlist g) -> JB c g a tr -> JB c (set_tlist g (Some r)) (aux_pushed a t r) tr.
  Proof.
    intros Hn [[O1 O2 O3 O4 O5] K1 R1 W1].
    destruct (O3 t r _ Hn) as (Hlt & Hntl & Hnx & Htid).
    set (g' := set_tlist g (Some r)).
    assert (Eg : forall r', grec g' r' = grec g r') by reflexivity.
    constructor.
    - constructor; cbn [tl aux_pushed bvs].
      + split; [|constructor; [exact Hntl|apply O1]]. cbn. split; auto. split; [exact Hlt|].
        change (grec g' r) with (grec g r). rewrite Hnx. apply is_tl_frame with (g := g); [apply Nat.le_refl|reflexivity|apply O1].
      + intros t' h. unfold fn. destruct (Nat.eqb_spec t' t) as [->|]; cbn; intros H; right; eapply O2; eauto.
      + intros t' r' nx'. unfold fn. destruct (Nat.eqb_spec t' t) as [->|]; cbn; [discriminate|].
        intros E. destruct (O3 t' r' nx' E) as (X1 & X2 & X3 & X4). split; [exact X1|]. split; [|auto].
        intros [<-|H]; [|contradiction]. assert (t' = t) by (eapply O4; eauto). contradiction.
      + intros t1 t2 r' nx1 nx2. unfold fn. destruct (Nat.eqb_spec t1 t) as [->|], (Nat.eqb_spec t2 t) as [->|]; cbn; auto; try discriminate. apply O4.
      + intros t' r'. unfold fn. destruct (Nat.eqb_spec t' t) as [->|]; cbn; apply O5.
    - eapply JK_frame with (g := g) (a := a); eauto. intros t'. cbn. unfold fn. destruct (Nat.eqb_spec t' t) as [->|]; auto.
    - eapply JR_frame with (g := g) (a := a); eauto.
      + intros t'. cbn. unfold fn. destruct (Nat.eqb_spec t' t) as [->|]; auto.
      + intros t' r'. cbn. unfold fn. destruct (Nat.eqb_spec t' t) as [->|]; auto.
    - apply JW_view with (t := t) (a := a); cbn [aux_pushed bvs wh rch rw moved tl]; auto.
      all: try rewrite !fn_same; auto.
      + intros t' N. now rewrite fn_other.
      + apply incl_tl, incl_refl.
      + cbn. intros r0 nx0 E. discriminate.
      + cbn. intros r0 nx0 E. right. rewrite Hn in E. inversion E; subst. now left.
      + eapply JW_frame with (g := g) (a := a); eauto.
  Qed.
End StepsB2.
