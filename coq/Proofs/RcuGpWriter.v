(** * RcuGp: steps of synchronize (lock, the two flip_and_wait, unlock) and the marker events. *)
From Coq Require Import ZArith List String Bool Lia PeanoNat.
From LV Require Import Base.Conc Base.Events Model.RcuGp Proofs.RcuBits Proofs.RcuGpInv Proofs.RcuGpSteps.
Import ListNotations.
Local Open Scope string_scope.
Local Open Scope list_scope.
Local Open Scope Z_scope.

(** thread [w] changes its writer state (and possibly its marks); reader fields are untouched *)
Lemma InvW_writer' a w l' n n' :
  l_rec l' = l_rec (a w) -> l_ph l' = l_ph (a w) -> l_cs l' = l_cs (a w) ->
  (n <= n')%nat -> InvW a n -> wclause a (l_w l') -> (forall i, widx (l_w l') = Some i -> (i <= n')%nat) ->
  InvW (updA a w l') n'.
Proof.
  intros E1 E2 E3 Hn [B C] Hc Hb.
  assert (E : forall r, l_rec (updA a w l' r) = l_rec (a r) /\ l_ph (updA a w l' r) = l_ph (a r) /\
                        l_cs (updA a w l' r) = l_cs (a r)).
  { intros r. upd_cases r w; auto. }
  assert (M : forall s, wclause a s -> wclause (updA a w l') s).
  { intros s. apply wclause_mono. intros r i _ Ho. destruct (E r) as (A1 & A2 & A3).
    split; [|auto]. destruct Ho as (s0 & Hs & Hl). exists s0. rewrite <- A3. auto. }
  constructor.
  - intros x i. upd_cases x w.
    + apply Hb.
    + intros Hx. specialize (B x i Hx). lia.
  - intros x. upd_cases x w.
    + apply M. exact Hc.
    + apply M. apply C.
Qed.

Lemma InvLock_writer g g' a w l' b' :
  InvLock g a ->
  (holder (l_w l') -> g_lock g' = true) ->
  (holder (l_w l') -> forall w', w' <> w -> ~ holder (l_w (a w'))) ->
  (forall w', w' <> w -> holder (l_w (a w')) -> g_lock g' = true) ->
  g_ctl g' = mkw b' 1 ->
  (forall i k gph pos, l_w l' = WPhase i k gph pos -> gph = b') ->
  (forall w' i k gph pos, w' <> w -> l_w (a w') = WPhase i k gph pos -> gph = b') ->
  InvLock g' (updA a w l').
Proof.
  intros [K1 K2 K3] H1 H2 H3 H4 H5 H6. constructor.
  - intros x. upd_cases x w; [exact H1|]. intros Hh. apply (H3 x); auto.
  - intros x y. upd_cases x w; upd_cases y w; auto.
    + intros Hx Hy. exfalso. eapply (H2 Hx y); eauto.
    + intros Hx Hy. exfalso. eapply (H2 Hy x); eauto.
  - exists b'. split; [exact H4|]. intros x i k gph pos. upd_cases x w; [apply H5|]. intros Hx. eapply H6; eauto.
Qed.

(** a step of a thread that holds the lock neither before nor after and is in no flip phase *)
Lemma InvLock_nonholder g a w l' :
  InvLock g a -> ~ holder (l_w (a w)) -> ~ holder (l_w l') -> InvLock g (updA a w l').
Proof.
  intros IL Hn Hn'. pose proof IL as [K1 K2 (b & Hb & K3)].
  apply InvLock_writer with (g := g) (b' := b).
  - exact IL.
  - intros X; contradiction.
  - intros X; contradiction.
  - intros w' _ X. apply (K1 w' X).
  - exact Hb.
  - intros i k gph pos E. rewrite E in Hn'. exfalso; apply Hn'; exact I.
  - intros w' i k gph pos _ E. eapply K3; eauto.
Qed.

Lemma old_attached g a i r : InvRec g a -> old a i r -> exists m, l_rec (a r) = Some m /\ (0 < l_depth (a r))%nat.
Proof.
  intros I (s & Hs & _). destruct (RD _ _ I r) as (D1 & D2 & D3).
  assert (l_ev (a r) <> O) by (intros X; apply D2 in X; congruence).
  destruct (l_rec (a r)) as [m|] eqn:E; [exists m; split; [reflexivity|lia]|]. specialize (D3 eq_refl). lia.
Qed.

(** ** the lock *)
Lemma step_lock_acquire g a tr t i :
  Inv g a tr -> l_w (a t) = WStart i -> g_lock g = false ->
  Inv (set_lock g true) (updA a t (set_w (a t) (WHeld0 i))) (tr ++ [(t, EvAcc KXchg obj_lock true)]).
Proof.
  intros (I1 & I2 & I3 & I4) Hw Hl. inv_split.
  - eapply InvRec_ext; [| | | | |exact I1]; auto. same_fields t.
  - pose proof I2 as [K1 K2 (b & Hb & K3)].
    assert (NH : forall w', ~ holder (l_w (a w'))) by (intros w' X; apply K1 in X; congruence).
    apply InvLock_writer with (g := g) (b' := b); cbn.
    + exact I2.
    + reflexivity.
    + intros _ w' _. apply NH.
    + intros w' _ X. exfalso; eapply NH; eauto.
    + exact Hb.
    + discriminate.
    + intros w' i0 k gph pos _ E. eapply K3; eauto.
  - rewrite app_len1. apply InvW_writer with (n := List.length tr); [lia|exact I3|exact I|].
    cbn. intros i0 E; inversion E; subst i0. pose proof (WB _ _ I3 t i) as X. rewrite Hw in X. specialize (X eq_refl). lia.
  - eapply Inv_trace_part; [|exact I4]. same_fields t.
Qed.

Lemma step_lock_fail g a tr t :
  Inv g a tr -> g_lock g = true -> Inv (set_lock g true) a (tr ++ [(t, EvAcc KXchg obj_lock true)]).
Proof. intros IH H. eapply Inv_acc; [| | | | | |exact IH]; cbn; auto. Qed.

(** ** flips *)
Lemma step_flip1 g a tr t i b :
  Inv g a tr -> l_w (a t) = WHeld0 i -> g_ctl g = mkw b 1 ->
  Inv (set_ctl g (Z.lxor (g_ctl g) c_nControlBit)) (updA a t (set_w (a t) (WPhase i false (negb b) PFlipped)))
      (tr ++ [(t, EvAcc KFxor obj_ctl true)]).
Proof.
  intros (I1 & I2 & I3 & I4) Hw Hc. inv_split.
  - eapply InvRec_ext; [| | | | |exact I1]; auto. same_fields t.
  - pose proof I2 as [K1 K2 (b0 & Hb & K3)].
    assert (Ht : holder (l_w (a t))) by (rewrite Hw; exact I).
    apply InvLock_writer with (g := g) (b' := negb b); cbn.
    + exact I2.
    + intros _. apply (K1 t Ht).
    + intros _ w' Hne X. apply Hne. eapply K2; eauto.
    + intros w' _ X. apply (K1 w' X).
    + rewrite Hc. apply lxor_mkw_bit. unfold two31; lia.
    + intros i0 k gph pos E; inversion E; reflexivity.
    + intros w' i0 k gph pos Hne E. exfalso. apply Hne. eapply K2; eauto. rewrite E; exact I.
  - rewrite app_len1. apply InvW_writer with (n := List.length tr); [lia|exact I3|exact I|].
    cbn. intros i0 E; inversion E; subst i0. pose proof (WB _ _ I3 t i) as X. rewrite Hw in X. specialize (X eq_refl). lia.
  - eapply Inv_trace_part; [|exact I4]. same_fields t.
Qed.

Lemma step_flip2 g a tr t i gph done :
  Inv g a tr -> l_w (a t) = WPhase i false gph (PScan done [] L0) ->
  Inv (set_ctl g (Z.lxor (g_ctl g) c_nControlBit)) (updA a t (set_w (a t) (WPhase i true (negb gph) PFlipped)))
      (tr ++ [(t, EvAcc KFxor obj_ctl true)]).
Proof.
  intros (I1 & I2 & I3 & I4) Hw. inv_split.
  - eapply InvRec_ext; [| | | | |exact I1]; auto. same_fields t.
  - pose proof I2 as [K1 K2 (b0 & Hb & K3)].
    assert (Ht : holder (l_w (a t))) by (rewrite Hw; exact I).
    assert (gph = b0) by (eapply K3; eauto). subst b0.
    apply InvLock_writer with (g := g) (b' := negb gph); cbn.
    + exact I2.
    + intros _. apply (K1 t Ht).
    + intros _ w' Hne X. apply Hne. eapply K2; eauto.
    + intros w' _ X. apply (K1 w' X).
    + rewrite Hb. apply lxor_mkw_bit. unfold two31; lia.
    + intros i0 k gph0 pos E; inversion E; reflexivity.
    + intros w' i0 k gph0 pos Hne E. exfalso. apply Hne. eapply K2; eauto. rewrite E; exact I.
  - rewrite app_len1. apply InvW_writer with (n := List.length tr); [lia|exact I3| |].
    + cbn. intros r Ho. rewrite negb_involutive.
      pose proof (WC _ _ I3 t) as C. rewrite Hw in C. cbn in C.
      destruct (old_attached _ _ _ _ I1 Ho) as (m & Hm & _).
      destruct (C r m Ho Hm) as ([X|[]] & Y & _). apply Y; exact X.
    + cbn. intros i0 E; inversion E; subst i0. pose proof (WB _ _ I3 t i) as X. rewrite Hw in X. specialize (X eq_refl). lia.
  - eapply Inv_trace_part; [|exact I4]. same_fields t.
Qed.

(** the head load of flip_and_wait *)
Lemma step_scan_head g a tr t i k gph :
  Inv g a tr -> l_w (a t) = WPhase i k gph PFlipped ->
  Inv g (updA a t (set_w (a t) (WPhase i k gph (PScan [] (g_list g) L0)))) (tr ++ [(t, EvAcc KLd obj_head true)]).
Proof.
  intros (I1 & I2 & I3 & I4) Hw. inv_split.
  - eapply InvRec_ext; [| | | | |exact I1]; auto. same_fields t.
  - pose proof I2 as [K1 K2 (b0 & Hb & K3)].
    assert (Ht : holder (l_w (a t))) by (rewrite Hw; exact I).
    assert (gph = b0) by (eapply K3; eauto). subst b0.
    apply InvLock_writer with (g := g) (b' := gph); cbn.
    + exact I2.
    + intros _. apply (K1 t Ht).
    + intros _ w' Hne X. apply Hne. eapply K2; eauto.
    + intros w' _ X. apply (K1 w' X).
    + exact Hb.
    + intros i0 k0 gph0 pos E; inversion E; reflexivity.
    + intros w' i0 k0 gph0 pos Hne E. eapply K3; eauto.
  - rewrite app_len1. apply InvW_writer with (n := List.length tr); [lia|exact I3| |].
    + pose proof (WC _ _ I3 t) as C. rewrite Hw in C. destruct k; cbn in *.
      * intros r m Ho Hm. split; [apply C; exact Ho|]. split; [|exact I]. apply (RA _ _ I1 r m Hm).
      * intros r m Ho Hm. split; [right; apply (RA _ _ I1 r m Hm)|]. split; [intros []|exact I].
    + cbn. intros i0 E; inversion E; subst i0. pose proof (WB _ _ I3 t i) as X. rewrite Hw in X. specialize (X eq_refl). lia.
  - eapply Inv_trace_part; [|exact I4]. same_fields t.
Qed.

(** ** the wait loop on one record *)

(** generic change of the scan position of the lock holder: shared state untouched *)
Lemma step_scan_pos g a tr t i k gph pos pos' o :
  Inv g a tr -> l_w (a t) = WPhase i k gph pos ->
  wclause a (WPhase i k gph pos') ->
  Inv g (updA a t (set_w (a t) (WPhase i k gph pos'))) (tr ++ [(t, EvAcc KLd o true)]).
Proof.
  intros (I1 & I2 & I3 & I4) Hw Hc. inv_split.
  - eapply InvRec_ext; [| | | | |exact I1]; auto. same_fields t.
  - pose proof I2 as [K1 K2 (b0 & Hb & K3)].
    assert (Ht : holder (l_w (a t))) by (rewrite Hw; exact I).
    assert (gph = b0) by (eapply K3; eauto). subst b0.
    apply InvLock_writer with (g := g) (b' := gph); cbn.
    + exact I2.
    + intros _. apply (K1 t Ht).
    + intros _ w' Hne X. apply Hne. eapply K2; eauto.
    + intros w' _ X. apply (K1 w' X).
    + exact Hb.
    + intros i0 k0 gph0 p0 E; inversion E; reflexivity.
    + intros w' i0 k0 gph0 p0 Hne E. eapply K3; eauto.
  - rewrite app_len1. apply InvW_writer with (n := List.length tr); [lia|exact I3|exact Hc|].
    cbn. intros i0 E; inversion E; subst i0. pose proof (WB _ _ I3 t i) as X. rewrite Hw in X. specialize (X eq_refl). lia.
  - eapply Inv_trace_part; [|exact I4]. same_fields t.
Qed.

(** the record under the cursor can be passed when every old reader owning it has the phase the first scan may
    leave behind (and there is none in the second scan) *)
Lemma wclause_pass a i k gph done cur rest ld :
  wclause a (WPhase i k gph (PScan done (cur :: rest) ld)) ->
  (forall r, old a i r -> l_rec (a r) = Some cur -> k = false /\ l_ph (a r) = gph) ->
  wclause a (WPhase i k gph (PScan (cur :: done) rest L0)).
Proof.
  intros C H. destruct k; cbn in *.
  - intros r m Ho Hm. destruct (C r m Ho Hm) as (C1 & C2 & _). split; [exact C1|]. split; [|exact I].
    destruct C2 as [<-|C2]; [|exact C2]. destruct (H r Ho Hm) as (X & _). discriminate.
  - intros r m Ho Hm. destruct (C r m Ho Hm) as (C1 & C2 & _). split; [|split; [|exact I]].
    + destruct C1 as [C1|[<-|C1]]; [left; right; exact C1|left; left; reflexivity|right; exact C1].
    + intros [<-|X]; [apply (H r Ho Hm)|apply C2; exact X].
Qed.

Lemma wclause_forget a i k gph done todo ld :
  wclause a (WPhase i k gph (PScan done todo ld)) -> wclause a (WPhase i k gph (PScan done todo L0)).
Proof.
  intros C. destruct k; cbn in *; intros r m Ho Hm; destruct (C r m Ho Hm) as (C1 & C2 & _); repeat split; auto.
Qed.

(** thread_id_ load that returned null *)
Lemma wclause_pass_tid g a i k gph done cur rest ld :
  InvRec g a -> g_tid g cur = 0 ->
  wclause a (WPhase i k gph (PScan done (cur :: rest) ld)) -> wclause a (WPhase i k gph (PScan (cur :: done) rest L0)).
Proof.
  intros I Ht C. apply wclause_pass with (ld := ld); [exact C|].
  intros r _ Hm. destruct (RA _ _ I r cur Hm) as (_ & X & _). contradiction.
Qed.

(** m_nAccessControl load with nest = 0 *)
Lemma wclause_pass_nest g a i k gph done cur rest ld :
  InvRec g a -> nest (g_acc g cur) = 0 ->
  wclause a (WPhase i k gph (PScan done (cur :: rest) ld)) -> wclause a (WPhase i k gph (PScan (cur :: done) rest L0)).
Proof.
  intros I Hn C. apply wclause_pass with (ld := ld); [exact C|].
  intros r Ho Hm. exfalso. destruct (old_attached _ _ _ _ I Ho) as (m & Hm' & Hd).
  destruct (RA _ _ I r cur Hm) as (_ & _ & X & Y). rewrite X, nest_mkw in Hn by lia. lia.
Qed.

(** m_nAccessControl load with nest <> 0: remember the value *)
Lemma wclause_load g a i k gph done cur rest :
  InvRec g a ->
  wclause a (WPhase i k gph (PScan done (cur :: rest) L0)) ->
  wclause a (WPhase i k gph (PScan done (cur :: rest) (L2 (g_acc g cur)))).
Proof.
  intros I C.
  assert (F : forall r, old a i r -> l_rec (a r) = Some cur -> ldfact (L2 (g_acc g cur)) (cur :: rest) cur (l_ph (a r))).
  { intros r Ho Hm _. destruct (old_attached _ _ _ _ I Ho) as (m & Hm' & Hd).
    destruct (RA _ _ I r cur Hm) as (_ & _ & X & Y). exists (Z.of_nat (l_depth (a r))). split; [lia|exact X]. }
  destruct k; cbn in *; intros r m Ho Hm; destruct (C r m Ho Hm) as (C1 & C2 & _); (split; [exact C1|]); (split; [exact C2|]);
    intros ->; apply (F r Ho Hm); reflexivity.
Qed.

(** m_nGlobalControl load: phases equal, the record is passed *)
Lemma wclause_pass_phase a i k gph done cur rest v :
  phase_differs v (mkw gph 1) = false ->
  wclause a (WPhase i k gph (PScan done (cur :: rest) (L2 v))) -> wclause a (WPhase i k gph (PScan (cur :: done) rest L0)).
Proof.
  intros Hp C. apply wclause_pass with (ld := L2 v); [exact C|].
  intros r Ho Hm.
  assert (X : exists n, 0 < n < two31 /\ v = mkw (l_ph (a r)) n /\ (k = true -> l_ph (a r) = negb gph)).
  { destruct k; cbn in C; destruct (C r cur Ho Hm) as (C1 & C2 & C3); destruct (C3 eq_refl) as (n & Hn & Hv);
      exists n; (split; [exact Hn|]); (split; [exact Hv|]); [intros _; exact C1|discriminate]. }
  destruct X as (n & Hn & Hv & Hk). subst v. rewrite phase_differs_mkw in Hp by (unfold two31 in *; lia).
  destruct k.
  - rewrite (Hk eq_refl) in Hp. destruct gph; discriminate.
  - split; [reflexivity|]. destruct (l_ph (a r)), gph; try reflexivity; discriminate.
Qed.

(** ** unlock *)
Lemma step_unlock g a tr t i gph done :
  Inv g a tr -> l_w (a t) = WPhase i true gph (PScan done [] L0) ->
  Inv (set_lock g false) (updA a t (set_w (a t) (WFin i))) (tr ++ [(t, EvAcc KSt obj_lock true)]).
Proof.
  intros (I1 & I2 & I3 & I4) Hw. inv_split.
  - eapply InvRec_ext; [| | | | |exact I1]; auto. same_fields t.
  - pose proof I2 as [K1 K2 (b0 & Hb & K3)].
    assert (Ht : holder (l_w (a t))) by (rewrite Hw; exact I).
    apply InvLock_writer with (g := g) (b' := b0); cbn.
    + exact I2.
    + intros [].
    + intros [].
    + intros w' Hne X. exfalso. apply Hne. eapply K2; eauto.
    + exact Hb.
    + discriminate.
    + intros w' i0 k0 gph0 p0 Hne E. eapply K3; eauto.
  - rewrite app_len1. apply InvW_writer with (n := List.length tr); [lia|exact I3| |].
    + cbn. intros r Ho. pose proof (WC _ _ I3 t) as C. rewrite Hw in C. cbn in C.
      destruct (old_attached _ _ _ _ I1 Ho) as (m & Hm & _). destruct (C r m Ho Hm) as (_ & [] & _).
    + cbn. intros i0 E; inversion E; subst i0. pose proof (WB _ _ I3 t i) as X. rewrite Hw in X. specialize (X eq_refl). lia.
  - eapply Inv_trace_part; [|exact I4]. same_fields t.
Qed.

(** ** marker events *)
Lemma cli_name_neq name name' args d :
  String.eqb name name' = false -> cli_is name' d (EvCli name args) = false.
Proof. intros H. unfold cli_is. destruct args; [reflexivity|]. rewrite H. reflexivity. Qed.

(** begin marker: "sync_begin" or "retire p" *)
Lemma step_ev_begin g a tr t e l' :
  Inv g a tr -> ~ holder (l_w (a t)) ->
  is_rlock1 e = false -> is_runlock0 e = false -> is_sync_end e = false -> is_any_dispose e = false ->
  rfields l' = rfields (a t) -> l_w l' = WStart (List.length tr) ->
  (is_sync_begin e = true /\ l_sm l' = Some (List.length tr) /\ l_rm l' = l_rm (a t) \/
   is_sync_begin e = false /\ l_sm l' = l_sm (a t) /\ exists p, is_retire p e = true /\ l_rm l' = Some (List.length tr, p)) ->
  Inv g (updA a t l') (tr ++ [(t, e)]).
Proof.
  intros (I1 & I2 & I3 & I4) Hw N1 N2 N4 N5 Hr Hw' Hcase.
  assert (F : l_rec l' = l_rec (a t) /\ l_ph l' = l_ph (a t) /\ l_cs l' = l_cs (a t)).
  { unfold rfields in Hr. inversion Hr. auto. }
  destruct F as (F1 & F2 & F3).
  inv_split.
  - eapply InvRec_ext; [| | | | |exact I1]; auto. intros x. upd_cases x t; auto.
  - apply InvLock_nonholder; [exact I2|exact Hw|rewrite Hw'; intros []].
  - rewrite app_len1. apply InvW_writer' with (n := List.length tr); auto; rewrite Hw'; [exact I|]. cbn. intros i E; inversion E; lia.
  - destruct I4 as [T3 T4 TM0 TR0 SW0 DS0]. constructor.
    + intros r s. upd_cases r t; [rewrite F3|]; intros Hc; destruct (T3 _ s Hc) as (A & B); (split; [apply at_app_l; exact A|]);
        intros b Hb Hat; (destruct (at_snoc_inv _ _ _ _ _ _ Hat) as [Hat'|(_ & _ & X)]; [eapply B; eauto|congruence]).
    + intros r s Hat. destruct (at_snoc_inv _ _ _ _ _ _ Hat) as [Hat'|(_ & _ & X)]; [|congruence].
      assert (Ecs : l_cs (updA a t l' r) = l_cs (a r)) by (upd_cases r t; auto). rewrite Ecs.
      destruct (T4 r s Hat') as [A|(b & Hb & Hrb & Hs)]; [left; exact A|].
      right. exists b. split; [exact Hb|]. split; [apply at_app_l; exact Hrb|exact Hs].
    + intros w i. upd_cases w t.
      * destruct Hcase as [(S1 & S2 & _)|(S1 & S2 & _)].
        -- rewrite S2. intros E; inversion E; subst i. split; [apply at_snoc_last; exact S1|].
           intros k Hk Hat. apply at_lt in Hat. rewrite app_len1 in Hat. lia.
        -- rewrite S2. intros Hc. destruct (TM0 _ i Hc) as (A & B). split; [apply at_app_l; exact A|].
           intros k Hk Hat. destruct (at_snoc_inv _ _ _ _ _ _ Hat) as [Hat'|(_ & _ & X)]; [eapply B; eauto|congruence].
      * intros Hc. destruct (TM0 _ i Hc) as (A & B). split; [apply at_app_l; exact A|].
        intros k Hk Hat. destruct (at_snoc_inv _ _ _ _ _ _ Hat) as [Hat'|(_ & X & _)]; [eapply B; eauto|congruence].
    + intros w i p. upd_cases w t.
      * destruct Hcase as [(S1 & S2 & S3)|(S1 & S2 & p0 & S3 & S4)].
        -- rewrite S3. intros Hc. apply at_app_l. eapply TR0; eauto.
        -- rewrite S4. intros E; inversion E; subst i p. apply at_snoc_last; exact S3.
      * intros Hc. apply at_app_l. eapply TR0; eauto.
    + apply sync_waits_snoc; assumption.
    + apply dispose_safe_snoc; assumption.
Qed.

(** the runlock 0 event that closes a section open at [i] lies after [i] *)
Lemma old_reader_left a tr r s i t0 P :
  InvT a tr -> (forall r', ~ old a i r') -> open_at tr r s i -> at_ tr i t0 P ->
  (forall e, P e = true -> is_runlock0 e = true -> False) ->
  exists b, (i < b < List.length tr)%nat /\ at_ tr b r is_runlock0.
Proof.
  intros I Hno (H1 & H2 & H3) Hi Hex.
  destruct (T2 _ _ I r s H1) as [A|(b & Hb & Hrb & _)].
  - exfalso. apply (Hno r). exists s. auto.
  - exists b. split; [|exact Hrb]. split; [|eapply at_lt; eauto].
    destruct (Nat.lt_trichotomy b i) as [X|[X|X]]; [exfalso; apply (H3 b); [lia|exact Hrb]| |exact X].
    subst b. exfalso. eapply at_excl; [exact Hi|exact Hrb|]. exact Hex.
Qed.

(** "sync_end" *)
Lemma step_ev_sync_end g a tr t i i' :
  Inv g a tr -> l_w (a t) = WFin i' -> l_sm (a t) = Some i -> (i <= i')%nat ->
  Inv g (updA a t (set_w (a t) WIdle)) (tr ++ [(t, EvCli "sync_end" [])]).
Proof.
  intros (I1 & I2 & I3 & I4) Hw Hsm Hii. inv_split.
  - eapply InvRec_ext; [| | | | |exact I1]; auto. same_fields t.
  - apply InvLock_nonholder; [exact I2|rewrite Hw; intros []|intros []].
  - rewrite app_len1. apply InvW_writer with (n := List.length tr); [lia|exact I3|exact I|]. cbn. discriminate.
  - pose proof (WC _ _ I3 t) as C0. rewrite Hw in C0. cbn in C0.
    assert (C : forall r, ~ old a i r).
    { intros r (s & Hs & Hl). apply (C0 r). exists s. split; [exact Hs|lia]. }
    destruct (TM _ _ I4 t i Hsm) as (M1 & M2).
    assert (I4' := I4). destruct I4 as [T3 T4 TM0 TR0 SW0 DS0]. constructor.
    + intros r s. upd_cases r t; cbn; intros Hc; destruct (T3 _ s Hc) as (A & B); (split; [apply at_app_l; exact A|]);
        intros b Hb Hat; (destruct (at_snoc_inv _ _ _ _ _ _ Hat) as [Hat'|(_ & _ & X)]; [eapply B; eauto|discriminate]).
    + intros r s Hat. destruct (at_snoc_inv _ _ _ _ _ _ Hat) as [Hat'|(_ & _ & X)]; [|discriminate].
      assert (Ecs : l_cs (updA a t (set_w (a t) WIdle) r) = l_cs (a r)) by (upd_cases r t; auto). rewrite Ecs.
      destruct (T4 r s Hat') as [A|(b & Hb & Hrb & Hs)]; [left; exact A|].
      right. exists b. split; [exact Hb|]. split; [apply at_app_l; exact Hrb|exact Hs].
    + intros w j. upd_cases w t; cbn; intros Hc; destruct (TM0 _ j Hc) as (A & B); (split; [apply at_app_l; exact A|]);
        intros k Hk Hat; (destruct (at_snoc_inv _ _ _ _ _ _ Hat) as [Hat'|(_ & _ & X)]; [eapply B; eauto|discriminate]).
    + intros w j p. upd_cases w t; cbn; intros Hc; apply at_app_l; eapply TR0; eauto.
    + intros w i0 j Hi Hj Hij Hno r s Ho.
      destruct (at_snoc_inv _ _ _ _ _ _ Hj) as [Hj'|(-> & -> & _)].
      * pose proof (at_lt _ _ _ _ Hj') as Lj.
        assert (Hi' : at_ tr i0 w is_sync_begin) by (eapply at_app_inv; eauto; lia).
        destruct (SW0 w i0 j Hi' Hj' Hij) with (r := r) (s := s) as (b & Hb & Hat).
        -- intros k Hk Hat. apply (Hno k Hk). apply at_app_l; exact Hat.
        -- eapply open_at_app_inv; eauto. lia.
        -- exists b. split; [exact Hb|]. apply at_app_l; exact Hat.
      * assert (Hi' : at_ tr i0 t is_sync_begin) by (eapply at_app_inv; eauto).
        assert (i0 = i).
        { destruct (Nat.lt_trichotomy i0 i) as [X|[X|X]]; [|exact X|].
          - exfalso. apply (Hno i); [split; [exact X|eapply at_lt; eauto]|apply at_app_l; exact M1].
          - exfalso. eapply M2; eauto. }
        subst i0. apply open_at_app_inv in Ho; [|lia].
        destruct (old_reader_left a tr r s i t is_sync_begin I4' C Ho M1) as (b & Hb & Hat).
        -- intros e E1 E2. unfold is_sync_begin, is_cli, is_runlock0, cli_is in *. destruct e as [|n [|x l]]; try discriminate.
           apply andb_prop in E2. destruct E2 as (E2 & _). apply String.eqb_eq in E1, E2. congruence.
        -- exists b. split; [exact Hb|]. apply at_app_l; exact Hat.
    + apply dispose_safe_snoc; [reflexivity|assumption].
Qed.

(** "dispose p" after a grace period that began at the "retire p" event *)
Lemma step_ev_dispose g a tr t i p :
  Inv g a tr -> l_w (a t) = WFin i -> l_rm (a t) = Some (i, p) ->
  Inv g (updA a t (set_w (a t) WIdle)) (tr ++ [(t, EvCli "dispose" [p])]).
Proof.
  intros (I1 & I2 & I3 & I4) Hw Hrm. inv_split.
  - eapply InvRec_ext; [| | | | |exact I1]; auto. same_fields t.
  - apply InvLock_nonholder; [exact I2|rewrite Hw; intros []|intros []].
  - rewrite app_len1. apply InvW_writer with (n := List.length tr); [lia|exact I3|exact I|]. cbn. discriminate.
  - pose proof (WC _ _ I3 t) as C. rewrite Hw in C. cbn in C.
    pose proof (TR _ _ I4 t i p Hrm) as M1.
    assert (I4' := I4). destruct I4 as [T3 T4 TM0 TR0 SW0 DS0]. constructor.
    + intros r s. upd_cases r t; cbn; intros Hc; destruct (T3 _ s Hc) as (A & B); (split; [apply at_app_l; exact A|]);
        intros b Hb Hat; (destruct (at_snoc_inv _ _ _ _ _ _ Hat) as [Hat'|(_ & _ & X)]; [eapply B; eauto|discriminate]).
    + intros r s Hat. destruct (at_snoc_inv _ _ _ _ _ _ Hat) as [Hat'|(_ & _ & X)]; [|discriminate].
      assert (Ecs : l_cs (updA a t (set_w (a t) WIdle) r) = l_cs (a r)) by (upd_cases r t; auto). rewrite Ecs.
      destruct (T4 r s Hat') as [A|(b & Hb & Hrb & Hs)]; [left; exact A|].
      right. exists b. split; [exact Hb|]. split; [apply at_app_l; exact Hrb|exact Hs].
    + intros w j. upd_cases w t; cbn; intros Hc; destruct (TM0 _ j Hc) as (A & B); (split; [apply at_app_l; exact A|]);
        intros k Hk Hat; (destruct (at_snoc_inv _ _ _ _ _ _ Hat) as [Hat'|(_ & _ & X)]; [eapply B; eauto|discriminate]).
    + intros w j q. upd_cases w t; cbn; intros Hc; apply at_app_l; eapply TR0; eauto.
    + apply sync_waits_snoc; [reflexivity|assumption].
    + intros w q d Hd.
      destruct (at_snoc_inv _ _ _ _ _ _ Hd) as [Hd'|(-> & -> & X)].
      * pose proof (at_lt _ _ _ _ Hd') as Ld.
        destruct (DS0 w q d Hd') as (k & w' & Hk & Hr & Hall). exists k, w'. split; [exact Hk|]. split; [apply at_app_l; exact Hr|].
        intros r s Ho. destruct (Hall r s) as (b & Hb & Hat).
        -- eapply open_at_app_inv; eauto. lia.
        -- exists b. split; [exact Hb|]. apply at_app_l; exact Hat.
      * assert (q = p).
        { unfold is_dispose, cli_is in X. cbn in X. apply Z.eqb_eq in X. auto. }
        subst q. exists i, t. pose proof (at_lt _ _ _ _ M1) as Li. split; [exact Li|]. split; [apply at_app_l; exact M1|].
        intros r s Ho. apply open_at_app_inv in Ho; [|lia].
        destruct (old_reader_left a tr r s i t (is_retire p) I4' C Ho M1) as (b & Hb & Hat).
        -- intros e E1 E2. unfold is_retire, is_runlock0, cli_is in *. destruct e as [|n [|x l]]; try discriminate.
           apply andb_prop in E1, E2. destruct E1 as (E1 & _), E2 as (E2 & _). apply String.eqb_eq in E1, E2. congruence.
        -- exists b. split; [exact Hb|]. apply at_app_l; exact Hat.
Qed.
