(** * Sequential specification of the intrusive lock-based sets of C16 and the history of a model trace.

    [ISet] is a sequential set of _items_ (key, owner of the node object), at most one item per key: it is the
    sequential set "over the same keys" of the property, refined so that [unlink( item )] has a meaning
    (it removes the item stored under the key only if it is the caller's own node, as the C++ says).
    Forgetting the owners gives [LV.Spec.Specs.SetSpec] for insert / update / erase / contains. *)
From Coq Require Import ZArith List String Bool Lia PeanoNat.
From LV Require Import Base.Conc Base.Events Base.Lin Spec.Specs Proofs.LinProofs.
From LV Require Model.StripingPolicy.
Import ListNotations.
Local Open Scope nat_scope.


Notation item := StripingPolicy.item.
Definition khas (k : nat) (s : list item) : bool := existsb (fun x => Nat.eqb (fst x) k) s.
Definition kget (k : nat) (s : list item) : option item := find (fun x => Nat.eqb (fst x) k) s.
Definition kdel (k : nat) (s : list item) : list item := filter (fun x => negb (Nat.eqb (fst x) k)) s.

Inductive iop :=
| IInsert (k o : nat)
| IUpdate (k o : nat) (allow : bool)
| IUnlink (k o : nat)
| IErase (k : nat)
| IFind (k : nat).

Definition istep (s : list item) (op : iop) : list item * res :=
  match op with
  | IInsert k o => if khas k s then (s, RBool false) else ((k, o) :: s, RBool true)
  | IUpdate k o allow =>
      if khas k s then (s, RPair true false)
      else if allow then ((k, o) :: s, RPair true true) else (s, RPair false false)
  | IUnlink k o =>
      match kget k s with
      | Some x => if Nat.eqb (snd x) o then (kdel k s, RBool true) else (s, RBool false)
      | None => (s, RBool false)
      end
  | IErase k => if khas k s then (kdel k s, RBool true) else (s, RBool false)
  | IFind k => (s, RBool (khas k s))
  end.

Definition ISet : Spec := mkSpec [] istep.

(** ** the history of a trace: "inv" [c; k; a; b] by thread t is the invocation of the operation with code c
       (the item an intrusive operation passes is the thread's own node for that key), "ret" [c; r1; r2] its
       response *)
Definition iop_of (c k t b : nat) : option iop :=
  match c with
  | 1 | 2 | 9 | 14 => Some (IInsert k t)
  | 3 => Some (IUpdate k t (negb (Nat.eqb b 0)))
  | 4 => Some (IUnlink k t)
  | 5 | 6 | 10 | 13 => Some (IErase k)
  | 7 | 8 | 11 | 12 => Some (IFind k)
  | _ => None
  end.

Definition n2b (n : nat) : bool := negb (Nat.eqb n 0).

Definition res_of (c r1 r2 : nat) : res :=
  match c with
  | 3 => RPair (n2b r1) (n2b r2)
  | _ => RBool (n2b r1)
  end.

Definition z2n (z : Z) : nat := Z.to_nat z.

Definition hev_of (te : nat * ev) : list (hev ISet) :=
  match te with
  | (t, EvCli name args) =>
      if String.eqb name "inv"%string then
        match args with
        | [c; k; _; b] => match iop_of (z2n c) (z2n k) t (z2n b) with Some o => [@HInv ISet t o] | None => [] end
        | _ => []
        end
      else if String.eqb name "ret"%string then
        match args with
        | [c; r1; r2] => [@HRes ISet t (res_of (z2n c) (z2n r1) (z2n r2))]
        | _ => []
        end
      else []
  | _ => []
  end.

Definition hist_of (tr : list (nat * ev)) : history ISet := flat_map hev_of tr.

Lemma hist_of_app tr tr' : hist_of (tr ++ tr') = hist_of tr ++ hist_of tr'.
Proof. unfold hist_of. apply flat_map_app. Qed.

Lemma hist_of_acc tr t k o ok : hist_of (tr ++ Conc.tag t [EvAcc k o ok]) = hist_of tr.
Proof. rewrite hist_of_app. cbn. now rewrite app_nil_r. Qed.

(** ** key-indexed facts about item lists *)
Definition keys (s : list item) : list nat := map fst s.

Lemma khas_true k s : khas k s = true <-> exists o, In (k, o) s.
Proof.
  unfold khas. rewrite existsb_exists. split.
  - intros ([k' o] & Hin & E). cbn in E. apply Nat.eqb_eq in E. subst. eauto.
  - intros (o & Hin). exists (k, o). split; auto. cbn. apply Nat.eqb_refl.
Qed.

Lemma khas_false k s : khas k s = false <-> forall o, ~ In (k, o) s.
Proof.
  split.
  - intros H o Hin. assert (khas k s = true) by (apply khas_true; eauto). congruence.
  - intros H. destruct (khas k s) eqn:E; auto. apply khas_true in E. destruct E as (o & Hin). exfalso; eapply H; eauto.
Qed.

Lemma khas_in_keys k s : khas k s = true <-> In k (keys s).
Proof.
  rewrite khas_true. unfold keys. rewrite in_map_iff. split.
  - intros (o & H). exists (k, o); auto.
  - intros ([k' o] & E & H). cbn in E. subst. eauto.
Qed.

Lemma kget_some k s x : kget k s = Some x -> In x s /\ fst x = k.
Proof. unfold kget. intros H. apply find_some in H. destruct H as [H1 H2]. apply Nat.eqb_eq in H2. auto. Qed.

Lemma kget_none k s : kget k s = None <-> khas k s = false.
Proof.
  unfold kget, khas. split.
  - intros H. destruct (existsb (fun x => Nat.eqb (fst x) k) s) eqn:E; auto. apply existsb_exists in E. destruct E as (x & Hin & E).
    pose proof (find_none _ _ H x Hin) as N. cbn in N. congruence.
  - intros H. destruct (find (fun x => Nat.eqb (fst x) k) s) eqn:E; auto. apply find_some in E. destruct E as [E1 E2].
    assert (existsb (fun x => Nat.eqb (fst x) k) s = true) by (apply existsb_exists; eauto). congruence.
Qed.

Lemma kget_unique k s x : NoDup (keys s) -> In x s -> fst x = k -> kget k s = Some x.
Proof.
  unfold kget, keys. induction s as [|y s IH]; intros Hnd Hin Hk; [destruct Hin|].
  cbn. inversion Hnd; subst. destruct Hin as [->|Hin].
  - now rewrite Nat.eqb_refl.
  - destruct (Nat.eqb_spec (fst y) (fst x)) as [E|E].
    + exfalso. apply H1. rewrite E. now apply in_map.
    + apply IH; auto.
Qed.

Lemma kdel_in k s x : In x (kdel k s) <-> In x s /\ fst x <> k.
Proof.
  unfold kdel. rewrite filter_In. split; intros [H1 H2]; split; auto.
  - intros E. rewrite E, Nat.eqb_refl in H2. discriminate.
  - apply negb_true_iff. now apply Nat.eqb_neq.
Qed.

Lemma keys_kdel_nodup k s : NoDup (keys s) -> NoDup (keys (kdel k s)).
Proof.
  unfold keys, kdel. induction s as [|y s IH]; intros H; cbn; [constructor|].
  inversion H; subst. destruct (negb (fst y =? k)); cbn; auto.
  constructor; auto. intros Hin. apply H2. apply in_map_iff in Hin. destruct Hin as (z & E & Hz).
  apply filter_In in Hz. rewrite <- E. apply in_map. tauto.
Qed.
