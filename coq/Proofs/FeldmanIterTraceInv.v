(** * Trace-level bookkeeping for the iterators of LV.Model.FeldmanIter.

    [TInv t tr w]: what the ghost value [w] of thread [t] says about the trace [tr] (while an iteration runs: where its
    invocation is, no other invocation / response of [t] since, every visited element has its "visit" event, [J]);
    [PInv cs w]: every hash present in all configurations [cs] of the execution since the invocation is in [wP w];
    [PE cs w]: every visited / found element was in the tree in one of these configurations;
    [PX t cs tr w]: what do_erase_at did (a removal step of [t]) / saw (the element gone) since the last visit;
    [Fin t tr cs]: THE completeness statement for every iteration of [t] that is complete in [tr];
    [FinE t tr cs]: THE statement about do_erase_at for every "erased" event of [t] in [tr].
    Each is preserved by every ghost transition [TR] of [t] and by the events of other threads ([Emb_TR], [Emb_other]). *)
From Coq Require Import ZArith NArith List Bool Arith PeanoNat Lia String.
From LV Require Import Base.Conc Base.Events Model.Feldman Model.FeldmanIter.
From LV Require Import Proofs.FeldmanStepInv Proofs.FeldmanStepThm Proofs.FeldmanIterTraceDefs.
Import ListNotations.

Set Implicit Arguments.

Section TraceInv.
  Variables (hs : list N).
  Notation hash := (Feldman.hash hs).
  Notation present := (FeldmanStepThm.present hs).
  Notation TR := (@FeldmanIterTraceDefs.TR hs).
  Notation found := FeldmanIterTraceDefs.found.
  Notation config := (Conc.config G V ev).
  Notation J := (@FeldmanIterTraceDefs.J hs).
  Notation visited := (@FeldmanIterTraceDefs.visited hs).
  Notation len := (@List.length (nat * ev)).

  Definition is_inv (e : ev) : bool := is_cli "inv" e.
  Definition is_ret (e : ev) : bool := is_cli "ret" e.
  Definition plain (e : ev) : Prop := is_inv e = false /\ is_ret e = false.

  (** ** lists *)
  Lemma nth_lt {A} (l : list A) n x : nth_error l n = Some x -> n < List.length l.
  Proof. intros H. apply nth_error_Some. congruence. Qed.

  Lemma nth_app_old {A} (l l' : list A) n x : nth_error l n = Some x -> nth_error (l ++ l') n = Some x.
  Proof. intros H. rewrite nth_error_app1; [exact H|eapply nth_lt; eauto]. Qed.

  Lemma nth_app_lt {A} (l l' : list A) n : n < List.length l -> nth_error (l ++ l') n = nth_error l n.
  Proof. apply nth_error_app1. Qed.

  Lemma nth_app_inv {A} (l l' : list A) n x :
    nth_error (l ++ l') n = Some x -> nth_error l n = Some x \/ (List.length l <= n /\ In x l').
  Proof.
    intros H. destruct (lt_dec n (List.length l)) as [Hl|Hl].
    - left. rewrite nth_error_app1 in H; assumption.
    - right. split; [lia|]. rewrite nth_error_app2 in H by lia. eapply nth_error_In; eauto.
  Qed.

  Lemma in_tag t (es : list ev) u e : In (u, e) (Conc.tag t es) <-> u = t /\ In e es.
  Proof.
    unfold Conc.tag. rewrite in_map_iff. split.
    - intros (e' & E & H). inversion E; subst. auto.
    - intros [-> H]. exists e. auto.
  Qed.

  Lemma nth_tag_inv t tr (es : list ev) n u e :
    nth_error (tr ++ Conc.tag t es) n = Some (u, e) -> nth_error tr n = Some (u, e) \/ (len tr <= n /\ u = t /\ In e es).
  Proof. intros H. apply nth_app_inv in H. destruct H as [H|[H1 H2]]; [left; exact H|right]. apply in_tag in H2. tauto. Qed.

  Lemma len_tag tr t (es : list ev) : len (tr ++ Conc.tag t es) = len tr + List.length es.
  Proof. rewrite app_length. unfold Conc.tag. rewrite map_length. reflexivity. Qed.

  (** ** classification of events *)
  Lemma plain_acc e : is_acc e -> plain e.
  Proof. intros (kd & o & b & ->). split; reflexivity. Qed.
  Lemma plain_neutral e : neutral e -> plain e.
  Proof. intros ->; split; reflexivity. Qed.
  Lemma plain_visit k : plain (ev_visit k).
  Proof. split; reflexivity. Qed.
  Lemma plain_erased b : plain (ev_erased b).
  Proof. split; reflexivity. Qed.
  Lemma acc_not_visit e : is_acc e -> ~ is_visit e.
  Proof. intros (kd & o & b & ->) (k & E). discriminate E. Qed.
  Lemma acc_not_erased e : is_acc e -> ~ is_erased e.
  Proof. intros (kd & o & b & ->) (k & E). discriminate E. Qed.
  Lemma neutral_not_visit e : neutral e -> ~ is_visit e.
  Proof. intros -> (k & E). discriminate E. Qed.
  Lemma neutral_not_erased e : neutral e -> ~ is_erased e.
  Proof. intros -> (k & E). discriminate E. Qed.
  Lemma quiet_not_visit w es e : quiet w es -> In e es -> ~ is_visit e.
  Proof.
    intros Hq He. destruct (Hq e He) as [H|[H|(_ & H & _)]]; [apply acc_not_visit; exact H|apply neutral_not_visit; exact H|exact H].
  Qed.
  Lemma quiet_not_erased w es e : quiet w es -> In e es -> ~ is_erased e.
  Proof.
    intros Hq He. destruct (Hq e He) as [H|[H|(_ & _ & H & _)]]; [apply acc_not_erased; exact H|apply neutral_not_erased; exact H|exact H].
  Qed.
  Lemma inv_not_plain c k : ~ plain (ev_inv c k).
  Proof. intros [H _]. discriminate H. Qed.
  Lemma ret_not_plain a b : ~ plain (ev_ret a b).
  Proof. intros [_ H]. discriminate H. Qed.

  Lemma quiet_not_iter_inv w es e : quiet w es -> In e es -> ~ is_iter_inv e.
  Proof.
    intros Hq He. destruct (Hq e He) as [H|[H|(_ & _ & _ & H)]]; [| |exact H].
    - intros (c & k & _ & ->). apply (@inv_not_plain c k). apply plain_acc. exact H.
    - intros (c & k & _ & ->). apply (@inv_not_plain c k). apply plain_neutral. exact H.
  Qed.

  Lemma quiet_active_plain w es e : quiet w es -> wact w = true -> In e es -> plain e.
  Proof.
    intros Hq Ha He. destruct (Hq e He) as [H|[H|(H & _)]]; [apply plain_acc; exact H|apply plain_neutral; exact H|congruence].
  Qed.

  (** no invocation / response of [t] strictly between [n] and [m] *)
  Definition noir (tr : list (nat * ev)) (t n m : nat) : Prop :=
    forall j e, n < j -> j < m -> nth_error tr j = Some (t, e) -> plain e.

  Lemma noir_restrict tr new t n m : m <= len tr -> noir (tr ++ new) t n m -> noir tr t n m.
  Proof. intros Hm H j e H1 H2 H3. apply (H j e H1 H2). apply nth_app_old. exact H3. Qed.

  Lemma noir_app tr t es n :
    noir tr t n (len tr) -> (forall e, In e es -> plain e) -> noir (tr ++ Conc.tag t es) t n (len (tr ++ Conc.tag t es)).
  Proof.
    intros H He j e H1 H2 H3. apply nth_tag_inv in H3. destruct H3 as [H3|(_ & _ & H3)]; [|apply He; exact H3].
    apply (H j e H1); [eapply nth_lt; eauto|exact H3].
  Qed.

  Lemma noir_other tr new t n :
    noir tr t n (len tr) -> (forall x, In x new -> fst x <> t) -> noir (tr ++ new) t n (len (tr ++ new)).
  Proof.
    intros H He j e H1 H2 H3. apply nth_app_inv in H3. destruct H3 as [H3|(_ & H3)].
    - apply (H j e H1); [eapply nth_lt; eauto|exact H3].
    - exfalso. apply (He _ H3). reflexivity.
  Qed.

  (** ** the ghost value and the trace *)
  Record TInv (t : nat) (tr : list (nat * ev)) (w : WI) : Prop := {
    t_start : wact w = true -> exists c k, iter_code c /\ nth_error tr (wstart w) = Some (t, ev_inv c k);
    t_noir : wact w = true -> noir tr t (wstart w) (len tr);
    t_vis : wact w = true -> forall y k, In (y, k) (wvis w) -> exists j, wstart w < j /\ nth_error tr j = Some (t, ev_visit k);
    t_vis2 : wact w = true -> forall j k, wstart w < j -> nth_error tr j = Some (t, ev_visit k) -> exists y, In (y, k) (wvis w);
    t_J : wact w = true -> J w;
    t_v : wact w = true -> wstart w <= wv w /\ wv w < len tr /\
            (forall j k, wv w < j -> nth_error tr j <> Some (t, ev_visit k)) /\
            (wstart w < wv w -> nth_error tr (wv w) = Some (t, ev_visit (snd (wcur w)))) /\
            (fst (wcur w) <> 0 -> wstart w < wv w);
    t_link : forall n c k, nth_error tr n = Some (t, ev_inv c k) -> iter_code c -> noir tr t n (len tr) ->
               wact w = true /\ wstart w = n }.

  Lemma TInv_init t : TInv t [] w0.
  Proof. constructor; cbn; try discriminate. intros n c k H. destruct n; discriminate. Qed.

  Lemma TInv_other t tr new w : TInv t tr w -> (forall x, In x new -> fst x <> t) -> TInv t (tr ++ new) w.
  Proof.
    intros [H1 H2 H3 H3' H4 Hv H5] Hn. constructor.
    - intros Ha. destruct (H1 Ha) as (c & k & Hc & E). exists c, k. split; [exact Hc|apply nth_app_old; exact E].
    - intros Ha. apply noir_other; auto.
    - intros Ha y k Hy. destruct (H3 Ha y k Hy) as (j & Hj & E). exists j. split; [exact Hj|apply nth_app_old; exact E].
    - intros Ha j k Hj E. apply nth_app_inv in E. destruct E as [E|(_ & E)]; [eapply H3'; eauto|exfalso; apply (Hn _ E); reflexivity].
    - exact H4.
    - intros Ha. destruct (Hv Ha) as (V1 & V2 & V3 & V4 & V5). split; [exact V1|]. split; [rewrite app_length; lia|]. split; [|split].
      + intros j k Hj E. apply nth_app_inv in E. destruct E as [E|(_ & E)]; [eapply V3; eauto|apply (Hn _ E); reflexivity].
      + intros Hlt. apply nth_app_old. auto.
      + exact V5.
    - intros n c k E Hc Hno. apply nth_app_inv in E. destruct E as [E|(_ & E)]; [|exfalso; apply (Hn _ E); reflexivity].
      apply (H5 n c k E Hc). apply noir_restrict with (new := new); [lia|].
      intros j e Hj1 Hj2. apply Hno; [exact Hj1|rewrite app_length; lia].
  Qed.

  (** link is kept by events that are no invocation of an iteration *)
  Lemma link_keep t tr es w (b : bool) (s : nat) :
    (forall n c k, nth_error tr n = Some (t, ev_inv c k) -> iter_code c -> noir tr t n (len tr) -> wact w = true /\ wstart w = n) ->
    (forall e, In e es -> ~ is_iter_inv e) ->
    (wact w = true -> b = true /\ s = wstart w) ->
    forall n c k, nth_error (tr ++ Conc.tag t es) n = Some (t, ev_inv c k) -> iter_code c ->
      noir (tr ++ Conc.tag t es) t n (len (tr ++ Conc.tag t es)) -> b = true /\ s = n.
  Proof.
    intros HL Hes Hw n c k E Hc Hno. apply nth_tag_inv in E. destruct E as [E|(_ & _ & E)].
    - assert (X : noir tr t n (len tr)).
      { intros j e Hj1 Hj2 Hj3. apply (Hno j e Hj1); [rewrite app_length; lia|apply nth_app_old; exact Hj3]. }
      destruct (HL n c k E Hc X) as [A1 A2]. destruct (Hw A1) as [B1 B2]. split; congruence.
    - exfalso. apply (Hes _ E). exists c, k. auto.
  Qed.

  Lemma not_iter_inv_plain e : plain e -> ~ is_iter_inv e.
  Proof. intros H (c & k & _ & ->). apply (@inv_not_plain c k). exact H. Qed.

  (** events that are neither invocation, response nor visit; the fields the trace speaks about unchanged *)
  Lemma TInv_keep t tr es w w' :
    TInv t tr w -> (forall e, In e es -> plain e) -> (forall e, In e es -> ~ is_visit e) ->
    wact w' = wact w -> wstart w' = wstart w -> wvis w' = wvis w -> wv w' = wv w -> wcur w' = wcur w -> (J w -> J w') ->
    TInv t (tr ++ Conc.tag t es) w'.
  Proof.
    intros [H1 H2 H3 H3' H4 Hv H5] Hpl Hnv E1 E2 E3 E4 E5 HJ. constructor; rewrite ?E1, ?E2, ?E3, ?E4, ?E5.
    - intros Ha. destruct (H1 Ha) as (c & k & Hc & E). exists c, k. split; [exact Hc|apply nth_app_old; exact E].
    - intros Ha. apply noir_app; auto.
    - intros Ha y k Hy. destruct (H3 Ha y k Hy) as (j & Hj & E). exists j. split; [exact Hj|apply nth_app_old; exact E].
    - intros Ha j k Hj E. apply nth_tag_inv in E. destruct E as [E|(_ & _ & E)]; [eapply H3'; eauto|].
      exfalso. apply (Hnv _ E). exists k. reflexivity.
    - intros Ha. apply HJ. auto.
    - intros Ha. destruct (Hv Ha) as (V1 & V2 & V3 & V4 & V5). split; [exact V1|]. split; [rewrite len_tag; lia|]. split; [|split].
      + intros j k Hj E. apply nth_tag_inv in E. destruct E as [E|(_ & _ & E)]; [eapply V3; eauto|]. apply (Hnv _ E). exists k. reflexivity.
      + intros Hlt. apply nth_app_old. auto.
      + exact V5.
    - apply link_keep with (w := w); auto. intros e He. apply not_iter_inv_plain. auto.
  Qed.

  Lemma TInv_TR t g g' tr es w w' : TInv t tr w -> TR g g' tr es w w' -> TInv t (tr ++ Conc.tag t es) w'.
  Proof.
    intros HT HR.
    destruct HR as [-> Hq Harr|c k -> Hc _ ->|ah' fnd' Hacc Ha _ Hmv Hfnd ->|ah' -> Ha _ Hc0 Hv ->| -> Ha _ Hnah ->
                   |a i Hacc Hne Ha Hc0 Hs Hr _ ->|Hacc Hne Ha _ Hgone ->|b -> Ha _ Hce Hb1 Hb2 ->].
    - (* same *)
      destruct (wact w) eqn:Ea.
      + apply TInv_keep with (w := w); auto.
        * intros e He. eapply quiet_active_plain; eauto.
        * intros e He. eapply quiet_not_visit; eauto.
      + destruct HT as [H1 H2 H3 H3' H4 Hv H5]. constructor; try (intros X; congruence).
        apply link_keep with (w := w); auto. intros e He. eapply quiet_not_iter_inv; eauto.
    - (* start *)
      constructor; cbn [wact wstart wvis wv wcur].
      + intros _. exists c, k. split; [exact Hc|]. rewrite nth_error_app2 by lia. rewrite Nat.sub_diag. reflexivity.
      + intros _ j e Hj1 Hj2 Hj3. rewrite len_tag in Hj2. cbn in Hj2. lia.
      + intros _ y k0 [].
      + intros _ j k0 Hj E. apply nth_lt in E. rewrite len_tag in E. cbn in E. lia.
      + intros _ h _. right. exact I.
      + intros _. split; [lia|]. split; [rewrite len_tag; cbn; lia|]. split; [|split; [lia|cbn; congruence]].
        intros j k0 Hj E. apply nth_lt in E. rewrite len_tag in E. cbn in E. lia.
      + intros n c0 k0 E Hc0 Hno. split; [reflexivity|].
        destruct (lt_dec n (len tr)) as [Hl|Hl].
        * exfalso. apply (@inv_not_plain c k). apply (Hno (len tr) (ev_inv c k) Hl).
          -- rewrite len_tag. cbn. lia.
          -- rewrite nth_error_app2 by lia. rewrite Nat.sub_diag. reflexivity.
        * apply nth_lt in E. rewrite len_tag in E. cbn in E. lia.
    - (* move *)
      apply TInv_keep with (w := w); auto.
      + intros e He. apply plain_acc. auto.
      + intros e He. apply acc_not_visit. auto.
      + intros HJ h [Hp Hpr]. cbn [wP] in *. destruct (HJ h Hp) as [Hvis|Hah]; [left; exact Hvis|right; cbn [wah]; auto].
    - (* visit *)
      destruct HT as [H1 H2 H3 H3' H4 Hvv H5].
      assert (Hpl : forall e, In e [ev_visit (snd (wfnd w))] -> plain e) by (intros e [<-|[]]; apply plain_visit).
      destruct (H1 Ha) as (c & k & Hc & E).
      constructor; cbn [wact wstart wvis wv wcur].
      + intros _. exists c, k. split; [exact Hc|apply nth_app_old; exact E].
      + intros _. apply noir_app; auto.
      + intros _ y k0 [Hy|Hy].
        * exists (len tr). split; [eapply nth_lt; eauto|]. rewrite nth_error_app2 by lia. rewrite Nat.sub_diag. rewrite Hy. reflexivity.
        * destruct (H3 Ha y k0 Hy) as (j & Hj & E'). exists j. split; [exact Hj|apply nth_app_old; exact E'].
      + intros _ j k0 Hj E'. apply nth_tag_inv in E'. destruct E' as [E'|(_ & _ & [E'|[]])].
        * destruct (H3' Ha j k0 Hj E') as (y & Hy). exists y. right. exact Hy.
        * exists (fst (wfnd w)). left. destruct (wfnd w) as [y0 k1]. cbn [fst snd] in *. unfold ev_visit in E'. injection E' as E'.
          apply Nat2Z.inj in E'. subst. reflexivity.
      + intros _ h Hp. cbn [wP wah] in *. destruct (H4 Ha h Hp) as [(y & k0 & Hy & Hk)|Hah].
        * left. exists y, k0. split; [right; exact Hy|exact Hk].
        * destruct (Hv h Hah) as [Hah'|Eh]; [right; exact Hah'|]. subst h. left. destruct (wfnd w) as [y k0]. exists y, k0. split; [left; reflexivity|reflexivity].
      + intros _. pose proof (nth_lt _ _ E) as Hl. split; [lia|]. split; [rewrite len_tag; cbn; lia|]. split; [|split].
        * intros j k0 Hj E'. apply nth_lt in E'. rewrite len_tag in E'. cbn in E'. lia.
        * intros _. rewrite nth_error_app2 by lia. rewrite Nat.sub_diag. reflexivity.
        * intros _. lia.
      + apply link_keep with (w := w); auto. intros e He. apply not_iter_inv_plain. auto.
    - (* finish *)
      destruct HT as [H1 H2 H3 H3' H4 Hvv H5].
      constructor; cbn [wact]; try discriminate.
      intros n c k E Hc Hno. exfalso. apply nth_tag_inv in E. destruct E as [E|(_ & _ & [E|[]])]; [|discriminate E].
      apply (@ret_not_plain true false). apply (Hno (len tr) (ev_ret true false)).
      + eapply nth_lt; eauto.
      + rewrite len_tag. cbn. lia.
      + rewrite nth_error_app2 by lia. rewrite Nat.sub_diag. reflexivity.
    - (* erase *)
      apply TInv_keep with (w := w); auto.
      + intros e He. apply plain_acc. auto.
      + intros e He. apply acc_not_visit. auto.
    - (* gone *)
      apply TInv_keep with (w := w); auto.
      + intros e He. apply plain_acc. auto.
      + intros e He. apply acc_not_visit. auto.
    - (* erased *)
      apply TInv_keep with (w := w); auto.
      + intros e [<-|[]]. apply plain_erased.
      + intros e [<-|[]] (k & E). discriminate E.
  Qed.

  (** ** the hashes present since the invocation *)
  Definition PInv (cs : list config) (w : WI) : Prop :=
    wact w = true -> forall h, (forall c', In c' cs -> wstart w < len (Conc.trace c') -> present (Conc.shared c') h) -> wP w h.

  Lemma PInv_ext cs cn w : PInv cs w -> PInv (cs ++ [cn]) w.
  Proof. intros H Ha h Hp. apply (H Ha). intros c' Hc. apply Hp. apply in_or_app. left. exact Hc. Qed.

  Lemma PInv_TR t cs g g' tr es w w' cg :
    PInv cs w -> TInv t tr w -> TR g g' tr es w w' ->
    In cg cs -> Conc.shared cg = g -> len tr <= len (Conc.trace cg) -> PInv cs w'.
  Proof.
    intros HP HT HR Hcg Hg Hl.
    destruct HR as [-> Hq Harr|c k -> Hc _ ->|ah' fnd' Hacc Ha _ Hmv Hfnd ->|ah' -> Ha _ Hc0 Hv ->| -> Ha _ Hnah ->
                   |a i Hacc Hne Ha Hc0 Hs Hr _ ->|Hacc Hne Ha _ Hgone ->|b -> Ha _ Hce Hb1 Hb2 ->]; try exact HP.
    - intros _ h _. exact I.
    - intros _ h Hp. cbn [wP wstart] in *. split; [apply (HP Ha); exact Hp|]. rewrite <- Hg. apply Hp; [exact Hcg|].
      destruct (t_start HT Ha) as (c & k & _ & E). apply nth_lt in E. lia.
    - intros _ h Hp. cbn [wP wstart] in *. apply (HP Ha). exact Hp.
    - intros X. discriminate X.
  Qed.

  (** every visited element, the element found last and the element of the last visit were in the tree in some
      configuration since the invocation *)
  Definition was_in (cs : list config) (n : nat) (y k : nat) (c' : config) : Prop :=
    In c' cs /\ n < len (Conc.trace c') /\ (exists a i, data_at (Conc.shared c') a i y) /\ ikey (Conc.shared c') y = k.

  Definition PE (cs : list config) (w : WI) : Prop :=
    wact w = true -> forall y k, In (y, k) (wvis w) \/ (((y, k) = wfnd w \/ (y, k) = wcur w) /\ y <> 0) ->
      exists c', was_in cs (wstart w) y k c'.

  Lemma PE_ext cs cn w : PE cs w -> PE (cs ++ [cn]) w.
  Proof.
    intros H Ha y k Hy. destruct (H Ha y k Hy) as (c' & H1 & H2). exists c'. split; [apply in_or_app; left; exact H1|exact H2].
  Qed.

  Lemma PE_TR t cs g g' tr es w w' cg :
    PE cs w -> TInv t tr w -> TR g g' tr es w w' ->
    In cg cs -> Conc.shared cg = g -> len tr <= len (Conc.trace cg) -> PE cs w'.
  Proof.
    intros HP HT HR Hcg Hg Hl.
    destruct HR as [-> Hq Harr|c k -> Hc _ ->|ah' fnd' Hacc Ha _ Hmv Hfnd ->|ah' -> Ha _ Hc0 Hv ->| -> Ha _ Hnah ->
                   |a i Hacc Hne Ha Hc0 Hs Hr _ ->|Hacc Hne Ha _ Hgone ->|b -> Ha _ Hce Hb1 Hb2 ->]; try exact HP.
    - intros _ y k0 [[]|[[E|E] Hy]]; cbn [wfnd wcur] in E; inversion E; subst; congruence.
    - intros _ y k [Hy|[[E|E] Hy]]; cbn [wvis wfnd wcur wstart] in *; [apply (HP Ha); left; exact Hy| |apply (HP Ha); right; auto].
      destruct Hfnd as [->|[(a & i & Hd) Hk]]; [apply (HP Ha); right; auto|].
      subst fnd'. cbn [fst snd] in *. exists cg. split; [exact Hcg|]. split.
      + destruct (t_start HT Ha) as (c & k0 & _ & E). apply nth_lt in E. lia.
      + rewrite Hg. split; [exists a, i; exact Hd|exact Hk].
    - intros _ y k [[Hy|Hy]|[[E|E] Hy]]; cbn [wvis wfnd wcur wstart] in *.
      + apply (HP Ha). right. split; [left; symmetry; exact Hy|]. rewrite Hy in Hc0. exact Hc0.
      + apply (HP Ha). left. exact Hy.
      + apply (HP Ha). right. auto.
      + apply (HP Ha). right. auto.
    - intros X. discriminate X.
  Qed.

  (** what do_erase_at did / saw since the last visit.  [adj cs c1 c2]: consecutive configurations of the execution *)
  Definition adj (cs : list config) (c1 c2 : config) : Prop := exists l1 l2, cs = l1 ++ c1 :: c2 :: l2.

  Lemma adj_ext cs cn c1 c2 : adj cs c1 c2 -> adj (cs ++ [cn]) c1 c2.
  Proof. intros (l1 & l2 & ->). exists l1, (l2 ++ [cn]). rewrite <- app_assoc. reflexivity. Qed.

  (** a step of thread [t] from [c1] to [c2] that clears the unflagged slot ( a, i ) holding [x] of a reachable array node *)
  Definition removal (t : nat) (cs : list config) (c1 c2 : config) (x : nat) : Prop :=
    adj cs c1 c2 /\ (exists es, Conc.trace c2 = Conc.trace c1 ++ Conc.tag t es) /\
    exists a i, arr (Conc.shared c1) a i = mkSlot x 0 /\ reach_arr (Conc.shared c1) a /\
                Conc.shared c2 = with_arr (Conc.shared c1) (set_slot (arr (Conc.shared c1)) a i snull).

  Definition PX (t : nat) (cs : list config) (tr : list (nat * ev)) (w : WI) : Prop :=
    wact w = true ->
    (1 <= wrem w -> exists c1 c2, removal t cs c1 c2 (fst (wcur w)) /\ wv w < len (Conc.trace c1) /\ len (Conc.trace c1) < len tr) /\
    (wgone w = true -> exists c', In c' cs /\ wv w < len (Conc.trace c') /\ forall a i, ~ data_at (Conc.shared c') a i (fst (wcur w))).

  Lemma PX_ext t cs cn tr new w : PX t cs tr w -> PX t (cs ++ [cn]) (tr ++ new) w.
  Proof.
    intros H Ha. destruct (H Ha) as [H1 H2]. split.
    - intros Hr. destruct (H1 Hr) as (c1 & c2 & (R1 & R2) & R3 & R4). exists c1, c2. split; [split; [apply adj_ext; exact R1|exact R2]|].
      split; [exact R3|rewrite app_length; lia].
    - intros Hg. destruct (H2 Hg) as (c' & G1 & G2). exists c'. split; [apply in_or_app; left; exact G1|exact G2].
  Qed.

  Lemma PX_tr t cs tr new w : PX t cs tr w -> PX t cs (tr ++ new) w.
  Proof.
    intros H Ha. destruct (H Ha) as [H1 H2]. split; [|exact H2].
    intros Hr. destruct (H1 Hr) as (c1 & c2 & R1 & R3 & R4). exists c1, c2. split; [exact R1|]. split; [exact R3|rewrite app_length; lia].
  Qed.

  (** the step from [cg] (state [g]) to [cg'] (state [g']): either the state is unchanged or they are consecutive
      configurations, the trace so far is that of [cg], and the step is [t]'s *)
  Definition stepinfo (t : nat) (cs : list config) (g g' : G) (tr : list (nat * ev)) (cg : config) : Prop :=
    In cg cs /\ Conc.shared cg = g /\ len tr <= len (Conc.trace cg) /\
    (g' = g \/ exists cg', adj cs cg cg' /\ Conc.shared cg' = g' /\ len (Conc.trace cg) = len tr /\
                           exists es, Conc.trace cg' = Conc.trace cg ++ Conc.tag t es).

  Lemma PX_TR t cs g g' tr es w w' cg :
    PX t cs tr w -> TInv t tr w -> TR g g' tr es w w' -> stepinfo t cs g g' tr cg -> PX t cs (tr ++ Conc.tag t es) w'.
  Proof.
    intros HP HT HR (Hcg & Hg & Hl & Hstep).
    destruct HR as [-> Hq Harr|c k -> Hc _ ->|ah' fnd' Hacc Ha _ Hmv Hfnd ->|ah' -> Ha _ Hc0 Hv ->| -> Ha _ Hnah ->
                   |a i Hacc Hne Ha Hc0 Hs Hr Eg' ->|Hacc Hne Ha _ Hgone ->|b -> Ha _ Hce Hb1 Hb2 ->].
    - apply PX_tr. exact HP.
    - intros _. cbn [wrem wgone]. split; [lia|discriminate].
    - pose proof (@PX_tr t cs tr (Conc.tag t es) w HP) as HP'. intros _. cbn [wrem wgone wcur wv]. apply (HP' Ha).
    - intros _. cbn [wrem wgone]. split; [lia|discriminate].
    - intros X. discriminate X.
    - (* erase *)
      intros _. cbn [set_rem wrem wgone wcur wv]. destruct (t_v HT Ha) as (V1 & V2 & _).
      split; [|apply (proj2 (@PX_tr t cs tr (Conc.tag t es) w HP Ha))].
      intros _. destruct Hstep as [Eq|(cg' & Hadj & Hg' & Hlen & Htag)].
      + exfalso. rewrite Eg' in Eq. apply (f_equal (fun x => arr x a i)) in Eq. cbn [arr with_arr] in Eq.
        rewrite set_slot_same in Eq. rewrite Hs in Eq. unfold snull in Eq. inversion Eq as [E0]. congruence.
      + exists cg, cg'. split.
        * split; [exact Hadj|]. split; [exact Htag|]. exists a, i. rewrite Hg, Hg'. auto.
        * split; [lia|]. rewrite len_tag. destruct es; [congruence|cbn; lia].
    - (* gone *)
      intros _. cbn [set_gone wrem wgone wcur wv]. destruct (t_v HT Ha) as (V1 & V2 & _).
      split; [apply (proj1 (@PX_tr t cs tr (Conc.tag t es) w HP Ha))|].
      intros _. exists cg. split; [exact Hcg|]. split; [lia|]. rewrite Hg. exact Hgone.
    - apply PX_tr. exact HP.
  Qed.

  (** ** the statements about complete iterations and about "erased" events *)
  Definition upto (cs : list config) (m : nat) (c' : config) : Prop :=
    forall c1, In c1 cs -> m < len (Conc.trace c1) -> len (Conc.trace c') <= len (Conc.trace c1).

  (** for the iteration invoked at [n] that returned at [m]: every hash present throughout was visited; every visited
      key was the key of an element of the tree in some configuration of the iteration *)
  Definition FinC (t : nat) (tr : list (nat * ev)) (cs : list config) (n m : nat) : Prop :=
    (forall h, (forall c', In c' cs -> n < len (Conc.trace c') -> upto cs m c' -> present (Conc.shared c') h) ->
       exists j k', n < j /\ j < m /\ nth_error tr j = Some (t, ev_visit k') /\ hash k' = h) /\
    (forall j k', n < j -> j < m -> nth_error tr j = Some (t, ev_visit k') ->
       exists y c', was_in cs n y k' c' /\ upto cs m c').

  Definition Fin (t : nat) (tr : list (nat * ev)) (cs : list config) : Prop :=
    forall n m c k, nth_error tr n = Some (t, ev_inv c k) -> iter_code c -> nth_error tr m = Some (t, ev_ret true false) ->
      n < m -> noir tr t n m -> FinC t tr cs n m.

  Lemma Fin_init t cs : Fin t [] cs.
  Proof. intros n m c k H. destruct n; discriminate. Qed.

  Lemma Fin_cs_ext t tr cs cn :
    Fin t tr cs -> (forall c', In c' cs -> len (Conc.trace c') <= len (Conc.trace cn)) -> Fin t tr (cs ++ [cn]).
  Proof.
    intros HF Hcn n m c k E1 Hc E2 Hnm Hno.
    assert (UP : forall c', In c' cs -> upto cs m c' -> upto (cs ++ [cn]) m c').
    { intros c' Hc' Hup c1 Hc1 Hm. apply in_app_or in Hc1. destruct Hc1 as [Hc1|[<-|[]]]; [apply Hup; assumption|apply Hcn; exact Hc']. }
    destruct (HF n m c k E1 Hc E2 Hnm Hno) as [F1 F2]. split.
    - intros h Hp. apply F1. intros c' Hc' Hn Hup. apply Hp; [apply in_or_app; left; exact Hc'|exact Hn|apply UP; assumption].
    - intros j k' H1 H2 H3. destruct (F2 j k' H1 H2 H3) as (y & c' & (W1 & W2) & Hup). exists y, c'. split.
      + split; [apply in_or_app; left; exact W1|exact W2].
      + apply UP; assumption.
  Qed.

  (** old pairs *)
  Lemma Fin_old t tr new cs n m c k :
    Fin t tr cs -> m < len tr ->
    nth_error (tr ++ new) n = Some (t, ev_inv c k) -> iter_code c -> nth_error (tr ++ new) m = Some (t, ev_ret true false) ->
    n < m -> noir (tr ++ new) t n m -> FinC t (tr ++ new) cs n m.
  Proof.
    intros HF Hm E1 Hc E2 Hnm Hno. rewrite nth_app_lt in E1 by lia. rewrite nth_app_lt in E2 by lia.
    destruct (HF n m c k E1 Hc E2 Hnm (@noir_restrict tr new t n m ltac:(lia) Hno)) as [F1 F2]. split.
    - intros h Hp. destruct (F1 h Hp) as (j & k' & J1 & J2 & J3 & J4).
      exists j, k'. repeat split; auto. apply nth_app_old. exact J3.
    - intros j k' H1 H2 H3. rewrite nth_app_lt in H3 by lia. eauto.
  Qed.

  Lemma Fin_other t tr new cs : Fin t tr cs -> (forall x, In x new -> fst x <> t) -> Fin t (tr ++ new) cs.
  Proof.
    intros HF Hn n m c k E1 Hc E2 Hnm Hno. destruct (lt_dec m (len tr)) as [Hm|Hm]; [eapply Fin_old; eauto|].
    exfalso. apply nth_app_inv in E2. destruct E2 as [E2|(_ & E2)]; [apply nth_lt in E2; lia|]. apply (Hn _ E2). reflexivity.
  Qed.

  (** events of [t] other than the response of a complete iteration *)
  Lemma Fin_keep t tr es cs : Fin t tr cs -> ~ In (ev_ret true false) es -> Fin t (tr ++ Conc.tag t es) cs.
  Proof.
    intros HF Hn n m c k E1 Hc E2 Hnm Hno. destruct (lt_dec m (len tr)) as [Hm|Hm]; [eapply Fin_old; eauto|].
    exfalso. apply nth_tag_inv in E2. destruct E2 as [E2|(_ & _ & E2)]; [apply nth_lt in E2; lia|]. auto.
  Qed.

  Lemma Fin_same t tr es cs w : TInv t tr w -> quiet w es -> Fin t tr cs -> Fin t (tr ++ Conc.tag t es) cs.
  Proof.
    intros HT Hq HF n m c k E1 Hc E2 Hnm Hno. destruct (lt_dec m (len tr)) as [Hm|Hm]; [eapply Fin_old; eauto|].
    exfalso. apply nth_tag_inv in E2. destruct E2 as [E2|(_ & _ & E2)]; [apply nth_lt in E2; lia|].
    destruct (Hq _ E2) as [H|[H|(Hw & _ & _)]].
    - apply (@ret_not_plain true false). apply plain_acc. exact H.
    - apply (@ret_not_plain true false). apply plain_neutral. exact H.
    - apply nth_tag_inv in E1. destruct E1 as [E1|(_ & _ & E1)].
      + assert (X : noir tr t n (len tr)).
        { intros j e Hj1 Hj2 Hj3. apply (Hno j e Hj1); [lia|apply nth_app_old; exact Hj3]. }
        destruct (t_link HT E1 Hc X) as [A1 _]. congruence.
      + apply (quiet_not_iter_inv Hq E1). exists c, k. auto.
  Qed.

  Lemma Fin_finish t tr cs w L :
    TInv t tr w -> PInv cs w -> PE cs w -> wact w = true -> (forall h, ~ wah w h) -> Fin t tr cs ->
    (forall c', In c' cs -> len (Conc.trace c') <= len tr \/ len (Conc.trace c') = L) ->
    (forall c', In c' cs -> len (Conc.trace c') <= L) ->
    Fin t (tr ++ Conc.tag t [ev_ret true false]) cs.
  Proof.
    intros HT HP HE Ha Hnah HF Hcs HL n m c k E1 Hc E2 Hnm Hno.
    destruct (lt_dec m (len tr)) as [Hm|Hm]; [eapply Fin_old; eauto|].
    assert (m = len tr).
    { apply nth_lt in E2. rewrite len_tag in E2. cbn in E2. lia. }
    subst m.
    apply nth_tag_inv in E1. destruct E1 as [E1|(E1 & _)]; [|lia].
    assert (X : noir tr t n (len tr)).
    { intros j e Hj1 Hj2 Hj3. apply (Hno j e Hj1 Hj2). apply nth_app_old. exact Hj3. }
    destruct (t_link HT E1 Hc X) as [_ Hs].
    assert (UP : forall c', In c' cs -> upto cs (len tr) c').
    { intros c' Hc' c1 Hc1 Hm1. destruct (Hcs c1 Hc1) as [K|K]; [lia|]. rewrite K. apply HL. exact Hc'. }
    split.
    - intros h Hp.
      assert (Hw : wP w h).
      { apply (HP Ha). intros c' Hc' Hst. apply Hp; [exact Hc'|lia|apply UP; exact Hc']. }
      destruct (t_J HT Ha h Hw) as [(y & k' & Hy & Hk)|Hah]; [|exfalso; eapply Hnah; eauto].
      destruct (t_vis HT Ha y k' Hy) as (j & Hj & Ej). exists j, k'. split; [lia|]. split; [eapply nth_lt; eauto|].
      split; [apply nth_app_old; exact Ej|exact Hk].
    - intros j k' H1 H2 H3. rewrite nth_app_lt in H3 by lia.
      assert (Hj : wstart w < j) by lia.
      destruct (t_vis2 HT Ha Hj H3) as (y & Hy).
      destruct (HE Ha y k' (or_introl Hy)) as (c' & Wc). exists y, c'. rewrite <- Hs. split; [exact Wc|apply UP; apply Wc].
  Qed.

  (** for the "erased b" event at [e]: the last visit of [t] before it, at [v], visited element [x] with key [k];
      [b = true]: a step of [t] after that visit removed exactly [x] (cleared the unflagged slot that held it);
      [b = false]: in some configuration after that visit [x] was at no position of the tree *)
  Definition ErC (t : nat) (tr : list (nat * ev)) (cs : list config) (e : nat) (b : bool) : Prop :=
    exists v k x, v < e /\ nth_error tr v = Some (t, ev_visit k) /\
      (forall j k', v < j -> j < e -> nth_error tr j <> Some (t, ev_visit k')) /\
      x <> 0 /\ (exists c', In c' cs /\ (exists a i, data_at (Conc.shared c') a i x) /\ ikey (Conc.shared c') x = k) /\
      (b = true -> exists c1 c2, removal t cs c1 c2 x /\ v < len (Conc.trace c1) /\ len (Conc.trace c1) < e) /\
      (b = false -> exists c', In c' cs /\ v < len (Conc.trace c') /\ forall a i, ~ data_at (Conc.shared c') a i x).

  Definition FinE (t : nat) (tr : list (nat * ev)) (cs : list config) : Prop :=
    forall e b, nth_error tr e = Some (t, ev_erased b) -> ErC t tr cs e b.

  Lemma FinE_init t cs : FinE t [] cs.
  Proof. intros e b H. destruct e; discriminate. Qed.

  Lemma ErC_ext t tr new cs cs' e b :
    e < len tr -> (forall c', In c' cs -> In c' cs') -> (forall c1 c2, adj cs c1 c2 -> adj cs' c1 c2) ->
    ErC t tr cs e b -> ErC t (tr ++ new) cs' e b.
  Proof.
    intros He Hin Hadj (v & k & x & H1 & H2 & H3 & Hx & (c' & H4 & H5) & H6 & H7).
    exists v, k, x. split; [exact H1|]. split; [apply nth_app_old; exact H2|]. split.
    { intros j k' J1 J2. rewrite nth_app_lt by lia. auto. }
    split; [exact Hx|]. split; [exists c'; split; [apply Hin; exact H4|exact H5]|]. split.
    - intros Hb. destruct (H6 Hb) as (c1 & c2 & (R1 & R2) & R3). exists c1, c2. split; [split; [apply Hadj; exact R1|exact R2]|exact R3].
    - intros Hb. destruct (H7 Hb) as (c1 & G1 & G2). exists c1. split; [apply Hin; exact G1|exact G2].
  Qed.

  Lemma FinE_cs_ext t tr cs cn : FinE t tr cs -> FinE t tr (cs ++ [cn]).
  Proof.
    intros HF e b E. rewrite <- (app_nil_r tr). apply ErC_ext with (cs := cs).
    - eapply nth_lt; eauto.
    - intros c' H. apply in_or_app. left. exact H.
    - intros c1 c2. apply adj_ext.
    - apply HF. exact E.
  Qed.

  Lemma FinE_other t tr new cs : FinE t tr cs -> (forall x, In x new -> fst x <> t) -> FinE t (tr ++ new) cs.
  Proof.
    intros HF Hn e b E. apply nth_app_inv in E. destruct E as [E|(_ & E)]; [|exfalso; apply (Hn _ E); reflexivity].
    apply ErC_ext with (cs := cs); auto. eapply nth_lt; eauto.
  Qed.

  Lemma FinE_keep t tr es cs : FinE t tr cs -> (forall e, In e es -> ~ is_erased e) -> FinE t (tr ++ Conc.tag t es) cs.
  Proof.
    intros HF Hn e b E. apply nth_tag_inv in E. destruct E as [E|(_ & _ & E)]; [|exfalso; apply (Hn _ E); exists b; reflexivity].
    apply ErC_ext with (cs := cs); auto. eapply nth_lt; eauto.
  Qed.

  Lemma FinE_erased t tr cs w b :
    TInv t tr w -> PE cs w -> PX t cs tr w -> wact w = true -> fst (wcur w) <> 0 ->
    (b = true -> wrem w = 1) -> (b = false -> wrem w = 0 /\ wgone w = true) ->
    FinE t tr cs -> FinE t (tr ++ Conc.tag t [ev_erased b]) cs.
  Proof.
    intros HT HE HX Ha Hc0 Hb1 Hb2 HF e b' E. apply nth_tag_inv in E. destruct E as [E|(E1 & _ & [E|[]])].
    - apply ErC_ext with (cs := cs); auto. eapply nth_lt; eauto.
    - unfold ev_erased in E. assert (b' = b) by (destruct b, b'; cbn in E; congruence). subst b'. clear E.
      destruct (t_v HT Ha) as (V1 & V2 & V3 & V4 & V5). destruct (HX Ha) as [X1 X2]. specialize (V5 Hc0). specialize (V4 V5).
      assert (LT : forall c0 : config, len (Conc.trace c0) < len tr -> len (Conc.trace c0) < e) by (intros; lia).
      exists (wv w), (snd (wcur w)), (fst (wcur w)). split; [lia|]. split; [apply nth_app_old; exact V4|]. split.
      { intros j k' J1 J2 J3. apply nth_tag_inv in J3. destruct J3 as [J3|(_ & _ & [J3|[]])]; [eapply V3; eauto|discriminate J3]. }
      split; [exact Hc0|]. split.
      { destruct (HE Ha (fst (wcur w)) (snd (wcur w))) as (c' & W1 & _ & W3 & W4).
        - right. split; [right; destruct (wcur w); reflexivity|exact Hc0].
        - exists c'. auto. }
      split.
      + intros Hb. destruct (X1 ltac:(rewrite (Hb1 Hb); lia)) as (c1 & c2 & R1 & R2 & R3). exists c1, c2. auto.
      + intros Hb. destruct (Hb2 Hb) as [_ Hg]. exact (X2 Hg).
  Qed.

  (** ** all together *)
  Definition Emb (t : nat) (cs : list config) (tr : list (nat * ev)) (w : WI) : Prop :=
    TInv t tr w /\ PInv cs w /\ PE cs w /\ PX t cs tr w /\ Fin t tr cs /\ FinE t tr cs.

  Lemma Emb_TR t cs g g' tr es w w' cg L :
    Emb t cs tr w -> TR g g' tr es w w' -> stepinfo t cs g g' tr cg ->
    (forall c', In c' cs -> len (Conc.trace c') <= len tr \/ len (Conc.trace c') = L) ->
    (forall c', In c' cs -> len (Conc.trace c') <= L) ->
    Emb t cs (tr ++ Conc.tag t es) w'.
  Proof.
    intros (HT & HP & HE & HX & HF & HFE) HR Hst Hcs HL. pose proof Hst as (Hcg & Hg & Hl & _).
    split; [eapply TInv_TR; eauto|]. split; [eapply PInv_TR; eauto|]. split; [eapply PE_TR; eauto|]. split; [eapply PX_TR; eauto|].
    destruct HR as [-> Hq Harr|c k -> Hc _ ->|ah' fnd' Hacc Ha _ Hmv Hfnd ->|ah' -> Ha _ Hc0 Hv ->| -> Ha _ Hnah ->
                   |a i Hacc Hne Ha Hc0 Hs Hr Eg' ->|Hacc Hne Ha _ Hgone ->|b -> Ha _ Hce Hb1 Hb2 ->].
    - split; [eapply Fin_same; eauto|]. apply FinE_keep; [exact HFE|]. intros e He. eapply quiet_not_erased; eauto.
    - split; [apply Fin_keep; [exact HF|]; intros [E|[]]; discriminate E|].
      apply FinE_keep; [exact HFE|]. intros e [<-|[]] (b & E). discriminate E.
    - split; [apply Fin_keep; [exact HF|]; intros E; apply (@ret_not_plain true false); apply plain_acc; auto|].
      apply FinE_keep; [exact HFE|]. intros e He. apply acc_not_erased. auto.
    - split; [apply Fin_keep; [exact HF|]; intros [E|[]]; discriminate E|].
      apply FinE_keep; [exact HFE|]. intros e [<-|[]] (b & E). discriminate E.
    - split; [eapply Fin_finish; eauto|].
      apply FinE_keep; [exact HFE|]. intros e [<-|[]] (b & E). discriminate E.
    - split; [apply Fin_keep; [exact HF|]; intros E; apply (@ret_not_plain true false); apply plain_acc; auto|].
      apply FinE_keep; [exact HFE|]. intros e He. apply acc_not_erased. auto.
    - split; [apply Fin_keep; [exact HF|]; intros E; apply (@ret_not_plain true false); apply plain_acc; auto|].
      apply FinE_keep; [exact HFE|]. intros e He. apply acc_not_erased. auto.
    - split; [apply Fin_keep; [exact HF|]; intros [E|[]]; discriminate E|].
      eapply FinE_erased; eauto.
  Qed.

  Lemma Emb_other t cs cn tr new w :
    Emb t cs tr w -> (forall x, In x new -> fst x <> t) ->
    (forall c', In c' cs -> len (Conc.trace c') <= len (Conc.trace cn)) ->
    Emb t (cs ++ [cn]) (tr ++ new) w.
  Proof.
    intros (HT & HP & HE & HX & HF & HFE) Hn Hcn. split; [apply TInv_other; auto|]. split; [apply PInv_ext; exact HP|].
    split; [apply PE_ext; exact HE|]. split; [apply PX_ext; exact HX|].
    split; [apply Fin_other; [|exact Hn]; apply Fin_cs_ext; auto|].
    apply FinE_other; [|exact Hn]. apply FinE_cs_ext. exact HFE.
  Qed.

  Lemma Emb_cs_ext t cs cn tr w :
    Emb t cs tr w -> (forall c', In c' cs -> len (Conc.trace c') <= len (Conc.trace cn)) -> Emb t (cs ++ [cn]) tr w.
  Proof.
    intros (HT & HP & HE & HX & HF & HFE) Hcn. split; [exact HT|]. split; [apply PInv_ext; exact HP|]. split; [apply PE_ext; exact HE|].
    split; [rewrite <- (app_nil_r tr); apply PX_ext; exact HX|]. split; [apply Fin_cs_ext; auto|apply FinE_cs_ext; exact HFE].
  Qed.
End TraceInv.
