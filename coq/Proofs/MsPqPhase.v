(** * The last clause of C11 for MSPriorityQueue: "every history in which no push overlaps a pop is linearizable
      to a bounded max-priority queue" -- the statement, and the part of it that is proved.

    [mspq_phase_linearizable_statement] is the claim, over every schedule of the model.
    [mspq_phase_linearizable_partial] proves it for single-thread programs (any sequence of operations, equal
    priorities included), through LV.Proofs.MsPqSeq and [Lin.lp_valid_linearizable].

    Status of the full statement (decided per history on the implementation by the verified [lincheck], see
    checks/C11.py):
      (a) PROVED (LV.Proofs.MsPqPush, [mspq_push_phase_heap]): after a phase of CONCURRENT pushes -- any schedule,
          no pop invoked so far -- has quiesced, the heap is a max-heap holding exactly the pushed items.  The
          invariant is the tag invariant of Hunt, Michael, Parthasarathy, Scott: a cell tagged with a thread id is
          the cell that thread is bubbling; an Available cell is not larger than any of its ancestors.
      (b) PROVED as far as the heap is concerned (LV.Proofs.MsPqPop, [mspq_two_phase_heap]): a phase of concurrent
          pushes followed by a phase of CONCURRENT pops -- any schedule; no pop invoked while a push is pending, no
          push invoked after the first pop -- leaves a max-heap holding exactly the items not handed back whenever
          no operation is pending.  The invariant is the one sketched here before: node-lock ownership (only the
          holder of a node lock changes the cell), the "frontier" cells = the pParent cells of the pops inside
          heapify_after_pop (each locked by its pop), every cell in use is not larger than ANY of its ancestors that
          is not a frontier cell, and all ancestors of a cell in use are in use ([MsPqPop.PopFacts]).
          NOT proved: the ORDER of a pop phase (each pop returns a maximum of the abstract multiset at its
          linearization point dec() under the size lock, ghost event "g_dec").  What is missing is the linkage to
          the specification state: "a pop that holds the size lock, or the top lock without having exchanged the
          top yet, owes the specification the maximum; when it obtains the top lock the top cell is not a frontier
          cell (its lock was free), hence holds the maximum of the cells, which is that value" -- the facts
          about the cells it needs are [PopFacts.k5] (+ [k1], [k4]); the bookkeeping of the owed results is not done.
      (c) NOT proved: the composition -- histories alternating quiescent push-only and pop-only phases are
          [lp_valid] with the LPs at the size-lock acquisitions.  Push-only phases are [lp_valid]
          (LV.Proofs.MsPqPushLin); it needs the order part of (b), the multiset linkage of the push phase (the
          specification state after a quiescent push phase is a permutation of the priorities in the heap), and
          [MsPqPush.Ext] / [MsPqPop.PExt] restated per phase instead of "no pop invoked so far" / "no push invoked
          after the first pop" (the heap a pop phase leaves is [Good], which is what the push invariant [B_ok],
          [W_ok] needs at its start). *)
From Coq Require Import ZArith List String Bool Lia PeanoNat Permutation.
From LV Require Import Base.Conc Base.Events Base.Lin Spec.Specs Model.MsPq
  Proofs.LinProofs Proofs.MsPqBrc Proofs.MsPqInv Proofs.MsPqHeap Proofs.MsPqSeq.
Import ListNotations.
Local Open Scope string_scope.
Local Open Scope list_scope.

(** ** the history of a trace, priorities only *)
Definition hinv (cap : nat) (t : nat) (o : pop_op) : hev (BPQueue cap) := @HInv (BPQueue cap) t o.
Definition hres (cap : nat) (t : nat) (r : res) : hev (BPQueue cap) := @HRes (BPQueue cap) t r.
Definition hev_of (cap : nat) (te : nat * ev) : list (hev (BPQueue cap)) :=
  match snd te with
  | EvCli n args =>
      if String.eqb n "inv_push" then match args with [p; _] => [hinv cap (fst te) (Push p)] | _ => [] end
      else if String.eqb n "ret_push" then match args with [b; _; _] => [hres cap (fst te) (RBool (Z.eqb b 1))] | _ => [] end
      else if String.eqb n "inv_pop" then [hinv cap (fst te) Pop]
      else if String.eqb n "ret_pop" then
        match args with [b; p; _] => [hres cap (fst te) (RVal (if Z.eqb b 1 then Some p else None))] | _ => [] end
      else []
  | _ => []
  end.
Definition hist_of (cap : nat) (tr : list (nat * ev)) : history (BPQueue cap) := flat_map (hev_of cap) tr.

(** no push is pending while a pop is pending, and vice versa *)
Fixpoint phase_scan {cap} (pushes pops : list nat) (h : history (BPQueue cap)) : bool :=
  match h with
  | [] => true
  | HInv t o :: r =>
      match (o : pop_op) with
      | Push _ => match pops with [] => phase_scan (t :: pushes) pops r | _ => false end
      | Pop => match pushes with [] => phase_scan pushes (t :: pops) r | _ => false end
      end
  | HRes t _ :: r => phase_scan (del_tid t pushes) (del_tid t pops) r
  end.
Definition no_push_pop_overlap {cap} (h : history (BPQueue cap)) : bool := phase_scan [] [] h.

Definition mspq_phase_linearizable_statement : Prop :=
  forall cap, slots_ok cap = true -> shape_ok cap = true -> forall bsz, cap < bsz ->
  forall hf lf ths c, Conc.reach (init_cfg cap bsz hf lf ths) c ->
    no_push_pop_overlap (hist_of cap (Conc.trace c)) = true ->
    linearizable (BPQueue cap) (hist_of cap (Conc.trace c)).

(** ** the sequential part *)
Section SeqLin.
  Variable cap : nat.
  Notation Sp := (BPQueue cap).

  (** tokens of MsPqSeq as history events of thread 0 *)
  Definition hev_of_tok (k : list Z) : list (hev Sp) :=
    match k with
    | [1; p] => [hinv cap 0 (Push p)]
    | [2; b] => [hres cap 0 (RBool (Z.eqb b 1))]
    | [3] => [hinv cap 0 Pop]
    | [4; b; p] => [hres cap 0 (RVal (if Z.eqb b 1 then Some p else None))]
    | _ => []
    end%Z.

  Lemma hev_of_tok_ev t e : hev_of cap (t, e) = match t with 0 => flat_map hev_of_tok (tok e) | _ => hev_of cap (t, e) end.
  Proof.
    destruct t; [|reflexivity]. unfold hev_of, tok. cbn [fst snd]. destruct e as [| n args]; [reflexivity|].
    destruct (String.eqb n "inv_push"); [destruct args as [|p [|i [|]]]; reflexivity|].
    destruct (String.eqb n "ret_push"); [destruct args as [|b [|p [|i [|]]]]; reflexivity|].
    destruct (String.eqb n "inv_pop"); [reflexivity|].
    destruct (String.eqb n "ret_pop"); [destruct args as [|b [|p [|i [|]]]]; reflexivity|]. reflexivity.
  Qed.

  Lemma hist_of_thread0 tr : (forall te, In te tr -> fst te = 0) -> hist_of cap tr = flat_map hev_of_tok (phist tr).
  Proof.
    induction tr as [|[t e] tr IH]; intros H; [reflexivity|]. unfold hist_of, phist in *. cbn [flat_map].
    rewrite flat_map_app. rewrite IH by (intros te Hin; apply H; right; exact Hin).
    pose proof (H (t, e) (or_introl eq_refl)) as Ht. cbn in Ht. subst t. rewrite hev_of_tok_ev. reflexivity.
  Qed.

  (** the annotated trace the specification predicts: every operation is linearized at once *)
  Fixpoint atr (s : list Z) (os : list op) : list (aev Sp) :=
    match os with
    | [] => []
    | o :: r => @AInv Sp 0 (spec_op o) :: @ALin Sp 0 :: @ARes Sp 0 (snd (bpq_step cap s (spec_op o))) :: atr (fst (bpq_step cap s (spec_op o))) r
    end.

  Lemma erase_atr os : forall s, erase (atr s os) = flat_map hev_of_tok (spec_hist cap s os).
  Proof.
    induction os as [|o r IH]; intros s; [reflexivity|]. destruct o as [x|]; cbn [atr erase spec_hist flat_map spec_op]; rewrite IH.
    - cbn [hev_of_tok app]. f_equal. f_equal.
      unfold push_tok, bpq_step. destruct (Nat.ltb (List.length s) cap); reflexivity.
    - cbn [hev_of_tok app]. f_equal. cbn [bpq_step]. unfold pop_tok.
      destruct s as [|x l]; [reflexivity|]. cbn [pq_pop snd fst]. cbn [hev_of_tok app Z.eqb]. reflexivity.
  Qed.

  Lemma lp_three s (stt : nat -> status Sp) (o : Op Sp) : stt 0 = Lin.Idle ->
    exists stt', lp_run (s, stt) [@AInv Sp 0 o; @ALin Sp 0; @ARes Sp 0 (snd (sstep Sp s o))] = Some (fst (sstep Sp s o), stt') /\
                 stt' 0 = Lin.Idle.
  Proof.
    intros H0. cbn [lp_run]. unfold lp_step at 1. rewrite H0.
    unfold lp_step at 1. rewrite LinProofs.upd_same.
    unfold lp_step at 1. rewrite LinProofs.upd_same.
    rewrite (proj2 (res_eqb_spec Sp _ _) eq_refl). eexists. split; [reflexivity|apply LinProofs.upd_same].
  Qed.

  Lemma lp_run_atr os : forall s (stt : nat -> status Sp), stt 0 = Lin.Idle ->
    exists s' stt', lp_run (s, stt) (atr s os) = Some (s', stt') /\ stt' 0 = Lin.Idle.
  Proof.
    induction os as [|o r IH]; intros s stt H0; [exists s, stt; split; [reflexivity|exact H0]|].
    cbn [atr].
    change (@AInv Sp 0 (spec_op o) :: @ALin Sp 0 :: @ARes Sp 0 (snd (bpq_step cap s (spec_op o))) :: atr (fst (bpq_step cap s (spec_op o))) r)
      with ([@AInv Sp 0 (spec_op o); @ALin Sp 0; @ARes Sp 0 (snd (sstep Sp s (spec_op o)))] ++ atr (fst (bpq_step cap s (spec_op o))) r).
    rewrite lp_run_app. destruct (lp_three s stt (spec_op o) H0) as (stt1 & -> & H1). apply IH. exact H1.
  Qed.

  Lemma erase_prefix (ta : list (aev Sp)) : forall l fut, erase ta = l ++ fut ->
    exists t1 t2, ta = t1 ++ t2 /\ erase t1 = l.
  Proof.
    induction ta as [|e ta IH]; intros l fut H.
    - cbn in H. destruct l; [|discriminate]. exists [], []. auto.
    - destruct l as [|x l].
      + exists [], (e :: ta). auto.
      + destruct e as [t o|t|t r]; cbn [erase] in H.
        * inversion H. destruct (IH l fut H2) as (t1 & t2 & -> & E). exists (AInv t o :: t1), t2. cbn [erase app]. rewrite E. auto.
        * destruct (IH (x :: l) fut H) as (t1 & t2 & -> & E). exists (ALin t :: t1), t2. cbn [erase app]. auto.
        * inversion H. destruct (IH l fut H2) as (t1 & t2 & -> & E). exists (ARes t r :: t1), t2. cbn [erase app]. rewrite E. auto.
  Qed.

  (** every prefix of the predicted history is linearizable *)
  Lemma spec_prefix_linearizable os l fut :
    l ++ fut = spec_hist cap [] os -> linearizable Sp (flat_map hev_of_tok l).
  Proof.
    intros H.
    assert (E : erase (atr [] os) = flat_map hev_of_tok l ++ flat_map hev_of_tok fut) by (rewrite erase_atr, <- H, flat_map_app; reflexivity).
    destruct (erase_prefix _ _ _ E) as (t1 & t2 & Eq & E1). rewrite <- E1. apply lp_valid_linearizable.
    destruct (lp_run_atr os [] (fun _ => Lin.Idle) eq_refl) as (s' & stt' & Hrun & _).
    rewrite Eq, lp_run_app in Hrun.
    match type of Hrun with match ?X with _ => _ end = _ => destruct X as [c1|] eqn:E2 end; [|discriminate].
    exists c1. exact E2.
  Qed.
End SeqLin.

(** single-thread configurations only produce events of thread 0 *)
Lemma single_thread_tids {Gs Vs Es} (c0 c : Conc.config Gs Vs Es) :
  Conc.reach c0 c -> List.length (Conc.threads c0) = 1 ->
  (forall te, In te (Conc.trace c0) -> fst te = 0) ->
  List.length (Conc.threads c) = 1 /\ forall te, In te (Conc.trace c) -> fst te = 0.
Proof.
  intros Hr Hl H0. induction Hr as [|c t c' Hr [IH1 IH2] Hs]; [auto|].
  unfold Conc.step_cfg in Hs. destruct (nth_error (Conc.threads c) t) as [p|] eqn:Hp; [|discriminate].
  assert (t = 0).
  { destruct (Conc.threads c) as [|p0 [|p1 r]]; try discriminate. destruct t as [|t]; [reflexivity|]. destruct t; discriminate. }
  subst t. destruct (Conc.step_thread (Conc.shared c) p) as [[[g' p'] es]|]; [|discriminate]. inversion Hs; subst c'. cbn [Conc.threads Conc.trace].
  split.
  - destruct (Conc.threads c) as [|p0 [|p1 r]]; try discriminate. reflexivity.
  - intros te Hin. apply in_app_or in Hin. destruct Hin as [Hin|Hin]; [apply IH2; exact Hin|].
    unfold Conc.tag in Hin. apply in_map_iff in Hin. destruct Hin as (e & <- & _). reflexivity.
Qed.

Theorem mspq_phase_linearizable_partial cap :
  slots_ok cap = true -> shape_ok cap = true -> forall bsz, cap < bsz ->
  forall hf lf os c, Conc.reach (init_cfg cap bsz hf lf [os]) c ->
    linearizable (BPQueue cap) (hist_of cap (Conc.trace c)).
Proof.
  intros OK SH bsz Hbsz hf lf os c Hr.
  destruct (mspq_sequential_refines cap OK SH bsz Hbsz hf lf os c Hr) as [fut Hfut].
  destruct (single_thread_tids _ _ Hr eq_refl ltac:(intros te [])) as [_ Htid].
  rewrite (hist_of_thread0 cap _ Htid). eapply spec_prefix_linearizable. exact Hfut.
Qed.
