(** * Structural invariants of the Vyukov queue model, for every schedule.

    The development is parametric in an "extension" [Ext] of the invariant that only sees the abstract
    queue, the linearization status of every thread and the trace (instances: the LP-annotated trace of C07 in
    LV.Proofs.VyukovLin, the ownership discipline of the pools of C24 in LV.Proofs.PoolsProofs).  The core
    shows, for each atomic step of enqueue / dequeue / front / empty, that

      - posDeq <= posEnq <= posDeq + cap                                             ([ri_pos])
      - the cell of every position p in [posDeq, posEnq) has sequence p+1 (published) or p (claimed by an
        enqueuer that has not published yet); the cell of every p in [posEnq, posDeq+cap) has sequence p
        (free) or p-cap+1 (claimed by a dequeuer that has not released it yet)       ([ri_used], [ri_free])
      - the abstract queue is the data of the cells of [posDeq, posEnq)                ([ri_len], [ri_content])
      - each linearization point performs exactly one step of the sequential specification on the abstract
        queue                                                                          ([Ext_lin])

    Counter wrap is excluded by [bound]: the number of successful enqueue claims (successful CAS on
    m_posEnqueue in the trace) plus the capacity stays below 2^62. *)
From Coq Require Import ZArith List Bool Lia PeanoNat.
From LV Require Import Base.Conc Base.Events Base.CInt Base.Lin Spec.Specs Model.Vyukov
                       Proofs.VyukovSpec Proofs.VyukovArith.
Import ListNotations.
Local Open Scope Z_scope.

(** per-thread phase: where the thread is inside its current operation, with the local variables the
    invariant talks about.  [pk] = true for pop_front (a dequeue whose value is dropped). *)
Inductive phase :=
| PIdle
| PEnq (v : Z) | EnqPos (v pos : Z) | EnqSeen (v pos : Z) | EnqClaimed (v pos : Z) | EnqDone (v : Z) | EnqFail (v : Z)
| PDeq (pk : bool) | DeqPos (pk : bool) (pos : Z) | DeqSeen (pk : bool) (pos : Z)
| DeqClaimed (pk : bool) (pos v : Z) | DeqRet (pk : bool) (r : option Z)
| PFront | FrontPos (pos : Z) | FrontRet (r : option Z)
| PEmpty | EmPos (pos : Z)
| PUB.

Definition unclaimed (p : phase) : Prop :=
  match p with EnqClaimed _ _ | DeqClaimed _ _ _ => False | _ => True end.

Definition consumer (p : phase) : Prop :=
  match p with
  | PDeq _ | DeqPos _ _ | DeqSeen _ _ | DeqClaimed _ _ _ | DeqRet _ _ | PFront | FrontPos _ | FrontRet _ => True
  | _ => False
  end.

Definition is_front (p : phase) : Prop :=
  match p with PFront | FrontPos _ | FrontRet _ => True | _ => False end.

Definition updp (f : nat -> phase) (t : nat) (p : phase) : nat -> phase :=
  fun u => if Nat.eqb u t then p else f u.

Lemma updp_same f t p : updp f t p t = p.
Proof. unfold updp. now rewrite Nat.eqb_refl. Qed.
Lemma updp_other f t p u : u <> t -> updp f t p u = f u.
Proof. unfold updp. intros H. destruct (Nat.eqb_spec u t); congruence. Qed.

(** successful claims of an enqueue slot recorded in a trace *)
Definition is_claim (e : nat * ev) : bool :=
  match snd e with
  | EvAcc KCas (0 :: nil) true => true
  | _ => false
  end.

Definition nclaims (tr : list (nat * ev)) : Z := Z.of_nat (length (filter is_claim tr)).

Lemma nclaims_app a b : nclaims (a ++ b) = nclaims a + nclaims b.
Proof. unfold nclaims. rewrite filter_app, app_length. lia. Qed.

Lemma nclaims_nonneg a : 0 <= nclaims a.
Proof. unfold nclaims. lia. Qed.

Definition dop (pk : bool) : vop := if pk then VPopFront else VDeq.
Definition dres (pk : bool) (r : option Z) : res :=
  if pk then RBool (match r with Some _ => true | None => false end) else RVal r.

Section Core.
  Variable k : nat.
  Hypothesis Hk : (1 <= k)%nat.
  Let cap : Z := 2 ^ Z.of_nat k.
  Let capn : nat := (2 ^ k)%nat.
  Variable q : qcfg.
  Hypothesis Hq : qcap q = cap.
  Variable sc : option nat.          (* Some tc: single-consumer use, tc is the consumer thread *)
  Variable e0 : Z.                   (* m_posEnqueue of the initial state *)
  Hypothesis He0 : 0 <= e0.

  Notation cell := (VyukovArith.cell k).

  Lemma capn_cap : Z.of_nat capn = cap.
  Proof. unfold capn, cap. rewrite Nat2Z.inj_pow. reflexivity. Qed.

  Definition sPend (o : vop) : status (VQ capn) := @Pending (VQ capn) o.
  Definition sLin (o : vop) (r : res) : status (VQ capn) := @Linearized (VQ capn) o r.

  Definition stat_of (p : phase) : status (VQ capn) :=
    match p with
    | PIdle | PEmpty | EmPos _ | PUB => @Idle (VQ capn)
    | PEnq v | EnqPos v _ | EnqSeen v _ => sPend (VEnq v)
    | EnqClaimed v _ | EnqDone v => sLin (VEnq v) (RBool true)
    | EnqFail v => sLin (VEnq v) (RBool false)
    | PDeq pk | DeqPos pk _ | DeqSeen pk _ => sPend (dop pk)
    | DeqClaimed pk _ v => sLin (dop pk) (dres pk (Some v))
    | DeqRet pk r => sLin (dop pk) (dres pk r)
    | PFront | FrontPos _ => sPend VFront
    | FrontRet r => sLin VFront (RVal r)
    end.

  (** the extension *)
  Variables X LX : Type.
  Variable xview : X -> nat -> LX.
  Variable xlin : nat -> X -> X.
  Variable Ext : list Z -> (nat -> status (VQ capn)) -> X -> list (nat * ev) -> Prop.
  Hypothesis Ext_acc : forall qs S x tr t kk o ok rd wr,
    Ext qs S x tr -> Ext qs S x (tr ++ Conc.tag t (acc kk o ok rd wr)).
  Hypothesis Ext_ext : forall qs S S' x tr, (forall t, S' t = S t) -> Ext qs S x tr -> Ext qs S' x tr.
  Hypothesis Ext_lin : forall qs S x tr t o,
    Ext qs S x tr -> S t = sPend o ->
    Ext (fst (vq_step capn qs o)) (Lin.upd S t (sLin o (snd (vq_step capn qs o)))) (xlin t x) tr.
  Hypothesis xview_lin : forall t x u, xview (xlin t x) u = xview x u.

  Record Aux := mkAux { absq : list Z; ph : nat -> phase; ext : X }.

  Definition phase_ok (g : G) (p : phase) : Prop :=
    match p with
    | EnqPos _ pos => 0 <= pos <= posE g
    | EnqSeen _ pos => 0 <= pos <= posE g /\ pos <= seqs g (cell pos)
    | EnqClaimed _ pos => posD g <= pos < posE g /\ seqs g (cell pos) = pos
    | DeqPos _ pos => 0 <= pos <= posD g
    | DeqSeen _ pos => 0 <= pos <= posD g /\ pos + 1 <= seqs g (cell pos)
    | DeqClaimed _ pos _ => 0 <= pos < posD g /\ posE g <= pos + cap /\ seqs g (cell pos) = pos + 1
    | FrontPos pos => pos = posD g
    | EmPos pos => 0 <= pos <= posD g
    | PUB => False
    | _ => True
    end.

  Record RealInv (g : G) (a : Aux) (tr : list (nat * ev)) : Prop := mkRI {
    ri_pos : 0 <= posD g /\ posD g <= posE g /\ posE g <= posD g + cap;
    ri_claims : posE g = e0 + nclaims tr;
    ri_len : Z.of_nat (length (absq a)) = posE g - posD g;
    ri_content : forall i, (i < length (absq a))%nat ->
                   nth_error (absq a) i = Some (datas g (cell (posD g + Z.of_nat i)));
    ri_used : forall p, posD g <= p < posE g ->
                seqs g (cell p) = p + 1 \/ (seqs g (cell p) = p /\ exists t v, ph a t = EnqClaimed v p);
    ri_free : forall p, posE g <= p < posD g + cap ->
                seqs g (cell p) = p \/
                (seqs g (cell p) = p - cap + 1 /\ exists t pk v, ph a t = DeqClaimed pk (p - cap) v);
    ri_seqb : forall p, 0 <= seqs g (cell p) <= posE g + cap;
    ri_ph : forall t, phase_ok g (ph a t);
    ri_uniqE : forall t t' v v' p, ph a t = EnqClaimed v p -> ph a t' = EnqClaimed v' p -> t = t';
    ri_uniqD : forall t t' pk pk' v v' p, ph a t = DeqClaimed pk p v -> ph a t' = DeqClaimed pk' p v' -> t = t';
    ri_sc : forall tc t, sc = Some tc -> consumer (ph a t) -> t = tc;
    ri_fr : forall t, is_front (ph a t) -> sc = Some t;
    ri_ext : Ext (absq a) (fun t => stat_of (ph a t)) (ext a) tr
  }.

  Arguments ri_pos {g a tr} _.
  Arguments ri_claims {g a tr} _.
  Arguments ri_ph {g a tr} _ _.
  Arguments ri_ext {g a tr} _.

  Definition bound (tr : list (nat * ev)) : Prop := e0 + nclaims tr + cap < B62.

  Definition Inv (g : G) (a : Aux) (tr : list (nat * ev)) : Prop := bound tr -> RealInv g a tr.

  Lemma bound_app tr es : bound (tr ++ es) -> bound tr.
  Proof. unfold bound. rewrite nclaims_app. pose proof (nclaims_nonneg es). lia. Qed.

  Lemma cap2 : 2 <= cap.
  Proof. apply (cap_ge2 k Hk). Qed.

  Lemma bound_cap tr : bound tr -> cap < B62.
  Proof. unfold bound. pose proof (nclaims_nonneg tr). lia. Qed.

  Lemma ri_bounds g a tr : RealInv g a tr -> bound tr ->
    0 <= posD g /\ posD g <= posE g /\ posE g <= posD g + cap /\ posE g + cap < B62.
  Proof. intros R Hb. destruct (ri_pos R) as (A & B & C). pose proof (ri_claims R). unfold bound in Hb. lia. Qed.

  Lemma idx_cell tr pos : bound tr -> Z.land pos (qmask q) = cell pos.
  Proof.
    intros Hb. rewrite (qmask_val k Hk q Hq (bound_cap tr Hb)). apply (land_mask k Hk).
  Qed.

  Definition view (a : Aux) (t : nat) : phase * LX := (ph a t, xview (ext a) t).

  Definition set_ph (a : Aux) (t : nat) (p : phase) : Aux := mkAux (absq a) (updp (ph a) t p) (ext a).
  Definition lin_ph (a : Aux) (t : nat) (qs : list Z) (p : phase) : Aux :=
    mkAux qs (updp (ph a) t p) (xlin t (ext a)).

  Lemma view_set_ph a t p : view (set_ph a t p) t = (p, xview (ext a) t).
  Proof. unfold view, set_ph; cbn. now rewrite updp_same. Qed.
  Lemma frame_set_ph a t p : Conc.frame view t a (set_ph a t p).
  Proof. intros u Hu. unfold view, set_ph; cbn. now rewrite updp_other. Qed.
  Lemma view_lin_ph a t qs p : view (lin_ph a t qs p) t = (p, xview (ext a) t).
  Proof. unfold view, lin_ph; cbn. now rewrite updp_same, xview_lin. Qed.
  Lemma frame_lin_ph a t qs p : Conc.frame view t a (lin_ph a t qs p).
  Proof. intros u Hu. unfold view, lin_ph; cbn. now rewrite updp_other, xview_lin. Qed.

  Lemma stat_updp P t p u :
    stat_of (updp P t p u) = Lin.upd (fun u => stat_of (P u)) t (stat_of p) u.
  Proof. unfold updp, Lin.upd. destruct (Nat.eqb u t); reflexivity. Qed.

  (** ** steps that leave the shared state alone (loads, failed CAS) *)
  Lemma ri_phase g a tr t p' kk o ok rd wr :
    RealInv g a tr ->
    nclaims (Conc.tag t (acc kk o ok rd wr)) = 0 ->
    phase_ok g p' -> unclaimed (ph a t) -> unclaimed p' -> stat_of p' = stat_of (ph a t) ->
    (consumer p' -> consumer (ph a t)) -> (is_front p' -> is_front (ph a t)) ->
    RealInv g (set_ph a t p') (tr ++ Conc.tag t (acc kk o ok rd wr)).
  Proof.
    intros R Hn Hok Hu Hu' Hst Hco Hfr.
    destruct R as [Rpos Rcl Rlen Rcont Rused Rfree Rseqb Rph RuE RuD Rsc Rfr Rext].
    constructor; cbn [absq ph ext set_ph]; auto.
    - rewrite nclaims_app, Hn. lia.
    - intros p Hp. destruct (Rused p Hp) as [H|[H (t0 & v & H0)]]; [left; auto|right; split; auto].
      exists t0, v. rewrite updp_other; auto. intros ->. rewrite H0 in Hu. exact Hu.
    - intros p Hp. destruct (Rfree p Hp) as [H|[H (t0 & pk & v & H0)]]; [left; auto|right; split; auto].
      exists t0, pk, v. rewrite updp_other; auto. intros ->. rewrite H0 in Hu. exact Hu.
    - intros u. destruct (Nat.eq_dec u t) as [->|N]; [rewrite updp_same; auto|rewrite updp_other; auto].
    - intros u u' v v' p H1 H2.
      destruct (Nat.eq_dec u t) as [->|N1]; [rewrite updp_same in H1; rewrite H1 in Hu'; contradiction|].
      destruct (Nat.eq_dec u' t) as [->|N2]; [rewrite updp_same in H2; rewrite H2 in Hu'; contradiction|].
      rewrite updp_other in H1, H2 by auto. eapply RuE; eauto.
    - intros u u' pk pk' v v' p H1 H2.
      destruct (Nat.eq_dec u t) as [->|N1]; [rewrite updp_same in H1; rewrite H1 in Hu'; contradiction|].
      destruct (Nat.eq_dec u' t) as [->|N2]; [rewrite updp_same in H2; rewrite H2 in Hu'; contradiction|].
      rewrite updp_other in H1, H2 by auto. eapply RuD; eauto.
    - intros tc u Hsc Hc. destruct (Nat.eq_dec u t) as [->|N].
      + rewrite updp_same in Hc. eapply Rsc; eauto.
      + rewrite updp_other in Hc by auto. eapply Rsc; eauto.
    - intros u Hf. destruct (Nat.eq_dec u t) as [->|N].
      + rewrite updp_same in Hf. apply Rfr; auto.
      + rewrite updp_other in Hf by auto. apply Rfr; auto.
    - apply Ext_acc. eapply Ext_ext; [|exact Rext].
      intros u. cbn. destruct (Nat.eq_dec u t) as [->|N]; [rewrite updp_same; auto|rewrite updp_other; auto].
  Qed.

  (** ** linearization points that leave the shared state and the abstract queue alone
         (failed enqueue / dequeue, front) *)
  Lemma ri_lp g a tr t p' o kk ob ok rd wr :
    RealInv g a tr ->
    nclaims (Conc.tag t (acc kk ob ok rd wr)) = 0 ->
    phase_ok g p' -> unclaimed (ph a t) -> unclaimed p' ->
    stat_of (ph a t) = sPend o ->
    fst (vq_step capn (absq a) o) = absq a ->
    stat_of p' = sLin o (snd (vq_step capn (absq a) o)) ->
    (consumer p' -> consumer (ph a t)) -> (is_front p' -> is_front (ph a t)) ->
    RealInv g (lin_ph a t (absq a) p') (tr ++ Conc.tag t (acc kk ob ok rd wr)).
  Proof.
    intros R Hn Hok Hu Hu' Hst Hq' Hst' Hco Hfr.
    destruct R as [Rpos Rcl Rlen Rcont Rused Rfree Rseqb Rph RuE RuD Rsc Rfr Rext].
    constructor; cbn [absq ph ext lin_ph]; auto.
    - rewrite nclaims_app, Hn. lia.
    - intros p Hp. destruct (Rused p Hp) as [H|[H (t0 & v & H0)]]; [left; auto|right; split; auto].
      exists t0, v. rewrite updp_other; auto. intros ->. rewrite H0 in Hu. exact Hu.
    - intros p Hp. destruct (Rfree p Hp) as [H|[H (t0 & pk & v & H0)]]; [left; auto|right; split; auto].
      exists t0, pk, v. rewrite updp_other; auto. intros ->. rewrite H0 in Hu. exact Hu.
    - intros u. destruct (Nat.eq_dec u t) as [->|N]; [rewrite updp_same; auto|rewrite updp_other; auto].
    - intros u u' v v' p H1 H2.
      destruct (Nat.eq_dec u t) as [->|N1]; [rewrite updp_same in H1; rewrite H1 in Hu'; contradiction|].
      destruct (Nat.eq_dec u' t) as [->|N2]; [rewrite updp_same in H2; rewrite H2 in Hu'; contradiction|].
      rewrite updp_other in H1, H2 by auto. eapply RuE; eauto.
    - intros u u' pk pk' v v' p H1 H2.
      destruct (Nat.eq_dec u t) as [->|N1]; [rewrite updp_same in H1; rewrite H1 in Hu'; contradiction|].
      destruct (Nat.eq_dec u' t) as [->|N2]; [rewrite updp_same in H2; rewrite H2 in Hu'; contradiction|].
      rewrite updp_other in H1, H2 by auto. eapply RuD; eauto.
    - intros tc u Hsc Hc. destruct (Nat.eq_dec u t) as [->|N].
      + rewrite updp_same in Hc. eapply Rsc; eauto.
      + rewrite updp_other in Hc by auto. eapply Rsc; eauto.
    - intros u Hf. destruct (Nat.eq_dec u t) as [->|N].
      + rewrite updp_same in Hf. apply Rfr; auto.
      + rewrite updp_other in Hf by auto. apply Rfr; auto.
    - apply Ext_acc.
      pose proof (Ext_lin (absq a) (fun u => stat_of (ph a u)) (ext a) tr t o Rext Hst) as E.
      rewrite Hq' in E. eapply Ext_ext; [|exact E].
      intros u. rewrite stat_updp. unfold Lin.upd. destruct (Nat.eqb u t); auto.
  Qed.

  (** ** item counter steps *)
  Lemma ri_cnt g a tr t x kk ok rd wr :
    RealInv g a tr ->
    RealInv (set_cnt g x) a (tr ++ Conc.tag t (acc kk obj_cnt ok rd wr)).
  Proof.
    intros R. destruct R as [Rpos Rcl Rlen Rcont Rused Rfree Rseqb Rph RuE RuD Rsc Rfr Rext].
    constructor; cbn [posE posD seqs datas set_cnt]; auto.
    - rewrite nclaims_app.
      replace (nclaims (Conc.tag t (acc kk obj_cnt ok rd wr))) with 0; [lia|].
      destruct kk, ok; reflexivity.
  Qed.

  (** ** E3 succeeds: the enqueuer claims position posEnq and writes its value into the cell; this is the
         linearization point of a successful enqueue *)
  Lemma tr_enq_claim g a tr t v pos :
    RealInv g a tr -> ph a t = EnqSeen v pos -> posE g = pos ->
    bound (tr ++ Conc.tag t (acc KCas obj_posE true (posE g) (uadd u64 pos 1))) ->
    RealInv (set_data (set_posE g (uadd u64 pos 1)) (Z.land pos (qmask q)) v)
            (lin_ph a t (absq a ++ [v]) (EnqClaimed v pos))
            (tr ++ Conc.tag t (acc KCas obj_posE true (posE g) (uadd u64 pos 1))).
  Proof.
    intros R Hp HE Hb. pose proof (bound_app _ _ Hb) as Hb0.
    destruct (ri_bounds g a tr R Hb0) as (B1 & B2 & B3 & B4).
    assert (Hb1 : posE g + 1 + cap < B62).
    { unfold bound in Hb. rewrite nclaims_app in Hb. pose proof (ri_claims R).
      change (nclaims (Conc.tag t (acc KCas obj_posE true (posE g) (uadd u64 pos 1)))) with 1 in Hb. lia. }
    pose proof cap2 as C2.
    rewrite (idx_cell tr pos Hb0). rewrite uadd1 by lia.
    destruct R as [Rpos Rcl Rlen Rcont Rused Rfree Rseqb Rph RuE RuD Rsc Rfr Rext].
    pose proof (Rph t) as Pt. rewrite Hp in Pt. cbn [phase_ok] in Pt. destruct Pt as [Pt1 Pt2].
    subst pos.
    assert (Hcell : seqs g (cell (posE g)) = posE g /\ posE g < posD g + cap).
    { destruct (Z_lt_ge_dec (posE g) (posD g + cap)) as [L|L].
      - split; auto. destruct (Rfree (posE g) ltac:(lia)) as [H|[H _]]; lia.
      - exfalso. assert (E : posE g = posD g + cap) by lia.
        destruct (Rused (posD g) ltac:(lia)) as [H|[H _]];
          rewrite <- (cell_add_cap k (posD g)) in H; fold cap in H; rewrite <- E in H; lia. }
    destruct Hcell as [Hs Hlt].
    assert (Hne : forall p, posD g <= p < posD g + cap -> p <> posE g -> cell p <> cell (posE g)).
    { intros p Hp' N. apply (cell_neq k Hk); auto. fold cap. lia. }
    constructor; cbn [posE posD seqs datas set_data set_posE absq ph ext lin_ph].
    - lia.
    - rewrite nclaims_app.
      change (nclaims (Conc.tag t (acc KCas obj_posE true (posE g) (posE g + 1)))) with 1. lia.
    - rewrite app_length. cbn [length]. lia.
    - intros i Hi. rewrite app_length in Hi. cbn [length] in Hi.
      destruct (Nat.eq_dec i (length (absq a))) as [->|N].
      + rewrite nth_error_app2 by lia. rewrite Nat.sub_diag. cbn [nth_error].
        rewrite Rlen. replace (posD g + (posE g - posD g)) with (posE g) by lia.
        unfold upd. now rewrite Z.eqb_refl.
      + rewrite nth_error_app1 by lia. rewrite Rcont by lia. f_equal. unfold upd.
        destruct (Z.eqb_spec (cell (posD g + Z.of_nat i)) (cell (posE g))) as [E|E]; auto.
        exfalso. revert E. apply Hne; lia.
    - intros p Hp'. destruct (Z.eq_dec p (posE g)) as [->|N].
      + right. split; auto. exists t, v. now rewrite updp_same.
      + destruct (Rused p ltac:(lia)) as [H|[H (t0 & v0 & H0)]]; [left; auto|right; split; auto].
        exists t0, v0. rewrite updp_other; auto. intros ->. rewrite H0 in Hp. discriminate.
    - intros p Hp'. destruct (Rfree p ltac:(lia)) as [H|[H (t0 & pk & v0 & H0)]]; [left; auto|right; split; auto].
      exists t0, pk, v0. rewrite updp_other; auto. intros ->. rewrite H0 in Hp. discriminate.
    - intros p. specialize (Rseqb p). lia.
    - intros u. destruct (Nat.eq_dec u t) as [->|N].
      + rewrite updp_same. cbn [phase_ok posE posD seqs datas set_data set_posE set_posD set_seq]. lia.
      + rewrite updp_other by auto. specialize (Rph u).
        destruct (ph a u) eqn:Eu; cbn [phase_ok posE posD seqs datas set_data set_posE set_posD set_seq] in *; try lia; auto.
        destruct Rph as (A1 & A2 & A3). split; [lia|]. split; [|auto].
        (* a dequeuer still holding the cell of posEnq would contradict seq = posEnq *)
        destruct (Z.eq_dec (posE g) (pos + cap)) as [E|E]; [|lia].
        exfalso. rewrite <- (cell_add_cap k pos) in A3. fold cap in A3. rewrite <- E in A3. lia.
    - intros u u' v1 v2 p H1 H2.
      destruct (Nat.eq_dec u t) as [->|N1]; destruct (Nat.eq_dec u' t) as [->|N2]; auto.
      + rewrite updp_same in H1. rewrite updp_other in H2 by auto. inversion H1; subst.
        pose proof (Rph u') as P. rewrite H2 in P. cbn [phase_ok] in P. lia.
      + rewrite updp_same in H2. rewrite updp_other in H1 by auto. inversion H2; subst.
        pose proof (Rph u) as P. rewrite H1 in P. cbn [phase_ok] in P. lia.
      + rewrite updp_other in H1, H2 by auto. eapply RuE; eauto.
    - intros u u' pk pk' v1 v2 p H1 H2.
      destruct (Nat.eq_dec u t) as [->|N1]; [rewrite updp_same in H1; discriminate|].
      destruct (Nat.eq_dec u' t) as [->|N2]; [rewrite updp_same in H2; discriminate|].
      rewrite updp_other in H1, H2 by auto. eapply RuD; eauto.
    - intros tc u Hsc Hc. destruct (Nat.eq_dec u t) as [->|N].
      + rewrite updp_same in Hc. contradiction.
      + rewrite updp_other in Hc by auto. eapply Rsc; eauto.
    - intros u Hf. destruct (Nat.eq_dec u t) as [->|N].
      + rewrite updp_same in Hf. contradiction.
      + rewrite updp_other in Hf by auto. apply Rfr; auto.
    - apply Ext_acc.
      assert (Hst : (fun u => stat_of (ph a u)) t = sPend (VEnq v)) by (cbn; now rewrite Hp).
      pose proof (Ext_lin (absq a) (fun u => stat_of (ph a u)) (ext a) tr t (VEnq v) Rext Hst) as E.
      cbn [vq_step bfifo_step] in E.
      assert (Hl : (length (absq a) <? capn)%nat = true).
      { apply Nat.ltb_lt. pose proof capn_cap. lia. }
      rewrite Hl in E. cbn [fst snd] in E. eapply Ext_ext; [|exact E].
      intros u. rewrite stat_updp. unfold Lin.upd. destruct (Nat.eqb u t); auto.
  Qed.

  (** ** E6: the enqueuer publishes its cell *)
  Lemma tr_enq_publish g a tr t v pos :
    RealInv g a tr -> ph a t = EnqClaimed v pos ->
    bound (tr ++ Conc.tag t (acc KSt (obj_seq (Z.land pos (qmask q))) true (uadd u64 pos 1) (uadd u64 pos 1))) ->
    RealInv (set_seq g (Z.land pos (qmask q)) (uadd u64 pos 1))
            (set_ph a t (EnqDone v))
            (tr ++ Conc.tag t (acc KSt (obj_seq (Z.land pos (qmask q))) true (uadd u64 pos 1) (uadd u64 pos 1))).
  Proof.
    intros R Hp Hb. pose proof (bound_app _ _ Hb) as Hb0.
    destruct (ri_bounds g a tr R Hb0) as (B1 & B2 & B3 & B4). pose proof cap2 as C2.
    destruct R as [Rpos Rcl Rlen Rcont Rused Rfree Rseqb Rph RuE RuD Rsc Rfr Rext].
    pose proof (Rph t) as Pt. rewrite Hp in Pt. cbn [phase_ok] in Pt. destruct Pt as [Pt1 Pt2].
    rewrite (idx_cell tr pos Hb0). rewrite uadd1 by lia.
    assert (Hne : forall p, posD g <= p < posD g + cap -> p <> pos -> cell p <> cell pos).
    { intros p Hp' N. apply (cell_neq k Hk); auto. fold cap. lia. }
    constructor; cbn [posE posD seqs datas set_seq absq ph ext set_ph]; auto.
    - rewrite nclaims_app.
      change (nclaims (Conc.tag t (acc KSt (obj_seq (cell pos)) true (pos + 1) (pos + 1)))) with 0. lia.
    - intros p Hp'. unfold upd. destruct (Z.eqb_spec (cell p) (cell pos)) as [E|E].
      + left. destruct (Z.eq_dec p pos) as [->|N]; auto. exfalso. revert E. apply Hne; lia.
      + destruct (Rused p Hp') as [H|[H (t0 & v0 & H0)]]; [left; auto|right; split; auto].
        exists t0, v0. rewrite updp_other; auto. intros ->. rewrite H0 in Hp. inversion Hp; subst. congruence.
    - intros p Hp'. unfold upd. destruct (Z.eqb_spec (cell p) (cell pos)) as [E|E].
      + exfalso. revert E. apply Hne; lia.
      + destruct (Rfree p Hp') as [H|[H (t0 & pk & v0 & H0)]]; [left; auto|right; split; auto].
        exists t0, pk, v0. rewrite updp_other; auto. intros ->. rewrite H0 in Hp. discriminate.
    - intros p. unfold upd. destruct (Z.eqb_spec (cell p) (cell pos)); [lia|apply Rseqb].
    - intros u. destruct (Nat.eq_dec u t) as [->|N].
      + rewrite updp_same. exact I.
      + rewrite updp_other by auto. pose proof (Rph u) as P.
        destruct (ph a u) eqn:Eu; cbn [phase_ok posE posD seqs datas set_data set_posE set_posD set_seq] in *; auto.
        * (* EnqSeen *) destruct P as [P1 P2]. split; auto. unfold upd.
          destruct (Z.eqb_spec (cell pos0) (cell pos)) as [E|E]; [rewrite E in P2; lia|auto].
        * (* EnqClaimed by another thread *) destruct P as [P1 P2]. split; auto. unfold upd.
          destruct (Z.eqb_spec (cell pos0) (cell pos)) as [E|E]; auto.
          exfalso. assert (pos0 = pos) by (apply (cell_inj k Hk); auto; fold cap; lia). subst pos0.
          apply N. eapply RuE; eauto.
        * (* DeqSeen *) destruct P as [P1 P2]. split; auto. unfold upd.
          destruct (Z.eqb_spec (cell pos0) (cell pos)) as [E|E]; [rewrite E in P2; lia|auto].
        * (* DeqClaimed *) destruct P as (P1 & P2 & P3). split; auto. split; auto. unfold upd.
          destruct (Z.eqb_spec (cell pos0) (cell pos)) as [E|E]; auto.
          exfalso. rewrite <- (cell_add_cap k pos0) in E. fold cap in E. revert E. apply Hne; lia.
    - intros u u' v1 v2 p H1 H2.
      destruct (Nat.eq_dec u t) as [->|N1]; [rewrite updp_same in H1; discriminate|].
      destruct (Nat.eq_dec u' t) as [->|N2]; [rewrite updp_same in H2; discriminate|].
      rewrite updp_other in H1, H2 by auto. eapply RuE; eauto.
    - intros u u' pk pk' v1 v2 p H1 H2.
      destruct (Nat.eq_dec u t) as [->|N1]; [rewrite updp_same in H1; discriminate|].
      destruct (Nat.eq_dec u' t) as [->|N2]; [rewrite updp_same in H2; discriminate|].
      rewrite updp_other in H1, H2 by auto. eapply RuD; eauto.
    - intros tc u Hsc Hc. destruct (Nat.eq_dec u t) as [->|N].
      + rewrite updp_same in Hc. contradiction.
      + rewrite updp_other in Hc by auto. eapply Rsc; eauto.
    - intros u Hf. destruct (Nat.eq_dec u t) as [->|N].
      + rewrite updp_same in Hf. contradiction.
      + rewrite updp_other in Hf by auto. apply Rfr; auto.
    - apply Ext_acc. eapply Ext_ext; [|exact Rext].
      intros u. cbn. destruct (Nat.eq_dec u t) as [->|N]; [rewrite updp_same, Hp; auto|rewrite updp_other; auto].
  Qed.

  (** ** D3 succeeds: the dequeuer claims position posDeq and reads the cell; linearization point of a
         successful dequeue / pop_front *)
  Lemma tr_deq_claim g a tr t pk pos :
    RealInv g a tr -> ph a t = DeqSeen pk pos -> posD g = pos ->
    bound (tr ++ Conc.tag t (acc KCas obj_posD true (posD g) (uadd u64 pos 1))) ->
    RealInv (set_posD g (uadd u64 pos 1))
            (lin_ph a t (tl (absq a)) (DeqClaimed pk pos (datas g (Z.land pos (qmask q)))))
            (tr ++ Conc.tag t (acc KCas obj_posD true (posD g) (uadd u64 pos 1))).
  Proof.
    intros R Hp HD Hb. pose proof (bound_app _ _ Hb) as Hb0.
    destruct (ri_bounds g a tr R Hb0) as (B1 & B2 & B3 & B4). pose proof cap2 as C2.
    rewrite (idx_cell tr pos Hb0). rewrite uadd1 by lia.
    destruct R as [Rpos Rcl Rlen Rcont Rused Rfree Rseqb Rph RuE RuD Rsc Rfr Rext].
    pose proof (Rph t) as Pt. rewrite Hp in Pt. cbn [phase_ok] in Pt. destruct Pt as [Pt1 Pt2].
    subst pos.
    assert (Hcell : seqs g (cell (posD g)) = posD g + 1 /\ posD g < posE g).
    { destruct (Z_lt_ge_dec (posD g) (posE g)) as [L|L].
      - split; auto. destruct (Rused (posD g) ltac:(lia)) as [H|[H _]]; lia.
      - exfalso. destruct (Rfree (posD g) ltac:(lia)) as [H|[H _]]; lia. }
    destruct Hcell as [Hs Hlt].
    destruct (absq a) as [|x rest] eqn:Eq; [cbn [length] in Rlen; lia|].
    assert (Hx : x = datas g (cell (posD g))).
    { pose proof (Rcont 0%nat ltac:(cbn; lia)) as H. cbn in H. rewrite Z.add_0_r in H. congruence. }
    cbn [tl].
    constructor; cbn [posE posD seqs datas set_posD absq ph ext lin_ph].
    - lia.
    - rewrite nclaims_app.
      change (nclaims (Conc.tag t (acc KCas obj_posD true (posD g) (posD g + 1)))) with 0. lia.
    - cbn [length] in Rlen. lia.
    - intros i Hi. pose proof (Rcont (S i) ltac:(cbn [length]; lia)) as H. cbn [nth_error] in H.
      rewrite H. replace (posD g + 1 + Z.of_nat i) with (posD g + Z.of_nat (S i)) by lia. reflexivity.
    - intros p Hp'. destruct (Rused p ltac:(lia)) as [H|[H (t0 & v0 & H0)]]; [left; auto|right; split; auto].
      exists t0, v0. rewrite updp_other; auto. intros ->. rewrite H0 in Hp. discriminate.
    - intros p Hp'. destruct (Z.eq_dec p (posD g + cap)) as [->|N].
      + right. assert (Hc : cell (posD g + cap) = cell (posD g)) by apply (cell_add_cap k).
        rewrite Hc. split; [lia|].
        exists t, pk, (datas g (cell (posD g))). rewrite updp_same. f_equal. lia.
      + destruct (Rfree p ltac:(lia)) as [H|[H (t0 & pk0 & v0 & H0)]]; [left; auto|right; split; auto].
        exists t0, pk0, v0. rewrite updp_other; auto. intros ->. rewrite H0 in Hp. discriminate.
    - exact Rseqb.
    - intros u. destruct (Nat.eq_dec u t) as [->|N].
      + rewrite updp_same. cbn [phase_ok posE posD seqs datas set_data set_posE set_posD set_seq]. lia.
      + rewrite updp_other by auto. specialize (Rph u).
        destruct (ph a u) eqn:Eu; cbn [phase_ok posE posD seqs datas set_data set_posE set_posD set_seq] in *; try lia; auto.
        * (* EnqClaimed: its cell is not published, so it is not the cell just dequeued *)
          destruct Rph as [A1 A2]. split; auto.
          destruct (Z.eq_dec pos (posD g)) as [->|E]; lia.
        * (* FrontPos: only the single consumer, which is the thread doing this step *)
          exfalso. apply N. pose proof (Rfr u) as F. rewrite Eu in F. specialize (F I).
          symmetry. eapply Rsc; eauto. rewrite Hp. exact I.
    - intros u u' v1 v2 p H1 H2.
      destruct (Nat.eq_dec u t) as [->|N1]; [rewrite updp_same in H1; discriminate|].
      destruct (Nat.eq_dec u' t) as [->|N2]; [rewrite updp_same in H2; discriminate|].
      rewrite updp_other in H1, H2 by auto. eapply RuE; eauto.
    - intros u u' pk1 pk2 v1 v2 p H1 H2.
      destruct (Nat.eq_dec u t) as [->|N1]; destruct (Nat.eq_dec u' t) as [->|N2]; auto.
      + rewrite updp_same in H1. rewrite updp_other in H2 by auto. inversion H1; subst.
        pose proof (Rph u') as P. rewrite H2 in P. cbn [phase_ok] in P. lia.
      + rewrite updp_same in H2. rewrite updp_other in H1 by auto. inversion H2; subst.
        pose proof (Rph u) as P. rewrite H1 in P. cbn [phase_ok] in P. lia.
      + rewrite updp_other in H1, H2 by auto. eapply RuD; eauto.
    - intros tc u Hsc Hc. destruct (Nat.eq_dec u t) as [->|N].
      + eapply Rsc; eauto. rewrite Hp. exact I.
      + rewrite updp_other in Hc by auto. eapply Rsc; eauto.
    - intros u Hf. destruct (Nat.eq_dec u t) as [->|N].
      + rewrite updp_same in Hf. contradiction.
      + rewrite updp_other in Hf by auto. apply Rfr; auto.
    - apply Ext_acc.
      assert (Hst : (fun u => stat_of (ph a u)) t = sPend (dop pk)) by (cbn; now rewrite Hp).
      pose proof (Ext_lin (x :: rest) (fun u => stat_of (ph a u)) (ext a) tr t (dop pk) Rext Hst) as E.
      assert (E1 : fst (vq_step capn (x :: rest) (dop pk)) = rest) by (destruct pk; reflexivity).
      assert (E2 : snd (vq_step capn (x :: rest) (dop pk)) = dres pk (Some x)) by (destruct pk; reflexivity).
      rewrite E1, E2 in E. eapply Ext_ext; [|exact E].
      intros u. rewrite stat_updp. unfold Lin.upd. destruct (Nat.eqb u t); auto.
      cbn [stat_of]. now rewrite <- Hx.
  Qed.


  (** ** D6: the dequeuer releases its cell for the next lap *)
  Lemma tr_deq_publish g a tr t pk pos v :
    RealInv g a tr -> ph a t = DeqClaimed pk pos v ->
    bound (tr ++ Conc.tag t (acc KSt (obj_seq (Z.land pos (qmask q))) true
                               (uadd u64 (uadd u64 pos (qmask q)) 1) (uadd u64 (uadd u64 pos (qmask q)) 1))) ->
    RealInv (set_seq g (Z.land pos (qmask q)) (uadd u64 (uadd u64 pos (qmask q)) 1))
            (set_ph a t (DeqRet pk (Some v)))
            (tr ++ Conc.tag t (acc KSt (obj_seq (Z.land pos (qmask q))) true
                               (uadd u64 (uadd u64 pos (qmask q)) 1) (uadd u64 (uadd u64 pos (qmask q)) 1))).
  Proof.
    intros R Hp Hb. pose proof (bound_app _ _ Hb) as Hb0.
    destruct (ri_bounds g a tr R Hb0) as (B1 & B2 & B3 & B4). pose proof cap2 as C2.
    destruct R as [Rpos Rcl Rlen Rcont Rused Rfree Rseqb Rph RuE RuD Rsc Rfr Rext].
    pose proof (Rph t) as Pt. rewrite Hp in Pt. cbn [phase_ok] in Pt. destruct Pt as (Pt1 & Pt2 & Pt3).
    rewrite (idx_cell tr pos Hb0).
    rewrite (qmask_val k Hk q Hq (bound_cap tr Hb0)). fold cap.
    rewrite (uadd_small pos (cap - 1)) by lia. rewrite uadd1 by lia.
    replace (pos + (cap - 1) + 1) with (pos + cap) by lia.
    assert (Hc : cell (pos + cap) = cell pos) by apply (cell_add_cap k).
    assert (Hne : forall p, posD g <= p < posD g + cap -> p <> pos + cap -> cell p <> cell pos).
    { intros p Hp' N. rewrite <- Hc. apply (cell_neq k Hk); auto. fold cap. lia. }
    constructor; cbn [posE posD seqs datas set_seq absq ph ext set_ph]; auto.
    - rewrite nclaims_app.
      change (nclaims (Conc.tag t (acc KSt (obj_seq (cell pos)) true (pos + cap) (pos + cap)))) with 0. lia.
    - intros p Hp'. unfold upd. destruct (Z.eqb_spec (cell p) (cell pos)) as [E|E].
      + exfalso. revert E. apply Hne; lia.
      + destruct (Rused p Hp') as [H|[H (t0 & v0 & H0)]]; [left; auto|right; split; auto].
        exists t0, v0. rewrite updp_other; auto. intros ->. rewrite H0 in Hp. discriminate.
    - intros p Hp'. unfold upd. destruct (Z.eqb_spec (cell p) (cell pos)) as [E|E].
      + left. destruct (Z.eq_dec p (pos + cap)) as [->|N]; auto. exfalso. revert E. apply Hne; lia.
      + destruct (Rfree p Hp') as [H|[H (t0 & pk0 & v0 & H0)]]; [left; auto|right; split; auto].
        exists t0, pk0, v0. rewrite updp_other; auto. intros ->. rewrite H0 in Hp. inversion Hp; subst.
        apply E. rewrite <- Hc. f_equal. lia.
    - intros p. unfold upd. destruct (Z.eqb_spec (cell p) (cell pos)); [lia|apply Rseqb].
    - intros u. destruct (Nat.eq_dec u t) as [->|N].
      + rewrite updp_same. exact I.
      + rewrite updp_other by auto. pose proof (Rph u) as P.
        destruct (ph a u) eqn:Eu; cbn [phase_ok posE posD seqs datas set_data set_posE set_posD set_seq] in *; auto.
        * destruct P as [P1 P2]. split; auto. unfold upd.
          destruct (Z.eqb_spec (cell pos0) (cell pos)) as [E|E]; [rewrite E in P2; lia|auto].
        * destruct P as [P1 P2]. split; auto. unfold upd.
          destruct (Z.eqb_spec (cell pos0) (cell pos)) as [E|E]; auto.
          exfalso. revert E. apply Hne; lia.
        * destruct P as [P1 P2]. split; auto. unfold upd.
          destruct (Z.eqb_spec (cell pos0) (cell pos)) as [E|E]; [rewrite E in P2; lia|auto].
        * destruct P as (P1 & P2 & P3). split; auto. split; auto. unfold upd.
          destruct (Z.eqb_spec (cell pos0) (cell pos)) as [E|E]; auto.
          exfalso. assert (pos0 = pos) by (apply (cell_inj k Hk); auto; fold cap; lia). subst pos0.
          apply N. eapply RuD; eauto.
    - intros u u' v1 v2 p H1 H2.
      destruct (Nat.eq_dec u t) as [->|N1]; [rewrite updp_same in H1; discriminate|].
      destruct (Nat.eq_dec u' t) as [->|N2]; [rewrite updp_same in H2; discriminate|].
      rewrite updp_other in H1, H2 by auto. eapply RuE; eauto.
    - intros u u' pk1 pk2 v1 v2 p H1 H2.
      destruct (Nat.eq_dec u t) as [->|N1]; [rewrite updp_same in H1; discriminate|].
      destruct (Nat.eq_dec u' t) as [->|N2]; [rewrite updp_same in H2; discriminate|].
      rewrite updp_other in H1, H2 by auto. eapply RuD; eauto.
    - intros tc u Hsc Hc'. destruct (Nat.eq_dec u t) as [->|N].
      + eapply Rsc; eauto. rewrite Hp. exact I.
      + rewrite updp_other in Hc' by auto. eapply Rsc; eauto.
    - intros u Hf. destruct (Nat.eq_dec u t) as [->|N].
      + rewrite updp_same in Hf. contradiction.
      + rewrite updp_other in Hf by auto. apply Rfr; auto.
    - apply Ext_acc. eapply Ext_ext; [|exact Rext].
      intros u. cbn. destruct (Nat.eq_dec u t) as [->|N]; [rewrite updp_same, Hp; auto|rewrite updp_other; auto].
  Qed.

  (** ** client-level steps (operation invoke / response events emitted by the wrappers of an instance):
         the shared state is untouched, the phase moves between phases without obligations, the instance
         supplies its extension for the new status map and trace *)
  Lemma ri_client g a tr t p' x' es :
    RealInv g a tr ->
    nclaims (Conc.tag t es) = 0 ->
    phase_ok g p' -> unclaimed (ph a t) -> unclaimed p' ->
    (consumer p' -> forall tc, sc = Some tc -> t = tc) -> (is_front p' -> sc = Some t) ->
    Ext (absq a) (fun u => stat_of (updp (ph a) t p' u)) x' (tr ++ Conc.tag t es) ->
    RealInv g (mkAux (absq a) (updp (ph a) t p') x') (tr ++ Conc.tag t es).
  Proof.
    intros R Hn Hok Hu Hu' Hco Hfr HE.
    destruct R as [Rpos Rcl Rlen Rcont Rused Rfree Rseqb Rph RuE RuD Rsc Rfr Rext].
    constructor; cbn [absq ph ext]; auto.
    - rewrite nclaims_app, Hn. lia.
    - intros p Hp. destruct (Rused p Hp) as [H|[H (t0 & v & H0)]]; [left; auto|right; split; auto].
      exists t0, v. rewrite updp_other; auto. intros ->. rewrite H0 in Hu. exact Hu.
    - intros p Hp. destruct (Rfree p Hp) as [H|[H (t0 & pk & v & H0)]]; [left; auto|right; split; auto].
      exists t0, pk, v. rewrite updp_other; auto. intros ->. rewrite H0 in Hu. exact Hu.
    - intros u. destruct (Nat.eq_dec u t) as [->|N]; [rewrite updp_same; auto|rewrite updp_other; auto].
    - intros u u' v v' p H1 H2.
      destruct (Nat.eq_dec u t) as [->|N1]; [rewrite updp_same in H1; rewrite H1 in Hu'; contradiction|].
      destruct (Nat.eq_dec u' t) as [->|N2]; [rewrite updp_same in H2; rewrite H2 in Hu'; contradiction|].
      rewrite updp_other in H1, H2 by auto. eapply RuE; eauto.
    - intros u u' pk pk' v v' p H1 H2.
      destruct (Nat.eq_dec u t) as [->|N1]; [rewrite updp_same in H1; rewrite H1 in Hu'; contradiction|].
      destruct (Nat.eq_dec u' t) as [->|N2]; [rewrite updp_same in H2; rewrite H2 in Hu'; contradiction|].
      rewrite updp_other in H1, H2 by auto. eapply RuD; eauto.
    - intros tc u Hs Hc. destruct (Nat.eq_dec u t) as [->|N].
      + rewrite updp_same in Hc. auto.
      + rewrite updp_other in Hc by auto. eapply Rsc; eauto.
    - intros u Hf. destruct (Nat.eq_dec u t) as [->|N].
      + rewrite updp_same in Hf. auto.
      + rewrite updp_other in Hf by auto. apply Rfr; auto.
  Qed.

  (** ** the proof rule instantiated *)
  Notation safe := (@Conc.safe G V ev Aux (phase * LX) view Inv).

  Lemma view_inv a t p lx : view a t = (p, lx) -> ph a t = p /\ xview (ext a) t = lx.
  Proof. unfold view. intros H. inversion H. auto. Qed.

  (** a step that does not change the shared state: the thread moves to phase [p'] *)
  Lemma step_same g a tr t p p' lx kk o ok rd wr :
    Inv g a tr -> view a t = (p, lx) ->
    nclaims (Conc.tag t (acc kk o ok rd wr)) = 0 ->
    unclaimed p -> unclaimed p' -> stat_of p' = stat_of p ->
    (consumer p' -> consumer p) -> (is_front p' -> is_front p) ->
    (RealInv g a tr -> bound tr -> phase_ok g p') ->
    Inv g (set_ph a t p') (tr ++ Conc.tag t (acc kk o ok rd wr)) /\
    Conc.frame view t a (set_ph a t p') /\ view (set_ph a t p') t = (p', lx).
  Proof.
    intros Hi Hv Hn Hu Hu' Hst Hco Hfr Hok. destruct (view_inv _ _ _ _ Hv) as [Hp Hx].
    split; [|split; [apply frame_set_ph|rewrite view_set_ph, Hx; reflexivity]].
    intros Hb. pose proof (bound_app _ _ Hb) as Hb0. specialize (Hi Hb0).
    apply ri_phase; auto; rewrite Hp; auto.
  Qed.

  (** a linearization point that changes neither the shared state nor the abstract queue *)
  Lemma step_lp g a tr t p p' o lx kk ob ok rd wr :
    Inv g a tr -> view a t = (p, lx) ->
    nclaims (Conc.tag t (acc kk ob ok rd wr)) = 0 ->
    unclaimed p -> unclaimed p' -> stat_of p = sPend o ->
    (consumer p' -> consumer p) -> (is_front p' -> is_front p) ->
    (RealInv g a tr -> bound tr ->
       phase_ok g p' /\ fst (vq_step capn (absq a) o) = absq a /\
       stat_of p' = sLin o (snd (vq_step capn (absq a) o))) ->
    Inv g (lin_ph a t (absq a) p') (tr ++ Conc.tag t (acc kk ob ok rd wr)) /\
    Conc.frame view t a (lin_ph a t (absq a) p') /\ view (lin_ph a t (absq a) p') t = (p', lx).
  Proof.
    intros Hi Hv Hn Hu Hu' Hst Hco Hfr Hok. destruct (view_inv _ _ _ _ Hv) as [Hp Hx].
    split; [|split; [apply frame_lin_ph|rewrite view_lin_ph, Hx; reflexivity]].
    intros Hb. pose proof (bound_app _ _ Hb) as Hb0. specialize (Hi Hb0).
    destruct (Hok Hi Hb0) as (K1 & K2 & K3).
    apply ri_lp with (o := o); auto; rewrite Hp; auto.
  Qed.

  Definition Qenq (v : Z) (lx : LX) : outcome bool -> phase * LX -> Prop :=
    fun r l => match r with
               | Done true => l = (EnqDone v, lx)
               | Done false => l = (EnqFail v, lx)
               | OutOfFuel => True
               | UB => l = (PUB, lx)
               end.

  Definition Qdeq (pk : bool) (lx : LX) : outcome (option Z) -> phase * LX -> Prop :=
    fun r l => match r with
               | Done x => l = (DeqRet pk x, lx)
               | OutOfFuel => True
               | UB => l = (PUB, lx)
               end.

  Definition Qfront (lx : LX) : outcome (option Z) -> phase * LX -> Prop :=
    fun r l => match r with
               | Done x => l = (FrontRet x, lx)
               | OutOfFuel => True
               | UB => l = (PUB, lx)
               end.

  Definition Qempty (lx : LX) : outcome bool -> phase * LX -> Prop :=
    fun r l => match r with
               | Done _ => exists pos, l = (EmPos pos, lx)
               | OutOfFuel => True
               | UB => l = (PUB, lx)
               end.

  Lemma safe_enq_finish t v pos lx :
    safe t (enq_finish q (Z.land pos (qmask q)) pos) (EnqClaimed v pos, lx) (Qenq v lx).
  Proof.
    unfold enq_finish. cbn [Conc.safe]. intros g a tr Hi Hv. destruct (view_inv _ _ _ _ Hv) as [Hp Hx].
    cbn [a_st_seq fst snd].
    exists (set_ph a t (EnqDone v)). split; [|split; [apply frame_set_ph|]].
    - intros Hb. apply tr_enq_publish; auto. apply Hi. eapply bound_app; eauto.
    - rewrite view_set_ph, Hx. destruct (qcount q).
      + cbn [Conc.safe]. intros g2 a2 tr2 Hi2 Hv2. cbn [a_faa_cnt fst snd]. exists a2. split; [|split].
        * intros Hb. apply ri_cnt. apply Hi2. eapply bound_app; eauto.
        * intros ? ?; reflexivity.
        * cbn. exact Hv2.
      + cbn. reflexivity.
  Qed.

  Lemma safe_deq_finish t pk pos v lx :
    safe t (deq_finish q (Z.land pos (qmask q)) pos v) (DeqClaimed pk pos v, lx) (Qdeq pk lx).
  Proof.
    unfold deq_finish. cbn [Conc.safe]. intros g a tr Hi Hv. destruct (view_inv _ _ _ _ Hv) as [Hp Hx].
    cbn [a_st_seq fst snd].
    exists (set_ph a t (DeqRet pk (Some v))). split; [|split; [apply frame_set_ph|]].
    - intros Hb. apply tr_deq_publish; auto. apply Hi. eapply bound_app; eauto.
    - rewrite view_set_ph, Hx. destruct (qcount q).
      + cbn [Conc.safe]. intros g2 a2 tr2 Hi2 Hv2. cbn [a_fas_cnt fst snd]. exists a2. split; [|split].
        * intros Hb. apply ri_cnt. apply Hi2. eapply bound_app; eauto.
        * intros ? ?; reflexivity.
        * cbn. exact Hv2.
      + cbn. reflexivity.
  Qed.


  Ltac use_step S :=
    let I1 := fresh "I1" in let I2 := fresh "I2" in let I3 := fresh "I3" in let Hok := fresh "Hok" in
    match type of S with
    | ?A -> _ =>
        assert (Hok : A);
        [clear S
        |specialize (S Hok); destruct S as (I1 & I2 & I3); eexists;
         split; [exact I1|split; [exact I2|rewrite I3; clear I1 I2 I3 Hok]]]
    end.

  (** facts about a stale enqueue position and the sequence read through it, under the bound *)
  Lemma enq_facts g a tr t v pos lx :
    Inv g a tr -> view a t = (EnqPos v pos, lx) -> bound tr ->
    RealInv g a tr /\ 0 <= pos <= posE g /\ posE g + cap < B62 /\ 0 <= posD g <= posE g /\ posE g <= posD g + cap /\
    0 <= seqs g (Z.land pos (qmask q)) <= posE g + cap /\ Z.land pos (qmask q) = cell pos.
  Proof.
    intros Hi Hv Hb. pose proof (Hi Hb) as R. destruct (view_inv _ _ _ _ Hv) as [Hp Hx].
    destruct (ri_bounds g a tr R Hb) as (B1 & B2 & B3 & B4).
    pose proof (ri_ph R t) as P. rewrite Hp in P. cbn [phase_ok] in P.
    rewrite (idx_cell tr pos Hb). pose proof (ri_seqb g a tr R pos). split; [exact R|]. repeat split; try lia.
  Qed.

  Lemma deq_facts g a tr t pos lx p :
    Inv g a tr -> view a t = (p, lx) -> (p = DeqPos false pos \/ p = DeqPos true pos \/ p = FrontPos pos \/ p = EmPos pos) ->
    bound tr ->
    RealInv g a tr /\ 0 <= pos <= posD g /\ posE g + cap < B62 /\ 0 <= posD g <= posE g /\ posE g <= posD g + cap /\
    0 <= seqs g (Z.land pos (qmask q)) <= posE g + cap /\ Z.land pos (qmask q) = cell pos.
  Proof.
    intros Hi Hv Hc Hb. pose proof (Hi Hb) as R. destruct (view_inv _ _ _ _ Hv) as [Hp Hx].
    destruct (ri_bounds g a tr R Hb) as (B1 & B2 & B3 & B4).
    pose proof (ri_ph R t) as P. rewrite Hp in P.
    rewrite (idx_cell tr pos Hb). pose proof (ri_seqb g a tr R pos).
    split; [exact R|]. destruct Hc as [-> | [-> | [-> | ->]]]; cbn [phase_ok] in P; repeat split; try lia.
  Qed.

  Lemma safe_enq_loop fuel : forall t v pos lx,
    safe t (enq_loop q fuel v pos) (EnqPos v pos, lx) (Qenq v lx).
  Proof.
    induction fuel as [|f IH]; intros t v pos lx; cbn [enq_loop Conc.safe]; [exact I|].
    intros g a tr Hi Hv. cbn [a_ld_seq fst snd vz].
    pose proof (enq_facts g a tr t v pos lx Hi Hv) as F.
    set (idx := Z.land pos (qmask q)) in *. set (s := seqs g idx) in *.
    destruct (sdif s pos) as [dif|] eqn:Ed.
    2: { exists (set_ph a t PUB). split; [|split; [apply frame_set_ph|]].
         - intros Hb. exfalso. destruct (F (bound_app _ _ Hb)) as (_ & F1 & F2 & F3 & F4 & F5 & _).
           rewrite sdif_small in Ed by lia. discriminate.
         - rewrite view_set_ph. destruct (view_inv _ _ _ _ Hv) as [_ Hx]. rewrite Hx. cbn. reflexivity. }
    destruct (Z.eqb_spec dif 0) as [D0|D0].
    - (* dif == 0: try to claim *)
      assert (S := fun Hok => step_same g a tr t (EnqPos v pos) (EnqSeen v pos) lx KLd (obj_seq idx) true s s
                                Hi Hv eq_refl I I eq_refl (fun x => x) (fun x => x) Hok).
      use_step S.
      { intros R Hb. destruct (F Hb) as (_ & F1 & F2 & F3 & F4 & F5 & F6). cbn [phase_ok].
        rewrite sdif_small in Ed by lia. inversion Ed. rewrite <- F6. fold s. split; lia. }
      clear F Hi Hv. cbn [Conc.safe]. intros g2 a2 tr2 Hi2 Hv2. unfold a_cas_posE.
      destruct (Z.eqb_spec (posE g2) pos) as [E|E]; cbn [fst snd vok vz].
      + exists (lin_ph a2 t (absq a2 ++ [v]) (EnqClaimed v pos)). split; [|split; [apply frame_lin_ph|]].
        * intros Hb. destruct (view_inv _ _ _ _ Hv2) as [Hp2 _]. apply tr_enq_claim; auto.
          apply Hi2. eapply bound_app; eauto.
        * rewrite view_lin_ph. destruct (view_inv _ _ _ _ Hv2) as [_ Hx2]. rewrite Hx2. apply safe_enq_finish.
      + assert (S := fun Hok => step_same g2 a2 tr2 t (EnqSeen v pos) (EnqPos v (posE g2)) lx KCas obj_posE false
                                  (posE g2) (uadd u64 pos 1) Hi2 Hv2 eq_refl I I eq_refl (fun x => x) (fun x => x) Hok).
        use_step S.
        { intros R Hb. cbn [phase_ok]. destruct (ri_bounds g2 a2 tr2 R Hb). lia. }
        apply IH.
    - assert (S := fun Hok => step_same g a tr t (EnqPos v pos) (EnqPos v pos) lx KLd (obj_seq idx) true s s
                                Hi Hv eq_refl I I eq_refl (fun x => x) (fun x => x) Hok).
      use_step S.
      { intros R Hb. destruct (F Hb) as (_ & F1 & _). cbn [phase_ok]. lia. }
      clear F Hi Hv.
      assert (Reload : safe t (Act a_ld_posE (fun p0 => enq_loop q f v (vz p0))) (EnqPos v pos, lx) (Qenq v lx)).
      { cbn [Conc.safe]. intros g3 a3 tr3 Hi3 Hv3. cbn [a_ld_posE fst snd vz].
        assert (S := fun Hok => step_same g3 a3 tr3 t (EnqPos v pos) (EnqPos v (posE g3)) lx KLd obj_posE true
                                  (posE g3) (posE g3) Hi3 Hv3 eq_refl I I eq_refl (fun x => x) (fun x => x) Hok).
        use_step S.
        { intros R Hb. cbn [phase_ok]. destruct (ri_bounds g3 a3 tr3 R Hb). lia. }
        apply IH. }
      destruct (Z.ltb_spec dif 0) as [L|L]; [|exact Reload].
      (* dif < 0: queue full? *)
      cbn [Conc.safe]. intros g2 a2 tr2 Hi2 Hv2. cbn [a_ld_posD fst snd vz].
      pose proof (enq_facts g2 a2 tr2 t v pos lx Hi2 Hv2) as F2.
      destruct (usub u64 pos (posD g2) =? qcap q) eqn:Efull.
      + assert (S := fun Hok => step_lp g2 a2 tr2 t (EnqPos v pos) (EnqFail v) (VEnq v) lx KLd obj_posD true
                                  (posD g2) (posD g2) Hi2 Hv2 eq_refl I I eq_refl (fun x => x) (fun x => x) Hok).
        use_step S.
        { intros R Hb. destruct (F2 Hb) as (_ & G1 & G2 & G3 & G4 & _). cbn [phase_ok].
          rewrite Hq in Efull. pose proof cap2.
          rewrite usub_eqb in Efull by lia. apply Z.eqb_eq in Efull.
          assert (Hl : (length (absq a2) <? capn)%nat = false).
          { apply Nat.ltb_ge. pose proof (ri_len g2 a2 tr2 R). pose proof capn_cap. lia. }
          cbn [vq_step bfifo_step]. rewrite Hl. cbn [fst snd stat_of]. auto. }
        cbn. reflexivity.
      + assert (S := fun Hok => step_same g2 a2 tr2 t (EnqPos v pos) (EnqPos v pos) lx KLd obj_posD true
                                  (posD g2) (posD g2) Hi2 Hv2 eq_refl I I eq_refl (fun x => x) (fun x => x) Hok).
        use_step S.
        { intros R Hb. destruct (F2 Hb) as (_ & G1 & _). cbn [phase_ok]. lia. }
        exact Reload.
  Qed.

  Lemma safe_enqueue fuel t v lx :
    safe t (enqueue q fuel v) (PEnq v, lx) (Qenq v lx).
  Proof.
    unfold enqueue. cbn [Conc.safe]. intros g a tr Hi Hv. cbn [a_ld_posE fst snd vz].
    assert (S := fun Hok => step_same g a tr t (PEnq v) (EnqPos v (posE g)) lx KLd obj_posE true
                              (posE g) (posE g) Hi Hv eq_refl I I eq_refl (fun x => x) (fun x => x) Hok).
    use_step S.
    { intros R Hb. cbn [phase_ok]. destruct (ri_bounds g a tr R Hb). lia. }
    apply safe_enq_loop.
  Qed.


  Lemma safe_deq_loop fuel : forall t pk pos lx,
    safe t (deq_loop q fuel pos) (DeqPos pk pos, lx) (Qdeq pk lx).
  Proof.
    induction fuel as [|f IH]; intros t pk pos lx; cbn [deq_loop Conc.safe]; [exact I|].
    intros g a tr Hi Hv. cbn [a_ld_seq fst snd vz].
    assert (F := deq_facts g a tr t pos lx (DeqPos pk pos) Hi Hv ltac:(destruct pk; auto)).
    set (idx := Z.land pos (qmask q)) in *. set (s := seqs g idx) in *.
    destruct (sdif s (uadd u64 pos 1)) as [dif|] eqn:Ed.
    2: { exists (set_ph a t PUB). split; [|split; [apply frame_set_ph|]].
         - intros Hb. exfalso. destruct (F (bound_app _ _ Hb)) as (_ & F1 & F2 & F3 & F4 & F5 & _).
           rewrite uadd1 in Ed by lia. rewrite sdif_small in Ed by lia. discriminate.
         - rewrite view_set_ph. destruct (view_inv _ _ _ _ Hv) as [_ Hx]. rewrite Hx. cbn. reflexivity. }
    destruct (Z.eqb_spec dif 0) as [D0|D0].
    - assert (S := fun Hok => step_same g a tr t (DeqPos pk pos) (DeqSeen pk pos) lx KLd (obj_seq idx) true s s
                                Hi Hv eq_refl I I eq_refl (fun x => x) (fun x => x) Hok).
      use_step S.
      { intros R Hb. destruct (F Hb) as (_ & F1 & F2 & F3 & F4 & F5 & F6). cbn [phase_ok].
        rewrite uadd1 in Ed by lia. rewrite sdif_small in Ed by lia. inversion Ed. rewrite <- F6. fold s. split; lia. }
      clear F Hi Hv. cbn [Conc.safe]. intros g2 a2 tr2 Hi2 Hv2. unfold a_cas_posD.
      destruct (Z.eqb_spec (posD g2) pos) as [E|E]; cbn [fst snd vok vz vdata].
      + exists (lin_ph a2 t (tl (absq a2)) (DeqClaimed pk pos (datas g2 (Z.land pos (qmask q))))).
        split; [|split; [apply frame_lin_ph|]].
        * intros Hb. destruct (view_inv _ _ _ _ Hv2) as [Hp2 _]. apply tr_deq_claim; auto.
          apply Hi2. eapply bound_app; eauto.
        * rewrite view_lin_ph. destruct (view_inv _ _ _ _ Hv2) as [_ Hx2]. rewrite Hx2. apply safe_deq_finish.
      + assert (S := fun Hok => step_same g2 a2 tr2 t (DeqSeen pk pos) (DeqPos pk (posD g2)) lx KCas obj_posD false
                                  (posD g2) (uadd u64 pos 1) Hi2 Hv2 eq_refl I I eq_refl (fun x => x) (fun x => x) Hok).
        use_step S.
        { intros R Hb. cbn [phase_ok]. destruct (ri_bounds g2 a2 tr2 R Hb). lia. }
        apply IH.
    - assert (S := fun Hok => step_same g a tr t (DeqPos pk pos) (DeqPos pk pos) lx KLd (obj_seq idx) true s s
                                Hi Hv eq_refl I I eq_refl (fun x => x) (fun x => x) Hok).
      use_step S.
      { intros R Hb. destruct (F Hb) as (_ & F1 & _). cbn [phase_ok]. lia. }
      clear F Hi Hv.
      assert (Reload : safe t (Act a_ld_posD (fun p0 => deq_loop q f (vz p0))) (DeqPos pk pos, lx) (Qdeq pk lx)).
      { cbn [Conc.safe]. intros g3 a3 tr3 Hi3 Hv3. cbn [a_ld_posD fst snd vz].
        assert (S := fun Hok => step_same g3 a3 tr3 t (DeqPos pk pos) (DeqPos pk (posD g3)) lx KLd obj_posD true
                                  (posD g3) (posD g3) Hi3 Hv3 eq_refl I I eq_refl (fun x => x) (fun x => x) Hok).
        use_step S.
        { intros R Hb. cbn [phase_ok]. destruct (ri_bounds g3 a3 tr3 R Hb). lia. }
        apply IH. }
      destruct (Z.ltb_spec dif 0) as [L|L]; [|exact Reload].
      cbn [Conc.safe]. intros g2 a2 tr2 Hi2 Hv2. cbn [a_ld_posE fst snd vz].
      assert (F2 := deq_facts g2 a2 tr2 t pos lx (DeqPos pk pos) Hi2 Hv2 ltac:(destruct pk; auto)).
      destruct (usub u64 pos (posE g2) =? 0) eqn:Eempty.
      + assert (S := fun Hok => step_lp g2 a2 tr2 t (DeqPos pk pos) (DeqRet pk None) (dop pk) lx KLd obj_posE true
                                  (posE g2) (posE g2) Hi2 Hv2 eq_refl I I eq_refl (fun x => x) (fun x => x) Hok).
        use_step S.
        { intros R Hb. destruct (F2 Hb) as (_ & G1 & G2 & G3 & G4 & _). cbn [phase_ok].
          rewrite usub_eqb in Eempty by lia. apply Z.eqb_eq in Eempty.
          pose proof (ri_len g2 a2 tr2 R) as Hl.
          destruct (absq a2) as [|x r]; [|cbn [length] in Hl; lia].
          destruct pk; cbn; auto. }
        cbn. reflexivity.
      + assert (S := fun Hok => step_same g2 a2 tr2 t (DeqPos pk pos) (DeqPos pk pos) lx KLd obj_posE true
                                  (posE g2) (posE g2) Hi2 Hv2 eq_refl I I eq_refl (fun x => x) (fun x => x) Hok).
        use_step S.
        { intros R Hb. destruct (F2 Hb) as (_ & G1 & _). cbn [phase_ok]. lia. }
        exact Reload.
  Qed.

  Lemma safe_dequeue fuel t pk lx :
    safe t (dequeue q fuel) (PDeq pk, lx) (Qdeq pk lx).
  Proof.
    unfold dequeue. cbn [Conc.safe]. intros g a tr Hi Hv. cbn [a_ld_posD fst snd vz].
    assert (S := fun Hok => step_same g a tr t (PDeq pk) (DeqPos pk (posD g)) lx KLd obj_posD true
                              (posD g) (posD g) Hi Hv eq_refl I I eq_refl (fun x => x) (fun x => x) Hok).
    use_step S.
    { intros R Hb. cbn [phase_ok]. destruct (ri_bounds g a tr R Hb). lia. }
    apply safe_deq_loop.
  Qed.

  (** front(): linearization point at the sequence load that finds the cell of posDeq published (only the
      single consumer moves posDeq, so the position read earlier is still current) *)
  Lemma safe_front_loop fuel : forall t pos lx,
    safe t (front_loop q fuel pos) (FrontPos pos, lx) (Qfront lx).
  Proof.
    induction fuel as [|f IH]; intros t pos lx; cbn [front_loop Conc.safe]; [exact I|].
    intros g a tr Hi Hv. cbn [a_ld_seq fst snd vz vdata].
    assert (F := deq_facts g a tr t pos lx (FrontPos pos) Hi Hv ltac:(auto)).
    set (idx := Z.land pos (qmask q)) in *. set (s := seqs g idx) in *.
    destruct (sdif s (uadd u64 pos 1)) as [dif|] eqn:Ed.
    2: { exists (set_ph a t PUB). split; [|split; [apply frame_set_ph|]].
         - intros Hb. exfalso. destruct (F (bound_app _ _ Hb)) as (_ & F1 & F2 & F3 & F4 & F5 & _).
           rewrite uadd1 in Ed by lia. rewrite sdif_small in Ed by lia. discriminate.
         - rewrite view_set_ph. destruct (view_inv _ _ _ _ Hv) as [_ Hx]. rewrite Hx. cbn. reflexivity. }
    destruct (Z.eqb_spec dif 0) as [D0|D0].
    - assert (S := fun Hok => step_lp g a tr t (FrontPos pos) (FrontRet (Some (datas g idx))) VFront lx KLd (obj_seq idx) true s s
                                Hi Hv eq_refl I I eq_refl (fun x => x) (fun x => x) Hok).
      use_step S.
      { intros R Hb. destruct (F Hb) as (_ & F1 & F2 & F3 & F4 & F5 & F6). cbn [phase_ok].
        rewrite uadd1 in Ed by lia. rewrite sdif_small in Ed by lia. inversion Ed.
        destruct (view_inv _ _ _ _ Hv) as [Hp _].
        pose proof (ri_ph R t) as P. rewrite Hp in P. cbn [phase_ok] in P.
        assert (Hs : seqs g (cell pos) = pos + 1) by (rewrite <- F6; fold s; lia).
        pose proof cap2.
        assert (Hlt : posD g < posE g).
        { destruct (Z_lt_ge_dec (posD g) (posE g)) as [L|L]; auto. exfalso.
          destruct (ri_free g a tr R (posD g) ltac:(lia)) as [H'|[H' _]]; rewrite <- P in H'; lia. }
        pose proof (ri_len g a tr R) as Hl.
        destruct (absq a) as [|x r] eqn:Eq; [cbn [length] in Hl; lia|].
        pose proof (ri_content g a tr R 0%nat) as Hc. rewrite Eq in Hc. specialize (Hc ltac:(cbn; lia)).
        cbn in Hc. rewrite Z.add_0_r, <- P, <- F6 in Hc. inversion Hc.
        split; [exact I|]. split; reflexivity. }
      cbn. reflexivity.
    - assert (S := fun Hok => step_same g a tr t (FrontPos pos) (FrontPos pos) lx KLd (obj_seq idx) true s s
                                Hi Hv eq_refl I I eq_refl (fun x => x) (fun x => x) Hok).
      use_step S.
      { intros R Hb. destruct (view_inv _ _ _ _ Hv) as [Hp _].
        pose proof (ri_ph R t) as P. rewrite Hp in P. exact P. }
      clear F Hi Hv.
      assert (Reload : safe t (Act a_ld_posD (fun p0 => front_loop q f (vz p0))) (FrontPos pos, lx) (Qfront lx)).
      { cbn [Conc.safe]. intros g3 a3 tr3 Hi3 Hv3. cbn [a_ld_posD fst snd vz].
        assert (S := fun Hok => step_same g3 a3 tr3 t (FrontPos pos) (FrontPos (posD g3)) lx KLd obj_posD true
                                  (posD g3) (posD g3) Hi3 Hv3 eq_refl I I eq_refl (fun x => x) (fun x => x) Hok).
        use_step S.
        { intros R Hb. cbn [phase_ok]. reflexivity. }
        apply IH. }
      destruct (Z.ltb_spec dif 0) as [L|L]; [|exact Reload].
      cbn [Conc.safe]. intros g2 a2 tr2 Hi2 Hv2. cbn [a_ld_posE fst snd vz].
      assert (F2 := deq_facts g2 a2 tr2 t pos lx (FrontPos pos) Hi2 Hv2 ltac:(auto)).
      destruct (usub u64 pos (posE g2) =? 0) eqn:Eempty.
      + assert (S := fun Hok => step_lp g2 a2 tr2 t (FrontPos pos) (FrontRet None) VFront lx KLd obj_posE true
                                  (posE g2) (posE g2) Hi2 Hv2 eq_refl I I eq_refl (fun x => x) (fun x => x) Hok).
        use_step S.
        { intros R Hb. destruct (F2 Hb) as (_ & G1 & G2 & G3 & G4 & _). cbn [phase_ok].
          rewrite usub_eqb in Eempty by lia. apply Z.eqb_eq in Eempty.
          pose proof (ri_len g2 a2 tr2 R) as Hl.
          destruct (absq a2) as [|x r]; [|cbn [length] in Hl; lia].
          cbn; auto. }
        cbn. reflexivity.
      + assert (S := fun Hok => step_same g2 a2 tr2 t (FrontPos pos) (FrontPos pos) lx KLd obj_posE true
                                  (posE g2) (posE g2) Hi2 Hv2 eq_refl I I eq_refl (fun x => x) (fun x => x) Hok).
        use_step S.
        { intros R Hb. destruct (view_inv _ _ _ _ Hv2) as [Hp _].
          pose proof (ri_ph R t) as P. rewrite Hp in P. exact P. }
        exact Reload.
  Qed.

  Lemma safe_front fuel t lx :
    safe t (front q fuel) (PFront, lx) (Qfront lx).
  Proof.
    unfold front. cbn [Conc.safe]. intros g a tr Hi Hv. cbn [a_ld_posD fst snd vz].
    assert (S := fun Hok => step_same g a tr t PFront (FrontPos (posD g)) lx KLd obj_posD true
                              (posD g) (posD g) Hi Hv eq_refl I I eq_refl (fun x => x) (fun x => x) Hok).
    use_step S.
    { intros R Hb. cbn [phase_ok]. reflexivity. }
    apply safe_front_loop.
  Qed.

  (** empty(): read-only; no linearizability claim is made for it *)
  Lemma safe_empty_loop fuel : forall t pos lx,
    safe t (empty_loop q fuel pos) (EmPos pos, lx) (Qempty lx).
  Proof.
    induction fuel as [|f IH]; intros t pos lx; cbn [empty_loop Conc.safe]; [exact I|].
    intros g a tr Hi Hv. cbn [a_ld_seq fst snd vz].
    assert (F := deq_facts g a tr t pos lx (EmPos pos) Hi Hv ltac:(auto)).
    set (idx := Z.land pos (qmask q)) in *. set (s := seqs g idx) in *.
    destruct (sdif s (uadd u64 pos 1)) as [dif|] eqn:Ed.
    2: { exists (set_ph a t PUB). split; [|split; [apply frame_set_ph|]].
         - intros Hb. exfalso. destruct (F (bound_app _ _ Hb)) as (_ & F1 & F2 & F3 & F4 & F5 & _).
           rewrite uadd1 in Ed by lia. rewrite sdif_small in Ed by lia. discriminate.
         - rewrite view_set_ph. destruct (view_inv _ _ _ _ Hv) as [_ Hx]. rewrite Hx. cbn. reflexivity. }
    assert (S := fun Hok => step_same g a tr t (EmPos pos) (EmPos pos) lx KLd (obj_seq idx) true s s
                              Hi Hv eq_refl I I eq_refl (fun x => x) (fun x => x) Hok).
    use_step S.
    { intros R Hb. destruct (F Hb) as (_ & F1 & _). cbn [phase_ok]. lia. }
    clear F Hi Hv.
    destruct (Z.eqb_spec dif 0) as [D0|D0]; [cbn; eauto|].
    assert (Reload : safe t (Act a_ld_posD (fun p0 => empty_loop q f (vz p0))) (EmPos pos, lx) (Qempty lx)).
    { cbn [Conc.safe]. intros g3 a3 tr3 Hi3 Hv3. cbn [a_ld_posD fst snd vz].
      assert (S := fun Hok => step_same g3 a3 tr3 t (EmPos pos) (EmPos (posD g3)) lx KLd obj_posD true
                                (posD g3) (posD g3) Hi3 Hv3 eq_refl I I eq_refl (fun x => x) (fun x => x) Hok).
      use_step S.
      { intros R Hb. cbn [phase_ok]. destruct (ri_bounds g3 a3 tr3 R Hb). lia. }
      apply IH. }
    destruct (Z.ltb_spec dif 0) as [L|L]; [|exact Reload].
    cbn [Conc.safe]. intros g2 a2 tr2 Hi2 Hv2. cbn [a_ld_posE fst snd vz].
    assert (F2 := deq_facts g2 a2 tr2 t pos lx (EmPos pos) Hi2 Hv2 ltac:(auto)).
    assert (S := fun Hok => step_same g2 a2 tr2 t (EmPos pos) (EmPos pos) lx KLd obj_posE true
                              (posE g2) (posE g2) Hi2 Hv2 eq_refl I I eq_refl (fun x => x) (fun x => x) Hok).
    use_step S.
    { intros R Hb. destruct (F2 Hb) as (_ & G1 & _). cbn [phase_ok]. lia. }
    destruct (usub u64 pos (posE g2) =? 0); [cbn; eauto|exact Reload].
  Qed.

  Lemma safe_empty fuel t lx :
    safe t (empty q fuel) (PEmpty, lx) (Qempty lx).
  Proof.
    unfold empty. cbn [Conc.safe]. intros g a tr Hi Hv. cbn [a_ld_posD fst snd vz].
    assert (S := fun Hok => step_same g a tr t PEmpty (EmPos (posD g)) lx KLd obj_posD true
                              (posD g) (posD g) Hi Hv eq_refl I I eq_refl (fun x => x) (fun x => x) Hok).
    use_step S.
    { intros R Hb. cbn [phase_ok]. destruct (ri_bounds g a tr R Hb). lia. }
    apply safe_empty_loop.
  Qed.

  Lemma safe_size t lx :
    safe t (size q) (PIdle, lx) (fun _ l => l = (PIdle, lx)).
  Proof.
    unfold size. destruct (qcount q); cbn [Conc.safe]; [|reflexivity].
    intros g a tr Hi Hv. cbn [a_ld_cnt fst snd vz].
    assert (S := fun Hok => step_same g a tr t PIdle PIdle lx KLd obj_cnt true
                              (cnt g) (cnt g) Hi Hv eq_refl I I eq_refl (fun x => x) (fun x => x) Hok).
    use_step S.
    { intros R Hb. exact I. }
    cbn. reflexivity.
  Qed.

End Core.
