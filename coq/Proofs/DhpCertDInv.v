(** * DhpCertDInv: every certified program keeps the open-world free-list invariant [DInv NR f] of instance [f]
      (LV.Proofs.FreeListOpenDhpRules) and returns in phase Busy with no half-created block. *)
From Coq Require Import ZArith NArith List String Bool Lia PeanoNat.
From LV Require Import Base.Conc Base.Events Model.FreeList Model.DhpLang Model.Dhp Proofs.DhpBase Proofs.DhpHist
  Proofs.DhpLangProofs Proofs.FreeListBase Proofs.FreeListInv Proofs.FreeListOpen Proofs.FreeListOpenRules Proofs.FreeListOpenDhp Proofs.FreeListOpenDhpRules
  Proofs.FreeListOpenDhpThm Proofs.DhpCertBase Proofs.DhpStepsB9 Proofs.DhpProgB4 Proofs.DhpCert Proofs.DhpCertProgs.
Import ListNotations.

Section D.
  Variable NR : nat.
  Hypothesis HN2 : (Z.of_nat (S NR) + 2 < FLAG)%Z.
  Variable f : fl.
  Notation dsafeF := (@dsafe Dhp.G ev DAux VF dview (DInv NR f)).
  Notation B0 := (Busy, @None (nat * bool)).

  Definition fbusy {Y} (p : P Y) : Prop :=
    forall t (Q : option Y -> VF -> Prop), (forall x, Q (Some x) B0) -> (forall l, Q None l) -> dsafeF t p B0 Q.

  (** quiet nodes, any view *)
  Lemma dF_emit_q {R} t es (k : @dprog Dhp.G ev R) l Q : qE f es -> dsafeF t k l Q -> dsafeF t (DEmit es k) l Q.
  Proof.
    intros He Hk. cbn [dsafe]. intros g d tr HI Hv. exists d. split; [eapply (DInv_quiet NR HN2); eauto; split; [apply Geq_refl|lia]|].
    split; [apply frame_refl|rewrite Hv; exact Hk].
  Qed.
  Lemma dF_loc_q {R X} t (fn : Dhp.G -> Dhp.G * X) (k : X -> @dprog Dhp.G ev R) l Q :
    (forall g, quietG f g (fst (fn g))) -> (forall x, dsafeF t (k x) l Q) -> dsafeF t (DLoc fn k) l Q.
  Proof.
    intros Hg Hk. cbn [dsafe]. intros g d tr HI Hv. exists d. split.
    - pose proof (DInv_quiet NR HN2 f g (fst (fn g)) d tr t [] HI (Hg g)) as K. cbn in K. rewrite app_nil_r in K. apply K. intros e [].
    - split; [apply frame_refl|rewrite Hv; apply Hk].
  Qed.
  Lemma dF_act_q {R X} t (fa : Dhp.A X) (k : X -> @dprog Dhp.G ev R) l Q :
    (forall g, quietG f g (fst (fst (fa g))) /\ qE f (snd (fa g))) -> (forall x, dsafeF t (k x) l Q) -> dsafeF t (DAct fa k) l Q.
  Proof.
    intros Hg Hk. cbn [dsafe]. intros g d tr HI Hv. destruct (Hg g) as [G1 G2]. exists d.
    split; [eapply (DInv_quiet NR HN2); eauto|]. split; [apply frame_refl|rewrite Hv; apply Hk].
  Qed.

  Lemma fbusy_xbind {X Y} (p : P X) (q : X -> P Y) : fbusy p -> (forall x, fbusy (q x)) -> fbusy (xbind p q).
  Proof. intros Hp Hq t Q HQ HN. apply dsafeF_xbind. apply Hp; [intros x; apply Hq; assumption|exact HN]. Qed.

  Theorem fbusy_PC : (forall Y (p : P Y), Sp f p -> fbusy p) -> forall Y (p : P Y), PC f p -> fbusy p.
  Proof.
    intros HSp Y p H. induction H as [Y r|Y es k He Hk IH|Y X fn k Hg Hk IH|Y X fa k Hg Hk IH|X Y p q Hp IHp Hq IHq|Y p Hs].
    - intros t Q HQ HN. destruct r; [apply HQ|apply HN].
    - intros t Q HQ HN. apply dF_emit_q; auto.
    - intros t Q HQ HN. apply dF_loc_q; [intros g; apply Hg|intros x; apply IH; assumption].
    - intros t Q HQ HN. apply dF_act_q; [intros g; destruct (Hg g) as [[A _] B]; split; assumption|intros x; apply IH; assumption].
    - apply fbusy_xbind; auto.
    - apply HSp. exact Hs.
  Qed.

  (** ** the programs of the own instance *)
  Lemma fq_link_guards b : forall n i, fquiet f (link_guards b i n).
  Proof.
    induction n as [|n IH]; intros i; cbn [link_guards]; [exact I|]. unfold xbind. cbn [act loc dbind fquiet].
    split; [intros g; destruct (qa_st_slot f (GE b i) 0 g) as [[A _] B]; split; assumption|]. intros _.
    split; [intros g; apply (proj1 (qS_qG f _ _ (qS_snext_set g _ _)))|]. intros _. apply IH.
  Qed.
  Lemma fq_clear_slots r : forall n i, fquiet f (clear_slots r i n).
  Proof.
    induction n as [|n IH]; intros i; cbn [clear_slots]; [exact I|]. unfold xbind. cbn [act dbind fquiet].
    split; [intros g; destruct (qa_st_slot f (GI r i) 0 g) as [[A _] B]; split; assumption|]. intros _. apply IH.
  Qed.

  (** get(); then either "_alloc" or creation of a block, up to the point where the block is in hand *)
  Lemma d_alloc_match t (newblk : Dhp.G -> Dhp.G * nat) (o : option nat) (Q : option nat -> VF -> Prop) :
    (forall g, quietG f g (fst (newblk g)) /\ snd (newblk g) < flen (fst (newblk g)) f) ->
    (forall b, Q (Some b) B0) -> (forall l, Q None l) ->
    dsafeF t (match o with
              | Some b => emit [ev_alloc f b] ;;; ret b
              | None => nb <- loc newblk ;; emit [ev_new f nb] ;;; act (a_st_flnext f nb None) ;;; ret nb
              end) (match o with Some b => (PRet (S b), None) | None => B0 end) Q.
  Proof.
    intros Hnew HQ HN. destruct o as [b|]; unfold xbind, emit, loc, act, ret; cbn [dbind].
    - apply (d_emit_alloc NR HN2). apply HQ.
    - apply (d_loc_fresh NR HN2); [exact Hnew|]. intros nb. apply d_emit_new. apply d_act_init; [discriminate|]. apply HQ.
  Qed.

  Lemma d_get_then {Y} t sp (q : option nat -> P Y) (Q : option Y -> VF -> Prop) :
    (forall l, Q None l) -> (forall o, dsafeF t (q o) (match o with Some b => (PRet (S b), None) | None => B0 end) Q) ->
    dsafeF t (xbind (fl_get sp f) q) B0 Q.
  Proof.
    intros HN Hq. apply dsafeF_xbind. eapply dsafe_weaken; [|apply (d_fl_get NR HN2)].
    intros [[h|]|] l' H; cbn in H |- *; subst; auto; apply Hq.
  Qed.
  Lemma d_put_then {Y} t sp n (q : unit -> P Y) (Q : option Y -> VF -> Prop) :
    (forall l, Q None l) -> dsafeF t (q tt) B0 Q -> dsafeF t (xbind (fl_put sp f n) q) (PPut (S n), None) Q.
  Proof.
    intros HN Hq. apply dsafeF_xbind. eapply dsafe_weaken; [|apply (d_fl_put NR HN2)].
    intros [[]|] l' H; cbn in H |- *; subst; auto.
  Qed.
  Lemma d_put_last t sp n (Q : option unit -> VF -> Prop) : Q (Some tt) B0 -> (forall l, Q None l) -> dsafeF t (fl_put sp f n) (PPut (S n), None) Q.
  Proof. intros HQ HN. eapply dsafe_weaken; [|apply (d_fl_put NR HN2)]. intros [[]|] l' H; cbn in H; subst; auto. Qed.
End D.
