(** * Syntactic shape of one operation of the LazyList model (LV.Model.LazyList.run_op), for every argument list, fuel and
      thread-local state: the program either does nothing (unknown operation code) or emits exactly one invocation
      event [ev_inv o] first, then only accesses and client events other than "inv"/"ret" ([quietL]), and either stops
      without a response (out of fuel, result [None]) or ends with exactly one response event [ev_ret a b] immediately
      followed by its return.  Analogue of Proofs/MichaelSetShape.v; used by Proofs/MichaelSetLazyHist.v to show that the
      history of the hash set over lazy lists is sequential per thread across buckets.  The action functions are
      inspected for every shared state. *)
From Coq Require Import ZArith List Bool Arith PeanoNat Lia String.
From LV Require Import Base.Conc Base.Events Model.LazyList.
From LV Require Import Proofs.MichaelSetShape.
Import ListNotations.

(** [qev] (events the history functions ignore) is that of Proofs/MichaelSetShape.v *)
Definition qactL (f : act) : Prop := forall g, forallb qev (snd (f g)) = true.

Fixpoint quietL {R} (p : prog R) : Prop :=
  match p with
  | Ret _ => True
  | Emit es k => forallb qev es = true /\ quietL k
  | Act f k => qactL f /\ forall v, quietL (k v)
  end.

(** the rest of an operation after its invocation event *)
Fixpoint tailL (p : prog (out lstate)) : Prop :=
  match p with
  | Ret r => r = None
  | Emit es k => (forallb qev es = true /\ tailL k) \/ (exists a b r, es = [ev_ret a b] /\ k = Ret (Some r))
  | Act f k => qactL f /\ forall v, tailL (k v)
  end.

Definition opshapeL (o : list Z) (p : prog (out lstate)) : Prop :=
  (exists ls', p = Ret (Some ls')) \/ (exists k, p = Emit [ev_inv o] k /\ tailL k).

Lemma quietL_bind {A B} (p : prog A) (q : A -> prog B) : quietL p -> (forall r, quietL (q r)) -> quietL (Conc.bind p q).
Proof.
  intros Hp Hq. induction p as [r|es k IH|f k IH]; cbn [Conc.bind quietL] in *.
  - apply Hq.
  - destruct Hp as [H1 H2]. split; [exact H1|apply IH; exact H2].
  - destruct Hp as [H1 H2]. split; [exact H1|]. intros v. apply IH. apply H2.
Qed.

Lemma tailL_bind {A} (p : prog A) (q : A -> prog (out lstate)) : quietL p -> (forall r, tailL (q r)) -> tailL (Conc.bind p q).
Proof.
  intros Hp Hq. induction p as [r|es k IH|f k IH]; cbn [Conc.bind quietL tailL] in *.
  - apply Hq.
  - destruct Hp as [H1 H2]. left. split; [exact H1|apply IH; exact H2].
  - destruct Hp as [H1 H2]. split; [exact H1|]. intros v. apply IH. apply H2.
Qed.

Ltac qaL :=
  intros g; unfold a_begin, a_ld, a_st, a_alloc, a_xchg, a_ldlock, a_unlock, a_gst, a_gld, a_sync, a_rld, a_rst, a_nop, a_cnt;
  repeat match goal with |- context [match ?x with _ => _ end] => destruct x end; reflexivity.

Lemma qactL_begin : qactL a_begin. Proof. qaL. Qed.
Lemma qactL_ld n : qactL (a_ld n). Proof. qaL. Qed.
Lemma qactL_st n p m : qactL (a_st n p m). Proof. qaL. Qed.
Lemma qactL_alloc k : qactL (a_alloc k). Proof. qaL. Qed.
Lemma qactL_xchg n : qactL (a_xchg n). Proof. qaL. Qed.
Lemma qactL_ldlock n : qactL (a_ldlock n). Proof. qaL. Qed.
Lemma qactL_unlock n : qactL (a_unlock n). Proof. qaL. Qed.
Lemma qactL_gst t s : qactL (a_gst t s). Proof. qaL. Qed.
Lemma qactL_gld t s : qactL (a_gld t s). Proof. qaL. Qed.
Lemma qactL_sync t : qactL (a_sync t). Proof. qaL. Qed.
Lemma qactL_rld t : qactL (a_rld t). Proof. qaL. Qed.
Lemma qactL_rst t : qactL (a_rst t). Proof. qaL. Qed.
Lemma qactL_cnt k d : qactL (a_cnt k d). Proof. qaL. Qed.
#[global] Hint Resolve qactL_begin qactL_ld qactL_st qactL_alloc qactL_xchg qactL_ldlock qactL_unlock qactL_gst qactL_gld
  qactL_sync qactL_rld qactL_rst qactL_cnt : quietL.

Ltac qtL :=
  repeat first
    [ exact I
    | solve [auto with quietL]
    | match goal with
      | |- quietL (Conc.bind _ _) => apply quietL_bind; [|intros ?]
      | |- quietL (Act _ _) => split; [solve [auto with quietL]|intros ?]
      | |- quietL (Emit _ _) => split; [reflexivity|]
      | |- quietL (if ?c then _ else _) => destruct c
      | |- quietL (match ?x with _ => _ end) => destruct x
      end ].

Lemma protect_quietL : forall fuel t s l, quietL (protect fuel t s l).
Proof. induction fuel as [|f IH]; intros t s l; cbn [protect]; qtL. Qed.
Lemma assign_guard_quietL t s : quietL (assign_guard t s). Proof. unfold assign_guard; qtL. Qed.
Lemma copy_guard_quietL t d s : quietL (copy_guard t d s). Proof. unfold copy_guard, assign_guard; qtL. Qed.
Lemma retire_quietL t : quietL (retire t). Proof. unfold retire; qtL. Qed.
Lemma use_guarded_quietL t s : quietL (use_guarded t s). Proof. unfold use_guarded; qtL. Qed.
Lemma free_guards_quietL t : forall gs fr, quietL (free_guards t gs fr).
Proof. induction gs as [|s r IH]; intros fr; cbn [free_guards]; qtL. Qed.
Lemma cnt_inc_quietL ic : quietL (cnt_inc ic). Proof. unfold cnt_inc; qtL. Qed.
Lemma cnt_dec_quietL ic : quietL (cnt_dec ic). Proof. unfold cnt_dec; qtL. Qed.
#[global] Hint Resolve protect_quietL assign_guard_quietL copy_guard_quietL retire_quietL use_guarded_quietL
  free_guards_quietL cnt_inc_quietL cnt_dec_quietL : quietL.

Lemma lock_loops_quietL : forall fuel n, quietL (lock_outer fuel n) /\ quietL (lock_inner fuel n).
Proof.
  induction fuel as [|f IH]; intros n; cbn [lock_outer lock_inner]; [split; exact I|].
  destruct (IH n) as [IH1 IH2]. split; (split; [auto with quietL|]); intros v; destruct (vmark v); cbn [quietL]; auto.
Qed.
Lemma lock_outer_quietL fuel n : quietL (lock_outer fuel n). Proof. apply lock_loops_quietL. Qed.
Lemma unlock_quietL n : quietL (unlock n). Proof. unfold unlock; qtL. Qed.
#[global] Hint Resolve lock_outer_quietL unlock_quietL : quietL.
Lemma lock_pos_quietL fuel p c : quietL (lock_pos fuel p c). Proof. unfold lock_pos; qtL. Qed.
Lemma unlock_pos_quietL p c : quietL (unlock_pos p c). Proof. unfold unlock_pos; qtL. Qed.
#[global] Hint Resolve lock_pos_quietL unlock_pos_quietL : quietL.

Lemma search_quietL : forall fuel t g0 g1 k pp pc, quietL (search fuel t g0 g1 k pp pc).
Proof. induction fuel as [|f IH]; intros t g0 g1 k pp pc; cbn [search]; qtL. Qed.
Lemma search_from_head_quietL fuel t g0 g1 k : quietL (search_from_head fuel t g0 g1 k).
Proof. unfold search_from_head. apply search_quietL. Qed.
Lemma validate_quietL p c : quietL (validate p c). Proof. unfold validate; qtL. Qed.
Lemma link_node_quietL n p c : quietL (link_node n p c). Proof. unfold link_node; qtL. Qed.
Lemma unlink_node_quietL p c : quietL (unlink_node p c). Proof. unfold unlink_node; qtL. Qed.
#[global] Hint Resolve search_quietL search_from_head_quietL validate_quietL link_node_quietL unlink_node_quietL : quietL.

Lemma insert_loop_quietL sf ic withf t g0 g1 k n : forall fuel, quietL (insert_loop fuel sf ic withf t g0 g1 k n).
Proof. induction fuel as [|f IH]; cbn [insert_loop]; qtL. Qed.
Lemma update_loop_quietL sf ic allow t g0 g1 k n : forall fuel, quietL (update_loop fuel sf ic allow t g0 g1 k n).
Proof. induction fuel as [|f IH]; cbn [update_loop]; qtL. Qed.
Lemma erase_loop_quietL sf ic code mine t g0 g1 k : forall fuel, quietL (erase_loop fuel sf ic code mine t g0 g1 k).
Proof. induction fuel as [|f IH]; cbn [erase_loop]; qtL. Qed.
#[global] Hint Resolve insert_loop_quietL update_loop_quietL erase_loop_quietL : quietL.

Ltac ttL :=
  repeat first
    [ solve [right; do 3 eexists; split; reflexivity]
    | match goal with
      | |- tailL give_up => left; split; reflexivity
      | |- tailL (Conc.bind _ _) => apply tailL_bind; [solve [auto with quietL]|intros ?]
      | |- tailL (Emit _ _) => left; split; [reflexivity|]
      | |- tailL (Act _ _) => split; [solve [auto with quietL]|intros ?]
      | |- tailL (if ?c then _ else _) => destruct c
      | |- tailL (match ?x with _ => _ end) => destruct x
      end ].

Theorem run_op_shapeL fuel sf ic t o ls : opshapeL o (run_op fuel sf ic t o ls).
Proof.
  unfold run_op, opshapeL. destruct ls as [fr own]. destruct (alloc2 fr) as [[g0 g1] fr1].
  destruct (Z.leb 1 (nth 0 o 0%Z) && Z.leb (nth 0 o 0%Z) 10); [right|left; eauto].
  eexists. split; [reflexivity|]. ttL.
Qed.

(** non-vacuity: the insert of key 5 has the invocation / response shape (it is not the trivial left branch) *)
Example run_op_shapeL_nonvacuous :
  exists k, run_op 3 3 false 0 [1; 5; 0; 0]%Z init_ls = Emit [ev_inv [1; 5; 0; 0]%Z] k /\ tailL k.
Proof.
  destruct (run_op_shapeL 3 3 false 0 [1; 5; 0; 0]%Z init_ls) as [(ls' & H)|H]; [discriminate H|exact H].
Qed.
