(** * The invariant of the MSQueue / MoirQueue model and its preservation by every kind of step.

    Auxiliary state: the list of all nodes ever linked, split as [done ++ head :: rest]
    ([done]: former dummies, [rest]: the nodes holding the queued values), and one view per thread:
    its LP status, its private (allocated, unlinked) node, stable facts it has learned
    ("m is linked", "h is not ahead of head", "h->next = x"), and whether it holds a tentative
    linearization point for an empty dequeue (see MSQueueBase). *)
From Coq Require Import ZArith List String Bool Lia PeanoNat.
From LV Require Import Base.Conc Base.Events Base.Lin Spec.Specs Proofs.LinProofs Model.MSQueue Proofs.MSQueueBase.
Import ListNotations.
Local Open Scope list_scope.

Record tview := mkTV {
  tv_st : status Fifo;            (* Idle / Pending op / Linearized op result *)
  tv_priv : option nat;           (* my allocated, not yet linked node *)
  tv_tl : option nat;             (* a node I know to be linked *)
  tv_hd : option nat;             (* a node I know to be head or a former head *)
  tv_nx : option (nat * nat);     (* an edge h -> x I know *)
  tv_cand : bool                  (* I hold a tentative LP "dequeue returned empty" *)
}.

Record Aux := mkAux { done : list nat; rest : list nat; views : nat -> tview }.

Definition view (a : Aux) (t : nat) : tview := views a t.

Definition updv (vs : nat -> tview) (t : nat) (v : tview) : nat -> tview :=
  fun x => if Nat.eqb x t then v else vs x.

(** every auxiliary update has this shape: new split of the node list, new view of thread [t] *)
Definition auxset (a : Aux) (d r : list nat) (t : nat) (v : tview) : Aux := mkAux d r (updv (views a) t v).

Definition LL (g : G) (a : Aux) : list nat := done a ++ head g :: rest a.

Definition tv_ok (g : G) (a : Aux) (v : tview) : Prop :=
  (forall n, tv_priv v = Some n ->
     (n < nalloc g)%nat /\ ~ In n (LL g a) /\ nxt g n = None /\ tv_st v = @Pending Fifo (Enq (val g n))) /\
  (forall m, tv_tl v = Some m -> In m (LL g a)) /\
  (forall h, tv_hd v = Some h -> In h (done a ++ [head g])) /\
  (forall h x, tv_nx v = Some (h, x) -> nxt g h = Some x).

Record Inv (g : G) (a : Aux) (tr : list (nat * ev)) : Prop := mkInv {
  I_nodup : NoDup (LL g a);
  I_linked : linked (nxt g) (LL g a);
  I_lt : forall n, In n (LL g a) -> (n < nalloc g)%nat;
  I_fresh : forall n, (nalloc g <= n)%nat -> nxt g n = None;
  I_tail : In (tail g) (LL g a);
  I_views : forall t, tv_ok g a (views a t);
  I_privs : forall t t' n, t <> t' -> tv_priv (views a t) = Some n -> tv_priv (views a t') <> Some n;
  I_spec : SpecInv (map (val g) (rest a)) (fun t => tv_st (views a t)) (fun t => tv_cand (views a t)) (hist tr)
}.

Lemma updv_same vs t v : updv vs t v t = v.
Proof. unfold updv. now rewrite Nat.eqb_refl. Qed.
Lemma updv_other vs t v x : x <> t -> updv vs t v x = vs x.
Proof. unfold updv. intros H. destruct (Nat.eqb_spec x t); congruence. Qed.

Lemma spec_ext_r q stf cf h stf' cf' :
  SpecInv q stf cf h ->
  (forall t, stf' t = stf t) -> (forall t, cf' t = true -> cf t = true) ->
  SpecInv q stf' cf' h.
Proof. intros H H1 H2. eapply spec_ext; eauto. Qed.

Lemma in_done_LL g a h : In h (done a ++ [head g]) -> In h (LL g a).
Proof.
  unfold LL. intros H. apply in_app_or in H. apply in_or_app. destruct H as [H|[H|[]]]; [now left|].
  right. now left.
Qed.

(** the view of every other thread survives a step that only grows what can be known *)
Lemma tv_ok_mono g a g' a' v :
  tv_ok g a v ->
  (forall n, tv_priv v = Some n -> (n < nalloc g)%nat -> ~ In n (LL g a) -> nxt g n = None ->
     (n < nalloc g')%nat /\ ~ In n (LL g' a') /\ nxt g' n = None /\ val g' n = val g n) ->
  (forall m, In m (LL g a) -> In m (LL g' a')) ->
  (forall h, In h (done a ++ [head g]) -> In h (done a' ++ [head g'])) ->
  (forall h x, nxt g h = Some x -> nxt g' h = Some x) ->
  tv_ok g' a' v.
Proof.
  intros (P1 & P2 & P3 & P4) Hp Hl Hd Hn. repeat split.
  - destruct (P1 n H) as (A & B & C & D). destruct (Hp n H A B C) as (A' & _). exact A'.
  - destruct (P1 n H) as (A & B & C & D). destruct (Hp n H A B C) as (_ & B' & _). exact B'.
  - destruct (P1 n H) as (A & B & C & D). destruct (Hp n H A B C) as (_ & _ & C' & _). exact C'.
  - destruct (P1 n H) as (A & B & C & D). destruct (Hp n H A B C) as (_ & _ & _ & D'). rewrite D'. exact D.
  - intros m Hm. auto.
  - intros h Hh. auto.
  - intros h x Hx. auto.
Qed.

(** ** steps that change neither the shared queue state nor the LP status *)

(** an access event leaves the history alone *)
Lemma Inv_acc g a tr t k o b : Inv g a tr -> Inv g a (tr ++ Conc.tag t [EvAcc k o b]).
Proof.
  intros [H1 H2 H3 H4 H5 H6 H7 H8]. constructor; auto.
  rewrite hist_app, hist_acc, app_nil_r. exact H8.
Qed.

(** a client event that is not an invoke / response *)
Lemma Inv_cli_other g a tr t name args :
  hev_of t (EvCli name args) = [] -> Inv g a tr -> Inv g a (tr ++ Conc.tag t [EvCli name args]).
Proof.
  intros He [H1 H2 H3 H4 H5 H6 H7 H8]. constructor; auto.
  rewrite hist_snoc, He, app_nil_r. exact H8.
Qed.

(** the thread replaces the facts it remembers *)
Lemma Inv_setv g a tr t v' :
  Inv g a tr ->
  tv_st v' = tv_st (views a t) -> tv_priv v' = tv_priv (views a t) -> tv_cand v' = tv_cand (views a t) ->
  (forall m, tv_tl v' = Some m -> In m (LL g a)) ->
  (forall h, tv_hd v' = Some h -> In h (done a ++ [head g])) ->
  (forall h x, tv_nx v' = Some (h, x) -> nxt g h = Some x) ->
  Inv g (auxset a (done a) (rest a) t v') tr.
Proof.
  intros [H1 H2 H3 H4 H5 H6 H7 H8] Es Ep Ec Ht Hh Hn.
  constructor; auto; cbn [auxset views done rest].
  - intros x. destruct (Nat.eq_dec x t) as [->|Hne].
    + rewrite updv_same. destruct (H6 t) as (P1 & _). repeat split; auto;
        rewrite Ep in H; try rewrite Es; apply (P1 n H).
    + rewrite updv_other by exact Hne. apply H6.
  - intros x x' n Hne. destruct (Nat.eq_dec x t) as [->|N1]; destruct (Nat.eq_dec x' t) as [->|N2];
      try congruence; rewrite ?updv_same, ?updv_other by assumption; rewrite ?Ep; eauto.
  - eapply spec_ext; [| |exact H8].
    + intros x. cbn. destruct (Nat.eq_dec x t) as [->|Hne]; [now rewrite updv_same|now rewrite updv_other].
    + intros x. cbn. destruct (Nat.eq_dec x t) as [->|Hne]; [rewrite updv_same; congruence|now rewrite updv_other].
Qed.

(** the item counter *)
Lemma Inv_cnt g a tr c : Inv g a tr -> Inv (set_cnt g c) a tr.
Proof. intros [H1 H2 H3 H4 H5 H6 H7 H8]. constructor; auto. Qed.

(** the tail pointer moves to a linked node *)
Lemma Inv_tail g a tr x : Inv g a tr -> In x (LL g a) -> Inv (set_tail g x) a tr.
Proof. intros [H1 H2 H3 H4 H5 H6 H7 H8] Hx. constructor; auto. Qed.

(** ** invoke / response events *)
Lemma Inv_event g a tr t (e : aev Fifo) name args s' v' :
  Inv g a tr ->
  tv_cand (views a t) = false ->
  (forall f : stmap, f t = tv_st (views a t) ->
     @lp_step Fifo (map (val g) (rest a), f) e = Some (map (val g) (rest a), Lin.upd f t s')) ->
  hev_of t (EvCli name args) = erase [e] ->
  tv_priv (views a t) = None ->
  v' = mkTV s' None None None None false ->
  Inv g (auxset a (done a) (rest a) t v') (tr ++ Conc.tag t [EvCli name args]).
Proof.
  intros [H1 H2 H3 H4 H5 H6 H7 H8] Hc Hstep He Hp ->.
  constructor; auto; cbn [auxset views done rest].
  - intros x. destruct (Nat.eq_dec x t) as [->|Hne].
    + rewrite updv_same. repeat split; cbn; intros; discriminate.
    + rewrite updv_other by exact Hne. apply H6.
  - intros x x' n Hne. destruct (Nat.eq_dec x t) as [->|N1]; destruct (Nat.eq_dec x' t) as [->|N2];
      try congruence; rewrite ?updv_same, ?updv_other by assumption; cbn; try discriminate; eauto.
  - rewrite hist_snoc, He.
    eapply spec_ext_r; [eapply spec_event; [exact H8|exact Hc|exact Hstep]| |].
    + intros x. cbn. unfold Lin.upd. destruct (Nat.eqb_spec x t) as [->|Hne];
        [now rewrite updv_same|now rewrite updv_other].
    + intros x. cbn. destruct (Nat.eq_dec x t) as [->|Hne]; [rewrite updv_same; discriminate|now rewrite updv_other].
Qed.

(** ** node construction *)
Lemma Inv_alloc g a tr t v tl hd nx :
  Inv g a tr ->
  views a t = mkTV (@Pending Fifo (Enq v)) None tl hd nx false ->
  Inv (fst (fst (a_alloc v g)))
      (auxset a (done a) (rest a) t (mkTV (@Pending Fifo (Enq v)) (Some (nalloc g)) None None None false)) tr.
Proof.
  intros [H1 H2 H3 H4 H5 H6 H7 H8] Hv. cbn [a_alloc fst].
  set (n := nalloc g).
  assert (HnL : ~ In n (done a ++ head g :: rest a)).
  { intros Hin. apply H3 in Hin. unfold n in Hin. lia. }
  constructor; unfold LL in *; cbn [auxset views done rest head tail nxt val nalloc]; auto.
  - eapply linked_ext; [|exact H2]. intros x Hx. cbn.
    destruct (Nat.eqb_spec x n) as [->|]; [contradiction|reflexivity].
  - intros x Hx. apply H3 in Hx. lia.
  - intros x Hx. destruct (Nat.eqb_spec x n) as [->|]; [reflexivity|]. apply H4. unfold n in *. lia.
  - intros x. destruct (Nat.eq_dec x t) as [->|Hne].
    + rewrite updv_same. split; [|repeat split; cbn; intros; discriminate].
      cbn. intros m Hm. injection Hm as <-. fold n. rewrite Nat.eqb_refl. auto.
    + rewrite updv_other by exact Hne.
      eapply tv_ok_mono; [apply H6| | | |]; unfold LL; cbn; auto.
      * intros m _ Hm Hm1 Hm2. fold n. destruct (Nat.eqb_spec m n) as [->|]; [unfold n in Hm; lia|].
        repeat split; auto.
      * intros h x0 Hx. destruct (Nat.eqb_spec h n) as [->|]; [|exact Hx].
        rewrite H4 in Hx by (unfold n; lia). discriminate.
  - intros x x' m Hne. destruct (Nat.eq_dec x t) as [->|N1]; destruct (Nat.eq_dec x' t) as [->|N2];
      try congruence; rewrite ?updv_same, ?updv_other by assumption; cbn.
    + intros E; injection E as <-. intros E'. destruct (H6 x') as (P1 & _).
      destruct (P1 _ E') as (A & _). unfold n in A. lia.
    + intros E E'. injection E' as <-. destruct (H6 x) as (P1 & _).
      destruct (P1 _ E) as (A & _). unfold n in A. lia.
    + eauto.
  - assert (Em : map (fun x => if Nat.eqb x n then v else val g x) (rest a) = map (val g) (rest a)).
    { apply map_ext_in. intros x Hx. destruct (Nat.eqb_spec x n) as [->|]; [|reflexivity].
      exfalso. apply HnL. apply in_or_app. right. now right. }
    rewrite Em. eapply spec_ext; [| |exact H8].
    + intros x. cbn. destruct (Nat.eq_dec x t) as [->|Hne]; [rewrite updv_same, Hv; reflexivity|now rewrite updv_other].
    + intros x. cbn. destruct (Nat.eq_dec x t) as [->|Hne]; [rewrite updv_same; discriminate|now rewrite updv_other].
Qed.

(** ** linearization point of enqueue: the successful CAS on the last node's next pointer *)
Lemma Inv_link g a tr t v n tl hd nx :
  Inv g a tr ->
  views a t = mkTV (@Pending Fifo (Enq v)) (Some n) (Some tl) hd nx false ->
  nxt g tl = None ->
  Inv (set_next g tl (Some n))
      (auxset a (done a) (rest a ++ [n]) t
         (mkTV (@Linearized Fifo (Enq v) (RBool true)) None (Some n) None None false)) tr.
Proof.
  intros [H1 H2 H3 H4 H5 H6 H7 H8] Hv Hnone.
  destruct (H6 t) as (P1 & P2 & _). rewrite Hv in P1, P2. cbn in P1, P2.
  destruct (P1 n eq_refl) as (A & B & C & D). injection D as D.
  pose proof (P2 tl eq_refl) as Htl.
  destruct (linked_last _ _ _ H2 Htl Hnone) as (l' & El).
  assert (ELL : forall g', head g' = head g -> done a ++ head g' :: (rest a ++ [n]) = LL g a ++ [n]).
  { intros g' ->. unfold LL. now rewrite <- app_assoc. }
  assert (Hne : n <> tl) by (intros ->; contradiction).
  assert (Hltl : (tl < nalloc g)%nat) by (apply H3; exact Htl).
  constructor; unfold LL; cbn [auxset views done rest set_next head tail nxt val nalloc].
  - rewrite (ELL g eq_refl). rewrite El in *. apply NoDup_snoc; [exact H1|exact B].
  - rewrite (ELL g eq_refl). rewrite El in *.
    apply NoDup_remove_2 in H1. rewrite app_nil_r in H1.
    eapply linked_snoc; eauto.
    + intros Hin. apply B. apply in_or_app. now left.
    + intros y Hy. cbn. destruct (Nat.eqb_spec y tl); congruence.
    + cbn. now rewrite Nat.eqb_refl.
  - rewrite (ELL g eq_refl). intros x Hx. apply in_app_or in Hx. destruct Hx as [Hx|[<-|[]]]; auto.
  - intros x Hx. destruct (Nat.eqb_spec x tl) as [->|]; [lia|]. auto.
  - rewrite (ELL g eq_refl). apply in_or_app. now left.
  - intros x. destruct (Nat.eq_dec x t) as [->|Hnx].
    + rewrite updv_same. repeat split; cbn; try (intros; discriminate).
      intros m Hm. injection Hm as <-. rewrite (ELL g eq_refl). apply in_or_app. right. now left.
    + rewrite updv_other by exact Hnx.
      eapply tv_ok_mono; [apply H6| | | |]; unfold LL; cbn [auxset views done rest set_next head tail nxt val nalloc]; auto.
      * intros m Hm Hm0 Hm1 Hm2. repeat split; auto.
        -- rewrite (ELL g eq_refl). intros Hin. apply in_app_or in Hin. destruct Hin as [Hin|[<-|[]]]; [contradiction|].
           apply (H7 x t n Hnx Hm). rewrite Hv. reflexivity.
        -- destruct (Nat.eqb_spec m tl) as [->|]; [contradiction|exact Hm2].
      * intros m Hm. rewrite (ELL g eq_refl). apply in_or_app. now left.
      * intros h x0 Hx. destruct (Nat.eqb_spec h tl) as [->|]; [congruence|exact Hx].
  - intros x x' m Hnx. destruct (Nat.eq_dec x t) as [->|N1]; destruct (Nat.eq_dec x' t) as [->|N2];
      try congruence; rewrite ?updv_same, ?updv_other by assumption; cbn; try discriminate; eauto.
  - rewrite map_app. cbn [map]. rewrite <- D. rewrite <- (app_nil_r (hist tr)).
    change (@nil (hev Fifo)) with (erase [@ALin Fifo t]).
    eapply spec_ext_r; [eapply spec_event with (t := t) (s' := @Linearized Fifo (Enq v) (RBool true)); [exact H8| |]| |].
    + cbn. now rewrite Hv.
    + intros f Hf. cbn beta in Hf. rewrite Hv in Hf. cbn in Hf.
      apply step_lin_enq. exact Hf.
    + intros x. cbn. unfold Lin.upd. destruct (Nat.eqb_spec x t) as [->|Hnx];
        [rewrite updv_same; reflexivity|now rewrite updv_other].
    + intros x. cbn. destruct (Nat.eq_dec x t) as [->|Hnx]; [rewrite updv_same; discriminate|now rewrite updv_other].
Qed.

(** ** linearization point of a successful dequeue: the successful CAS on head *)
Lemma Inv_headcas g a tr t h x tl hd :
  Inv g a tr ->
  views a t = mkTV (@Pending Fifo Deq) None tl hd (Some (h, x)) false ->
  head g = h ->
  Inv (set_head g x)
      (auxset a (done a ++ [h]) (List.tl (rest a)) t
         (mkTV (@Linearized Fifo Deq (RVal (Some (val g x)))) None None (Some x) None false)) tr.
Proof.
  intros [H1 H2 H3 H4 H5 H6 H7 H8] Hv Hh.
  destruct (H6 t) as (_ & _ & _ & P4). rewrite Hv in P4. cbn in P4.
  pose proof (P4 h x eq_refl) as Hnx.
  assert (Er : exists r', rest a = x :: r').
  { unfold LL in H2. rewrite Hh in H2. pose proof (linked_mid _ _ _ _ H2) as Hm. rewrite Hnx in Hm.
    destruct (rest a) as [|b r']; [discriminate|]. injection Hm as <-. now exists r'. }
  destruct Er as (r' & Er).
  assert (ELL : (done a ++ [h]) ++ x :: r' = done a ++ h :: x :: r') by (now rewrite <- app_assoc).
  assert (EL0 : LL g a = done a ++ h :: x :: r') by (unfold LL; now rewrite Hh, Er).
  rewrite EL0 in H1, H2, H3, H5.
  constructor; unfold LL; cbn [auxset views done rest set_head head tail nxt val nalloc]; rewrite ?Er; cbn [List.tl];
    rewrite ?ELL; auto.
  - intros y. destruct (Nat.eq_dec y t) as [->|Hny].
    + rewrite updv_same. repeat split; cbn; try (intros; discriminate).
      intros h0 E. injection E as <-. apply in_or_app. right. now left.
    + rewrite updv_other by exact Hny.
      eapply tv_ok_mono; [apply H6| | | |]; rewrite ?EL0; unfold LL;
        cbn [auxset views done rest set_head head tail nxt val nalloc]; rewrite ?Er; cbn [List.tl]; rewrite ?ELL; auto.
      intros h0 Hh0. apply in_or_app. left. rewrite <- Hh. exact Hh0.
  - intros y y' m Hny. destruct (Nat.eq_dec y t) as [->|N1]; destruct (Nat.eq_dec y' t) as [->|N2];
      try congruence; rewrite ?updv_same, ?updv_other by assumption; cbn; try discriminate; eauto.
  - rewrite Er in H8. cbn [map] in H8. rewrite <- (app_nil_r (hist tr)).
    change (@nil (hev Fifo)) with (erase [@ALin Fifo t]).
    eapply spec_ext_r; [eapply spec_event with (t := t) (s' := @Linearized Fifo Deq (RVal (Some (val g x)))); [exact H8| |]| |].
    + cbn. now rewrite Hv.
    + intros f Hf. cbn beta in Hf. rewrite Hv in Hf. cbn in Hf. apply step_lin_deq. exact Hf.
    + intros y. cbn. unfold Lin.upd. destruct (Nat.eqb_spec y t) as [->|Hny];
        [rewrite updv_same; reflexivity|now rewrite updv_other].
    + intros y. cbn. destruct (Nat.eq_dec y t) as [->|Hny]; [rewrite updv_same; discriminate|now rewrite updv_other].
Qed.

(** ** tentative linearization point of the empty dequeue *)

(** a node that is head or a former head and whose next pointer is null is the head, and it is the last
    node: the abstract queue is empty at this instant *)
Lemma empty_now g a tr h :
  Inv g a tr -> In h (done a ++ [head g]) -> nxt g h = None -> rest a = [].
Proof.
  intros [H1 H2 H3 H4 H5 H6 H7 H8] Hin Hn.
  destruct (linked_last _ _ _ H2 (in_done_LL _ _ _ Hin) Hn) as (l' & El).
  unfold LL in *. destruct (rest a) as [|b r] eqn:Er; [reflexivity|exfalso].
  (* h is the last element of done ++ head :: b :: r, hence not in done ++ [head] *)
  assert (E2 : done a ++ head g :: b :: r = (done a ++ [head g]) ++ b :: r) by (now rewrite <- app_assoc).
  rewrite E2 in El, H1.
  assert (Hlast : In h (b :: r)).
  { assert (Hr : rev ((done a ++ [head g]) ++ b :: r) = rev (l' ++ [h])) by (now rewrite El).
    rewrite rev_app_distr in Hr. rewrite (rev_app_distr l') in Hr. cbn [rev app] in Hr.
    destruct (rev r ++ [b]) as [|z zs] eqn:Ez.
    - destruct (rev r); discriminate.
    - cbn in Hr. injection Hr as Hz _. subst z.
      apply in_rev. cbn [rev]. rewrite Ez. now left. }
  clear -H1 Hin Hlast.
  induction (done a ++ [head g]) as [|y l IH]; [destruct Hin|].
  cbn in H1. inversion H1 as [|? ? Hy Hnd]; subst. destruct Hin as [->|Hin].
  - apply Hy. apply in_or_app. now right.
  - auto.
Qed.

Lemma Inv_cand_set g a tr t h tl nx :
  Inv g a tr ->
  views a t = mkTV (@Pending Fifo Deq) None tl (Some h) nx false ->
  nxt g h = None ->
  Inv g (auxset a (done a) (rest a) t (mkTV (@Pending Fifo Deq) None None (Some h) None true)) tr.
Proof.
  intros HI Hv Hn. pose proof HI as [H1 H2 H3 H4 H5 H6 H7 H8].
  destruct (H6 t) as (_ & _ & P3 & _). rewrite Hv in P3. cbn in P3.
  pose proof (P3 h eq_refl) as Hin.
  pose proof (empty_now _ _ _ _ HI Hin Hn) as Er.
  constructor; auto; cbn [auxset views done rest].
  - intros x. destruct (Nat.eq_dec x t) as [->|Hne].
    + rewrite updv_same. repeat split; cbn; try (intros; discriminate).
      intros m Hm. injection Hm as <-. exact Hin.
    + rewrite updv_other by exact Hne. apply H6.
  - intros x x' n Hne. destruct (Nat.eq_dec x t) as [->|N1]; destruct (Nat.eq_dec x' t) as [->|N2];
      try congruence; rewrite ?updv_same, ?updv_other by assumption; cbn; try discriminate; eauto.
  - rewrite Er in *. cbn [map] in *.
    eapply spec_ext_r; [eapply spec_set_cand with (t := t); [exact H8|]| |].
    + cbn. now rewrite Hv.
    + intros x. cbn. destruct (Nat.eq_dec x t) as [->|Hne]; [rewrite updv_same, Hv; reflexivity|now rewrite updv_other].
    + intros x. cbn. unfold updb. destruct (Nat.eqb_spec x t) as [->|Hne]; [auto|now rewrite updv_other].
Qed.

(** MoirQueue: the same load is a plain linearization point *)
Lemma Inv_empty_lp g a tr t h tl nx :
  Inv g a tr ->
  views a t = mkTV (@Pending Fifo Deq) None tl (Some h) nx false ->
  nxt g h = None ->
  Inv g (auxset a (done a) (rest a) t (mkTV empty_lin None None None None false)) tr.
Proof.
  intros HI Hv Hn. pose proof HI as [H1 H2 H3 H4 H5 H6 H7 H8].
  destruct (H6 t) as (_ & _ & P3 & _). rewrite Hv in P3. cbn in P3.
  pose proof (P3 h eq_refl) as Hin.
  pose proof (empty_now _ _ _ _ HI Hin Hn) as Er.
  constructor; auto; cbn [auxset views done rest].
  - intros x. destruct (Nat.eq_dec x t) as [->|Hne].
    + rewrite updv_same. repeat split; cbn; intros; discriminate.
    + rewrite updv_other by exact Hne. apply H6.
  - intros x x' n Hne. destruct (Nat.eq_dec x t) as [->|N1]; destruct (Nat.eq_dec x' t) as [->|N2];
      try congruence; rewrite ?updv_same, ?updv_other by assumption; cbn; try discriminate; eauto.
  - rewrite Er in *. cbn [map] in *. rewrite <- (app_nil_r (hist tr)).
    change (@nil (hev Fifo)) with (erase [@ALin Fifo t]).
    eapply spec_ext_r; [eapply spec_event with (t := t) (s' := empty_lin); [exact H8| |]| |].
    + cbn. now rewrite Hv.
    + intros f Hf. cbn beta in Hf. rewrite Hv in Hf. cbn in Hf. cbn. rewrite Hf. reflexivity.
    + intros x. cbn. unfold Lin.upd. destruct (Nat.eqb_spec x t) as [->|Hne];
        [rewrite updv_same; reflexivity|now rewrite updv_other].
    + intros x. cbn. destruct (Nat.eq_dec x t) as [->|Hne]; [rewrite updv_same; discriminate|now rewrite updv_other].
Qed.

Lemma Inv_confirm g a tr t tl hd nx :
  Inv g a tr ->
  views a t = mkTV (@Pending Fifo Deq) None tl hd nx true ->
  Inv g (auxset a (done a) (rest a) t (mkTV empty_lin None None None None false)) tr.
Proof.
  intros [H1 H2 H3 H4 H5 H6 H7 H8] Hv.
  constructor; auto; cbn [auxset views done rest].
  - intros x. destruct (Nat.eq_dec x t) as [->|Hne].
    + rewrite updv_same. repeat split; cbn; intros; discriminate.
    + rewrite updv_other by exact Hne. apply H6.
  - intros x x' n Hne. destruct (Nat.eq_dec x t) as [->|N1]; destruct (Nat.eq_dec x' t) as [->|N2];
      try congruence; rewrite ?updv_same, ?updv_other by assumption; cbn; try discriminate; eauto.
  - eapply spec_ext; [| |eapply spec_confirm with (t := t); [exact H8|]].
    + intros x. cbn. unfold Lin.upd. destruct (Nat.eqb_spec x t) as [->|Hne];
        [rewrite updv_same; reflexivity|now rewrite updv_other].
    + intros x. cbn. unfold updb. destruct (Nat.eqb_spec x t) as [->|Hne];
        [rewrite updv_same; discriminate|now rewrite updv_other].
    + cbn. now rewrite Hv.
Qed.

Lemma Inv_discard g a tr t tl hd nx c :
  Inv g a tr ->
  views a t = mkTV (@Pending Fifo Deq) None tl hd nx c ->
  Inv g (auxset a (done a) (rest a) t (mkTV (@Pending Fifo Deq) None None None None false)) tr.
Proof.
  intros [H1 H2 H3 H4 H5 H6 H7 H8] Hv.
  constructor; auto; cbn [auxset views done rest].
  - intros x. destruct (Nat.eq_dec x t) as [->|Hne].
    + rewrite updv_same. repeat split; cbn; intros; discriminate.
    + rewrite updv_other by exact Hne. apply H6.
  - intros x x' n Hne. destruct (Nat.eq_dec x t) as [->|N1]; destruct (Nat.eq_dec x' t) as [->|N2];
      try congruence; rewrite ?updv_same, ?updv_other by assumption; cbn; try discriminate; eauto.
  - eapply spec_ext; [| |eapply spec_discard with (t := t); exact H8].
    + intros x. cbn. destruct (Nat.eq_dec x t) as [->|Hne]; [rewrite updv_same, Hv; reflexivity|now rewrite updv_other].
    + intros x. cbn. unfold updb. destruct (Nat.eqb_spec x t) as [->|Hne];
        [rewrite updv_same; discriminate|now rewrite updv_other].
Qed.

(** ** initial state *)
Definition v_idle : tview := mkTV (@Idle Fifo) None None None None false.
Definition aux0 : Aux := mkAux [] [] (fun _ => v_idle).

Lemma Inv_init : Inv init aux0 [].
Proof.
  constructor; unfold LL; cbn.
  - constructor; [intros []|constructor].
  - auto.
  - intros n [<-|[]]. lia.
  - reflexivity.
  - now left.
  - intros t. repeat split; cbn; intros; discriminate.
  - intros; discriminate.
  - apply spec_init.
Qed.
