(** DhpFlBStepsB7: copy of LV.Proofs.DhpStepsB7 over the pointer-free invariant of LV.Proofs.DhpFlBInv ([JW] trivial, [retired_tr] empty:
    the "retired once" hypothesis of [InvB] is gone); the text differs from the original only where the JW part of a goal was proved. *)
(** * DhpStepsB7: scan stage 2 and the call of the disposer. *)
From Coq Require Import ZArith NArith List String Bool Lia PeanoNat.
From LV Require Import Base.Conc Base.Events Model.DhpLang Model.Dhp Proofs.DhpBase Proofs.DhpSeq Proofs.DhpSeqThm Proofs.DhpHist
  Proofs.DhpLangProofs Proofs.DhpAllocA Proofs.DhpInvB Proofs.DhpFlBInv Proofs.DhpFlBQuietB Proofs.DhpFlBQuietB2 Proofs.DhpFlBRulesB Proofs.DhpFlBStepsB1 Proofs.DhpFlBStepsB3
  Proofs.DhpFlBStepsB4 Proofs.DhpFlBStepsB6.
Import ListNotations.

Section StepsB7.
  Variable c : cfg.
  Notation RB := (c_RB c).
  Hypothesis HRB : 4 <= RB.
  Let HRB1 : 1 <= RB. Proof. lia. Qed.

  Ltac vwt t := let t' := fresh "t'" in intros t'; cbn; unfold fn; destruct (Nat.eqb_spec t' t) as [->|]; cbn; auto.

  Definition aux_st2 (a : AuxB) (t r : nat) (freed : list nat) (ext : bool) : AuxB :=
    aux_arr a t r (set_full (set_freed (bvs a t) freed) (if ext then Some r else None))
            (fun q => if memb q freed then LFly t else wh a q) (rw a r - List.length freed).

  Lemma S_stage2 g a tr t r pl :
    In r (vb_own (bvs a t)) -> vb_dead (bvs a t) <> Some r -> (forall ob, vb_move (bvs a t) <> Some (r, ob)) ->
    (vb_full (bvs a t) = None \/ vb_full (bvs a t) = Some r) -> vb_freed (bvs a t) = [] ->
    JB c g a tr ->
    JB c (fst (stage2 c r pl g)) (aux_st2 a t r (fst (snd (stage2 c r pl g))) (snd (snd (stage2 c r pl g)))) tr.
  Proof.
    intros Hr Hd Hnm Hfu Hfr J.
    assert (Hcase : rch a r = [] \/ rch a r <> []) by (destruct (rch a r); [left|right]; congruence).
    destruct Hcase as [Ech|Hne].
    - (* no array *)
      destruct (JB_rec1 c g a tr t r J Hr Hd Ech) as (Hh & Hc & _ & _).
      assert (Hfu0 : vb_full (bvs a t) = None).
      { destruct Hfu as [X|X]; auto. destruct J as [_ _ [_ _ _ _ _ R6] _]. destruct (R6 t r X) as (_ & Y). contradiction. }
      assert (Est : stage2 c r pl g = (upd_rec g r (rs_cur None 0), ([], false))).
      { unfold stage2. rewrite Hh. cbn. reflexivity. }
      rewrite Est. cbn [fst snd]. unfold aux_st2. cbn [List.length]. rewrite Nat.sub_0_r.
      pose proof (JB_cur_none c HRB g a tr t r 0 Hr Ech Hd Hnm J) as [O1 K1 R1 W1]. constructor.
      + eapply JO_frame with (a := a); eauto. vwt t.
      + eapply JK_frame with (a := a); eauto. vwt t.
      + eapply JR_frame with (a := a); eauto.
        all: try solve [intros r'; cbn; unfold fn; destruct (Nat.eqb_spec r' r) as [->|]; auto].
        all: try solve [intros t'; cbn; unfold fn; destruct (Nat.eqb_spec t' t) as [->|]; cbn; auto; rewrite Hfu0; auto].
        all: try solve [vwt t].
      + apply JW_triv.
    - destruct (JB_rec2 c g a tr t r J Hr Hne) as (Hlt & Hal & I & Hrb & Hmw & _).
      pose proof (JB_unmoved c g a tr t r J Hr Hnm) as Hmv.
      pose proof (stage2_spec c pl g r (rch a r) (rw a r) HRB1 I) as S.
      destruct (stage2 c r pl g) as [g' [freed ext]] eqn:Est. cbn [fst snd].
      destruct S as (w' & I' & Ec' & Efr & Ew & _ & Hext & _ & F).
      assert (Ew' : rw a r - List.length freed = w') by lia. unfold aux_st2. rewrite Ew'.
      set (v' := set_full (set_freed (bvs a t) freed) (if ext then Some r else None)).
      assert (Hlen : 1 <= List.length (rch a r)) by (destruct (rch a r); [contradiction|cbn; lia]).
      assert (Hw' : w' < List.length (rch a r) * RB \/ vb_full v' = Some r).
      { unfold v'. destruct ext; [right; reflexivity|left]. destruct I as [_ _ _ _ _ Iw _].
        destruct (Nat.eq_dec (rw a r) (List.length (rch a r) * RB)) as [E|N]; [|lia].
        assert (Hq : 1 <= (List.length (rch a r) * RB) / 4) by (apply Nat.div_str_pos; nia).
        destruct (Nat.lt_ge_cases (List.length freed) ((List.length (rch a r) * RB) / 4)) as [L|L]; [discriminate (Hext E L)|lia]. }
      assert (Hfu' : forall r0, vb_full v' = Some r0 -> r0 = r) by (unfold v'; destruct ext; cbn; congruence).
      destruct (arr_op c HRB1 g g' a tr t r v' (fun q => if memb q freed then LFly t else wh a q) w' J Hr Hne Hmv Hnm Hfu F I' Hw' Hfu'
                  eq_refl eq_refl eq_refl eq_refl eq_refl eq_refl eq_refl eq_refl) as (JO' & JK' & JR' & Eec).
      destruct J as [O1 K1 R1 [W1 W2 W3 W4 W5]].
      constructor; auto. apply JW_triv.
  Qed.

  (** the disposer is called on the pointers stage 2 freed *)
  Definition aux_disp (a : AuxB) (t : nat) (freed : list nat) : AuxB :=
    mkAuxB (fn (bvs a) t (set_freed (bvs a t) [])) (rbown a) (fun q => if memb q freed then LDisp else wh a q)
           (rch a) (rw a) (moved a) (dead a) (tl a).

  Lemma S_dispose g a tr t :
    JB c g a tr -> JB c g (aux_disp a t (vb_freed (bvs a t))) (tr ++ Conc.tag t (map ev_dispose (vb_freed (bvs a t)))).
  Proof.
    intros [O1 K1 R1 [W1 W2 W3 W4 W5]]. set (freed := vb_freed (bvs a t)).
    constructor.
    - eapply JO_frame with (g := g) (a := a); eauto. vwt t.
    - rewrite hist_app, freeh_dispose. eapply JK_frame with (g := g) (a := a); eauto. vwt t.
    - eapply JR_frame with (g := g) (a := a); eauto; vwt t.
    - apply JW_triv.
  Qed.
End StepsB7.
