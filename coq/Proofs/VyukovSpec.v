(** * Sequential specification used for the Vyukov queue: the bounded FIFO of LV.Spec.Specs extended with the
      single-consumer operations front() (observe the oldest item) and pop_front() (remove it, report whether
      there was one); transfer of LP-annotated traces between [BFifo cap] and this specification; the
      conservation law of valid traces (enqueued = dequeued ++ content). *)
From Coq Require Import ZArith List Bool Lia PeanoNat.
From LV Require Import Base.Lin Spec.Specs.
Import ListNotations.
Local Open Scope Z_scope.

Inductive vop := VEnq (x : Z) | VDeq | VFront | VPopFront.

Definition vq_step (cap : nat) (q : list Z) (o : vop) : list Z * res :=
  match o with
  | VEnq x => bfifo_step cap q (Enq x)
  | VDeq => bfifo_step cap q Deq
  | VFront => (q, RVal (hd_error q))
  | VPopFront => match q with [] => ([], RBool false) | _ :: q' => (q', RBool true) end
  end.

Definition VQ (cap : nat) : Spec := mkSpec [] (vq_step cap).

(** generic facts about [lp_run] (re-proved here so that this development only depends on the definitions
    of LV.Base.Lin) *)
Lemma lp_run_app {Sp : Spec} (c : config Sp) tr1 tr2 :
  lp_run c (tr1 ++ tr2) = match lp_run c tr1 with Some c' => lp_run c' tr2 | None => None end.
Proof. revert c; induction tr1 as [|e tr1 IH]; simpl; intros c; auto. destruct (lp_step c e); auto. Qed.

Lemma erase_app {Sp : Spec} (tr1 tr2 : list (aev Sp)) : erase (tr1 ++ tr2) = erase tr1 ++ erase tr2.
Proof. induction tr1 as [|[t o|t|t r] tr1 IH]; simpl; auto; now rewrite IH. Qed.

Lemma upd_same {Sp : Spec} (st : nat -> status Sp) t x : Lin.upd st t x t = x.
Proof. unfold Lin.upd. now rewrite Nat.eqb_refl. Qed.
Lemma upd_other {Sp : Spec} (st : nat -> status Sp) t x u : u <> t -> Lin.upd st t x u = st u.
Proof. unfold Lin.upd. intros H. destruct (Nat.eqb_spec u t); congruence. Qed.

(** ** embedding of the plain bounded FIFO *)
Definition emb (o : qop) : vop := match o with Enq x => VEnq x | Deq => VDeq end.

Lemma vq_step_emb cap q o : vq_step cap q (emb o) = bfifo_step cap q o.
Proof. destruct o; reflexivity. Qed.

Definition emb_aev {cap} (e : aev (BFifo cap)) : aev (VQ cap) :=
  match e with
  | AInv t o => @AInv (VQ cap) t (emb o)
  | ALin t => @ALin (VQ cap) t
  | ARes t r => @ARes (VQ cap) t r
  end.

Definition emb_status {cap} (s : status (BFifo cap)) : status (VQ cap) :=
  match s with
  | Idle => @Idle (VQ cap)
  | Pending o => @Pending (VQ cap) (emb o)
  | Linearized o r => @Linearized (VQ cap) (emb o) r
  end.

Lemma lp_step_emb cap (q : St (VQ cap)) (st : nat -> status (BFifo cap)) (st' : nat -> status (VQ cap)) e :
  (forall t, st' t = emb_status (st t)) ->
  match @lp_step (VQ cap) (q, st') (emb_aev e), @lp_step (BFifo cap) (q, st) e with
  | Some (q1, s1), Some (q2, s2) => q1 = q2 /\ forall t, s1 t = emb_status (s2 t)
  | None, None => True
  | _, _ => False
  end.
Proof.
  intros H. destruct e as [t o|t|t r]; cbn [emb_aev lp_step].
  - rewrite (H t). destruct (st t); cbn [emb_status]; auto. split; auto.
    intros u. unfold Lin.upd. destruct (u =? t)%nat; auto.
  - rewrite (H t). destruct (st t) as [|o|o r]; cbn [emb_status]; auto.
    change (sstep (VQ cap) q (emb o)) with (vq_step cap q (emb o)). rewrite vq_step_emb.
    change (sstep (BFifo cap) q o) with (bfifo_step cap q o). split; auto.
    intros u. unfold Lin.upd. destruct (u =? t)%nat; auto.
  - rewrite (H t). destruct (st t) as [|o|o r']; cbn [emb_status]; auto.
    change (res_eqb (VQ cap)) with res_beq. change (res_eqb (BFifo cap)) with res_beq.
    destruct (res_beq r r'); auto. split; auto.
    intros u. unfold Lin.upd. destruct (u =? t)%nat; auto.
Qed.

Lemma lp_run_emb cap (tr : list (aev (BFifo cap))) : forall q st st',
  (forall t, st' t = emb_status (st t)) ->
  match @lp_run (VQ cap) (q, st') (map emb_aev tr), @lp_run (BFifo cap) (q, st) tr with
  | Some (q1, s1), Some (q2, s2) => q1 = q2 /\ forall t, s1 t = emb_status (s2 t)
  | None, None => True
  | _, _ => False
  end.
Proof.
  induction tr as [|e tr IH]; intros q st st' H; cbn [map lp_run].
  - split; auto.
  - pose proof (lp_step_emb cap q st st' e H) as K. revert K.
    destruct (@lp_step (VQ cap) (q, st') (emb_aev e)) as [[q1 s1]|];
      destruct (@lp_step (BFifo cap) (q, st) e) as [[q2 s2]|]; intros K; try contradiction.
    + cbn in K. destruct K as [<- K]. apply IH; auto.
    + exact I.
Qed.

(** an annotated trace over [VQ] all of whose invocations are enqueue/dequeue *)
Fixpoint unemb {cap} (tr : list (aev (VQ cap))) : option (list (aev (BFifo cap))) :=
  match tr with
  | [] => Some []
  | e :: r =>
      match unemb r with
      | None => None
      | Some r' =>
          match e with
          | AInv t (VEnq x) => Some (@AInv (BFifo cap) t (Enq x) :: r')
          | AInv t VDeq => Some (@AInv (BFifo cap) t Deq :: r')
          | AInv _ _ => None
          | ALin t => Some (@ALin (BFifo cap) t :: r')
          | ARes t x => Some (@ARes (BFifo cap) t x :: r')
          end
      end
  end.

Lemma unemb_map cap (tr : list (aev (VQ cap))) tr' : unemb tr = Some tr' -> map emb_aev tr' = tr.
Proof.
  revert tr'; induction tr as [|e r IH]; intros tr' H; cbn [unemb] in H.
  - inversion H; reflexivity.
  - destruct (unemb r) as [r'|]; [|discriminate]. specialize (IH r' eq_refl).
    destruct e as [t [x| | |]|t|t x]; inversion H; subst tr'; cbn [map emb_aev emb]; rewrite IH; reflexivity.
Qed.

Lemma unemb_app cap (a b : list (aev (VQ cap))) a' b' :
  unemb a = Some a' -> unemb b = Some b' -> unemb (a ++ b) = Some (a' ++ b').
Proof.
  revert a'; induction a as [|e r IH]; intros a' Ha Hb; cbn [unemb app] in *.
  - inversion Ha; subst; exact Hb.
  - destruct (unemb r) as [r'|]; [|discriminate]. rewrite (IH r' eq_refl Hb).
    destruct e as [t [x| | |]|t|t x]; inversion Ha; subst; reflexivity.
Qed.

Theorem lp_valid_unemb cap (tr : list (aev (VQ cap))) tr' :
  unemb tr = Some tr' -> lp_valid (VQ cap) tr -> lp_valid (BFifo cap) tr'.
Proof.
  intros Hu (c & Hc). apply unemb_map in Hu. subst tr.
  pose proof (lp_run_emb cap tr' (sinit (VQ cap)) (fun _ => Idle) (fun _ => Idle) (fun _ => eq_refl)) as K.
  unfold lp_valid, lp_init. unfold lp_init in Hc. revert K.
  change (@lp_run (VQ cap) (sinit (VQ cap), fun _ => Idle) (map emb_aev tr')) with
         (@lp_run (VQ cap) (sinit (VQ cap), fun _ : nat => @Idle (VQ cap)) (map emb_aev tr')).
  rewrite Hc. destruct c as [q1 s1]. intros K.
  match type of K with match ?x with _ => _ end => destruct x as [[q2 s2]|] eqn:E end; [|contradiction].
  exists (q2, s2). exact E.
Qed.

Lemma erase_emb cap (tr : list (aev (BFifo cap))) :
  @erase (VQ cap) (map emb_aev tr) =
  map (fun e : hev (BFifo cap) => match e with HInv t o => @HInv (VQ cap) t (emb o) | HRes t r => @HRes (VQ cap) t r end)
      (@erase (BFifo cap) tr).
Proof. induction tr as [|[t o|t|t r] tr IH]; cbn; auto; now rewrite IH. Qed.

(** ** conservation: along a valid trace, the values enqueued successfully (in linearization order) are the
       values dequeued / popped (in linearization order) followed by the present content *)
Section Conservation.
  Context (cap : nat).

  (** values moved by the linearization points of a trace, replayed from configuration [c] *)
  Fixpoint moved (c : config (VQ cap)) (tr : list (aev (VQ cap))) : list Z * list Z :=
    match tr with
    | [] => ([], [])
    | e :: r =>
        match lp_step c e with
        | None => ([], [])
        | Some c' =>
            let (en, de) := moved c' r in
            match e with
            | ALin t =>
                match snd c t with
                | Pending (VEnq x) => if (length (fst c) <? cap)%nat then (x :: en, de) else (en, de)
                | Pending VDeq | Pending VPopFront =>
                    match fst c with [] => (en, de) | y :: _ => (en, y :: de) end
                | _ => (en, de)
                end
            | _ => (en, de)
            end
        end
    end.

  Lemma conservation tr : forall (c c' : config (VQ cap)),
    lp_run c tr = Some c' ->
    fst c ++ fst (moved c tr) = snd (moved c tr) ++ fst c'.
  Proof.
    induction tr as [|e r IH]; intros c c' H; cbn [lp_run moved] in *.
    - inversion H; subst. cbn. now rewrite app_nil_r.
    - destruct (lp_step c e) as [c1|] eqn:E; [|discriminate].
      specialize (IH c1 c' H). destruct (moved c1 r) as [en de] eqn:M. cbn [fst snd] in IH.
      destruct c as [q st]. destruct e as [t o|t|t x]; cbn [lp_step] in E.
      + destruct (st t); inversion E; subst; exact IH.
      + cbn [fst snd]. destruct (st t) as [|o|o x]; try discriminate. inversion E; subst c1; clear E.
        cbn [fst] in IH. change (sstep (VQ cap) q o) with (vq_step cap q o) in IH.
        destruct o as [x| | |]; cbn [vq_step bfifo_step fifo_step fst] in IH.
        * destruct (length q <? cap)%nat; cbn [fst snd] in *.
          -- rewrite <- IH. rewrite <- app_assoc. reflexivity.
          -- exact IH.
        * destruct q as [|y q']; cbn [fst snd app] in *; [exact IH|]. rewrite <- IH. reflexivity.
        * cbn [fst snd]. exact IH.
        * destruct q as [|y q']; cbn [fst snd app] in *; [exact IH|]. rewrite <- IH. reflexivity.
      + destruct (st t) as [|o|o x']; try discriminate.
        destruct (res_eqb (VQ cap) x x'); inversion E; subst; exact IH.
  Qed.
End Conservation.
