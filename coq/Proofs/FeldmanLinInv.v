(** * Linearizability of the step-grain Feldman model: invariant with linearization-point bookkeeping.

    On top of the structural invariant of FeldmanStepInv: an LP-annotated trace [atr] (ghost), valid for the sequential
    set over HASH VALUES (FeldmanHashSet identifies an item with its hash), whose abstract state is exactly the set of
    hashes present in the tree and whose history is the invoke/response history of the model's trace.
    Linearization points: the slot CAS of a successful insert / inserting update / erase; every other outcome (failed
    insert, update of an existing item - the replacing CAS included -, failed erase, failed update without insert,
    contains) is a read of the key and linearizes at the thread's own last observation of the slot on the path of its
    hash (technique and the pure LP lemmas [to_pending], [lin_read], [obs_res] of C13, Proofs/MichaelListFullInv.v). *)
From Coq Require Import ZArith NArith List Bool Arith PeanoNat Lia String.
From LV Require Import Base.Conc Base.Events Base.Lin Spec.Specs Proofs.LinProofs.
From LV Require Import Model.Feldman Proofs.FeldmanStepInv Proofs.FeldmanStepSafe Proofs.FeldmanStepThm Proofs.PartitionLin.
From LV Require Proofs.MichaelListInv Proofs.MichaelListFullInv.
Import ListNotations.

Set Implicit Arguments.

Module MF := LV.Proofs.MichaelListFullInv.
Module MI := LV.Proofs.MichaelListInv.

Section Lin.
  Variables (hbits abits W : nat) (hs : list N).
  Hypothesis Hh : 0 < hbits.
  Hypothesis Ha : 0 < abits.

  Notation hash := (Feldman.hash hs).
  Notation cut := Feldman.cut.
  Notation bits_of := (Feldman.bits_of hbits abits).
  Notation Inv := (@FeldmanStepInv.Inv hbits abits hs).
  Notation present := (FeldmanStepThm.present hs).
  Notation statusS := (status SetSpec).

  (** ** linked array nodes are reachable *)
  Lemma pfx_reach g A tr : Inv g A tr -> forall n a o pre, o <= n -> pfx A a = Some (o, pre) -> reach_arr g a.
  Proof.
    intros HI. induction n as [|n IH]; intros a o pre Hle Hp.
    - destruct (i_lim HI _ Hp) as (_ & _ & _ & Hnz). destruct (Nat.eq_dec a 0) as [->|Hne]; [constructor|]. specialize (Hnz Hne). lia.
    - destruct (Nat.eq_dec a 0) as [->|Hne]; [constructor|].
      destruct (i_parent HI Hp Hne) as (pa & i & po & ppre & H1 & H2 & H3 & H4).
      unfold child in H4. injection H4 as E1 E2. pose proof (bits_pos Hh Ha pa).
      eapply ra_child; [eapply (IH pa po ppre); [lia|exact H1]|exact H2].
  Qed.

  (** ** what the slot on the path of [h] tells about the presence of [h] *)
  Lemma obs_slot g A tr a o h p :
    Inv g A tr -> pfx A a = Some (o, (h mod 2 ^ N.of_nat o)%N) -> arr g a (cut h o (bits_of a)) = mkSlot p 0 ->
    (present g h <-> (p <> 0 /\ hash (ikey g p) = h)).
  Proof.
    intros HI Hp Hs. split.
    - intros (a' & i' & p' & (Hr' & b' & Hs' & Hb' & Hp0') & Eh).
      destruct (reach_pfx HI Hr') as (o' & pre' & Hp').
      destruct (i_data HI _ _ Hp' Hs' Hb' Hp0') as ((F1 & F2) & _). rewrite Eh in F1, F2. rewrite <- F1 in Hp'.
      destruct (lt_eq_lt_dec o o') as [[Hlt|Heq]|Hlt].
      + exfalso. destruct (@on_path hbits abits hs Hh Ha g A tr h a o HI Hp o' a' o' (le_n o') Hp' Hlt) as (c & Hc).
        rewrite Hs in Hc. discriminate.
      + subst o'. assert (a = a') by (eapply (i_inj HI); eauto). subst a'. rewrite F2 in Hs'. rewrite Hs in Hs'.
        inversion Hs'; subst. auto.
      + exfalso. destruct (@on_path hbits abits hs Hh Ha g A tr h a' o' HI Hp' o a o (le_n o) Hp Hlt) as (c & Hc).
        rewrite <- F2 in Hc. rewrite Hs' in Hc. inversion Hc; congruence.
    - intros (Hp0 & Eh). exists a, (cut h o (bits_of a)), p. split; [|exact Eh].
      split; [eapply pfx_reach with (n := o); eauto|]. exists 0. repeat split; auto.
  Qed.

  (** ** effect of a data CAS on presence *)
  Section Write.
    Variables (g : G) (A : Aux) (tr : list (nat * ev)) (a i p q o : nat) (pre : N).
    Hypothesis HI : Inv g A tr.
    Hypothesis Hs : arr g a i = mkSlot p 0.
    Hypothesis Hp : pfx A a = Some (o, pre).
    Let g' := with_arr g (set_slot (arr g) a i (mkSlot q 0)).

    Lemma write_reach x : reach_arr g' x <-> reach_arr g x.
    Proof.
      apply reach_arr_ext. intros y j c. unfold g'; cbn.
      destruct (set_slot_cases (arr g) a i (mkSlot q 0) y j) as [[E Hv]|[E Hv]]; rewrite Hv; [|tauto].
      inversion E; subst. rewrite Hs. split; discriminate.
    Qed.

    Lemma write_data_at x j r :
      data_at g' x j r <-> (((x, j) = (a, i) /\ r = q /\ q <> 0) \/ ((x, j) <> (a, i) /\ data_at g x j r)).
    Proof.
      assert (Ra : reach_arr g a) by (eapply pfx_reach with (n := o); eauto).
      unfold data_at. rewrite write_reach. unfold g'; cbn [arr with_arr].
      destruct (set_slot_cases (arr g) a i (mkSlot q 0) x j) as [[E Hv]|[E Hv]]; rewrite Hv.
      - inversion E; subst x j. split.
        + intros (_ & b & Hb & Hb2 & Hr0). inversion Hb; subst. left. auto.
        + intros [(_ & -> & Hq)|(Hne & _)]; [|congruence]. split; [exact Ra|]. exists 0. repeat split; auto.
      - split.
        + intros H. right. split; assumption.
        + intros [(E' & _)|(_ & H)]; [congruence|exact H].
    Qed.

    Lemma write_present x :
      present g' x <-> ((q <> 0 /\ hash (ikey g q) = x) \/ (exists a' i' p', (a', i') <> (a, i) /\ data_at g a' i' p' /\ hash (ikey g p') = x)).
    Proof.
      unfold FeldmanStepThm.present. split.
      - intros (a' & i' & p' & Hd & Hx). apply write_data_at in Hd. unfold g' in Hx; cbn [ikey with_arr] in Hx.
        destruct Hd as [(E & -> & Hq)|(Hne & Hd)]; [left; auto|right; eauto 6].
      - intros [(Hq & Hx)|(a' & i' & p' & Hne & Hd & Hx)].
        + exists a, i, q. split; [apply write_data_at; left; auto|exact Hx].
        + exists a', i', p'. split; [apply write_data_at; right; auto|exact Hx].
    Qed.
  End Write.

  (** insert into an empty slot on the path of [h] *)
  Lemma insert_present g A tr a o h q :
    Inv g A tr -> pfx A a = Some (o, (h mod 2 ^ N.of_nat o)%N) -> arr g a (cut h o (bits_of a)) = snull ->
    q <> 0 -> hash (ikey g q) = h ->
    forall x, present (with_arr g (set_slot (arr g) a (cut h o (bits_of a)) (mkSlot q 0))) x <-> (x = h \/ present g x).
  Proof.
    intros HI Hp Hs Hq Hh' x. rewrite (@write_present g A tr a (cut h o (bits_of a)) 0 q o _ HI Hs Hp x). split.
    - intros [(_ & E)|(a' & i' & p' & _ & Hd & E)]; [left; congruence|right; exists a', i', p'; auto].
    - intros [->|(a' & i' & p' & Hd & E)]; [left; auto|]. right. exists a', i', p'. split; [|split; [exact Hd|exact E]].
      intros E'. inversion E'; subst. destruct Hd as (_ & b & Hb & _ & Hp0). unfold snull in Hs. rewrite Hs in Hb. inversion Hb; congruence.
  Qed.

  (** erase of the item with hash [h] *)
  Lemma erase_present g A tr a o pre i p :
    Inv g A tr -> pfx A a = Some (o, pre) -> arr g a i = mkSlot p 0 -> p <> 0 ->
    forall x, present (with_arr g (set_slot (arr g) a i (mkSlot 0 0))) x <-> (present g x /\ x <> hash (ikey g p)).
  Proof.
    intros HI Hp Hs Hp0 x. rewrite (@write_present g A tr a i p 0 o pre HI Hs Hp x).
    assert (Da : data_at g a i p).
    { split; [eapply pfx_reach with (n := o); eauto|]. exists 0. repeat split; auto. }
    split.
    - intros [(Hq & _)|(a' & i' & p' & Hne & Hd & E)]; [congruence|]. split; [exists a', i', p'; auto|].
      intros ->. destruct (nodup_inv Hh Ha HI Hd Da E) as (E1 & E2 & _). subst. congruence.
    - intros ((a' & i' & p' & Hd & E) & Hne). right. exists a', i', p'. split; [|split; [exact Hd|exact E]].
      intros E'. inversion E'; subst a' i'. destruct Hd as (_ & b & Hb & _ & _). rewrite Hs in Hb. inversion Hb; subst. congruence.
  Qed.

  (** replacing an item by one with the same hash *)
  Lemma replace_present g A tr a o pre i p q :
    Inv g A tr -> pfx A a = Some (o, pre) -> arr g a i = mkSlot p 0 -> p <> 0 -> q <> 0 ->
    hash (ikey g q) = hash (ikey g p) ->
    forall x, present (with_arr g (set_slot (arr g) a i (mkSlot q 0))) x <-> present g x.
  Proof.
    intros HI Hp Hs Hp0 Hq Eh x. rewrite (@write_present g A tr a i p q o pre HI Hs Hp x).
    assert (Da : data_at g a i p).
    { split; [eapply pfx_reach with (n := o); eauto|]. exists 0. repeat split; auto. }
    split.
    - intros [(_ & E)|(a' & i' & p' & _ & Hd & E)]; [exists a, i, p; split; [exact Da|congruence]|exists a', i', p'; auto].
    - intros (a' & i' & p' & Hd & E). destruct (Nat.eq_dec a' a) as [->|Hna]; [destruct (Nat.eq_dec i' i) as [->|Hni]|].
      + left. destruct Hd as (_ & b & Hb & _ & _). rewrite Hs in Hb. inversion Hb; subst. split; [exact Hq|congruence].
      + right. exists a, i', p'. split; [congruence|split; [exact Hd|exact E]].
      + right. exists a', i', p'. split; [congruence|split; [exact Hd|exact E]].
  Qed.

  (** ** the history of a trace *)
  Definition hz (k : Z) : Z := Z.of_N (hash (Z.to_nat k)).
  Definition spec_op (c k : Z) : set_op :=
    if Z.eqb c 1 then SInsert (hz k) else if Z.eqb c 3 then SUpdate (hz k) true else if Z.eqb c 4 then SUpdate (hz k) false
    else if Z.eqb c 7 then SErase (hz k) else SContains (hz k).
  Definition nz (a : Z) : bool := negb (Z.eqb a 0).
  Definition res_of (o : set_op) (a b : Z) : res :=
    match o with SUpdate _ _ => RPair (nz a) (nz b) | _ => RBool (nz a) end.

  Definition fstate := (history SetSpec * (nat -> option set_op))%type.
  Definition fhstep (s : fstate) (te : nat * ev) : fstate :=
    let (out, pend) := s in
    match te with
    | (t, EvCli name args) =>
        if String.eqb name "inv"%string then
          match args with
          | [c; k] => (out ++ [@HInv SetSpec t (spec_op c k)], fun u => if Nat.eqb u t then Some (spec_op c k) else pend u)
          | _ => s
          end
        else if String.eqb name "ret"%string then
          match args, pend t with
          | [a; b], Some o => (out ++ [@HRes SetSpec t (res_of o a b)], pend)
          | _, _ => s
          end
        else s
    | (_, EvAcc _ _ _) => s
    end.
  Definition fhfold (tr : list (nat * ev)) : fstate := fold_left fhstep tr ([], fun _ => None).
  (** the invoke/response history of a trace of the model: insert -> SInsert (hash k), update -> SUpdate (hash k) allow,
      erase -> SErase (hash k), contains -> SContains (hash k) *)
  Definition full_hist (tr : list (nat * ev)) : history SetSpec := fst (fhfold tr).

  Lemma fhfold_app tr tr' : fhfold (tr ++ tr') = fold_left fhstep tr' (fhfold tr).
  Proof. apply fold_left_app. Qed.

  (** ** ghost state *)
  Record Aux3 := mkAux3 { base : Aux; atr : list (aev SetSpec); vst : nat -> statusS }.
  Definition L3 := (L * statusS)%type.
  Definition view3 (A : Aux3) (t : nat) : L3 := (views (base A) t, vst A t).

  Definition abs (g : G) (S : list Z) : Prop := forall x : N, zmem (Z.of_N x) S = true <-> present g x.

  Definition cur_op (s : statusS) : option set_op :=
    match s with Idle => None | Pending o => Some o | Linearized o _ => Some o end.

  Record IL (g : G) (A : Aux3) (tr : list (nat * ev)) : Prop := {
    il_run : exists S stf, lp_run lp_init (atr A) = Some (S, stf) /\ (forall t, stf t = vst A t) /\ abs g S;
    il_hist : erase (atr A) = full_hist tr;
    il_pend : forall t o, cur_op (vst A t) = Some o -> snd (fhfold tr) t = Some o
  }.

  Definition Inv3 (g : G) (A : Aux3) (tr : list (nat * ev)) : Prop := Inv g (base A) tr /\ IL g A tr.

  Definition set3 (A : Aux3) (B : Aux) (t : nat) (s : statusS) (atr' : list (aev SetSpec)) : Aux3 :=
    mkAux3 B atr' (fun u => if Nat.eqb u t then s else vst A u).

  Lemma view3_set_same A B t s atr' : view3 (set3 A B t s atr') t = (views B t, s).
  Proof. unfold view3, set3; cbn. now rewrite Nat.eqb_refl. Qed.

  Lemma frame3_set A B t s atr' : Conc.frame view t (base A) B -> Conc.frame view3 t A (set3 A B t s atr').
  Proof.
    intros HF u Hu. unfold view3, set3; cbn. destruct (Nat.eqb_spec u t); [congruence|].
    f_equal. apply (HF u Hu).
  Qed.

  (** ** generic preservation lemmas for the LP part *)
  Definition same_presence (g g' : G) : Prop := forall x, present g' x <-> present g x.

  Lemma abs_same g g' S : same_presence g g' -> abs g S -> abs g' S.
  Proof. intros H HA x. rewrite (HA x). symmetry. apply H. Qed.

  Lemma full_hist_acc tr t k o ok : fhfold (tr ++ Conc.tag t [EvAcc k o ok]) = fhfold tr.
  Proof. rewrite fhfold_app. cbn. destruct (fhfold tr). reflexivity. Qed.

  (** an access that changes neither presence nor the LP bookkeeping; the thread's status stays *)
  Lemma IL_neutral g g' A B tr t k o ok :
    IL g A tr -> same_presence g g' ->
    IL g' (set3 A B t (vst A t) (atr A)) (tr ++ Conc.tag t [EvAcc k o ok]).
  Proof.
    intros [(S & stf & H1 & H2 & H3) H4 H5] HP.
    assert (VS : forall u, vst (set3 A B t (vst A t) (atr A)) u = vst A u).
    { intros u. cbn. destruct (Nat.eqb_spec u t); congruence. }
    constructor.
    - exists S, stf. cbn [atr set3]. split; [exact H1|]. split; [intros u; rewrite VS; apply H2|eapply abs_same; eauto].
    - cbn [atr set3]. unfold full_hist. rewrite full_hist_acc. exact H4.
    - intros u o0 Hc. rewrite VS in Hc. rewrite full_hist_acc. apply H5; exact Hc.
  Qed.

  Lemma lp_append (atr0 : list (aev SetSpec)) c e c' :
    lp_run lp_init atr0 = Some c -> lp_step c e = Some c' -> lp_run lp_init (atr0 ++ [e]) = Some c'.
  Proof. intros H1 H2. rewrite lp_run_app, H1. cbn. rewrite H2. reflexivity. Qed.

  (** a (re-)linearization by thread [t], whose operation is open: new abstract state [S'] and result [r] as the
      specification says; presence in [g'] matches [S'] *)
  Lemma IL_lin_real g g' A B tr t k ob ok o r :
    IL g A tr -> MF.open_read (vst A t) o ->
    (forall S, abs g S -> abs g' (fst (set_step S o)) /\ snd (set_step S o) = r) ->
    exists atr', IL g' (set3 A B t (@Linearized SetSpec o r) atr') (tr ++ Conc.tag t [EvAcc k ob ok]).
  Proof.
    intros [(S & stf & H1 & H2 & H3) H4 H5] Hopen HS.
    assert (Hopen' : MF.open_read (stf t) o) by (rewrite H2; exact Hopen).
    destruct (MF.to_pending (atr A) S stf t o H1 Hopen') as (atr0 & st0 & K1 & K2 & K3 & K4).
    destruct (HS S H3) as [HA' Hr].
    exists (atr0 ++ [ALin t]).
    assert (VS : forall u, u <> t -> vst (set3 A B t (@Linearized SetSpec o r) (atr0 ++ [ALin t])) u = vst A u).
    { intros u Hu. cbn. destruct (Nat.eqb_spec u t); congruence. }
    assert (VT : vst (set3 A B t (@Linearized SetSpec o r) (atr0 ++ [ALin t])) t = @Linearized SetSpec o r) by (cbn; now rewrite Nat.eqb_refl).
    constructor.
    - exists (fst (set_step S o)), (upd st0 t (@Linearized SetSpec o r)). cbn [atr set3]. split; [|split].
      + eapply lp_append; [exact K1|]. cbn [lp_step]. rewrite K2. cbn. rewrite Hr. reflexivity.
      + intros u. unfold upd. destruct (Nat.eqb_spec u t) as [->|Hu]; [rewrite VT; reflexivity|].
        rewrite VS by exact Hu. rewrite K3 by exact Hu. apply H2.
      + exact HA'.
    - cbn [atr set3]. unfold full_hist. rewrite full_hist_acc. rewrite erase_app. cbn [erase]. rewrite app_nil_r. rewrite K4. exact H4.
    - intros u o0 Hc. rewrite full_hist_acc. destruct (Nat.eq_dec u t) as [->|Hu].
      + rewrite VT in Hc. cbn in Hc. inversion Hc; subst o0. apply H5.
        destruct Hopen as [E|(r0 & E & _)]; rewrite E; reflexivity.
      + rewrite VS in Hc by exact Hu. apply H5; exact Hc.
  Qed.

  (** an observation by thread [t]: presence of the key of its open operation is [b] in [g] (the state is not changed) *)
  Lemma IL_obs g A B tr t k ob ok o b :
    IL g A tr -> MF.open_read (vst A t) o ->
    (forall S, abs g S -> zmem (MF.op_key o) S = b) ->
    exists atr', IL g (set3 A B t (MF.lin_read o b (vst A t)) atr') (tr ++ Conc.tag t [EvAcc k ob ok]).
  Proof.
    intros HIL Hopen Hb. unfold MF.lin_read. destruct (MF.obs_res o b) as [r|] eqn:E.
    - apply IL_lin_real with (g := g); [exact HIL|exact Hopen|]. intros S HS. rewrite (MF.obs_res_step o b r S E (Hb S HS)). cbn. auto.
    - exists (atr A). apply IL_neutral with (g := g); [exact HIL|intros x; tauto].
  Qed.
End Lin.
