(** * C24 across the wrap of the position counters: the pool operations of LV.Model.PoolsWrap (the programs of
      LV.Model.Pools over the wrapping queue programs of LV.Model.VyukovWrap) preserve the invariant of the wrapped
      Vyukov core (LV.Proofs.VyukovWrapCore: the concrete state is a ghost state modulo 2^64, and the ghost state
      satisfies [VyukovCore.RealInv] on every [fresh] trace) extended with the ownership discipline [PoolExt] of
      LV.Proofs.PoolsProofs (re-used as it is), for every schedule.  Port of LV.Proofs.PoolsSafe. *)
From Coq Require Import ZArith List Bool Lia PeanoNat.
From Coq Require String.
Import String.StringSyntax.
From LV Require Import Base.Conc Base.Events Base.CInt Base.Lin Spec.Specs Model.Vyukov Model.VyukovWrap Model.Pools
                       Model.PoolsWrap Proofs.VyukovSpec Proofs.VyukovArith Proofs.VyukovCore Proofs.PoolsProofs
                       Proofs.VyukovWrapArith Proofs.VyukovWrapCore.
Import ListNotations.
Local Open Scope string_scope.
Local Open Scope Z_scope.

(** ** the generic programs instantiated with the checked difference are the programs of LV.Model.Pools *)
Lemma pool_gen_is_strict_push c fuel lfuel p : push_loop_g sdif c fuel lfuel p = push_loop c fuel lfuel p.
Proof. reflexivity. Qed.
Lemma pool_gen_is_strict_retry c fuel lfuel : bounded_retry_g sdif c fuel lfuel = bounded_retry c fuel lfuel.
Proof. reflexivity. Qed.
Lemma pool_gen_is_strict_alloc c fuel t idx held : allocate_g sdif c fuel t idx held = allocate c fuel t idx held.
Proof. reflexivity. Qed.
Lemma pool_gen_is_strict_dealloc c fuel p held : deallocate_g sdif c fuel p held = deallocate c fuel p held.
Proof. reflexivity. Qed.
Lemma pool_gen_is_strict_pop c fuel t idx held o : run_pop_g sdif c fuel t idx held o = run_pop c fuel t idx held o.
Proof. reflexivity. Qed.
Lemma pool_gen_is_strict_pops c fuel t idx held os : run_pops_g sdif c fuel t idx held os = run_pops c fuel t idx held os.
Proof. reflexivity. Qed.
Lemma pool_gen_is_strict c fuel t os : pool_thread_g sdif c fuel t os = pool_thread c fuel t os.
Proof. reflexivity. Qed.
Lemma pool_gen_is_strict_cfg kind cap fuel ths :
  pool_cfg_from_g sdif (pool_init (mkP kind cap (length ths))) kind cap fuel ths = pool_cfg kind cap fuel ths.
Proof. reflexivity. Qed.

Section PoolWSafe.
  Variable k : nat.
  Hypothesis Hk : (1 <= k)%nat.
  Hypothesis Hk61 : (k <= 61)%nat.
  Variable c : pcfg.
  Hypothesis Hcap : pcap c = 2 ^ Z.of_nat k.
  Variable fuel : nat.
  Variable e0 : Z.                   (* ghost m_posEnqueue of the start state *)

  Notation capn := (2 ^ k)%nat.
  Notation St := (status (VQ capn)).
  Notation X := (nat -> list Z * nat).
  Notation LX := (list Z * nat)%type.
  Notation N := (pthreads c).
  Notation Ext := (PoolExt k c).
  Notation q := (pq c).

  Lemma Hqw : qcap q = 2 ^ Z.of_nat k.
  Proof. exact Hcap. Qed.

  Notation RI := (RealInv k None e0 X Ext).
  Notation WI := (Inv k None e0 X Ext).
  Notation WIn := (WInv k None e0 X Ext).
  Notation wv := (wview X LX xview24).
  Notation safe := (@Conc.safe G V ev (WAux X) (phase * Z * LX) wv WI).
  Notation Eacc := (PoolExt_acc k c).
  Notation Eext := (PoolExt_ext k c).
  Notation Elin := (PoolExt_lin k c).

  Definition wcore_enq := wsafe_enqueue k Hk Hk61 q Hqw None e0 X LX xview24 xlin24 Ext Eacc Eext Elin xview24_lin.
  Definition wcore_deq := wsafe_dequeue k Hk Hk61 q Hqw None e0 X LX xview24 xlin24 Ext Eacc Eext Elin xview24_lin.

  Ltac use_step S :=
    let I1 := fresh "I1" in let I2 := fresh "I2" in let I3 := fresh "I3" in let Hok := fresh "Hok" in
    match type of S with
    | ?A -> _ =>
        assert (Hok : A);
        [clear S
        |specialize (S Hok); destruct S as (I1 & I2 & I3); eexists;
         split; [exact I1|split; [exact I2|rewrite I3; clear I1 I2 I3 Hok]]]
    end.

  Lemma co_none t (p p' : phase) : consumer p' -> consumer p \/ (forall tc, @None nat = Some tc -> t = tc).
  Proof. intros _. right. intros tc H. discriminate. Qed.

  Lemma fr_none t (p p' : phase) : (is_front p' -> False) -> is_front p' -> is_front p \/ @None nat = Some t.
  Proof. intros H F. destruct (H F). Qed.

  (** a client event: the thread moves between phases that hold no position and may update its own client state *)
  Lemma emit24w g (a : WAux X) tr t p p' s lx lx' es :
    WI g a tr -> wv a t = (p, s, lx) -> es <> [] ->
    nclaims (Conc.tag t es) = 0 -> unclaimed p -> unclaimed p' ->
    (forall gg, phase_ok k gg p') -> nopos k p' -> (is_front p' -> False) ->
    (WIn a tr ->
       Ext (absq X (core X a)) (fun u => stat_of k (updp (ph X (core X a)) t p' u)) (updx (ext X (core X a)) t lx')
           (tr ++ Conc.tag t es)) ->
    WI g (mkW X (mkAux X (absq X (core X a)) (updp (ph X (core X a)) t p') (updx (ext X (core X a)) t lx')) (gh X a)
              (upds (sl X a) t 0)) (tr ++ Conc.tag t es) /\
    Conc.frame wv t a (mkW X (mkAux X (absq X (core X a)) (updp (ph X (core X a)) t p') (updx (ext X (core X a)) t lx'))
                           (gh X a) (upds (sl X a) t 0)) /\
    wv (mkW X (mkAux X (absq X (core X a)) (updp (ph X (core X a)) t p') (updx (ext X (core X a)) t lx')) (gh X a)
            (upds (sl X a) t 0)) t = (p', 0, lx').
  Proof.
    intros Hi Hv Hne Hn Hu Hu' Hok Hnp Hfr HE.
    destruct (wstep_emit k Hk Hk61 None e0 X LX xview24 Ext g a tr t p p' s lx (updx (ext X (core X a)) t lx') es
                Hi Hv Hne Hn Hu Hu' Hok Hnp (co_none t p p') (fr_none t p p' Hfr)
                (fun u Nu => updx_other (ext X (core X a)) t lx' u Nu) HE) as (I1 & I2 & I3).
    split; [exact I1|split; [exact I2|]]. rewrite I3. unfold xview24. now rewrite updx_same.
  Qed.

  (** a ghost step ([Emit []]: no event): the same, the trace does not grow *)
  Lemma emit24n g (a : WAux X) tr t p p' s lx lx' :
    WI g a tr -> wv a t = (p, s, lx) ->
    unclaimed p -> unclaimed p' ->
    (forall gg, phase_ok k gg p') -> nopos k p' -> (is_front p' -> False) ->
    (WIn a tr ->
       Ext (absq X (core X a)) (fun u => stat_of k (updp (ph X (core X a)) t p' u)) (updx (ext X (core X a)) t lx')
           (tr ++ Conc.tag t [])) ->
    WI g (mkW X (mkAux X (absq X (core X a)) (updp (ph X (core X a)) t p') (updx (ext X (core X a)) t lx')) (gh X a)
              (upds (sl X a) t 0)) (tr ++ Conc.tag t []) /\
    Conc.frame wv t a (mkW X (mkAux X (absq X (core X a)) (updp (ph X (core X a)) t p') (updx (ext X (core X a)) t lx'))
                           (gh X a) (upds (sl X a) t 0)) /\
    wv (mkW X (mkAux X (absq X (core X a)) (updp (ph X (core X a)) t p') (updx (ext X (core X a)) t lx')) (gh X a)
            (upds (sl X a) t 0)) t = (p', 0, lx').
  Proof.
    intros [HR Hi] Hv Hu Hu' Hok Hnp Hfr HE. destruct (wview_inv _ _ _ _ _ _ _ _ Hv) as (Hp & Hs & Hx).
    split; [split|split].
    - exact HR.
    - intros Hf. assert (Hf0 : fresh tr) by (cbn [Conc.tag map] in Hf; now rewrite app_nil_r in Hf).
      destruct (Hi Hf0) as [R Stl]. cbn [core gh sl]. split.
      + assert (H1 : unclaimed (ph X (core X a) t)) by (rewrite Hp; exact Hu).
        assert (H2 : consumer p' -> forall tc, @None nat = Some tc -> t = tc) by (intros _ tc H; discriminate).
        assert (H3 : is_front p' -> @None nat = Some t) by (intros F; destruct (Hfr F)).
        exact (ri_client k Hk None e0 X Ext (gh X a) (core X a) tr t p' _ [] R eq_refl (Hok _) H1 Hu' H2 H3
                 (HE (conj R Stl))).
      + intros u. cbn [Conc.tag map]. rewrite app_nil_r. cbn [core gh sl ph].
        destruct (Nat.eq_dec u t) as [->|Nu].
        * rewrite updp_same. apply Hnp.
        * rewrite updp_other, upds_other by auto. apply Stl.
    - intros u Nu. unfold wview, xview24; cbn. now rewrite updp_other, upds_other, updx_other.
    - unfold wview, xview24; cbn. now rewrite updp_same, upds_same, updx_same.
  Qed.

  Lemma ne1 (e : ev) : [e] <> [].
  Proof. discriminate. Qed.
  Lemma ne2 (e e' : ev) (l : list ev) : e :: e' :: l <> [].
  Proof. discriminate. Qed.

  Lemma np_any p : unclaimed p ->
    match p with EnqPos _ _ | EnqSeen _ _ | DeqPos _ _ | DeqSeen _ _ | EmPos _ => False | _ => True end -> nopos k p.
  Proof. intros _ H gg s d. destruct p; cbn in *; auto; contradiction. Qed.

  Lemma np_idle : nopos k PIdle. Proof. intros ? ? ?; exact I. Qed.
  Lemma np_penq v : nopos k (PEnq v). Proof. intros ? ? ?; exact I. Qed.
  Lemma np_pdeq pk : nopos k (PDeq pk). Proof. intros ? ? ?; exact I. Qed.
  Lemma np_deqret pk r : nopos k (DeqRet pk r). Proof. intros ? ? ?; exact I. Qed.

  Lemma stat_updp_ext (a : Aux X) t p' x' tr' qs :
    Ext qs (Lin.upd (fun u => stat_of k (ph X a u)) t (stat_of k p')) x' tr' ->
    Ext qs (fun u => stat_of k (updp (ph X a) t p' u)) x' tr'.
  Proof. apply Eext. intros u. apply stat_updp. Qed.

  (** the status of a thread that is not idle: its busy flag is set *)
  Lemma busy_of_status qs (S : nat -> St) x tr t : Ext qs S x tr -> S t <> @Idle (VQ capn) -> busy tr t = true.
  Proof. intros E H. destruct (busy tr t) eqn:B; auto. exfalso. apply H. apply (pe_busy _ _ _ _ _ _ E t B). Qed.

  (** a thread whose loop fuel is exhausted stops; it gives up the position it may hold *)
  Lemma wsafe_stop24 t p p' s lx held :
    unclaimed p -> unclaimed p' -> stat_of k p' = stat_of k p -> (forall gg, phase_ok k gg p') -> nopos k p' ->
    (is_front p' -> False) ->
    safe t (stop "outoffuel" held) (p, s, lx) (fun r _ => fst r = true -> False).
  Proof.
    intros Hu Hu' Hst Hok Hnp Hfr. unfold stop. cbn [Conc.safe]. intros g a tr Hi Hv.
    destruct (wview_inv _ _ _ _ _ _ _ _ Hv) as (Hp & Hs & Hx).
    assert (S := fun HE => emit24w g a tr t p p' s lx lx [EvCli "outoffuel" []] Hi Hv (ne1 _) eq_refl Hu Hu' Hok Hnp Hfr HE).
    match type of S with ?A -> _ => assert (HE : A) end.
    { intros [R _]. pose proof (ri_ext k None e0 X Ext _ _ _ R) as E.
      apply (PoolExt_move k Hk c _ _ _ _ _ _ _ E).
      - intros u. unfold updp. destruct (Nat.eqb_spec u t) as [->|]; [rewrite Hp, Hst|]; reflexivity.
      - intros u. unfold updp. destruct (Nat.eqb_spec u t) as [->|]; [rewrite Hst, <- Hp|]; apply (pe_ok _ _ _ _ _ _ E).
      - intros u. unfold updx. destruct (Nat.eqb_spec u t) as [->|]; [unfold xview24 in Hx; now rewrite Hx|reflexivity].
      - intros u. unfold updx. destruct (Nat.eqb_spec u t) as [->|]; [unfold xview24 in Hx; rewrite Hx|]; lia.
      - intros u. rewrite heldby_tag. destruct (Nat.eqb_spec u t) as [->|]; auto. apply held_neutral; auto.
      - rewrite avail_app. reflexivity.
      - intros u. rewrite busy_tag. unfold updp. destruct (Nat.eqb_spec u t) as [->|].
        + rewrite busy_keep by auto. rewrite Hst, <- Hp. apply (pe_busy _ _ _ _ _ _ E).
        + apply (pe_busy _ _ _ _ _ _ E). }
    destruct (S HE) as (I1 & I2 & _). eexists. split; [exact I1|split; [exact I2|]]. cbn. intros H; discriminate.
  Qed.

  (** ** while ( !push ) *)
  Definition Qpush (p : Z) (lx : LX) : outcome unit -> phase * Z * LX -> Prop :=
    fun r l => match r with
               | Done _ => l = (EnqDone p, 0, lx)
               | OutOfFuel => l = (PEnq p, 0, lx) \/ exists pos, l = (EnqPos p pos, 0, lx)
               | UB => False
               end.

  Lemma wsafe_push_loop lfuel : forall t p lx,
    safe t (push_loop_g difw c fuel lfuel p) (PEnq p, 0, lx) (Qpush p lx).
  Proof.
    induction lfuel as [|f IH]; intros t p lx; cbn [push_loop_g]; [cbn; auto|].
    apply Conc.safe_bind. eapply Conc.safe_weaken; [|apply wcore_enq].
    intros [[|]| |] l Hl; cbn [Qenq] in Hl; cbn [Conc.safe Qpush]; auto.
    subst l. intros g a tr Hi Hv. destruct (wview_inv _ _ _ _ _ _ _ _ Hv) as (Hp & Hs & Hx). unfold xview24 in Hx.
    assert (S := fun Hok => emit24n g a tr t (EnqFail p) (PEnq p) 0 lx lx Hi Hv I I (fun _ => I) (np_penq p)
                              (fun F => match F with end) Hok).
    use_step S.
    { intros [R _]. pose proof (ri_ext k None e0 X Ext _ _ _ R) as E. cbn [Conc.tag map]. rewrite app_nil_r.
      apply (PoolExt_move k Hk c _ _ _ _ _ _ _ E).
      - intros u. unfold updp. destruct (Nat.eqb_spec u t) as [->|]; [rewrite Hp|]; reflexivity.
      - intros u. unfold updp. destruct (Nat.eqb_spec u t) as [->|]; [exact I|apply (pe_ok _ _ _ _ _ _ E)].
      - intros u. unfold updx. destruct (Nat.eqb_spec u t) as [->|]; [now rewrite Hx|reflexivity].
      - intros u. unfold updx. destruct (Nat.eqb_spec u t) as [->|]; [rewrite Hx|]; lia.
      - reflexivity.
      - reflexivity.
      - intros u Hb'. unfold updp. destruct (Nat.eqb_spec u t) as [->|]; [|apply (pe_busy _ _ _ _ _ _ E); auto].
        exfalso. rewrite (busy_of_status _ _ _ _ t E) in Hb'; [discriminate|]. cbn. rewrite Hp. discriminate. }
    apply IH.
  Qed.

  (** ** bounded pool: while ( size() ) { pop } *)
  Definition Qretry (lx : LX) : outcome (option Z) -> phase * Z * LX -> Prop :=
    fun r l => match r with
               | Done x => l = (DeqRet false x, 0, lx)
               | OutOfFuel => l = (DeqRet false None, 0, lx) \/ exists pos, l = (DeqPos false pos, 0, lx)
               | UB => False
               end.

  Lemma wsafe_bounded_retry lfuel : forall t lx,
    safe t (bounded_retry_g difw c fuel lfuel) (DeqRet false None, 0, lx) (Qretry lx).
  Proof.
    induction lfuel as [|f IH]; intros t lx; cbn [bounded_retry_g Conc.safe]; [cbn; auto|].
    intros g a tr Hi Hv. cbn [a_ld_cnt fst snd vz].
    assert (S := fun Hok => wstep_same k Hk Hk61 None e0 X LX xview24 Ext Eacc Eext g a tr t (DeqRet false None) (DeqRet false None)
                              0 0 lx KLd obj_cnt true (cnt g) (cnt g) Hi Hv eq_refl I I eq_refl (fun x => x) (fun x => x) Hok).
    use_step S.
    { intros W Hlt. split; exact I. }
    destruct (cnt g =? 0); [cbn; reflexivity|].
    clear Hi Hv. cbn [Conc.safe]. intros g2 a2 tr2 Hi2 Hv2.
    destruct (wview_inv _ _ _ _ _ _ _ _ Hv2) as (Hp & Hs & Hx). unfold xview24 in Hx.
    assert (S := fun Hok => emit24n g2 a2 tr2 t (DeqRet false None) (PDeq false) 0 lx lx Hi2 Hv2 I I (fun _ => I) (np_pdeq false)
                              (fun F => match F with end) Hok).
    use_step S.
    { intros [R _]. pose proof (ri_ext k None e0 X Ext _ _ _ R) as E. cbn [Conc.tag map]. rewrite app_nil_r.
      apply (PoolExt_move k Hk c _ _ _ _ _ _ _ E).
      - intros u. unfold updp. destruct (Nat.eqb_spec u t) as [->|]; [rewrite Hp|]; reflexivity.
      - intros u. unfold updp. destruct (Nat.eqb_spec u t) as [->|]; [exact I|apply (pe_ok _ _ _ _ _ _ E)].
      - intros u. unfold updx. destruct (Nat.eqb_spec u t) as [->|]; [now rewrite Hx|reflexivity].
      - intros u. unfold updx. destruct (Nat.eqb_spec u t) as [->|]; [rewrite Hx|]; lia.
      - reflexivity.
      - reflexivity.
      - intros u Hb'. unfold updp. destruct (Nat.eqb_spec u t) as [->|]; [|apply (pe_busy _ _ _ _ _ _ E); auto].
        exfalso. rewrite (busy_of_status _ _ _ _ t E) in Hb'; [discriminate|]. cbn. rewrite Hp. discriminate. }
    apply Conc.safe_bind. eapply Conc.safe_weaken; [|apply wcore_deq].
    intros [[x|]| |] l Hl; cbn [Qdeq] in Hl; cbn [Conc.safe Qretry]; auto.
    subst l. apply IH.
  Qed.

  (** ** allocate *)
  Definition Qpop (idx : nat) : pres -> phase * Z * LX -> Prop :=
    fun r l => fst r = true -> exists j', (j' <= Datatypes.S idx)%nat /\ l = (PIdle, 0, (snd r, j')).

  Lemma weaken_stop t p p' s lx held idx :
    unclaimed p -> unclaimed p' -> stat_of k p' = stat_of k p -> (forall gg, phase_ok k gg p') -> nopos k p' ->
    (is_front p' -> False) ->
    safe t (stop "outoffuel" held) (p, s, lx) (Qpop idx).
  Proof.
    intros H1 H2 H3 H4 H5 H6. eapply Conc.safe_weaken; [|apply (wsafe_stop24 t p p' s lx held H1 H2 H3 H4 H5 H6)].
    intros r l Hf Ht. destruct (Hf Ht).
  Qed.

  Lemma stop_enq t v pos s lx held idx : safe t (stop "outoffuel" held) (EnqPos v pos, s, lx) (Qpop idx).
  Proof. apply weaken_stop with (p' := PEnq v); [exact I|exact I|reflexivity|intros; exact I|apply np_penq|intros []]. Qed.
  Lemma stop_penq t v s lx held idx : safe t (stop "outoffuel" held) (PEnq v, s, lx) (Qpop idx).
  Proof. apply weaken_stop with (p' := PEnq v); [exact I|exact I|reflexivity|intros; exact I|apply np_penq|intros []]. Qed.
  Lemma stop_deq t pk pos s lx held idx : safe t (stop "outoffuel" held) (DeqPos pk pos, s, lx) (Qpop idx).
  Proof. apply weaken_stop with (p' := PDeq pk); [exact I|exact I|reflexivity|intros; exact I|apply np_pdeq|intros []]. Qed.
  Lemma stop_deqret t pk r s lx held idx : safe t (stop "outoffuel" held) (DeqRet pk r, s, lx) (Qpop idx).
  Proof. apply weaken_stop with (p' := DeqRet pk r); [exact I|exact I|reflexivity|intros; exact I|apply np_deqret|intros []]. Qed.

  (** response of allocate with a pooled object in the hand *)
  Lemma wsafe_ret_alloc_pool t p held j idx :
    (j <= idx)%nat ->
    safe t (Emit [EvCli "ret_alloc" [p]] (Ret (true, held ++ [p]))) (DeqRet false (Some p), 0, (held, j)) (Qpop idx).
  Proof.
    intros Hj. cbn [Conc.safe]. intros g a tr Hi Hv.
    destruct (wview_inv _ _ _ _ _ _ _ _ Hv) as (Hp & Hs & Hx). unfold xview24 in Hx.
    assert (S := fun Hok => emit24w g a tr t (DeqRet false (Some p)) PIdle 0 (held, j) (held ++ [p], Datatypes.S idx)
                              [EvCli "ret_alloc" [p]] Hi Hv (ne1 _) eq_refl I I (fun _ => I) np_idle
                              (fun F => match F with end) Hok).
    use_step S.
    { intros [R _]. pose proof (ri_ext k None e0 X Ext _ _ _ R) as E. apply stat_updp_ext.
      apply (pe_ret_alloc_pool k Hk c Hcap _ _ _ _ t p held j (Datatypes.S idx) E);
        [cbn; rewrite Hp; reflexivity|exact Hx|lia]. }
    cbn. intros _. exists (Datatypes.S idx). split; auto.
  Qed.

  Lemma wsafe_allocate t idx held j :
    (j <= idx)%nat -> (t < N)%nat ->
    safe t (allocate_g difw c fuel t idx held) (PIdle, 0, (held, j)) (Qpop idx).
  Proof.
    intros Hj Ht. unfold allocate_g. cbn [Conc.safe]. intros g a tr Hi Hv.
    destruct (wview_inv _ _ _ _ _ _ _ _ Hv) as (Hp & Hs & Hx). unfold xview24 in Hx.
    assert (S := fun Hok => emit24w g a tr t PIdle (PDeq false) 0 (held, j) (held, j) [EvCli "inv_alloc" []] Hi Hv (ne1 _) eq_refl I I
                              (fun _ => I) (np_pdeq false) (fun F => match F with end) Hok).
    use_step S.
    { intros [R _]. pose proof (ri_ext k None e0 X Ext _ _ _ R) as E.
      apply (PoolExt_move k Hk c _ _ _ _ _ _ _ E).
      - intros u. unfold updp. destruct (Nat.eqb_spec u t) as [->|]; [rewrite Hp|]; reflexivity.
      - intros u. unfold updp. destruct (Nat.eqb_spec u t) as [->|]; [exact I|apply (pe_ok _ _ _ _ _ _ E)].
      - intros u. unfold updx. destruct (Nat.eqb_spec u t) as [->|]; [now rewrite Hx|reflexivity].
      - intros u. unfold updx. destruct (Nat.eqb_spec u t) as [->|]; [rewrite Hx|]; lia.
      - intros u. rewrite heldby_tag. destruct (Nat.eqb_spec u t) as [->|]; auto. apply held_neutral; auto.
      - rewrite avail_app. reflexivity.
      - intros u. rewrite busy_tag. destruct (Nat.eqb_spec u t) as [->|].
        + rewrite (busy_set t _ _ true); [discriminate|]. exists "inv_alloc", [], []. split; auto.
        + intros Hb'. unfold updp. destruct (Nat.eqb_spec u t); [contradiction|]. apply (pe_busy _ _ _ _ _ _ E); auto. }
    clear Hi Hv Hp Hs Hx g a tr.
    apply Conc.safe_bind. eapply Conc.safe_weaken; [|apply wcore_deq].
    intros [[p|]| |] l Hl; cbn [Qdeq] in Hl.
    - subst l. apply wsafe_ret_alloc_pool; auto.
    - subst l. destruct (pkind c =? 2).
      + apply Conc.safe_bind. eapply Conc.safe_weaken; [|apply wsafe_bounded_retry].
        intros [[p|]| |] l Hl; cbn [Qretry] in Hl.
        * subst l. apply wsafe_ret_alloc_pool; auto.
        * subst l. cbn [Conc.safe]. intros g a tr Hi Hv.
          destruct (wview_inv _ _ _ _ _ _ _ _ Hv) as (Hp & Hs & Hx). unfold xview24 in Hx.
          assert (S := fun Hok => emit24w g a tr t (DeqRet false None) PIdle 0 (held, j) (held, Datatypes.S idx)
                                    [EvCli "ret_alloc" [0]] Hi Hv (ne1 _) eq_refl I I (fun _ => I) np_idle
                                    (fun F => match F with end) Hok).
          use_step S.
          { intros [R _]. pose proof (ri_ext k None e0 X Ext _ _ _ R) as E.
            assert (H0 : ~ In 0 (avail (avail0 k c) tr)).
            { intros H. apply (pe_avail _ _ _ _ _ _ E) in H.
              assert (1 <= 0); [|lia]. apply (tokens_pos k Hk c Hcap _ _ _ _ 0 E).
              destruct H as [H|[u H]]; auto. right. exists u. unfold own. apply in_or_app. auto. }
            apply (PoolExt_move k Hk c _ _ _ _ _ _ _ E).
            - intros u. unfold updp. destruct (Nat.eqb_spec u t) as [->|]; [rewrite Hp|]; reflexivity.
            - intros u. unfold updp. destruct (Nat.eqb_spec u t) as [->|]; [exact I|apply (pe_ok _ _ _ _ _ _ E)].
            - intros u. unfold updx. destruct (Nat.eqb_spec u t) as [->|]; [now rewrite Hx|reflexivity].
            - intros u. unfold updx. destruct (Nat.eqb_spec u t) as [->|]; [rewrite Hx; cbn|]; lia.
            - intros u. rewrite heldby_tag. destruct (Nat.eqb_spec u t) as [->|]; auto. rewrite held_ret_alloc. reflexivity.
            - rewrite avail_app. cbn [fold_left Conc.tag map].
              change (avail_step (avail (avail0 k c) tr) (t, EvCli "ret_alloc" [0])) with (rem1 0 (avail (avail0 k c) tr)).
              apply rem1_notin; auto.
            - intros u Hb'. unfold updp. destruct (Nat.eqb_spec u t) as [->|Nu]; [reflexivity|].
              rewrite busy_tag in Hb'. destruct (Nat.eqb_spec u t); [contradiction|]. apply (pe_busy _ _ _ _ _ _ E); auto. }
          cbn. intros _. exists (Datatypes.S idx). split; auto.
        * destruct Hl as [->|[pos ->]]; [apply stop_deqret|apply stop_deq].
        * destruct Hl.
      + cbn [Conc.safe]. intros g a tr Hi Hv.
        destruct (wview_inv _ _ _ _ _ _ _ _ Hv) as (Hp & Hs & Hx). unfold xview24 in Hx.
        assert (S := fun Hok => emit24w g a tr t (DeqRet false None) PIdle 0 (held, j) (held ++ [hid c t idx], Datatypes.S idx)
                                  [EvCli "ret_alloc" [hid c t idx]] Hi Hv (ne1 _) eq_refl I I (fun _ => I) np_idle
                                  (fun F => match F with end) Hok).
        use_step S.
        { intros [R _]. pose proof (ri_ext k None e0 X Ext _ _ _ R) as E. apply stat_updp_ext.
          apply (pe_ret_alloc_heap k Hk c Hcap _ _ _ _ t held j idx E);
            [cbn; rewrite Hp; reflexivity|exact Hx|exact Hj|exact Ht]. }
        cbn. intros _. exists (Datatypes.S idx). split; auto.
    - destruct Hl as [pos ->]. apply stop_deq.
    - destruct Hl.
  Qed.

  (** ** deallocate *)
  Lemma wsafe_ret_dealloc t p held' j idx :
    (j <= idx)%nat ->
    safe t (Emit [EvCli "ret_dealloc" []] (Ret (true, held'))) (EnqDone p, 0, (held', j)) (Qpop idx).
  Proof.
    intros Hj. cbn [Conc.safe]. intros g a tr Hi Hv.
    destruct (wview_inv _ _ _ _ _ _ _ _ Hv) as (Hp & Hs & Hx). unfold xview24 in Hx.
    assert (S := fun Hok => emit24w g a tr t (EnqDone p) PIdle 0 (held', j) (held', Datatypes.S idx)
                              [EvCli "ret_dealloc" []] Hi Hv (ne1 _) eq_refl I I (fun _ => I) np_idle
                              (fun F => match F with end) Hok).
    use_step S.
    { intros [R _]. pose proof (ri_ext k None e0 X Ext _ _ _ R) as E.
      apply (PoolExt_move k Hk c _ _ _ _ _ _ _ E).
      - intros u. unfold updp. destruct (Nat.eqb_spec u t) as [->|]; [rewrite Hp|]; reflexivity.
      - intros u. unfold updp. destruct (Nat.eqb_spec u t) as [->|]; [exact I|apply (pe_ok _ _ _ _ _ _ E)].
      - intros u. unfold updx. destruct (Nat.eqb_spec u t) as [->|]; [now rewrite Hx|reflexivity].
      - intros u. unfold updx. destruct (Nat.eqb_spec u t) as [->|]; [rewrite Hx; cbn|]; lia.
      - intros u. rewrite heldby_tag. destruct (Nat.eqb_spec u t) as [->|]; auto. apply held_neutral; auto.
      - rewrite avail_app. reflexivity.
      - intros u Hb'. unfold updp. destruct (Nat.eqb_spec u t) as [->|Nu]; [reflexivity|].
        rewrite busy_tag in Hb'. destruct (Nat.eqb_spec u t); [contradiction|]. apply (pe_busy _ _ _ _ _ _ E); auto. }
    cbn. intros _. exists (Datatypes.S idx). split; auto.
  Qed.

  Lemma wsafe_inv_dealloc t p n held j (K : prog pres) (Q : pres -> phase * Z * LX -> Prop) :
    nth_error held n = Some p ->
    safe t K (PEnq p, 0, (remove_nth n held, j)) Q ->
    safe t (Emit [EvCli "inv_dealloc" [p]] K) (PIdle, 0, (held, j)) Q.
  Proof.
    intros Hn HK. cbn [Conc.safe]. intros g a tr Hi Hv.
    destruct (wview_inv _ _ _ _ _ _ _ _ Hv) as (Hp & Hs & Hx). unfold xview24 in Hx.
    assert (S := fun Hok => emit24w g a tr t PIdle (PEnq p) 0 (held, j) (remove_nth n held, j)
                              [EvCli "inv_dealloc" [p]] Hi Hv (ne1 _) eq_refl I I (fun _ => I) (np_penq p)
                              (fun F => match F with end) Hok).
    use_step S.
    { intros [R _]. pose proof (ri_ext k None e0 X Ext _ _ _ R) as E. apply stat_updp_ext.
      assert (Hnd : NoDup held).
      { pose proof (pe_own _ _ _ _ _ _ E t) as H. unfold own in H. cbn in H. rewrite Hp, Hx in H. exact H. }
      rewrite (remove_nth_rem1 held n p Hnd Hn).
      apply (pe_inv_dealloc k Hk c _ _ _ _ t p held j E); [cbn; rewrite Hp; reflexivity|exact Hx|].
      eapply nth_error_In; eauto. }
    exact HK.
  Qed.

  Lemma wsafe_deallocate t idx held j p n :
    nth_error held n = Some p -> (j <= idx)%nat ->
    safe t (deallocate_g difw c fuel p (remove_nth n held)) (PIdle, 0, (held, j)) (Qpop idx).
  Proof.
    intros Hn Hj. unfold deallocate_g. destruct (pkind c =? 1).
    - (* lazy pool: one push, else back to the heap *)
      apply (wsafe_inv_dealloc t p n held j _ _ Hn).
      apply Conc.safe_bind. eapply Conc.safe_weaken; [|apply wcore_enq].
      intros [[|]| |] l Hl; cbn [Qenq] in Hl.
      + subst l. apply wsafe_ret_dealloc; auto.
      + subst l. cbn [Conc.safe]. intros g a tr Hi Hv.
        destruct (wview_inv _ _ _ _ _ _ _ _ Hv) as (Hp & Hs & Hx). unfold xview24 in Hx.
        assert (S := fun Hok => emit24w g a tr t (EnqFail p) PIdle 0 (remove_nth n held, j) (remove_nth n held, Datatypes.S idx)
                                  [EvCli "free" [p]; EvCli "ret_dealloc" []] Hi Hv (ne2 _ _ _) eq_refl I I (fun _ => I) np_idle
                                  (fun F => match F with end) Hok).
        use_step S.
        { intros [R _]. pose proof (ri_ext k None e0 X Ext _ _ _ R) as E. apply stat_updp_ext.
          apply (pe_free_hand k Hk c _ _ _ _ t p (remove_nth n held) j (Datatypes.S idx) E);
            [cbn; rewrite Hp; reflexivity|exact Hx|lia]. }
        cbn. intros _. exists (Datatypes.S idx). split; auto.
      + destruct Hl as [pos ->]. apply stop_enq.
      + destruct Hl.
    - destruct ((pkind c =? 0) && negb (from_pool c p)).
      + (* vyukov_queue_pool, object from the heap: back to the heap *)
        cbn [Conc.safe]. intros g a tr Hi Hv.
        destruct (wview_inv _ _ _ _ _ _ _ _ Hv) as (Hp & Hs & Hx). unfold xview24 in Hx.
        assert (S := fun Hok => emit24w g a tr t PIdle PIdle 0 (held, j) (remove_nth n held, Datatypes.S idx)
                                  [EvCli "inv_dealloc" [p]; EvCli "free" [p]; EvCli "ret_dealloc" []] Hi Hv (ne2 _ _ _) eq_refl I I
                                  (fun _ => I) np_idle (fun F => match F with end) Hok).
        use_step S.
        { intros [R _]. pose proof (ri_ext k None e0 X Ext _ _ _ R) as E.
          assert (Hnd : NoDup held).
          { pose proof (pe_own _ _ _ _ _ _ E t) as H. unfold own in H. cbn in H. rewrite Hp, Hx in H. exact H. }
          rewrite (remove_nth_rem1 held n p Hnd Hn).
          eapply Eext; [|apply (pe_dealloc_heap k Hk c _ _ _ _ t p held j (Datatypes.S idx) E);
                          [cbn; rewrite Hp; reflexivity|exact Hx|eapply nth_error_In; eauto|lia]].
          intros u. cbn. unfold updp. destruct (Nat.eqb_spec u t) as [->|]; [rewrite Hp|]; reflexivity. }
        cbn. intros _. exists (Datatypes.S idx). split; auto.
      + (* push until it succeeds *)
        apply (wsafe_inv_dealloc t p n held j _ _ Hn).
        apply Conc.safe_bind. eapply Conc.safe_weaken; [|apply wsafe_push_loop].
        intros [[]| |] l Hl; cbn [Qpush] in Hl.
        * subst l. apply wsafe_ret_dealloc; auto.
        * destruct Hl as [->|[pos ->]]; [apply stop_penq|apply stop_enq].
        * destruct Hl.
  Qed.

  Lemma wsafe_run_pop t idx held j o :
    (j <= idx)%nat -> (t < N)%nat ->
    safe t (run_pop_g difw c fuel t idx held o) (PIdle, 0, (held, j)) (Qpop idx).
  Proof.
    intros Hj Ht. destruct o as [|i]; cbn [run_pop_g].
    - apply wsafe_allocate; auto.
    - destruct held as [|h0 hr] eqn:Eh.
      + cbn. intros _. exists j. split; auto.
      + rewrite <- Eh. destruct (nth_error held (i mod length held)) as [p|] eqn:En.
        * apply wsafe_deallocate; auto.
        * cbn. intros _. exists j. split; auto.
  Qed.

  Lemma wsafe_run_pops os : forall t idx held j,
    (j <= idx)%nat -> (t < N)%nat ->
    safe t (run_pops_g difw c fuel t idx held os) (PIdle, 0, (held, j)) (@Conc.QTrue (phase * Z * LX)).
  Proof.
    induction os as [|o r IH]; intros t idx held j Hj Ht; cbn [run_pops_g]; [exact I|].
    apply Conc.safe_bind. eapply Conc.safe_weaken; [|apply wsafe_run_pop; auto].
    intros [[|] held'] l Hl; cbn [fst snd].
    - destruct (Hl eq_refl) as (j' & Hj' & ->). apply IH; auto.
    - exact I.
  Qed.

  Lemma wsafe_pool_thread t os :
    (t < N)%nat ->
    safe t (pool_thread_g difw c fuel t os) (PIdle, 0, ([], 0%nat)) (@Conc.QTrue (phase * Z * LX)).
  Proof.
    intros Ht. unfold pool_thread_g. cbn [Conc.safe]. intros g a tr Hi Hv. cbn [a_begin fst snd].
    destruct (wview_inv _ _ _ _ _ _ _ _ Hv) as (Hp & Hs & Hx). unfold xview24 in Hx.
    assert (S := fun Hok => emit24w g a tr t PIdle PIdle 0 ([], 0%nat) ([], 0%nat) [EvAcc KBegin [] true] Hi Hv (ne1 _) eq_refl I I
                              (fun _ => I) np_idle (fun F => match F with end) Hok).
    use_step S.
    { intros [R _]. pose proof (ri_ext k None e0 X Ext _ _ _ R) as E.
      apply (PoolExt_move k Hk c _ _ _ _ _ _ _ E).
      - intros u. unfold updp. destruct (Nat.eqb_spec u t) as [->|]; [rewrite Hp|]; reflexivity.
      - intros u. unfold updp. destruct (Nat.eqb_spec u t) as [->|]; [exact I|apply (pe_ok _ _ _ _ _ _ E)].
      - intros u. unfold updx. destruct (Nat.eqb_spec u t) as [->|]; [now rewrite Hx|reflexivity].
      - intros u. unfold updx. destruct (Nat.eqb_spec u t) as [->|]; [rewrite Hx|]; lia.
      - intros u. rewrite heldby_tag. destruct (Nat.eqb_spec u t) as [->|]; auto.
        cbn. unfold heldby_step. cbn. now rewrite Nat.eqb_refl.
      - rewrite avail_app. reflexivity.
      - intros u. rewrite busy_tag. unfold updp. destruct (Nat.eqb_spec u t) as [->|].
        + cbn. unfold busy_step. cbn. rewrite Nat.eqb_refl. intros Hb'.
          pose proof (pe_busy _ _ _ _ _ _ E t Hb') as K. cbn in K. rewrite Hp in K. exact K.
        + apply (pe_busy _ _ _ _ _ _ E). }
    apply wsafe_run_pops; auto.
  Qed.

End PoolWSafe.
