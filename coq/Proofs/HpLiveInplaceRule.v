(** * A second invariant on top of an established one, with knowledge of the first one's local view at chosen points
      (generic; extends LV.Proofs.HpLiveCopyRule, used by the HpLiveInplace files).

    [HpLiveCopyRule.rsafe] lets every step of the second proof assume that the first invariant holds for SOME hidden
    auxiliary state.  That is not enough when the step needs a fact that the first invariant states about the local
    view of the stepping thread (here: "the claim this thread holds on its retired array").  [rsafe1] is [rsafe] whose
    FIRST node may assume in addition that the hidden auxiliary state gives thread [t] the view [l1]; [safe_pair1]
    combines it with a [Conc.safe] proof that starts from that very view -- which is what the lemmas of HpSafe.v
    provide for every sub-program (their pre-views are explicit).  The product proof is then assembled at the level
    of [Conc.safe] for the pair ([pair_seq], and directly at the nodes between two such sub-programs). *)
From Coq Require Import List Arith Lia Bool PeanoNat.
From LV Require Import Base.Conc Proofs.HpLiveCopyRule.
Import ListNotations.

Section Rel1.
  Variables (G V E : Type).
  Variables (Aux1 L1 : Type) (view1 : Aux1 -> nat -> L1) (Inv1 : G -> Aux1 -> list (nat * E) -> Prop).
  Variables (Aux2 L2 : Type) (view2 : Aux2 -> nat -> L2) (Inv2 : G -> Aux2 -> list (nat * E) -> Prop).

  Notation I1 := (I1 G E Aux1 Inv1).
  Notation rsafe := (rsafe G V E Aux1 Inv1 Aux2 L2 view2 Inv2).
  Notation view12 := (view12 Aux1 L1 view1 Aux2 L2 view2).
  Notation Inv12 := (Inv12 G E Aux1 Inv1 Aux2 Inv2).

  Definition I1at (t : nat) (l1 : L1) (g : G) (tr : list (nat * E)) : Prop :=
    exists a1, Inv1 g a1 tr /\ view1 a1 t = l1.

  Definition rsafe1 {R} (t : nat) (l1 : L1) (p : Conc.prog G V E R) (l : L2) (Q : R -> L2 -> Prop) : Prop :=
    match p with
    | Ret r => Q r l
    | Emit es k =>
        forall g a tr, Inv2 g a tr -> view2 a t = l -> I1at t l1 g tr -> I1 g (tr ++ Conc.tag t es) ->
          exists a', Inv2 g a' (tr ++ Conc.tag t es) /\ Conc.frame view2 t a a' /\ rsafe t k (view2 a' t) Q
    | Act f k =>
        forall g a tr, Inv2 g a tr -> view2 a t = l -> I1at t l1 g tr ->
          I1 (fst (fst (f g))) (tr ++ Conc.tag t (snd (f g))) ->
          exists a', Inv2 (fst (fst (f g))) a' (tr ++ Conc.tag t (snd (f g))) /\ Conc.frame view2 t a a' /\
                     rsafe t (k (snd (fst (f g)))) (view2 a' t) Q
    end.

  Lemma rsafe_rsafe1 {R} t l1 (p : Conc.prog G V E R) l Q : rsafe t p l Q -> rsafe1 t l1 p l Q.
  Proof.
    destruct p as [r|es k|f k]; cbn [HpLiveCopyRule.rsafe rsafe1]; intros H.
    - exact H.
    - intros g a tr Hi Hv (a1 & Hb & _) Ha. apply (H g a tr Hi Hv); [exists a1; exact Hb|exact Ha].
    - intros g a tr Hi Hv (a1 & Hb & _) Ha. apply (H g a tr Hi Hv); [exists a1; exact Hb|exact Ha].
  Qed.

  Lemma safe_pair1 {R} t (p : Conc.prog G V E R) (Q1 : R -> L1 -> Prop) (Q2 : R -> L2 -> Prop) l1 l2 :
    Conc.safe view1 Inv1 t p l1 Q1 -> rsafe1 t l1 p l2 Q2 ->
    Conc.safe view12 Inv12 t p (l1, l2) (fun r l => Q1 r (fst l) /\ Q2 r (snd l)).
  Proof.
    destruct p as [r|es k|f k]; intros H1 H2; cbn [Conc.safe rsafe1] in *.
    - split; assumption.
    - intros g [a1 a2] tr [Hi1 Hi2] Hv. unfold HpLiveCopyRule.view12 in Hv. cbn [fst snd] in *. inversion Hv as [[Hv1 Hv2]].
      destruct (H1 g a1 tr Hi1 Hv1) as (a1' & K1 & K2 & K3).
      destruct (H2 g a2 tr Hi2 Hv2 (ex_intro _ a1 (conj Hi1 Hv1)) (ex_intro _ a1' K1)) as (a2' & M1 & M2 & M3).
      exists (a1', a2'). split; [split; assumption|]. split.
      + intros t' Ht. unfold HpLiveCopyRule.view12; cbn [fst snd]. now rewrite (K2 t' Ht), (M2 t' Ht).
      + unfold HpLiveCopyRule.view12 at 1; cbn [fst snd]. apply safe_pair; assumption.
    - intros g [a1 a2] tr [Hi1 Hi2] Hv. unfold HpLiveCopyRule.view12 in Hv. cbn [fst snd] in *. inversion Hv as [[Hv1 Hv2]].
      destruct (H1 g a1 tr Hi1 Hv1) as (a1' & K1 & K2 & K3).
      destruct (H2 g a2 tr Hi2 Hv2 (ex_intro _ a1 (conj Hi1 Hv1)) (ex_intro _ a1' K1)) as (a2' & M1 & M2 & M3).
      exists (a1', a2'). split; [split; assumption|]. split.
      + intros t' Ht. unfold HpLiveCopyRule.view12; cbn [fst snd]. now rewrite (K2 t' Ht), (M2 t' Ht).
      + unfold HpLiveCopyRule.view12 at 1; cbn [fst snd]. apply safe_pair; assumption.
  Qed.

  (** sequencing at the level of the pair: the first part proved by the two separate proofs, the second part for every
      pair of views the two post-conditions allow *)
  Lemma pair_seq {A B} t (p : Conc.prog G V E A) (q : A -> Conc.prog G V E B)
        (Q1 : A -> L1 -> Prop) (Q2 : A -> L2 -> Prop) (Q : B -> L1 * L2 -> Prop) l :
    Conc.safe view12 Inv12 t p l (fun r l' => Q1 r (fst l') /\ Q2 r (snd l')) ->
    (forall r l1' l2', Q1 r l1' -> Q2 r l2' -> Conc.safe view12 Inv12 t (q r) (l1', l2') Q) ->
    Conc.safe view12 Inv12 t (Conc.bind p q) l Q.
  Proof.
    intros Hp Hq. apply Conc.safe_bind. eapply Conc.safe_weaken; [|exact Hp].
    intros r [l1' l2'] (K1 & K2). cbn [fst snd] in *. now apply Hq.
  Qed.

  (** one node of the pair, the two invariants stepped separately *)
  Lemma pair_act {R} t (f : G -> G * V * list E) (k : V -> Conc.prog G V E R) l1 l2 (Q : R -> L1 * L2 -> Prop) :
    (forall g a1 a2 tr, Inv1 g a1 tr -> Inv2 g a2 tr -> view1 a1 t = l1 -> view2 a2 t = l2 ->
       exists a1' a2', Inv1 (fst (fst (f g))) a1' (tr ++ Conc.tag t (snd (f g))) /\
                       Inv2 (fst (fst (f g))) a2' (tr ++ Conc.tag t (snd (f g))) /\
                       Conc.frame view1 t a1 a1' /\ Conc.frame view2 t a2 a2' /\
                       Conc.safe view12 Inv12 t (k (snd (fst (f g)))) (view1 a1' t, view2 a2' t) Q) ->
    Conc.safe view12 Inv12 t (Act f k) (l1, l2) Q.
  Proof.
    intros H. cbn [Conc.safe]. intros g [a1 a2] tr [Hi1 Hi2] Hv. unfold HpLiveCopyRule.view12 in Hv. cbn [fst snd] in *.
    inversion Hv as [[Hv1 Hv2]]. destruct (H g a1 a2 tr Hi1 Hi2 Hv1 Hv2) as (a1' & a2' & K1 & K2 & F1 & F2 & K3).
    exists (a1', a2'). split; [split; assumption|]. split; [|exact K3].
    intros t' Ht. unfold HpLiveCopyRule.view12; cbn [fst snd]. now rewrite (F1 t' Ht), (F2 t' Ht).
  Qed.

  Lemma pair_emit {R} t (es : list E) (k : Conc.prog G V E R) l1 l2 (Q : R -> L1 * L2 -> Prop) :
    (forall g a1 a2 tr, Inv1 g a1 tr -> Inv2 g a2 tr -> view1 a1 t = l1 -> view2 a2 t = l2 ->
       exists a1' a2', Inv1 g a1' (tr ++ Conc.tag t es) /\ Inv2 g a2' (tr ++ Conc.tag t es) /\
                       Conc.frame view1 t a1 a1' /\ Conc.frame view2 t a2 a2' /\
                       Conc.safe view12 Inv12 t k (view1 a1' t, view2 a2' t) Q) ->
    Conc.safe view12 Inv12 t (Emit es k) (l1, l2) Q.
  Proof.
    intros H. cbn [Conc.safe]. intros g [a1 a2] tr [Hi1 Hi2] Hv. unfold HpLiveCopyRule.view12 in Hv. cbn [fst snd] in *.
    inversion Hv as [[Hv1 Hv2]]. destruct (H g a1 a2 tr Hi1 Hi2 Hv1 Hv2) as (a1' & a2' & K1 & K2 & F1 & F2 & K3).
    exists (a1', a2'). split; [split; assumption|]. split; [|exact K3].
    intros t' Ht. unfold HpLiveCopyRule.view12; cbn [fst snd]. now rewrite (F1 t' Ht), (F2 t' Ht).
  Qed.
End Rel1.
