(** * Proofs about the sequential StripedSet model (LV.Model.StripedSeq), for ALL hash functions and resizing policies.

    internal_resize re-inserts every element of every old bucket into the doubled table: the new contents are a
    permutation of the old ones (given no key is present twice — a bucket refuses an equal key, so a duplicate would
    be lost by move_item), every bucket of the new table is sorted and holds exactly the keys its index selects,
    hence every old element is found afterwards. *)
From Coq Require Import List NArith Arith Bool Lia Permutation Sorted.
From LV Require Import Model.CuckooSeq Model.StripedSeq Proofs.CuckooProofs.
Import ListNotations.

Lemma sb_insert_spec b x :
  (fst (sb_insert b x) = true -> Permutation (snd (sb_insert b x)) (x :: b)) /\
  (fst (sb_insert b x) = false -> snd (sb_insert b x) = b /\ In x b).
Proof.
  induction b as [|y b [IH1 IH2]]; simpl; [split; [reflexivity|discriminate]|].
  destruct (N.ltb y x).
  - destruct (sb_insert b x) as [r b'']; simpl in *. split.
    + intros H. rewrite (IH1 H). apply perm_swap.
    + intros H. destruct (IH2 H) as [-> Hin]. split; auto.
  - destruct (N.eqb_spec y x) as [->|Hn]; simpl; split; try discriminate; try reflexivity.
    intros _. split; auto.
Qed.

Lemma sb_insert_true b x : ~ In x b -> fst (sb_insert b x) = true.
Proof.
  intros Hn. destruct (fst (sb_insert b x)) eqn:E; auto.
  destruct (sb_insert_spec b x) as [_ H]. destruct (H E) as [_ Hin]. contradiction.
Qed.

Lemma sb_insert_sorted b x : StronglySorted N.le b -> StronglySorted N.le (snd (sb_insert b x)).
Proof.
  induction b as [|y b IH]; simpl; intros Hs; [repeat constructor|].
  inversion Hs as [|? ? Hs' Hall]; subst.
  destruct (N.ltb_spec y x) as [Hlt|Hge].
  - specialize (IH Hs'). destruct (sb_insert_spec b x) as [S1 S2].
    destruct (sb_insert b x) as [r b'']; simpl in *. constructor; auto.
    rewrite Forall_forall in *. intros z Hz. destruct r.
    + apply (Permutation_in _ (S1 eq_refl)) in Hz. destruct Hz as [<-|Hz]; [lia|auto].
    + destruct (S2 eq_refl) as [-> _]. auto.
  - destruct (N.eqb_spec y x) as [->|Hn]; simpl; auto.
    constructor; auto. constructor; [lia|]. rewrite Forall_forall in *. intros z Hz. specialize (Hall z Hz). lia.
Qed.

Lemma sb_insert_true_notin b x : StronglySorted N.le b -> fst (sb_insert b x) = true -> ~ In x b.
Proof.
  induction b as [|y b IH]; simpl; [tauto|]. intros Hs.
  inversion Hs as [|? ? Hs' Hall]; subst.
  destruct (N.ltb_spec y x) as [Hlt|Hge].
  - specialize (IH Hs'). destruct (sb_insert b x) as [r b'']; simpl in *.
    intros Hr [E|Hin]; [subst; lia|]. now apply IH.
  - destruct (N.eqb_spec y x) as [->|Hn]; simpl; [discriminate|].
    intros _ [E|Hin]; [congruence|]. rewrite Forall_forall in Hall. specialize (Hall _ Hin). lia.
Qed.

Lemma sb_find_complete b x : StronglySorted N.le b -> In x b -> sb_find b x = true.
Proof.
  induction b as [|y b IH]; simpl; [tauto|]. intros Hs Hin.
  inversion Hs as [|? ? Hs' Hall]; subst.
  destruct (N.ltb_spec y x) as [Hlt|Hge].
  - destruct Hin as [E|Hin]; [subst; lia|auto].
  - apply N.eqb_eq. destruct Hin as [E|Hin]; auto.
    rewrite Forall_forall in Hall. specialize (Hall _ Hin). lia.
Qed.

Lemma upd_const {A} i (f : A -> A) l d : i < length l -> upd i f l = upd i (fun _ => f (nth i l d)) l.
Proof. revert i; induction l; intros [|i] H; simpl in *; try lia; auto. f_equal. apply IHl. lia. Qed.

Lemma concat_repeat_nil {A} n : concat (repeat (@nil A) n) = [].
Proof. induction n; simpl; auto. Qed.

Section Proofs.
  Variable h : key -> N.
  Variable pol : nat -> nat -> nat -> bool.

  Notation sidx := (sidx h).
  Notation smove := (smove h).
  Notation internal_resize := (internal_resize h).

  Lemma sidx_lt lgc x : sidx lgc x < 2 ^ lgc.
  Proof.
    unfold StripedSeq.sidx. rewrite N.land_ones.
    assert (H : (h x mod 2 ^ N.of_nat lgc < 2 ^ N.of_nat lgc)%N) by (apply N.mod_lt, N.pow_nonzero; discriminate).
    assert (E : 2 ^ lgc = N.to_nat (2 ^ N.of_nat lgc)) by (rewrite N2Nat.inj_pow, Nat2N.id; reflexivity).
    rewrite E. lia.
  Qed.

  (** per-bucket invariant of a table with 2^lgc buckets: placement and sortedness *)
  Definition SQ (lgc : nat) (nb : list bucket) : Prop :=
    forall i, (forall e, In e (nth i nb []) -> sidx lgc e = i) /\ StronglySorted N.le (nth i nb []).

  Lemma SQ_empty lgc n : SQ lgc (repeat [] n).
  Proof.
    intros i. destruct (nth_repeat_any (@nil key) [] n i) as [E|E]; unfold bucket in *; rewrite E;
      (split; [intros e []|constructor]).
  Qed.

  Lemma smove_spec lgc nb e : length nb = 2 ^ lgc -> ~ In e (concat nb) ->
    length (smove lgc nb e) = 2 ^ lgc /\ Permutation (concat (smove lgc nb e)) (e :: concat nb) /\
    (SQ lgc nb -> SQ lgc (smove lgc nb e)).
  Proof.
    intros Hl Hn. unfold StripedSeq.smove. pose proof (sidx_lt lgc e) as Hi. rewrite <- Hl in Hi.
    split; [now rewrite upd_length|].
    assert (Hnb : ~ In e (nth (sidx lgc e) nb [])).
    { intros Hin. apply Hn. apply in_concat. exists (nth (sidx lgc e) nb []). split; auto. now apply nth_In. }
    pose proof (sb_insert_true _ _ Hnb) as Ht. destruct (sb_insert_spec (nth (sidx lgc e) nb []) e) as [S1 _].
    specialize (S1 Ht). split.
    - rewrite (upd_const _ _ _ [] Hi).
      pose proof (concat_upd_perm nb (sidx lgc e) (snd (sb_insert (nth (sidx lgc e) nb []) e)) Hi) as C.
      apply Permutation_app_inv_l with (l := nth (sidx lgc e) nb []).
      rewrite C. rewrite S1. simpl. apply Permutation_middle.
    - intros HQ j. destruct (Nat.eq_dec (sidx lgc e) j) as [<-|Hne].
      + rewrite nth_upd_eq by auto. destruct (HQ (sidx lgc e)) as [Hp Hs]. split.
        * intros z Hz. apply (Permutation_in _ S1) in Hz. destruct Hz as [<-|Hz]; auto.
        * now apply sb_insert_sorted.
      + rewrite nth_upd_neq by auto. apply HQ.
  Qed.

  Lemma fold_smove lgc l : forall nb, length nb = 2 ^ lgc -> NoDup (l ++ concat nb) ->
    length (fold_left (smove lgc) l nb) = 2 ^ lgc /\
    Permutation (concat (fold_left (smove lgc) l nb)) (l ++ concat nb) /\
    (SQ lgc nb -> SQ lgc (fold_left (smove lgc) l nb)).
  Proof.
    induction l as [|e l IH]; intros nb Hl Hnd; simpl; [auto|].
    simpl in Hnd. inversion Hnd as [|? ? Hne Hnd']; subst.
    assert (Hn : ~ In e (concat nb)) by (intro; apply Hne; apply in_or_app; now right).
    destruct (smove_spec lgc nb e Hl Hn) as [A [B C]].
    assert (Hnd2 : NoDup (l ++ concat (smove lgc nb e))).
    { apply (Permutation_NoDup (l := e :: l ++ concat nb)); [|exact Hnd].
      rewrite B. apply Permutation_middle. }
    destruct (IH _ A Hnd2) as [A' [B' C']]. split; auto. split; auto.
    rewrite B'. rewrite B. symmetry. apply Permutation_middle.
  Qed.

  (** internal_resize keeps exactly the elements (no hypothesis on the shape of the old table) *)
  Theorem resize_preserves t : NoDup (selems t) ->
    Permutation (selems (internal_resize t)) (selems t).
  Proof.
    intros Hnd. unfold StripedSeq.internal_resize, selems in *. simpl.
    destruct (fold_smove (S (slg t)) (concat (sbkts t)) (repeat [] (2 ^ S (slg t)))) as [_ [B _]].
    - apply repeat_length.
    - now rewrite concat_repeat_nil, app_nil_r.
    - rewrite B. now rewrite concat_repeat_nil, app_nil_r.
  Qed.

  Definition swf (t : stbl) : Prop := length (sbkts t) = 2 ^ slg t.
  Definition SInv (t : stbl) : Prop := swf t /\ SQ (slg t) (sbkts t) /\ NoDup (selems t).

  Lemma resize_Inv t : NoDup (selems t) -> SInv (internal_resize t).
  Proof.
    intros Hnd. pose proof (resize_preserves t Hnd) as Hp.
    unfold StripedSeq.internal_resize, selems, SInv, swf in *. simpl in *.
    destruct (fold_smove (S (slg t)) (concat (sbkts t)) (repeat [] (2 ^ S (slg t)))) as [A [_ C]].
    - apply repeat_length.
    - now rewrite concat_repeat_nil, app_nil_r.
    - split; [exact A|]. split; [apply C, SQ_empty|].
      apply (Permutation_NoDup (Permutation_sym Hp) Hnd).
  Qed.

  Lemma sfind_complete t x : SInv t -> In x (selems t) -> sfind h t x = true.
  Proof.
    intros [Hwf [HQ _]] Hin. unfold selems in Hin. apply in_concat in Hin. destruct Hin as [b [Hb Hx]].
    destruct (In_nth _ _ [] Hb) as [i [Hi Ei]]. destruct (HQ i) as [Hp Hs]. subst b.
    unfold StripedSeq.sfind. rewrite (Hp x Hx). now apply sb_find_complete.
  Qed.

  (** every element held before the growth is found after it *)
  Theorem resize_keeps_found t x : NoDup (selems t) -> In x (selems t) -> sfind h (internal_resize t) x = true.
  Proof.
    intros Hnd Hin. apply sfind_complete; [now apply resize_Inv|].
    apply (Permutation_in _ (Permutation_sym (resize_preserves t Hnd))). exact Hin.
  Qed.

  Lemma sfind_sound t x : sfind h t x = true -> In x (selems t).
  Proof.
    unfold StripedSeq.sfind, selems. intros H.
    assert (G : forall b, sb_find b x = true -> In x b).
    { induction b as [|y b IH]; simpl; [discriminate|]. destruct (N.ltb y x); [auto|]. intros E. apply N.eqb_eq in E. now left. }
    apply G in H. apply in_concat. exists (nth (sidx (slg t) x) (sbkts t) []). split; auto.
    destruct (nth_in_or_default (sidx (slg t) x) (sbkts t) []) as [Hi|Hd]; auto.
    unfold bucket in *. rewrite Hd in H. inversion H.
  Qed.

  (** insert: with any policy (so with or without a resize) a successful insert adds exactly x *)
  Theorem sinsert_conserves t x r t' : SInv t -> sinsert h pol t x = (r, t') ->
    SInv t' /\ if r then Permutation (selems t') (x :: selems t) /\ ~ In x (selems t)
               else t' = t /\ In x (selems t).
  Proof.
    intros [Hwf [HQ Hnd]]. unfold StripedSeq.sinsert.
    pose proof (sidx_lt (slg t) x) as Hi. unfold swf in Hwf. rewrite <- Hwf in Hi.
    destruct (sb_insert_spec (nth (sidx (slg t) x) (sbkts t) []) x) as [S1 S2].
    destruct (HQ (sidx (slg t) x)) as [Hp Hs].
    pose proof (sb_insert_true_notin _ x Hs) as Hnotin.
    pose proof (sb_insert_sorted _ x Hs) as Hsorted.
    destruct (sb_insert (nth (sidx (slg t) x) (sbkts t) []) x) as [ok b'] eqn:E; simpl in *.
    destruct ok; intros E2; inversion E2; subst; clear E2.
    - specialize (S1 eq_refl). specialize (Hnotin eq_refl).
      set (t1 := mkS (slg t) (upd (sidx (slg t) x) (fun _ => b') (sbkts t)) (S (scnt t))).
      assert (P1 : Permutation (selems t1) (x :: selems t)).
      { unfold selems, t1; simpl. pose proof (concat_upd_perm (sbkts t) (sidx (slg t) x) b' Hi) as C.
        apply Permutation_app_inv_l with (l := nth (sidx (slg t) x) (sbkts t) []).
        rewrite C. rewrite S1. simpl. apply Permutation_middle. }
      assert (Hnx : ~ In x (selems t)).
      { intros Hin. unfold selems in Hin. apply in_concat in Hin. destruct Hin as [b [Hb Hx]].
        destruct (In_nth _ _ [] Hb) as [i [Hli Ei]]. destruct (HQ i) as [Hpi _]. subst b.
        rewrite <- (Hpi x Hx) in Hx. contradiction. }
      assert (I1 : SInv t1).
      { split; [unfold swf, t1; simpl; now rewrite upd_length|]. split.
        - intros j. unfold t1; simpl. destruct (Nat.eq_dec (sidx (slg t) x) j) as [<-|Hne].
          + rewrite nth_upd_eq by auto. split; [|exact Hsorted].
            intros z Hz. apply (Permutation_in _ S1) in Hz. destruct Hz as [<-|Hz]; auto.
          + rewrite nth_upd_neq by auto. apply HQ.
        - apply (Permutation_NoDup (Permutation_sym P1)). now constructor. }
      destruct (pol (S (scnt t)) (2 ^ slg t) (length b')).
      + destruct I1 as [_ [_ Hnd1]]. split; [now apply resize_Inv|]. split; [|exact Hnx].
        fold t1. rewrite (resize_preserves t1 Hnd1). exact P1.
      + split; [exact I1|]. split; [exact P1|exact Hnx].
    - destruct (S2 eq_refl) as [_ Hin]. split; [split; [exact Hwf|split; [exact HQ|exact Hnd]]|]. split; auto.
      unfold selems. apply in_concat. exists (nth (sidx (slg t') x) (sbkts t') []). split; auto. now apply nth_In.
  Qed.

  Lemma SInv_init lg0 : SInv (sinit lg0).
  Proof.
    unfold SInv, swf, sinit, selems; simpl. split; [apply repeat_length|]. split; [apply SQ_empty|].
    rewrite concat_repeat_nil. constructor.
  Qed.
End Proofs.
