(** * The invariants of LV.Proofs.VyukovCore for the WRAPPED Vyukov model (LV.Model.VyukovWrap), for every schedule,
      with NO bound on the number of operations.

    Method: ghost state.  The auxiliary state carries an unbounded copy [gh] of the shared state (positions and
    sequence numbers as mathematical integers that never wrap); the concrete state is its image modulo 2^64
    ([Rel], maintained unconditionally), and [gh] satisfies the very invariant [VyukovCore.RealInv] of the unbounded
    development (re-used, not copied: [ri_phase], [ri_lp], [ri_cnt], [ri_client] apply as they are; only the four
    steps that move a position or a sequence number are re-proved for ideal arithmetic, [tri_*]).

    What replaces "fewer than 2^62 claims in total" is a bound on how long ONE thread may sleep between two of its
    own steps.  A thread holds a copy of a position in a local variable; the code compares it with shared counters
    by modular arithmetic, and such a comparison agrees with the comparison of the ghost values only while the two
    are less than 2^63 apart.  [since tr t] counts the successful enqueue claims (successful CAS on m_posEnqueue)
    since thread t's last event; [fresh tr] says that every event of the trace was produced by a thread that had
    slept through fewer than 2^62 such claims.  It is prefix closed and implied by the old bound
    ([claims_fresh]).  A local position is at most two own steps old when it is used, hence less than 2^63 claims
    behind.  Capacity 2^k with 1 <= k <= 61 (the old bound implied the same). *)
From Coq Require Import ZArith List Bool Lia PeanoNat.
From LV Require Import Base.Conc Base.Events Base.CInt Base.Lin Spec.Specs Model.Vyukov Model.VyukovWrap
                       Proofs.VyukovSpec Proofs.VyukovArith Proofs.VyukovCore Proofs.VyukovWrapArith.
Import ListNotations.
Local Open Scope Z_scope.

(** ** how many enqueue claims a thread has slept through *)
Definition claim1 (e : nat * ev) : Z := if is_claim e then 1 else 0.

Fixpoint since_r (rt : list (nat * ev)) (t : nat) : Z :=
  match rt with
  | [] => 0
  | e :: r => if Nat.eqb (fst e) t then 0 else claim1 e + since_r r t
  end.

Definition since (tr : list (nat * ev)) (t : nat) : Z := since_r (rev tr) t.

Definition fresh (tr : list (nat * ev)) : Prop :=
  forall pre e post, tr = pre ++ e :: post -> since pre (fst e) < L62.

Lemma since_snoc tr e t :
  since (tr ++ [e]) t = if Nat.eqb (fst e) t then 0 else claim1 e + since tr t.
Proof. unfold since. rewrite rev_app_distr. reflexivity. Qed.

Lemma nclaims_cons e tr : nclaims (e :: tr) = claim1 e + nclaims tr.
Proof. unfold nclaims, claim1. cbn [filter]. destruct (is_claim e); cbn [length]; lia. Qed.

Lemma since_nonneg tr t : 0 <= since tr t.
Proof.
  unfold since. induction (rev tr) as [|e r IH]; cbn [since_r]; [lia|].
  destruct (Nat.eqb (fst e) t); [lia|]. unfold claim1. destruct (is_claim e); lia.
Qed.

Lemma since_le_nclaims tr t : since tr t <= nclaims tr.
Proof.
  induction tr as [|e tr IH] using rev_ind; [cbn; lia|].
  rewrite since_snoc, nclaims_app. unfold nclaims at 2. cbn [filter]. fold (claim1 e).
  pose proof (nclaims_nonneg tr).
  destruct (Nat.eqb (fst e) t); unfold claim1; destruct (is_claim e); cbn [length]; lia.
Qed.

Lemma since_app_other tr u es t : u <> t -> since (tr ++ Conc.tag u es) t = since tr t + nclaims (Conc.tag u es).
Proof.
  intros N. revert tr. induction es as [|e es IH]; intros tr.
  - cbn. rewrite app_nil_r. unfold nclaims; cbn. lia.
  - cbn [Conc.tag map]. change (map (pair u) es) with (Conc.tag u es).
    replace (tr ++ (u, e) :: Conc.tag u es) with ((tr ++ [(u, e)]) ++ Conc.tag u es) by (rewrite <- app_assoc; reflexivity).
    rewrite IH, since_snoc, nclaims_cons. cbn [fst].
    destruct (Nat.eqb_spec u t); [congruence|]. lia.
Qed.

Lemma since_app_self tr t es : es <> [] -> since (tr ++ Conc.tag t es) t = 0.
Proof.
  intros Hne. destruct (exists_last Hne) as (es' & e' & E). rewrite E.
  unfold Conc.tag. rewrite map_app. cbn [map]. rewrite app_assoc, since_snoc. cbn [fst].
  now rewrite Nat.eqb_refl.
Qed.

Lemma fresh_nil : fresh [].
Proof. intros pre e post H. destruct pre; discriminate. Qed.

Lemma fresh_app tr es : fresh (tr ++ es) -> fresh tr.
Proof. intros H pre e post E. apply (H pre e (post ++ es)). rewrite E, <- app_assoc. reflexivity. Qed.

Lemma fresh_step tr t es : es <> [] -> fresh (tr ++ Conc.tag t es) -> since tr t < L62.
Proof. intros Hne H. destruct es as [|e es]; [congruence|]. apply (H tr (t, e) (Conc.tag t es)). reflexivity. Qed.

(** the old hypothesis implies the new one *)
Lemma claims_fresh tr : nclaims tr < L62 -> fresh tr.
Proof.
  intros H pre e post E. pose proof (since_le_nclaims pre (fst e)).
  rewrite E, nclaims_app in H. pose proof (nclaims_nonneg (e :: post)). lia.
Qed.

Definition upds (f : nat -> Z) (t : nat) (x : Z) : nat -> Z := fun u => if Nat.eqb u t then x else f u.
Lemma upds_same f t x : upds f t x t = x.
Proof. unfold upds. now rewrite Nat.eqb_refl. Qed.
Lemma upds_other f t x u : u <> t -> upds f t x u = f u.
Proof. unfold upds. intros H. destruct (Nat.eqb_spec u t); congruence. Qed.

Section WCore.
  Variable k : nat.
  Hypothesis Hk : (1 <= k)%nat.
  Hypothesis Hk61 : (k <= 61)%nat.
  Notation cap := (2 ^ Z.of_nat k).
  Notation capn := (2 ^ k)%nat.
  Variable q : qcfg.
  Hypothesis Hq : qcap q = cap.
  Variable sc : option nat.
  Variable e0 : Z.                   (* ghost m_posEnqueue of the initial state *)

  Notation cell := (VyukovArith.cell k).

  Variables X LX : Type.
  Variable xview : X -> nat -> LX.
  Variable xlin : nat -> X -> X.
  Variable Ext : list Z -> (nat -> status (VQ capn)) -> X -> list (nat * ev) -> Prop.
  Hypothesis Ext_acc : forall qs S x tr t kk o ok rd wr,
    Ext qs S x tr -> Ext qs S x (tr ++ Conc.tag t (acc kk o ok rd wr)).
  Hypothesis Ext_ext : forall qs S S' x tr, (forall t, S' t = S t) -> Ext qs S x tr -> Ext qs S' x tr.
  Hypothesis Ext_lin : forall qs S x tr t o,
    Ext qs S x tr -> S t = sPend k o ->
    Ext (fst (vq_step capn qs o)) (Lin.upd S t (sLin k o (snd (vq_step capn qs o)))) (xlin t x) tr.
  Hypothesis xview_lin : forall t x u, xview (xlin t x) u = xview x u.

  Notation RI := (RealInv k sc e0 X Ext).
  Notation absq := (absq X).
  Notation ph := (ph X).
  Notation ext := (ext X).
  Notation set_ph := (set_ph X).
  Notation lin_ph := (lin_ph X xlin).
  Notation stat_of := (stat_of k).
  Notation phase_ok := (phase_ok k).

  Lemma wcap2 : 2 <= cap.
  Proof. apply (cap_ge2 k Hk). Qed.

  Lemma wcap61 : cap <= 2 ^ 61.
  Proof. apply (cap_le_61 k Hk Hk61). Qed.

  Lemma wcapn_cap : Z.of_nat capn = cap.
  Proof. rewrite Nat2Z.inj_pow. reflexivity. Qed.

  (** ** the four steps that move a position or a sequence number, in ideal arithmetic *)

  (** E3 succeeds *)
  Lemma tri_enq_claim g a tr t v pos rd wr :
    RI g a tr -> ph a t = EnqSeen v pos -> posE g = pos ->
    RI (set_data (set_posE g (pos + 1)) (cell pos) v)
       (lin_ph a t (absq a ++ [v]) (EnqClaimed v pos))
       (tr ++ Conc.tag t (acc KCas obj_posE true rd wr)).
  Proof.
    intros R Hp HE. pose proof wcap2 as C2.
    destruct R as [Rpos Rcl Rlen Rcont Rused Rfree Rseqb Rph RuE RuD Rsc Rfr Rext].
    pose proof (Rph t) as Pt. rewrite Hp in Pt. cbn [VyukovCore.phase_ok] in Pt. destruct Pt as [Pt1 Pt2].
    subst pos.
    assert (Hcell : seqs g (cell (posE g)) = posE g /\ posE g < posD g + cap).
    { destruct (Z_lt_ge_dec (posE g) (posD g + cap)) as [L|L].
      - split; auto. destruct (Rfree (posE g) ltac:(lia)) as [H|[H _]]; lia.
      - exfalso. assert (E : posE g = posD g + cap) by lia.
        destruct (Rused (posD g) ltac:(lia)) as [H|[H _]];
          rewrite <- (cell_add_cap k (posD g)) in H; rewrite <- E in H; lia. }
    destruct Hcell as [Hs Hlt].
    assert (Hne : forall p, posD g <= p < posD g + cap -> p <> posE g -> cell p <> cell (posE g)).
    { intros p Hp' N. apply (cell_neq k Hk); auto. lia. }
    constructor; cbn [posE posD seqs datas set_data set_posE VyukovCore.absq VyukovCore.ph VyukovCore.ext VyukovCore.lin_ph].
    - lia.
    - rewrite nclaims_app.
      change (nclaims (Conc.tag t (acc KCas obj_posE true rd wr))) with 1. lia.
    - rewrite app_length. cbn [length]. lia.
    - intros i Hi. rewrite app_length in Hi. cbn [length] in Hi.
      destruct (Nat.eq_dec i (length (absq a))) as [->|N].
      + rewrite nth_error_app2 by lia. rewrite Nat.sub_diag. cbn [nth_error].
        rewrite Rlen. replace (posD g + (posE g - posD g)) with (posE g) by lia.
        unfold upd. now rewrite Z.eqb_refl.
      + rewrite nth_error_app1 by lia. rewrite Rcont by lia. f_equal. unfold upd.
        destruct (Z.eqb_spec (cell (posD g + Z.of_nat i)) (cell (posE g))) as [E|E]; auto.
        exfalso. revert E. apply Hne; lia.
    - intros p Hp'. destruct (Z.eq_dec p (posE g)) as [->|N].
      + right. split; auto. exists t, v. now rewrite updp_same.
      + destruct (Rused p ltac:(lia)) as [H|[H (t0 & v0 & H0)]]; [left; auto|right; split; auto].
        exists t0, v0. rewrite updp_other; auto. intros ->. rewrite H0 in Hp. discriminate.
    - intros p Hp'. destruct (Rfree p ltac:(lia)) as [H|[H (t0 & pk & v0 & H0)]]; [left; auto|right; split; auto].
      exists t0, pk, v0. rewrite updp_other; auto. intros ->. rewrite H0 in Hp. discriminate.
    - intros p. specialize (Rseqb p). lia.
    - intros u. destruct (Nat.eq_dec u t) as [->|N].
      + rewrite updp_same. cbn [VyukovCore.phase_ok posE posD seqs datas set_data set_posE set_posD set_seq]. lia.
      + rewrite updp_other by auto. specialize (Rph u).
        destruct (ph a u) eqn:Eu; cbn [VyukovCore.phase_ok posE posD seqs datas set_data set_posE set_posD set_seq] in *; try lia; auto.
        destruct Rph as (A1 & A2 & A3). split; [lia|]. split; [|auto].
        destruct (Z.eq_dec (posE g) (pos + cap)) as [E|E]; [|lia].
        exfalso. rewrite <- (cell_add_cap k pos) in A3. rewrite <- E in A3. lia.
    - intros u u' v1 v2 p H1 H2.
      destruct (Nat.eq_dec u t) as [->|N1]; destruct (Nat.eq_dec u' t) as [->|N2]; auto.
      + rewrite updp_same in H1. rewrite updp_other in H2 by auto. inversion H1; subst.
        pose proof (Rph u') as P. rewrite H2 in P. cbn [VyukovCore.phase_ok] in P. lia.
      + rewrite updp_same in H2. rewrite updp_other in H1 by auto. inversion H2; subst.
        pose proof (Rph u) as P. rewrite H1 in P. cbn [VyukovCore.phase_ok] in P. lia.
      + rewrite updp_other in H1, H2 by auto. eapply RuE; eauto.
    - intros u u' pk pk' v1 v2 p H1 H2.
      destruct (Nat.eq_dec u t) as [->|N1]; [rewrite updp_same in H1; discriminate|].
      destruct (Nat.eq_dec u' t) as [->|N2]; [rewrite updp_same in H2; discriminate|].
      rewrite updp_other in H1, H2 by auto. eapply RuD; eauto.
    - intros tc u Hsc Hc. destruct (Nat.eq_dec u t) as [->|N].
      + rewrite updp_same in Hc. contradiction.
      + rewrite updp_other in Hc by auto. eapply Rsc; eauto.
    - intros u Hf. destruct (Nat.eq_dec u t) as [->|N].
      + rewrite updp_same in Hf. contradiction.
      + rewrite updp_other in Hf by auto. apply Rfr; auto.
    - apply Ext_acc.
      assert (Hst : (fun u => stat_of (ph a u)) t = sPend k (VEnq v)) by (cbn; now rewrite Hp).
      pose proof (Ext_lin (absq a) (fun u => stat_of (ph a u)) (ext a) tr t (VEnq v) Rext Hst) as E.
      cbn [vq_step bfifo_step] in E.
      assert (Hl : (length (absq a) <? capn)%nat = true).
      { apply Nat.ltb_lt. pose proof wcapn_cap. lia. }
      rewrite Hl in E. cbn [fst snd] in E. eapply Ext_ext; [|exact E].
      intros u. rewrite stat_updp. unfold Lin.upd. destruct (Nat.eqb u t); auto.
  Qed.

  (** E6 *)
  Lemma tri_enq_publish g a tr t v pos rd wr :
    RI g a tr -> ph a t = EnqClaimed v pos ->
    RI (set_seq g (cell pos) (pos + 1)) (set_ph a t (EnqDone v))
       (tr ++ Conc.tag t (acc KSt (obj_seq (cell pos)) true rd wr)).
  Proof.
    intros R Hp. pose proof wcap2 as C2.
    destruct R as [Rpos Rcl Rlen Rcont Rused Rfree Rseqb Rph RuE RuD Rsc Rfr Rext].
    pose proof (Rph t) as Pt. rewrite Hp in Pt. cbn [VyukovCore.phase_ok] in Pt. destruct Pt as [Pt1 Pt2].
    assert (Hne : forall p, posD g <= p < posD g + cap -> p <> pos -> cell p <> cell pos).
    { intros p Hp' N. apply (cell_neq k Hk); auto. lia. }
    constructor; cbn [posE posD seqs datas set_seq VyukovCore.absq VyukovCore.ph VyukovCore.ext VyukovCore.set_ph]; auto.
    - rewrite nclaims_app.
      change (nclaims (Conc.tag t (acc KSt (obj_seq (cell pos)) true rd wr))) with 0. lia.
    - intros p Hp'. unfold upd. destruct (Z.eqb_spec (cell p) (cell pos)) as [E|E].
      + left. destruct (Z.eq_dec p pos) as [->|N]; auto. exfalso. revert E. apply Hne; lia.
      + destruct (Rused p Hp') as [H|[H (t0 & v0 & H0)]]; [left; auto|right; split; auto].
        exists t0, v0. rewrite updp_other; auto. intros ->. rewrite H0 in Hp. inversion Hp; subst. congruence.
    - intros p Hp'. unfold upd. destruct (Z.eqb_spec (cell p) (cell pos)) as [E|E].
      + exfalso. revert E. apply Hne; lia.
      + destruct (Rfree p Hp') as [H|[H (t0 & pk & v0 & H0)]]; [left; auto|right; split; auto].
        exists t0, pk, v0. rewrite updp_other; auto. intros ->. rewrite H0 in Hp. discriminate.
    - intros p. unfold upd. destruct (Z.eqb_spec (cell p) (cell pos)); [lia|apply Rseqb].
    - intros u. destruct (Nat.eq_dec u t) as [->|N].
      + rewrite updp_same. exact I.
      + rewrite updp_other by auto. pose proof (Rph u) as P.
        destruct (ph a u) eqn:Eu; cbn [VyukovCore.phase_ok posE posD seqs datas set_data set_posE set_posD set_seq] in *; auto.
        * destruct P as [P1 P2]. split; auto. unfold upd.
          destruct (Z.eqb_spec (cell pos0) (cell pos)) as [E|E]; [rewrite E in P2; lia|auto].
        * destruct P as [P1 P2]. split; auto. unfold upd.
          destruct (Z.eqb_spec (cell pos0) (cell pos)) as [E|E]; auto.
          exfalso. assert (pos0 = pos) by (apply (cell_inj k Hk); auto; lia). subst pos0.
          apply N. eapply RuE; eauto.
        * destruct P as [P1 P2]. split; auto. unfold upd.
          destruct (Z.eqb_spec (cell pos0) (cell pos)) as [E|E]; [rewrite E in P2; lia|auto].
        * destruct P as (P1 & P2 & P3). split; auto. split; auto. unfold upd.
          destruct (Z.eqb_spec (cell pos0) (cell pos)) as [E|E]; auto.
          exfalso. rewrite <- (cell_add_cap k pos0) in E. revert E. apply Hne; lia.
    - intros u u' v1 v2 p H1 H2.
      destruct (Nat.eq_dec u t) as [->|N1]; [rewrite updp_same in H1; discriminate|].
      destruct (Nat.eq_dec u' t) as [->|N2]; [rewrite updp_same in H2; discriminate|].
      rewrite updp_other in H1, H2 by auto. eapply RuE; eauto.
    - intros u u' pk pk' v1 v2 p H1 H2.
      destruct (Nat.eq_dec u t) as [->|N1]; [rewrite updp_same in H1; discriminate|].
      destruct (Nat.eq_dec u' t) as [->|N2]; [rewrite updp_same in H2; discriminate|].
      rewrite updp_other in H1, H2 by auto. eapply RuD; eauto.
    - intros tc u Hsc Hc. destruct (Nat.eq_dec u t) as [->|N].
      + rewrite updp_same in Hc. contradiction.
      + rewrite updp_other in Hc by auto. eapply Rsc; eauto.
    - intros u Hf. destruct (Nat.eq_dec u t) as [->|N].
      + rewrite updp_same in Hf. contradiction.
      + rewrite updp_other in Hf by auto. apply Rfr; auto.
    - apply Ext_acc. eapply Ext_ext; [|exact Rext].
      intros u. cbn. destruct (Nat.eq_dec u t) as [->|N]; [rewrite updp_same, Hp; auto|rewrite updp_other; auto].
  Qed.

  (** D3 succeeds *)
  Lemma tri_deq_claim g a tr t pk pos rd wr :
    RI g a tr -> ph a t = DeqSeen pk pos -> posD g = pos ->
    RI (set_posD g (pos + 1))
       (lin_ph a t (tl (absq a)) (DeqClaimed pk pos (datas g (cell pos))))
       (tr ++ Conc.tag t (acc KCas obj_posD true rd wr)).
  Proof.
    intros R Hp HD. pose proof wcap2 as C2.
    destruct R as [Rpos Rcl Rlen Rcont Rused Rfree Rseqb Rph RuE RuD Rsc Rfr Rext].
    pose proof (Rph t) as Pt. rewrite Hp in Pt. cbn [VyukovCore.phase_ok] in Pt. destruct Pt as [Pt1 Pt2].
    subst pos.
    assert (Hcell : seqs g (cell (posD g)) = posD g + 1 /\ posD g < posE g).
    { destruct (Z_lt_ge_dec (posD g) (posE g)) as [L|L].
      - split; auto. destruct (Rused (posD g) ltac:(lia)) as [H|[H _]]; lia.
      - exfalso. destruct (Rfree (posD g) ltac:(lia)) as [H|[H _]]; lia. }
    destruct Hcell as [Hs Hlt].
    destruct (absq a) as [|x rest] eqn:Eq; [cbn [length] in Rlen; lia|].
    assert (Hx : x = datas g (cell (posD g))).
    { pose proof (Rcont 0%nat ltac:(cbn; lia)) as H. cbn in H. rewrite Z.add_0_r in H. congruence. }
    cbn [tl].
    constructor; cbn [posE posD seqs datas set_posD VyukovCore.absq VyukovCore.ph VyukovCore.ext VyukovCore.lin_ph].
    - lia.
    - rewrite nclaims_app.
      change (nclaims (Conc.tag t (acc KCas obj_posD true rd wr))) with 0. lia.
    - cbn [length] in Rlen. lia.
    - intros i Hi. pose proof (Rcont (S i) ltac:(cbn [length]; lia)) as H. cbn [nth_error] in H.
      rewrite H. replace (posD g + 1 + Z.of_nat i) with (posD g + Z.of_nat (S i)) by lia. reflexivity.
    - intros p Hp'. destruct (Rused p ltac:(lia)) as [H|[H (t0 & v0 & H0)]]; [left; auto|right; split; auto].
      exists t0, v0. rewrite updp_other; auto. intros ->. rewrite H0 in Hp. discriminate.
    - intros p Hp'. destruct (Z.eq_dec p (posD g + cap)) as [->|N].
      + right. assert (Hc : cell (posD g + cap) = cell (posD g)) by apply (cell_add_cap k).
        rewrite Hc. split; [lia|].
        exists t, pk, (datas g (cell (posD g))). rewrite updp_same. f_equal. lia.
      + destruct (Rfree p ltac:(lia)) as [H|[H (t0 & pk0 & v0 & H0)]]; [left; auto|right; split; auto].
        exists t0, pk0, v0. rewrite updp_other; auto. intros ->. rewrite H0 in Hp. discriminate.
    - exact Rseqb.
    - intros u. destruct (Nat.eq_dec u t) as [->|N].
      + rewrite updp_same. cbn [VyukovCore.phase_ok posE posD seqs datas set_data set_posE set_posD set_seq]. lia.
      + rewrite updp_other by auto. specialize (Rph u).
        destruct (ph a u) eqn:Eu; cbn [VyukovCore.phase_ok posE posD seqs datas set_data set_posE set_posD set_seq] in *; try lia; auto.
        * destruct Rph as [A1 A2]. split; auto.
          destruct (Z.eq_dec pos (posD g)) as [->|E]; lia.
        * exfalso. apply N. pose proof (Rfr u) as F. rewrite Eu in F. specialize (F I).
          symmetry. eapply Rsc; eauto. rewrite Hp. exact I.
    - intros u u' v1 v2 p H1 H2.
      destruct (Nat.eq_dec u t) as [->|N1]; [rewrite updp_same in H1; discriminate|].
      destruct (Nat.eq_dec u' t) as [->|N2]; [rewrite updp_same in H2; discriminate|].
      rewrite updp_other in H1, H2 by auto. eapply RuE; eauto.
    - intros u u' pk1 pk2 v1 v2 p H1 H2.
      destruct (Nat.eq_dec u t) as [->|N1]; destruct (Nat.eq_dec u' t) as [->|N2]; auto.
      + rewrite updp_same in H1. rewrite updp_other in H2 by auto. inversion H1; subst.
        pose proof (Rph u') as P. rewrite H2 in P. cbn [VyukovCore.phase_ok] in P. lia.
      + rewrite updp_same in H2. rewrite updp_other in H1 by auto. inversion H2; subst.
        pose proof (Rph u) as P. rewrite H1 in P. cbn [VyukovCore.phase_ok] in P. lia.
      + rewrite updp_other in H1, H2 by auto. eapply RuD; eauto.
    - intros tc u Hsc Hc. destruct (Nat.eq_dec u t) as [->|N].
      + eapply Rsc; eauto. rewrite Hp. exact I.
      + rewrite updp_other in Hc by auto. eapply Rsc; eauto.
    - intros u Hf. destruct (Nat.eq_dec u t) as [->|N].
      + rewrite updp_same in Hf. contradiction.
      + rewrite updp_other in Hf by auto. apply Rfr; auto.
    - apply Ext_acc.
      assert (Hst : (fun u => stat_of (ph a u)) t = sPend k (dop pk)) by (cbn; now rewrite Hp).
      pose proof (Ext_lin (x :: rest) (fun u => stat_of (ph a u)) (ext a) tr t (dop pk) Rext Hst) as E.
      assert (E1 : fst (vq_step capn (x :: rest) (dop pk)) = rest) by (destruct pk; reflexivity).
      assert (E2 : snd (vq_step capn (x :: rest) (dop pk)) = dres pk (Some x)) by (destruct pk; reflexivity).
      rewrite E1, E2 in E. eapply Ext_ext; [|exact E].
      intros u. rewrite stat_updp. unfold Lin.upd. destruct (Nat.eqb u t); auto.
      cbn [VyukovCore.stat_of]. now rewrite <- Hx.
  Qed.

  (** D6 *)
  Lemma tri_deq_publish g a tr t pk pos v rd wr :
    RI g a tr -> ph a t = DeqClaimed pk pos v ->
    RI (set_seq g (cell pos) (pos + cap)) (set_ph a t (DeqRet pk (Some v)))
       (tr ++ Conc.tag t (acc KSt (obj_seq (cell pos)) true rd wr)).
  Proof.
    intros R Hp. pose proof wcap2 as C2.
    destruct R as [Rpos Rcl Rlen Rcont Rused Rfree Rseqb Rph RuE RuD Rsc Rfr Rext].
    pose proof (Rph t) as Pt. rewrite Hp in Pt. cbn [VyukovCore.phase_ok] in Pt. destruct Pt as (Pt1 & Pt2 & Pt3).
    assert (Hc : cell (pos + cap) = cell pos) by apply (cell_add_cap k).
    assert (Hne : forall p, posD g <= p < posD g + cap -> p <> pos + cap -> cell p <> cell pos).
    { intros p Hp' N. rewrite <- Hc. apply (cell_neq k Hk); auto. lia. }
    constructor; cbn [posE posD seqs datas set_seq VyukovCore.absq VyukovCore.ph VyukovCore.ext VyukovCore.set_ph]; auto.
    - rewrite nclaims_app.
      change (nclaims (Conc.tag t (acc KSt (obj_seq (cell pos)) true rd wr))) with 0. lia.
    - intros p Hp'. unfold upd. destruct (Z.eqb_spec (cell p) (cell pos)) as [E|E].
      + exfalso. revert E. apply Hne; lia.
      + destruct (Rused p Hp') as [H|[H (t0 & v0 & H0)]]; [left; auto|right; split; auto].
        exists t0, v0. rewrite updp_other; auto. intros ->. rewrite H0 in Hp. discriminate.
    - intros p Hp'. unfold upd. destruct (Z.eqb_spec (cell p) (cell pos)) as [E|E].
      + left. destruct (Z.eq_dec p (pos + cap)) as [->|N]; auto. exfalso. revert E. apply Hne; lia.
      + destruct (Rfree p Hp') as [H|[H (t0 & pk0 & v0 & H0)]]; [left; auto|right; split; auto].
        exists t0, pk0, v0. rewrite updp_other; auto. intros ->. rewrite H0 in Hp. inversion Hp; subst.
        apply E. rewrite <- Hc. f_equal. lia.
    - intros p. unfold upd. destruct (Z.eqb_spec (cell p) (cell pos)); [lia|apply Rseqb].
    - intros u. destruct (Nat.eq_dec u t) as [->|N].
      + rewrite updp_same. exact I.
      + rewrite updp_other by auto. pose proof (Rph u) as P.
        destruct (ph a u) eqn:Eu; cbn [VyukovCore.phase_ok posE posD seqs datas set_data set_posE set_posD set_seq] in *; auto.
        * destruct P as [P1 P2]. split; auto. unfold upd.
          destruct (Z.eqb_spec (cell pos0) (cell pos)) as [E|E]; [rewrite E in P2; lia|auto].
        * destruct P as [P1 P2]. split; auto. unfold upd.
          destruct (Z.eqb_spec (cell pos0) (cell pos)) as [E|E]; auto.
          exfalso. revert E. apply Hne; lia.
        * destruct P as [P1 P2]. split; auto. unfold upd.
          destruct (Z.eqb_spec (cell pos0) (cell pos)) as [E|E]; [rewrite E in P2; lia|auto].
        * destruct P as (P1 & P2 & P3). split; auto. split; auto. unfold upd.
          destruct (Z.eqb_spec (cell pos0) (cell pos)) as [E|E]; auto.
          exfalso. assert (pos0 = pos) by (apply (cell_inj k Hk); auto; lia). subst pos0.
          apply N. eapply RuD; eauto.
    - intros u u' v1 v2 p H1 H2.
      destruct (Nat.eq_dec u t) as [->|N1]; [rewrite updp_same in H1; discriminate|].
      destruct (Nat.eq_dec u' t) as [->|N2]; [rewrite updp_same in H2; discriminate|].
      rewrite updp_other in H1, H2 by auto. eapply RuE; eauto.
    - intros u u' pk1 pk2 v1 v2 p H1 H2.
      destruct (Nat.eq_dec u t) as [->|N1]; [rewrite updp_same in H1; discriminate|].
      destruct (Nat.eq_dec u' t) as [->|N2]; [rewrite updp_same in H2; discriminate|].
      rewrite updp_other in H1, H2 by auto. eapply RuD; eauto.
    - intros tc u Hsc Hc'. destruct (Nat.eq_dec u t) as [->|N].
      + eapply Rsc; eauto. rewrite Hp. exact I.
      + rewrite updp_other in Hc' by auto. eapply Rsc; eauto.
    - intros u Hf. destruct (Nat.eq_dec u t) as [->|N].
      + rewrite updp_same in Hf. contradiction.
      + rewrite updp_other in Hf by auto. apply Rfr; auto.
    - apply Ext_acc. eapply Ext_ext; [|exact Rext].
      intros u. cbn. destruct (Nat.eq_dec u t) as [->|N]; [rewrite updp_same, Hp; auto|rewrite updp_other; auto].
  Qed.

  (** ** ghost state, the relation to the concrete state, the invariant *)
  Record WAux := mkW { core : Aux X; gh : G; sl : nat -> Z }.

  Record Rel (g gg : G) : Prop := mkRel {
    rel_E : posE g = posE gg mod m64;
    rel_D : posD g = posD gg mod m64;
    rel_seq : forall i, 0 <= i < cap -> seqs g i = seqs gg i mod m64;   (* the cells of the ring *)
    rel_dat : forall i, datas g i = datas gg i;
    rel_cnt : cnt g = cnt gg
  }.

  (** how far behind m_posEnqueue a local copy of a position may be: [s] is the slack accumulated over the
      thread's own steps since it loaded the position, [d] the claims since its last step *)
  Definition stale_ok (gg : G) (p : phase) (s d : Z) : Prop :=
    match p with
    | EnqPos _ pos | EnqSeen _ pos => posE gg <= pos + s + d
    | DeqPos _ pos | DeqSeen _ pos | EmPos pos => posE gg <= pos + cap + s + d
    | _ => True
    end.

  Definition nopos (p : phase) : Prop := forall gg s d, stale_ok gg p s d.

  Definition WInv (a : WAux) (tr : list (nat * ev)) : Prop :=
    RI (gh a) (core a) tr /\ forall t, stale_ok (gh a) (ph (core a) t) (sl a t) (since tr t).

  Definition Inv (g : G) (a : WAux) (tr : list (nat * ev)) : Prop :=
    Rel g (gh a) /\ (fresh tr -> WInv a tr).

  Definition wview (a : WAux) (t : nat) : phase * Z * LX := (ph (core a) t, sl a t, xview (ext (core a)) t).

  Lemma wview_inv a t p s lx : wview a t = (p, s, lx) -> ph (core a) t = p /\ sl a t = s /\ xview (ext (core a)) t = lx.
  Proof. unfold wview. intros H. inversion H. auto. Qed.

  Lemma ri_posE g a tr : RI g a tr -> posE g = e0 + nclaims tr.
  Proof. intros R. exact (ri_claims _ _ _ _ _ _ _ _ R). Qed.

  (** the staleness clause after a step of thread [t] *)
  Lemma stale_step a a' tr t es :
    es <> [] ->
    RI (gh a) (core a) tr -> RI (gh a') (core a') (tr ++ Conc.tag t es) ->
    (forall u, u <> t -> ph (core a') u = ph (core a) u /\ sl a' u = sl a u) ->
    (forall u, stale_ok (gh a) (ph (core a) u) (sl a u) (since tr u)) ->
    stale_ok (gh a') (ph (core a') t) (sl a' t) 0 ->
    forall u, stale_ok (gh a') (ph (core a') u) (sl a' u) (since (tr ++ Conc.tag t es) u).
  Proof.
    intros Hne R R' Hoth Hst Ht u. destruct (Nat.eq_dec u t) as [->|N].
    - rewrite since_app_self by auto. exact Ht.
    - rewrite since_app_other by auto. destruct (Hoth u N) as [-> ->].
      pose proof (ri_posE _ _ _ R) as E1. pose proof (ri_posE _ _ _ R') as E2. rewrite nclaims_app in E2.
      specialize (Hst u). destruct (ph (core a) u); cbn [stale_ok] in *; auto; lia.
  Qed.

  Definition wset (a : WAux) (t : nat) (p : phase) (s : Z) : WAux :=
    mkW (set_ph (core a) t p) (gh a) (upds (sl a) t s).
  Definition wlin (a : WAux) (t : nat) (qs : list Z) (p : phase) (s : Z) : WAux :=
    mkW (lin_ph (core a) t qs p) (gh a) (upds (sl a) t s).

  Lemma acc_ne kk o ok rd wr : acc kk o ok rd wr <> [].
  Proof. unfold acc. discriminate. Qed.

  (** a step that leaves the shared state alone *)
  Lemma wstep_same g a tr t p p' s s' lx kk o ok rd wr :
    Inv g a tr -> wview a t = (p, s, lx) ->
    nclaims (Conc.tag t (acc kk o ok rd wr)) = 0 ->
    unclaimed p -> unclaimed p' -> stat_of p' = stat_of p ->
    (consumer p' -> consumer p) -> (is_front p' -> is_front p) ->
    (WInv a tr -> since tr t < L62 -> phase_ok (gh a) p' /\ stale_ok (gh a) p' s' 0) ->
    Inv g (wset a t p' s') (tr ++ Conc.tag t (acc kk o ok rd wr)) /\
    Conc.frame wview t a (wset a t p' s') /\ wview (wset a t p' s') t = (p', s', lx).
  Proof.
    intros [HR Hi] Hv Hn Hu Hu' Hst Hco Hfr Hok. destruct (wview_inv _ _ _ _ _ Hv) as (Hp & Hs & Hx).
    split; [split|split].
    - exact HR.
    - intros Hf. pose proof (fresh_app _ _ Hf) as Hf0. pose proof (Hi Hf0) as W. destruct W as [R St].
      pose proof (fresh_step _ _ _ (acc_ne kk o ok rd wr) Hf) as Hlt.
      destruct (Hok (conj R St) Hlt) as [K1 K2].
      assert (R' : RI (gh a) (set_ph (core a) t p') (tr ++ Conc.tag t (acc kk o ok rd wr))).
      { apply (ri_phase k Hk sc e0 X Ext Ext_acc Ext_ext); auto; rewrite Hp; auto. }
      split; [exact R'|].
      apply (stale_step a (wset a t p' s') tr t _ (acc_ne kk o ok rd wr) R R'); auto.
      + intros u N. cbn. rewrite updp_other, upds_other by auto. auto.
      + cbn. rewrite updp_same, upds_same. exact K2.
    - intros u N. unfold wview, wset; cbn. rewrite updp_other, upds_other by auto. reflexivity.
    - unfold wview, wset; cbn. rewrite updp_same, upds_same, Hx. reflexivity.
  Qed.

  (** a linearization point that changes neither the shared state nor the abstract queue *)
  Lemma wstep_lp g a tr t p p' o s s' lx kk ob ok rd wr :
    Inv g a tr -> wview a t = (p, s, lx) ->
    nclaims (Conc.tag t (acc kk ob ok rd wr)) = 0 ->
    unclaimed p -> unclaimed p' -> stat_of p = sPend k o ->
    (consumer p' -> consumer p) -> (is_front p' -> is_front p) -> nopos p' ->
    (WInv a tr -> since tr t < L62 ->
       phase_ok (gh a) p' /\ fst (vq_step capn (absq (core a)) o) = absq (core a) /\
       stat_of p' = sLin k o (snd (vq_step capn (absq (core a)) o))) ->
    Inv g (wlin a t (absq (core a)) p' s') (tr ++ Conc.tag t (acc kk ob ok rd wr)) /\
    Conc.frame wview t a (wlin a t (absq (core a)) p' s') /\
    wview (wlin a t (absq (core a)) p' s') t = (p', s', lx).
  Proof.
    intros [HR Hi] Hv Hn Hu Hu' Hst Hco Hfr Hnp Hok. destruct (wview_inv _ _ _ _ _ Hv) as (Hp & Hs & Hx).
    split; [split|split].
    - exact HR.
    - intros Hf. pose proof (fresh_app _ _ Hf) as Hf0. pose proof (Hi Hf0) as W. destruct W as [R St].
      pose proof (fresh_step _ _ _ (acc_ne kk ob ok rd wr) Hf) as Hlt.
      destruct (Hok (conj R St) Hlt) as (K1 & K2 & K3).
      assert (R' : RI (gh a) (lin_ph (core a) t (absq (core a)) p') (tr ++ Conc.tag t (acc kk ob ok rd wr))).
      { apply (ri_lp k Hk sc e0 X xlin Ext Ext_acc Ext_ext Ext_lin) with (o := o); auto; rewrite Hp; auto. }
      split; [exact R'|].
      apply (stale_step a (wlin a t (absq (core a)) p' s') tr t _ (acc_ne kk ob ok rd wr) R R'); auto.
      + intros u N. cbn. rewrite updp_other, upds_other by auto. auto.
      + cbn. rewrite updp_same. apply Hnp.
    - intros u N. unfold wview, wlin; cbn. rewrite updp_other, upds_other, xview_lin by auto. reflexivity.
    - unfold wview, wlin; cbn. rewrite updp_same, upds_same, xview_lin, Hx. reflexivity.
  Qed.

  (** item counter steps (the counter is not related to anything) *)
  Lemma wstep_cnt g a tr t p s lx (f : Z -> Z) kk ok rd wr :
    Inv g a tr -> wview a t = (p, s, lx) -> nopos p ->
    Inv (set_cnt g (f (cnt g))) (mkW (core a) (set_cnt (gh a) (f (cnt (gh a)))) (sl a))
        (tr ++ Conc.tag t (acc kk obj_cnt ok rd wr)) /\
    Conc.frame wview t a (mkW (core a) (set_cnt (gh a) (f (cnt (gh a)))) (sl a)) /\
    wview (mkW (core a) (set_cnt (gh a) (f (cnt (gh a)))) (sl a)) t = (p, s, lx).
  Proof.
    intros [HR Hi] Hv Hnp. destruct (wview_inv _ _ _ _ _ Hv) as (Hp & Hs & Hx).
    split; [split|split].
    - destruct HR as [A B C D E]. constructor; cbn; auto. now rewrite E.
    - intros Hf. pose proof (fresh_app _ _ Hf) as Hf0. pose proof (Hi Hf0) as W. destruct W as [R St]. cbn [core gh sl].
      assert (R' : RI (set_cnt (gh a) (f (cnt (gh a)))) (core a) (tr ++ Conc.tag t (acc kk obj_cnt ok rd wr))).
      { apply (ri_cnt k Hk sc e0 X Ext Ext_acc); auto. }
      split; [exact R'|].
      apply (stale_step a (mkW (core a) (set_cnt (gh a) (f (cnt (gh a)))) (sl a)) tr t _ (acc_ne kk obj_cnt ok rd wr) R R'); auto.
      cbn. rewrite Hp. apply Hnp.
    - intros u N. reflexivity.
    - exact Hv.
  Qed.

  (** client events (invoke / response / stop markers): the phase moves between phases that hold no position *)
  Lemma wstep_emit g a tr t p p' s lx x' es :
    Inv g a tr -> wview a t = (p, s, lx) -> es <> [] ->
    nclaims (Conc.tag t es) = 0 -> unclaimed p -> unclaimed p' ->
    (forall gg, phase_ok gg p') -> nopos p' ->
    (consumer p' -> consumer p \/ forall tc, sc = Some tc -> t = tc) ->
    (is_front p' -> is_front p \/ sc = Some t) ->
    (forall u, u <> t -> xview x' u = xview (ext (core a)) u) ->
    (WInv a tr -> Ext (absq (core a)) (fun u => stat_of (updp (ph (core a)) t p' u)) x' (tr ++ Conc.tag t es)) ->
    Inv g (mkW (mkAux X (absq (core a)) (updp (ph (core a)) t p') x') (gh a) (upds (sl a) t 0)) (tr ++ Conc.tag t es) /\
    Conc.frame wview t a (mkW (mkAux X (absq (core a)) (updp (ph (core a)) t p') x') (gh a) (upds (sl a) t 0)) /\
    wview (mkW (mkAux X (absq (core a)) (updp (ph (core a)) t p') x') (gh a) (upds (sl a) t 0)) t = (p', 0, xview x' t).
  Proof.
    intros [HR Hi] Hv Hne Hn Hu Hu' Hok Hnp Hco Hfr Hxv HE. destruct (wview_inv _ _ _ _ _ Hv) as (Hp & Hs & Hx).
    split; [split|split].
    - exact HR.
    - intros Hf. pose proof (fresh_app _ _ Hf) as Hf0. pose proof (Hi Hf0) as W. destruct W as [R St]. cbn [core gh sl].
      assert (R' : RI (gh a) (mkAux X (absq (core a)) (updp (ph (core a)) t p') x') (tr ++ Conc.tag t es)).
      { assert (H1 : unclaimed (ph (core a) t)) by (rewrite Hp; auto).
        assert (H2 : consumer p' -> forall tc, sc = Some tc -> t = tc).
        { intros Hc tc Hsc. destruct (Hco Hc) as [H|H]; [|auto].
          apply (ri_sc _ _ _ _ _ _ _ _ R tc t Hsc). rewrite Hp. exact H. }
        assert (H3 : is_front p' -> sc = Some t).
        { intros Hc. destruct (Hfr Hc) as [H|H]; [|auto].
          apply (ri_fr _ _ _ _ _ _ _ _ R t). rewrite Hp. exact H. }
        exact (ri_client k Hk sc e0 X Ext (gh a) (core a) tr t p' x' es R Hn (Hok (gh a)) H1 Hu' H2 H3 (HE (conj R St))). }
      split; [exact R'|].
      apply (stale_step a (mkW (mkAux X (absq (core a)) (updp (ph (core a)) t p') x') (gh a) (upds (sl a) t 0)) tr t _ Hne R R'); auto.
      + intros u N. cbn. rewrite updp_other, upds_other by auto. auto.
      + cbn. rewrite updp_same. apply Hnp.
    - intros u N. unfold wview; cbn. rewrite updp_other, upds_other, Hxv by auto. reflexivity.
    - unfold wview; cbn. rewrite updp_same, upds_same. reflexivity.
  Qed.

  (** ** the programs *)
  Notation safe := (@Conc.safe G V ev WAux (phase * Z * LX) wview Inv).

  Lemma seq_lower g a tr x : RI g a tr -> posD g - cap < seqs g (cell x) <= posE g + cap.
  Proof.
    intros R. pose proof wcap2 as C2. split; [|apply (ri_seqb _ _ _ _ _ _ _ _ R x)].
    destruct (cell_window k Hk Hk61 (posD g) x) as (p & Hp & Hc). rewrite <- Hc.
    destruct (Z_lt_ge_dec p (posE g)) as [L|L].
    - destruct (ri_used _ _ _ _ _ _ _ _ R p ltac:(lia)) as [H|[H _]]; lia.
    - destruct (ri_free _ _ _ _ _ _ _ _ R p ltac:(lia)) as [H|[H _]]; lia.
  Qed.

  (** what a thread holding a (possibly stale) enqueue position knows *)
  Lemma enq_facts a tr t p v pos s lx :
    WInv a tr -> wview a t = (p, s, lx) -> (p = EnqPos v pos \/ p = EnqSeen v pos) ->
    0 <= pos <= posE (gh a) /\ posE (gh a) <= pos + s + since tr t /\
    0 <= posD (gh a) /\ posD (gh a) <= posE (gh a) /\ posE (gh a) <= posD (gh a) + cap /\
    posD (gh a) - cap < seqs (gh a) (cell pos) <= posE (gh a) + cap.
  Proof.
    intros [R St] Hv Hc. destruct (wview_inv _ _ _ _ _ Hv) as (Hp & Hs & Hx).
    pose proof (ri_pos _ _ _ _ _ _ _ _ R) as (P1 & P2 & P3).
    pose proof (ri_ph _ _ _ _ _ _ _ _ R t) as P. pose proof (St t) as S0. rewrite Hp in P, S0. rewrite Hs in S0.
    pose proof (seq_lower _ _ _ pos R).
    destruct Hc as [-> | ->]; cbn [VyukovCore.phase_ok stale_ok] in P, S0; repeat split; try lia.
  Qed.

  (** ... a dequeue position *)
  Lemma deq_facts a tr t p pos s lx :
    WInv a tr -> wview a t = (p, s, lx) ->
    ((exists pk, p = DeqPos pk pos) \/ (exists pk, p = DeqSeen pk pos) \/ p = EmPos pos) ->
    0 <= pos <= posD (gh a) /\ posE (gh a) <= pos + cap + s + since tr t /\
    0 <= posD (gh a) /\ posD (gh a) <= posE (gh a) /\ posE (gh a) <= posD (gh a) + cap /\
    posD (gh a) - cap < seqs (gh a) (cell pos) <= posE (gh a) + cap.
  Proof.
    intros [R St] Hv Hc. destruct (wview_inv _ _ _ _ _ Hv) as (Hp & Hs & Hx).
    pose proof (ri_pos _ _ _ _ _ _ _ _ R) as (P1 & P2 & P3).
    pose proof (ri_ph _ _ _ _ _ _ _ _ R t) as P. pose proof (St t) as S0. rewrite Hp in P, S0. rewrite Hs in S0.
    pose proof (seq_lower _ _ _ pos R).
    destruct Hc as [[pk ->] | [[pk ->] | ->]]; cbn [VyukovCore.phase_ok stale_ok] in P, S0; repeat split; try lia.
  Qed.

  Lemma front_facts a tr t pos s lx :
    WInv a tr -> wview a t = (FrontPos pos, s, lx) ->
    pos = posD (gh a) /\ 0 <= posD (gh a) /\ posD (gh a) <= posE (gh a) /\ posE (gh a) <= posD (gh a) + cap /\
    posD (gh a) - cap < seqs (gh a) (cell pos) <= posE (gh a) + cap.
  Proof.
    intros [R St] Hv. destruct (wview_inv _ _ _ _ _ Hv) as (Hp & Hs & Hx).
    pose proof (ri_pos _ _ _ _ _ _ _ _ R) as (P1 & P2 & P3).
    pose proof (ri_ph _ _ _ _ _ _ _ _ R t) as P. rewrite Hp in P. cbn [VyukovCore.phase_ok] in P.
    pose proof (seq_lower _ _ _ pos R). repeat split; try lia.
  Qed.

  Lemma since_nn tr t : 0 <= since tr t.
  Proof. apply since_nonneg. Qed.

  Definition Qenq (v : Z) (lx : LX) : outcome bool -> phase * Z * LX -> Prop :=
    fun r l => match r with
               | Done true => l = (EnqDone v, 0, lx)
               | Done false => l = (EnqFail v, 0, lx)
               | OutOfFuel => exists pos, l = (EnqPos v pos, 0, lx)
               | UB => False
               end.

  Definition Qdeq (pk : bool) (lx : LX) : outcome (option Z) -> phase * Z * LX -> Prop :=
    fun r l => match r with
               | Done x => l = (DeqRet pk x, 0, lx)
               | OutOfFuel => exists pos, l = (DeqPos pk pos, 0, lx)
               | UB => False
               end.

  Definition Qfront (lx : LX) : outcome (option Z) -> phase * Z * LX -> Prop :=
    fun r l => match r with
               | Done x => l = (FrontRet x, 0, lx)
               | OutOfFuel => exists pos, l = (FrontPos pos, 0, lx)
               | UB => False
               end.

  Definition Qempty (lx : LX) : outcome bool -> phase * Z * LX -> Prop :=
    fun r l => match r with
               | Done _ => exists pos s, l = (EmPos pos, s, lx)
               | OutOfFuel => exists pos, l = (EmPos pos, 0, lx)
               | UB => False
               end.

  Lemma rel_set_seq g gg c x y : Rel g gg -> x = y mod m64 -> Rel (set_seq g c x) (set_seq gg c y).
  Proof.
    intros [A B C D E] Hx. constructor; cbn [posE posD seqs datas cnt set_seq]; auto.
    intros i Hi. unfold upd. destruct (Z.eqb i c); auto.
  Qed.

  (** E6, E7 *)
  Lemma wsafe_enq_finish t v pos lx :
    safe t (enq_finish q (cell pos) (pos mod m64)) (EnqClaimed v pos, 0, lx) (Qenq v lx).
  Proof.
    unfold enq_finish. cbn [Conc.safe]. intros g a tr [HR Hi] Hv. destruct (wview_inv _ _ _ _ _ Hv) as (Hp & Hs & Hx).
    cbn [a_st_seq fst snd].
    set (a' := mkW (set_ph (core a) t (EnqDone v)) (set_seq (gh a) (cell pos) (pos + 1)) (upds (sl a) t 0)).
    exists a'. split; [split|split].
    - apply rel_set_seq; auto. apply uadd_mod.
    - intros Hf. pose proof (fresh_app _ _ Hf) as Hf0. destruct (Hi Hf0) as [R St].
      assert (R' : RI (gh a') (core a') (tr ++ Conc.tag t (acc KSt (obj_seq (cell pos)) true (uadd u64 (pos mod m64) 1) (uadd u64 (pos mod m64) 1)))).
      { apply tri_enq_publish; auto. }
      split; [exact R'|].
      apply (stale_step a a' tr t _ (acc_ne _ _ _ _ _) R R'); auto.
      + intros u N. cbn. rewrite updp_other, upds_other by auto. auto.
      + cbn. rewrite updp_same. exact I.
    - intros u N. unfold wview; cbn. rewrite updp_other, upds_other by auto. reflexivity.
    - replace (wview a' t) with (EnqDone v, 0, lx) by (unfold wview; cbn; rewrite updp_same, upds_same, Hx; reflexivity).
      destruct (qcount q).
      + cbn [Conc.safe]. intros g2 a2 tr2 Hi2 Hv2. cbn [a_faa_cnt fst snd].
        destruct (wstep_cnt g2 a2 tr2 t (EnqDone v) 0 lx (fun c => uadd u64 c 1) KFaa true (cnt g2) (uadd u64 (cnt g2) 1) Hi2 Hv2)
          as (I1 & I2 & I3); [intros ? ? ?; exact I|].
        eexists. split; [exact I1|split; [exact I2|]]. rewrite I3. cbn. reflexivity.
      + cbn. reflexivity.
  Qed.

  (** D6, D7 *)
  Lemma wsafe_deq_finish t pk pos v lx :
    safe t (deq_finish q (cell pos) (pos mod m64) v) (DeqClaimed pk pos v, 0, lx) (Qdeq pk lx).
  Proof.
    unfold deq_finish. cbn [Conc.safe]. intros g a tr [HR Hi] Hv. destruct (wview_inv _ _ _ _ _ Hv) as (Hp & Hs & Hx).
    cbn [a_st_seq fst snd].
    set (a' := mkW (set_ph (core a) t (DeqRet pk (Some v))) (set_seq (gh a) (cell pos) (pos + cap)) (upds (sl a) t 0)).
    exists a'. split; [split|split].
    - apply rel_set_seq; auto. apply (uadd_mask k Hk Hk61 q pos Hq).
    - intros Hf. pose proof (fresh_app _ _ Hf) as Hf0. destruct (Hi Hf0) as [R St].
      assert (R' : RI (gh a') (core a') (tr ++ Conc.tag t (acc KSt (obj_seq (cell pos)) true
                     (uadd u64 (uadd u64 (pos mod m64) (qmask q)) 1) (uadd u64 (uadd u64 (pos mod m64) (qmask q)) 1)))).
      { apply tri_deq_publish; auto. }
      split; [exact R'|].
      apply (stale_step a a' tr t _ (acc_ne _ _ _ _ _) R R'); auto.
      + intros u N. cbn. rewrite updp_other, upds_other by auto. auto.
      + cbn. rewrite updp_same. exact I.
    - intros u N. unfold wview; cbn. rewrite updp_other, upds_other by auto. reflexivity.
    - replace (wview a' t) with (DeqRet pk (Some v), 0, lx) by (unfold wview; cbn; rewrite updp_same, upds_same, Hx; reflexivity).
      destruct (qcount q).
      + cbn [Conc.safe]. intros g2 a2 tr2 Hi2 Hv2. cbn [a_fas_cnt fst snd].
        destruct (wstep_cnt g2 a2 tr2 t (DeqRet pk (Some v)) 0 lx (fun c => usub u64 c 1) KFas true (cnt g2) (usub u64 (cnt g2) 1) Hi2 Hv2)
          as (I1 & I2 & I3); [intros ? ? ?; exact I|].
        eexists. split; [exact I1|split; [exact I2|]]. rewrite I3. cbn. reflexivity.
      + cbn. reflexivity.
  Qed.

  Ltac use_step S :=
    let I1 := fresh "I1" in let I2 := fresh "I2" in let I3 := fresh "I3" in let Hok := fresh "Hok" in
    match type of S with
    | ?A -> _ =>
        assert (Hok : A);
        [clear S
        |specialize (S Hok); destruct S as (I1 & I2 & I3); eexists;
         split; [exact I1|split; [exact I2|rewrite I3; clear I1 I2 I3 Hok]]]
    end.

  Lemma L62_m64 : L62 = 2 ^ 62 /\ m64 = 4 * 2 ^ 62 /\ 2 ^ 63 = 2 * 2 ^ 62 /\ 2 ^ 61 * 2 = 2 ^ 62.
  Proof. repeat split; reflexivity. Qed.

  (** the sequence number read through a local enqueue position: the code's signed difference is the ghost one *)
  Lemma enq_dif g a tr t p v pos s lx :
    Rel g (gh a) -> WInv a tr -> wview a t = (p, s, lx) -> (p = EnqPos v pos \/ p = EnqSeen v pos) ->
    s + since tr t < L62 ->
    sdw (seqs g (cell pos)) (pos mod m64) = seqs (gh a) (cell pos) - pos.
  Proof.
    intros HR W Hv Hc Hs. destruct (enq_facts a tr t p v pos s lx W Hv Hc) as (F1 & F2 & F3 & F4 & F5 & F6).
    rewrite (rel_seq _ _ HR _ (cell_range k Hk pos)). pose proof wcap61. pose proof wcap2. destruct L62_m64 as (E1 & E2 & E3 & E4).
    apply sdw_exact. lia.
  Qed.

  Lemma deq_dif g a tr t p pos s lx :
    Rel g (gh a) -> WInv a tr -> wview a t = (p, s, lx) ->
    ((exists pk, p = DeqPos pk pos) \/ (exists pk, p = DeqSeen pk pos) \/ p = EmPos pos) ->
    s + since tr t < L62 ->
    sdw (seqs g (cell pos)) (uadd u64 (pos mod m64) 1) = seqs (gh a) (cell pos) - (pos + 1).
  Proof.
    intros HR W Hv Hc Hs. destruct (deq_facts a tr t p pos s lx W Hv Hc) as (F1 & F2 & F3 & F4 & F5 & F6).
    rewrite (rel_seq _ _ HR _ (cell_range k Hk pos)), uadd_mod. pose proof wcap61. pose proof wcap2. destruct L62_m64 as (E1 & E2 & E3 & E4).
    apply sdw_exact. lia.
  Qed.

  Lemma front_dif g a tr t pos s lx :
    Rel g (gh a) -> WInv a tr -> wview a t = (FrontPos pos, s, lx) ->
    sdw (seqs g (cell pos)) (uadd u64 (pos mod m64) 1) = seqs (gh a) (cell pos) - (pos + 1).
  Proof.
    intros HR W Hv. destruct (front_facts a tr t pos s lx W Hv) as (F1 & F2 & F3 & F4 & F5).
    rewrite (rel_seq _ _ HR _ (cell_range k Hk pos)), uadd_mod. pose proof wcap61. pose proof wcap2. destruct L62_m64 as (E1 & E2 & E3 & E4).
    apply sdw_exact. lia.
  Qed.

  Lemma wsafe_enq_loop fuel : forall t v pos lx,
    safe t (enq_loop_g difw q fuel v (pos mod m64)) (EnqPos v pos, 0, lx) (Qenq v lx).
  Proof.
    induction fuel as [|f IH]; intros t v pos lx; cbn [enq_loop_g Conc.safe]; [cbn; eauto|].
    intros g a tr Hi Hv. cbn [a_ld_seq fst snd vz difw].
    rewrite (idx_mod k Hk Hk61 q pos Hq).
    pose proof (proj1 Hi) as HR.
    assert (F := fun W => enq_dif g a tr t (EnqPos v pos) v pos 0 lx HR W Hv (or_introl eq_refl)).
    set (s := seqs g (cell pos)) in *. set (d := sdw s (pos mod m64)) in *.
    pose proof (since_nn tr t) as Hnn. destruct L62_m64 as (E1 & E2 & E3 & E4).
    destruct (Z.eqb_spec d 0) as [D0|D0].
    - (* dif == 0: try to claim *)
      assert (S := fun Hok => wstep_same g a tr t (EnqPos v pos) (EnqSeen v pos) 0 L62 lx KLd (obj_seq (cell pos)) true s s
                                Hi Hv eq_refl I I eq_refl (fun x => x) (fun x => x) Hok).
      use_step S.
      { intros W Hlt. specialize (F W ltac:(lia)).
        destruct (enq_facts a tr t _ v pos 0 lx W Hv (or_introl eq_refl)) as (F1 & F2 & F3 & F4 & F5 & F6).
        cbn [VyukovCore.phase_ok stale_ok]. lia. }
      clear F Hi Hv HR Hnn. cbn [Conc.safe]. intros g2 a2 tr2 Hi2 Hv2. unfold a_cas_posE.
      pose proof (proj1 Hi2) as HR2. destruct (wview_inv _ _ _ _ _ Hv2) as (Hp2 & Hs2 & Hx2).
      destruct (Z.eqb_spec (posE g2) (pos mod m64)) as [E|E]; cbn [fst snd vok vz].
      + set (a' := mkW (lin_ph (core a2) t (absq (core a2) ++ [v]) (EnqClaimed v pos))
                       (set_data (set_posE (gh a2) (posE (gh a2) + 1)) (cell pos) v) (upds (sl a2) t 0)).
        exists a'. split; [split|split].
        * destruct HR2 as [A B C D E']. constructor; cbn [posE posD seqs datas cnt set_data set_posE gh a']; auto.
          -- rewrite uadd_mod. rewrite <- (Zplus_mod_idemp_l (posE (gh a2))), <- A, E, Zplus_mod_idemp_l. reflexivity.
          -- intros i. unfold upd. destruct (Z.eqb i (cell pos)); auto.
        * intros Hf. pose proof (fresh_app _ _ Hf) as Hf0. destruct (proj2 Hi2 Hf0) as [R St].
          pose proof (fresh_step _ _ _ (acc_ne _ _ _ _ _) Hf) as Hlt. pose proof (since_nn tr2 t).
          destruct (enq_facts a2 tr2 t _ v pos L62 lx (conj R St) Hv2 (or_intror eq_refl)) as (F1 & F2 & F3 & F4 & F5 & F6).
          assert (EP : posE (gh a2) = pos).
          { apply mod_eq_window; [lia|]. rewrite <- (rel_E _ _ HR2). exact E. }
          assert (R' : RI (gh a') (core a') (tr2 ++ Conc.tag t (acc KCas obj_posE true (posE g2) (uadd u64 (pos mod m64) 1)))).
          { unfold a'. cbn [gh core]. rewrite EP. apply tri_enq_claim; auto. }
          split; [exact R'|].
          apply (stale_step a2 a' tr2 t _ (acc_ne _ _ _ _ _) R R'); auto.
          -- intros u N. cbn. rewrite updp_other, upds_other by auto. auto.
          -- cbn. rewrite updp_same. exact I.
        * intros u N. unfold wview; cbn. rewrite updp_other, upds_other, xview_lin by auto. reflexivity.
        * replace (wview a' t) with (EnqClaimed v pos, 0, lx)
            by (unfold wview; cbn; rewrite updp_same, upds_same, xview_lin, Hx2; reflexivity).
          apply wsafe_enq_finish.
      + assert (S := fun Hok => wstep_same g2 a2 tr2 t (EnqSeen v pos) (EnqPos v (posE (gh a2))) L62 0 lx KCas obj_posE false
                                  (posE g2) (uadd u64 (pos mod m64) 1) Hi2 Hv2 eq_refl I I eq_refl (fun x => x) (fun x => x) Hok).
        use_step S.
        { intros W Hlt. destruct (enq_facts a2 tr2 t _ v pos L62 lx W Hv2 (or_intror eq_refl)) as (F1 & F2 & F3 & F4 & F5 & F6).
          cbn [VyukovCore.phase_ok stale_ok]. lia. }
        rewrite (rel_E _ _ HR2). apply IH.
    - assert (S := fun Hok => wstep_same g a tr t (EnqPos v pos) (EnqPos v pos) 0 L62 lx KLd (obj_seq (cell pos)) true s s
                                Hi Hv eq_refl I I eq_refl (fun x => x) (fun x => x) Hok).
      use_step S.
      { intros W Hlt. destruct (enq_facts a tr t _ v pos 0 lx W Hv (or_introl eq_refl)) as (F1 & F2 & F3 & F4 & F5 & F6).
        cbn [VyukovCore.phase_ok stale_ok]. lia. }
      clear F Hi Hv HR Hnn.
      assert (Reload : forall sk, safe t (Act a_ld_posE (fun p0 => enq_loop_g difw q f v (vz p0))) (EnqPos v pos, sk, lx) (Qenq v lx)).
      { intros sk. cbn [Conc.safe]. intros g3 a3 tr3 Hi3 Hv3. cbn [a_ld_posE fst snd vz].
        assert (S := fun Hok => wstep_same g3 a3 tr3 t (EnqPos v pos) (EnqPos v (posE (gh a3))) sk 0 lx KLd obj_posE true
                                  (posE g3) (posE g3) Hi3 Hv3 eq_refl I I eq_refl (fun x => x) (fun x => x) Hok).
        use_step S.
        { intros W Hlt. destruct (enq_facts a3 tr3 t _ v pos sk lx W Hv3 (or_introl eq_refl)) as (F1 & F2 & F3 & F4 & F5 & F6).
          cbn [VyukovCore.phase_ok stale_ok]. lia. }
        rewrite (rel_E _ _ (proj1 Hi3)). apply IH. }
      destruct (Z.ltb_spec d 0) as [L|L]; [|apply Reload].
      (* dif < 0: queue full? *)
      cbn [Conc.safe]. intros g2 a2 tr2 Hi2 Hv2. cbn [a_ld_posD fst snd vz].
      pose proof (proj1 Hi2) as HR2.
      assert (Hw : forall W : WInv a2 tr2, since tr2 t < L62 ->
                (usub u64 (pos mod m64) (posD g2) =? qcap q) = (pos - posD (gh a2) =? cap)).
      { intros W Hlt. rewrite (rel_D _ _ HR2), Hq.
        destruct (enq_facts a2 tr2 t _ v pos L62 lx W Hv2 (or_introl eq_refl)) as (F1 & F2 & F3 & F4 & F5 & F6).
        pose proof wcap61. pose proof wcap2. pose proof (since_nn tr2 t). apply usub_eqb_window; lia. }
      destruct (usub u64 (pos mod m64) (posD g2) =? qcap q) eqn:Efull.
      + assert (S := fun Hok => wstep_lp g2 a2 tr2 t (EnqPos v pos) (EnqFail v) (VEnq v) L62 0 lx KLd obj_posD true
                                  (posD g2) (posD g2) Hi2 Hv2 eq_refl I I eq_refl (fun x => x) (fun x => x)
                                  (fun _ _ _ => I) Hok).
        use_step S.
        { intros W Hlt. pose proof (Hw W Hlt) as Ef. symmetry in Ef. apply Z.eqb_eq in Ef.
          destruct (enq_facts a2 tr2 t _ v pos L62 lx W Hv2 (or_introl eq_refl)) as (F1 & F2 & F3 & F4 & F5 & F6).
          cbn [VyukovCore.phase_ok].
          assert (Hl : (length (absq (core a2)) <? capn)%nat = false).
          { apply Nat.ltb_ge. pose proof (ri_len _ _ _ _ _ _ _ _ (proj1 W)). pose proof wcapn_cap. lia. }
          cbn [vq_step bfifo_step]. rewrite Hl. cbn [fst snd VyukovCore.stat_of]. auto. }
        cbn. reflexivity.
      + assert (S := fun Hok => wstep_same g2 a2 tr2 t (EnqPos v pos) (EnqPos v pos) L62 (2 * L62) lx KLd obj_posD true
                                  (posD g2) (posD g2) Hi2 Hv2 eq_refl I I eq_refl (fun x => x) (fun x => x) Hok).
        use_step S.
        { intros W Hlt. destruct (enq_facts a2 tr2 t _ v pos L62 lx W Hv2 (or_introl eq_refl)) as (F1 & F2 & F3 & F4 & F5 & F6).
          cbn [VyukovCore.phase_ok stale_ok]. lia. }
        apply Reload.
  Qed.

  Lemma wsafe_enqueue fuel t v lx :
    safe t (enqueue_g difw q fuel v) (PEnq v, 0, lx) (Qenq v lx).
  Proof.
    unfold enqueue_g. cbn [Conc.safe]. intros g a tr Hi Hv. cbn [a_ld_posE fst snd vz].
    assert (S := fun Hok => wstep_same g a tr t (PEnq v) (EnqPos v (posE (gh a))) 0 0 lx KLd obj_posE true
                              (posE g) (posE g) Hi Hv eq_refl I I eq_refl (fun x => x) (fun x => x) Hok).
    use_step S.
    { intros W Hlt. pose proof (ri_pos _ _ _ _ _ _ _ _ (proj1 W)). cbn [VyukovCore.phase_ok stale_ok]. lia. }
    rewrite (rel_E _ _ (proj1 Hi)). apply wsafe_enq_loop.
  Qed.

  Lemma wsafe_deq_loop fuel : forall t pk pos lx,
    safe t (deq_loop_g difw q fuel (pos mod m64)) (DeqPos pk pos, 0, lx) (Qdeq pk lx).
  Proof.
    induction fuel as [|f IH]; intros t pk pos lx; cbn [deq_loop_g Conc.safe]; [cbn; eauto|].
    intros g a tr Hi Hv. cbn [a_ld_seq fst snd vz difw].
    rewrite (idx_mod k Hk Hk61 q pos Hq).
    pose proof (proj1 Hi) as HR.
    assert (F := fun W => deq_dif g a tr t (DeqPos pk pos) pos 0 lx HR W Hv (or_introl (ex_intro _ pk eq_refl))).
    set (s := seqs g (cell pos)) in *. set (d := sdw s (uadd u64 (pos mod m64) 1)) in *.
    pose proof (since_nn tr t) as Hnn. destruct L62_m64 as (E1 & E2 & E3 & E4).
    destruct (Z.eqb_spec d 0) as [D0|D0].
    - assert (S := fun Hok => wstep_same g a tr t (DeqPos pk pos) (DeqSeen pk pos) 0 L62 lx KLd (obj_seq (cell pos)) true s s
                                Hi Hv eq_refl I I eq_refl (fun x => x) (fun x => x) Hok).
      use_step S.
      { intros W Hlt. specialize (F W ltac:(lia)).
        destruct (deq_facts a tr t _ pos 0 lx W Hv (or_introl (ex_intro _ pk eq_refl))) as (F1 & F2 & F3 & F4 & F5 & F6).
        cbn [VyukovCore.phase_ok stale_ok]. lia. }
      clear F Hi Hv HR Hnn. cbn [Conc.safe]. intros g2 a2 tr2 Hi2 Hv2. unfold a_cas_posD.
      pose proof (proj1 Hi2) as HR2. destruct (wview_inv _ _ _ _ _ Hv2) as (Hp2 & Hs2 & Hx2).
      destruct (Z.eqb_spec (posD g2) (pos mod m64)) as [E|E]; cbn [fst snd vok vz vdata].
      + set (a' := mkW (lin_ph (core a2) t (tl (absq (core a2))) (DeqClaimed pk pos (datas g2 (cell pos))))
                       (set_posD (gh a2) (posD (gh a2) + 1)) (upds (sl a2) t 0)).
        exists a'. split; [split|split].
        * destruct HR2 as [A B C D E']. constructor; cbn [posE posD seqs datas cnt set_posD gh a']; auto.
          rewrite uadd_mod. rewrite <- (Zplus_mod_idemp_l (posD (gh a2))), <- B, E, Zplus_mod_idemp_l. reflexivity.
        * intros Hf. pose proof (fresh_app _ _ Hf) as Hf0. destruct (proj2 Hi2 Hf0) as [R St].
          pose proof (fresh_step _ _ _ (acc_ne _ _ _ _ _) Hf) as Hlt. pose proof (since_nn tr2 t).
          destruct (deq_facts a2 tr2 t _ pos L62 lx (conj R St) Hv2 (or_intror (or_introl (ex_intro _ pk eq_refl))))
            as (F1 & F2 & F3 & F4 & F5 & F6).
          pose proof wcap61.
          assert (EP : posD (gh a2) = pos).
          { apply mod_eq_window; [lia|]. rewrite <- (rel_D _ _ HR2). exact E. }
          assert (R' : RI (gh a') (core a') (tr2 ++ Conc.tag t (acc KCas obj_posD true (posD g2) (uadd u64 (pos mod m64) 1)))).
          { unfold a'. cbn [gh core]. rewrite EP, (rel_dat _ _ HR2). apply tri_deq_claim; auto. }
          split; [exact R'|].
          apply (stale_step a2 a' tr2 t _ (acc_ne _ _ _ _ _) R R'); auto.
          -- intros u N. cbn. rewrite updp_other, upds_other by auto. auto.
          -- cbn. rewrite updp_same. exact I.
        * intros u N. unfold wview; cbn. rewrite updp_other, upds_other, xview_lin by auto. reflexivity.
        * replace (wview a' t) with (DeqClaimed pk pos (datas g2 (cell pos)), 0, lx)
            by (unfold wview; cbn; rewrite updp_same, upds_same, xview_lin, Hx2; reflexivity).
          apply wsafe_deq_finish.
      + assert (S := fun Hok => wstep_same g2 a2 tr2 t (DeqSeen pk pos) (DeqPos pk (posD (gh a2))) L62 0 lx KCas obj_posD false
                                  (posD g2) (uadd u64 (pos mod m64) 1) Hi2 Hv2 eq_refl I I eq_refl (fun x => x) (fun x => x) Hok).
        use_step S.
        { intros W Hlt. pose proof (ri_pos _ _ _ _ _ _ _ _ (proj1 W)).
          cbn [VyukovCore.phase_ok stale_ok]. lia. }
        rewrite (rel_D _ _ HR2). apply IH.
    - assert (S := fun Hok => wstep_same g a tr t (DeqPos pk pos) (DeqPos pk pos) 0 L62 lx KLd (obj_seq (cell pos)) true s s
                                Hi Hv eq_refl I I eq_refl (fun x => x) (fun x => x) Hok).
      use_step S.
      { intros W Hlt. destruct (deq_facts a tr t _ pos 0 lx W Hv (or_introl (ex_intro _ pk eq_refl))) as (F1 & F2 & F3 & F4 & F5 & F6).
        cbn [VyukovCore.phase_ok stale_ok]. lia. }
      clear F Hi Hv HR Hnn.
      assert (Reload : forall sk, safe t (Act a_ld_posD (fun p0 => deq_loop_g difw q f (vz p0))) (DeqPos pk pos, sk, lx) (Qdeq pk lx)).
      { intros sk. cbn [Conc.safe]. intros g3 a3 tr3 Hi3 Hv3. cbn [a_ld_posD fst snd vz].
        assert (S := fun Hok => wstep_same g3 a3 tr3 t (DeqPos pk pos) (DeqPos pk (posD (gh a3))) sk 0 lx KLd obj_posD true
                                  (posD g3) (posD g3) Hi3 Hv3 eq_refl I I eq_refl (fun x => x) (fun x => x) Hok).
        use_step S.
        { intros W Hlt. pose proof (ri_pos _ _ _ _ _ _ _ _ (proj1 W)).
          cbn [VyukovCore.phase_ok stale_ok]. lia. }
        rewrite (rel_D _ _ (proj1 Hi3)). apply IH. }
      destruct (Z.ltb_spec d 0) as [L|L]; [|apply Reload].
      cbn [Conc.safe]. intros g2 a2 tr2 Hi2 Hv2. cbn [a_ld_posE fst snd vz].
      pose proof (proj1 Hi2) as HR2.
      assert (Hw : forall W : WInv a2 tr2, since tr2 t < L62 ->
                (usub u64 (pos mod m64) (posE g2) =? 0) = (pos - posE (gh a2) =? 0)).
      { intros W Hlt. rewrite (rel_E _ _ HR2).
        destruct (deq_facts a2 tr2 t _ pos L62 lx W Hv2 (or_introl (ex_intro _ pk eq_refl))) as (F1 & F2 & F3 & F4 & F5 & F6).
        pose proof wcap61. pose proof wcap2. pose proof (since_nn tr2 t). apply usub_eqb_window; lia. }
      destruct (usub u64 (pos mod m64) (posE g2) =? 0) eqn:Eempty.
      + assert (S := fun Hok => wstep_lp g2 a2 tr2 t (DeqPos pk pos) (DeqRet pk None) (dop pk) L62 0 lx KLd obj_posE true
                                  (posE g2) (posE g2) Hi2 Hv2 eq_refl I I eq_refl (fun x => x) (fun x => x)
                                  (fun _ _ _ => I) Hok).
        use_step S.
        { intros W Hlt. pose proof (Hw W Hlt) as Ef. symmetry in Ef. apply Z.eqb_eq in Ef.
          destruct (deq_facts a2 tr2 t _ pos L62 lx W Hv2 (or_introl (ex_intro _ pk eq_refl))) as (F1 & F2 & F3 & F4 & F5 & F6).
          cbn [VyukovCore.phase_ok].
          pose proof (ri_len _ _ _ _ _ _ _ _ (proj1 W)) as Hl.
          destruct (absq (core a2)) as [|x r]; [|cbn [length] in Hl; lia].
          destruct pk; cbn; auto. }
        cbn. reflexivity.
      + assert (S := fun Hok => wstep_same g2 a2 tr2 t (DeqPos pk pos) (DeqPos pk pos) L62 (2 * L62) lx KLd obj_posE true
                                  (posE g2) (posE g2) Hi2 Hv2 eq_refl I I eq_refl (fun x => x) (fun x => x) Hok).
        use_step S.
        { intros W Hlt. destruct (deq_facts a2 tr2 t _ pos L62 lx W Hv2 (or_introl (ex_intro _ pk eq_refl))) as (F1 & F2 & F3 & F4 & F5 & F6).
          cbn [VyukovCore.phase_ok stale_ok]. lia. }
        apply Reload.
  Qed.

  Lemma wsafe_dequeue fuel t pk lx :
    safe t (dequeue_g difw q fuel) (PDeq pk, 0, lx) (Qdeq pk lx).
  Proof.
    unfold dequeue_g. cbn [Conc.safe]. intros g a tr Hi Hv. cbn [a_ld_posD fst snd vz].
    assert (S := fun Hok => wstep_same g a tr t (PDeq pk) (DeqPos pk (posD (gh a))) 0 0 lx KLd obj_posD true
                              (posD g) (posD g) Hi Hv eq_refl I I eq_refl (fun x => x) (fun x => x) Hok).
    use_step S.
    { intros W Hlt. pose proof (ri_pos _ _ _ _ _ _ _ _ (proj1 W)). cbn [VyukovCore.phase_ok stale_ok]. lia. }
    rewrite (rel_D _ _ (proj1 Hi)). apply wsafe_deq_loop.
  Qed.

  (** front(): only the single consumer moves m_posDequeue, so the position it holds is current *)
  Lemma wsafe_front_loop fuel : forall t pos lx,
    safe t (front_loop_g difw q fuel (pos mod m64)) (FrontPos pos, 0, lx) (Qfront lx).
  Proof.
    induction fuel as [|f IH]; intros t pos lx; cbn [front_loop_g Conc.safe]; [cbn; eauto|].
    intros g a tr Hi Hv. cbn [a_ld_seq fst snd vz vdata difw].
    rewrite (idx_mod k Hk Hk61 q pos Hq).
    pose proof (proj1 Hi) as HR.
    assert (F := fun W => front_dif g a tr t pos 0 lx HR W Hv).
    set (s := seqs g (cell pos)) in *. set (d := sdw s (uadd u64 (pos mod m64) 1)) in *.
    destruct L62_m64 as (E1 & E2 & E3 & E4).
    destruct (Z.eqb_spec d 0) as [D0|D0].
    - assert (S := fun Hok => wstep_lp g a tr t (FrontPos pos) (FrontRet (Some (datas g (cell pos)))) VFront 0 0 lx KLd (obj_seq (cell pos)) true s s
                                Hi Hv eq_refl I I eq_refl (fun x => x) (fun x => x) (fun _ _ _ => I) Hok).
      use_step S.
      { intros W Hlt. specialize (F W).
        destruct (front_facts a tr t pos 0 lx W Hv) as (F1 & F2 & F3 & F4 & F5).
        cbn [VyukovCore.phase_ok]. destruct W as [R St].
        assert (Hs : seqs (gh a) (cell pos) = pos + 1) by lia.
        pose proof wcap2.
        assert (Hlt' : posD (gh a) < posE (gh a)).
        { destruct (Z_lt_ge_dec (posD (gh a)) (posE (gh a))) as [L|L]; auto. exfalso.
          destruct (ri_free _ _ _ _ _ _ _ _ R (posD (gh a)) ltac:(lia)) as [H'|[H' _]]; rewrite <- F1 in H'; lia. }
        pose proof (ri_len _ _ _ _ _ _ _ _ R) as Hl.
        destruct (absq (core a)) as [|x r] eqn:Eq; [cbn [length] in Hl; lia|].
        pose proof (ri_content _ _ _ _ _ _ _ _ R 0%nat) as Hc. rewrite Eq in Hc. specialize (Hc ltac:(cbn; lia)).
        cbn in Hc. rewrite Z.add_0_r, <- F1, <- (rel_dat _ _ HR) in Hc. inversion Hc.
        split; [exact I|]. split; reflexivity. }
      cbn. reflexivity.
    - assert (S := fun Hok => wstep_same g a tr t (FrontPos pos) (FrontPos pos) 0 0 lx KLd (obj_seq (cell pos)) true s s
                                Hi Hv eq_refl I I eq_refl (fun x => x) (fun x => x) Hok).
      use_step S.
      { intros W Hlt. destruct (front_facts a tr t pos 0 lx W Hv) as (F1 & _). cbn [VyukovCore.phase_ok stale_ok]. auto. }
      clear F Hi Hv HR.
      assert (Reload : safe t (Act a_ld_posD (fun p0 => front_loop_g difw q f (vz p0))) (FrontPos pos, 0, lx) (Qfront lx)).
      { cbn [Conc.safe]. intros g3 a3 tr3 Hi3 Hv3. cbn [a_ld_posD fst snd vz].
        assert (S := fun Hok => wstep_same g3 a3 tr3 t (FrontPos pos) (FrontPos (posD (gh a3))) 0 0 lx KLd obj_posD true
                                  (posD g3) (posD g3) Hi3 Hv3 eq_refl I I eq_refl (fun x => x) (fun x => x) Hok).
        use_step S.
        { intros W Hlt. cbn [VyukovCore.phase_ok stale_ok]. auto. }
        rewrite (rel_D _ _ (proj1 Hi3)). apply IH. }
      destruct (Z.ltb_spec d 0) as [L|L]; [|exact Reload].
      cbn [Conc.safe]. intros g2 a2 tr2 Hi2 Hv2. cbn [a_ld_posE fst snd vz].
      pose proof (proj1 Hi2) as HR2.
      assert (Hw : forall W : WInv a2 tr2,
                (usub u64 (pos mod m64) (posE g2) =? 0) = (pos - posE (gh a2) =? 0)).
      { intros W. rewrite (rel_E _ _ HR2).
        destruct (front_facts a2 tr2 t pos 0 lx W Hv2) as (F1 & F2 & F3 & F4 & F5).
        pose proof wcap61. pose proof wcap2. apply usub_eqb_window; lia. }
      destruct (usub u64 (pos mod m64) (posE g2) =? 0) eqn:Eempty.
      + assert (S := fun Hok => wstep_lp g2 a2 tr2 t (FrontPos pos) (FrontRet None) VFront 0 0 lx KLd obj_posE true
                                  (posE g2) (posE g2) Hi2 Hv2 eq_refl I I eq_refl (fun x => x) (fun x => x)
                                  (fun _ _ _ => I) Hok).
        use_step S.
        { intros W Hlt. pose proof (Hw W) as Ef. symmetry in Ef. apply Z.eqb_eq in Ef.
          destruct (front_facts a2 tr2 t pos 0 lx W Hv2) as (F1 & F2 & F3 & F4 & F5).
          cbn [VyukovCore.phase_ok].
          pose proof (ri_len _ _ _ _ _ _ _ _ (proj1 W)) as Hl.
          destruct (absq (core a2)) as [|x r]; [|cbn [length] in Hl; lia].
          cbn; auto. }
        cbn. reflexivity.
      + assert (S := fun Hok => wstep_same g2 a2 tr2 t (FrontPos pos) (FrontPos pos) 0 0 lx KLd obj_posE true
                                  (posE g2) (posE g2) Hi2 Hv2 eq_refl I I eq_refl (fun x => x) (fun x => x) Hok).
        use_step S.
        { intros W Hlt. destruct (front_facts a2 tr2 t pos 0 lx W Hv2) as (F1 & _). cbn [VyukovCore.phase_ok stale_ok]. auto. }
        exact Reload.
  Qed.

  Lemma wsafe_front fuel t lx :
    safe t (front_g difw q fuel) (PFront, 0, lx) (Qfront lx).
  Proof.
    unfold front_g. cbn [Conc.safe]. intros g a tr Hi Hv. cbn [a_ld_posD fst snd vz].
    assert (S := fun Hok => wstep_same g a tr t PFront (FrontPos (posD (gh a))) 0 0 lx KLd obj_posD true
                              (posD g) (posD g) Hi Hv eq_refl I I eq_refl (fun x => x) (fun x => x) Hok).
    use_step S.
    { intros W Hlt. cbn [VyukovCore.phase_ok stale_ok]. auto. }
    rewrite (rel_D _ _ (proj1 Hi)). apply wsafe_front_loop.
  Qed.

  (** empty(): read-only; no linearizability claim is made for it *)
  Lemma wsafe_empty_loop fuel : forall t pos lx,
    safe t (empty_loop_g difw q fuel (pos mod m64)) (EmPos pos, 0, lx) (Qempty lx).
  Proof.
    induction fuel as [|f IH]; intros t pos lx; cbn [empty_loop_g Conc.safe]; [cbn; eauto|].
    intros g a tr Hi Hv. cbn [a_ld_seq fst snd vz difw].
    rewrite (idx_mod k Hk Hk61 q pos Hq).
    set (s := seqs g (cell pos)) in *. set (d := sdw s (uadd u64 (pos mod m64) 1)) in *.
    pose proof (since_nn tr t) as Hnn. destruct L62_m64 as (E1 & E2 & E3 & E4).
    assert (S := fun Hok => wstep_same g a tr t (EmPos pos) (EmPos pos) 0 L62 lx KLd (obj_seq (cell pos)) true s s
                              Hi Hv eq_refl I I eq_refl (fun x => x) (fun x => x) Hok).
    use_step S.
    { intros W Hlt. destruct (deq_facts a tr t _ pos 0 lx W Hv (or_intror (or_intror eq_refl))) as (F1 & F2 & F3 & F4 & F5 & F6).
      cbn [VyukovCore.phase_ok stale_ok]. lia. }
    clear Hi Hv Hnn.
    destruct (Z.eqb_spec d 0) as [D0|D0]; [cbn; eauto|].
    assert (Reload : forall sk, safe t (Act a_ld_posD (fun p0 => empty_loop_g difw q f (vz p0))) (EmPos pos, sk, lx) (Qempty lx)).
    { intros sk. cbn [Conc.safe]. intros g3 a3 tr3 Hi3 Hv3. cbn [a_ld_posD fst snd vz].
      assert (S := fun Hok => wstep_same g3 a3 tr3 t (EmPos pos) (EmPos (posD (gh a3))) sk 0 lx KLd obj_posD true
                                (posD g3) (posD g3) Hi3 Hv3 eq_refl I I eq_refl (fun x => x) (fun x => x) Hok).
      use_step S.
      { intros W Hlt. pose proof (ri_pos _ _ _ _ _ _ _ _ (proj1 W)). cbn [VyukovCore.phase_ok stale_ok]. lia. }
      rewrite (rel_D _ _ (proj1 Hi3)). apply IH. }
    destruct (Z.ltb_spec d 0) as [L|L]; [|apply Reload].
    cbn [Conc.safe]. intros g2 a2 tr2 Hi2 Hv2. cbn [a_ld_posE fst snd vz].
    assert (S := fun Hok => wstep_same g2 a2 tr2 t (EmPos pos) (EmPos pos) L62 (2 * L62) lx KLd obj_posE true
                              (posE g2) (posE g2) Hi2 Hv2 eq_refl I I eq_refl (fun x => x) (fun x => x) Hok).
    use_step S.
    { intros W Hlt. destruct (deq_facts a2 tr2 t _ pos L62 lx W Hv2 (or_intror (or_intror eq_refl))) as (F1 & F2 & F3 & F4 & F5 & F6).
      cbn [VyukovCore.phase_ok stale_ok]. lia. }
    destruct (usub u64 (pos mod m64) (posE g2) =? 0); [cbn; eauto|apply Reload].
  Qed.

  Lemma wsafe_empty fuel t lx :
    safe t (empty_g difw q fuel) (PEmpty, 0, lx) (Qempty lx).
  Proof.
    unfold empty_g. cbn [Conc.safe]. intros g a tr Hi Hv. cbn [a_ld_posD fst snd vz].
    assert (S := fun Hok => wstep_same g a tr t PEmpty (EmPos (posD (gh a))) 0 0 lx KLd obj_posD true
                              (posD g) (posD g) Hi Hv eq_refl I I eq_refl (fun x => x) (fun x => x) Hok).
    use_step S.
    { intros W Hlt. pose proof (ri_pos _ _ _ _ _ _ _ _ (proj1 W)). cbn [VyukovCore.phase_ok stale_ok]. lia. }
    rewrite (rel_D _ _ (proj1 Hi)). apply wsafe_empty_loop.
  Qed.

  Lemma wsafe_size t lx :
    safe t (size q) (PIdle, 0, lx) (fun _ l => l = (PIdle, 0, lx)).
  Proof.
    unfold size. destruct (qcount q); cbn [Conc.safe]; [|reflexivity].
    intros g a tr Hi Hv. cbn [a_ld_cnt fst snd vz].
    assert (S := fun Hok => wstep_same g a tr t PIdle PIdle 0 0 lx KLd obj_cnt true
                              (cnt g) (cnt g) Hi Hv eq_refl I I eq_refl (fun x => x) (fun x => x) Hok).
    use_step S.
    { intros W Hlt. split; exact I. }
    cbn. reflexivity.
  Qed.

End WCore.
