(** * MichaelListInv: the global invariant of the MichaelList model and its preservation by every kind of
      atomic step (every schedule: these lemmas feed the rule Conc.safe / Conc.reach_Inv).

    Auxiliary state: [a_pub] = the nodes that were linked into the list at some time ("published");
    per thread a view: facts it learnt about published nodes (their immutable keys; marked nodes with their
    frozen next pointer), the node it allocated and has not linked yet, and the status of its current
    operation in the LP-annotated trace [a_atr] (LV.Base.Lin). *)
From Coq Require Import ZArith List String Bool Lia PeanoNat.
From LV Require Import Base.Conc Base.Events Base.Lin Spec.Specs Proofs.LinProofs.
From LV Require Import Model.MichaelList Proofs.MichaelListBase.
Import ListNotations.
Local Open Scope Z_scope.

(** ** the history of a trace, restricted to modifying operations *)
Definition spec_op (code k x : Z) : set_op :=
  if Z.eqb code 1 || Z.eqb code 2 then SInsert k
  else if Z.eqb code 3 then SUpdate k (Z.odd x)
  else if Z.leb 4 code && Z.leb code 7 then SErase k
  else SContains k.

Definition res_of (o : set_op) (a b : Z) : res :=
  match o with
  | SUpdate _ _ => RPair (negb (Z.eqb a 0)) (negb (Z.eqb b 0))
  | _ => RBool (negb (Z.eqb a 0))
  end.

(** an operation that returns without having modified the set (its linearization point is not fixed) *)
Definition is_read (o : set_op) (r : res) : bool :=
  match o, r with
  | SInsert _, RBool true => false
  | SErase _, RBool true => false
  | SUpdate _ _, RPair _ true => false
  | SExtractMin, _ => false
  | SExtractMax, _ => false
  | _, _ => true
  end.

Definition hist := history SetSpec.

Definition is_hinv (t : nat) (e : hev SetSpec) : bool :=
  match e with HInv u _ => Nat.eqb u t | HRes _ _ => false end.

Fixpoint rm_first {A} (p : A -> bool) (l : list A) : list A :=
  match l with
  | [] => []
  | x :: r => if p x then r else x :: rm_first p r
  end.
Definition rm_last {A} (p : A -> bool) (l : list A) : list A := rev (rm_first p (rev l)).

Fixpoint last_inv_op (t : nat) (h : hist) (acc : option set_op) : option set_op :=
  match h with
  | [] => acc
  | HInv u o :: r => last_inv_op t r (if Nat.eqb u t then Some o else acc)
  | HRes _ _ :: r => last_inv_op t r acc
  end.

Definition hstep (out : hist) (te : nat * ev) : hist :=
  match te with
  | (t, EvCli name args) =>
      if String.eqb name "inv"%string then
        match args with
        | [c; k; x; _] => out ++ [@HInv SetSpec t (spec_op c k x)]
        | _ => out
        end
      else if String.eqb name "ret"%string then
        match args, last_inv_op t out None with
        | [a; b], Some o =>
            let r := res_of o a b in
            if is_read o r then rm_last (is_hinv t) out else out ++ [@HRes SetSpec t r]
        | _, _ => out
        end
      else out
  | (_, EvAcc _ _ _) => out
  end.

(** [upd_hist tr]: the invoke/response history of the trace [tr] from which every completed operation
    that did not modify the set (failed insert / erase / unlink / extract, update of an existing key,
    contains / find / get) has been deleted.  Pending operations are kept. *)
Definition upd_hist (tr : list (nat * ev)) : hist := fold_left hstep tr [].

Lemma upd_hist_app tr tr' : upd_hist (tr ++ tr') = fold_left hstep tr' (upd_hist tr).
Proof. unfold upd_hist. apply fold_left_app. Qed.

(** ** auxiliary state *)
Inductive fact := FPub (n : nat) (k : Z) | FFrozen (c nx : nat).

Record lview := mkLV {
  lv_facts : list fact;
  lv_own : option (nat * Z * nat);      (* my unlinked node: id, key, value of its next field *)
  lv_st : status SetSpec
}.

Record aux := mkAux { a_pub : nat -> bool; a_views : nat -> lview; a_atr : list (aev SetSpec) }.
Definition view (a : aux) (t : nat) : lview := a_views a t.

Definition set_view (a : aux) (t : nat) (lv : lview) : aux :=
  mkAux (a_pub a) (fun u => if Nat.eqb u t then lv else a_views a u) (a_atr a).

Lemma view_set_same a t lv : view (set_view a t lv) t = lv.
Proof. unfold view, set_view; cbn. now rewrite Nat.eqb_refl. Qed.
Lemma view_set_other a t lv u : u <> t -> view (set_view a t lv) u = view a u.
Proof. unfold view, set_view; cbn. intros H. destruct (Nat.eqb_spec u t); congruence. Qed.
Lemma frame_set a t lv : Conc.frame view t a (set_view a t lv).
Proof. intros u H. now apply view_set_other. Qed.

Definition fact_ok (g : G) (pub : nat -> bool) (f : fact) : Prop :=
  match f with
  | FPub n k => n <> 0%nat /\ pub n = true /\ nkey (heap g n) = k
  | FFrozen c nx => c <> 0%nat /\ pub c = true /\ nmark (heap g c) = true /\ nnext (heap g c) = nx
  end.

Definition own_ok (g : G) (pub : nat -> bool) (o : option (nat * Z * nat)) : Prop :=
  match o with
  | None => True
  | Some (n, k, nx) => (1 <= n <= nalloc g)%nat /\ pub n = false /\ heap g n = mkNode k nx false
  end.

Definition open_op (s : status SetSpec) : option set_op :=
  match s with Idle => None | Pending o => Some o | Linearized o _ => Some o end.

Definition aev_tid (e : aev SetSpec) : nat :=
  match e with AInv u _ => u | ALin u => u | ARes u _ => u end.

Definition no_inv_res (t : nat) (B : list (aev SetSpec)) : Prop :=
  forall e, In e B -> match e with AInv u _ => u <> t | ARes u _ => u <> t | ALin _ => True end.

(** the abstract set = keys of the unmarked nodes of the chain *)
Definition abs (g : G) (L : list nat) (S : list Z) : Prop :=
  forall k, zmem k S = true <-> exists n, In n L /\ nmark (heap g n) = false /\ nkey (heap g n) = k.

Record IS (g : G) (a : aux) (L : list nat) : Prop := {
  is_chain : chain_ok g L;
  is_pubL : forall n, In n L -> a_pub a n = true;
  is_pub : forall n, a_pub a n = true ->
      (1 <= n <= nalloc g)%nat /\
      (nnext (heap g n) = 0%nat \/ a_pub a (nnext (heap g n)) = true) /\
      (nmark (heap g n) = false -> In n L);
  is_head : nmark (heap g 0) = false;
  is_facts : forall t, Forall (fact_ok g (a_pub a)) (lv_facts (view a t));
  is_own : forall t, own_ok g (a_pub a) (lv_own (view a t));
  is_disj : forall t t' n k nx n' k' nx', t <> t' ->
      lv_own (view a t) = Some (n, k, nx) -> lv_own (view a t') = Some (n', k', nx') -> n <> n'
}.

Record IL (g : G) (a : aux) (tr : list (nat * ev)) (L : list nat) : Prop := {
  il_run : exists S st, lp_run lp_init (a_atr a) = Some (S, st) /\
                        (forall t, st t = lv_st (view a t)) /\ abs g L S;
  il_hist : erase (a_atr a) = upd_hist tr
}.

Definition Inv (g : G) (a : aux) (tr : list (nat * ev)) : Prop := exists L, IS g a L /\ IL g a tr L.

Notation safe := (@Conc.safe G V ev aux lview view Inv).

(** ** elementary facts *)
Lemma head_next_pub g a L : IS g a L -> nnext (heap g 0) = 0%nat \/ a_pub a (nnext (heap g 0)) = true.
Proof.
  intros H. destruct (is_chain _ _ _ H) as [Hl _]. destruct L as [|x L]; cbn [linked] in Hl.
  - left; exact Hl.
  - right. destruct Hl as [E _]. rewrite E. apply (is_pubL _ _ _ H). left; reflexivity.
Qed.

Definition pubz (a : aux) (n : nat) : Prop := n = 0%nat \/ a_pub a n = true.

Lemma pubz_next g a L n : IS g a L -> pubz a n -> nnext (heap g n) = 0%nat \/ a_pub a (nnext (heap g n)) = true.
Proof.
  intros H [->|Hn]; [eapply head_next_pub; eauto|]. apply (is_pub _ _ _ H) in Hn. tauto.
Qed.

Lemma pubz_unmarked_in g a L n : IS g a L -> pubz a n -> nmark (heap g n) = false -> In n (0%nat :: L).
Proof.
  intros H [->|Hn] Hm; [left; reflexivity|]. right. apply (is_pub _ _ _ H) in Hn. tauto.
Qed.

Lemma pub_nonzero g a L n : IS g a L -> a_pub a n = true -> n <> 0%nat.
Proof. intros H Hn. apply (is_pub _ _ _ H) in Hn. lia. Qed.

Lemma chain_nonzero g a L n : IS g a L -> In n L -> n <> 0%nat.
Proof. intros H Hn. eapply pub_nonzero; eauto. apply (is_pubL _ _ _ H); exact Hn. Qed.

(** ** stability of what other threads know *)
Lemma facts_stable g g' (pub pub' : nat -> bool) F :
  (forall n, pub n = true -> pub' n = true /\ nkey (heap g' n) = nkey (heap g n) /\
        (nmark (heap g n) = true -> nmark (heap g' n) = true /\ nnext (heap g' n) = nnext (heap g n))) ->
  Forall (fact_ok g pub) F -> Forall (fact_ok g' pub') F.
Proof.
  intros H HF. eapply Forall_impl; [|exact HF]. intros [n k|c nx]; cbn [fact_ok].
  - intros (H1 & H2 & H3). destruct (H n H2) as (K1 & K2 & _). repeat split; auto. congruence.
  - intros (H1 & H2 & H3 & H4). destruct (H c H2) as (K1 & K2 & K3). destruct (K3 H3) as [K4 K5].
    repeat split; auto. congruence.
Qed.

Lemma own_stable g g' (pub pub' : nat -> bool) o :
  own_ok g pub o -> (nalloc g <= nalloc g')%nat ->
  (forall n k nx, o = Some (n, k, nx) -> heap g' n = heap g n /\ pub' n = false) ->
  own_ok g' pub' o.
Proof.
  destruct o as [[[n k] nx]|]; cbn [own_ok]; auto. intros (H1 & H2 & H3) Hn H.
  destruct (H n k nx eq_refl) as [K1 K2]. repeat split; try lia; auto. congruence.
Qed.

(** ** histories *)
Lemma rm_first_app_hit {A} (p : A -> bool) l1 x l2 :
  (forall y, In y l1 -> p y = false) -> p x = true -> rm_first p (l1 ++ x :: l2) = l1 ++ l2.
Proof.
  intros H Hx. induction l1 as [|y l1 IH]; cbn [app rm_first].
  - now rewrite Hx.
  - rewrite (H y (or_introl eq_refl)). f_equal. apply IH. intros z Hz. apply H. right; exact Hz.
Qed.

Lemma rm_last_app_hit {A} (p : A -> bool) l1 x l2 :
  (forall y, In y l2 -> p y = false) -> p x = true -> rm_last p (l1 ++ x :: l2) = l1 ++ l2.
Proof.
  intros H Hx. unfold rm_last. rewrite rev_app_distr. cbn [rev]. rewrite <- app_assoc. cbn [app].
  rewrite rm_first_app_hit; auto.
  - rewrite rev_app_distr, !rev_involutive. reflexivity.
  - intros y Hy. apply H. apply in_rev. exact Hy.
Qed.

Lemma last_inv_op_app t h1 h2 acc : last_inv_op t (h1 ++ h2) acc = last_inv_op t h2 (last_inv_op t h1 acc).
Proof. revert acc. induction h1 as [|[u o|u r] h1 IH]; intros acc; cbn [app last_inv_op]; auto. Qed.

Lemma last_inv_op_none t h acc : (forall e, In e h -> is_hinv t e = false) -> last_inv_op t h acc = acc.
Proof.
  revert acc. induction h as [|[u o|u r] h IH]; intros acc H; cbn [last_inv_op]; auto.
  - pose proof (H _ (or_introl eq_refl)) as K. cbn in K. rewrite K. apply IH. intros e He. apply H. right; exact He.
  - apply IH. intros e He. apply H. right; exact He.
Qed.

Lemma erase_no_hinv t (B : list (aev SetSpec)) : no_inv_res t B -> forall e, In e (erase B) -> is_hinv t e = false.
Proof.
  induction B as [|[u o|u|u r] B IH]; intros H e He; cbn [erase] in He.
  - destruct He.
  - destruct He as [<-|He].
    + cbn. pose proof (H _ (or_introl eq_refl)) as K. cbn in K. now apply Nat.eqb_neq.
    + apply IH; auto. intros x Hx. apply H. right; exact Hx.
  - apply IH; auto. intros x Hx. apply H. right; exact Hx.
  - destruct He as [<-|He]; [reflexivity|].
    apply IH; auto. intros x Hx. apply H. right; exact Hx.
Qed.

Lemma erase_split_last t o (A B : list (aev SetSpec)) :
  no_inv_res t B ->
  last_inv_op t (erase (A ++ @AInv SetSpec t o :: B)) None = Some o /\
  rm_last (is_hinv t) (erase (A ++ @AInv SetSpec t o :: B)) = erase (A ++ B).
Proof.
  intros H. rewrite !erase_app. cbn [erase]. split.
  - rewrite last_inv_op_app. cbn [last_inv_op]. rewrite Nat.eqb_refl.
    apply last_inv_op_none. apply erase_no_hinv; exact H.
  - apply rm_last_app_hit; [apply erase_no_hinv; exact H|]. cbn. apply Nat.eqb_refl.
Qed.

(** ** annotated traces: dropping a pending invocation, appending events *)
Lemma lp_step_other (s : St SetSpec) (st st1 : nat -> status SetSpec) t e s' st' :
  aev_tid e <> t -> (forall u, u <> t -> st1 u = st u) ->
  lp_step (s, st) e = Some (s', st') ->
  exists st1', lp_step (s, st1) e = Some (s', st1') /\ (forall u, u <> t -> st1' u = st' u) /\ st1' t = st1 t.
Proof.
  intros Ht Hst. destruct e as [u o|u|u r]; cbn [aev_tid] in Ht; cbn [lp_step].
  - rewrite (Hst u Ht). destruct (st u); try discriminate. intros E; inversion E; subst.
    eexists; split; [reflexivity|]. split.
    + intros v Hv. unfold upd. destruct (Nat.eqb v u); auto.
    + unfold upd. destruct (Nat.eqb_spec t u); congruence.
  - rewrite (Hst u Ht). destruct (st u); try discriminate. intros E; inversion E; subst.
    eexists; split; [reflexivity|]. split.
    + intros v Hv. unfold upd. destruct (Nat.eqb v u); auto.
    + unfold upd. destruct (Nat.eqb_spec t u); congruence.
  - rewrite (Hst u Ht). destruct (st u); try discriminate.
    destruct (res_eqb SetSpec r r0); try discriminate. intros E; inversion E; subst.
    eexists; split; [reflexivity|]. split.
    + intros v Hv. unfold upd. destruct (Nat.eqb v u); auto.
    + unfold upd. destruct (Nat.eqb_spec t u); congruence.
Qed.

Lemma lp_run_other : forall (B : list (aev SetSpec)) (s : St SetSpec) (st st1 : nat -> status SetSpec) t s' st',
  (forall e, In e B -> aev_tid e <> t) -> (forall u, u <> t -> st1 u = st u) ->
  lp_run (s, st) B = Some (s', st') ->
  exists st1', lp_run (s, st1) B = Some (s', st1') /\ (forall u, u <> t -> st1' u = st' u) /\ st1' t = st1 t.
Proof.
  induction B as [|e B IH]; intros s st st1 t s' st' HB Hst; cbn [lp_run].
  - intros E; inversion E; subst. exists st1. auto.
  - destruct (lp_step (s, st) e) as [[s2 st2]|] eqn:E1; [|discriminate]. intros E2.
    destruct (lp_step_other s st st1 t e s2 st2 (HB e (or_introl eq_refl)) Hst E1) as (st1a & K1 & K2 & K3).
    rewrite K1.
    destruct (IH s2 st2 st1a t s' st' (fun x Hx => HB x (or_intror Hx)) K2 E2) as (st1b & J1 & J2 & J3).
    exists st1b. repeat split; auto. congruence.
Qed.

(** a pending invocation that was never linearized can be deleted from an LP-annotated trace *)
Lemma lp_run_remove (A B : list (aev SetSpec)) t o S st :
  lp_run lp_init (A ++ @AInv SetSpec t o :: B) = Some (S, st) -> (forall e, In e B -> aev_tid e <> t) ->
  exists st', lp_run lp_init (A ++ B) = Some (S, st') /\ (forall u, u <> t -> st' u = st u) /\ st' t = Idle.
Proof.
  rewrite !lp_run_app. destruct (lp_run lp_init A) as [[s1 st1]|]; [|discriminate].
  cbn [lp_run lp_step]. destruct (st1 t) eqn:Et; try discriminate. intros E HB.
  destruct (lp_run_other B s1 (upd st1 t (Pending o)) st1 t S st HB) as (st' & K1 & K2 & K3); auto.
  - intros u Hu. unfold upd. destruct (Nat.eqb_spec u t); congruence.
  - exists st'. repeat split; auto. congruence.
Qed.

Lemma lp_run_snoc (tr : list (aev SetSpec)) e c :
  lp_run lp_init tr = Some c -> lp_run lp_init (tr ++ [e]) = lp_step c e.
Proof. intros H. rewrite lp_run_app, H. cbn [lp_run]. destruct (lp_step c e); reflexivity. Qed.

(** ** the generic step lemma for the structural invariant *)
Definition mk_a (a : aux) (t : nat) (pub' : nat -> bool) (lv' : lview) (atr' : list (aev SetSpec)) : aux :=
  mkAux pub' (fun u => if Nat.eqb u t then lv' else a_views a u) atr'.

Lemma view_mk_same a t pub' lv' atr' : view (mk_a a t pub' lv' atr') t = lv'.
Proof. unfold view, mk_a; cbn. now rewrite Nat.eqb_refl. Qed.
Lemma view_mk_other a t pub' lv' atr' u : u <> t -> view (mk_a a t pub' lv' atr') u = view a u.
Proof. unfold view, mk_a; cbn. intros H. destruct (Nat.eqb_spec u t); congruence. Qed.
Lemma frame_mk a t pub' lv' atr' : Conc.frame view t a (mk_a a t pub' lv' atr').
Proof. intros u H. now apply view_mk_other. Qed.

Lemma IS_step g g' a t pub' lv' atr' L L' :
  IS g a L ->
  chain_ok g' L' ->
  (forall n, a_pub a n = true -> pub' n = true) ->
  (forall n, In n L' -> pub' n = true) ->
  (forall n, pub' n = true -> (1 <= n <= nalloc g')%nat /\
        (nnext (heap g' n) = 0%nat \/ pub' (nnext (heap g' n)) = true) /\ (nmark (heap g' n) = false -> In n L')) ->
  nmark (heap g' 0) = false ->
  (forall n, a_pub a n = true -> nkey (heap g' n) = nkey (heap g n) /\
        (nmark (heap g n) = true -> nmark (heap g' n) = true /\ nnext (heap g' n) = nnext (heap g n))) ->
  (nalloc g <= nalloc g')%nat ->
  (forall u n k nx, u <> t -> lv_own (view a u) = Some (n, k, nx) -> heap g' n = heap g n /\ pub' n = false) ->
  Forall (fact_ok g' pub') (lv_facts lv') -> own_ok g' pub' (lv_own lv') ->
  (forall u n k nx n' k' nx', u <> t -> lv_own lv' = Some (n, k, nx) -> lv_own (view a u) = Some (n', k', nx') -> n <> n') ->
  IS g' (mk_a a t pub' lv' atr') L'.
Proof.
  intros H Hc Hmono HL Hcl Hh Hby Hna Hown Hf Ho Hd.
  constructor; cbn [a_pub mk_a]; auto.
  - intros u. destruct (Nat.eq_dec u t) as [->|Hu].
    + rewrite view_mk_same. exact Hf.
    + rewrite view_mk_other by exact Hu. eapply facts_stable; [|apply (is_facts _ _ _ H)].
      intros n Hn. destruct (Hby n Hn) as [K1 K2]. auto.
  - intros u. destruct (Nat.eq_dec u t) as [->|Hu].
    + rewrite view_mk_same. exact Ho.
    + rewrite view_mk_other by exact Hu. eapply own_stable; [apply (is_own _ _ _ H)|exact Hna|].
      intros n k nx E. eapply Hown; eauto.
  - intros u u' n k nx n' k' nx' Huu E1 E2.
    destruct (Nat.eq_dec u t) as [->|Hu]; destruct (Nat.eq_dec u' t) as [->|Hu']; try congruence.
    + rewrite view_mk_same in E1. rewrite view_mk_other in E2 by exact Hu'.
      exact (Hd u' n k nx n' k' nx' Hu' E1 E2).
    + rewrite view_mk_same in E2. rewrite view_mk_other in E1 by exact Hu.
      intros En. exact (Hd u n' k' nx' n k nx Hu E2 E1 (eq_sym En)).
    + rewrite view_mk_other in E1 by exact Hu. rewrite view_mk_other in E2 by exact Hu'.
      exact (is_disj _ _ _ H u u' n k nx n' k' nx' Huu E1 E2).
Qed.
