(** * BasketQueue linearizability: proof rules over [Inv2] and the loops that take no linearization point.

    The scripts follow [LV.Proofs.BasketProofs] step by step; a view is now a pair (chain facts of
    [BasketInv.tview], linearization facts [BasketLinInv.xview]). *)
From Coq Require Import ZArith List String Bool Lia PeanoNat.
From LV Require Import Base.Conc Base.Events Base.Lin Spec.Specs Proofs.LinProofs Model.Basket
  Proofs.MSQueueBase Proofs.BasketBase Proofs.BasketInv Proofs.BasketProofs Proofs.BasketLinBase
  Proofs.BasketLinInv.
Import ListNotations.
Local Open Scope string_scope.
Local Open Scope list_scope.

Notation safe2 := (@Conc.safe G V ev Aux2 (tview * xview) view2 Inv2).

(** an access that neither changes the value of an allocated node nor shows in the history *)
Definition plain (f : act) : Prop :=
  forall g, (forall n, (n < nalloc g)%nat -> val (fst (fst (f g))) n = val g n) /\
            (forall t, hist (Conc.tag t (snd (f g))) = []).

Lemma plain_touch k o : plain (touch k o).
Proof. intros g; split; intros; reflexivity. Qed.
Lemma plain_begin : plain a_begin.
Proof. intros g; split; intros; reflexivity. Qed.
Lemma plain_ld_next y : plain (a_ld_next y).
Proof. intros g; split; intros; reflexivity. Qed.
Lemma plain_ld_tail : plain a_ld_tail.
Proof. intros g; split; intros; reflexivity. Qed.
Lemma plain_ld_head : plain a_ld_head.
Proof. intros g; split; intros; reflexivity. Qed.
Lemma plain_st_next n p : plain (a_st_next n p).
Proof. intros g; split; intros; reflexivity. Qed.
Lemma plain_cnt k d : plain (a_cnt k d).
Proof. intros g; split; intros; reflexivity. Qed.
Lemma plain_cas_tail e d : plain (a_cas_tail e d).
Proof. intros g; unfold a_cas_tail; destruct (Nat.eqb (tail g) e); split; intros; reflexivity. Qed.
Lemma plain_cas_head e d : plain (a_cas_head e d).
Proof. intros g; unfold a_cas_head; destruct (Nat.eqb (head g) e); split; intros; reflexivity. Qed.
Lemma plain_cas_next n e d : plain (a_cas_next n e d).
Proof. intros g; unfold a_cas_next; destruct (mp_eqb (nxt g n) e); split; intros; reflexivity. Qed.
Lemma plain_cas_mark n x e : plain (a_cas_mark n x e).
Proof. intros g; unfold a_cas_mark; destruct (mp_eqb (nxt g n) e); split; intros; reflexivity. Qed.
Lemma plain_alloc v : plain (a_alloc v).
Proof.
  intros g; split; [|intros; reflexivity]. intros n Hn. cbn.
  destruct (Nat.eqb_spec n (nalloc g)); [lia|reflexivity].
Qed.

Lemma view2_inv a t l x : view2 a t = (l, x) -> views (base a) t = l /\ xvs a t = x.
Proof. unfold view2. intros H. injection H as H1 H2. auto. Qed.

Lemma Lin_same g a tr g' tr' :
  Inv g (base a) tr -> LinI g a tr -> (forall n, (n < nalloc g)%nat -> val g' n = val g n) ->
  hist tr' = hist tr -> LinI g' a tr'.
Proof.
  intros HI HL Hval Hh. destruct a as [b l xs]. eapply (Lin_keep g (mkA2 b l xs) tr g' b tr' xs); eauto.
  apply (L_x _ _ _ HL).
Qed.

(** ** rules *)

(** a step that changes the thread's own chain facts (and possibly head's index) only *)
Lemma safe2_act_vh {R} t (f : act) (k : V -> prog R) l x Q :
  plain f ->
  (forall g a tr, Inv g a tr -> views a t = l ->
     exists hi v', Inv (fst (fst (f g))) (auxset a (dpre a) (bnd a) (live a) hi t v') (tr ++ Conc.tag t (snd (f g))) /\
                   tv_st v' = tv_st l /\ safe2 t (k (snd (fst (f g)))) (v', x) Q) ->
  safe2 t (Act f k) (l, x) Q.
Proof.
  intros Hp H. cbn [Conc.safe]. intros g a tr (HI & HL) Hv. apply view2_inv in Hv. destruct Hv as (Hv & Hx).
  destruct (H g (base a) tr HI Hv) as (hi & v' & A & B & C). destruct (Hp g) as (P1 & P2).
  exists (mkA2 (auxset (base a) (dpre (base a)) (bnd (base a)) (live (base a)) hi t v') (ltr a) (xvs a)).
  split; [split; [exact A|]|split].
  - eapply Lin_keep; eauto.
    + intros u. cbn. destruct (Nat.eq_dec u t) as [->|Hne]; [rewrite updv_same; congruence|now rewrite updv_other].
    + rewrite hist_app, P2. apply app_nil_r.
    + intros u. eapply xok_GG; [|apply (L_x _ _ _ HL)]. reflexivity.
  - intros t' Hne. unfold view2. cbn. now rewrite updv_other.
  - unfold view2. cbn. rewrite updv_same, Hx. exact C.
Qed.

Lemma safe2_act_v {R} t (f : act) (k : V -> prog R) l x Q :
  plain f ->
  (forall g a tr, Inv g a tr -> views a t = l ->
     exists v', Inv (fst (fst (f g))) (auxv a t v') (tr ++ Conc.tag t (snd (f g))) /\
                tv_st v' = tv_st l /\ safe2 t (k (snd (fst (f g)))) (v', x) Q) ->
  safe2 t (Act f k) (l, x) Q.
Proof.
  intros Hp H. apply safe2_act_vh; [exact Hp|]. intros g a tr HI Hv.
  destruct (H g a tr HI Hv) as (v' & A & B & C). exists (hidx a), v'. auto.
Qed.

(** a step after which the thread's view is what it was *)
Lemma safe2_act_keep {R} t (f : act) (k : V -> prog R) l x Q :
  plain f ->
  (forall g a tr, Inv g a tr -> views a t = l ->
     Inv (fst (fst (f g))) a (tr ++ Conc.tag t (snd (f g))) /\ safe2 t (k (snd (fst (f g)))) (l, x) Q) ->
  safe2 t (Act f k) (l, x) Q.
Proof.
  intros Hp H. cbn [Conc.safe]. intros g a tr (HI & HL) Hv. pose proof Hv as Hv2.
  apply view2_inv in Hv. destruct Hv as (Hv & Hx).
  destruct (H g (base a) tr HI Hv) as (A & B). destruct (Hp g) as (P1 & P2).
  exists a. split; [split; [exact A|]|split].
  - apply (Lin_same g a tr _ _ HI HL P1). rewrite hist_app, P2. apply app_nil_r.
  - intros ? ?. reflexivity.
  - rewrite Hv2. exact B.
Qed.

(** a step at which the thread also replaces its linearization facts *)
Lemma safe2_act_x {R} t (f : act) (k : V -> prog R) l x Q :
  plain f ->
  (forall g a tr, Inv2 g a tr -> views (base a) t = l -> xvs a t = x ->
     exists v' x', Inv (fst (fst (f g))) (auxv (base a) t v') (tr ++ Conc.tag t (snd (f g))) /\
                   tv_st v' = tv_st l /\ xok (base a) (ltr a) t x' /\
                   safe2 t (k (snd (fst (f g)))) (v', x') Q) ->
  safe2 t (Act f k) (l, x) Q.
Proof.
  intros Hp H. cbn [Conc.safe]. intros g a tr HI2 Hv. apply view2_inv in Hv. destruct Hv as (Hv & Hx).
  destruct (H g a tr HI2 Hv Hx) as (v' & x' & A & B & C & D). destruct HI2 as (HI & HL).
  destruct (Hp g) as (P1 & P2).
  exists (mkA2 (auxv (base a) t v') (ltr a) (updx (xvs a) t x')).
  split; [split; [exact A|]|split].
  - eapply Lin_keep; eauto.
    + intros u. cbn. destruct (Nat.eq_dec u t) as [->|Hne]; [rewrite updv_same; congruence|now rewrite updv_other].
    + rewrite hist_app, P2. apply app_nil_r.
    + apply xoks_upd with (b := base a); [reflexivity|apply (L_x _ _ _ HL)|exact C].
  - intros t' Hne. unfold view2. cbn. now rewrite updv_other, updx_other.
  - unfold view2. cbn. rewrite updv_same, updx_same. exact D.
Qed.

Lemma safe2_touch {R} t k o (p : prog R) l Q :
  safe2 t p l Q -> safe2 t (Act (touch k o) (fun _ => p)) l Q.
Proof.
  intros H. destruct l as [l x]. apply safe2_act_keep; [apply plain_touch|]. intros g a tr HI Hv. cbn [touch fst snd].
  split; [apply Inv_acc; exact HI|exact H].
Qed.
Lemma safe2_hp_assign {R} t s (p : prog R) l Q : safe2 t p l Q -> safe2 t (hp_assign t s p) l Q.
Proof. intros H. unfold hp_assign. apply safe2_touch. apply safe2_touch. exact H. Qed.
Lemma safe2_hp_clear {R} t s (p : prog R) l Q : safe2 t p l Q -> safe2 t (hp_clear t s p) l Q.
Proof. intros H. unfold hp_clear. apply safe2_touch. exact H. Qed.
Lemma safe2_hp_copy {R} t d s (p : prog R) l Q : safe2 t p l Q -> safe2 t (hp_copy t d s p) l Q.
Proof. intros H. unfold hp_copy. apply safe2_touch. apply safe2_hp_assign. exact H. Qed.

Lemma safe2_with_ic {R} cf t k d (p : prog R) l Q : safe2 t p l Q -> safe2 t (with_ic cf k d p) l Q.
Proof.
  intros H. unfold with_ic. destruct (c_ic cf); [|exact H]. destruct l as [l x].
  apply safe2_act_keep; [apply plain_cnt|]. intros g a tr HI Hv. cbn [a_cnt fst snd].
  split; [apply Inv_acc; apply Inv_cnt; exact HI|exact H].
Qed.

Lemma safe2_retire {R} cf t h (p : prog R) l Q : safe2 t p l Q -> safe2 t (retire cf t h p) l Q.
Proof.
  intros H. unfold retire. destruct (c_hp cf && negb (Nat.eqb h 0)); [|exact H].
  apply safe2_touch. apply safe2_touch. exact H.
Qed.

(** a load that teaches nothing *)
Lemma safe2_ld_keep {R} t (ld : act) (k : V -> prog R) l Q :
  plain ld ->
  (forall g, fst (fst (ld g)) = g /\ exists kk o b, snd (ld g) = [EvAcc kk o b]) ->
  (forall v, safe2 t (k v) l Q) -> safe2 t (Act ld k) l Q.
Proof.
  intros Hp Hld Hk. destruct l as [l x]. apply safe2_act_keep; [exact Hp|]. intros g a tr HI Hv.
  destruct (Hld g) as (E1 & kk & o & b & E2). rewrite E1, E2. split; [apply Inv_acc; exact HI|apply Hk].
Qed.

(** postconditions: [kx x Q] the linearization facts are still [x]; [lf Q] they are not looked at *)
Definition kx {R} (x : xview) (Q : R -> tview -> Prop) : R -> tview * xview -> Prop :=
  fun r l' => Q r (fst l') /\ snd l' = x.
Definition lf {R} (Q : R -> tview -> Prop) : R -> tview * xview -> Prop := fun r l' => Q r (fst l').

(** ** protect loops that only collect linked nodes *)
Lemma safe2_gprotect_m_loop fuel : forall t s y l x pcur,
  In y (tv_inG l) -> (forall z, fst pcur = Some z -> In z (tv_inG l)) ->
  safe2 t (gprotect_m_loop fuel t s y pcur) (l, x) (kx x (Qm l)).
Proof.
  induction fuel as [|f IH]; intros t s y l x pcur Hy Hp; cbn [gprotect_m_loop]; [split; [exact I|reflexivity]|].
  apply safe2_hp_assign.
  apply safe2_act_v; [apply plain_ld_next|]. intros g a tr HI Hv. cbn [a_ld_next fst snd vm].
  exists (addG l (olist (fst (nxt g y)))). split.
  { eapply step_addG; eauto. eapply succ_in_GG; eauto. eapply inG_GG; eauto. }
  split; [reflexivity|].
  destruct (mp_eqb (nxt g y) pcur) eqn:E.
  - split; [|reflexivity]. cbn [fst]. split; [apply ext_addG|]. intros z Ez. cbn. apply in_or_app. right. auto.
  - eapply Conc.safe_weaken; [|apply IH].
    + intros [pn|] l' (Hl & Hx); (split; [|exact Hx]); [|exact I]. destruct Hl as (E1 & E2). split; [|exact E2].
      eapply ext_trans; [apply ext_addG|exact E1].
    + cbn. apply in_or_app. right. exact Hy.
    + intros z Ez. cbn. rewrite Ez. cbn. now left.
Qed.

Lemma safe2_gprotect_m fuel t s y l x :
  In y (tv_inG l) -> safe2 t (gprotect_m fuel t s y) (l, x) (kx x (Qm l)).
Proof.
  intros Hy. unfold gprotect_m.
  apply safe2_act_v; [apply plain_ld_next|]. intros g a tr HI Hv. cbn [a_ld_next fst snd vm].
  exists (addG l (olist (fst (nxt g y)))). split.
  { eapply step_addG; eauto. eapply succ_in_GG; eauto. eapply inG_GG; eauto. }
  split; [reflexivity|].
  eapply Conc.safe_weaken; [|apply safe2_gprotect_m_loop].
  - intros [pn|] l' (Hl & Hx); (split; [|exact Hx]); [|exact I]. destruct Hl as (E1 & E2). split; [|exact E2].
    eapply ext_trans; [apply ext_addG|exact E1].
  - cbn. apply in_or_app. right. exact Hy.
  - intros z Ez. cbn. rewrite Ez. cbn. now left.
Qed.

Lemma safe2_gprotect_tail_loop fuel : forall t s l x pcur,
  In pcur (tv_inG l) -> safe2 t (gprotect_tail_loop fuel t s pcur) (l, x) (lf (Qn l)).
Proof.
  induction fuel as [|f IH]; intros t s l x pcur Hp; cbn [gprotect_tail_loop]; [exact I|].
  apply safe2_hp_assign.
  apply safe2_act_v; [apply plain_ld_tail|]. intros g a tr HI Hv. cbn [a_ld_tail fst snd vn].
  exists (addG l [tail g]). split.
  { eapply step_addG; eauto. intros z [<-|[]]. apply (I_tail _ _ _ HI). }
  split; [reflexivity|].
  destruct (Nat.eqb (tail g) pcur).
  - split; [apply ext_addG|]. cbn. right. exact Hp.
  - eapply Conc.safe_weaken; [|apply IH; cbn; now left].
    intros [z|] l' Hl; [|exact I]. destruct Hl as (E1 & E2). split; [|exact E2].
    eapply ext_trans; [apply ext_addG|exact E1].
Qed.

Lemma safe2_gprotect_tail fuel t s l x : safe2 t (gprotect_tail fuel t s) (l, x) (lf (Qn l)).
Proof.
  unfold gprotect_tail.
  apply safe2_act_v; [apply plain_ld_tail|]. intros g a tr HI Hv. cbn [a_ld_tail fst snd vn].
  exists (addG l [tail g]). split.
  { eapply step_addG; eauto. intros z [<-|[]]. apply (I_tail _ _ _ HI). }
  split; [reflexivity|].
  eapply Conc.safe_weaken; [|apply safe2_gprotect_tail_loop; cbn; now left].
  intros [z|] l' Hl; [|exact I]. destruct Hl as (E1 & E2). split; [|exact E2].
  eapply ext_trans; [apply ext_addG|exact E1].
Qed.

Lemma safe2_adv_loop fuel : forall t c d tl pn l x,
  In pn (tv_inG l) -> safe2 t (adv_loop fuel t c d tl pn) (l, x) (lf (Qadv l)).
Proof.
  induction fuel as [|f IH]; intros t c d tl pn l x Hin; cbn [adv_loop]; [exact I|].
  apply safe2_act_v; [apply plain_ld_next|]. intros g a tr HI Hv. cbn [a_ld_next fst snd vm].
  exists (addG l (olist (fst (nxt g pn)))). split.
  { eapply step_addG; eauto. eapply succ_in_GG; eauto. eapply inG_GG; eauto. }
  split; [reflexivity|].
  assert (Hin' : In pn (tv_inG (addG l (olist (fst (nxt g pn)))))) by (cbn; apply in_or_app; now right).
  destruct (fst (nxt g pn)) as [p|] eqn:Ep.
  2:{ split; [apply ext_addG|exact Hin']. }
  set (l1 := addG l (olist (Some p))) in *.
  set (r := nxt g pn). clearbody r. clear g a tr HI Hv Ep.
  apply safe2_ld_keep; [apply plain_ld_tail|apply ld_tail_plain|]. intros r2.
  destruct (negb (Nat.eqb (vn r2) tl)).
  { split; [apply ext_addG|exact Hin']. }
  apply safe2_hp_assign.
  apply safe2_ld_keep; [apply plain_ld_next|apply ld_next_plain|]. intros r3.
  destruct (negb (mp_eqb (vm r3) r)).
  - eapply Conc.safe_weaken; [|apply IH; exact Hin'].
    intros [[bb pl]|] l' Hl; [|exact I]. destruct Hl as (E1 & E2). split; [|exact E2].
    eapply ext_trans; [apply ext_addG|exact E1].
  - apply safe2_hp_copy. eapply Conc.safe_weaken; [|apply (IH t c d tl p l1); cbn; now left].
    intros [[bb pl]|] l' Hl; [|exact I]. destruct Hl as (E1 & E2). split; [|exact E2].
    eapply ext_trans; [apply ext_addG|exact E1].
Qed.

(** ** dequeue side *)
Lemma safe2_protect_head fuel : forall t s l x, safe2 t (protect_n fuel t s a_ld_head) (l, x) (lf (Qhead l)).
Proof.
  induction fuel as [|f IH]; intros t s l x; cbn [protect_n]; [exact I|].
  apply safe2_ld_keep; [apply plain_ld_head|apply ld_head_plain|]. intros r.
  apply safe2_hp_assign.
  apply safe2_act_v; [apply plain_ld_head|]. intros g a tr HI Hv. cbn [a_ld_head fst snd vn].
  set (l1 := mkTV (tv_st l) (tv_priv l) (tv_pnx l) (head g :: tv_inG l) ((head g, hidx a) :: tv_idx l) (hidx a)).
  assert (E1 : ext l l1).
  { repeat split; cbn; auto using incl_tl, incl_refl. eapply hlow_fact; eauto. }
  exists l1. split.
  { destruct (I_head _ _ _ HI) as (A1 & A2).
    eapply (step_facts g a tr t l l1); [exact HI|exact Hv|reflexivity|reflexivity|reflexivity| | |]; cbn.
    - intros m [<-|Hm]; [right; eapply nth_error_In; eauto|now left].
    - intros z i [E|Hz]; [injection E as <- <-; right; auto|now left].
    - right. lia. }
  split; [reflexivity|].
  destruct (Nat.eqb_spec (head g) (vn r)) as [<-|Hne].
  - split; [exact E1|]. split; [cbn; now left|]. exists (hidx a). split; [cbn; now left|cbn; lia].
  - eapply Conc.safe_weaken; [|apply IH].
    intros [h|] l' Hl; [|exact I]. destruct Hl as (E2 & R). split; [eapply ext_trans; eauto|exact R].
Qed.

Lemma safe2_protect_tail fuel : forall t s l x, safe2 t (protect_n fuel t s a_ld_tail) (l, x) (lf (Qn l)).
Proof.
  induction fuel as [|f IH]; intros t s l x; cbn [protect_n]; [exact I|].
  apply safe2_ld_keep; [apply plain_ld_tail|apply ld_tail_plain|]. intros r.
  apply safe2_hp_assign.
  apply safe2_act_v; [apply plain_ld_tail|]. intros g a tr HI Hv. cbn [a_ld_tail fst snd vn].
  exists (addG l [tail g]). split.
  { eapply step_addG; eauto. intros z [<-|[]]. apply (I_tail _ _ _ HI). }
  split; [reflexivity|].
  destruct (Nat.eqb_spec (tail g) (vn r)) as [<-|Hne].
  - split; [apply ext_addG|cbn; now left].
  - eapply Conc.safe_weaken; [|apply IH].
    intros [z|] l' Hl; [|exact I]. destruct Hl as (E1 & E2). split; [|exact E2].
    eapply ext_trans; [apply ext_addG|exact E1].
Qed.

(** protect( 2, y->next ) with the index of y in the deleted prefix known.  A load that returns null is the
    candidate linearization point of an "empty" answer: y is deleted and last, so no undeleted node exists. *)
Definition Qmi2 (l : tview) (j : nat) : option mptr -> tview * xview -> Prop :=
  fun r l' => Qmi l j r (fst l') /\ (forall pn, r = Some pn -> fst pn = None -> x_ec (snd l') <> None).

Lemma safe2_protect_m_idx fuel : forall t s y j l x,
  In y (tv_inG l) -> In (y, j) (tv_idx l) -> safe2 t (protect_m fuel t s y) (l, x) (Qmi2 l j).
Proof.
  induction fuel as [|f IH]; intros t s y j l x Hy Hj; cbn [protect_m]; [split; [exact I|discriminate]|].
  apply safe2_ld_keep; [apply plain_ld_next|apply ld_next_plain|]. intros r.
  apply safe2_hp_assign.
  apply safe2_act_x; [apply plain_ld_next|]. intros g a2 tr HI2 Hv Hx. pose proof HI2 as (HI & HL).
  cbn [a_ld_next fst snd vm]. set (a := base a2) in *.
  set (xi := match nxt g y with (Some z, true) => [(z, S j)] | _ => [] end).
  set (l1 := mkTV (tv_st l) (tv_priv l) (tv_pnx l) (olist (fst (nxt g y)) ++ tv_inG l) (xi ++ tv_idx l) (tv_hlow l)).
  set (x1 := match fst (nxt g y) with None => mkX (x_bk x) (Some (List.length (dpre a))) | Some _ => x end).
  assert (E1 : ext l l1) by (repeat split; cbn; auto using incl_appr, incl_refl).
  exists l1, x1. split.
  { eapply (step_facts g a tr t l l1); [exact HI|exact Hv|reflexivity|reflexivity|reflexivity| | |]; cbn.
    - intros m Hm. apply in_app_or in Hm. destruct Hm as [Hm|Hm]; [right|now left].
      eapply succ_in_GG; eauto. eapply inG_GG; eauto.
    - intros z i Hz. apply in_app_or in Hz. destruct Hz as [Hz|Hz]; [right|now left].
      unfold xi in Hz. destruct (nxt g y) as [[x0'|] [|]] eqn:En; cbn in Hz; try contradiction.
      destruct Hz as [Hz|[]]. injection Hz as <- <-.
      destruct (idx_fact _ _ _ _ _ _ _ HI Hv Hj) as (Ej & Lj).
      assert (j <> List.length (dpre a)).
      { intros ->. unfold GG in Ej. rewrite nth_error_app2, Nat.sub_diag in Ej by lia. cbn in Ej. injection Ej as Ej.
        pose proof (I_mpost _ _ _ HI y (or_introl Ej)) as Hm. rewrite En in Hm. discriminate. }
      split; [|lia]. eapply linked_nth; [apply (I_linked _ _ _ HI)|exact Ej|]. unfold nptr. now rewrite En.
    - left. lia. }
  split; [reflexivity|]. split.
  { (* the candidate *)
    pose proof (L_x _ _ _ HL t) as (A & B). rewrite Hx in A, B. unfold x1.
    destruct (fst (nxt g y)) eqn:En; [split; assumption|]. split; [exact A|].
    cbn. intros m Em. injection Em as <-.
    destruct (idx_fact _ _ _ _ _ _ _ HI Hv Hj) as (Ej & Lj).
    pose proof (last_index _ _ _ _ _ HI2 Ej En) as Elast.
    pose proof (EE_length a) as El. pose proof (lin_counts _ _ _ HL) as (Cn & Cd). fold a in Elast, Cn, Cd.
    assert (Hle : nenq (ltr a2) <= List.length (dpre a)) by lia.
    split; [rewrite nd_few by exact Hle; exact Cd|apply nopost_few; exact Hle]. }
  destruct (mp_eqb (nxt g y) (vm r)) eqn:E.
  - apply mp_eqb_eq in E. rewrite <- E. split.
    + cbn [fst]. split; [exact E1|]. split.
      * intros z Ez. cbn. rewrite Ez. cbn. now left.
      * intros z Ez Em. cbn. apply in_or_app. left. unfold xi. destruct (nxt g y) as [[x0'|] [|]]; cbn in *; try discriminate.
        injection Ez as ->. now left.
    + intros pn Epn En. injection Epn as <-. cbn [snd]. unfold x1. rewrite En. discriminate.
  - eapply Conc.safe_weaken; [|apply (IH t s y j l1 x1)].
    + intros [pn|] l' (Hl & Hc); (split; [|exact Hc]); [|exact I].
      destruct Hl as (E2 & R). split; [eapply ext_trans; eauto|exact R].
    + cbn. apply in_or_app. now right.
    + cbn. apply in_or_app. now right.
Qed.

Lemma safe2_protect_m_plain fuel : forall t s y l, safe2 t (protect_m fuel t s y) l (fun _ l' => l' = l).
Proof.
  induction fuel as [|f IH]; intros t s y l; cbn [protect_m]; [reflexivity|].
  apply safe2_ld_keep; [apply plain_ld_next|apply ld_next_plain|]. intros r. apply safe2_hp_assign.
  apply safe2_ld_keep; [apply plain_ld_next|apply ld_next_plain|]. intros r2.
  destruct (mp_eqb (vm r2) (vm r)); [reflexivity|apply IH].
Qed.

(** *** free_chain *)
Lemma safe2_free_loop cf fuel : forall t a b cur nh l, safe2 t (free_loop cf fuel t a b cur nh) l (fun _ l' => l' = l).
Proof.
  induction fuel as [|f IH]; intros t a b cur nh l; cbn [free_loop]; [reflexivity|].
  destruct (Nat.eqb cur nh); [reflexivity|].
  apply Conc.safe_bind. eapply Conc.safe_weaken; [|apply safe2_protect_m_plain].
  intros [pn|] l' ->; [|reflexivity].
  apply safe2_retire. apply safe2_hp_copy. destruct (fst pn); [apply IH|reflexivity].
Qed.

Lemma safe2_free_chain cf fuel t ea eb h i nh j l x :
  In (h, i) (tv_idx l) -> In (nh, j) (tv_idx l) -> (i < j)%nat ->
  safe2 t (free_chain cf fuel t ea eb h nh) (l, x) (fun _ l' => l' = (l, x)).
Proof.
  intros Hi Hj Hlt. unfold free_chain.
  apply safe2_act_vh; [apply plain_cas_head|]. intros g a tr HI Hv. unfold a_cas_head.
  destruct (Nat.eqb_spec (head g) h) as [Eh|Hne]; cbn [fst snd vb].
  - exists j, l. split.
    { apply Inv_acc. rewrite <- Hv. eapply Inv_headcas; eauto; rewrite Hv; eauto. }
    split; [reflexivity|].
    apply safe2_hp_assign. apply Conc.safe_bind. eapply Conc.safe_weaken; [|apply safe2_free_loop].
    intros [u|] l' ->; [|reflexivity]. apply safe2_hp_clear. apply safe2_hp_clear. reflexivity.
  - exists (hidx a), l. split; [|split; reflexivity].
    apply Inv_acc. pose proof (I_views _ _ _ HI t) as (P1 & P2 & P3 & P4). rewrite Hv in P1, P2, P3, P4.
    apply Inv_setv; try (rewrite Hv; reflexivity); auto.
Qed.

(** *** h == t: look for the last node *)
Lemma safe2_fixtail_loop fuel : forall t s2 sg tl pn l x,
  In pn (tv_inG l) ->
  safe2 t (fixtail_loop fuel t s2 sg tl pn) (l, x)
       (lf (fun r l' => match r with Some pl => ext l l' /\ In pl (tv_inG l') | None => True end)).
Proof.
  induction fuel as [|f IH]; intros t s2 sg tl pn l x Hin; cbn [fixtail_loop]; [exact I|].
  apply safe2_ld_keep; [apply plain_ld_next|apply ld_next_plain|]. intros r.
  destruct (fst (vm r)); [|split; [apply ext_refl|exact Hin]].
  apply safe2_ld_keep; [apply plain_ld_tail|apply ld_tail_plain|]. intros r2.
  destruct (negb (Nat.eqb (vn r2) tl)); [split; [apply ext_refl|exact Hin]|].
  apply Conc.safe_bind. eapply Conc.safe_weaken; [|apply safe2_gprotect_m; exact Hin].
  intros [q|] [l1 x1] (Hl & Hx); [|exact I]. cbn [fst snd] in Hl, Hx. destruct Hl as (E1 & Hq).
  apply safe2_hp_copy. destruct (fst q) as [z|] eqn:Eq; [|exact I].
  eapply Conc.safe_weaken; [|apply IH; apply Hq; reflexivity].
  intros [pl|] l' Hl; [|exact I]. destruct Hl as (E2 & R). split; [eapply ext_trans; eauto|exact R].
Qed.

(** *** the hop loop *)
Lemma safe2_hop_loop fuel : forall t s2 sg h i tl iter j pn hops l x,
  In (h, i) (tv_idx l) -> (i <= tv_hlow l)%nat ->
  In (iter, j) (tv_idx l) -> (i <= j)%nat ->
  (forall z, fst pn = Some z -> In z (tv_inG l)) ->
  (forall z, fst pn = Some z -> snd pn = true -> In (z, S j) (tv_idx l)) ->
  safe2 t (hop_loop fuel t s2 sg h tl iter pn hops) (l, x) (lf (Qhop l i tl)).
Proof.
  induction fuel as [|f IH]; intros t s2 sg h i tl iter j pn hops l x Hh Hhl Hit Hij Hp1 Hp2; cbn [hop_loop]; [exact I|].
  destruct (fst pn) as [z|] eqn:Ep.
  2:{ cbn. split; [apply ext_refl|]. split; [intros x0' E; congruence|]. split; [eauto|]. right. now left. }
  destruct (snd pn && negb (Nat.eqb iter tl)) eqn:Ec.
  2:{ cbn. split; [apply ext_refl|]. split; [intros x0' E; apply Hp1; congruence|]. split; [eauto|].
      apply andb_false_iff in Ec. destruct Ec as [Ec|Ec]; [now left|].
      right. right. left. apply negb_false_iff in Ec. now apply Nat.eqb_eq in Ec. }
  apply andb_prop in Ec. destruct Ec as [Em _].
  apply safe2_act_v; [apply plain_ld_head|]. intros g a tr HI Hv. cbn [a_ld_head fst snd vn].
  destruct (Nat.eqb_spec (head g) h) as [Eh|Hne]; cbn [negb].
  - exists l. split.
    { apply Inv_acc. pose proof (I_views _ _ _ HI t) as (P1 & P2 & P3 & P4). rewrite Hv in P1, P2, P3, P4.
      apply Inv_setv; try (rewrite Hv; reflexivity); auto. }
    split; [reflexivity|].
    apply safe2_hp_copy. apply Conc.safe_bind.
    eapply Conc.safe_weaken; [|apply (safe2_protect_m_idx f t s2 z (S j) l x); [apply Hp1; reflexivity|apply Hp2; auto]].
    intros [q|] [l1 x1] (Hl & _); [|exact I]. cbn [fst] in Hl. destruct Hl as (E1 & Q1 & Q2).
    pose proof E1 as (X1 & X2 & X3 & X4 & X5 & X6).
    eapply Conc.safe_weaken; [|apply (IH t s2 sg h i tl z (S j) q (S hops) l1 x1);
      [apply X5; exact Hh|lia|apply X5; apply Hp2; auto|lia|exact Q1|exact Q2]].
    intros [[[it' pn'] hp']|] l' Hl; [|exact I]. destruct Hl as (E2 & R). split; [eapply ext_trans; eauto|exact R].
  - (* head has moved: its index is now beyond i *)
    set (l1 := mkTV (tv_st l) (tv_priv l) (tv_pnx l) (tv_inG l) (tv_idx l) (hidx a)).
    assert (Hlt : (i < hidx a)%nat).
    { destruct (idx_fact _ _ _ _ _ _ _ HI Hv Hh) as (Ei & _).
      pose proof (hlow_fact _ _ _ _ _ HI Hv) as Hl.
      destruct (Nat.eq_dec (hidx a) i) as [E|]; [|lia].
      destruct (I_head _ _ _ HI) as (E1 & _). rewrite E in E1. congruence. }
    exists l1. split.
    { eapply (step_facts g a tr t l l1); [exact HI|exact Hv|reflexivity|reflexivity|reflexivity| | |]; cbn; auto. }
    split; [reflexivity|].
    split; [repeat split; cbn; auto using incl_refl; eapply hlow_fact; eauto|].
    split; [cbn; rewrite Ep; exact Hp1|]. split; [cbn; eauto|]. right. right. right. cbn. exact Hlt.
Qed.
