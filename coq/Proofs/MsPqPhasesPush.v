(** * Push phases of MSPriorityQueue under the PHASE discipline (no push overlaps a pop): the tag invariant of
      Hunt, Michael, Parthasarathy, Scott, restated so that it can be suspended while pops are pending and
      re-established at the next quiescent point.

    This is LV.Proofs.MsPqPush with the condition "no pop invoked so far" replaced by an abstract pair
    [Dm tr] ("the claims of this layer are suspended: a pop is pending or the discipline was broken") and
    [Pm tr t] ("thread t has a pending pop"); LV.Proofs.MsPqPhasesPop instantiates them from a scan of the trace.
    While the claims are in force, for EVERY schedule:
      (W) a cell carries the tag "thread t" iff it is the cell thread t's push is currently bubbling (at most one);
      (B) an Available cell is not larger than ANY of its ancestors (whatever their tags).
    The definitions outside the section ([anc], [tv2], [pop_invoked] ...) are those of LV.Proofs.MsPqPush. *)
From Coq Require Import ZArith List String Bool Lia PeanoNat Permutation.
From LV Require Import Base.Conc Base.Events Model.MsPq
  Proofs.MsPqBrc Proofs.MsPqInv Proofs.MsPqSteps Proofs.MsPqProofs Proofs.MsPqHeap Proofs.MsPqPush.
Import ListNotations.
Local Open Scope string_scope.
Local Open Scope list_scope.

(** events that are not client events of a pop: what a push emits, and what leaves a pending pop pending *)
Definition pushev (e : ev) : bool :=
  match e with
  | EvAcc _ _ _ => true
  | EvCli n _ => negb (String.eqb n "inv_pop" || String.eqb n "ret_pop")
  end.

Section Push.
  Variable cap : nat.
  Hypothesis OK : slots_ok cap = true.
  Hypothesis SH : shape_ok cap = true.
  Variable bsz : nat.
  Hypothesis Hbsz : cap < bsz.
  Notation Inv := (MsPqInv.Inv cap).

  (** the phase discipline, abstractly: [Dm tr] = the claims of this layer are suspended (a pop is pending or the
      discipline was broken); [Pm tr t] = thread t has a pending pop.  Instantiated in MsPqPop from a scan of the
      trace; "no pop invoked so far" is the instance Dm = pop_invoked, Pm tr _ = (pop_invoked tr = true). *)
  Variable Dm : list (nat * ev) -> bool.
  Variable Pm : list (nat * ev) -> nat -> Prop.
  Hypothesis HDpush : forall tr t es, forallb pushev es = true -> Dm (tr ++ Conc.tag t es) = Dm tr.
  Hypothesis HPpush : forall tr t es u, forallb pushev es = true -> Pm tr u -> Pm (tr ++ Conc.tag t es) u.
  Hypothesis HPD : forall tr u, Pm tr u -> Dm tr = true.

  Definition W_ok (g : G) (a2 : Aux2) : Prop := forall i t, cellt g i = TOwner t <-> own (a2 t) = Some i.
  Definition B_ok (g : G) : Prop :=
    forall k j x y, anc j k -> cellt g k = TAvail -> cellv g k = Some x -> cellv g j = Some y -> (prio x <= prio y)%Z.
  Definition A_ok (a1 : Aux) (a2 : Aux2) : Prop :=
    (forall t, pclear (tvs a1 t) = None) /\
    (forall t, hs (tvs a1 t) = true \/ pstore (tvs a1 t) <> None \/ own (a2 t) <> None -> inop (tvs a1 t) = true).
  Definition Ext (g : G) (a1 : Aux) (a2 : Aux2) (tr : list (nat * ev)) : Prop :=
    (forall t, vpop (a2 t) = true -> Pm tr t) /\
    (Dm tr = false -> W_ok g a2 /\ B_ok g /\ A_ok a1 a2) /\
    (forall t, own (a2 t) <> None -> inop (tvs a1 t) = true).

  Definition JAux := (Aux * Aux2)%type.
  Definition jview (a : JAux) (t : nat) : tv * tv2 := (tvs (fst a) t, snd a t).
  Definition JInv (g : G) (a : JAux) (tr : list (nat * ev)) : Prop := Inv g (fst a) tr /\ Ext g (fst a) (snd a) tr.
  Notation safe1 := (@Conc.safe G V ev Aux tv view Inv).
  Notation jsafe := (@Conc.safe G V ev JAux (tv * tv2) jview JInv).

  (** *** a step of a thread inside a pop: the claims stay suspended *)
  Lemma Ext_susp g g' a1 a1' a2 tr tr' t :
    (forall u, Pm tr u -> Pm tr' u) -> vpop (a2 t) = true -> own (a2 t) = None -> (forall u, u <> t -> tvs a1' u = tvs a1 u) ->
    Ext g a1 a2 tr -> Ext g' a1' a2 tr'.
  Proof.
    intros HP Hv Ho Hoth (E1 & E2 & E3). split; [|split].
    - intros u Hu. apply HP. apply (E1 u Hu).
    - intros Hf. rewrite (HPD tr' t (HP t (E1 t Hv))) in Hf. discriminate.
    - intros u Hu. destruct (Nat.eq_dec u t) as [->|N]; [congruence|]. rewrite Hoth by exact N. apply (E3 u Hu).
  Qed.

  (** *** [Ext] under steps that change neither cells nor ownership *)
  Lemma Ext_same g g' a1 a1' a2 tr es t :
    (forall i, cellt g' i = cellt g i) -> (forall i, cellv g' i = cellv g i) ->
    (forall u, u <> t -> tvs a1' u = tvs a1 u) -> pclear (tvs a1' t) = None ->
    (hs (tvs a1' t) = true \/ pstore (tvs a1' t) <> None \/ own (a2 t) <> None -> inop (tvs a1' t) = true) ->
    forallb pushev es = true ->
    Ext g a1 a2 tr -> Ext g' a1' a2 (tr ++ Conc.tag t es).
  Proof.
    intros Ht Hv Hoth Hpc Hin Hes (E1 & E2 & E3). split; [|split].
    - intros u Hu. apply HPpush; [exact Hes|]. apply (E1 u Hu).
    - intros Hf. rewrite (HDpush tr t es Hes) in Hf. destruct (E2 Hf) as (HW & HB & [A1 A2]). split; [|split; [|split]].
      + intros i u. rewrite Ht. apply HW.
      + intros k j x y Ha. rewrite Ht, !Hv. apply HB. exact Ha.
      + intros u. destruct (Nat.eq_dec u t) as [->|N]; [exact Hpc|rewrite Hoth by exact N; apply A1].
      + intros u Hu. destruct (Nat.eq_dec u t) as [->|N]; [apply Hin; exact Hu|]. rewrite Hoth in Hu |- * by exact N. apply A2. exact Hu.
    - intros u Hu. destruct (Nat.eq_dec u t) as [->|N]; [apply Hin; right; right; exact Hu|]. rewrite Hoth by exact N. apply (E3 u Hu).
  Qed.

  (** a cell in use at or below the counter: its slot number *)
  Lemma occupied_slot g a1 a2 tr k :
    Inv g a1 tr -> A_ok a1 a2 -> cellv g k <> None -> exists j, 1 <= j <= count g /\ slot j = k.
  Proof.
    intros Hi [A1 _] Hk. pose proof (Z_in_range cap g k (iZ _ _ _ _ Hi) Hk) as Rk.
    destruct (slot_surj cap OK k Rk) as (j & Hj & <-). exists j. split; [|reflexivity]. split; [lia|].
    destruct (Nat.le_gt_cases j (count g)) as [|Hgt]; [assumption|]. exfalso.
    destruct (iO _ _ _ _ Hi) as (O1 & _ & _). destruct (O1 j Hj) as [_ K]. destruct (K Hgt) as [K1|[u K1]]; [congruence|].
    rewrite A1 in K1. discriminate.
  Qed.

  (** the ancestors of slot j' are slots with smaller numbers *)
  Lemma anc_slot_lt n : forall j', 1 <= n <= cap -> 1 <= j' <= cap -> anc (slot n) (slot j') -> n < j'.
  Proof.
    intros j'. induction j' as [j' IH] using lt_wf_ind. intros Hn Hj Ha.
    destruct (anc_inv _ _ Ha) as [Hk2 Hc].
    assert (2 <= j'). { destruct (Nat.eq_dec j' 1) as [->|]; [rewrite slot_1 in Hk2; lia|lia]. }
    destruct (slot_parent cap SH j' ltac:(lia)) as (m & Hm & Em). rewrite <- Em in Hc. destruct Hc as [E|Ha'].
    - apply (slot_inj cap OK) in E; lia.
    - pose proof (IH m ltac:(lia) Hn ltac:(lia) Ha'). lia.
  Qed.

  (** *** the steps of push *)
  (** P3: the reserved cell (a leaf: no cell below it is in use) receives the item, tagged with the thread *)
  Lemma Ext_store g a1 a1' a2 tr t i x P :
    Inv g a1 tr -> tvs a1 t = P -> pstore P = Some i -> inop P = true -> own (a2 t) = None ->
    (forall u, u <> t -> tvs a1' u = tvs a1 u) -> pclear (tvs a1' t) = None -> inop (tvs a1' t) = true ->
    Ext g a1 a2 tr ->
    Ext (set_cell g i (TOwner t) (Some x)) a1' (upd2 a2 t (mkT2 (Some i) (vpop (a2 t)))) tr.
  Proof.
    intros Hi HP Hps Hin Hown Hoth Hpc Hin' (E1 & E2 & E3). split; [|split].
    - intros u Hu. destruct (Nat.eq_dec u t) as [->|N]; [rewrite upd2_same in Hu; cbn in Hu; apply (E1 t Hu)|rewrite upd2_other in Hu by exact N; apply (E1 u Hu)].
    - intros Hf. destruct (E2 Hf) as (HW & HB & HA). pose proof HA as [A1 A2].
      destruct (iO _ _ _ _ Hi) as (O1 & O2 & _).
      destruct (O2 t i ltac:(rewrite HP; exact Hps)) as (Hhs & Hnone & Hislot & Hn1).
      pose proof (iC _ _ _ _ Hi) as [_ Hcap].
      assert (Hempty : cellt g i = TEmpty) by (apply (iT _ _ _ _ Hi); exact Hnone).
      split; [|split; [|split]].
      + intros k u. rewrite cellt_set_cell. destruct (Nat.eqb_spec k i) as [->|Nk].
        * destruct (Nat.eq_dec u t) as [->|Nu].
          -- rewrite upd2_same. cbn. tauto.
          -- rewrite upd2_other by exact Nu. split; [intros E; inversion E; congruence|].
             intros Hu. apply HW in Hu. rewrite Hempty in Hu. discriminate.
        * destruct (Nat.eq_dec u t) as [->|Nu].
          -- rewrite upd2_same. cbn. split; [|intros E; inversion E; congruence].
             intros Hu. apply HW in Hu. rewrite Hown in Hu. discriminate.
          -- rewrite upd2_other by exact Nu. apply HW.
      + intros k j y z Ha Hk Hy Hz. rewrite cellt_set_cell in Hk. rewrite !cellv_set_cell in *.
        destruct (Nat.eqb_spec k i) as [->|Nk]; [discriminate|].
        destruct (Nat.eqb_spec j i) as [->|Nj]; [|apply (HB k j y z Ha Hk Hy Hz)].
        exfalso. assert (Hko : cellv g k <> None) by (rewrite Hy; discriminate).
        destruct (occupied_slot g a1 a2 tr k Hi HA Hko) as (j' & Hj' & <-). rewrite Hislot in Ha.
        pose proof (anc_slot_lt (count g) j' ltac:(lia) ltac:(lia) Ha). lia.
      + intros u. destruct (Nat.eq_dec u t) as [->|N]; [exact Hpc|rewrite Hoth by exact N; apply A1].
      + intros u Hu. destruct (Nat.eq_dec u t) as [->|N]; [exact Hin'|]. rewrite Hoth in Hu |- * by exact N.
        rewrite upd2_other in Hu by exact N. apply A2. exact Hu.
    - intros u Hu. destruct (Nat.eq_dec u t) as [->|N]; [exact Hin'|]. rewrite upd2_other in Hu by exact N. rewrite Hoth by exact N. apply (E3 u Hu).
  Qed.

  (** H2, first branch: the item at [i] (tagged with the thread) is larger than its Available parent: swap *)
  Lemma Ext_swap g a1 a2 tr t i a b :
    2 <= i -> cellt g i = TOwner t -> cellt g (Nat.div2 i) = TAvail ->
    cellv g i = Some a -> cellv g (Nat.div2 i) = Some b -> (prio a > prio b)%Z -> inop (tvs a1 t) = true ->
    Ext g a1 a2 tr ->
    Ext (set_cell (set_cell g i TAvail (Some b)) (Nat.div2 i) (TOwner t) (Some a)) a1
        (upd2 a2 t (mkT2 (Some (Nat.div2 i)) (vpop (a2 t)))) tr.
  Proof.
    intros Hi2 Hti Htp Hvi Hvp Hgt Hinop (E1 & E2 & E3). set (p := Nat.div2 i) in *.
    assert (Hpi : p < i) by (apply div2_lt; lia). split; [|split].
    - intros u Hu. destruct (Nat.eq_dec u t) as [->|N]; [rewrite upd2_same in Hu; cbn in Hu; apply (E1 t Hu)|rewrite upd2_other in Hu by exact N; apply (E1 u Hu)].
    - intros Hf. destruct (E2 Hf) as (HW & HB & [A1 A2]).
      assert (Hown : own (a2 t) = Some i) by (apply HW; exact Hti).
      split; [|split; [|split]].
      + intros k u. rewrite !cellt_set_cell. destruct (Nat.eqb_spec k p) as [->|Nkp].
        * destruct (Nat.eq_dec u t) as [->|Nu]; [rewrite upd2_same; cbn; tauto|].
          rewrite upd2_other by exact Nu. split; [intros E; inversion E; congruence|].
          intros Hu. apply HW in Hu. rewrite Htp in Hu. discriminate.
        * destruct (Nat.eqb_spec k i) as [->|Nki].
          -- split; [discriminate|]. intros Hu. exfalso. destruct (Nat.eq_dec u t) as [->|Nu].
             ++ rewrite upd2_same in Hu. cbn in Hu. inversion Hu. lia.
             ++ rewrite upd2_other in Hu by exact Nu. apply HW in Hu. rewrite Hti in Hu. inversion Hu. congruence.
          -- destruct (Nat.eq_dec u t) as [->|Nu].
             ++ rewrite upd2_same. cbn. split; [|intros E; inversion E; congruence].
                intros Hu. apply HW in Hu. rewrite Hown in Hu. inversion Hu. congruence.
             ++ rewrite upd2_other by exact Nu. apply HW.
      + intros k j x y Ha Hk Hx Hy. rewrite !cellt_set_cell in Hk. rewrite !cellv_set_cell in Hx, Hy.
        destruct (Nat.eqb_spec k p) as [->|Nkp]; [discriminate|].
        destruct (Nat.eqb_spec k i) as [->|Nki].
        * (* the old parent value, now at i *)
          inversion Hx; subst x. destruct (anc_inv _ _ Ha) as [_ [->|Ha']].
          -- fold p in Hy. rewrite Nat.eqb_refl in Hy. inversion Hy; subst y. lia.
          -- fold p in Ha'. pose proof (anc_lt _ _ Ha') as Hl.
             destruct (Nat.eqb_spec j p) as [->|Njp]; [lia|]. destruct (Nat.eqb_spec j i) as [->|Nji]; [lia|].
             apply (HB p j b y Ha' Htp Hvp Hy).
        * destruct (Nat.eqb_spec j p) as [->|Njp].
          -- inversion Hy; subst y. pose proof (HB k p x b Ha Hk Hx Hvp). lia.
          -- destruct (Nat.eqb_spec j i) as [->|Nji].
             ++ inversion Hy; subst y. apply (HB k p x b (anc_up _ _ Ha Hi2) Hk Hx Hvp).
             ++ apply (HB k j x y Ha Hk Hx Hy).
      + exact A1.
      + intros u Hu. apply A2. destruct Hu as [Hu|[Hu|Hu]]; auto. destruct (Nat.eq_dec u t) as [->|N].
        * right. right. rewrite Hown. discriminate.
        * rewrite upd2_other in Hu by exact N. auto.
    - intros u Hu. destruct (Nat.eq_dec u t) as [->|N]; [exact Hinop|]. rewrite upd2_other in Hu by exact N. apply (E3 u Hu).
  Qed.

  (** H2, second branch: not larger than the Available parent: the item stays, tagged Available *)
  Lemma Ext_settle g a1 a2 tr t i a b :
    2 <= i -> cellt g i = TOwner t -> cellt g (Nat.div2 i) = TAvail ->
    cellv g i = Some a -> cellv g (Nat.div2 i) = Some b -> (prio a <= prio b)%Z ->
    Ext g a1 a2 tr ->
    Ext (set_cell g i TAvail (Some a)) a1 (upd2 a2 t (mkT2 None (vpop (a2 t)))) tr.
  Proof.
    intros Hi2 Hti Htp Hvi Hvp Hle (E1 & E2 & E3). set (p := Nat.div2 i) in *. split; [|split].
    - intros u Hu. destruct (Nat.eq_dec u t) as [->|N]; [rewrite upd2_same in Hu; cbn in Hu; apply (E1 t Hu)|rewrite upd2_other in Hu by exact N; apply (E1 u Hu)].
    - intros Hf. destruct (E2 Hf) as (HW & HB & [A1 A2]).
      assert (Hown : own (a2 t) = Some i) by (apply HW; exact Hti).
      split; [|split; [|split]].
      + intros k u. rewrite cellt_set_cell. destruct (Nat.eqb_spec k i) as [->|Nki].
        * split; [discriminate|]. intros Hu. exfalso. destruct (Nat.eq_dec u t) as [->|Nu].
          -- rewrite upd2_same in Hu. discriminate.
          -- rewrite upd2_other in Hu by exact Nu. apply HW in Hu. rewrite Hti in Hu. inversion Hu. congruence.
        * destruct (Nat.eq_dec u t) as [->|Nu].
          -- rewrite upd2_same. cbn. split; [|discriminate]. intros Hu. apply HW in Hu. rewrite Hown in Hu. inversion Hu. congruence.
          -- rewrite upd2_other by exact Nu. apply HW.
      + intros k j x y Ha Hk Hx Hy. rewrite cellt_set_cell in Hk. rewrite !cellv_set_cell in Hx, Hy.
        assert (Hy' : cellv g j = Some y) by (destruct (Nat.eqb_spec j i) as [->|]; [rewrite Hvi; exact Hy|exact Hy]).
        destruct (Nat.eqb_spec k i) as [->|Nki]; [|apply (HB k j x y Ha Hk Hx Hy')].
        inversion Hx; subst x. destruct (anc_inv _ _ Ha) as [_ [->|Ha']].
        * fold p in Hy'. rewrite Hvp in Hy'. inversion Hy'; subst y. exact Hle.
        * fold p in Ha'. pose proof (HB p j b y Ha' Htp Hvp Hy'). lia.
      + exact A1.
      + intros u Hu. apply A2. destruct Hu as [Hu|[Hu|Hu]]; auto. destruct (Nat.eq_dec u t) as [->|N].
        * rewrite upd2_same in Hu. cbn in Hu. congruence.
        * rewrite upd2_other in Hu by exact N. auto.
    - intros u Hu. destruct (Nat.eq_dec u t) as [->|N]; [rewrite upd2_same in Hu; cbn in Hu; congruence|]. rewrite upd2_other in Hu by exact N. apply (E3 u Hu).
  Qed.

  (** H5: the item reached the top *)
  Lemma Ext_top g a1 a2 tr t a :
    cellt g 1 = TOwner t -> cellv g 1 = Some a -> Ext g a1 a2 tr ->
    Ext (set_cell g 1 TAvail (Some a)) a1 (upd2 a2 t (mkT2 None (vpop (a2 t)))) tr.
  Proof.
    intros Hti Hvi (E1 & E2 & E3). split; [|split].
    - intros u Hu. destruct (Nat.eq_dec u t) as [->|N]; [rewrite upd2_same in Hu; cbn in Hu; apply (E1 t Hu)|rewrite upd2_other in Hu by exact N; apply (E1 u Hu)].
    - intros Hf. destruct (E2 Hf) as (HW & HB & [A1 A2]).
      assert (Hown : own (a2 t) = Some 1) by (apply HW; exact Hti).
      split; [|split; [|split]].
      + intros k u. rewrite cellt_set_cell. destruct (Nat.eqb_spec k 1) as [->|Nki].
        * split; [discriminate|]. intros Hu. exfalso. destruct (Nat.eq_dec u t) as [->|Nu].
          -- rewrite upd2_same in Hu. discriminate.
          -- rewrite upd2_other in Hu by exact Nu. apply HW in Hu. rewrite Hti in Hu. inversion Hu. congruence.
        * destruct (Nat.eq_dec u t) as [->|Nu].
          -- rewrite upd2_same. cbn. split; [|discriminate]. intros Hu. apply HW in Hu. rewrite Hown in Hu. inversion Hu. congruence.
          -- rewrite upd2_other by exact Nu. apply HW.
      + intros k j x y Ha Hk Hx Hy. rewrite cellt_set_cell in Hk. rewrite !cellv_set_cell in Hx, Hy.
        assert (Hy' : cellv g j = Some y) by (destruct (Nat.eqb_spec j 1) as [->|]; [rewrite Hvi; exact Hy|exact Hy]).
        destruct (Nat.eqb_spec k 1) as [->|Nki]; [pose proof (anc_lt _ _ Ha); destruct (anc_inv _ _ Ha); lia|].
        apply (HB k j x y Ha Hk Hx Hy').
      + exact A1.
      + intros u Hu. apply A2. destruct Hu as [Hu|[Hu|Hu]]; auto. destruct (Nat.eq_dec u t) as [->|N].
        * rewrite upd2_same in Hu. cbn in Hu. congruence.
        * rewrite upd2_other in Hu by exact N. auto.
    - intros u Hu. destruct (Nat.eq_dec u t) as [->|N]; [rewrite upd2_same in Hu; cbn in Hu; congruence|]. rewrite upd2_other in Hu by exact N. apply (E3 u Hu).
  Qed.

  (** while the claims are suspended *)
  Lemma Ext_dead g a1 a2 tr :
    (forall t, vpop (a2 t) = true -> Pm tr t) -> (forall t, own (a2 t) <> None -> inop (tvs a1 t) = true) -> Dm tr = true -> Ext g a1 a2 tr.
  Proof. intros H1 H3 H. split; [exact H1|]. split; [intros Hf; congruence|exact H3]. Qed.

  (** a branch that cannot be taken while the claims are in force: any ownership view will do *)
  Lemma Ext_absurd g g' a1 a2 tr t o :
    inop (tvs a1 t) = true ->
    (Dm tr = false -> W_ok g a2 -> A_ok a1 a2 -> False) -> Ext g a1 a2 tr ->
    Ext g' a1 (upd2 a2 t (mkT2 o (vpop (a2 t)))) tr.
  Proof.
    intros Hinop Habs (E1 & E2 & E3). destruct (Dm tr) eqn:Ep.
    - apply Ext_dead; [| |exact Ep].
      + intros u Hu. destruct (Nat.eq_dec u t) as [->|N]; [rewrite upd2_same in Hu; cbn in Hu; apply (E1 t Hu)|rewrite upd2_other in Hu by exact N; apply (E1 u Hu)].
      + intros u Hu. destruct (Nat.eq_dec u t) as [->|N]; [exact Hinop|]. rewrite upd2_other in Hu by exact N. apply (E3 u Hu).
    - exfalso. destruct (E2 eq_refl) as (HW & _ & HA). apply Habs; auto.
  Qed.

  (** the parent of a cell in use is in use *)
  Lemma parent_in_use g a1 a2 tr i :
    Inv g a1 tr -> A_ok a1 a2 -> 2 <= i -> cellv g i <> None -> cellt g (Nat.div2 i) <> TEmpty.
  Proof.
    intros Hi HA Hi2 Hv. destruct (occupied_slot g a1 a2 tr i Hi HA Hv) as (j & Hj & <-).
    pose proof (iC _ _ _ _ Hi) as [_ Hcap].
    assert (2 <= j). { destruct (Nat.eq_dec j 1) as [->|]; [rewrite slot_1 in Hi2; lia|lia]. }
    destruct (slot_parent cap SH j ltac:(lia)) as (m & Hm & Em). rewrite <- Em.
    destruct (iO _ _ _ _ Hi) as (O1 & O2 & _). destruct (O1 m ltac:(lia)) as [K _].
    destruct (K ltac:(lia)) as [K1|[u K1]].
    - intros E. apply K1. apply (iT _ _ _ _ Hi). exact E.
    - exfalso. destruct (O2 u _ K1) as (_ & _ & E & _). apply (slot_inj cap OK) in E; lia.
  Qed.

  (** *** the joint proof rule for lock()/unlock() *)
  Definition optQ2 {R} (Q : R -> tv * tv2 -> Prop) : option R -> tv * tv2 -> Prop :=
    fun r l => match r with Some x => Q x l | None => True end.

  Definition pushing (P1 : tv) : Prop := pclear P1 = None /\ inop P1 = true.

  Lemma Ext_tr g g' a1 a2 tr es t :
    (forall i, cellt g' i = cellt g i) -> (forall i, cellv g' i = cellv g i) -> pushing (tvs a1 t) ->
    forallb pushev es = true -> Ext g a1 a2 tr -> Ext g' a1 a2 (tr ++ Conc.tag t es).
  Proof. intros Ht Hv [Hp Hin] Hes He. apply (Ext_same g g' a1 a1 a2 tr es t); auto. Qed.

  Lemma pop_invoked_tag_acc t k o ok es : pop_invoked (Conc.tag t (EvAcc k o ok :: es)) = pop_invoked (Conc.tag t es).
  Proof. reflexivity. Qed.

  Lemma jsafe_stop_err {R} t c P (Q0 : R -> tv * tv2 -> Prop) : pushing (fst P) -> jsafe t (@stop_err R c) P (optQ2 Q0).
  Proof.
    intros Hp. destruct P as [P1 P2]. cbn [fst] in Hp. unfold stop_err. destruct c as [|[|c]]; cbn [Conc.safe]; intros g [a1 a2] tr [Hi He] Hv; exists (a1, a2);
      unfold jview in Hv; cbn [fst snd] in *; inversion Hv as [[V1 V2]];
      (split; [split; [apply Inv_irrelevant; [reflexivity|exact Hi]|
                       cbn [fst snd]; apply (Ext_tr g g a1 a2 tr _ t); auto; rewrite V1; exact Hp]
              |split; [intros u Hu; reflexivity|exact I]]).
  Qed.

  Lemma jsafe_checked {R} t v (k : prog (option R)) P (Q0 : R -> tv * tv2 -> Prop) :
    pushing (fst P) -> (verr v = 0 -> jsafe t k P (optQ2 Q0)) -> jsafe t (checked v k) P (optQ2 Q0).
  Proof.
    intros Hp H. unfold checked. destruct (verr v) as [|c] eqn:E; [apply H; reflexivity|apply jsafe_stop_err; exact Hp].
  Qed.

  (** the step's obligations: new auxiliary state for both components; other threads' views untouched *)
  Definition jstep (t : nat) (a1 a1' : Aux) (a2 a2' : Aux2) : Prop :=
    (forall u, u <> t -> tvs a1' u = tvs a1 u) /\ (forall u, u <> t -> a2' u = a2 u).

  Lemma jframe t a1 a1' a2 a2' : jstep t a1 a1' a2 a2' -> Conc.frame jview t (a1, a2) (a1', a2').
  Proof. intros [H1 H2] u Hu. unfold jview. cbn [fst snd]. rewrite H1, H2 by exact Hu. reflexivity. Qed.

  Lemma jsafe_lock {R} lf t l bd (k : V -> prog (option R)) P1 P2 (Q0 : R -> tv * tv2 -> Prop) :
    pushing P1 ->
    (forall g a1 a2 tr, Inv g a1 tr -> Ext g a1 a2 tr -> tvs a1 t = P1 -> a2 t = P2 -> lockbit g l = false ->
       exists a1' a2',
         Inv (fst (fst (bd (set_lockbit g l true)))) a1'
             (tr ++ Conc.tag t (EvAcc KXchg (obj_lock l) true :: snd (bd (set_lockbit g l true)))) /\
         Ext (fst (fst (bd (set_lockbit g l true)))) a1' a2'
             (tr ++ Conc.tag t (EvAcc KXchg (obj_lock l) true :: snd (bd (set_lockbit g l true)))) /\
         jstep t a1 a1' a2 a2' /\ pushing (tvs a1' t) /\
         (verr (snd (fst (bd (set_lockbit g l true)))) = 0 ->
          jsafe t (k (unbusy (snd (fst (bd (set_lockbit g l true)))))) (tvs a1' t, a2' t) (optQ2 Q0))) ->
    jsafe t (lock_ lf l bd k) (P1, P2) (optQ2 Q0).
  Proof.
    intros Hp H. unfold lock_, obind. apply Conc.safe_bind.
    set (Qmid := fun (r : option V) (l' : tv * tv2) =>
           jsafe t (match r with Some x => checked x (k x) | None => Ret None end) l' (optQ2 Q0)).
    change (jsafe t (lock_outer lf l bd) (P1, P2) Qmid).
    assert (Both : jsafe t (lock_outer lf l bd) (P1, P2) Qmid /\ jsafe t (lock_inner lf l bd) (P1, P2) Qmid).
    { induction lf as [|f [IHo IHi]]; [split; exact I|]. split.
      - cbn [lock_outer Conc.safe]. intros g [a1 a2] tr [Hi He] Hv. unfold jview in Hv. cbn [fst snd] in *. inversion Hv as [[V1 V2]].
        unfold a_lock. destruct (lockbit g l) eqn:Hl.
        + exists (a1, a2). cbn [fst snd]. split; [split; [apply Inv_irrelevant; [reflexivity|exact Hi]|]|].
          * cbn [fst snd]. apply (Ext_tr g g a1 a2 tr _ t); auto. rewrite V1. exact Hp.
          * split; [intros u Hu; reflexivity|]. cbn [vbusy vbusyV]. unfold jview. cbn [fst snd]. rewrite V1, V2. exact IHi.
        + destruct (H g a1 a2 tr Hi He V1 V2 Hl) as (a1' & a2' & K1 & K2 & K3 & K4 & K5).
          destruct (bd (set_lockbit g l true)) as [[g' v] es]. cbn [fst snd] in *.
          exists (a1', a2'). split; [split; assumption|]. split; [apply jframe; exact K3|].
          cbn [vbusy unbusy Conc.safe]. unfold jview. cbn [fst snd]. apply jsafe_checked; [exact K4|exact K5].
      - cbn [lock_inner Conc.safe]. intros g [a1 a2] tr [Hi He] Hv. unfold jview in Hv. cbn [fst snd] in *. inversion Hv as [[V1 V2]].
        unfold a_load. cbn [fst snd]. exists (a1, a2).
        split; [split; [apply Inv_irrelevant; [reflexivity|exact Hi]|cbn [fst snd]; apply (Ext_tr g g a1 a2 tr _ t); auto; rewrite V1; exact Hp]|].
        split; [intros u Hu; reflexivity|]. unfold jview. cbn [fst snd]. rewrite V1, V2.
        destruct (lockbit g l); cbn [vbusy vbusyV v0]; assumption. }
    apply Both.
  Qed.

  Lemma jsafe_unlock {R} t l bd (k : V -> prog (option R)) P1 P2 (Q0 : R -> tv * tv2 -> Prop) :
    (forall g a1 a2 tr, Inv g a1 tr -> Ext g a1 a2 tr -> tvs a1 t = P1 -> a2 t = P2 ->
       exists a1' a2',
         Inv (set_lockbit (fst (fst (bd g))) l false) a1' (tr ++ Conc.tag t (EvAcc KSt (obj_lock l) true :: snd (bd g))) /\
         Ext (set_lockbit (fst (fst (bd g))) l false) a1' a2' (tr ++ Conc.tag t (EvAcc KSt (obj_lock l) true :: snd (bd g))) /\
         jstep t a1 a1' a2 a2' /\ pushing (tvs a1' t) /\
         (verr (snd (fst (bd g))) = 0 -> jsafe t (k (snd (fst (bd g)))) (tvs a1' t, a2' t) (optQ2 Q0))) ->
    jsafe t (unlock_ l bd k) (P1, P2) (optQ2 Q0).
  Proof.
    intros H. unfold unlock_, unlock. cbn [Conc.bind Conc.safe]. intros g [a1 a2] tr [Hi He] Hv.
    unfold jview in Hv. cbn [fst snd] in *. inversion Hv as [[V1 V2]].
    destruct (H g a1 a2 tr Hi He V1 V2) as (a1' & a2' & K1 & K2 & K3 & K4 & K5). unfold a_unlock.
    destruct (bd g) as [[g' v] es]. cbn [fst snd] in *. exists (a1', a2').
    split; [split; assumption|]. split; [apply jframe; exact K3|]. unfold jview. cbn [fst snd]. apply jsafe_checked; [exact K4|exact K5].
  Qed.

  (** node locks with no plain code: nothing changes *)
  Lemma jsafe_lock_none {R} lf t l (k : V -> prog (option R)) P1 P2 (Q0 : R -> tv * tv2 -> Prop) :
    l <> 0 -> pushing P1 -> jsafe t (k v0) (P1, P2) (optQ2 Q0) -> jsafe t (lock_ lf l body_none k) (P1, P2) (optQ2 Q0).
  Proof.
    intros Hl Hp H. apply jsafe_lock; [exact Hp|]. intros g a1 a2 tr Hi He V1 V2 _. cbn [body_none fst snd].
    exists a1, a2. split; [apply Inv_irrelevant; [reflexivity|apply Inv_nodelock; assumption]|].
    split; [apply (Ext_tr g _ a1 a2 tr _ t); auto; [intros i; apply cellt_set_lockbit|intros i; apply cellv_set_lockbit|rewrite V1; exact Hp]|].
    split; [split; intros; reflexivity|]. split; [rewrite V1; exact Hp|]. intros _. rewrite V1, V2. exact H.
  Qed.
  Lemma jsafe_unlock_none {R} t l (k : V -> prog (option R)) P1 P2 (Q0 : R -> tv * tv2 -> Prop) :
    l <> 0 -> pushing P1 -> jsafe t (k v0) (P1, P2) (optQ2 Q0) -> jsafe t (unlock_ l body_none k) (P1, P2) (optQ2 Q0).
  Proof.
    intros Hl Hp H. apply jsafe_unlock. intros g a1 a2 tr Hi He V1 V2. cbn [body_none fst snd].
    exists a1, a2. split; [apply Inv_irrelevant; [reflexivity|apply Inv_nodelock; assumption]|].
    split; [apply (Ext_tr g _ a1 a2 tr _ t); auto; [intros i; apply cellt_set_lockbit|intros i; apply cellv_set_lockbit|rewrite V1; exact Hp]|].
    split; [split; intros; reflexivity|]. split; [rewrite V1; exact Hp|]. intros _. rewrite V1, V2. exact H.
  Qed.

  Lemma Ext_acc g a1 a2 tr t k o ok :
    pushing (tvs a1 t) -> Ext g a1 a2 tr -> Ext g a1 a2 (tr ++ Conc.tag t [EvAcc k o ok]).
  Proof. intros Hp He. apply (Ext_tr g g a1 a2 tr _ t); auto. Qed.

  (** *** heapify_after_push *)
  Definition own_of (i : nat) : option nat := match i with 0 => None | _ => Some i end.

  Lemma W_tag g a2 t i : W_ok g a2 -> own (a2 t) = Some i -> cellt g i = TOwner t.
  Proof. intros HW H. apply HW. exact H. Qed.

  Lemma jsafe_heapify_push lf t P1 : pushing P1 -> forall hf i,
    jsafe t (heapify_push hf lf t i) (P1, mkT2 (own_of i) false) (optQ2 (fun _ l' => l' = (P1, mkT2 None false))).
  Proof.
    intros Hp. induction hf as [|hf IH]; intros i; [exact I|]. cbn [heapify_push].
    destruct (Nat.ltb 1 i) eqn:E1.
    - apply Nat.ltb_lt in E1. destruct (div2_pos i E1) as [Hp0 Hpi]. set (p := Nat.div2 i) in *.
      assert (Hi0 : i <> 0) by lia. assert (Eown : own_of i = Some i) by (destruct i; [lia|reflexivity]). rewrite Eown.
      apply jsafe_lock_none; [exact Hp0|exact Hp|].
      apply jsafe_lock; [exact Hp|]. intros g a1 a2 tr Hi He V1 V2 _.
      set (g1 := set_lockbit g i true).
      assert (Hi1 : Inv g1 a1 tr) by (apply Inv_nodelock; assumption).
      assert (He1 : Ext g1 a1 a2 tr).
      { rewrite <- (app_nil_r tr). apply (Ext_tr g g1 a1 a2 tr [] t); auto; [intros k; apply cellt_set_lockbit|intros k; apply cellv_set_lockbit|rewrite V1; exact Hp]. }
      destruct (sift_up_inv cap g1 a1 tr t i p ltac:(congruence) Hi1) as [K1 K2]. rewrite K2.
      assert (Hpush : pushing (tvs a1 t)) by (rewrite V1; exact Hp).
      assert (Hvp : vpop (a2 t) = false) by (rewrite V2; reflexivity).
      assert (Hrest : forall a2' v', jstep t a1 a1 a2 a2' -> a2' t = mkT2 (own_of (vn v')) false ->
                 jsafe t (unlock_ i body_none (fun _ => unlock_ p body_none (fun _ => heapify_push hf lf t (vn v')))) (tvs a1 t, a2' t) (optQ2 (fun _ l' => l' = (P1, mkT2 None false)))).
      { intros a2' v' _ E. rewrite E, V1. apply jsafe_unlock_none; [exact Hi0|exact Hp|]. apply jsafe_unlock_none; [exact Hp0|exact Hp|]. apply IH. }
      (* the branch taken *)
      unfold body_sift_up in *. change (ntag (heap g1 p)) with (cellt g1 p) in *. change (ntag (heap g1 i)) with (cellt g1 i) in *.
      change (nval (heap g1 p)) with (cellv g1 p) in *. change (nval (heap g1 i)) with (cellv g1 i) in *.
      destruct (tag_eqb (cellt g1 p) TAvail && tag_eqb (cellt g1 i) (TOwner t)) eqn:Ec.
      + apply andb_true_iff in Ec. destruct Ec as [Ep Ei]. apply tag_eqb_eq in Ep, Ei.
        destruct (cellv g1 i) as [a|] eqn:Ea; [|exists a1, a2; cbn [fst snd verr]; split; [apply Inv_irrelevant; [reflexivity|exact Hi1]|split; [apply (Ext_tr g1 g1 a1 a2 tr _ t); auto|split; [split; intros; reflexivity|split; [exact Hpush|discriminate]]]]].
        destruct (cellv g1 p) as [b|] eqn:Eb; [|exists a1, a2; cbn [fst snd verr]; split; [apply Inv_irrelevant; [reflexivity|exact Hi1]|split; [apply (Ext_tr g1 g1 a1 a2 tr _ t); auto|split; [split; intros; reflexivity|split; [exact Hpush|discriminate]]]]].
        destruct (Z.gtb (prio a) (prio b)) eqn:Egt; cbn [fst snd verr vn unbusy] in *.
        * exists a1, (upd2 a2 t (mkT2 (Some p) (vpop (a2 t)))). split; [apply Inv_irrelevant; [reflexivity|exact K1]|]. split.
          { rewrite Ep, Ei. pose proof (Ext_swap g1 a1 a2 tr t i a b ltac:(lia) Ei Ep Ea Eb ltac:(lia) (proj2 Hpush) He1) as K. fold p in K.
            apply Ext_acc; [exact Hpush|exact K]. }
          split; [split; [intros; reflexivity|intros u Hu; apply upd2_other; exact Hu]|]. split; [exact Hpush|]. intros _.
          apply (Hrest _ (mkV false p true None 0)); [split; [intros; reflexivity|intros u Hu; apply upd2_other; exact Hu]|].
          rewrite upd2_same, Hvp. cbn [vn own_of]. destruct p; [lia|reflexivity].
        * exists a1, (upd2 a2 t (mkT2 None (vpop (a2 t)))). split; [apply Inv_irrelevant; [reflexivity|exact K1]|]. split.
          { pose proof (Ext_settle g1 a1 a2 tr t i a b ltac:(lia) Ei Ep Ea Eb ltac:(lia) He1) as K.
            apply Ext_acc; [exact Hpush|exact K]. }
          split; [split; [intros; reflexivity|intros u Hu; apply upd2_other; exact Hu]|]. split; [exact Hpush|]. intros _.
          apply (Hrest _ (mkV false 0 true None 0)); [split; [intros; reflexivity|intros u Hu; apply upd2_other; exact Hu]|].
          rewrite upd2_same, Hvp. reflexivity.
      + assert (Habs : forall o, (tag_eqb (cellt g1 p) TEmpty = true \/ negb (tag_eqb (cellt g1 i) (TOwner t)) = true) ->
                  Ext g1 a1 (upd2 a2 t (mkT2 o (vpop (a2 t)))) tr).
        { intros o Hc. apply (Ext_absurd g1 g1 a1 a2 tr t o (proj2 Hpush)); [|exact He1]. intros _ HW HA.
          assert (Eti : cellt g1 i = TOwner t) by (apply (W_tag g1 a2 t i HW); rewrite V2; reflexivity).
          destruct Hc as [Hc|Hc].
          - apply tag_eqb_eq in Hc. apply (parent_in_use g1 a1 a2 tr i Hi1 HA ltac:(lia)); [|exact Hc].
            apply T_some; [apply (iT _ _ _ _ Hi1)|rewrite Eti; discriminate].
          - rewrite Eti in Hc. cbn in Hc. rewrite Nat.eqb_refl in Hc. discriminate. }
        destruct (tag_eqb (cellt g1 p) TEmpty) eqn:Ee; cbn [fst snd verr vn unbusy] in *.
        * exists a1, (upd2 a2 t (mkT2 None (vpop (a2 t)))). split; [apply Inv_irrelevant; [reflexivity|exact K1]|]. split.
          { pose proof (Habs None (or_introl eq_refl)) as K.
            apply Ext_acc; [exact Hpush|exact K]. }
          split; [split; [intros; reflexivity|intros u Hu; apply upd2_other; exact Hu]|]. split; [exact Hpush|]. intros _.
          apply (Hrest _ (mkV false 0 true None 0)); [split; [intros; reflexivity|intros u Hu; apply upd2_other; exact Hu]|].
          rewrite upd2_same, Hvp. reflexivity.
        * destruct (negb (tag_eqb (cellt g1 i) (TOwner t))) eqn:En; cbn [fst snd verr vn unbusy] in *.
          -- exists a1, (upd2 a2 t (mkT2 (Some p) (vpop (a2 t)))). split; [apply Inv_irrelevant; [reflexivity|exact K1]|]. split.
             { pose proof (Habs (Some p) (or_intror eq_refl)) as K.
               apply Ext_acc; [exact Hpush|exact K]. }
             split; [split; [intros; reflexivity|intros u Hu; apply upd2_other; exact Hu]|]. split; [exact Hpush|]. intros _.
             apply (Hrest _ (mkV false p true None 0)); [split; [intros; reflexivity|intros u Hu; apply upd2_other; exact Hu]|].
             rewrite upd2_same, Hvp. cbn [vn own_of]. destruct p; [lia|reflexivity].
          -- exists a1, a2. split; [apply Inv_irrelevant; [reflexivity|exact K1]|]. split; [apply (Ext_tr g1 g1 a1 a2 tr _ t); auto|].
             split; [split; intros; reflexivity|]. split; [exact Hpush|]. intros _.
             apply (Hrest a2 (mkV false i false None 0)); [split; intros; reflexivity|]. rewrite V2. cbn [vn]. rewrite Eown. reflexivity.
    - apply Nat.ltb_ge in E1. destruct (Nat.eqb_spec i 1) as [->|N1].
      + cbn [own_of]. apply jsafe_lock; [exact Hp|]. intros g a1 a2 tr Hi He V1 V2 _.
        set (g1 := set_lockbit g 1 true).
        assert (Hi1 : Inv g1 a1 tr) by (apply Inv_nodelock; [discriminate|assumption]).
        assert (He1 : Ext g1 a1 a2 tr).
        { rewrite <- (app_nil_r tr). apply (Ext_tr g g1 a1 a2 tr [] t); auto; [intros k; apply cellt_set_lockbit|intros k; apply cellv_set_lockbit|rewrite V1; exact Hp]. }
        destruct (push_top_inv cap g1 a1 tr t Hi1) as (K1 & K2 & K3). rewrite K2.
        assert (Hpush : pushing (tvs a1 t)) by (rewrite V1; exact Hp).
        assert (Hvp : vpop (a2 t) = false) by (rewrite V2; reflexivity).
        exists a1, (upd2 a2 t (mkT2 None (vpop (a2 t)))). split; [apply Inv_irrelevant; [reflexivity|exact K1]|]. split.
        { assert (K : Ext (fst (fst (body_push_top t g1))) a1 (upd2 a2 t (mkT2 None (vpop (a2 t)))) tr).
          { unfold body_push_top. change (ntag (heap g1 1)) with (cellt g1 1). change (nval (heap g1 1)) with (cellv g1 1).
            destruct (tag_eqb (cellt g1 1) (TOwner t)) eqn:Et; cbn [fst].
            - apply tag_eqb_eq in Et.
              assert (Hv : cellv g1 1 <> None) by (apply T_some; [apply (iT _ _ _ _ Hi1)|rewrite Et; discriminate]).
              destruct (cellv g1 1) as [a|] eqn:Ea; [|congruence]. apply (Ext_top g1 a1 a2 tr t a Et Ea He1).
            - apply (Ext_absurd g1 g1 a1 a2 tr t None (proj2 Hpush)); [|exact He1]. intros _ HW _.
              rewrite (W_tag g1 a2 t 1 HW ltac:(rewrite V2; reflexivity)) in Et. cbn in Et. rewrite Nat.eqb_refl in Et. discriminate. }
          apply Ext_acc; [exact Hpush|exact K]. }
        split; [split; [intros; reflexivity|intros u Hu; apply upd2_other; exact Hu]|]. split; [exact Hpush|]. intros _.
        rewrite upd2_same, Hvp, V1. apply jsafe_unlock_none; [discriminate|exact Hp|]. reflexivity.
      + assert (i = 0) by lia. subst i. reflexivity.
  Qed.

  Ltac es :=
    auto;
    try (intros; first [apply cellt_set_lockbit|apply cellv_set_lockbit]);
    try (repeat match goal with H : tvs ?b ?t = _ |- context[tvs ?b ?t] => rewrite H end;
         repeat match goal with H : ?a2 ?t = mkT2 _ _ |- context[?a2 ?t] => rewrite H end;
         cbn; first [reflexivity | intros [K|[K|K]]; congruence | congruence]).

  (** *** push *)
  Definition Qjpush (x : item) : bool -> tv * tv2 -> Prop :=
    fun b l' => Qpush x b (fst l') /\ snd l' = mkT2 None false.

  Lemma jsafe_push hf lf t x : jsafe t (push cap bsz hf lf t x) (Vpush x, mkT2 None false) (optQ2 (Qjpush x)).
  Proof.
    assert (HpV : pushing (Vpush x)) by (split; reflexivity).
    unfold push. apply jsafe_lock; [exact HpV|]. intros g a1 a2 tr Hi He V1 V2 Hfree. cbn [lockbit] in Hfree.
    pose proof (Inv_acq0 cap g a1 tr t (Vpush x) V1 eq_refl Hfree Hi) as H1. cbn [set_hs Vpush hs hand pstore pclear inop pfail] in H1.
    set (g1 := set_lockbit g 0 true) in *. set (P1 := mkTv true (Some x) None None true false) in *.
    set (b1 := updv a1 t P1) in *.
    assert (Hv1 : tvs b1 t = P1) by apply tvs_updv_same.
    assert (Hoth1 : forall u, u <> t -> tvs b1 u = tvs a1 u) by (intros u Hu; apply tvs_updv_other; exact Hu).
    assert (He1 : Ext g1 b1 a2 tr).
    { rewrite <- (app_nil_r tr). apply (Ext_same g g1 a1 b1 a2 tr [] t); es. }
    unfold body_push_size. destruct (Z.leb (Z.of_nat cap) (bc (ctr g1))) eqn:Efull.
    - (* full *)
      apply Z.leb_le in Efull. cbn [fst snd].
      pose proof (Inv_irrelevant cap g1 b1 tr t _ (acc_irrelevant KXchg (obj_lock 0) true) H1) as H2.
      pose proof (Inv_gfull cap OK g1 b1 _ t P1 Hv1 eq_refl eq_refl eq_refl Efull H2) as H3.
      set (b2 := updv b1 t (set_pfail true P1)) in *.
      assert (Hvb2 : tvs b2 t = set_pfail true P1) by apply tvs_updv_same.
      assert (Hob2 : forall u, u <> t -> tvs b2 u = tvs b1 u) by (intros u Hu; apply tvs_updv_other; exact Hu).
      exists b2, a2. split; [unfold Conc.tag; cbn [map]; rewrite snoc2; exact H3|]. split.
      { apply (Ext_same g1 g1 b1 b2 a2 tr _ t); es. }
      split; [split; [intros u Hu; unfold b2, b1; rewrite !tvs_updv_other by exact Hu; reflexivity|intros; reflexivity]|].
      split; [unfold b2; rewrite tvs_updv_same; split; reflexivity|]. intros _.
      unfold b2. rewrite tvs_updv_same, V2. cbn [set_pfail P1 hs hand pstore pclear inop pfail unbusy vb vn vi verr].
      apply jsafe_unlock. intros g2 c1 c2 tr2 Hi2 He2 W1 W2. cbn [body_none fst snd].
      pose proof (Inv_rel0 cap g2 c1 tr2 t _ W1 eq_refl eq_refl eq_refl Hi2) as H4. cbn [set_hs hs hand pstore pclear inop pfail] in H4.
      set (c1' := updv c1 t (mkTv false (Some x) None None true true)) in *.
      assert (Hvc1' : tvs c1' t = mkTv false (Some x) None None true true) by apply tvs_updv_same.
      assert (Hoc1' : forall u, u <> t -> tvs c1' u = tvs c1 u) by (intros u Hu; apply tvs_updv_other; exact Hu).
      exists c1', c2. split; [apply Inv_irrelevant; [reflexivity|exact H4]|]. split.
      { apply (Ext_same g2 _ c1 c1' c2 tr2 _ t); es. }
      split; [split; [intros u Hu; apply tvs_updv_other; exact Hu|intros; reflexivity]|].
      split; [unfold c1'; rewrite tvs_updv_same; split; reflexivity|]. intros _.
      unfold c1'. rewrite tvs_updv_same, W2. cbn. split; reflexivity.
    - (* a slot is reserved *)
      apply Z.leb_gt in Efull.
      assert (Hlt : count g1 < cap).
      { pose proof (iC _ _ _ _ H1) as [C1 C2]. unfold count in *. rewrite C1 in Efull at 1. rewrite bc_st in Efull. lia. }
      destruct (Inv_inc cap g1 b1 tr t P1 Hv1 eq_refl eq_refl eq_refl Hlt H1) as [Hslot H2].
      destruct (brc_inc (ctr g1)) as [s c'] eqn:Einc. cbn [fst snd] in *.
      set (i := slot (S (count g1))) in *. rewrite Hslot.
      assert (Ri : 1 <= i <= cap) by (apply (slot_range cap OK); lia).
      assert (Hin : Nat.ltb i bsz = true) by (apply Nat.ltb_lt; lia). rewrite Hin.
      cbn [set_pstore P1 hs hand pstore pclear inop pfail] in H2.
      set (P2 := mkTv true (Some x) (Some i) None true false) in *. set (b2 := updv b1 t P2) in *.
      assert (Hvb2 : tvs b2 t = P2) by apply tvs_updv_same.
      assert (Hob2 : forall u, u <> t -> tvs b2 u = tvs b1 u) by (intros u Hu; apply tvs_updv_other; exact Hu).
      exists b2, a2. split; [apply Inv_irrelevant; [reflexivity|exact H2]|]. split.
      { apply (Ext_same g1 _ b1 b2 a2 tr _ t); es. }
      split; [split; [intros u Hu; unfold b2, b1; rewrite !tvs_updv_other by exact Hu; reflexivity|intros; reflexivity]|].
      split; [unfold b2; rewrite tvs_updv_same; split; reflexivity|]. intros _.
      unfold b2. rewrite tvs_updv_same, V2. cbn [unbusy vb vn vi verr].
      assert (HpP2 : pushing P2) by (split; reflexivity).
      apply jsafe_lock_none; [lia|exact HpP2|].
      apply jsafe_unlock. intros g2 c1 c2 tr2 Hi2 He2 W1 W2. cbn [body_push_store fst snd].
      pose proof (Inv_store cap OK g2 c1 tr2 t _ i x W1 eq_refl eq_refl eq_refl Hi2) as H3.
      cbn [set_hand set_pstore P2 hs hand pstore pclear inop pfail] in H3.
      set (c3 := set_held _ _) in H3.
      assert (Hv3 : tvs c3 t = mkTv true None None None true false) by (subst c3; cbn; rewrite Nat.eqb_refl; reflexivity).
      assert (Hoth3 : forall u, u <> t -> tvs c3 u = tvs c1 u) by (intros u Hu; subst c3; cbn; destruct (Nat.eqb_spec u t); congruence).
      pose proof (Inv_rel0 cap _ c3 tr2 t _ Hv3 eq_refl eq_refl eq_refl H3) as H4. cbn [set_hs hs hand pstore pclear inop pfail] in H4.
      set (c4 := updv c3 t (mkTv false None None None true false)) in *.
      assert (Hvc4 : tvs c4 t = mkTv false None None None true false) by apply tvs_updv_same.
      assert (Hoc4 : forall u, u <> t -> tvs c4 u = tvs c3 u) by (intros u Hu; apply tvs_updv_other; exact Hu).
      set (d2 := upd2 c2 t (mkT2 (Some i) (vpop (c2 t)))).
      pose proof (Ext_store g2 c1 c3 c2 tr2 t i x P2 Hi2 W1 eq_refl eq_refl ltac:(rewrite W2; reflexivity) Hoth3 ltac:(rewrite Hv3; reflexivity) ltac:(rewrite Hv3; reflexivity) He2) as E3.
      fold d2 in E3.
      exists c4, d2. split; [apply Inv_irrelevant; [reflexivity|exact H4]|]. split.
      { apply (Ext_same (set_cell g2 i (TOwner t) (Some x)) _ c3 c4 d2 tr2 _ t); es. }
      split; [split; [intros u Hu; unfold c4; rewrite tvs_updv_other by exact Hu; apply Hoth3; exact Hu|intros u Hu; apply upd2_other; exact Hu]|].
      split; [unfold c4; rewrite tvs_updv_same; split; reflexivity|]. intros _.
      unfold c4, d2. rewrite tvs_updv_same, upd2_same, W2. cbn [vpop v0 verr].
      assert (HpP : pushing (mkTv false None None None true false)) by (split; reflexivity).
      apply jsafe_unlock_none; [lia|exact HpP|]. unfold obind. apply Conc.safe_bind.
      replace (Some i) with (own_of i) by (destruct i; [lia|reflexivity]).
      eapply Conc.safe_weaken; [|apply (jsafe_heapify_push lf t _ HpP)].
      intros [[]|] l' Hl'; cbn in Hl' |- *; [subst l'; split; reflexivity|exact I].
  Qed.

End Push.
