(** * DhpDetachA: smr::free_thread_data( pRec, true ) as executed by detach_thread. *)
From Coq Require Import ZArith NArith List String Bool Lia PeanoNat.
From LV Require Import Base.Conc Base.Events Model.DhpLang Model.Dhp Proofs.DhpBase Proofs.DhpHist
  Proofs.DhpLangProofs Proofs.DhpInvA Proofs.DhpStepsA Proofs.DhpQuietA Proofs.DhpSlotA Proofs.DhpScanA Proofs.DhpScanC
  Proofs.DhpScanD Proofs.DhpScanE Proofs.DhpPresA Proofs.DhpAllocA Proofs.DhpAllocB Proofs.DhpViewA Proofs.DhpRulesA
  Proofs.DhpExtendA Proofs.DhpExtendB Proofs.DhpDetB Proofs.DhpDetC Proofs.DhpAttA Proofs.DhpClearA Proofs.DhpHelpA.
Import ListNotations.

(** a thread that is attached to nothing and owns nothing (the walk pointer may hold anything) *)
Definition idle_view (nd : option nat) : VA := mkVA None None None None nd None None None None.
Definition att_view (r : nat) (nd : option nat) : VA := mkVA (Some r) None None None nd None None None None.

Section DetachA.
  Variable c : cfg.
  Notation dsafeA := (@dsafe G ev AuxA VA viewA (InvA c)).

  Lemma q_free_tail r : forall fuel p,
    quietP ((fix go (fuel : nat) (p : option nat) : P unit :=
               match p with
               | None => ret tt
               | Some b =>
                   match fuel with
                   | O => fuel_out
                   | S f =>
                       nx <- loc (fun g => (g, rb_next (grb g b))) ;;
                       rt_free c b ;;;
                       loc (fun g => (upd_rec g r (fun x => rs_ret (r_cb x) (r_cc x) (r_head x) (r_tail x) (pred (r_bcount x)) x), tt)) ;;;
                       go f nx
                   end
               end) fuel p).
  Proof.
    induction fuel as [|fuel IH]; intros [b|]; qp; try apply IH.
    apply quietP_loc. intros g. cbn. apply quietG_upd_rec. intros []; auto.
  Qed.

  Lemma spec_free_thread_data t r nd0 :
    dsafeA t (free_thread_data c r (S t) true [ev_relall; ev_det r]) (att_view r nd0)
      (fun o l' => match o with Some _ => exists nd, l' = idle_view nd | None => True end).
  Proof.
    unfold free_thread_data.
    apply dsafe_xbind. eapply dsafe_weaken; [|apply (spec_hp_clear c t r (att_view r nd0)); reflexivity].
    intros [x|] l1 K; [|exact I]. subst l1. set (l1 := view_cleared (att_view r nd0) r).
    apply dsafe_xbind. eapply dsafe_weaken; [|apply (spec_scan c t r l1); reflexivity].
    intros [y|] l2 K; [|exact I]. cbn in K. subst l2.
    apply dsafe_xbind. eapply dsafe_weaken; [|apply (spec_help_scan c t r l1); reflexivity].
    intros [z|] l2 K; [|exact I]. destruct K as (nd & ->). set (l2 := with_en l1 (va_e l1) nd).
    unfold xbind at 1. unfold loc at 1. cbn [dbind].
    apply dsafe_loc_quiet'; [intros g; apply quietG_refl|]. intros g. cbn [snd].
    apply dsafe_xbind.
    assert (Hmid : dsafeA t (if rt_empty g r then rt_fini c r ;;; act (a_st_free r true)
                             else fb <- loc (fun g0 => match r_cb (grec g0 r) with
                                                       | Some cb => let nb := rb_next (grb g0 cb) in
                                                           (match nb with
                                                            | Some _ => let g1 := upd_rb g0 cb (bs_next None) in
                                                                        if c_oldtail c then g1
                                                                        else upd_rec g1 r (fun x => rs_ret (r_cb x) (r_cc x) (r_head x) (Some cb) (r_bcount x) x)
                                                            | None => g0 end, nb)
                                                       | None => (g0, None) end) ;;
                                  (fix go (fuel : nat) (p : option nat) : P unit :=
                                     match p with
                                     | None => ret tt
                                     | Some b =>
                                         match fuel with
                                         | O => fuel_out
                                         | S f =>
                                             nx <- loc (fun g0 => (g0, rb_next (grb g0 b))) ;;
                                             rt_free c b ;;;
                                             loc (fun g0 => (upd_rec g0 r (fun x => rs_ret (r_cb x) (r_cc x) (r_head x) (r_tail x) (pred (r_bcount x)) x), tt)) ;;;
                                             go f nx
                                         end
                                     end) (c_spin c) fb) l2 (Qsame l2)).
    { apply quietP_dsafe; [|intros [u|]; cbn; auto].
      destruct (rt_empty g r).
      - apply quietP_xbind; [apply q_rt_fini|intros _; apply quietP_act, q_st_free].
      - apply quietP_xbind; [|intros fb; apply q_free_tail].
        apply quietP_loc. intros g0. destruct (r_cb (grec g0 r)) as [cb|]; [|apply quietG_refl].
        destruct (rb_next (grb g0 cb)); cbn [fst]; [|apply quietG_refl].
        destruct (c_oldtail c); [apply quietG_upd_rb|].
        eapply quietG_trans; [apply quietG_upd_rb|]. apply quietG_upd_rec. intros []; auto. }
    eapply dsafe_weaken; [|exact Hmid]. intros [u|] l3 K; [|exact I]. cbn in K. subst l3.
    unfold act. apply dsafe_act_J; [intros g2; apply nodisp_acc|]. intros g2 a2 tr2 Hv2.
    exists (upd_aux a2 t (with_hold_limbo l2 None None) (bown a2)). split; [apply frame_upd_aux|]. split.
    - intros _ J. cbn [a_st_tid fst snd Conc.tag map acc]. rewrite hist_snoc, hstep_acc.
      eapply (JA_sttid0 c g2 a2 (hist tr2) t l2 r); eauto.
    - unfold viewA. rewrite upd_aux_same. cbn. exists nd. reflexivity.
  Qed.
End DetachA.
