(** * LazyListQuiescent: the LazyList model when no thread is inside an operation.

    Invariant [InvQ] = [Inv3] (structure + LP-annotated trace of the modifying operations, LazyListLin) + two facts that
    the quiescent corollary needs:
      [Jz]: a marked node points to m_Head (unlink_node's first store writes (m_Head, marked); nothing else marks);
      [Kq]: a thread that is between the two stores of unlink_node (its view has a hole) is inside an operation.
    Both are obtained from the proof rules of LazyListLinActs without re-proving them: a rule used with the trivial
    continuation is a one-step specification; [safeQ_act] lifts it ([Jz] talks about the shared state only, [Kq] about
    the new view of the acting thread only).

    Consequence: when every invocation has its response no view has a hole, hence no node has a ghost successor,
    hence (with [Jz]) no node of the chain is marked: the physical traversal from m_Head meets exactly the logical
    chain, whose unmarked keys are the abstract set. *)
From Coq Require Import ZArith List String Bool Lia PeanoNat.
From LV Require Import Base.Conc Base.Events Base.Lin Spec.Specs Proofs.LinProofs.
From LV Require Proofs.MichaelListInv Proofs.MichaelListLin Proofs.MichaelListActs.
From LV Require Import Model.LazyList Proofs.LazyListBase Proofs.LazyListInv Proofs.LazyListSteps Proofs.LazyListActs
                       Proofs.LazyListDefs Proofs.LazyListProofs Proofs.LazyListLin Proofs.LazyListLinActs.
Import ListNotations.
Local Open Scope Z_scope.

Definition Jz (g : G) : Prop := forall n, nmark (heap g n) = true -> nnext (heap g n) = HEAD.
Definition Kq (l : lview3) : Prop := lv_hole (fst l) <> None -> snd l <> @Idle SetSpec.

Definition InvQ (g : G) (a : aux3) (tr : list (nat * ev)) : Prop :=
  Inv3 g a tr /\ Jz g /\ forall t, Kq (view3 a t).

Notation safeQ := (@Conc.safe G V ev aux3 lview3 view3 InvQ).

Lemma safeQ_act {R} t (f : act) (k : V -> prog R) l (P : V -> lview3 -> Prop) Q :
  safe3 t (Act f (fun v => Ret v)) l P ->
  (forall g, Jz g -> Jz (fst (fst (f g)))) ->
  (forall v l', P v l' -> Kq l -> Kq l') ->
  (forall v l', P v l' -> safeQ t (k v) l' Q) ->
  safeQ t (Act f k) l Q.
Proof.
  intros Hstep HJ HK Hk. cbn [Conc.safe] in *. intros g a tr (HI & Hj & Hq) Hv.
  destruct (Hstep g a tr HI Hv) as (a' & HI' & Hfr & HP).
  exists a'. split; [|split; [exact Hfr|apply Hk; exact HP]].
  split; [exact HI'|]. split; [apply HJ; exact Hj|].
  intros u. destruct (Nat.eq_dec u t) as [->|Hu].
  - eapply HK; [exact HP|]. rewrite <- Hv. apply Hq.
  - rewrite (Hfr u Hu). apply Hq.
Qed.

Lemma safeQ_emit {R} t es (k : prog R) l (P : unit -> lview3 -> Prop) Q :
  safe3 t (Emit es (Ret tt)) l P ->
  (forall l', P tt l' -> Kq l -> Kq l') ->
  (forall l', P tt l' -> safeQ t k l' Q) ->
  safeQ t (Emit es k) l Q.
Proof.
  intros Hstep HK Hk. cbn [Conc.safe] in *. intros g a tr (HI & Hj & Hq) Hv.
  destruct (Hstep g a tr HI Hv) as (a' & HI' & Hfr & HP).
  exists a'. split; [|split; [exact Hfr|apply Hk; exact HP]].
  split; [exact HI'|]. split; [exact Hj|].
  intros u. destruct (Nat.eq_dec u t) as [->|Hu].
  - eapply HK; [exact HP|]. rewrite <- Hv. apply Hq.
  - rewrite (Hfr u Hu). apply Hq.
Qed.

(** ** [Jz] and the accesses *)
Lemma Jz_same g g' : (forall x, heap g' x = heap g x) -> Jz g -> Jz g'.
Proof. intros H Hj n. rewrite H. apply Hj. Qed.

Lemma Jz_lock g n b : Jz g -> Jz (set_lock g n b).
Proof.
  intros Hj x. destruct (Nat.eq_dec x n) as [->|Hx]; [rewrite heap_set_lock_same; cbn; apply Hj|rewrite heap_set_lock_other by exact Hx; apply Hj].
Qed.

Lemma Jz_st g n p m : (m = true -> p = HEAD) -> Jz g -> Jz (set_next g n p m).
Proof.
  intros Hm Hj x. destruct (Nat.eq_dec x n) as [->|Hx]; [rewrite heap_set_next_same; cbn; exact Hm|rewrite heap_set_next_other by exact Hx; apply Hj].
Qed.

Lemma Jz_alloc g k : Jz g -> Jz (alloc_g g k).
Proof.
  intros Hj x. unfold alloc_g; cbn [heap]. unfold upd_heap. destruct (Nat.eqb x (S (nalloc g))); [cbn; discriminate|apply Hj].
Qed.

Ltac solveK := intros; unfold Kq in *; cbn [fst snd with_facts with_held lv_hole] in *;
  repeat match goal with
         | H : _ /\ _ |- _ => destruct H
         | H : _ \/ _ |- _ => destruct H
         | H : exists _, _ |- _ => destruct H
         end; subst; cbn [fst snd with_facts with_held lv_hole] in *; auto; try congruence; try discriminate.

(** ** the rules *)
Lemma safeQ_neutral {R} t f v (k : V -> prog R) l Q :
  neutral3 f v -> safeQ t (k v) l Q -> safeQ t (Act f k) l Q.
Proof.
  intros Hf Hk. eapply safeQ_act with (P := fun w l' => w = v /\ l' = l).
  - apply safe3_neutral with (v := v); [exact Hf|]. cbn [Conc.safe]. auto.
  - intros g Hj. destruct (Hf g) as (g' & kd & ob & ok & E & H1 & H2). rewrite E. cbn [fst]. eapply Jz_same; eauto.
  - solveK.
  - intros w l' [-> ->]. exact Hk.
Qed.

Lemma safeQ_ld {R} t n (k : V -> prog R) lv s Q :
  pk (lv_facts lv) n ->
  (forall v, agrees (lv_held lv) n v -> safeQ t (k v) (with_facts lv (newfacts n v ++ lv_facts lv), s) Q) ->
  safeQ t (Act (a_ld n) k) (lv, s) Q.
Proof.
  intros Hn Hk. eapply safeQ_act with (P := fun v l' => agrees (lv_held lv) n v /\ l' = (with_facts lv (newfacts n v ++ lv_facts lv), s)).
  - apply safe3_ld; [exact Hn|]. intros v Hv. cbn [Conc.safe]. auto.
  - intros g Hj. exact Hj.
  - solveK.
  - intros v l' [Hv ->]. apply Hk. exact Hv.
Qed.

Lemma safeQ_ld_held {R} t n (k : V -> prog R) lv s Q :
  holds lv n ->
  (forall v, agrees (lv_held lv) n v ->
             safeQ t (k v) (mkLV (newfacts n v ++ lv_facts lv) ((n, Some (vptr v, vmark v)) :: lv_held lv) (lv_own lv) (lv_hole lv), s) Q) ->
  safeQ t (Act (a_ld n) k) (lv, s) Q.
Proof.
  intros Hn Hk. eapply safeQ_act with
    (P := fun v l' => agrees (lv_held lv) n v /\
                      l' = (mkLV (newfacts n v ++ lv_facts lv) ((n, Some (vptr v, vmark v)) :: lv_held lv) (lv_own lv) (lv_hole lv), s)).
  - apply safe3_ld_held; [exact Hn|]. intros v Hv. cbn [Conc.safe]. auto.
  - intros g Hj. exact Hj.
  - solveK.
  - intros v l' [Hv ->]. apply Hk. exact Hv.
Qed.

Lemma safeQ_xchg {R} t n (k : V -> prog R) lv s Q :
  pk (lv_facts lv) n ->
  safeQ t (k (vok true)) (lv, s) Q ->
  (~ holds lv n -> safeQ t (k (vok false)) (with_held lv ((n, None) :: lv_held lv), s) Q) ->
  safeQ t (Act (a_xchg n) k) (lv, s) Q.
Proof.
  intros Hn Hk1 Hk0. eapply safeQ_act with
    (P := fun v l' => (v = vok true /\ l' = (lv, s)) \/ (v = vok false /\ ~ holds lv n /\ l' = (with_held lv ((n, None) :: lv_held lv), s))).
  - apply safe3_xchg; [exact Hn| |]; cbn [Conc.safe]; auto.
  - intros g Hj. unfold a_xchg. cbn [fst]. apply Jz_lock. exact Hj.
  - solveK.
  - intros v l' [[-> ->]|(-> & Hh & ->)]; auto.
Qed.

Lemma safeQ_ldlock {R} t n (k : V -> prog R) l Q :
  (forall b, safeQ t (k (vok b)) l Q) -> safeQ t (Act (a_ldlock n) k) l Q.
Proof.
  intros Hk. eapply safeQ_act with (P := fun v l' => (exists b, v = vok b) /\ l' = l).
  - apply safe3_ldlock. intros b. cbn [Conc.safe]. eauto.
  - intros g Hj. exact Hj.
  - solveK.
  - intros v l' [[b ->] ->]. apply Hk.
Qed.

Lemma safeQ_unlock {R} t n (k : V -> prog R) lv s Q :
  holds lv n -> lv_hole lv = None ->
  safeQ t (k v0) (with_held lv (release (lv_held lv) n), s) Q ->
  safeQ t (Act (a_unlock n) k) (lv, s) Q.
Proof.
  intros Hn Hh Hk. eapply safeQ_act with (P := fun v l' => v = v0 /\ l' = (with_held lv (release (lv_held lv) n), s)).
  - apply safe3_unlock; auto. cbn [Conc.safe]. auto.
  - intros g Hj. unfold a_unlock. cbn [fst]. apply Jz_lock. exact Hj.
  - solveK.
  - intros v l' [-> ->]. exact Hk.
Qed.

Lemma safeQ_alloc {R} t kk (k : V -> prog R) lv s Q :
  (forall n, safeQ t (k (mkV n false kk)) (mkLV (lv_facts lv) (lv_held lv) (Some (n, kk, 0%nat)) (lv_hole lv), s) Q) ->
  safeQ t (Act (a_alloc kk) k) (lv, s) Q.
Proof.
  intros Hk. eapply safeQ_act with
    (P := fun v l' => exists n, v = mkV n false kk /\ l' = (mkLV (lv_facts lv) (lv_held lv) (Some (n, kk, 0%nat)) (lv_hole lv), s)).
  - apply safe3_alloc. intros n. cbn [Conc.safe]. eauto.
  - intros g Hj. unfold a_alloc. cbn [fst].
    change (mkG (upd_heap (heap g) (S (nalloc g)) (mkNode kk 0 false false)) (S (nalloc g)) (count g)) with (alloc_g g kk).
    apply Jz_alloc. exact Hj.
  - solveK.
  - intros v l' (n & -> & ->). apply Hk.
Qed.

Lemma safeQ_st_own {R} t n kk nx p (k : V -> prog R) lv s Q :
  lv_own lv = Some (n, kk, nx) ->
  safeQ t (k v0) (mkLV (lv_facts lv) (lv_held lv) (Some (n, kk, p)) (lv_hole lv), s) Q ->
  safeQ t (Act (a_st n p false) k) (lv, s) Q.
Proof.
  intros Hown Hk. eapply safeQ_act with (P := fun v l' => v = v0 /\ l' = (mkLV (lv_facts lv) (lv_held lv) (Some (n, kk, p)) (lv_hole lv), s)).
  - eapply safe3_st_own; [exact Hown|]. cbn [Conc.safe]. auto.
  - intros g Hj. unfold a_st. cbn [fst]. apply Jz_st; [discriminate|exact Hj].
  - solveK.
  - intros v l' [-> ->]. exact Hk.
Qed.

Lemma safeQ_st_link {R} t m n kk pc o (k : V -> prog R) lv Q :
  In (m, Some (pc, false)) (lv_held lv) -> lv_own lv = Some (n, kk, pc) -> lv_hole lv = None ->
  klt (lv_facts lv) m kk -> kgt (lv_facts lv) pc kk -> ins_op o kk ->
  safeQ t (k v0) (mkLV (FPub n kk :: lv_facts lv) (set_obs (lv_held lv) m (n, false)) None None, @Linearized SetSpec o (ins_res o)) Q ->
  safeQ t (Act (a_st m n false) k) (lv, @Pending SetSpec o) Q.
Proof.
  intros H1 H2 H3 H4 H5 H6 Hk. eapply safeQ_act with
    (P := fun v l' => v = v0 /\ l' = (mkLV (FPub n kk :: lv_facts lv) (set_obs (lv_held lv) m (n, false)) None None, @Linearized SetSpec o (ins_res o))).
  - eapply safe3_st_link; eauto. cbn [Conc.safe]. auto.
  - intros g Hj. unfold a_st. cbn [fst]. apply Jz_st; [discriminate|exact Hj].
  - solveK.
  - intros v l' [-> ->]. exact Hk.
Qed.

Lemma safeQ_st_mark {R} t p c nx kc (k : V -> prog R) lv Q :
  In (p, Some (c, false)) (lv_held lv) -> In (c, Some (nx, false)) (lv_held lv) ->
  In (FPub c kc) (lv_facts lv) -> lv_hole lv = None ->
  safeQ t (k v0) (mkLV (lv_facts lv) (set_obs (lv_held lv) c (HEAD, true)) (lv_own lv) (Some (p, c, nx)),
                 @Linearized SetSpec (SErase kc) (RBool true)) Q ->
  safeQ t (Act (a_st c HEAD true) k) (lv, @Pending SetSpec (SErase kc)) Q.
Proof.
  intros H1 H2 H3 H4 Hk. eapply safeQ_act with
    (P := fun v l' => v = v0 /\ l' = (mkLV (lv_facts lv) (set_obs (lv_held lv) c (HEAD, true)) (lv_own lv) (Some (p, c, nx)),
                                      @Linearized SetSpec (SErase kc) (RBool true))).
  - eapply safe3_st_mark; eauto. cbn [Conc.safe]. auto.
  - intros g Hj. unfold a_st. cbn [fst]. apply Jz_st; [reflexivity|exact Hj].
  - solveK.
  - intros v l' [-> ->]. exact Hk.
Qed.

Lemma safeQ_st_bypass {R} t p c nx (k : V -> prog R) lv s Q :
  lv_hole lv = Some (p, c, nx) ->
  safeQ t (k v0) (mkLV (lv_facts lv) (set_obs (lv_held lv) p (nx, false)) (lv_own lv) None, s) Q ->
  safeQ t (Act (a_st p nx false) k) (lv, s) Q.
Proof.
  intros Hh Hk. eapply safeQ_act with
    (P := fun v l' => v = v0 /\ l' = (mkLV (lv_facts lv) (set_obs (lv_held lv) p (nx, false)) (lv_own lv) None, s)).
  - eapply safe3_st_bypass; [exact Hh|]. cbn [Conc.safe]. auto.
  - intros g Hj. unfold a_st. cbn [fst]. apply Jz_st; [discriminate|exact Hj].
  - solveK.
  - intros v l' [-> ->]. exact Hk.
Qed.

Lemma safeQ_emit_other {R} t name args (k : prog R) lv s Q :
  String.eqb name "inv" = false -> String.eqb name "ret" = false ->
  safeQ t k (lv, s) Q -> safeQ t (Emit [EvCli name args] k) (lv, s) Q.
Proof.
  intros N1 N2 Hk. eapply safeQ_emit with (P := fun _ l' => l' = (lv, s)).
  - apply safe3_emit_other; auto. cbn [Conc.safe]. reflexivity.
  - solveK.
  - intros l' ->. exact Hk.
Qed.

Lemma safeQ_emit_inv {R} t c kk x v (k : prog R) lv Q :
  safeQ t k (lv, @Pending SetSpec (spec_op c kk x)) Q ->
  safeQ t (Emit [EvCli "inv" [c; kk; x; v]] k) (lv, @Idle SetSpec) Q.
Proof.
  intros Hk. eapply safeQ_emit with (P := fun _ l' => l' = (lv, @Pending SetSpec (spec_op c kk x))).
  - apply safe3_emit_inv. cbn [Conc.safe]. reflexivity.
  - solveK.
  - intros l' ->. exact Hk.
Qed.

Lemma safeQ_emit_ret_lin {R} t o r a1 b1 (k : prog R) lv Q :
  lv_hole lv = None ->
  res_of o a1 b1 = r -> is_read o r = false ->
  safeQ t k (lv, @Idle SetSpec) Q ->
  safeQ t (Emit [EvCli "ret" [a1; b1]] k) (lv, @Linearized SetSpec o r) Q.
Proof.
  intros Hh Hr Hrd Hk. eapply safeQ_emit with (P := fun _ l' => l' = (lv, @Idle SetSpec)).
  - eapply safe3_emit_ret_lin; eauto. cbn [Conc.safe]. reflexivity.
  - solveK.
  - intros l' ->. exact Hk.
Qed.

Lemma safeQ_emit_ret_read {R} t o a1 b1 (k : prog R) lv Q :
  lv_hole lv = None ->
  is_read o (res_of o a1 b1) = true ->
  safeQ t k (lv, @Idle SetSpec) Q ->
  safeQ t (Emit [EvCli "ret" [a1; b1]] k) (lv, @Pending SetSpec o) Q.
Proof.
  intros Hh Hrd Hk. eapply safeQ_emit with (P := fun _ l' => l' = (lv, @Idle SetSpec)).
  - eapply safe3_emit_ret_read; eauto. cbn [Conc.safe]. reflexivity.
  - solveK.
  - intros l' ->. exact Hk.
Qed.

(** ** the operations are [Conc.safe] for [InvQ] (the proofs of LazyListLinProofs, with the rules above) *)
From LV Require Import Proofs.LazyListLinProofs.
Notation "x <- p ;; q" := (Conc.bind p (fun x => q)) (at level 61, p at next level, right associativity).

(** ** plumbing *)
Lemma safeQ_nop2 {R} t k1 o1 k2 o2 (p : prog R) l Q :
  safeQ t p l Q -> safeQ t (Act (a_nop k1 o1) (fun _ => Act (a_nop k2 o2) (fun _ => p))) l Q.
Proof. intros H. apply safeQ_neutral with (v := v0); [apply neutral3_nop|]. apply safeQ_neutral with (v := v0); [apply neutral3_nop|]. exact H. Qed.

Lemma safeQ_assign_guard t s l (Q : unit -> lview3 -> Prop) : Q tt l -> safeQ t (assign_guard t s) l Q.
Proof. intros H. unfold assign_guard. apply safeQ_nop2. exact H. Qed.
Lemma safeQ_copy_guard t d s l (Q : unit -> lview3 -> Prop) : Q tt l -> safeQ t (copy_guard t d s) l Q.
Proof. intros H. unfold copy_guard. apply safeQ_neutral with (v := v0); [apply neutral3_nop|]. apply safeQ_assign_guard. exact H. Qed.
Lemma safeQ_retire t l (Q : unit -> lview3 -> Prop) : Q tt l -> safeQ t (retire t) l Q.
Proof. intros H. unfold retire. apply safeQ_nop2. exact H. Qed.
Lemma safeQ_use_guarded t s l (Q : unit -> lview3 -> Prop) : Q tt l -> safeQ t (use_guarded t s) l Q.
Proof. intros H. unfold use_guarded. apply safeQ_nop2. exact H. Qed.
Lemma safeQ_cnt_inc ic l t (Q : unit -> lview3 -> Prop) : Q tt l -> safeQ t (cnt_inc ic) l Q.
Proof. intros H. unfold cnt_inc. destruct ic; [|exact H]. apply safeQ_neutral with (v := v0); [apply neutral3_cnt|]. exact H. Qed.
Lemma safeQ_cnt_dec ic l t (Q : unit -> lview3 -> Prop) : Q tt l -> safeQ t (cnt_dec ic) l Q.
Proof. intros H. unfold cnt_dec. destruct ic; [|exact H]. apply safeQ_neutral with (v := v0); [apply neutral3_cnt|]. exact H. Qed.
Lemma safeQ_free_guards t gs : forall fr l (Q : list nat -> lview3 -> Prop),
  (forall fr', Q fr' l) -> safeQ t (free_guards t gs fr) l Q.
Proof.
  induction gs as [|s gs IH]; intros fr l Q H; cbn [free_guards]; [apply H|].
  apply safeQ_neutral with (v := v0); [apply neutral3_nop|]. apply IH. exact H.
Qed.

(** ** protect *)
Lemma safeQ_protect fuel : forall t s l lv (z : st) (Q : option V -> lview3 -> Prop),
  pk (lv_facts lv) l ->
  (forall F', incl (lv_facts lv) F' -> Q None (with_facts lv F', z)) ->
  (forall v F', incl (lv_facts lv) F' -> incl (newfacts l v) F' -> Q (Some v) (with_facts lv F', z)) ->
  safeQ t (protect fuel t s l) (lv, z) Q.
Proof.
  induction fuel as [|f IH]; intros t s l lv z Q Hp HN HS; cbn [protect].
  - cbn [Conc.safe]. destruct lv. apply (HN lv_facts). apply incl_refl.
  - apply safeQ_ld; [exact Hp|]. intros v _.
    apply safeQ_neutral with (v := v0); [apply neutral3_nop|]. apply safeQ_neutral with (v := v0); [apply neutral3_nop|].
    apply safeQ_ld; [eapply pk_incl; [|exact Hp]; apply incl_app_r'|]. intros v' _.
    set (F2 := newfacts l v' ++ newfacts l v ++ lv_facts lv).
    assert (I0 : incl (lv_facts lv) F2) by (unfold F2; apply incl_appr; apply incl_app_r').
    destruct (veqb v v').
    + cbn [Conc.safe]. apply (HS v F2); auto. unfold F2. apply incl_appr. apply incl_appl. apply incl_refl.
    + change (safeQ t (protect f t s l) (with_facts lv F2, z) Q). apply IH.
      * eapply pk_incl; eauto.
      * intros F' HF. cbn [with_facts lv_facts] in HF. apply (HN F'). eapply incl_tran; eauto.
      * intros w F' HF HF'. cbn [with_facts lv_facts] in HF. apply (HS w F'); auto. eapply incl_tran; eauto.
Qed.

(** ** search *)
Lemma safeQ_search fuel : forall t g0 g1 k pPrev pCur lv (z : st) (Q : option (nat * V) -> lview3 -> Prop),
  klt (lv_facts lv) pPrev k -> cur_ok (lv_facts lv) pCur ->
  (forall F', incl (lv_facts lv) F' -> Q None (with_facts lv F', z)) ->
  (forall F' pp pc, incl (lv_facts lv) F' -> found_ok F' k pp pc -> Q (Some (pp, pc)) (with_facts lv F', z)) ->
  safeQ t (search fuel t g0 g1 k pPrev pCur) (lv, z) Q.
Proof.
  induction fuel as [|f IH]; intros t g0 g1 k pPrev pCur lv z Q Hkl Hcur HN HS; cbn [search].
  - cbn [Conc.safe]. destruct lv. apply (HN lv_facts). apply incl_refl.
  - destruct (Nat.eqb_spec (vptr pCur) TAIL) as [ET|ET].
    { cbn [Conc.safe]. destruct lv as [F H o h]. apply (HS F pPrev pCur); [apply incl_refl|]. split; auto. }
    destruct (negb (Nat.eqb (vptr pCur) HEAD) && Z.leb k (vkey pCur)) eqn:Estop.
    { cbn [Conc.safe]. destruct lv as [F H o h]. apply (HS F pPrev pCur); [apply incl_refl|]. split; auto.
      apply andb_true_iff in Estop. destruct Estop as [E1 E2]. apply negb_true_iff, Nat.eqb_neq in E1. apply Z.leb_le in E2.
      right. destruct Hcur as [Hc|[Hc|Hc]]; try contradiction. auto. }
    assert (Hkl' : klt (lv_facts lv) (vptr pCur) k).
    { apply andb_false_iff in Estop. destruct Estop as [E|E].
      - apply negb_false_iff, Nat.eqb_eq in E. left. exact E.
      - apply Z.leb_gt in E. destruct Hcur as [Hc|[Hc|Hc]]; [left; exact Hc|contradiction|]. right. exists (vkey pCur). auto. }
    apply Conc.safe_bind. apply safeQ_copy_guard.
    apply Conc.safe_bind. apply safeQ_protect; [apply cur_pk; exact Hcur|..].
    + intros F' HF. cbn [Conc.safe]. apply HN. exact HF.
    + intros nx F1 HF1 HN1. cbn beta iota. destruct (vmark nx).
      * change (safeQ t (search f t g0 g1 k HEAD (mkV HEAD false 0)) (with_facts lv F1, z) Q). apply IH.
        -- left. reflexivity.
        -- left. reflexivity.
        -- intros F' HF. cbn [with_facts lv_facts] in HF. apply HN. eapply incl_tran; eauto.
        -- intros F' pp pc HF Hf. cbn [with_facts lv_facts] in HF. apply HS; auto. eapply incl_tran; eauto.
      * change (safeQ t (search f t g0 g1 k (vptr pCur) nx) (with_facts lv F1, z) Q). apply IH.
        -- eapply klt_incl; [exact HF1|exact Hkl'].
        -- eapply (newfacts_cur (vptr pCur)); [exact ET|exact HN1].
        -- intros F' HF. cbn [with_facts lv_facts] in HF. apply HN. eapply incl_tran; eauto.
        -- intros F' pp pc HF Hf. cbn [with_facts lv_facts] in HF. apply HS; auto. eapply incl_tran; eauto.
Qed.

(** ** spin locks *)
Lemma safeQ_lock_loops fuel : forall t n lv (z : st) (Q : bool -> lview3 -> Prop),
  pk (lv_facts lv) n ->
  (~ holds lv n -> Q true (with_held lv ((n, None) :: lv_held lv), z)) -> Q false (lv, z) ->
  safeQ t (lock_outer fuel n) (lv, z) Q /\ safeQ t (lock_inner fuel n) (lv, z) Q.
Proof.
  induction fuel as [|f IH]; intros t n lv z Q Hn HT HF; split; cbn [lock_outer lock_inner]; try (cbn [Conc.safe]; exact HF).
  - apply safeQ_xchg; [exact Hn| |].
    + cbn [vmark vok]. apply IH; auto.
    + intros Hfree. cbn [vmark vok Conc.safe]. apply HT. exact Hfree.
  - apply safeQ_ldlock. intros b. cbn [vmark vok]. destruct b; apply IH; auto.
Qed.

Lemma safeQ_lock_outer fuel t n lv (z : st) (Q : bool -> lview3 -> Prop) :
  pk (lv_facts lv) n ->
  (~ holds lv n -> Q true (with_held lv ((n, None) :: lv_held lv), z)) -> Q false (lv, z) ->
  safeQ t (lock_outer fuel n) (lv, z) Q.
Proof. intros. apply safeQ_lock_loops; auto. Qed.

Lemma safeQ_unlock' t n lv (z : st) (Q : unit -> lview3 -> Prop) :
  holds lv n -> lv_hole lv = None -> Q tt (with_held lv (release (lv_held lv) n), z) -> safeQ t (unlock n) (lv, z) Q.
Proof. intros H1 H2 H3. unfold unlock. apply safeQ_unlock; auto. Qed.

Lemma safeQ_unlock_pos t p c lv (z : st) (Q : unit -> lview3 -> Prop) :
  holds lv p -> holds lv c -> p <> c -> lv_hole lv = None ->
  Q tt (with_held lv (release (release (lv_held lv) c) p), z) -> safeQ t (unlock_pos p c) (lv, z) Q.
Proof.
  intros Hp Hc Hpc Hh HQ. unfold unlock_pos. apply Conc.safe_bind. apply safeQ_unlock'; auto.
  apply safeQ_unlock'; auto. destruct Hp as [o Ho]. exists o. cbn. apply release_in. auto.
Qed.

Lemma safeQ_validate t p c lv (z : st) (Q : bool -> lview3 -> Prop) :
  holds lv p -> holds lv c ->
  (forall F' H', incl (lv_facts lv) F' -> incl (lv_held lv) H' -> Q false (mkLV F' H' (lv_own lv) (lv_hole lv), z)) ->
  (forall F' H' x, incl (lv_facts lv) F' -> incl (lv_held lv) H' -> In (p, Some (c, false)) H' -> In (c, Some (x, false)) H' ->
        Q true (mkLV F' H' (lv_own lv) (lv_hole lv), z)) ->
  safeQ t (validate p c) (lv, z) Q.
Proof.
  intros Hp Hc HF HT. unfold validate.
  apply safeQ_ld_held; [exact Hp|]. intros v1 _. destruct (vmark v1).
  { cbn [Conc.safe]. apply HF; [apply incl_app_r'|apply incl_tl; apply incl_refl]. }
  apply safeQ_ld_held; [destruct Hc as [o Ho]; exists o; right; exact Ho|]. intros v2 _. cbn [lv_facts lv_held lv_own lv_hole].
  destruct (vmark v2) eqn:E2.
  { cbn [Conc.safe]. apply HF; [apply incl_appr; apply incl_app_r'|do 2 apply incl_tl; apply incl_refl]. }
  apply safeQ_ld_held; [destruct Hp as [o Ho]; exists o; right; right; exact Ho|]. intros v3 _. cbn [lv_facts lv_held lv_own lv_hole Conc.safe].
  destruct (Nat.eqb_spec (vptr v3) c) as [E3|E3]; cbn [andb].
  - destruct (vmark v3) eqn:E4; cbn [negb].
    + apply HF; [do 2 apply incl_appr; apply incl_app_r'|do 3 apply incl_tl; apply incl_refl].
    + apply (HT _ _ (vptr v2)); [do 2 apply incl_appr; apply incl_app_r'|do 3 apply incl_tl; apply incl_refl| |].
      * left. rewrite E3. reflexivity.
      * right. left. reflexivity.
  - apply HF; [do 2 apply incl_appr; apply incl_app_r'|do 3 apply incl_tl; apply incl_refl].
Qed.

Lemma safeQ_lock_pos fuel t p c lv (z : st) (Q : bool -> lview3 -> Prop) :
  pk (lv_facts lv) p -> pk (lv_facts lv) c ->
  (p <> c -> Q true (with_held lv ((c, None) :: (p, None) :: lv_held lv), z)) ->
  (forall H', Q false (with_held lv H', z)) ->
  safeQ t (lock_pos fuel p c) (lv, z) Q.
Proof.
  intros Hp Hc HT HF. unfold lock_pos. apply Conc.safe_bind. apply safeQ_lock_outer; [exact Hp| |].
  - intros _. apply safeQ_lock_outer; [exact Hc| |].
    + intros Hfree. cbn [with_held lv_facts lv_held lv_own lv_hole]. apply HT.
      intros ->. apply Hfree. exists None. left. reflexivity.
    + cbn [Conc.safe]. apply (HF ((p, None) :: lv_held lv)).
  - cbn [Conc.safe]. destruct lv as [F H o h]. apply (HF H).
Qed.

(** ** the critical sections *)
Lemma safeQ_section {R} t sf pp pc k (body : prog (option R)) (retry : prog (option R)) lv (z : st) (Q : option R -> lview3 -> Prop) :
  found_ok (lv_facts lv) k pp pc -> lv_hole lv = None -> QNone Q ->
  (forall F' H' x, incl (lv_facts lv) F' -> pp <> vptr pc ->
        In (pp, Some (vptr pc, false)) H' -> In (vptr pc, Some (x, false)) H' ->
        safeQ t body (mkLV F' H' (lv_own lv) None, z) Q) ->
  (forall F' H', incl (lv_facts lv) F' -> safeQ t retry (mkLV F' H' (lv_own lv) None, z) Q) ->
  safeQ t (lk <- lock_pos sf pp (vptr pc) ;;
          if negb lk then Ret None
          else ok <- validate pp (vptr pc) ;;
               if ok then body else (_ <- unlock_pos pp (vptr pc) ;; retry)) (lv, z) Q.
Proof.
  intros Hf Hh HQ Hbody Hretry. destruct (found_pk _ _ _ _ Hf) as [Hp Hc].
  apply Conc.safe_bind. apply safeQ_lock_pos; auto.
  - intros Hpc. cbn [negb]. apply Conc.safe_bind. apply safeQ_validate.
    + exists None. right. left. reflexivity.
    + exists None. left. reflexivity.
    + intros F' H' HF HH. cbn [with_held lv_facts lv_held lv_own lv_hole] in *.
      apply Conc.safe_bind. apply safeQ_unlock_pos; cbn [lv_held lv_hole]; auto.
      * exists None. apply HH. right. left. reflexivity.
      * exists None. apply HH. left. reflexivity.
      * cbn [with_held lv_facts lv_held lv_own lv_hole]. rewrite Hh. apply Hretry. exact HF.
    + intros F' H' x HF HH H1 H2. cbn [with_held lv_facts lv_held lv_own lv_hole] in *. rewrite Hh. eapply Hbody; eauto.
  - intros H'. cbn [negb Conc.safe]. apply HQ.
Qed.

(** ** the operation loops *)
Lemma safeQ_insert_loop fuel : forall sf ic withf t g0 g1 k n nx lv o (Q : out bool -> lview3 -> Prop),
  lv_own lv = Some (n, k, nx) -> lv_hole lv = None -> ins_op o k -> QNone Q ->
  (forall b lv', lv_hole lv' = None -> Q (Some b) (lv', lin_if b o (ins_res o))) ->
  safeQ t (insert_loop fuel sf ic withf t g0 g1 k n) (lv, @Pending SetSpec o) Q.
Proof.
  induction fuel as [|f IH]; intros sf ic withf t g0 g1 k n nx lv o Q Hown Hh Hop HQN HQ; cbn [insert_loop].
  - cbn [Conc.safe]. apply HQN.
  - apply Conc.safe_bind. unfold search_from_head. apply safeQ_search; [left; reflexivity|left; reflexivity|..].
    + intros F' _. cbn [Conc.safe]. apply HQN.
    + intros F' pp pc HF Hf. cbn beta iota.
      apply (safeQ_section t sf pp pc k); auto.
      * intros F2 H2 x HF2 Hpc Hp Hc. cbn [with_facts lv_facts lv_own] in *. rewrite Hown.
        destruct (is_key pc k) eqn:Ek.
        -- apply Conc.safe_bind. apply safeQ_unlock_pos; [eexists; exact Hp|eexists; exact Hc|exact Hpc|reflexivity|].
           cbn [Conc.safe]. apply (HQ false). reflexivity.
        -- unfold link_node. apply Conc.safe_bind.
           eapply safeQ_st_own; [reflexivity|]. cbn [lv_facts lv_held lv_own lv_hole].
           eapply safeQ_st_link with (kk := k) (pc := vptr pc); cbn [lv_facts lv_held lv_own lv_hole]; auto.
           ++ eapply klt_incl; [exact HF2|]. apply Hf.
           ++ eapply kgt_incl; [exact HF2|]. eapply found_kgt; eauto.
           ++ cbn [Conc.safe].
              assert (Hu : forall (Q' : unit -> lview3 -> Prop) lvx z, lv_held lvx = set_obs H2 pp (n, false) -> lv_hole lvx = None ->
                           Q' tt (with_held lvx (release (release (lv_held lvx) (vptr pc)) pp), z) -> safeQ t (unlock_pos pp (vptr pc)) (lvx, z) Q').
              { intros Q' lvx z E1 E2 HQ'. apply safeQ_unlock_pos; auto; unfold holds; rewrite E1; eapply holds_set_obs; eauto. }
              destruct withf.
              ** apply safeQ_emit_other; [reflexivity|reflexivity|]. apply Conc.safe_bind. apply Hu; [reflexivity|reflexivity|].
                 apply Conc.safe_bind. apply safeQ_cnt_inc. cbn [Conc.safe]. apply (HQ true). reflexivity.
              ** apply Conc.safe_bind. apply Hu; [reflexivity|reflexivity|].
                 apply Conc.safe_bind. apply safeQ_cnt_inc. cbn [Conc.safe]. apply (HQ true). reflexivity.
      * intros F2 H2 HF2. cbn [with_facts lv_own]. eapply IH; eauto.
Qed.

Lemma safeQ_update_loop fuel : forall sf ic allow t g0 g1 k n nx lv (Q : out (bool * bool) -> lview3 -> Prop),
  lv_own lv = Some (n, k, nx) -> lv_hole lv = None -> QNone Q ->
  (forall lv', lv_hole lv' = None -> Q (Some (true, true)) (lv', @Linearized SetSpec (SUpdate k allow) (RPair true true))) ->
  (forall a lv', lv_hole lv' = None -> Q (Some (a, false)) (lv', @Pending SetSpec (SUpdate k allow))) ->
  safeQ t (update_loop fuel sf ic allow t g0 g1 k n) (lv, @Pending SetSpec (SUpdate k allow)) Q.
Proof.
  induction fuel as [|f IH]; intros sf ic allow t g0 g1 k n nx lv Q Hown Hh HQN HQT HQF; cbn [update_loop].
  - cbn [Conc.safe]. apply HQN.
  - apply Conc.safe_bind. unfold search_from_head. apply safeQ_search; [left; reflexivity|left; reflexivity|..].
    + intros F' _. cbn [Conc.safe]. apply HQN.
    + intros F' pp pc HF Hf. cbn beta iota.
      apply (safeQ_section t sf pp pc k); auto.
      * intros F2 H2 x HF2 Hpc Hp Hc. cbn [with_facts lv_facts lv_own] in *. rewrite Hown.
        destruct (is_key pc k) eqn:Ek.
        -- apply safeQ_emit_other; [reflexivity|reflexivity|].
           apply Conc.safe_bind. apply safeQ_unlock_pos; [eexists; exact Hp|eexists; exact Hc|exact Hpc|reflexivity|].
           cbn [Conc.safe]. apply HQF. reflexivity.
        -- destruct allow; cbn [negb].
           ++ unfold link_node. apply Conc.safe_bind.
              eapply safeQ_st_own; [reflexivity|]. cbn [lv_facts lv_held lv_own lv_hole].
              eapply safeQ_st_link with (kk := k) (pc := vptr pc); cbn [lv_facts lv_held lv_own lv_hole]; auto.
              ** eapply klt_incl; [exact HF2|]. apply Hf.
              ** eapply kgt_incl; [exact HF2|]. eapply found_kgt; eauto.
              ** right. reflexivity.
              ** cbn [Conc.safe]. apply safeQ_emit_other; [reflexivity|reflexivity|]. apply Conc.safe_bind.
                 apply safeQ_unlock_pos; auto; try (unfold holds; cbn [lv_held]; eapply holds_set_obs; eauto).
                 apply Conc.safe_bind. apply safeQ_cnt_inc. cbn [Conc.safe]. apply HQT. reflexivity.
           ++ apply Conc.safe_bind. apply safeQ_unlock_pos; [eexists; exact Hp|eexists; exact Hc|exact Hpc|reflexivity|].
              cbn [Conc.safe]. apply HQF. reflexivity.
      * intros F2 H2 HF2. cbn [with_facts lv_own]. eapply IH; eauto.
Qed.

Lemma safeQ_erase_loop fuel : forall sf ic code mine t g0 g1 k lv (Q : out bool -> lview3 -> Prop),
  lv_hole lv = None -> QNone Q ->
  (forall b lv', lv_hole lv' = None -> Q (Some b) (lv', lin_if b (SErase k) (RBool true))) ->
  safeQ t (erase_loop fuel sf ic code mine t g0 g1 k) (lv, @Pending SetSpec (SErase k)) Q.
Proof.
  induction fuel as [|f IH]; intros sf ic code mine t g0 g1 k lv Q Hh HQN HQ; cbn [erase_loop].
  - cbn [Conc.safe]. apply HQN.
  - apply Conc.safe_bind. unfold search_from_head. apply safeQ_search; [left; reflexivity|left; reflexivity|..].
    + intros F' _. cbn [Conc.safe]. apply HQN.
    + intros F' pp pc HF Hf. cbn beta iota.
      apply (safeQ_section t sf pp pc k); auto.
      * intros F2 H2 x HF2 Hpc Hp Hc. cbn [with_facts lv_facts lv_own] in *.
        destruct (is_key pc k && (negb (Z.eqb code 6) || Nat.eqb (vptr pc) mine)) eqn:Ek.
        -- apply andb_true_iff in Ek. destruct Ek as [Ek _].
           pose proof (found_key _ _ _ _ Hf Ek) as Hfk.
           assert (Ekk : vkey pc = k).
           { unfold is_key in Ek. apply andb_true_iff in Ek. destruct Ek as [_ Ek]. apply Z.eqb_eq in Ek. exact Ek. }
           unfold unlink_node. apply Conc.safe_bind.
           apply safeQ_ld_held; [exists (Some (x, false)); exact Hc|]. intros v Hag. cbn [lv_facts lv_held lv_own lv_hole].
           destruct (Hag x false Hc) as [Ev1 Ev2].
           eapply safeQ_st_mark with (p := pp) (nx := vptr v) (kc := k); cbn [lv_facts lv_held lv_own lv_hole].
           ++ right. exact Hp.
           ++ left. rewrite Ev2. reflexivity.
           ++ apply in_or_app. right. apply HF2. rewrite <- Ekk. exact Hfk.
           ++ reflexivity.
           ++ eapply safeQ_st_bypass; cbn [lv_facts lv_held lv_own lv_hole]; [reflexivity|].
              cbn [Conc.safe].
              set (H3 := set_obs (set_obs ((vptr pc, Some (vptr v, vmark v)) :: H2) (vptr pc) (HEAD, true)) pp (vptr v, false)).
              assert (Hu : forall (Q' : unit -> lview3 -> Prop) lvx z, lv_held lvx = H3 -> lv_hole lvx = None ->
                           Q' tt (with_held lvx (release (release (lv_held lvx) (vptr pc)) pp), z) -> safeQ t (unlock_pos pp (vptr pc)) (lvx, z) Q').
              { intros Q' lvx z E1 E2 HQ'. apply safeQ_unlock_pos; auto; unfold holds; rewrite E1; unfold H3.
                - apply set_obs_holds. apply set_obs_holds. exists (Some (vptr pc, false)). right. exact Hp.
                - apply set_obs_holds. apply set_obs_holds. eexists. left. reflexivity. }
              destruct (Z.eqb code 5).
              ** apply safeQ_emit_other; [reflexivity|reflexivity|]. apply Conc.safe_bind. apply Hu; [reflexivity|reflexivity|].
                 apply Conc.safe_bind. apply safeQ_cnt_dec. apply Conc.safe_bind. apply safeQ_retire. cbn [Conc.safe]. apply (HQ true). reflexivity.
              ** apply Conc.safe_bind. apply Hu; [reflexivity|reflexivity|].
                 apply Conc.safe_bind. apply safeQ_cnt_dec. apply Conc.safe_bind. apply safeQ_retire. cbn [Conc.safe]. apply (HQ true). reflexivity.
        -- apply Conc.safe_bind. apply safeQ_unlock_pos; [eexists; exact Hp|eexists; exact Hc|exact Hpc|reflexivity|].
           cbn [Conc.safe]. apply (HQ false). reflexivity.
Qed.

(** ** one client operation *)
Lemma safeQ_give_up t l (Q : out lstate -> lview3 -> Prop) : QNone Q -> safeQ t give_up l Q.
Proof. intros HQ. destruct l as [lv z]. unfold give_up. apply safeQ_emit_other; [reflexivity|reflexivity|]. cbn [Conc.safe]. apply HQ. Qed.

Lemma safeQ_finish t gs fr (k : list nat -> prog (out lstate)) l (Q : out lstate -> lview3 -> Prop) :
  (forall fr', safeQ t (k fr') l Q) -> safeQ t (fr2 <- free_guards t gs fr ;; k fr2) l Q.
Proof. intros H. apply Conc.safe_bind. apply safeQ_free_guards. exact H. Qed.

Lemma safeQ_run_op fuel sf ic t o ls lv (Q : out lstate -> lview3 -> Prop) :
  lv_hole lv = None -> Qop Q -> safeQ t (run_op fuel sf ic t o ls) (lv, @Idle SetSpec) Q.
Proof.
  intros Hh [HQN HQ]. unfold run_op.
  set (code := nth 0 o 0). set (k := nth 1 o 0). set (x := nth 2 o 0).
  destruct ls as [fr own]. destruct (alloc2 fr) as [[g0 g1] fr1].
  destruct (Z.leb 1 code && Z.leb code 10); [|cbn [Conc.safe]; apply HQ; exact Hh].
  unfold ev_inv. fold code k x. apply safeQ_emit_inv.
  (* returning a result that was fixed at the linearization point / a result of an operation that did not modify *)
  assert (HretL : forall (r : lstate) op res a1 b1 lv', lv_hole lv' = None -> res_of op a1 b1 = res -> is_read op res = false ->
                    safeQ t (Emit [ev_ret a1 b1] (Ret (Some r))) (lv', @Linearized SetSpec op res) Q).
  { intros r op res a1 b1 lv' E E1 E2. unfold ev_ret. apply (safeQ_emit_ret_lin t op res a1 b1); auto. cbn [Conc.safe]. apply HQ. exact E. }
  assert (HretR : forall (r : lstate) op a1 b1 lv', lv_hole lv' = None -> is_read op (res_of op a1 b1) = true ->
                    safeQ t (Emit [ev_ret a1 b1] (Ret (Some r))) (lv', @Pending SetSpec op) Q).
  { intros r op a1 b1 lv' E E1. unfold ev_ret. apply (safeQ_emit_ret_read t op a1 b1); auto. cbn [Conc.safe]. apply HQ. exact E. }
  destruct (Z.eqb code 1 || Z.eqb code 2) eqn:E12.
  { assert (Eo : spec_op code k x = SInsert k) by (unfold MichaelListInv.spec_op; rewrite E12; reflexivity). rewrite Eo.
    apply safeQ_alloc. intros n. cbn [vptr]. apply Conc.safe_bind.
    eapply (safeQ_insert_loop fuel sf ic _ t g0 g1 k n 0%nat _ (SInsert k)); [reflexivity|exact Hh|left; reflexivity| |].
    - intros l. apply safeQ_give_up. exact HQN.
    - intros b lv' E. apply safeQ_finish. intros fr2. destruct b; cbn [lin_if zb].
      + apply HretL; auto.
      + apply HretR; auto. }
  destruct (Z.eqb code 3) eqn:E3.
  { assert (Eo : spec_op code k x = SUpdate k (Z.odd x)) by (unfold MichaelListInv.spec_op; rewrite E12, E3; reflexivity). rewrite Eo.
    apply safeQ_alloc. intros n. cbn [vptr]. apply Conc.safe_bind.
    eapply (safeQ_update_loop fuel sf ic (Z.odd x) t g0 g1 k n 0%nat); [reflexivity|exact Hh| | |].
    - intros l. apply safeQ_give_up. exact HQN.
    - intros lv' E. apply safeQ_finish. intros fr2. apply HretL; auto.
    - intros a lv' E. apply safeQ_finish. intros fr2. apply HretR; auto. }
  destruct (Z.eqb code 4 || Z.eqb code 5) eqn:E45.
  { assert (Eo : spec_op code k x = SErase k).
    { apply spec_op_erase. apply orb_true_iff in E45. destruct E45 as [E|E]; apply Z.eqb_eq in E; auto. }
    rewrite Eo. apply Conc.safe_bind. apply safeQ_erase_loop; [exact Hh| |].
    - intros l. apply safeQ_give_up. exact HQN.
    - intros b lv' E. apply safeQ_finish. intros fr2. destruct b; cbn [lin_if zb].
      + apply HretL; auto.
      + apply HretR; auto. }
  destruct (Z.eqb code 6) eqn:E6.
  { assert (Eo : spec_op code k x = SErase k) by (apply spec_op_erase; apply Z.eqb_eq in E6; auto). rewrite Eo.
    cbv zeta.
    assert (Hbody : forall m lv0, lv_hole lv0 = None ->
       safeQ t (r <- erase_loop fuel sf ic 6 m t g0 g1 k ;;
               match r with
               | None => give_up
               | Some b => fr2 <- free_guards t [g0; g1] fr1 ;;
                   Emit [ev_ret (zb b) (zb (negb (Nat.eqb (own_find k own) 0)))] (Ret (Some (fr2, if b then own_del k own else own)))
               end) (lv0, @Pending SetSpec (SErase k)) Q).
    { intros m lv0 E0. apply Conc.safe_bind. apply safeQ_erase_loop; [exact E0| |].
      - intros l. apply safeQ_give_up. exact HQN.
      - intros b lv' E. apply safeQ_finish. intros fr2. destruct b; cbn [lin_if zb].
        + apply HretL; auto.
        + apply HretR; auto. }
    destruct (Nat.eqb (own_find k own) 0).
    - apply safeQ_alloc. intros n. cbn [vptr]. apply Hbody. exact Hh.
    - apply Hbody. exact Hh. }
  destruct (Z.eqb code 7) eqn:E7.
  { assert (Eo : spec_op code k x = SErase k) by (apply spec_op_erase; apply Z.eqb_eq in E7; auto). rewrite Eo.
    apply Conc.safe_bind. apply safeQ_erase_loop; [exact Hh| |].
    - intros l. apply safeQ_give_up. exact HQN.
    - intros b lv' E. destruct b; cbn [lin_if].
      + apply safeQ_finish. intros fr2. apply Conc.safe_bind. apply safeQ_use_guarded.
        apply safeQ_finish. intros fr3. apply HretL; auto.
      + apply safeQ_finish. intros fr2. apply HretR; auto. }
  (* get, contains, find with functor: never a modifying operation *)
  rewrite (spec_op_contains code k x E12 E3 E45 E6 E7).
  assert (Hret : forall (r : lstate) a1 b1 lv', lv_hole lv' = None ->
                   safeQ t (Emit [ev_ret a1 b1] (Ret (Some r))) (lv', @Pending SetSpec (SContains k)) Q).
  { intros r a1 b1 lv' E. apply HretR; [exact E|apply is_read_contains]. }
  apply Conc.safe_bind. unfold search_from_head. apply safeQ_search; [left; reflexivity|left; reflexivity|..].
  - intros F' _. apply safeQ_give_up; auto.
  - intros F' pp pc HF Hf. cbn beta iota.
    destruct (Nat.eqb_spec (vptr pc) TAIL) as [ET|ET].
    { apply safeQ_finish. intros fr2. apply Hret. exact Hh. }
    assert (Hpk : pk F' (vptr pc)) by (apply (found_pk _ _ _ _ Hf)).
    destruct (Z.eqb code 10).
    + apply Conc.safe_bind. apply safeQ_lock_outer; [exact Hpk| |].
      * intros _. cbn [negb].
        apply safeQ_ld_held; [exists None; left; reflexivity|]. intros v _. cbn [with_held with_facts lv_facts lv_held lv_own lv_hole].
        assert (Hu : forall (kk : prog (out lstate)) F2 H2, (forall H3, safeQ t kk (mkLV F2 H3 (lv_own lv) None, @Pending SetSpec (SContains k)) Q) ->
                       safeQ t (_ <- unlock (vptr pc) ;; kk) (mkLV F2 ((vptr pc, Some (vptr v, vmark v)) :: H2) (lv_own lv) None, @Pending SetSpec (SContains k)) Q).
        { intros kk F2 H2 Hkk. apply Conc.safe_bind. apply safeQ_unlock'; [eexists; left; reflexivity|reflexivity|]. apply Hkk. }
        rewrite Hh.
        destruct (negb (vmark v) && Z.eqb (vkey pc) k).
        -- apply safeQ_emit_other; [reflexivity|reflexivity|]. apply Hu. intros H3. apply safeQ_finish. intros fr2. apply Hret. reflexivity.
        -- apply Hu. intros H3. apply safeQ_finish. intros fr2. apply Hret. reflexivity.
      * cbn [negb]. apply safeQ_give_up; auto.
    + apply safeQ_ld; [exact Hpk|]. intros v _. cbv zeta.
      destruct (Z.eqb code 8 && (negb (vmark v) && Z.eqb (vkey pc) k)).
      * apply safeQ_finish. intros fr2. apply Conc.safe_bind. apply safeQ_use_guarded.
        apply safeQ_finish. intros fr3. apply Hret. exact Hh.
      * apply safeQ_finish. intros fr2. apply Hret. exact Hh.
Qed.

Lemma safeQ_run_ops fuel sf ic t os : forall ls lv,
  lv_hole lv = None -> safeQ t (run_ops fuel sf ic t os ls) (lv, @Idle SetSpec) (fun _ _ => True).
Proof.
  induction os as [|o os IH]; intros ls lv Hh; cbn [run_ops]; [exact I|].
  apply Conc.safe_bind. apply safeQ_run_op; [exact Hh|]. split.
  - intros l. exact I.
  - intros ls' lv' E. apply IH. exact E.
Qed.

Lemma safeQ_thread fuel sf ic t os lv :
  lv_hole lv = None -> safeQ t (thread_prog fuel sf ic t os) (lv, @Idle SetSpec) (@Conc.QTrue lview3).
Proof.
  intros Hh. unfold thread_prog. apply safeQ_neutral with (v := v0); [apply neutral3_begin|].
  eapply Conc.safe_weaken; [|apply safeQ_run_ops; exact Hh]. intros; exact I.
Qed.

(** ** the initial configuration *)
Lemma init_okQ fuel sf ic ths : Conc.cfg_ok view3 InvQ (init_cfg fuel sf ic ths).
Proof.
  exists aux30. split.
  - split; [|split].
    + exists []. split; [exact IS_init|]. constructor; cbn [aux30 c_atr c_st].
      * exists [], (fun _ => @Idle SetSpec). split; [reflexivity|]. split; [reflexivity|].
        intros k0. split; [discriminate|]. intros (n & [] & _).
      * reflexivity.
    + intros n Hm. exfalso. unfold init_cfg, init in Hm. cbn [Conc.shared heap] in Hm. destruct (Nat.eqb n HEAD); cbn [nmark] in Hm; discriminate Hm.
    + intros t H. exfalso. apply H. reflexivity.
  - intros t p Hp. cbn [init_cfg Conc.threads] in Hp.
    destruct (thread_progs_nth _ _ _ _ _ _ _ Hp) as [os ->]. cbn [Nat.add].
    unfold view3. cbn [aux30 c_base c_st]. apply safeQ_thread. reflexivity.
Qed.

(** ** quiescence *)
Definition open_step (t : nat) (acc : bool) (e : hev SetSpec) : bool :=
  match e with
  | HInv u _ => if Nat.eqb u t then true else acc
  | HRes u _ => if Nat.eqb u t then false else acc
  end.
Definition open_inv (t : nat) (h : history SetSpec) : bool := fold_left (open_step t) h false.
Definition quiescent_hist (h : history SetSpec) : Prop := forall t, open_inv t h = false.

Lemma open_inv_snoc t h e : open_inv t (h ++ [e]) = open_step t (open_inv t h) e.
Proof. unfold open_inv. rewrite fold_left_app. reflexivity. Qed.

Lemma lp_idle : forall (atr : list (aev SetSpec)) S st0,
  lp_run lp_init atr = Some (S, st0) -> forall t, st0 t = @Idle SetSpec <-> open_inv t (erase atr) = false.
Proof.
  induction atr as [|e atr IH] using rev_ind; intros S st0 Hr t.
  - cbn in Hr. inversion Hr; subst. cbn. tauto.
  - rewrite lp_run_app in Hr. destruct (lp_run lp_init atr) as [[S0 st1]|] eqn:E0; [|discriminate].
    specialize (IH S0 st1 eq_refl). cbn [lp_run] in Hr.
    destruct (lp_step (S0, st1) e) as [c1|] eqn:E1; [|discriminate]. inversion Hr; subst c1; clear Hr.
    rewrite erase_app.
    destruct e as [u o|u|u r]; cbn [lp_step] in E1; cbn [erase].
    + destruct (st1 u) eqn:Eu; try discriminate. inversion E1; subst S st0; clear E1.
      rewrite open_inv_snoc. cbn [open_step]. unfold upd. rewrite (Nat.eqb_sym t u).
      destruct (Nat.eqb_spec u t) as [->|Hne]; [split; discriminate|apply IH].
    + destruct (st1 u) as [|o0|] eqn:Eu; try discriminate. inversion E1; subst S st0; clear E1.
      rewrite app_nil_r. unfold upd. destruct (Nat.eqb_spec t u) as [->|Hne]; [|apply IH].
      split; [discriminate|]. intros H. apply IH in H. congruence.
    + destruct (st1 u) as [| |o0 r0] eqn:Eu; try discriminate. destruct (res_eqb SetSpec r r0); try discriminate.
      inversion E1; subst S st0; clear E1.
      rewrite open_inv_snoc. cbn [open_step]. unfold upd. rewrite (Nat.eqb_sym t u).
      destruct (Nat.eqb_spec u t) as [->|Hne]; [tauto|apply IH].
Qed.

(** without marks the physical traversal follows the whole logical chain *)
Lemma walk_all g a L : IS g a L -> (forall x, In x L -> nmark (heap g x) = false) ->
  forall L0 n fuel, glinked (gnext g (a_succ a)) n L0 TAIL -> (forall x, In x L0 -> In x L) ->
  (List.length L0 < fuel)%nat -> lazy_walk g fuel (gnext g (a_succ a) n) = L0.
Proof.
  intros H Hum. induction L0 as [|x L0 IH]; intros n fuel Hl Hin Hf; (destruct fuel as [|f]; [cbn in Hf; lia|]); cbn [lazy_walk glinked] in *.
  - rewrite Hl, Nat.eqb_refl. reflexivity.
  - destruct Hl as [Hx Hl]. rewrite Hx.
    assert (HxL : In x L) by (apply Hin; left; reflexivity).
    assert (HxT : x <> TAIL).
    { apply (s_pubL _ _ _ H) in HxL. apply (pub_range _ _ _ _ H) in HxL. unfold TAIL. lia. }
    destruct (Nat.eqb_spec x TAIL); [contradiction|]. rewrite (Hum x HxL).
    f_equal. rewrite <- (gnext_unmarked _ _ _ _ H (Hum x HxL)). apply IH; auto.
    + intros y Hy. apply Hin. right. exact Hy.
    + cbn [List.length] in Hf. lia.
Qed.

Lemma glinked_next_in nx : forall L n q x, glinked nx n L q -> In x L -> In (nx x) L \/ nx x = q.
Proof.
  induction L as [|y L IH]; intros n q x Hl Hx; [destruct Hx|]. cbn [glinked] in Hl. destruct Hl as [Hy Hl].
  destruct Hx as [->|Hx].
  - destruct L as [|z L]; cbn [glinked] in Hl; [right; exact Hl|left; right; left; symmetry; apply Hl].
  - destruct (IH y q x Hl Hx) as [K|K]; [left; right; exact K|right; exact K].
Qed.

Lemma chain_length g a L : IS g a L -> (List.length L <= nalloc g)%nat.
Proof.
  intros H. pose proof (chain_nodup _ _ _ _ _ (s_chain _ _ _ H)) as Hnd.
  assert (Hnd' : NoDup L).
  { inversion Hnd as [|x0 l0 _ Hnd0]; subst. clear -Hnd0. induction L as [|y L IH]; [constructor|].
    cbn [app] in Hnd0. inversion Hnd0; subst. constructor; [|apply IH; assumption].
    intros Hy. apply H1. apply in_or_app. left. exact Hy. }
  assert (Hincl : incl L (seq 1 (nalloc g))).
  { intros x Hx. apply (s_pubL _ _ _ H) in Hx. apply (pub_range _ _ _ _ H) in Hx. apply in_seq. lia. }
  pose proof (NoDup_incl_length Hnd' Hincl) as K. rewrite seq_length in K. exact K.
Qed.

Lemma InvQ_quiescent g a tr :
  InvQ g a tr ->
  exists Sabs st0,
    lp_run lp_init (c_atr a) = Some (Sabs, st0) /\ erase (c_atr a) = upd_hist tr /\
    (quiescent_hist (upd_hist tr) ->
       (forall t, st0 t = @Idle SetSpec) /\
       (forall k, zmem k Sabs = true <-> In k (lazy_keys g))).
Proof.
  intros ((L & HS & [(Sabs & st0 & H1 & H2 & H3) H4]) & Hj & Hq).
  exists Sabs, st0. split; [exact H1|]. split; [exact H4|].
  intros Hquiet.
  assert (Hidle : forall t, st0 t = @Idle SetSpec).
  { intros t. apply (lp_idle _ _ _ H1). rewrite H4. apply Hquiet. }
  split; [exact Hidle|].
  assert (Hhole : forall t, lv_hole (view (c_base a) t) = None).
  { intros t. destruct (lv_hole (view (c_base a) t)) eqn:E; auto. exfalso.
    apply (Hq t); [unfold view3; cbn [fst]; congruence|]. unfold view3; cbn [snd]. rewrite <- H2. apply Hidle. }
  assert (Hsucc : forall x, a_succ (c_base a) x = None).
  { intros x. destruct (a_succ (c_base a) x) as [s|] eqn:E; auto.
    destruct (s_succ _ _ _ HS x s E) as (_ & _ & t & p & K). rewrite Hhole in K. discriminate. }
  destruct (s_chain _ _ _ HS) as [Hl Hs].
  pose proof (chain_nodup _ _ _ _ _ (s_chain _ _ _ HS)) as Hnd.
  assert (Hum : forall x, In x L -> nmark (heap g x) = false).
  { intros x Hx. destruct (nmark (heap g x)) eqn:Em; auto. exfalso.
    assert (Hgx : gnext g (a_succ (c_base a)) x = HEAD) by (unfold gnext; rewrite Hsucc; apply Hj; exact Em).
    destruct (glinked_next_in _ _ _ _ _ Hl Hx) as [K|K]; rewrite Hgx in K.
    - inversion Hnd; subst. apply H5. apply in_or_app. left. exact K.
    - unfold HEAD, TAIL in K. discriminate. }
  destruct (s_ends _ _ _ HS) as (Eh & _).
  assert (Hwalk : lazy_walk g (Datatypes.S (nalloc g)) (nnext (heap g HEAD)) = L).
  { rewrite <- (gnext_unmarked _ _ _ _ HS Eh). apply (walk_all g (c_base a) L HS Hum L HEAD); auto.
    pose proof (chain_length _ _ _ HS). lia. }
  intros k. rewrite (H3 k). unfold lazy_keys. rewrite Hwalk, in_map_iff. split.
  - intros (n & K1 & K2 & K3). exists n. auto.
  - intros (n & K1 & K2). exists n. auto.
Qed.

Theorem lazy_quiescent fuel sf ic ths c :
  Conc.reach (init_cfg fuel sf ic ths) c ->
  exists atr Sabs st0,
    lp_run lp_init atr = Some (Sabs, st0) /\ erase atr = upd_hist (Conc.trace c) /\
    increasing (lazy_keys (Conc.shared c)) /\
    (quiescent_hist (upd_hist (Conc.trace c)) ->
       (forall t, st0 t = @Idle SetSpec) /\
       (forall k, zmem k Sabs = true <-> In k (lazy_keys (Conc.shared c)))).
Proof.
  intros Hr. pose proof (lazy_sorted_nodup fuel sf ic ths c Hr) as Hinc.
  destruct (Conc.reach_Inv (init_okQ fuel sf ic ths) Hr) as (a & HI).
  destruct (InvQ_quiescent _ _ _ HI) as (Sabs & st0 & H1 & H2 & H3).
  exists (c_atr a), Sabs, st0. auto.
Qed.
