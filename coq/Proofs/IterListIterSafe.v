(** * Every thread program of LV.Model.IterListIter is safe, the initial configuration is fine, and a thread that stands
      right after the invocation of an iteration can be given a fresh ghost value ([restart]). *)
From Coq Require Import ZArith List String Bool Lia PeanoNat.
From LV Require Import Base.Conc Base.Events Model.IterList Model.IterListIter Proofs.ConcRel Proofs.IterListIterDefs
                       Proofs.IterListIterOps Proofs.IterListIterOps2 Proofs.IterListIterIt Proofs.IterListIterProg.
Import ListNotations.

Set Implicit Arguments.

Section Safe.
  Variables (N X : nat).
  Hypothesis HX : X <> 0.

  Notation safeR := (@ConcRel.safeR G V ev Aux L W view (Inv N) (SR N X)).
  Notation okR := (@ConcRel.okR G V ev Aux L W view (Inv N) (SR N X)).
  Notation prog := (Conc.prog G V ev).
  Notation C := (C X).
  Notation presb := (presb N X).

  (** view and ghost value of a thread right after "inv 20 k" *)
  Definition lstart (l : L) (b : bool) : L := set_stage l (SPend HEAD) (negb b).
  Definition wst (b : bool) : W := set_ok wstart b.

  Lemma start_view g a t b : InvS N (nnext g) (nalloc g) a -> b = presb a g ->
    InvS N (nnext g) (nalloc g) (mkAux (lk a) (updf (vw a) t (lstart (vw a t) b))).
  Proof.
    intros HI Hb. apply InvS_view; auto.
    - cbn. intros n Hn. eapply i_known; eauto.
    - unfold J, lstart. cbn [jd stage set_stage]. destruct b; [right|left; reflexivity].
      split; [left; reflexivity|]. symmetry in Hb. apply (proj1 (@presb_iff N X _ _ HI)) in Hb. apply Hb.
  Qed.

  Lemma start_C l b : C (lstart l b) (wst b).
  Proof. unfold C, lstart, wst. cbn. intros H1 H2. subst b. discriminate. Qed.

  Lemma emit_start t R o (k : prog R) l w Q : nth 0 o 0%Z = 20%Z ->
    (forall l' w', wph w' = true -> stage l' = SPend HEAD -> C l' w' -> safeR t k l' w' Q) ->
    safeR t (Emit [ev_inv o] k) l w Q.
  Proof.
    intros Ho Hk g a tr [HI HT] Hv. unfold view in Hv.
    set (b := presb a g).
    exists (mkAux (lk a) (updf (vw a) t (lstart (vw a t) b))), (wst b).
    split; [split; [apply start_view; auto|exact HT]|]. split; [apply frame_updf|].
    split. { apply SR_nx; [reflexivity|]. apply TR_start with (o := o) (b := b); auto. apply (@presb_iff N X _ _ HI). }
    unfold view. cbn [vw]. rewrite updf_eq. apply Hk; [reflexivity|reflexivity|apply start_C].
  Qed.

  Definition Pop : out lstate -> L -> W -> Prop :=
    fun r l' w' => match r with Some _ => wph w' = false | None => True end.

  Lemma run_opI_safe t fuel sf ic o ls l w : wph w = false -> safeR t (run_opI fuel sf ic t o ls) l w Pop.
  Proof.
    intros Hw. unfold run_opI. destruct (Z.eqb_spec (nth 0 o 0%Z) 20) as [E|E].
    - apply emit_start; auto. intros l' w' H1 H2 H3. apply iter_op_it; auto.
    - eapply ConcRel.safeR_weaken; [|apply run_op_safe with (l0 := l); auto using lext_refl].
      intros r l' w' (-> & _ & _). unfold Pop. destruct r; auto.
  Qed.

  Lemma run_opsI_safe t fuel sf ic os : forall ls l w, wph w = false ->
    safeR t (run_opsI fuel sf ic t os ls) l w (@ConcRel.QTrueR L W).
  Proof.
    induction os as [|o os IH]; intros ls l w Hw; cbn [run_opsI].
    - cbn. exact I.
    - apply ConcRel.safeR_bind. eapply ConcRel.safeR_weaken; [|apply run_opI_safe; exact Hw].
      intros [ls'|] l' w' Hr; cbn [after_op]; [apply IH; exact Hr|cbn; exact I].
  Qed.

  Lemma thread_safe t fuel sf ic os l w : wph w = false ->
    safeR t (thread_progI fuel sf ic t os) l w (@ConcRel.QTrueR L W).
  Proof.
    intros Hw. unfold thread_progI. apply act_data; [auto with dact|]. intros _. apply run_opsI_safe. exact Hw.
  Qed.

  Lemma nth_thread_progsI fuel sf ic ths : forall k u p,
    nth_error (thread_progsI fuel sf ic k ths) u = Some p -> exists os, p = thread_progI fuel sf ic (k + u) os.
  Proof.
    induction ths as [|os ths IH]; intros k u p H; cbn [thread_progsI] in H.
    - destruct u; discriminate.
    - destruct u as [|u]; cbn in H.
      + inversion H. exists os. rewrite Nat.add_0_r. reflexivity.
      + destruct (IH (S k) u p H) as [os' E]. exists os'. rewrite E. f_equal. lia.
  Qed.

  Lemma InvS_init : InvS N (fun _ => TAIL) 2 A0.
  Proof.
    constructor; cbn.
    - reflexivity.
    - reflexivity.
    - intros n Hn. apply orb_true_iff in Hn. destruct Hn as [Hn|Hn]; apply Nat.eqb_eq in Hn; subst n; unfold HEAD, TAIL; split; auto; lia.
    - intros u Hu. contradiction.
    - intros u u' _ Hu. contradiction.
    - intros u n Hn. contradiction.
    - intros n Hn. apply orb_true_iff in Hn. destruct Hn as [Hn|Hn]; apply Nat.eqb_eq in Hn; subst n; [constructor|].
      apply path_step. constructor.
    - reflexivity.
    - intros n _ Hn. congruence.
    - intros u. right. exact I.
  Qed.

  Lemma init_okR fuel sf ic ths : okR (init_cfgI fuel sf ic ths) A0 (fun _ => w0).
  Proof.
    split.
    - cbn. split; [apply InvS_init|reflexivity].
    - intros u p Hp. cbn [init_cfgI Conc.threads] in Hp. apply nth_thread_progsI in Hp. destruct Hp as [os ->].
      cbn [Nat.add]. apply thread_safe. reflexivity.
  Qed.

  (** the program of a thread right after the invocation event of an iteration *)
  Definition iter_started (fuel sf : nat) (ic : bool) (t : nat) (k : Z) (ls : lstate) (os : list (list Z)) : Conc.thread G V ev :=
    x <- iter_op fuel sf ic t k ls ;; after_op (run_opsI fuel sf ic t os) x.

  Lemma iter_started_safe t fuel sf ic k ls os l w : wph w = true -> stage l = SPend HEAD -> C l w ->
    safeR t (iter_started fuel sf ic t k ls os) l w (@ConcRel.QTrueR L W).
  Proof.
    intros H1 H2 H3. unfold iter_started. apply ConcRel.safeR_bind.
    eapply ConcRel.safeR_weaken; [|apply iter_op_it; auto].
    intros [ls'|] l' w' Hr; cbn [after_op]; [apply run_opsI_safe; exact Hr|cbn; exact I].
  Qed.

  (** give thread [t], which stands right after "inv 20 k", the ghost value of a fresh iteration *)
  Lemma restart c a ws t fuel sf ic k ls os :
    okR c a ws -> nth_error (Conc.threads c) t = Some (iter_started fuel sf ic t k ls os) ->
    exists a' b, okR c a' (ConcRel.updw ws t (wst b)) /\ (b = true <-> present N X (Conc.shared c)).
  Proof.
    intros [[HI HT] Hth] Ht.
    set (b := presb a (Conc.shared c)).
    exists (mkAux (lk a) (updf (vw a) t (lstart (vw a t) b))), b. split.
    - split; [split; [apply start_view; auto|exact HT]|].
      intros u p Hp. unfold ConcRel.updw, view. cbn [vw]. destruct (Nat.eqb_spec u t) as [->|Hne].
      + rewrite updf_eq. rewrite Ht in Hp. inversion Hp. apply iter_started_safe; [reflexivity|reflexivity|apply start_C].
      + rewrite updf_neq by exact Hne. apply Hth. exact Hp.
    - apply (@presb_iff N X _ _ HI).
  Qed.
End Safe.
