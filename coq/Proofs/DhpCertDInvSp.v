(** * DhpCertDInvSp: the special programs keep [DInv NR f] of their own instance; hence every DHP thread does. *)
From Coq Require Import ZArith NArith List String Bool Lia PeanoNat.
From LV Require Import Base.Conc Base.Events Model.FreeList Model.DhpLang Model.Dhp Proofs.DhpBase Proofs.DhpHist
  Proofs.DhpLangProofs Proofs.FreeListBase Proofs.FreeListInv Proofs.FreeListOpen Proofs.FreeListOpenRules Proofs.FreeListOpenDhp Proofs.FreeListOpenDhpRules
  Proofs.FreeListOpenDhpThm Proofs.DhpCertBase Proofs.DhpStepsB9 Proofs.DhpProgB4 Proofs.DhpCert Proofs.DhpCertProgs Proofs.DhpCertDInv.
Import ListNotations.

Lemma quietG_do_extend f c r b g : quietG f g (fst (rt_do_extend c r b g)).
Proof.
  unfold rt_do_extend. set (g1 := match r_tail (grec g r) with Some tl => upd_rb g tl (bs_next (Some b)) | None => g end).
  assert (H1 : quietG f g g1) by (unfold g1; destruct (r_tail (grec g r)); [apply quietG_upd_rb; intros []; reflexivity|apply quietG_refl]).
  cbv zeta. fold g1. destruct (c_old c || _); cbn [fst]; (eapply quietG_trans; [exact H1|apply quietG_upd_rec]).
Qed.
Lemma quietG_trunc f c r g : quietG f g (fst (trunc_f c r g)).
Proof.
  unfold trunc_f. destruct (r_cb (grec g r)) as [cb|]; [|apply quietG_refl]. cbv zeta. destruct (rb_next (grb g cb)); cbn [fst]; [|apply quietG_refl].
  destruct (c_oldtail c).
  all: first [ apply quietG_upd_rb; intros []; reflexivity
             | apply quietG_trans with (g2 := upd_rb g cb (bs_next None)); [apply quietG_upd_rb; intros []; reflexivity|apply quietG_upd_rec] ].
Qed.

Section Sp.
  Variable NR : nat.
  Hypothesis HN2 : (Z.of_nat (S NR) + 2 < FLAG)%Z.
  Notation dsafeF f := (@dsafe Dhp.G ev DAux VF dview (DInv NR f)).
  Notation B0 := (Busy, @None (nat * bool)).

  Lemma dF_xloc_q f {X Y} t (fn : Dhp.G -> Dhp.G * X) (q : X -> P Y) l Q :
    (forall g, quietG f g (fst (fn g))) -> (forall x, dsafeF f t (q x) l Q) -> dsafeF f t (xbind (loc fn) q) l Q.
  Proof. intros H Hk. unfold xbind, loc. cbn [dbind]. apply (dF_loc_q NR HN2); auto. Qed.
  Lemma dF_xact_q f {X Y} t (fa : Dhp.A X) (q : X -> P Y) l Q :
    QAc f fa -> (forall x, dsafeF f t (q x) l Q) -> dsafeF f t (xbind (act fa) q) l Q.
  Proof. intros H Hk. unfold xbind, act. cbn [dbind]. apply (dF_act_q NR HN2); auto. intros g. destruct (H g) as [[A _] B]. split; assumption. Qed.
  Lemma dF_xact_qq f {X Y} t (fa : Dhp.A X) (q : X -> P Y) l Q :
    (forall g, quietG f g (fst (fst (fa g))) /\ qE f (snd (fa g))) -> (forall x, dsafeF f t (q x) l Q) -> dsafeF f t (xbind (act fa) q) l Q.
  Proof. intros H Hk. unfold xbind, act. cbn [dbind]. apply (dF_act_q NR HN2); auto. Qed.
  Lemma dF_xemit_q f {Y} t es (q : unit -> P Y) l Q : qE f es -> dsafeF f t (q tt) l Q -> dsafeF f t (xbind (emit es) q) l Q.
  Proof. intros H Hk. unfold xbind, emit. cbn [dbind]. apply (dF_emit_q NR HN2); auto. Qed.
  Lemma dF_xquiet f {X Y} t (p : P X) (q : X -> P Y) l (Q : option Y -> VF -> Prop) :
    fquiet f p -> (forall l', Q None l') -> (forall x, dsafeF f t (q x) l Q) -> dsafeF f t (xbind p q) l Q.
  Proof. intros Hp HN Hq. apply dsafeF_xbind. apply (fquiet_dsafe NR HN2); auto. intros [x|]; auto. Qed.
  Lemma dF_fuel_out f {Y} t l (Q : option Y -> VF -> Prop) : (forall l', Q None l') -> dsafeF f t fuel_out l Q.
  Proof. intros HN. unfold fuel_out. apply (dF_emit_q NR HN2); [apply qE_cons; [reflexivity|apply qE_nil]|apply HN]. Qed.

  (** ** guard blocks *)
  Lemma fb_hp_alloc c : fbusy NR FHp (hp_alloc c).
  Proof.
    intros t Q HQ HN. unfold hp_alloc. apply (d_get_then NR HN2); [exact HN|]. intros o. apply dsafeF_xbind.
    apply (d_alloc_match NR HN2 FHp t (new_gblock c) o); [intros g; destruct (new_gblock_fresh c g FHp) as [A B]; split; auto|intros b|exact HN].
    apply dF_xquiet; [apply fq_link_guards|exact HN|intros _].
    apply dF_xloc_q; [intros g; apply (proj1 (qS_qG FHp _ _ (qS_snext_set g _ _)))|intros _].
    apply dF_xact_q; [apply qa_st_slot|intros _]. apply HQ.
  Qed.
  Lemma fb_hp_free c b t (Q : option unit -> VF -> Prop) : Q (Some tt) B0 -> (forall l, Q None l) -> dsafeF FHp t (hp_free c b) B0 Q.
  Proof.
    intros HQ HN. unfold hp_free, xbind, emit. cbn [dbind]. apply (d_emit_free NR HN2). apply (d_put_last NR HN2); auto.
  Qed.
  Lemma fb_hp_extend c r : fbusy NR FHp (hp_extend c r).
  Proof.
    intros t Q HQ HN. unfold hp_extend. apply dsafeF_xbind. apply fb_hp_alloc; [intros b|exact HN].
    apply dF_xact_q; [apply qa_ld_ext|intros e]. apply dF_xloc_q; [intros g; apply quietG_upd_gb; intros []; reflexivity|intros _].
    apply dF_xact_qq; [intros g; cbn [a_st_ext_g fst snd]; split; [apply quietG_upd_rec|apply qE_app; [apply qE_rec|qes]]|].
    intros _. unfold loc. apply (dF_loc_q NR HN2); [intros g; apply quietG_upd_rec|intros x; apply HQ].
  Qed.
  Lemma fb_free_gblocks c t (Q : option unit -> VF -> Prop) : Q (Some tt) B0 -> (forall l, Q None l) ->
    forall fuel p, dsafeF FHp t (free_gblocks c fuel p) B0 Q.
  Proof.
    intros HQ HN. induction fuel as [|fuel IH]; intros [b|]; cbn [free_gblocks]; try exact HQ; [apply dF_fuel_out; exact HN|].
    apply dF_xloc_q; [intros g; apply quietG_refl|intros nx]. apply dsafeF_xbind. apply fb_hp_free; [apply IH|exact HN].
  Qed.
  Lemma fb_hp_clear c r det : qE FHp det -> fbusy NR FHp (hp_clear c r det).
  Proof.
    intros Hd t Q HQ HN. unfold hp_clear. apply dF_xquiet; [apply fq_clear_slots|exact HN|intros _].
    apply dF_xact_q; [apply qa_ld_ext|intros p]. apply dF_xemit_q; [exact Hd|]. apply dsafeF_xbind. apply fb_free_gblocks; [|exact HN].
    unfold act. apply (dF_act_q NR HN2); [intros g; destruct (qa_st_ext_none FHp r g) as [[A _] B]; split; assumption|intros []; apply HQ].
  Qed.

  (** ** retired blocks *)
  Lemma fb_rt_alloc c : fbusy NR FRt (rt_alloc c).
  Proof.
    intros t Q HQ HN. unfold rt_alloc. apply (d_get_then NR HN2); [exact HN|]. intros o. apply dsafeF_xbind.
    apply (d_alloc_match NR HN2 FRt t (new_rblock c) o); [intros g; destruct (new_rblock_fresh c g FRt) as [A B]; split; auto|intros b|exact HN].
    apply dF_xloc_q; [intros g; apply quietG_upd_rb; intros []; reflexivity|intros _]. apply HQ.
  Qed.
  Lemma fb_rt_free c b t (Q : option unit -> VF -> Prop) : Q (Some tt) B0 -> (forall l, Q None l) -> dsafeF FRt t (rt_free c b) B0 Q.
  Proof.
    intros HQ HN. unfold rt_free. apply dF_xloc_q; [intros g; apply quietG_upd_rb; intros []; reflexivity|intros _].
    unfold xbind, emit. cbn [dbind]. apply (d_emit_free NR HN2). apply (d_put_last NR HN2); auto.
  Qed.
  Lemma fb_rt_init c r : fbusy NR FRt (rt_init c r).
  Proof.
    intros t Q HQ HN. unfold rt_init. apply dF_xloc_q; [intros g; apply quietG_refl|intros [hd|]]; [apply HQ|].
    apply dsafeF_xbind. apply fb_rt_alloc; [intros b|exact HN]. unfold loc. apply (dF_loc_q NR HN2); [intros g; apply quietG_upd_rec|intros x; apply HQ].
  Qed.
  Lemma fb_free_rblocks c t (Q : option unit -> VF -> Prop) : Q (Some tt) B0 -> (forall l, Q None l) ->
    forall fuel p, dsafeF FRt t (free_rblocks c fuel p) B0 Q.
  Proof.
    intros HQ HN. induction fuel as [|fuel IH]; intros [b|]; cbn [free_rblocks]; try exact HQ; [apply dF_fuel_out; exact HN|].
    apply dF_xloc_q; [intros g; apply quietG_refl|intros nx]. apply dsafeF_xbind. apply fb_rt_free; [apply IH|exact HN].
  Qed.
  Lemma fb_rt_fini c r : fbusy NR FRt (rt_fini c r).
  Proof.
    intros t Q HQ HN. unfold rt_fini. apply dF_xloc_q; [intros g; apply quietG_refl|intros hd]. apply dsafeF_xbind. apply fb_free_rblocks; [|exact HN].
    unfold loc. apply (dF_loc_q NR HN2); [intros g; apply quietG_upd_rec|intros x; apply HQ].
  Qed.
  Lemma fb_rt_extend c r : fbusy NR FRt (rt_extend c r).
  Proof.
    intros t Q HQ HN. unfold rt_extend. apply dsafeF_xbind. apply fb_rt_alloc; [intros b|exact HN].
    unfold loc. apply (dF_loc_q NR HN2); [intros g; apply quietG_do_extend|intros x; apply HQ].
  Qed.
  Lemma fb_trunc_go c r t (Q : option unit -> VF -> Prop) : Q (Some tt) B0 -> (forall l, Q None l) ->
    forall fuel p, dsafeF FRt t (trunc_go c r fuel p) B0 Q.
  Proof.
    intros HQ HN. induction fuel as [|fuel IH]; intros [b|]; cbn [trunc_go]; try exact HQ; [apply dF_fuel_out; exact HN|].
    apply dF_xloc_q; [intros g; apply quietG_refl|intros nx]. apply dsafeF_xbind. apply fb_rt_free; [|exact HN].
    apply dF_xloc_q; [intros g; apply quietG_upd_rec|intros _]. apply IH.
  Qed.
  Lemma fb_trunc_block c r : fbusy NR FRt (trunc_block c r).
  Proof.
    intros t Q HQ HN. unfold trunc_block. apply dF_xloc_q; [intros g; apply quietG_trunc|intros fb]. apply fb_trunc_go; auto.
  Qed.

  (** ** every certified program *)
  Theorem fbusy_all f Y (p : P Y) : PC f p -> fbusy NR f p.
  Proof.
    apply (fbusy_PC NR HN2). clear Y p. intros Y p H. destruct H as [c r E|c r det E Hd|c r E|c r E|c r E|c r E]; subst f.
    - apply fb_hp_extend. - now apply fb_hp_clear. - apply fb_rt_init. - apply fb_rt_fini. - apply fb_rt_extend. - apply fb_trunc_block.
  Qed.

  Theorem dsafeF_thread f c t os : dsafeF f t (thread_src c t os) B0 (fun _ _ => True).
  Proof.
    unfold thread_src. apply (dF_act_q NR HN2); [intros g; destruct (qa_begin f g) as [[A _] B]; split; assumption|intros _].
    unfold to_unit. apply dsafe_bind. apply (fbusy_all f _ _ (pc_run_ops f c t os (mkL None []))); intros; exact I.
  Qed.
End Sp.
