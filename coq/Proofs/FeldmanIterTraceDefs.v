(** * Trace-level theorems about the FeldmanHashSet iterators (LV.Model.FeldmanIter): definitions.

    The iterators are verified in the relational proof rule of Proofs/ConcRel.v.  The thread-local ghost value [WI] of
    an iterating thread records
      - [wP]:   the hashes that were present in the tree at every own access since the iteration started,
      - [wvis]: the elements ( id, key ) visited so far,
      - [wah]:  the hashes whose slot lies AHEAD of the iterator in path order ([ahead]: a predicate of the hash and the
                iterator's descent position only - it does not depend on the shared state, so no step of another thread
                can move a hash from "ahead" to "behind"),
      - [wfnd]: the element found by the last load of a data slot ( id, key ); [wcur], [wv]: the element and the trace index
                of the last "visit"; [wrem], [wgone]: what do_erase_at did / saw since then.
    The key fact is [J]: every hash of [wP] was visited or is still ahead.  The step relation [SR] lists the ghost
    transitions ([TR]) together with what was observed in the shared state; [FeldmanStepRel.Rel2] is part of it. *)
From Coq Require Import ZArith NArith List Bool Arith PeanoNat Lia String.
From LV Require Import Base.Conc Base.Events Model.Feldman Model.FeldmanIter.
From LV Require Import Proofs.FeldmanStepInv Proofs.FeldmanStepThm Proofs.ConcRel.
From LV Require Proofs.FeldmanStepRel.
Import ListNotations.

Set Implicit Arguments.

Section Defs.
  Variables (hbits abits : nat) (hs : list N).

  Notation hash := (Feldman.hash hs).
  Notation cut := Feldman.cut.
  Notation bits_of := (Feldman.bits_of hbits abits).
  Notation present := (FeldmanStepThm.present hs).
  Notation Rel2 := (FeldmanStepRel.Rel2 hs).
  Notation Inv := (@FeldmanStepInv.Inv hbits abits hs).
  Notation prog := (Conc.prog G V ev).

  (** ** path order *)
  (** hash [h] lies below an array node with prefix [x = (o, pre)] *)
  Definition under (h : N) (x : nat * N) : Prop := (h mod 2 ^ N.of_nat (fst x) = snd x)%N.

  Lemma under_dec h x : {under h x} + {~ under h x}.
  Proof. unfold under. apply N.eq_dec. Qed.

  (** forward: digits >= i are ahead;  backward ([i] = index to examine + 1): digits < i are ahead *)
  Definition cmp (dir : bool) (i d : nat) : Prop := if dir then i <= d else d < i.

  (** descent stack with the prefixes of the array nodes: ( parent node, index in the parent, prefix of the parent ) *)
  Definition pstk := list (nat * nat * (nat * N)).
  Definition strip (ps : pstk) : list (nat * nat) := map fst ps.

  (** [h] is ahead of an iterator that is about to examine index [i] of node [a] (prefix [x]) below the stack [ps] *)
  Fixpoint ahead (dir : bool) (h : N) (ps : pstk) (a : nat) (x : nat * N) (i : nat) : Prop :=
    (under h x /\ cmp dir i (cut h (fst x) (bits_of a))) \/
    (~ under h x /\
     match ps with
     | [] => False
     | (pa, pi, px) :: r => ahead dir h r pa px (if dir then S pi else pi)
     end).

  Definition cpfx (px : nat * N) (pa pi : nat) : nat * N := child (fst px) (snd px) (bits_of pa) pi.

  (** the prefixes are those of linked array nodes the thread knows ([kstk] of its view), parent and child fit *)
  Fixpoint pos_ok (l : L) (ps : pstk) (a : nat) (x : nat * N) : Prop :=
    In (a, x) (kstk l) /\ (snd x < 2 ^ N.of_nat (fst x))%N /\
    match ps with
    | [] => a = 0 /\ x = (0, 0%N)
    | (pa, pi, px) :: r => x = cpfx px pa pi /\ a <> 0 /\ pos_ok l r pa px
    end.

  (** ** ghost value of a thread *)
  Record WI := mkW {
    wact : bool;                 (* an iteration is running *)
    wstart : nat;                (* index of its invocation in the trace *)
    wP : N -> Prop; wvis : list (nat * nat); wah : N -> Prop;
    wfnd : nat * nat;            (* element ( id, key ) found by the last load of a data slot *)
    wcur : nat * nat;            (* element of the last "visit" *)
    wv : nat;                    (* index of the last "visit" in the trace *)
    wrem : nat;                  (* removals of [wcur] by this thread since that visit *)
    wgone : bool }.              (* [wcur] was seen to be nowhere in the tree since that visit *)

  Definition w0 : WI := mkW false 0 (fun _ => False) [] (fun _ => False) (0, 0) (0, 0) 0 0 false.

  Definition visited (w : WI) (h : N) : Prop := exists y k, In (y, k) (wvis w) /\ hash k = h.
  Definition J (w : WI) : Prop := forall h, wP w h -> visited w h \/ wah w h.

  (** ** events *)
  Definition is_acc (e : ev) : Prop := exists kd o b, e = EvAcc kd o b.
  Definition iter_code (c : nat) : Prop := c = 20 \/ c = 21.
  Definition is_iter_inv (e : ev) : Prop := exists c k, iter_code c /\ e = ev_inv c k.
  Definition is_visit (e : ev) : Prop := exists k, e = ev_visit k.
  Definition is_erased (e : ev) : Prop := exists b, e = ev_erased b.
  Definition ev_oof : ev := EvCli "outoffuel" [].
  Definition neutral (e : ev) : Prop := e = ev_oof.

  (** events that leave the ghost value alone: accesses always; outside an iteration every client event except
      "visit", "erased" and the invocation of an iteration *)
  Definition quiet (w : WI) (es : list ev) : Prop :=
    forall e, In e es -> is_acc e \/ neutral e \/ (wact w = false /\ ~ is_visit e /\ ~ is_erased e /\ ~ is_iter_inv e).

  Definition all_acc (es : list ev) : Prop := forall e, In e es -> is_acc e.

  Definition found (g : G) (x : nat * nat) : Prop := (exists a i, data_at g a i (fst x)) /\ ikey g (fst x) = snd x.
  Definition set_rem (w : WI) : WI :=
    mkW (wact w) (wstart w) (wP w) (wvis w) (wah w) (wfnd w) (wcur w) (wv w) (S (wrem w)) (wgone w).
  Definition set_gone (w : WI) : WI :=
    mkW (wact w) (wstart w) (wP w) (wvis w) (wah w) (wfnd w) (wcur w) (wv w) (wrem w) true.

  (** ** ghost transitions of one access / emission of thread [t]: state [g] before, [g'] after, trace [tr] so far *)
  Inductive TR (g g' : G) (tr : list (nat * ev)) (es : list ev) (w w' : WI) : Prop :=
  | TR_same : w' = w -> quiet w es -> (wact w = true -> arr g' = arr g) -> TR g g' tr es w w'
  | TR_start c k : es = [ev_inv c k] -> iter_code c -> g' = g ->
      w' = mkW true (List.length tr) (fun _ => True) [] (fun _ => True) (0, 0) (0, 0) (List.length tr) 0 false -> TR g g' tr es w w'
  | TR_move (ah' : N -> Prop) fnd' : all_acc es -> wact w = true -> g' = g ->
      (forall h, present g h -> wah w h -> ah' h) ->
      (fnd' = wfnd w \/ found g fnd') ->
      w' = mkW true (wstart w) (fun h => wP w h /\ present g h) (wvis w) ah' fnd' (wcur w) (wv w) (wrem w) (wgone w) -> TR g g' tr es w w'
  | TR_visit (ah' : N -> Prop) : es = [ev_visit (snd (wfnd w))] -> wact w = true -> g' = g -> fst (wfnd w) <> 0 ->
      (forall h, wah w h -> ah' h \/ h = hash (snd (wfnd w))) ->
      w' = mkW true (wstart w) (wP w) (wfnd w :: wvis w) ah' (wfnd w) (wfnd w) (List.length tr) 0 false -> TR g g' tr es w w'
  | TR_finish : es = [ev_ret true false] -> wact w = true -> g' = g -> (forall h, ~ wah w h) ->
      w' = mkW false (wstart w) (wP w) (wvis w) (wah w) (wfnd w) (wcur w) (wv w) (wrem w) (wgone w) -> TR g g' tr es w w'
  | TR_erase a i : all_acc es -> es <> [] -> wact w = true -> fst (wcur w) <> 0 ->
      arr g a i = mkSlot (fst (wcur w)) 0 -> reach_arr g a -> g' = with_arr g (set_slot (arr g) a i snull) ->
      w' = set_rem w -> TR g g' tr es w w'
  | TR_gone : all_acc es -> es <> [] -> wact w = true -> g' = g -> (forall a i, ~ data_at g a i (fst (wcur w))) ->
      w' = set_gone w -> TR g g' tr es w w'
  | TR_erased b : es = [ev_erased b] -> wact w = true -> g' = g -> fst (wcur w) <> 0 ->
      (b = true -> wrem w = 1) -> (b = false -> wrem w = 0 /\ wgone w = true) -> w' = w -> TR g g' tr es w w'.

  Definition SR (t : nat) (g g' : G) (tr : list (nat * ev)) (es : list ev) (w w' : WI) : Prop :=
    Rel2 g g' /\ TR g g' tr es w w'.

  (** the relation used by Proofs/FeldmanStepRel.v for programs that leave the ghost value alone *)
  Definition SR1 (t : nat) (g g' : G) (tr : list (nat * ev)) (es : list ev) (w w' : WI) : Prop :=
    Rel2 g g' /\ w' = w.

  Lemma HSR1 w : forall t g g' tr es, Rel2 g g' -> SR1 t g g' tr es w w.
  Proof. intros; split; auto. Qed.

  (** ** programs all of whose events are quiet *)
  Fixpoint q_prog {R} (w : WI) (p : prog R) : Prop :=
    match p with
    | Ret _ => True
    | Emit es k => quiet w es /\ q_prog w k
    | Act f k => (forall g, quiet w (snd (f g))) /\ forall v, q_prog w (k v)
    end.

  Lemma q_bind {A B} w (p : prog A) (q : A -> prog B) :
    q_prog w p -> (forall r, q_prog w (q r)) -> q_prog w (Conc.bind p q).
  Proof.
    intros Hp Hq. induction p as [r|es k IH|f k IH]; cbn [Conc.bind q_prog] in *.
    - apply Hq.
    - destruct Hp. split; auto.
    - destruct Hp as [H1 H2]. split; auto.
  Qed.

  Notation safeR1 := (@ConcRel.safeR G V ev Aux L WI view Inv SR1).
  Notation safeR := (@ConcRel.safeR G V ev Aux L WI view Inv SR).

  (** a program verified with a constant ghost value in FeldmanStepRel is safe for [SR] if its events are quiet *)
  Lemma strengthen {R} t (p : prog R) (Q : R -> L -> WI -> Prop) w : wact w = false -> forall l,
    q_prog w p -> safeR1 t p l w (fun r l' w' => Q r l' w' /\ w' = w) -> safeR t p l w Q.
  Proof.
    intros Hw. induction p as [r|es k IH|f k IH]; intros l Hq H; cbn [ConcRel.safeR q_prog] in *.
    - apply H.
    - destruct Hq as [Hq1 Hq2]. intros g a tr HI Hv. destruct (H g a tr HI Hv) as (a' & w' & K1 & K2 & (K3 & ->) & K4).
      exists a', w. split; [exact K1|]. split; [exact K2|]. split; [split; [exact K3|apply TR_same; auto; congruence]|]. apply IH; auto.
    - destruct Hq as [Hq1 Hq2]. intros g a tr HI Hv. destruct (H g a tr HI Hv) as (a' & w' & K1 & K2 & (K3 & ->) & K4).
      exists a', w. split; [exact K1|]. split; [exact K2|]. split; [split; [exact K3|apply TR_same; auto; congruence]|]. apply IH; auto.
  Qed.

  (** ** quiet events of the accesses of the model *)
  Lemma quiet_acc w kd o b : quiet w [EvAcc kd o b].
  Proof. intros e [<-|[]]. left. exists kd, o, b. reflexivity. Qed.

  Lemma all_acc1 kd o b : all_acc [EvAcc kd o b].
  Proof. intros e [<-|[]]. exists kd, o, b. reflexivity. Qed.

  Lemma all_acc_quiet w es : all_acc es -> quiet w es.
  Proof. intros H e He. left. auto. Qed.

  Lemma acc_ld a i g : all_acc (snd (a_ld a i g)).
  Proof. apply all_acc1. Qed.
  Lemma acc_cas a i e n g : all_acc (snd (a_cas a i e n g)).
  Proof. unfold a_cas. destruct (slot_eqb _ _); apply all_acc1. Qed.
  Lemma acc_cas_conv a i e g : all_acc (snd (a_cas_conv a i e g)).
  Proof. unfold a_cas_conv. destruct (slot_eqb _ _); apply all_acc1. Qed.
  Lemma acc_st a i s g : all_acc (snd (a_st a i s g)).
  Proof. apply all_acc1. Qed.
  Lemma acc_nop kd o g : all_acc (snd (a_nop kd o g)).
  Proof. apply all_acc1. Qed.
  Lemma acc_cnt kd d g : all_acc (snd (a_cnt kd d g)).
  Proof. apply all_acc1. Qed.
  Lemma acc_gst_new t s k g : all_acc (snd (a_gst_new t s k g)).
  Proof. apply all_acc1. Qed.
  Lemma acc_begin g : all_acc (snd (a_begin g)).
  Proof. apply all_acc1. Qed.
End Defs.

#[export] Hint Resolve acc_ld acc_cas acc_cas_conv acc_st acc_nop acc_cnt acc_gst_new acc_begin all_acc_quiet : facc.
