(** * DhpAttachA: smr::alloc_thread_data as executed by attach_thread. *)
From Coq Require Import ZArith NArith List String Bool Lia PeanoNat.
From LV Require Import Base.Conc Base.Events Model.DhpLang Model.Dhp Proofs.DhpBase Proofs.DhpHist
  Proofs.DhpLangProofs Proofs.DhpInvA Proofs.DhpStepsA Proofs.DhpQuietA Proofs.DhpSlotA Proofs.DhpScanA Proofs.DhpScanC
  Proofs.DhpScanD Proofs.DhpPresA Proofs.DhpAllocA Proofs.DhpAllocB Proofs.DhpViewA Proofs.DhpRulesA
  Proofs.DhpExtendA Proofs.DhpExtendB Proofs.DhpDetB Proofs.DhpDetC Proofs.DhpAttA Proofs.DhpAttB Proofs.DhpAttC Proofs.DhpAttD
  Proofs.DhpAttE Proofs.DhpAttF Proofs.DhpHelpA Proofs.DhpDetachA.
Import ListNotations.

Definition hold_view (r : nat) (nd : option nat) : VA := mkVA None None (Some r) None nd None None None None.

Section AttachA.
  Variable c : cfg.
  Notation dsafeA := (@dsafe G ev AuxA VA viewA (InvA c)).

  (** "First try to reuse a free (non-active) DHP record" *)
  Lemma spec_reuse_recs t : forall fuel node nd0, nd0 = node ->
    dsafeA t (reuse_recs fuel (S t) node) (idle_view nd0)
      (fun o l' => match o with
                   | Some (Some r) => l' = hold_view r None
                   | Some None => exists nd, l' = idle_view nd
                   | None => True
                   end).
  Proof.
    induction fuel as [|fuel IH]; intros [h|] nd0 E; subst nd0; cbn [reuse_recs]; try (cbn; eauto; fail).
    - apply dsafe_fuel_out. exact I.
    - unfold xbind at 1. unfold act at 1. cbn [dbind].
      apply dsafe_act_J; [intros g; unfold a_cas_tid; destruct (Nat.eqb _ 0); apply nodisp_acc|].
      intros g a tr Hv. unfold a_cas_tid. destruct (Nat.eqb (r_tid (grec g h)) 0) eqn:Etid; cbn [fst snd].
      + apply Nat.eqb_eq in Etid.
        exists (upd_aux a t (with_hold_node (idle_view (Some h)) (Some h) None) (bown a)).
        split; [apply frame_upd_aux|]. split.
        * intros _ J. cbn [Conc.tag map acc]. rewrite hist_snoc, hstep_acc.
          assert (Haf : after g (tlist g) h) by (eapply keep_node; eauto; reflexivity).
          assert (Hlt : h < List.length (recs g)) by (destruct Haf as (S & H1 & H2 & _); eapply rchain_lt; eauto).
          apply (JA_cas_tid c g a (hist tr) t (idle_view (Some h)) h (S (hlen (hist tr))) true None J Hv Hlt Etid Haf); auto.
          intros n0 E. discriminate.
        * unfold viewA. rewrite upd_aux_same.
          apply dsafe_neut_seq; [apply quietP_neutP, quietP_act, q_st_free|exact I|intros _]. cbn. reflexivity.
      + exists a. split; [apply frame_refl|]. split.
        * intros _ J. cbn [Conc.tag map acc]. rewrite hist_snoc, hstep_acc.
          eapply JA_quiet; [apply piA_refl| | | | |exact J]; [unfold hA; cbn; repeat split; auto|reflexivity|reflexivity|apply (ja_slot _ _ _ _ J)].
        * rewrite Hv. unfold xbind at 1. unfold loc at 1. cbn [dbind].
          apply (dsafe_locread_en c t _ _ (idle_view (Some h)) (fun _ => None) (fun g0 => r_next (grec g0 h))).
          -- intros g0. reflexivity.
          -- intros g0 a0 h0 Hv0 J0. split; [intros e0 fl E; discriminate|].
             intros n0 E. eapply after_next_inlist; eauto. eapply keep_node; eauto.
          -- intros g0. cbn [fst snd]. apply (IH (r_next (grec g0 h)) (r_next (grec g0 h)) eq_refl).
  Qed.

  (** push the new record: next_ = old head; CAS *)
  Lemma spec_push_rec t r : forall fuel old l nx, va_unpub l = Some (r, (true, nx)) -> va_hold l = None -> va_limbo l = None -> va_help l = None ->
    dsafeA t (push_rec fuel r old) l (fun o l' => match o with Some _ => l' = with_unpub_hold l None (Some r) | None => True end).
  Proof.
    induction fuel as [|fuel IH]; intros old l nx Hu Hh Hlm Hhp; cbn [push_rec]; [apply dsafe_fuel_out; exact I|].
    unfold xbind at 1. unfold loc at 1. cbn [dbind].
    apply dsafe_loc_J. intros g a tr Hv.
    exists (upd_aux a t (with_unpub_hold l (Some (r, (true, Some old))) (va_hold l)) (bown a)).
    split; [apply frame_upd_aux|]. split; [intros _ J; eapply JA_unpub_next; eauto|].
    unfold viewA. rewrite upd_aux_same. cbn [fst snd]. set (l1 := with_unpub_hold l (Some (r, (true, Some old))) (va_hold l)).
    unfold xbind at 1. unfold act at 1. cbn [dbind].
    apply dsafe_act_J; [intros g1; unfold a_cas_tlist; destruct (oeqb _ _); apply nodisp_acc|].
    intros g1 a1 tr1 Hv1. unfold a_cas_tlist. destruct (oeqb (tlist g1) old) eqn:Eo; cbn [fst snd].
    - apply oeqb_eq in Eo.
      exists (upd_aux a1 t (with_unpub_hold l1 None (Some r)) (bown a1)). split; [apply frame_upd_aux|]. split.
      + intros _ J. cbn [Conc.tag map acc]. rewrite hist_snoc, hstep_acc.
        eapply (JA_publish c g1 a1 (hist tr1) t l1 r old); eauto.
      + unfold viewA. rewrite upd_aux_same. cbn. reflexivity.
    - exists a1. split; [apply frame_refl|]. split.
      + intros _ J. cbn [Conc.tag map acc]. rewrite hist_snoc, hstep_acc.
        eapply JA_quiet; [apply piA_refl| | | | |exact J]; [unfold hA; cbn; repeat split; auto|reflexivity|reflexivity|apply (ja_slot _ _ _ _ J)].
      + rewrite Hv1. eapply dsafe_weaken; [|apply (IH (tlist g1) l1 (Some old)); auto].
        intros [x|] l2 K; [|exact I]. subst l2. reflexivity.
  Qed.
End AttachA.
