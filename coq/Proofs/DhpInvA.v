(** * DhpInvA: the invariant behind C02 (no dispose while guarded) for LV.Model.Dhp.

    Auxiliary state: per thread a view [VA] (what the thread owns / where its scan stands) and a global map
    [bown] giving every guard block its current owner.  [JA] relates the shared state [g], the auxiliary state
    and the history summary [hist tr]. *)
From Coq Require Import ZArith NArith List String Bool Lia PeanoNat.
From LV Require Import Base.Conc Base.Events Model.DhpLang Model.Dhp Proofs.DhpBase Proofs.DhpHist.
Import ListNotations.

Inductive bowner := BNone | BFree | BPriv (t : nat) | BLinked (r : nat).

(** where stage 1 of a scan stands *)
Inductive pos :=
| PStart                                   (* before thread_list_.load() *)
| PNode (o : option nat)                   (* about to visit record o *)
| PInit (n j : nat)                        (* in the initial array of record n, cells < j read *)
| PChain (n : nat) (o : option nat) (j : nat)   (* in the extension list of n, at block o, cells < j of it read *)
| PDone (n : nat).                         (* record n finished, next_ not yet read *)

Record sstate := mkSS { ss_s0 : nat; ss_pl : list nat; ss_seen : list gref; ss_pos : pos }.

Record VA := mkVA {
  va_tls : option nat;       (* the record this thread is attached to (between "_att" and "_det") *)
  va_unpub : option (nat * (bool * option (option nat)));
     (* a record created by this thread and not yet pushed on thread_list_; thread_id_ stored?; value written to next_ *)
  va_hold : option nat;      (* a record owned through thread_id_ while attaching / detaching *)
  va_help : option nat;      (* a record acquired by help_scan *)
  va_node : option nat;      (* a record met while walking thread_list_ (alloc_thread_data) *)
  va_blk : option nat;       (* a guard block taken from the allocator and not yet linked *)
  va_e : option (option nat * bool);   (* the value of extended_list_ read by thread_hp_storage::extend; written to next_block_ of the new block? *)
  va_limbo : option (option nat * list nat);   (* the guard blocks of the record being detached that are still to be freed *)
  va_scan : option sstate }.

(** what is known about an unpublished record [x] of thread [t] *)
Definition unpub_info (x : rec) (t : nat) (bt : bool * option (option nat)) : Prop :=
  match snd bt with
  | Some o => r_tid x = (if fst bt then S t else 0) /\ r_next x = o
  | None => r_tid x = (if fst bt then S t else 0)
  end.

Definition va0 : VA := mkVA None None None None None None None None None.

Record AuxA := mkAuxA { views : nat -> VA; bown : nat -> bowner }.
Definition viewA (a : AuxA) (t : nat) : VA := views a t.

Definition set_view (a : AuxA) (t : nat) (v : VA) : AuxA :=
  mkAuxA (fun x => if Nat.eqb x t then v else views a x) (bown a).
Definition set_bown (a : AuxA) (b : nat) (w : bowner) : AuxA :=
  mkAuxA (views a) (fun x => if Nat.eqb x b then w else bown a x).

Lemma view_set_same a t v : viewA (set_view a t v) t = v.
Proof. unfold viewA, set_view. cbn. now rewrite Nat.eqb_refl. Qed.
Lemma view_set_other a t v t' : t' <> t -> viewA (set_view a t v) t' = viewA a t'.
Proof. unfold viewA, set_view. cbn. intros H. destruct (Nat.eqb_spec t' t); congruence. Qed.
Lemma frame_set_view a t v : Conc.frame viewA t a (set_view a t v).
Proof. intros t' H. now apply view_set_other. Qed.
Lemma frame_set_bown a t b w : Conc.frame viewA t a (set_bown a b w).
Proof. intros t' H. reflexivity. Qed.

Section InvA.
  Variable c : cfg.
  Notation HH := (eff_H c).
  Notation GBk := (c_GB c).

  (** the list of thread records reachable from [o] through next_ *)
  Fixpoint rchain (g : G) (o : option nat) (l : list nat) : Prop :=
    match l with
    | [] => o = None
    | r :: l' => o = Some r /\ r < List.length (recs g) /\ rchain g (r_next (grec g r)) l'
    end.

  (** the list of guard blocks reachable from [o] through next_block_ *)
  Fixpoint gchain (g : G) (o : option nat) (l : list nat) : Prop :=
    match l with
    | [] => o = None
    | b :: l' => o = Some b /\ b < List.length (gbs g) /\ List.length (gb_slots (ggb g b)) = GBk /\
                 gchain g (gb_nextb (ggb g b)) l'
    end.

  Lemma rchain_fun g o l1 l2 : rchain g o l1 -> rchain g o l2 -> l1 = l2.
  Proof.
    revert o l2; induction l1 as [|x l IH]; intros o [|y l2] H1 H2; cbn in *; auto; try (destruct H2; congruence); try (destruct H1; congruence).
    destruct H1 as (E1 & _ & H1), H2 as (E2 & _ & H2). assert (x = y) by congruence. subst y. f_equal. eauto.
  Qed.

  Lemma gchain_fun g o l1 l2 : gchain g o l1 -> gchain g o l2 -> l1 = l2.
  Proof.
    revert o l2; induction l1 as [|x l IH]; intros o [|y l2] H1 H2; cbn in *; auto; try (destruct H2; congruence); try (destruct H1; congruence).
    destruct H1 as (E1 & _ & _ & H1), H2 as (E2 & _ & _ & H2). assert (x = y) by congruence. subst y. f_equal. eauto.
  Qed.

  (** record [r] comes at or after [o] in the thread list *)
  Definition after (g : G) (o : option nat) (r : nat) : Prop :=
    exists S, rchain g o S /\ In r S /\ forall L, rchain g (tlist g) L -> incl S L.

  (** the record a hazard cell belongs to *)
  Definition srec (h : H) (s : gref) (r : nat) : Prop :=
    match s with
    | GI r' _ => r' = r
    | GE b _ => exists k, In (b, k) (linked h r)
    end.

  (** cell [s] is still in front of a scan standing at [p] *)
  Definition ahead (g : G) (h : H) (p : pos) (s : gref) : Prop :=
    match p with
    | PStart => True
    | PNode o => exists r, srec h s r /\ after g o r
    | PInit n j =>
        (exists i, s = GI n i /\ j <= i) \/ (exists b i, s = GE b i /\ srec h s n) \/
        (exists r, srec h s r /\ after g (r_next (grec g n)) r)
    | PChain n o j =>
        (exists b i S, s = GE b i /\ gchain g o S /\ incl S (map fst (linked h n)) /\
                       ((exists S', S = b :: S' /\ j <= i) \/ (exists x S', S = x :: S' /\ In b S'))) \/
        (exists r, srec h s r /\ after g (r_next (grec g n)) r)
    | PDone n => exists r, srec h s r /\ after g (r_next (grec g n)) r
    end.

  (** the record a scan stands at is on the thread list *)
  Definition pos_ok (g : G) (p : pos) : Prop :=
    match p with
    | PStart | PNode None => True
    | PNode (Some n) | PInit n _ | PChain n _ _ | PDone n => after g (tlist g) n
    end.

  Definition scan_ok (g : G) (h : H) (ss : sstate) : Prop :=
    ss_s0 ss < hlen h /\ pos_ok g (ss_pos ss) /\
    (forall s w, In s (ss_seen ss) -> lastw h s = Some w -> w < ss_s0 ss -> slotv h s <> 0 -> In (slotv h s) (ss_pl ss)) /\
    (forall s k, live c h s k -> k < ss_s0 ss -> In s (ss_seen ss) \/ ahead g h (ss_pos ss) s).

  Record JA (g : G) (a : AuxA) (h : H) : Prop := {
    ja_list : exists L, rchain g (tlist g) L /\ NoDup L;
    ja_att : forall r t k, att h r = Some (t, k) ->
               va_tls (views a t) = Some r /\ r_tid (grec g r) = S t /\ r < List.length (recs g) /\
               List.length (r_slots (grec g r)) = HH /\ after g (tlist g) r /\ k < hlen h /\
               gchain g (r_ext (grec g r)) (map fst (linked h r)) /\ NoDup (map fst (linked h r)) /\
               (forall b kb, In (b, kb) (linked h r) -> bown a b = BLinked r /\ k < kb /\ kb < hlen h);
    ja_tls : forall t r, va_tls (views a t) = Some r -> exists k, att h r = Some (t, k);
    ja_unatt : forall r, att h r = None -> linked h r = [];
    ja_unpub : forall t r bt, va_unpub (views a t) = Some (r, bt) ->
               r < List.length (recs g) /\ att h r = None /\ (forall L, rchain g (tlist g) L -> ~ In r L) /\
               r_ext (grec g r) = None /\ unpub_info (grec g r) t bt /\
               (forall t' bt', va_unpub (views a t') = Some (r, bt') -> t' = t);
    ja_hold : forall t r, va_hold (views a t) = Some r ->
               r < List.length (recs g) /\ att h r = None /\ r_tid (grec g r) = S t /\ after g (tlist g) r /\
               List.length (r_slots (grec g r)) = HH /\ (va_limbo (views a t) = None -> r_ext (grec g r) = None);
    ja_help : forall t r, va_help (views a t) = Some r -> r_tid (grec g r) = S t /\ att h r = None /\ va_hold (views a t) <> Some r;
    ja_ext0 : forall r, r < List.length (recs g) -> att h r = None ->
               r_ext (grec g r) = None \/ exists t, va_hold (views a t) = Some r /\ va_limbo (views a t) <> None;
    ja_blk : forall t b, va_blk (views a t) = Some b ->
               bown a b = BPriv t /\ b < List.length (gbs g) /\ List.length (gb_slots (ggb g b)) = GBk /\
               (forall o lb, va_limbo (views a t) = Some (o, lb) -> ~ In b lb);
    ja_limbo : forall t o lb, va_limbo (views a t) = Some (o, lb) ->
               gchain g o lb /\ NoDup lb /\ forall b, In b lb -> bown a b = BPriv t;
    ja_free : (forall b, In b (freeh h FHp) <-> bown a b = BFree) /\ NoDup (freeh h FHp);
    ja_bnd : forall b, List.length (gbs g) <= b -> bown a b = BNone;
    ja_recs : forall r, r < List.length (recs g) -> List.length (r_slots (grec g r)) = HH;
    ja_gbs : forall b, b < List.length (gbs g) -> List.length (gb_slots (ggb g b)) = GBk;
    ja_e : forall t e f, va_e (views a t) = Some (e, f) -> exists r, va_tls (views a t) = Some r /\ r_ext (grec g r) = e /\
             (f = true -> exists b, va_blk (views a t) = Some b /\ gb_nextb (ggb g b) = e);
    ja_node : forall t n, va_node (views a t) = Some n -> after g (tlist g) n;
    ja_slot : forall s, slot_get g s = slotv h s;
    ja_scan : forall t, match va_scan (views a t) with
                        | Some ss => scan h t = Some (ss_s0 ss) /\ scan_ok g h ss
                        | None => scan h t = None
                        end }.

  Definition InvA (g : G) (a : AuxA) (tr : list (nat * ev)) : Prop :=
    flbad (hist tr) = false -> JA g a (hist tr) /\ no_dispose_while_guarded c tr.
End InvA.

(** ** changes of the shared state / of the history that the invariant does not look at *)
Definition piA (g g' : G) : Prop :=
  tlist g' = tlist g /\ List.length (recs g') = List.length (recs g) /\ List.length (gbs g') = List.length (gbs g) /\
  (forall r, r_next (grec g' r) = r_next (grec g r) /\ r_tid (grec g' r) = r_tid (grec g r) /\
             List.length (r_slots (grec g' r)) = List.length (r_slots (grec g r)) /\ r_ext (grec g' r) = r_ext (grec g r)) /\
  (forall b, gb_nextb (ggb g' b) = gb_nextb (ggb g b) /\
             List.length (gb_slots (ggb g' b)) = List.length (gb_slots (ggb g b))).

Definition hA (h h' : H) : Prop :=
  (forall s, (slotv h' s = slotv h s /\ lastw h' s = lastw h s) \/ (exists w, lastw h' s = Some w /\ hlen h <= w)) /\
  (forall r, att h' r = att h r) /\
  (forall r, linked h' r = linked h r) /\ hlen h <= hlen h'.

Lemma piA_refl g : piA g g.
Proof. unfold piA. repeat split; auto. Qed.
Lemma hA_refl h : hA h h.
Proof. unfold hA. repeat split; auto. Qed.
Definition same_slots (g g' : G) : Prop := forall s, slot_get g' s = slot_get g s.
Lemma piA_trans g1 g2 g3 : piA g1 g2 -> piA g2 g3 -> piA g1 g3.
Proof.
  intros (A1&A2&A3&A4&A5) (B1&B2&B3&B4&B5). unfold piA.
  split; [congruence|]. split; [congruence|]. split; [congruence|]. split.
  - intros r. destruct (A4 r) as (X1&X2&X3&X4), (B4 r) as (Y1&Y2&Y3&Y4). repeat split; congruence.
  - intros b. destruct (A5 b) as (X1&X2), (B5 b) as (Y1&Y2). split; congruence.
Qed.
Section Quiet.
  Variable c : cfg.

  Lemma rchain_piA g g' o l : piA g g' -> rchain g o l -> rchain g' o l.
  Proof.
    intros (A1&A2&A3&A4&A5). revert o; induction l as [|x l IH]; intros o H; cbn in *; auto.
    destruct H as (H0 & H1 & H2). destruct (A4 x) as (E&_). rewrite E. repeat split; auto; lia.
  Qed.

  Lemma gchain_piA g g' o l : piA g g' -> gchain c g o l -> gchain c g' o l.
  Proof.
    intros (A1&A2&A3&A4&A5). revert o; induction l as [|x l IH]; intros o H; cbn in *; auto.
    destruct H as (H0 & H1 & H2 & H3). destruct (A5 x) as (E1&E2). rewrite E1, E2. repeat split; auto; lia.
  Qed.

  Lemma piA_sym g g' : piA g g' -> piA g' g.
  Proof.
    intros (A1&A2&A3&A4&A5). unfold piA. repeat split; try congruence.
    - destruct (A4 r) as (X&_); congruence. - destruct (A4 r) as (_&X&_); congruence.
    - destruct (A4 r) as (_&_&X&_); congruence. - destruct (A4 r) as (_&_&_&X); congruence.
    - destruct (A5 b) as (X&_); congruence. - destruct (A5 b) as (_&X); congruence.
  Qed.

  Lemma after_piA g g' o r : piA g g' -> after g o r -> after g' o r.
  Proof.
    intros P (S & H1 & H2 & H3). exists S. split; [eapply rchain_piA; eauto|]. split; auto.
    intros L HL. apply H3. pose proof P as (A1&_). rewrite A1 in HL.
    eapply rchain_piA; [apply piA_sym; exact P|exact HL].
  Qed.

  Lemma srec_hA h h' s r : hA h h' -> srec h s r -> srec h' s r.
  Proof. intros (_&_&A4&_). destruct s; cbn; auto. now rewrite A4. Qed.

  Lemma live_hA h h' s k : hA h h' -> live c h' s k -> live c h s k.
  Proof.
    intros (_&A3&A4&_). destruct s as [r i|b i]; cbn.
    - intros (t & H1 & H2). exists t. now rewrite <- A3.
    - intros (r & t & k0 & H1 & H2 & H3). exists r, t, k0. now rewrite <- A3, <- A4.
  Qed.

  Lemma ahead_quiet g g' h h' p s : piA g g' -> hA h h' -> ahead c g h p s -> ahead c g' h' p s.
  Proof.
    intros P Hh. pose proof P as (A1&A2&A3&A4&A5). pose proof Hh as (B1&B3&B4&B7).
    destruct p as [|o|n j|n o j|n]; cbn; auto.
    - intros (r & H1 & H2). exists r. split; [eapply srec_hA; eauto|eapply after_piA; eauto].
    - destruct (A4 n) as (E&_). rewrite E. intros [H|[H|H]]; [left; exact H| |].
      + right; left. destruct H as (b & i & H1 & H2). exists b, i. split; auto. eapply srec_hA; eauto.
      + right; right. destruct H as (r & H1 & H2). exists r. split; [eapply srec_hA; eauto|eapply after_piA; eauto].
    - destruct (A4 n) as (E&_). rewrite E. intros [H|H].
      + left. destruct H as (b & i & S & H1 & H2 & H3 & H4). exists b, i, S. rewrite B4.
        split; auto. split; [eapply gchain_piA; eauto|]. split; auto.
      + right. destruct H as (r & H1 & H2). exists r. split; [eapply srec_hA; eauto|eapply after_piA; eauto].
    - destruct (A4 n) as (E&_). rewrite E. intros (r & H1 & H2). exists r. split; [eapply srec_hA; eauto|eapply after_piA; eauto].
  Qed.

  Lemma scan_ok_quiet g g' h h' ss : piA g g' -> hA h h' -> scan_ok c g h ss -> scan_ok c g' h' ss.
  Proof.
    intros P Hh (S1 & S0 & S2 & S3). pose proof Hh as (B1&B3&B4&B7). unfold scan_ok.
    split; [lia|]. split.
    { pose proof P as (A1&_). destruct (ss_pos ss) as [|[n|]|n j|n o j|n]; cbn in *; auto; rewrite A1; eapply after_piA; eauto. }
    split.
    - intros s w Hs Hw Hlt Hv. destruct (B1 s) as [(E1&E2)|(w' & E1 & E2)].
      + rewrite E1 in *. rewrite E2 in Hw. eauto.
      + rewrite E1 in Hw. inversion Hw; subst. lia.
    - intros s k Hl Hk. destruct (S3 s k (live_hA _ _ _ _ Hh Hl) Hk) as [X|X]; [left; exact X|right]. eapply ahead_quiet; eauto.
  Qed.

  Lemma JA_quiet g g' a h h' : piA g g' -> hA h h' -> (forall t, scan h' t = scan h t) ->
    freeh h' FHp = freeh h FHp -> (forall s, slot_get g' s = slotv h' s) -> JA c g a h -> JA c g' a h'.
  Proof.
    intros P Hh B5 B6 Hsl J. pose proof P as (A1&A2&A3&A4&A5). pose proof Hh as (B1&B3&B4&B7).
    destruct J as [J1 J2 J3 J4 J5 J6 J7 J8 J9 J10 J11 J12 J15 J16 J17 J18 J13 J14]. constructor.
    - destruct J1 as (L & H1 & H2). exists L. rewrite A1. split; auto. eapply rchain_piA; eauto.
    - intros r t k Ha. rewrite B3 in Ha. destruct (J2 r t k Ha) as (X1&X2&X3&X4&X5&X6&X7&X8&X9).
      destruct (A4 r) as (E1&E2&E3&E4). rewrite E2, E3, E4, A2, B4.
      split; [exact X1|]. split; [exact X2|]. split; [exact X3|]. split; [exact X4|].
      split; [rewrite A1; eapply after_piA; eauto|]. split; [lia|].
      split; [eapply gchain_piA; eauto|]. split; [exact X8|].
      intros b kb Hb. destruct (X9 b kb Hb) as (Y1&Y2&Y3). repeat split; auto; lia.
    - intros t r Ht. destruct (J3 t r Ht) as (k & Hk). exists k. now rewrite B3.
    - intros r Ha. rewrite B3 in Ha. rewrite B4. auto.
    - intros t r bt Ht. destruct (J5 t r bt Ht) as (X1&X2&X3&X4&X5&X6). destruct (A4 r) as (E1&E2&E3&E4).
      rewrite A2, B3, E4.
      split; auto. split; auto. split; [|split; auto; split; [|exact X6]].
      + intros L HL. apply X3. rewrite A1 in HL. eapply rchain_piA; [apply piA_sym; exact P|exact HL].
      + unfold unpub_info in *. rewrite E1, E2. exact X5.
    - intros t r Ht. destruct (J6 t r Ht) as (X1&X2&X3&X4&X5&X6). destruct (A4 r) as (E1&E2&E3&E4).
      rewrite A2, B3, E2, E3, E4. repeat split; auto. rewrite A1. eapply after_piA; eauto.
    - intros t r Ht. destruct (J7 t r Ht) as (X1&X2&X3). destruct (A4 r) as (E1&E2&E3&E4). rewrite E2, B3. auto.
    - intros r Hr Ha. rewrite A2 in Hr. rewrite B3 in Ha. destruct (A4 r) as (E1&E2&E3&E4). rewrite E4. auto.
    - intros t b Ht. destruct (J9 t b Ht) as (X1&X2&X3&X4). destruct (A5 b) as (E1&E2). rewrite A3, E2. auto.
    - intros t o lb Ht. destruct (J10 t o lb Ht) as (X1&X2&X3). repeat split; auto. eapply gchain_piA; eauto.
    - rewrite B6. exact J11.
    - intros b Hb. apply J12. lia.
    - intros r Hr. destruct (A4 r) as (_&_&E&_). rewrite E. apply J15. lia.
    - intros b Hb. destruct (A5 b) as (_&E). rewrite E. apply J16. lia.
    - intros t e f Ht. destruct (J17 t e f Ht) as (r & X1 & X2 & X3). exists r. split; auto. split; [destruct (A4 r) as (_&_&_&E); congruence|].
      intros Hf. destruct (X3 Hf) as (b & Y1 & Y2). exists b. split; auto. destruct (A5 b) as (E&_). congruence.
    - intros t n Ht. rewrite A1. eapply after_piA; eauto.
    - exact Hsl.
    - intros t. specialize (J14 t). destruct (va_scan (views a t)) as [ss|]; rewrite B5; auto.
      destruct J14 as (X1 & X2). split; auto. eapply scan_ok_quiet; eauto.
  Qed.
End Quiet.
