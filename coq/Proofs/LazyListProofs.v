(** * LazyListProofs: every operation of the LazyList model is [Conc.safe] for the structural invariant;
      "no key is present twice" for every reachable configuration (every schedule, any number of threads). *)
From Coq Require Import ZArith List String Bool Lia PeanoNat.
From LV Require Import Base.Conc Base.Events.
From LV Require Import Model.LazyList Proofs.LazyListBase Proofs.LazyListInv Proofs.LazyListSteps Proofs.LazyListActs
                       Proofs.LazyListDefs.
Import ListNotations.
Local Open Scope Z_scope.

Notation safe := (@Conc.safe G V ev aux lview view Inv).
Notation "x <- p ;; q" := (Conc.bind p (fun x => q)) (at level 61, p at next level, right associativity).

(** ** plumbing *)
Lemma safe_assign_guard t s lv (Q : unit -> lview -> Prop) : Q tt lv -> safe t (assign_guard t s) lv Q.
Proof. intros H. unfold assign_guard. apply safe_neutral with (v := v0); [apply neutral_nop|]. apply safe_neutral with (v := v0); [apply neutral_nop|]. exact H. Qed.
Lemma safe_copy_guard t d s lv (Q : unit -> lview -> Prop) : Q tt lv -> safe t (copy_guard t d s) lv Q.
Proof. intros H. unfold copy_guard. apply safe_neutral with (v := v0); [apply neutral_nop|]. apply safe_assign_guard. exact H. Qed.
Lemma safe_retire t lv (Q : unit -> lview -> Prop) : Q tt lv -> safe t (retire t) lv Q.
Proof. intros H. unfold retire. apply safe_neutral with (v := v0); [apply neutral_nop|]. apply safe_neutral with (v := v0); [apply neutral_nop|]. exact H. Qed.
Lemma safe_use_guarded t s lv (Q : unit -> lview -> Prop) : Q tt lv -> safe t (use_guarded t s) lv Q.
Proof. intros H. unfold use_guarded. apply safe_neutral with (v := v0); [apply neutral_nop|]. apply safe_neutral with (v := v0); [apply neutral_nop|]. exact H. Qed.
Lemma safe_cnt_inc ic lv t (Q : unit -> lview -> Prop) : Q tt lv -> safe t (cnt_inc ic) lv Q.
Proof. intros H. unfold cnt_inc. destruct ic; [|exact H]. apply safe_neutral with (v := v0); [apply neutral_cnt|]. exact H. Qed.
Lemma safe_cnt_dec ic lv t (Q : unit -> lview -> Prop) : Q tt lv -> safe t (cnt_dec ic) lv Q.
Proof. intros H. unfold cnt_dec. destruct ic; [|exact H]. apply safe_neutral with (v := v0); [apply neutral_cnt|]. exact H. Qed.
Lemma safe_free_guards t gs : forall fr lv (Q : list nat -> lview -> Prop),
  (forall fr', Q fr' lv) -> safe t (free_guards t gs fr) lv Q.
Proof.
  induction gs as [|s gs IH]; intros fr lv Q H; cbn [free_guards]; [apply H|].
  apply safe_neutral with (v := v0); [apply neutral_nop|]. apply IH. exact H.
Qed.

Lemma incl_app_r' {A} (l1 l2 : list A) : incl l2 (l1 ++ l2).
Proof. apply incl_appr. apply incl_refl. Qed.

(** ** protect *)
Lemma safe_protect fuel : forall t s l lv (Q : option V -> lview -> Prop),
  pk (lv_facts lv) l ->
  (forall F', incl (lv_facts lv) F' -> Q None (with_facts lv F')) ->
  (forall v F', incl (lv_facts lv) F' -> incl (newfacts l v) F' -> Q (Some v) (with_facts lv F')) ->
  safe t (protect fuel t s l) lv Q.
Proof.
  induction fuel as [|f IH]; intros t s l lv Q Hp HN HS; cbn [protect].
  - cbn [Conc.safe]. destruct lv. apply (HN lv_facts). apply incl_refl.
  - apply safe_ld; [exact Hp|]. intros v _.
    apply safe_neutral with (v := v0); [apply neutral_nop|]. apply safe_neutral with (v := v0); [apply neutral_nop|].
    apply safe_ld; [eapply pk_incl; [|exact Hp]; apply incl_app_r'|]. intros v' _.
    set (F2 := newfacts l v' ++ newfacts l v ++ lv_facts lv).
    assert (I0 : incl (lv_facts lv) F2) by (unfold F2; apply incl_appr; apply incl_app_r').
    destruct (veqb v v').
    + cbn [Conc.safe]. apply (HS v F2); auto. unfold F2. apply incl_appr. apply incl_appl. apply incl_refl.
    + change (safe t (protect f t s l) (with_facts lv F2) Q). apply IH.
      * eapply pk_incl; eauto.
      * intros F' HF. cbn [with_facts lv_facts] in HF. apply (HN F'). eapply incl_tran; eauto.
      * intros w F' HF HF'. cbn [with_facts lv_facts] in HF. apply (HS w F'); auto. eapply incl_tran; eauto.
Qed.

(** ** search *)
Definition cur_ok (F : list fact) (pCur : V) : Prop :=
  vptr pCur = HEAD \/ vptr pCur = TAIL \/ In (FPub (vptr pCur) (vkey pCur)) F.

Definition found_ok (F : list fact) (k : Z) (pPred : nat) (pCur : V) : Prop :=
  klt F pPred k /\ (vptr pCur = TAIL \/ (In (FPub (vptr pCur) (vkey pCur)) F /\ k <= vkey pCur)).

Lemma klt_incl F F' m k : incl F F' -> klt F m k -> klt F' m k.
Proof. intros H [->|(km & Hk & Hl)]; [left; reflexivity|right; exists km; auto]. Qed.

Lemma cur_pk F pCur : cur_ok F pCur -> pk F (vptr pCur).
Proof. intros [H|[H|H]]; unfold pk; eauto. Qed.

Lemma newfacts_cur n v F : n <> TAIL -> incl (newfacts n v) F -> cur_ok F v.
Proof.
  unfold newfacts, cur_ok. intros Hn H. destruct (Nat.eqb_spec n TAIL); [contradiction|].
  destruct (Nat.eqb_spec (vptr v) HEAD); [left; assumption|]. destruct (Nat.eqb_spec (vptr v) TAIL); [right; left; assumption|].
  right. right. apply H. left. reflexivity.
Qed.

Lemma safe_search fuel : forall t g0 g1 k pPrev pCur lv (Q : option (nat * V) -> lview -> Prop),
  klt (lv_facts lv) pPrev k -> cur_ok (lv_facts lv) pCur ->
  (forall F', incl (lv_facts lv) F' -> Q None (with_facts lv F')) ->
  (forall F' pp pc, incl (lv_facts lv) F' -> found_ok F' k pp pc -> Q (Some (pp, pc)) (with_facts lv F')) ->
  safe t (search fuel t g0 g1 k pPrev pCur) lv Q.
Proof.
  induction fuel as [|f IH]; intros t g0 g1 k pPrev pCur lv Q Hkl Hcur HN HS; cbn [search].
  - cbn [Conc.safe]. destruct lv. apply (HN lv_facts). apply incl_refl.
  - destruct (Nat.eqb_spec (vptr pCur) TAIL) as [ET|ET].
    { cbn [Conc.safe]. destruct lv as [F H o h]. apply (HS F pPrev pCur); [apply incl_refl|]. split; auto. }
    destruct (negb (Nat.eqb (vptr pCur) HEAD) && Z.leb k (vkey pCur)) eqn:Estop.
    { cbn [Conc.safe]. destruct lv as [F H o h]. apply (HS F pPrev pCur); [apply incl_refl|]. split; auto.
      apply andb_true_iff in Estop. destruct Estop as [E1 E2]. apply negb_true_iff, Nat.eqb_neq in E1. apply Z.leb_le in E2.
      right. destruct Hcur as [Hc|[Hc|Hc]]; try contradiction. auto. }
    assert (Hkl' : klt (lv_facts lv) (vptr pCur) k).
    { apply andb_false_iff in Estop. destruct Estop as [E|E].
      - apply negb_false_iff, Nat.eqb_eq in E. left. exact E.
      - apply Z.leb_gt in E. destruct Hcur as [Hc|[Hc|Hc]]; [left; exact Hc|contradiction|]. right. exists (vkey pCur). auto. }
    apply Conc.safe_bind. apply safe_copy_guard.
    apply Conc.safe_bind. apply safe_protect; [apply cur_pk; exact Hcur|..].
    + intros F' HF. cbn [Conc.safe]. apply HN. exact HF.
    + intros nx F1 HF1 HN1. cbn beta iota. destruct (vmark nx).
      * change (safe t (search f t g0 g1 k HEAD (mkV HEAD false 0)) (with_facts lv F1) Q). apply IH.
        -- left. reflexivity.
        -- left. reflexivity.
        -- intros F' HF. cbn [with_facts lv_facts] in HF. apply HN. eapply incl_tran; eauto.
        -- intros F' pp pc HF Hf. cbn [with_facts lv_facts] in HF. apply HS; auto. eapply incl_tran; eauto.
      * change (safe t (search f t g0 g1 k (vptr pCur) nx) (with_facts lv F1) Q). apply IH.
        -- eapply klt_incl; [exact HF1|exact Hkl'].
        -- eapply (newfacts_cur (vptr pCur)); [exact ET|exact HN1].
        -- intros F' HF. cbn [with_facts lv_facts] in HF. apply HN. eapply incl_tran; eauto.
        -- intros F' pp pc HF Hf. cbn [with_facts lv_facts] in HF. apply HS; auto. eapply incl_tran; eauto.
Qed.

(** ** spin locks *)
Lemma safe_lock_loops fuel : forall t n lv (Q : bool -> lview -> Prop),
  pk (lv_facts lv) n ->
  (~ holds lv n -> Q true (with_held lv ((n, None) :: lv_held lv))) -> Q false lv ->
  safe t (lock_outer fuel n) lv Q /\ safe t (lock_inner fuel n) lv Q.
Proof.
  induction fuel as [|f IH]; intros t n lv Q Hn HT HF; split; cbn [lock_outer lock_inner]; try (cbn [Conc.safe]; exact HF).
  - apply safe_xchg; [exact Hn| |].
    + cbn [vmark vok]. apply IH; auto.
    + intros Hfree. cbn [vmark vok Conc.safe]. apply HT. exact Hfree.
  - apply safe_ldlock. intros b. cbn [vmark vok]. destruct b; apply IH; auto.
Qed.

Lemma safe_lock_outer fuel t n lv (Q : bool -> lview -> Prop) :
  pk (lv_facts lv) n ->
  (~ holds lv n -> Q true (with_held lv ((n, None) :: lv_held lv))) -> Q false lv ->
  safe t (lock_outer fuel n) lv Q.
Proof. intros. apply safe_lock_loops; auto. Qed.

Lemma safe_unlock' t n lv (Q : unit -> lview -> Prop) :
  holds lv n -> lv_hole lv = None -> Q tt (with_held lv (release (lv_held lv) n)) -> safe t (unlock n) lv Q.
Proof. intros H1 H2 H3. unfold unlock. apply safe_unlock; auto. Qed.

Lemma safe_unlock_pos t p c lv (Q : unit -> lview -> Prop) :
  holds lv p -> holds lv c -> p <> c -> lv_hole lv = None ->
  Q tt (with_held lv (release (release (lv_held lv) c) p)) -> safe t (unlock_pos p c) lv Q.
Proof.
  intros Hp Hc Hpc Hh HQ. unfold unlock_pos. apply Conc.safe_bind. apply safe_unlock'; auto.
  apply safe_unlock'; auto. destruct Hp as [o Ho]. exists o. cbn. apply release_in. auto.
Qed.

(** ** validate: both locks are held; on success the predecessor is unmarked and points to the current node,
       which is unmarked *)
Lemma safe_validate t p c lv (Q : bool -> lview -> Prop) :
  holds lv p -> holds lv c ->
  (forall F' H', incl (lv_facts lv) F' -> incl (lv_held lv) H' -> Q false (mkLV F' H' (lv_own lv) (lv_hole lv))) ->
  (forall F' H' x, incl (lv_facts lv) F' -> incl (lv_held lv) H' -> In (p, Some (c, false)) H' -> In (c, Some (x, false)) H' ->
        Q true (mkLV F' H' (lv_own lv) (lv_hole lv))) ->
  safe t (validate p c) lv Q.
Proof.
  intros Hp Hc HF HT. unfold validate.
  apply safe_ld_held; [exact Hp|]. intros v1 _. destruct (vmark v1).
  { cbn [Conc.safe]. apply HF; [apply incl_app_r'|apply incl_tl; apply incl_refl]. }
  apply safe_ld_held; [destruct Hc as [o Ho]; exists o; right; exact Ho|]. intros v2 _. cbn [lv_facts lv_held lv_own lv_hole].
  destruct (vmark v2) eqn:E2.
  { cbn [Conc.safe]. apply HF; [apply incl_appr; apply incl_app_r'|do 2 apply incl_tl; apply incl_refl]. }
  apply safe_ld_held; [destruct Hp as [o Ho]; exists o; right; right; exact Ho|]. intros v3 _. cbn [lv_facts lv_held lv_own lv_hole Conc.safe].
  destruct (Nat.eqb_spec (vptr v3) c) as [E3|E3]; cbn [andb].
  - destruct (vmark v3) eqn:E4; cbn [negb].
    + apply HF; [do 2 apply incl_appr; apply incl_app_r'|do 3 apply incl_tl; apply incl_refl].
    + apply (HT _ _ (vptr v2)); [do 2 apply incl_appr; apply incl_app_r'|do 3 apply incl_tl; apply incl_refl| |].
      * left. rewrite E3. reflexivity.
      * right. left. reflexivity.
  - apply HF; [do 2 apply incl_appr; apply incl_app_r'|do 3 apply incl_tl; apply incl_refl].
Qed.

Lemma holds_incl (lv : lview) H' n : incl (lv_held lv) H' -> holds lv n -> exists o, In (n, o) H'.
Proof. intros Hi [o Ho]. exists o. apply Hi. exact Ho. Qed.

(** lock both nodes of the position *)
Lemma safe_lock_pos fuel t p c lv (Q : bool -> lview -> Prop) :
  pk (lv_facts lv) p -> pk (lv_facts lv) c ->
  (p <> c -> Q true (with_held lv ((c, None) :: (p, None) :: lv_held lv))) ->
  (forall H', Q false (with_held lv H')) ->
  safe t (lock_pos fuel p c) lv Q.
Proof.
  intros Hp Hc HT HF. unfold lock_pos. apply Conc.safe_bind. apply safe_lock_outer; [exact Hp| |].
  - intros _. apply safe_lock_outer; [exact Hc| |].
    + intros Hfree. cbn [with_held lv_facts lv_held lv_own lv_hole]. apply HT.
      intros ->. apply Hfree. exists None. left. reflexivity.
    + cbn [Conc.safe]. apply (HF ((p, None) :: lv_held lv)).
  - cbn [Conc.safe]. destruct lv as [F H o h]. apply (HF H).
Qed.

(** ** the critical sections *)
Lemma found_pk F k pp pc : found_ok F k pp pc -> pk F pp /\ pk F (vptr pc).
Proof.
  intros [Hp Hc]. split.
  - destruct Hp as [->|(km & Hk & _)]; unfold pk; eauto.
  - destruct Hc as [Hc|[Hc _]]; unfold pk; eauto.
Qed.

Lemma found_kgt F k pp pc : found_ok F k pp pc -> is_key pc k = false -> kgt F (vptr pc) k.
Proof.
  intros [_ [Hc|[Hc Hle]]] Hk; [left; exact Hc|]. unfold is_key in Hk.
  destruct (Nat.eqb_spec (vptr pc) TAIL) as [E|E]; [left; exact E|]. cbn [negb andb] in Hk.
  right. exists (vkey pc). split; auto. apply Z.eqb_neq in Hk. lia.
Qed.

Lemma found_key F k pp pc : found_ok F k pp pc -> is_key pc k = true -> In (FPub (vptr pc) (vkey pc)) F.
Proof.
  intros [_ [Hc|[Hc _]]] Hk; auto. unfold is_key in Hk. rewrite Hc, Nat.eqb_refl in Hk. discriminate.
Qed.

Lemma klt_incl' F F' m k : incl F F' -> klt F m k -> klt F' m k.
Proof. apply klt_incl. Qed.
Lemma kgt_incl F F' m k : incl F F' -> kgt F m k -> kgt F' m k.
Proof. intros H [->|(km & Hk & Hl)]; [left; reflexivity|right; exists km; auto]. Qed.

Definition Qany {R} (Q : R -> lview -> Prop) : Prop := forall r lv', lv_hole lv' = None -> Q r lv'.

(** lock the position, validate; [body]: what the operation does when the validation succeeded *)
Lemma safe_section {R} t sf pp pc k (body : prog (option R)) (retry : prog (option R)) lv (Q : option R -> lview -> Prop) :
  found_ok (lv_facts lv) k pp pc -> lv_hole lv = None -> Qany Q ->
  (forall F' H' x, incl (lv_facts lv) F' -> pp <> vptr pc ->
        In (pp, Some (vptr pc, false)) H' -> In (vptr pc, Some (x, false)) H' ->
        safe t body (mkLV F' H' (lv_own lv) None) Q) ->
  (forall F' H', incl (lv_facts lv) F' -> safe t retry (mkLV F' H' (lv_own lv) None) Q) ->
  safe t (lk <- lock_pos sf pp (vptr pc) ;;
          if negb lk then Ret None
          else ok <- validate pp (vptr pc) ;;
               if ok then body else (_ <- unlock_pos pp (vptr pc) ;; retry)) lv Q.
Proof.
  intros Hf Hh HQ Hbody Hretry. destruct (found_pk _ _ _ _ Hf) as [Hp Hc].
  apply Conc.safe_bind. apply safe_lock_pos; auto.
  - intros Hpc. cbn [negb]. apply Conc.safe_bind. apply safe_validate.
    + exists None. right. left. reflexivity.
    + exists None. left. reflexivity.
    + intros F' H' HF HH. cbn [with_held lv_facts lv_held lv_own lv_hole] in *.
      apply Conc.safe_bind. apply safe_unlock_pos; cbn [lv_held lv_hole]; auto.
      * exists None. apply HH. right. left. reflexivity.
      * exists None. apply HH. left. reflexivity.
      * cbn [with_held lv_facts lv_held lv_own lv_hole]. rewrite Hh. apply Hretry. exact HF.
    + intros F' H' x HF HH H1 H2. cbn [with_held lv_facts lv_held lv_own lv_hole] in *. rewrite Hh. eapply Hbody; eauto.
  - intros H'. cbn [negb Conc.safe]. apply HQ. cbn. exact Hh.
Qed.

Lemma holds_set_obs h n v x o : In (x, o) h -> exists o', In (x, o') (set_obs h n v).
Proof. intros H. apply set_obs_holds. eauto. Qed.

(** ** the operation loops *)
Lemma safe_insert_loop fuel : forall sf ic withf t g0 g1 k n nx lv (Q : out bool -> lview -> Prop),
  lv_own lv = Some (n, k, nx) -> lv_hole lv = None -> Qany Q ->
  safe t (insert_loop fuel sf ic withf t g0 g1 k n) lv Q.
Proof.
  induction fuel as [|f IH]; intros sf ic withf t g0 g1 k n nx lv Q Hown Hh HQ; cbn [insert_loop].
  - cbn [Conc.safe]. apply HQ. exact Hh.
  - apply Conc.safe_bind. unfold search_from_head. apply safe_search; [left; reflexivity|left; reflexivity|..].
    + intros F' _. cbn [Conc.safe]. apply HQ. exact Hh.
    + intros F' pp pc HF Hf. cbn beta iota.
      apply (safe_section t sf pp pc k); auto.
      * intros F2 H2 x HF2 Hpc Hp Hc. cbn [with_facts lv_facts lv_own] in *. rewrite Hown.
        destruct (is_key pc k) eqn:Ek.
        -- apply Conc.safe_bind. apply safe_unlock_pos; [eexists; exact Hp|eexists; exact Hc|exact Hpc|reflexivity|].
           cbn [Conc.safe]. apply HQ. reflexivity.
        -- unfold link_node. apply Conc.safe_bind.
           eapply safe_st_own; [reflexivity|]. cbn [lv_facts lv_held lv_own lv_hole].
           eapply safe_st_link with (kk := k) (pc := vptr pc); cbn [lv_facts lv_held lv_own lv_hole]; auto.
           ++ eapply klt_incl; [exact HF2|]. apply Hf.
           ++ eapply kgt_incl; [exact HF2|]. eapply found_kgt; eauto.
           ++ cbn [Conc.safe].
              assert (Hu : forall (Q' : unit -> lview -> Prop) lvx, lv_held lvx = set_obs H2 pp (n, false) -> lv_hole lvx = None ->
                           Q' tt (with_held lvx (release (release (lv_held lvx) (vptr pc)) pp)) -> safe t (unlock_pos pp (vptr pc)) lvx Q').
              { intros Q' lvx E1 E2 HQ'. apply safe_unlock_pos; auto; unfold holds; rewrite E1; eapply holds_set_obs; eauto. }
              destruct withf.
              ** apply safe_emit. apply Conc.safe_bind. apply Hu; [reflexivity|reflexivity|].
                 apply Conc.safe_bind. apply safe_cnt_inc. cbn [Conc.safe]. apply HQ. reflexivity.
              ** apply Conc.safe_bind. apply Hu; [reflexivity|reflexivity|].
                 apply Conc.safe_bind. apply safe_cnt_inc. cbn [Conc.safe]. apply HQ. reflexivity.
      * intros F2 H2 HF2. cbn [with_facts lv_own]. eapply IH; eauto.
Qed.

Lemma safe_update_loop fuel : forall sf ic allow t g0 g1 k n nx lv (Q : out (bool * bool) -> lview -> Prop),
  lv_own lv = Some (n, k, nx) -> lv_hole lv = None -> Qany Q ->
  safe t (update_loop fuel sf ic allow t g0 g1 k n) lv Q.
Proof.
  induction fuel as [|f IH]; intros sf ic allow t g0 g1 k n nx lv Q Hown Hh HQ; cbn [update_loop].
  - cbn [Conc.safe]. apply HQ. exact Hh.
  - apply Conc.safe_bind. unfold search_from_head. apply safe_search; [left; reflexivity|left; reflexivity|..].
    + intros F' _. cbn [Conc.safe]. apply HQ. exact Hh.
    + intros F' pp pc HF Hf. cbn beta iota.
      apply (safe_section t sf pp pc k); auto.
      * intros F2 H2 x HF2 Hpc Hp Hc. cbn [with_facts lv_facts lv_own] in *. rewrite Hown.
        destruct (is_key pc k) eqn:Ek.
        -- apply safe_emit. apply Conc.safe_bind. apply safe_unlock_pos; [eexists; exact Hp|eexists; exact Hc|exact Hpc|reflexivity|].
           cbn [Conc.safe]. apply HQ. reflexivity.
        -- destruct allow; cbn [negb].
           ++ unfold link_node. apply Conc.safe_bind.
              eapply safe_st_own; [reflexivity|]. cbn [lv_facts lv_held lv_own lv_hole].
              eapply safe_st_link with (kk := k) (pc := vptr pc); cbn [lv_facts lv_held lv_own lv_hole]; auto.
              ** eapply klt_incl; [exact HF2|]. apply Hf.
              ** eapply kgt_incl; [exact HF2|]. eapply found_kgt; eauto.
              ** cbn [Conc.safe]. apply safe_emit. apply Conc.safe_bind.
                 apply safe_unlock_pos; auto; try (unfold holds; cbn [lv_held]; eapply holds_set_obs; eauto).
                 apply Conc.safe_bind. apply safe_cnt_inc. cbn [Conc.safe]. apply HQ. reflexivity.
           ++ apply Conc.safe_bind. apply safe_unlock_pos; [eexists; exact Hp|eexists; exact Hc|exact Hpc|reflexivity|].
              cbn [Conc.safe]. apply HQ. reflexivity.
      * intros F2 H2 HF2. cbn [with_facts lv_own]. eapply IH; eauto.
Qed.

Lemma safe_erase_loop fuel : forall sf ic code mine t g0 g1 k lv (Q : out bool -> lview -> Prop),
  lv_hole lv = None -> Qany Q ->
  safe t (erase_loop fuel sf ic code mine t g0 g1 k) lv Q.
Proof.
  induction fuel as [|f IH]; intros sf ic code mine t g0 g1 k lv Q Hh HQ; cbn [erase_loop].
  - cbn [Conc.safe]. apply HQ. exact Hh.
  - apply Conc.safe_bind. unfold search_from_head. apply safe_search; [left; reflexivity|left; reflexivity|..].
    + intros F' _. cbn [Conc.safe]. apply HQ. exact Hh.
    + intros F' pp pc HF Hf. cbn beta iota.
      apply (safe_section t sf pp pc k); auto.
      * intros F2 H2 x HF2 Hpc Hp Hc. cbn [with_facts lv_facts lv_own] in *.
        destruct (is_key pc k && (negb (Z.eqb code 6) || Nat.eqb (vptr pc) mine)) eqn:Ek.
        -- apply andb_true_iff in Ek. destruct Ek as [Ek _].
           pose proof (found_key _ _ _ _ Hf Ek) as Hfk.
           unfold unlink_node. apply Conc.safe_bind.
           apply safe_ld_held; [exists (Some (x, false)); exact Hc|]. intros v Hag. cbn [lv_facts lv_held lv_own lv_hole].
           destruct (Hag x false Hc) as [Ev1 Ev2].
           eapply safe_st_mark with (p := pp) (nx := vptr v); cbn [lv_facts lv_held lv_own lv_hole].
           ++ right. exact Hp.
           ++ left. rewrite Ev2. reflexivity.
           ++ exists (vkey pc). apply in_or_app. right. apply HF2. exact Hfk.
           ++ reflexivity.
           ++ eapply safe_st_bypass; cbn [lv_facts lv_held lv_own lv_hole]; [reflexivity|].
              cbn [Conc.safe].
              set (H3 := set_obs (set_obs ((vptr pc, Some (vptr v, vmark v)) :: H2) (vptr pc) (HEAD, true)) pp (vptr v, false)).
              assert (Hu : forall (Q' : unit -> lview -> Prop) lvx, lv_held lvx = H3 -> lv_hole lvx = None ->
                           Q' tt (with_held lvx (release (release (lv_held lvx) (vptr pc)) pp)) -> safe t (unlock_pos pp (vptr pc)) lvx Q').
              { intros Q' lvx E1 E2 HQ'. apply safe_unlock_pos; auto; unfold holds; rewrite E1; unfold H3.
                - apply set_obs_holds. apply set_obs_holds. exists (Some (vptr pc, false)). right. exact Hp.
                - apply set_obs_holds. apply set_obs_holds. eexists. left. reflexivity. }
              destruct (Z.eqb code 5).
              ** apply safe_emit. apply Conc.safe_bind. apply Hu; [reflexivity|reflexivity|].
                 apply Conc.safe_bind. apply safe_cnt_dec. apply Conc.safe_bind. apply safe_retire. cbn [Conc.safe]. apply HQ. reflexivity.
              ** apply Conc.safe_bind. apply Hu; [reflexivity|reflexivity|].
                 apply Conc.safe_bind. apply safe_cnt_dec. apply Conc.safe_bind. apply safe_retire. cbn [Conc.safe]. apply HQ. reflexivity.
        -- apply Conc.safe_bind. apply safe_unlock_pos; [eexists; exact Hp|eexists; exact Hc|exact Hpc|reflexivity|].
           cbn [Conc.safe]. apply HQ. reflexivity.
Qed.

(** ** one client operation *)
Lemma safe_give_up t lv (Q : out lstate -> lview -> Prop) : lv_hole lv = None -> Qany Q -> safe t give_up lv Q.
Proof. intros Hh HQ. unfold give_up. apply safe_emit. cbn [Conc.safe]. apply HQ. exact Hh. Qed.

Lemma safe_finish t gs fr (k : list nat -> prog (out lstate)) lv (Q : out lstate -> lview -> Prop) :
  (forall fr', safe t (k fr') lv Q) -> safe t (fr2 <- free_guards t gs fr ;; k fr2) lv Q.
Proof. intros H. apply Conc.safe_bind. apply safe_free_guards. exact H. Qed.

Lemma safe_run_op fuel sf ic t o ls lv (Q : out lstate -> lview -> Prop) :
  lv_hole lv = None -> Qany Q -> safe t (run_op fuel sf ic t o ls) lv Q.
Proof.
  intros Hh HQ. unfold run_op.
  set (code := nth 0 o 0). set (k := nth 1 o 0). set (x := nth 2 o 0).
  destruct ls as [fr own]. destruct (alloc2 fr) as [[g0 g1] fr1].
  destruct (Z.leb 1 code && Z.leb code 10); [|cbn [Conc.safe]; apply HQ; exact Hh].
  apply safe_emit.
  assert (Hret : forall (r : out lstate) es lv', lv_hole lv' = None -> safe t (Emit es (Ret r)) lv' Q).
  { intros r es lv' E. apply safe_emit. cbn [Conc.safe]. apply HQ. exact E. }
  destruct (Z.eqb code 1 || Z.eqb code 2).
  { apply safe_alloc. intros n. cbn [vptr]. apply Conc.safe_bind.
    eapply safe_insert_loop; [reflexivity|exact Hh|]. intros r lv' E. destruct r as [b|].
    - apply safe_finish. intros fr2. apply Hret. exact E.
    - apply safe_give_up; auto. }
  destruct (Z.eqb code 3).
  { apply safe_alloc. intros n. cbn [vptr]. apply Conc.safe_bind.
    eapply safe_update_loop; [reflexivity|exact Hh|]. intros r lv' E. destruct r as [[a b]|].
    - apply safe_finish. intros fr2. apply Hret. exact E.
    - apply safe_give_up; auto. }
  destruct (Z.eqb code 4 || Z.eqb code 5).
  { apply Conc.safe_bind. apply safe_erase_loop; [exact Hh|]. intros r lv' E. destruct r as [b|].
    - apply safe_finish. intros fr2. apply Hret. exact E.
    - apply safe_give_up; auto. }
  destruct (Z.eqb code 6).
  { cbv zeta.
    assert (Hbody : forall m lv0, lv_hole lv0 = None ->
       safe t (r <- erase_loop fuel sf ic 6 m t g0 g1 k ;;
               match r with
               | None => give_up
               | Some b => fr2 <- free_guards t [g0; g1] fr1 ;;
                   Emit [ev_ret (zb b) (zb (negb (Nat.eqb (own_find k own) 0)))] (Ret (Some (fr2, if b then own_del k own else own)))
               end) lv0 Q).
    { intros m lv0 E0. apply Conc.safe_bind. apply safe_erase_loop; [exact E0|]. intros r lv' E. destruct r as [b|].
      - apply safe_finish. intros fr2. apply Hret. exact E.
      - apply safe_give_up; auto. }
    destruct (Nat.eqb (own_find k own) 0).
    - apply safe_alloc. intros n. cbn [vptr]. apply Hbody. exact Hh.
    - apply Hbody. exact Hh. }
  destruct (Z.eqb code 7).
  { apply Conc.safe_bind. apply safe_erase_loop; [exact Hh|]. intros r lv' E. destruct r as [[|]|].
    - apply safe_finish. intros fr2. apply Conc.safe_bind. apply safe_use_guarded.
      apply safe_finish. intros fr3. apply Hret. exact E.
    - apply safe_finish. intros fr2. apply Hret. exact E.
    - apply safe_give_up; auto. }
  (* get, contains, find with functor *)
  apply Conc.safe_bind. unfold search_from_head. apply safe_search; [left; reflexivity|left; reflexivity|..].
  - intros F' _. apply safe_give_up; auto.
  - intros F' pp pc HF Hf. cbn beta iota.
    destruct (Nat.eqb_spec (vptr pc) TAIL) as [ET|ET].
    { apply safe_finish. intros fr2. apply Hret. exact Hh. }
    assert (Hpk : pk F' (vptr pc)) by (apply (found_pk _ _ _ _ Hf)).
    destruct (Z.eqb code 10).
    + apply Conc.safe_bind. apply safe_lock_outer; [exact Hpk| |].
      * intros _. cbn [negb].
        apply safe_ld_held; [exists None; left; reflexivity|]. intros v _. cbn [with_held with_facts lv_facts lv_held lv_own lv_hole].
        assert (Hu : forall (kk : prog (out lstate)) F2 H2, (forall H3, safe t kk (mkLV F2 H3 (lv_own lv) None) Q) ->
                       safe t (_ <- unlock (vptr pc) ;; kk) (mkLV F2 ((vptr pc, Some (vptr v, vmark v)) :: H2) (lv_own lv) None) Q).
        { intros kk F2 H2 Hkk. apply Conc.safe_bind. apply safe_unlock'; [eexists; left; reflexivity|reflexivity|]. apply Hkk. }
        rewrite Hh.
        destruct (negb (vmark v) && Z.eqb (vkey pc) k).
        -- apply safe_emit. apply Hu. intros H3. apply safe_finish. intros fr2. apply Hret. reflexivity.
        -- apply Hu. intros H3. apply safe_finish. intros fr2. apply Hret. reflexivity.
      * cbn [negb]. apply safe_give_up; auto.
    + apply safe_ld; [exact Hpk|]. intros v _. cbv zeta.
      destruct (Z.eqb code 8 && (negb (vmark v) && Z.eqb (vkey pc) k)).
      * apply safe_finish. intros fr2. apply Conc.safe_bind. apply safe_use_guarded.
        apply safe_finish. intros fr3. apply Hret. exact Hh.
      * apply safe_finish. intros fr2. apply Hret. exact Hh.
Qed.

Lemma safe_run_ops fuel sf ic t os : forall ls lv,
  lv_hole lv = None -> safe t (run_ops fuel sf ic t os ls) lv (fun _ _ => True).
Proof.
  induction os as [|o os IH]; intros ls lv Hh; cbn [run_ops]; [exact I|].
  apply Conc.safe_bind. apply safe_run_op; [exact Hh|].
  intros r lv' E. destruct r as [ls'|]; [apply IH; exact E|exact I].
Qed.

Lemma safe_thread fuel sf ic t os lv :
  lv_hole lv = None -> safe t (thread_prog fuel sf ic t os) lv (@Conc.QTrue lview).
Proof.
  intros Hh. unfold thread_prog. apply safe_neutral with (v := v0); [apply neutral_begin|].
  eapply Conc.safe_weaken; [|apply safe_run_ops; exact Hh]. intros; exact I.
Qed.

(** ** the initial configuration *)
Definition aux0 : aux := mkAux (fun _ => false) (fun _ => None) (fun _ => mkLV [] [] None None).

Lemma IS_init : IS init aux0 [].
Proof.
  constructor; cbn; try discriminate; auto.
  - split; cbn; auto.
  - intros t t' n [o []].
Qed.

Lemma thread_progs_nth fuel sf ic : forall ths s t p,
  nth_error (thread_progs fuel sf ic s ths) t = Some p ->
  exists os, p = thread_prog fuel sf ic (s + t) os.
Proof.
  induction ths as [|os ths IH]; intros s t p H; cbn [thread_progs] in H.
  - destruct t; discriminate.
  - destruct t as [|t]; cbn [nth_error] in H.
    + inversion H; subst. exists os. f_equal. lia.
    + destruct (IH (S s) t p H) as [os' E]. exists os'. rewrite E. f_equal. lia.
Qed.

Lemma init_ok fuel sf ic ths : Conc.cfg_ok view Inv (init_cfg fuel sf ic ths).
Proof.
  exists aux0. split; [exists []; exact IS_init|].
  intros t p Hp. cbn [init_cfg Conc.threads] in Hp.
  destruct (thread_progs_nth _ _ _ _ _ _ _ Hp) as [os ->]. cbn [Nat.add].
  apply safe_thread. reflexivity.
Qed.

(** ** no key is present twice: the physical traversal of unmarked nodes is a prefix of the logical chain *)
Lemma esorted_keys_increasing g : forall L, (forall n, In n L -> n <> HEAD /\ n <> TAIL) ->
  esorted (map (kf g) L) -> increasing (map (fun n => nkey (heap g n)) L).
Proof.
  induction L as [|x L IH]; intros Hnz Hs; cbn [map increasing]; [exact I|].
  cbn [map esorted] in Hs. destruct Hs as [H1 H2]. split; [|apply IH; auto; intros n Hn; apply Hnz; right; exact Hn].
  destruct L as [|y L]; cbn [map] in *; auto.
  unfold kf in H1. destruct (Hnz x (or_introl eq_refl)) as [X1 X2]. destruct (Hnz y (or_intror (or_introl eq_refl))) as [Y1 Y2].
  destruct (Nat.eqb_spec x HEAD); [contradiction|]. destruct (Nat.eqb_spec x TAIL); [contradiction|].
  destruct (Nat.eqb_spec y HEAD); [contradiction|]. destruct (Nat.eqb_spec y TAIL); [contradiction|]. exact H1.
Qed.

Lemma increasing_prefix : forall (l1 l2 : list Z), increasing (l1 ++ l2) -> increasing l1.
Proof.
  induction l1 as [|x l1 IH]; intros l2 H; cbn [increasing]; [exact I|].
  cbn [app increasing] in H. destruct H as [H1 H2]. split; [|eapply IH; eauto].
  destruct l1; cbn [app] in *; auto.
Qed.

Lemma walk_prefix g a L : IS g a L -> forall fuel L0 n,
  glinked (gnext g (a_succ a)) n L0 TAIL -> (forall x, In x L0 -> In x L) ->
  exists L1 L2, L0 = L1 ++ L2 /\ lazy_walk g fuel (gnext g (a_succ a) n) = L1.
Proof.
  intros H. induction fuel as [|f IH]; intros L0 n Hl Hin; cbn [lazy_walk].
  - exists [], L0. auto.
  - destruct L0 as [|x L0]; cbn [glinked] in Hl.
    + rewrite Hl, Nat.eqb_refl. exists [], []. auto.
    + destruct Hl as [Hx Hl]. rewrite Hx.
      assert (HxL : In x L) by (apply Hin; left; reflexivity).
      assert (HxT : x <> TAIL).
      { apply (s_pubL _ _ _ H) in HxL. apply (pub_range _ _ _ _ H) in HxL. unfold TAIL. lia. }
      destruct (Nat.eqb_spec x TAIL); [contradiction|].
      destruct (nmark (heap g x)) eqn:Em.
      * exists [], (x :: L0). auto.
      * destruct (IH L0 x Hl (fun y Hy => Hin y (or_intror Hy))) as (L1 & L2 & E & Hw).
        rewrite (gnext_unmarked _ _ _ _ H Em) in Hw.
        exists (x :: L1), L2. split; [rewrite E; reflexivity|]. rewrite Hw. reflexivity.
Qed.

Theorem lazy_sorted_nodup fuel sf ic ths c :
  Conc.reach (init_cfg fuel sf ic ths) c -> increasing (lazy_keys (Conc.shared c)).
Proof.
  intros Hr. destruct (Conc.reach_Inv (init_ok fuel sf ic ths) Hr) as (a & L & HS).
  set (g := Conc.shared c) in *. unfold lazy_keys.
  destruct (s_chain _ _ _ HS) as [Hl Hs].
  destruct (s_ends _ _ _ HS) as (Eh & _).
  destruct (walk_prefix g a L HS (S (nalloc g)) L HEAD Hl (fun x Hx => Hx)) as (L1 & L2 & E & Hw).
  rewrite (gnext_unmarked _ _ _ _ HS Eh) in Hw. rewrite Hw.
  assert (Hnz : forall n, In n L -> n <> HEAD /\ n <> TAIL).
  { intros n Hn. apply (s_pubL _ _ _ HS) in Hn. apply (pub_range _ _ _ _ HS) in Hn. unfold HEAD, TAIL. lia. }
  assert (Hinc : increasing (map (fun n => nkey (heap g n)) L)).
  { apply esorted_keys_increasing; auto. cbn [map] in Hs. apply esorted_tail in Hs. rewrite map_app in Hs.
    clear -Hs. induction (map (kf g) L) as [|y l IH]; cbn [app esorted] in *; auto.
    destruct Hs as [H1 H2]. split; auto. destruct l; cbn [app] in *; auto. }
  rewrite E, map_app in Hinc. eapply increasing_prefix; eauto.
Qed.
