(** * LazyListProofs: every operation of the LazyList model is [Conc.safe] for the structural invariant;
      "no key is present twice" for every reachable configuration (every schedule, any number of threads). *)
From Coq Require Import ZArith List String Bool Lia PeanoNat.
From LV Require Import Base.Conc Base.Events.
From LV Require Import Model.LazyList Proofs.LazyListBase Proofs.LazyListInv Proofs.LazyListSteps Proofs.LazyListActs
                       Proofs.LazyListDefs.
Import ListNotations.
Local Open Scope Z_scope.

Notation safe := (@Conc.safe G V ev aux lview view Inv).
Notation "x <- p ;; q" := (Conc.bind p (fun x => q)) (at level 61, p at next level, right associativity).

(** ** plumbing *)
Lemma safe_assign_guard t s lv (Q : unit -> lview -> Prop) : Q tt lv -> safe t (assign_guard t s) lv Q.
Proof. intros H. unfold assign_guard. apply safe_neutral with (v := v0); [apply neutral_nop|]. apply safe_neutral with (v := v0); [apply neutral_nop|]. exact H. Qed.
Lemma safe_copy_guard t d s lv (Q : unit -> lview -> Prop) : Q tt lv -> safe t (copy_guard t d s) lv Q.
Proof. intros H. unfold copy_guard. apply safe_neutral with (v := v0); [apply neutral_nop|]. apply safe_assign_guard. exact H. Qed.
Lemma safe_retire t lv (Q : unit -> lview -> Prop) : Q tt lv -> safe t (retire t) lv Q.
Proof. intros H. unfold retire. apply safe_neutral with (v := v0); [apply neutral_nop|]. apply safe_neutral with (v := v0); [apply neutral_nop|]. exact H. Qed.
Lemma safe_use_guarded t s lv (Q : unit -> lview -> Prop) : Q tt lv -> safe t (use_guarded t s) lv Q.
Proof. intros H. unfold use_guarded. apply safe_neutral with (v := v0); [apply neutral_nop|]. apply safe_neutral with (v := v0); [apply neutral_nop|]. exact H. Qed.
Lemma safe_cnt_inc ic lv t (Q : unit -> lview -> Prop) : Q tt lv -> safe t (cnt_inc ic) lv Q.
Proof. intros H. unfold cnt_inc. destruct ic; [|exact H]. apply safe_neutral with (v := v0); [apply neutral_cnt|]. exact H. Qed.
Lemma safe_cnt_dec ic lv t (Q : unit -> lview -> Prop) : Q tt lv -> safe t (cnt_dec ic) lv Q.
Proof. intros H. unfold cnt_dec. destruct ic; [|exact H]. apply safe_neutral with (v := v0); [apply neutral_cnt|]. exact H. Qed.
Lemma safe_free_guards t gs : forall fr lv (Q : list nat -> lview -> Prop),
  (forall fr', Q fr' lv) -> safe t (free_guards t gs fr) lv Q.
Proof.
  induction gs as [|s gs IH]; intros fr lv Q H; cbn [free_guards]; [apply H|].
  apply safe_neutral with (v := v0); [apply neutral_nop|]. apply IH. exact H.
Qed.

Lemma incl_app_r' {A} (l1 l2 : list A) : incl l2 (l1 ++ l2).
Proof. apply incl_appr. apply incl_refl. Qed.

(** ** protect *)
Lemma safe_protect fuel : forall t s l lv (Q : option V -> lview -> Prop),
  pk (lv_facts lv) l ->
  (forall F', incl (lv_facts lv) F' -> Q None (with_facts lv F')) ->
  (forall v F', incl (lv_facts lv) F' -> incl (newfacts l v) F' -> Q (Some v) (with_facts lv F')) ->
  safe t (protect fuel t s l) lv Q.
Proof.
  induction fuel as [|f IH]; intros t s l lv Q Hp HN HS; cbn [protect].
  - cbn [Conc.safe]. destruct lv. apply (HN lv_facts). apply incl_refl.
  - apply safe_ld; [exact Hp|]. intros v _.
    apply safe_neutral with (v := v0); [apply neutral_nop|]. apply safe_neutral with (v := v0); [apply neutral_nop|].
    apply safe_ld; [eapply pk_incl; [|exact Hp]; apply incl_app_r'|]. intros v' _.
    set (F2 := newfacts l v' ++ newfacts l v ++ lv_facts lv).
    assert (I0 : incl (lv_facts lv) F2) by (unfold F2; apply incl_appr; apply incl_app_r').
    destruct (veqb v v').
    + cbn [Conc.safe]. apply (HS v F2); auto. unfold F2. apply incl_appr. apply incl_appl. apply incl_refl.
    + change (safe t (protect f t s l) (with_facts lv F2) Q). apply IH.
      * eapply pk_incl; eauto.
      * intros F' HF. cbn [with_facts lv_facts] in HF. apply (HN F'). eapply incl_tran; eauto.
      * intros w F' HF HF'. cbn [with_facts lv_facts] in HF. apply (HS w F'); auto. eapply incl_tran; eauto.
Qed.

(** ** search *)
Definition cur_ok (F : list fact) (pCur : V) : Prop :=
  vptr pCur = HEAD \/ vptr pCur = TAIL \/ In (FPub (vptr pCur) (vkey pCur)) F.

Definition found_ok (F : list fact) (k : Z) (pPred : nat) (pCur : V) : Prop :=
  klt F pPred k /\ (vptr pCur = TAIL \/ (In (FPub (vptr pCur) (vkey pCur)) F /\ k <= vkey pCur)).

Lemma klt_incl F F' m k : incl F F' -> klt F m k -> klt F' m k.
Proof. intros H [->|(km & Hk & Hl)]; [left; reflexivity|right; exists km; auto]. Qed.

Lemma cur_pk F pCur : cur_ok F pCur -> pk F (vptr pCur).
Proof. intros [H|[H|H]]; unfold pk; eauto. Qed.

Lemma newfacts_cur n v F : n <> TAIL -> incl (newfacts n v) F -> cur_ok F v.
Proof.
  unfold newfacts, cur_ok. intros Hn H. destruct (Nat.eqb_spec n TAIL); [contradiction|].
  destruct (Nat.eqb_spec (vptr v) HEAD); [left; assumption|]. destruct (Nat.eqb_spec (vptr v) TAIL); [right; left; assumption|].
  right. right. apply H. left. reflexivity.
Qed.

Lemma safe_search fuel : forall t g0 g1 k pPrev pCur lv (Q : option (nat * V) -> lview -> Prop),
  klt (lv_facts lv) pPrev k -> cur_ok (lv_facts lv) pCur ->
  (forall F', incl (lv_facts lv) F' -> Q None (with_facts lv F')) ->
  (forall F' pp pc, incl (lv_facts lv) F' -> found_ok F' k pp pc -> Q (Some (pp, pc)) (with_facts lv F')) ->
  safe t (search fuel t g0 g1 k pPrev pCur) lv Q.
Proof.
  induction fuel as [|f IH]; intros t g0 g1 k pPrev pCur lv Q Hkl Hcur HN HS; cbn [search].
  - cbn [Conc.safe]. destruct lv. apply (HN lv_facts). apply incl_refl.
  - destruct (Nat.eqb_spec (vptr pCur) TAIL) as [ET|ET].
    { cbn [Conc.safe]. destruct lv as [F H o h]. apply (HS F pPrev pCur); [apply incl_refl|]. split; auto. }
    destruct (negb (Nat.eqb (vptr pCur) HEAD) && Z.leb k (vkey pCur)) eqn:Estop.
    { cbn [Conc.safe]. destruct lv as [F H o h]. apply (HS F pPrev pCur); [apply incl_refl|]. split; auto.
      apply andb_true_iff in Estop. destruct Estop as [E1 E2]. apply negb_true_iff, Nat.eqb_neq in E1. apply Z.leb_le in E2.
      right. destruct Hcur as [Hc|[Hc|Hc]]; try contradiction. auto. }
    assert (Hkl' : klt (lv_facts lv) (vptr pCur) k).
    { apply andb_false_iff in Estop. destruct Estop as [E|E].
      - apply negb_false_iff, Nat.eqb_eq in E. left. exact E.
      - apply Z.leb_gt in E. destruct Hcur as [Hc|[Hc|Hc]]; [left; exact Hc|contradiction|]. right. exists (vkey pCur). auto. }
    apply Conc.safe_bind. apply safe_copy_guard.
    apply Conc.safe_bind. apply safe_protect; [apply cur_pk; exact Hcur|..].
    + intros F' HF. cbn [Conc.safe]. apply HN. exact HF.
    + intros nx F1 HF1 HN1. cbn beta iota. destruct (vmark nx).
      * change (safe t (search f t g0 g1 k HEAD (mkV HEAD false 0)) (with_facts lv F1) Q). apply IH.
        -- left. reflexivity.
        -- left. reflexivity.
        -- intros F' HF. cbn [with_facts lv_facts] in HF. apply HN. eapply incl_tran; eauto.
        -- intros F' pp pc HF Hf. cbn [with_facts lv_facts] in HF. apply HS; auto. eapply incl_tran; eauto.
      * change (safe t (search f t g0 g1 k (vptr pCur) nx) (with_facts lv F1) Q). apply IH.
        -- eapply klt_incl; [exact HF1|exact Hkl'].
        -- eapply (newfacts_cur (vptr pCur)); [exact ET|exact HN1].
        -- intros F' HF. cbn [with_facts lv_facts] in HF. apply HN. eapply incl_tran; eauto.
        -- intros F' pp pc HF Hf. cbn [with_facts lv_facts] in HF. apply HS; auto. eapply incl_tran; eauto.
Qed.

(** ** spin locks *)
Lemma safe_lock_loops fuel : forall t n lv (Q : bool -> lview -> Prop),
  pk (lv_facts lv) n ->
  (~ holds lv n -> Q true (with_held lv ((n, None) :: lv_held lv))) -> Q false lv ->
  safe t (lock_outer fuel n) lv Q /\ safe t (lock_inner fuel n) lv Q.
Proof.
  induction fuel as [|f IH]; intros t n lv Q Hn HT HF; split; cbn [lock_outer lock_inner]; try (cbn [Conc.safe]; exact HF).
  - apply safe_xchg; [exact Hn| |].
    + cbn [vmark vok]. apply IH; auto.
    + intros Hfree. cbn [vmark vok Conc.safe]. apply HT. exact Hfree.
  - apply safe_ldlock. intros b. cbn [vmark vok]. destruct b; apply IH; auto.
Qed.

Lemma safe_lock_outer fuel t n lv (Q : bool -> lview -> Prop) :
  pk (lv_facts lv) n ->
  (~ holds lv n -> Q true (with_held lv ((n, None) :: lv_held lv))) -> Q false lv ->
  safe t (lock_outer fuel n) lv Q.
Proof. intros. apply safe_lock_loops; auto. Qed.

Lemma safe_unlock' t n lv (Q : unit -> lview -> Prop) :
  holds lv n -> lv_hole lv = None -> Q tt (with_held lv (release (lv_held lv) n)) -> safe t (unlock n) lv Q.
Proof. intros H1 H2 H3. unfold unlock. apply safe_unlock; auto. Qed.

Lemma safe_unlock_pos t p c lv (Q : unit -> lview -> Prop) :
  holds lv p -> holds lv c -> p <> c -> lv_hole lv = None ->
  Q tt (with_held lv (release (release (lv_held lv) c) p)) -> safe t (unlock_pos p c) lv Q.
Proof.
  intros Hp Hc Hpc Hh HQ. unfold unlock_pos. apply Conc.safe_bind. apply safe_unlock'; auto.
  apply safe_unlock'; auto. destruct Hp as [o Ho]. exists o. cbn. apply release_in. auto.
Qed.

(** ** validate: both locks are held; on success the predecessor is unmarked and points to the current node,
       which is unmarked *)
Lemma safe_validate t p c lv (Q : bool -> lview -> Prop) :
  holds lv p -> holds lv c ->
  (forall F' H', incl (lv_facts lv) F' -> incl (lv_held lv) H' -> Q false (mkLV F' H' (lv_own lv) (lv_hole lv))) ->
  (forall F' H' x, incl (lv_facts lv) F' -> incl (lv_held lv) H' -> In (p, Some (c, false)) H' -> In (c, Some (x, false)) H' ->
        Q true (mkLV F' H' (lv_own lv) (lv_hole lv))) ->
  safe t (validate p c) lv Q.
Proof.
  intros Hp Hc HF HT. unfold validate.
  apply safe_ld_held; [exact Hp|]. intros v1 _. destruct (vmark v1).
  { cbn [Conc.safe]. apply HF; [apply incl_app_r'|apply incl_tl; apply incl_refl]. }
  apply safe_ld_held; [destruct Hc as [o Ho]; exists o; right; exact Ho|]. intros v2 _. cbn [lv_facts lv_held lv_own lv_hole].
  destruct (vmark v2) eqn:E2.
  { cbn [Conc.safe]. apply HF; [apply incl_appr; apply incl_app_r'|do 2 apply incl_tl; apply incl_refl]. }
  apply safe_ld_held; [destruct Hp as [o Ho]; exists o; right; right; exact Ho|]. intros v3 _. cbn [lv_facts lv_held lv_own lv_hole Conc.safe].
  destruct (Nat.eqb_spec (vptr v3) c) as [E3|E3]; cbn [andb].
  - destruct (vmark v3) eqn:E4; cbn [negb].
    + apply HF; [do 2 apply incl_appr; apply incl_app_r'|do 3 apply incl_tl; apply incl_refl].
    + apply (HT _ _ (vptr v2)); [do 2 apply incl_appr; apply incl_app_r'|do 3 apply incl_tl; apply incl_refl| |].
      * left. rewrite E3. reflexivity.
      * right. left. reflexivity.
  - apply HF; [do 2 apply incl_appr; apply incl_app_r'|do 3 apply incl_tl; apply incl_refl].
Qed.

Lemma holds_incl (lv : lview) H' n : incl (lv_held lv) H' -> holds lv n -> exists o, In (n, o) H'.
Proof. intros Hi [o Ho]. exists o. apply Hi. exact Ho. Qed.

(** lock both nodes of the position *)
Lemma safe_lock_pos fuel t p c lv (Q : bool -> lview -> Prop) :
  pk (lv_facts lv) p -> pk (lv_facts lv) c ->
  (p <> c -> Q true (with_held lv ((c, None) :: (p, None) :: lv_held lv))) ->
  (forall H', Q false (with_held lv H')) ->
  safe t (lock_pos fuel p c) lv Q.
Proof.
  intros Hp Hc HT HF. unfold lock_pos. apply Conc.safe_bind. apply safe_lock_outer; [exact Hp| |].
  - intros _. apply safe_lock_outer; [exact Hc| |].
    + intros Hfree. cbn [with_held lv_facts lv_held lv_own lv_hole]. apply HT.
      intros ->. apply Hfree. exists None. left. reflexivity.
    + cbn [Conc.safe]. apply (HF ((p, None) :: lv_held lv)).
  - cbn [Conc.safe]. destruct lv as [F H o h]. apply (HF H).
Qed.
