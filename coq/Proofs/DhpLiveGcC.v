(** * DhpLiveGcC: C02, second sentence for DHP, from the hazard cell to the client's Guard object.  Part C: the
      invariant [InvG] (the summary is [gfold] of the trace; every event of the trace satisfies [PhiG], provided the
      free lists behave and the allocator discipline [cell_disc] holds of the trace), proved on top of the C02
      invariant [InvA] with the rule of DhpLiveGcRule; generic node rules; the library programs that emit nothing the
      summary looks at. *)
From Coq Require Import ZArith NArith List String Bool Lia PeanoNat.
From LV Require Import Base.Conc Base.Events Model.DhpLang Model.Dhp Proofs.DhpBase Proofs.DhpHist
  Proofs.DhpLangProofs Proofs.DhpInvA Proofs.DhpLiveA Proofs.DhpLiveB Proofs.DhpLiveGcRule Proofs.DhpLiveGcA Proofs.DhpLiveGcB.
Import ListNotations.
Local Open Scope string_scope.
Local Open Scope list_scope.

(** while a thread is inside protect() and has stored to its hazard cell, the store hit a cell *)
Definition VAL (a : GS) : Prop := forall u j k, gop a u = [7%Z; zn j; zn k] -> gac a u = true -> gsl a u <> None.

Definition InvG (c : cfg) (g : G) (a : GS) (tr : list (nat * ev)) : Prop :=
  a = gfold tr /\ (flbad (hist tr) = false -> cell_disc c tr -> TPropG tr /\ VAL a).

(** ** events the summary ignores / that only change the "block taken" field *)
Definition noneb (e : ev) : bool := match gcls e with GNone => true | _ => false end.
Definition libg (e : ev) : bool := match gcls e with GNone | GPv _ | GLink => true | _ => false end.

Lemma noneb_libg e : noneb e = true -> libg e = true.
Proof. unfold noneb, libg. destruct (gcls e); auto. Qed.

Lemma PhiG_libg st u e : libg e = true -> PhiG st u e.
Proof. unfold libg, PhiG. destruct (gcls e); try discriminate; intros _; repeat split; intros; congruence. Qed.

Definition same_but_pv (a a' : GS) : Prop :=
  gop a' = gop a /\ gtl a' = gtl a /\ gmp a' = gmp a /\ gsl a' = gsl a /\ gac a' = gac a.

Lemma libg_gstep st t e : libg e = true -> same_but_pv st (gstep st (t, e)).
Proof. unfold libg, gstep, same_but_pv. cbn [snd]. destruct (gcls e); try discriminate; intros _; cbn; repeat split; reflexivity. Qed.
Lemma libg_fold t es : Forall (fun e => libg e = true) es -> forall st, same_but_pv st (fold_left gstep (Conc.tag t es) st).
Proof.
  induction es as [|e es IH]; intros Hq st; [unfold same_but_pv; repeat split; reflexivity|].
  change (Conc.tag t (e :: es)) with ((t, e) :: Conc.tag t es). cbn [fold_left].
  inversion Hq; subst. destruct (libg_gstep st t e H1) as (A1&A2&A3&A4&A5).
  destruct (IH H2 (gstep st (t, e))) as (B1&B2&B3&B4&B5). unfold same_but_pv. repeat split; congruence.
Qed.
Lemma noneb_gstep_view st t e u : noneb e = true -> viewG (gstep st (t, e)) u = viewG st u.
Proof. unfold noneb, gstep, viewG. cbn [snd]. destruct (gcls e); try discriminate; intros _; reflexivity. Qed.
Lemma noneb_fold_view t es u : Forall (fun e => noneb e = true) es -> forall st, viewG (fold_left gstep (Conc.tag t es) st) u = viewG st u.
Proof.
  induction es as [|e es IH]; intros Hq st; [reflexivity|].
  change (Conc.tag t (e :: es)) with ((t, e) :: Conc.tag t es). cbn [fold_left]. inversion Hq; subst.
  rewrite IH by assumption. now apply noneb_gstep_view.
Qed.

Lemma flbad_prefix tr es : flbad (hist (tr ++ es)) = false -> flbad (hist tr) = false.
Proof. intros H. destruct (flbad (hist tr)) eqn:E; [|reflexivity]. rewrite (flbad_mono tr es E) in H. discriminate. Qed.

Section GC.
  Variable c : cfg.
  Notation rds := (rdsafe (InvA c) viewG (InvG c)).
  Notation I1A := (I1 (InvA c)).

  (** what the hypotheses of the conditional part give for the trace so far *)
  Lemma InvG_open g a tr es : InvG c g a tr -> flbad (hist (tr ++ es)) = false -> cell_disc c (tr ++ es) ->
    a = gfold tr /\ flbad (hist tr) = false /\ cell_disc c tr /\ TPropG tr /\ VAL a /\ K c a (hist tr).
  Proof.
    intros (E & H) Hf Hd. pose proof (flbad_prefix _ _ Hf) as F. pose proof (cell_disc_prefix _ _ _ Hd) as D.
    destruct (H F D) as (T & V). subst a. split; [reflexivity|]. split; [exact F|]. split; [exact D|]. split; [exact T|].
    split; [exact V|]. now apply K_good.
  Qed.

  (** the general way to establish the invariant after a node *)
  Lemma InvG_intro g g' a tr t es : InvG c g a tr ->
    (flbad (hist (tr ++ Conc.tag t es)) = false -> cell_disc c (tr ++ Conc.tag t es) ->
       (forall i e, nth_error es i = Some e -> PhiG (gfold (tr ++ Conc.tag t (firstn i es))) t e) /\
       VAL (fold_left gstep (Conc.tag t es) a)) ->
    InvG c g' (fold_left gstep (Conc.tag t es) a) (tr ++ Conc.tag t es).
  Proof.
    intros Hi H. split; [destruct Hi as (-> & _); now rewrite gfold_app|].
    intros Hf Hd. destruct (InvG_open _ _ _ _ Hi Hf Hd) as (_ & _ & _ & T & _). destruct (H Hf Hd) as (H1 & H2).
    split; [|exact H2]. apply TPropG_app; [exact T|]. intros i u e Hn. apply nth_tag in Hn. destruct Hn as (-> & Hn).
    rewrite firstn_tag. now apply H1.
  Qed.

  Lemma VAL_same a a' : same_but_pv a a' -> VAL a -> VAL a'.
  Proof. intros (A1&A2&A3&A4&A5) V u j k. rewrite A1, A4, A5. apply V. Qed.

  Lemma InvG_lib g g' a tr t es : InvG c g a tr -> Forall (fun e => libg e = true) es ->
    InvG c g' (fold_left gstep (Conc.tag t es) a) (tr ++ Conc.tag t es).
  Proof.
    intros Hi Hq. apply (InvG_intro g); [exact Hi|]. intros Hf Hd.
    destruct (InvG_open _ _ _ _ Hi Hf Hd) as (_ & _ & _ & _ & V & _). split.
    - intros i e Hn. apply PhiG_libg. apply nth_error_In in Hn. rewrite Forall_forall in Hq. auto.
    - eapply VAL_same; [apply libg_fold; exact Hq|exact V].
  Qed.

  (** ** node rules: the new summary is forced, the frame condition is free *)
  Lemma rds_act {X R} t (f : A X) (k : X -> @dprog G ev R) l Q :
    (forall g a tr, InvG c g a tr -> viewG a t = l -> I1A g tr -> I1A (fst (fst (f g))) (tr ++ Conc.tag t (snd (f g))) ->
       InvG c (fst (fst (f g))) (fold_left gstep (Conc.tag t (snd (f g))) a) (tr ++ Conc.tag t (snd (f g))) /\
       rds t (k (snd (fst (f g)))) (viewG (fold_left gstep (Conc.tag t (snd (f g))) a) t) Q) ->
    rds t (DAct f k) l Q.
  Proof.
    intros H. cbn [rdsafe]. intros g a tr Hi Hv Hb Ha. destruct (H g a tr Hi Hv Hb Ha) as (H1 & H2).
    exists (fold_left gstep (Conc.tag t (snd (f g))) a). split; [exact H1|]. split; [apply frameG_fold|exact H2].
  Qed.
  Lemma rds_emit {R} t es (k : @dprog G ev R) l Q :
    (forall g a tr, InvG c g a tr -> viewG a t = l -> I1A g tr -> I1A g (tr ++ Conc.tag t es) ->
       InvG c g (fold_left gstep (Conc.tag t es) a) (tr ++ Conc.tag t es) /\
       rds t k (viewG (fold_left gstep (Conc.tag t es) a) t) Q) ->
    rds t (DEmit es k) l Q.
  Proof.
    intros H. cbn [rdsafe]. intros g a tr Hi Hv Hb Ha. destruct (H g a tr Hi Hv Hb Ha) as (H1 & H2).
    exists (fold_left gstep (Conc.tag t es) a). split; [exact H1|]. split; [apply frameG_fold|exact H2].
  Qed.
  Lemma rds_loc {X R} t (f : G -> G * X) (k : X -> @dprog G ev R) l Q :
    (forall x, rds t (k x) l Q) -> rds t (DLoc f k) l Q.
  Proof.
    intros Hk. cbn [rdsafe]. intros g a tr Hi Hv _ _. exists a. split; [exact Hi|]. split; [apply frame_refl|].
    rewrite Hv. apply Hk.
  Qed.

  (** nodes whose events the summary ignores: the view stays *)
  Lemma rds_act_none {X R} t (f : A X) (k : X -> @dprog G ev R) l Q :
    (forall g, Forall (fun e => noneb e = true) (snd (f g))) -> (forall x, rds t (k x) l Q) -> rds t (DAct f k) l Q.
  Proof.
    intros Hf Hk. apply rds_act. intros g a tr Hi Hv _ _. split.
    - apply (InvG_lib g); [exact Hi|]. eapply Forall_impl; [|apply Hf]. intros e. apply noneb_libg.
    - rewrite noneb_fold_view by apply Hf. rewrite Hv. apply Hk.
  Qed.
  Lemma rds_emit_none {R} t es (k : @dprog G ev R) l Q :
    Forall (fun e => noneb e = true) es -> rds t k l Q -> rds t (DEmit es k) l Q.
  Proof.
    intros Hf Hk. apply rds_emit. intros g a tr Hi Hv _ _. split.
    - apply (InvG_lib g); [exact Hi|]. eapply Forall_impl; [|apply Hf]. intros e. apply noneb_libg.
    - rewrite noneb_fold_view by apply Hf. rewrite Hv. apply Hk.
  Qed.

  Lemma rds_xbind {X Y} t (p : P X) (q : X -> P Y) l Q :
    rds t p l (fun o l' => match o with Some x => rds t (q x) l' Q | None => Q None l' end) -> rds t (xbind p q) l Q.
  Proof.
    intros H. unfold xbind. apply rdsafe_bind. eapply rdsafe_weaken; [|exact H]. intros [x|] l' K0; exact K0.
  Qed.

  (** ** programs that leave the view of the thread alone *)
  Definition Neu {R} (p : @dprog G ev R) : Prop := forall t l, rds t p l (fun _ l' => l' = l).

  Lemma rds_neu_seq {X Y} t (p : P X) (q : X -> P Y) l Q :
    Neu p -> (forall x, rds t (q x) l Q) -> Q None l -> rds t (xbind p q) l Q.
  Proof.
    intros Hp Hq Hn. apply rds_xbind. eapply rdsafe_weaken; [|apply Hp]. intros [x|] l' ->; [apply Hq|exact Hn].
  Qed.

  Lemma Neu_ret {X} (x : X) : Neu (ret x).
  Proof. intros t l. reflexivity. Qed.
  Lemma Neu_dret {X} (x : X) : Neu (@DRet G ev X x).
  Proof. intros t l. reflexivity. Qed.
  Lemma Neu_dbind {X Y} (p : @dprog G ev X) (q : X -> @dprog G ev Y) : Neu p -> (forall x, Neu (q x)) -> Neu (dbind p q).
  Proof.
    intros Hp Hq t l. apply rdsafe_bind. eapply rdsafe_weaken; [|apply Hp]. intros x l1 ->. apply Hq.
  Qed.
  Lemma Neu_xbind {X Y} (p : P X) (q : X -> P Y) : Neu p -> (forall x, Neu (q x)) -> Neu (xbind p q).
  Proof. intros Hp Hq. unfold xbind. apply Neu_dbind; auto. intros [x|]; [apply Hq|apply Neu_dret]. Qed.
  Lemma Neu_act {X} (f : A X) : (forall g, Forall (fun e => noneb e = true) (snd (f g))) -> Neu (act f).
  Proof. intros Hf t l. unfold act. apply rds_act_none; [exact Hf|]. intros x. reflexivity. Qed.
  Lemma Neu_emit es : Forall (fun e => noneb e = true) es -> Neu (emit es).
  Proof. intros Hq t l. unfold emit. apply rds_emit_none; [exact Hq|]. reflexivity. Qed.
  Lemma Neu_loc {X} (f : G -> G * X) : Neu (loc f).
  Proof. intros t l. unfold loc. apply rds_loc. intros x. reflexivity. Qed.
  Lemma Neu_fuel_out {X} : Neu (@fuel_out X).
  Proof. intros t l. unfold fuel_out. apply rds_emit_none; [repeat constructor|]. reflexivity. Qed.
End GC.

(** ** the atomic accesses other than the store to a hazard cell *)
Notation nonA f := (forall g, Forall (fun e => noneb e = true) (snd (f g))).
Ltac nacc := intros g; cbn; repeat match goal with |- context [if ?b then _ else _] => destruct b; cbn end; repeat constructor.

Lemma n_begin : nonA a_begin. Proof. nacc. Qed.
Lemma n_ld_tlist : nonA a_ld_tlist. Proof. nacc. Qed.
Lemma n_st_tlist v : nonA (a_st_tlist v). Proof. nacc. Qed.
Lemma n_cas_tlist e n : nonA (a_cas_tlist e n). Proof. intros g. unfold a_cas_tlist. destruct (oeqb _ _); cbn; repeat constructor. Qed.
Lemma n_ld_tid r : nonA (a_ld_tid r). Proof. nacc. Qed.
Lemma n_st_tid r v : nonA (a_st_tid r v). Proof. nacc. Qed.
Lemma n_cas_tid r e n : nonA (a_cas_tid r e n). Proof. intros g. unfold a_cas_tid. destruct (Nat.eqb _ _); cbn; repeat constructor. Qed.
Lemma n_ld_free r : nonA (a_ld_free r). Proof. nacc. Qed.
Lemma n_st_free r v : nonA (a_st_free r v). Proof. nacc. Qed.
Lemma n_faa_sync r : nonA (a_faa_sync r). Proof. nacc. Qed.
Lemma n_ld_ext r : nonA (a_ld_ext r). Proof. nacc. Qed.
Lemma n_st_ext r v : nonA (a_st_ext r v). Proof. nacc. Qed.
Lemma n_ld_slot s : nonA (a_ld_slot s). Proof. intros g. destruct s; cbn; repeat constructor. Qed.
Lemma n_ld_src k : nonA (a_ld_src k). Proof. nacc. Qed.
Lemma n_st_src k v : nonA (a_st_src k v). Proof. nacc. Qed.
Lemma n_ld_head f : nonA (a_ld_head f). Proof. intros g. destruct f; cbn; repeat constructor. Qed.
Lemma n_cas_head f e n : nonA (a_cas_head f e n).
Proof. intros g. unfold a_cas_head. destruct (oeqb _ _); destruct f; cbn; repeat constructor. Qed.
Lemma n_ld_refs f n : nonA (a_ld_refs f n). Proof. intros g. destruct f; cbn; repeat constructor. Qed.
Lemma n_st_refs f n v : nonA (a_st_refs f n v). Proof. intros g. destruct f; cbn; repeat constructor. Qed.
Lemma n_cas_refs f n e v : nonA (a_cas_refs f n e v).
Proof. intros g. unfold a_cas_refs. destruct (N.eqb _ _); destruct f; cbn; repeat constructor. Qed.
Lemma n_faa_refs f n d : nonA (a_faa_refs f n d). Proof. intros g. destruct f; cbn; repeat constructor. Qed.
Lemma n_fas_refs f n d : nonA (a_fas_refs f n d). Proof. intros g. destruct f; cbn; repeat constructor. Qed.
Lemma n_ld_flnext f n : nonA (a_ld_flnext f n). Proof. intros g. destruct f; cbn; repeat constructor. Qed.
Lemma n_st_flnext f n v : nonA (a_st_flnext f n v). Proof. intros g. destruct f; cbn; repeat constructor. Qed.

Lemma none_alloc_rt b : noneb (ev_alloc FRt b) = true. Proof. reflexivity. Qed.
Lemma none_new_rt b : noneb (ev_new FRt b) = true. Proof. reflexivity. Qed.
Lemma none_free f b : noneb (ev_free f b) = true. Proof. destruct f; reflexivity. Qed.
Lemma none_rel s : noneb (ev_rel s) = true. Proof. destruct s; reflexivity. Qed.
Lemma none_scanb r : noneb (ev_scanb r) = true. Proof. reflexivity. Qed.
Lemma none_scane r : noneb (ev_scane r) = true. Proof. reflexivity. Qed.
Lemma none_dispose p : noneb (ev_dispose p) = true. Proof. reflexivity. Qed.
Lemma none_disposes ps : Forall (fun e => noneb e = true) (map ev_dispose ps).
Proof. induction ps; constructor; auto. Qed.

#[export] Hint Resolve n_begin n_ld_tlist n_st_tlist n_cas_tlist n_ld_tid n_st_tid n_cas_tid n_ld_free n_st_free n_faa_sync n_ld_ext
  n_st_ext n_ld_slot n_ld_src n_st_src n_ld_head n_cas_head n_ld_refs n_st_refs n_cas_refs n_faa_refs n_fas_refs n_ld_flnext n_st_flnext : ndb.
#[export] Hint Resolve none_alloc_rt none_new_rt none_free none_rel none_scanb none_scane none_dispose none_disposes : ndb.

Section NeuProgs.
  Variable c : cfg.
  Notation NeuP := (Neu c).

  Ltac np :=
    repeat match goal with
      | |- Neu _ (ret _) => apply Neu_ret
      | |- Neu _ fuel_out => apply Neu_fuel_out
      | |- Neu _ (xbind _ _) => apply Neu_xbind; [|intros]
      | |- Neu _ (act _) => apply Neu_act; solve [auto with ndb]
      | |- Neu _ (emit _) => apply Neu_emit; solve [auto with ndb | repeat constructor; auto with ndb]
      | |- Neu _ (loc _) => apply Neu_loc
      | |- Neu _ (if ?b then _ else _) => destruct b
      | |- Neu _ (match ?o with Some _ => _ | None => _ end) => destruct o
      end.

  Lemma N_add_knowing sp : forall f n head, NeuP (add_knowing sp f n head).
  Proof. induction sp as [|sp IH]; intros f n head; cbn [add_knowing]; np. apply IH. Qed.
  Lemma N_fl_add sp f n : NeuP (fl_add sp f n).
  Proof. unfold fl_add. np. apply N_add_knowing. Qed.
  Lemma N_fl_put sp f n : NeuP (fl_put sp f n).
  Proof. unfold fl_put. np. apply N_fl_add. Qed.
  Lemma N_fl_get_loop sp : forall f head, NeuP (fl_get_loop sp f head).
  Proof.
    induction sp as [|sp IH]; intros f head; destruct head as [h|]; cbn [fl_get_loop]; np; try apply IH; try apply N_fl_add.
  Qed.
  Lemma N_fl_get sp f : NeuP (fl_get sp f).
  Proof. unfold fl_get. np. apply N_fl_get_loop. Qed.

  Lemma N_hp_free b : NeuP (hp_free c b).
  Proof. unfold hp_free. np. apply N_fl_put. Qed.
  Lemma N_rt_alloc : NeuP (rt_alloc c).
  Proof. unfold rt_alloc. np; apply N_fl_get. Qed.
  Lemma N_rt_free b : NeuP (rt_free c b).
  Proof. unfold rt_free. np. apply N_fl_put. Qed.
  Lemma N_free_gblocks : forall fuel p, NeuP (free_gblocks c fuel p).
  Proof. induction fuel as [|f IH]; intros [b|]; cbn [free_gblocks]; np; try apply N_hp_free; apply IH. Qed.
  Lemma N_rt_init r : NeuP (rt_init c r).
  Proof. unfold rt_init. np. apply N_rt_alloc. Qed.
  Lemma N_free_rblocks : forall fuel p, NeuP (free_rblocks c fuel p).
  Proof. induction fuel as [|f IH]; intros [b|]; cbn [free_rblocks]; np; try apply N_rt_free; apply IH. Qed.
  Lemma N_rt_fini r : NeuP (rt_fini c r).
  Proof. unfold rt_fini. np. apply N_free_rblocks. Qed.
  Lemma N_rt_extend r : NeuP (rt_extend c r).
  Proof. unfold rt_extend. np. apply N_rt_alloc. Qed.

  Lemma N_copy_hazards mk : forall n i pl, NeuP (copy_hazards mk i n pl).
  Proof. induction n as [|n IH]; intros i pl; cbn [copy_hazards]; np. apply IH. Qed.
  Lemma N_scan_blocks : forall fuel b pl, NeuP (scan_blocks c fuel b pl).
  Proof. induction fuel as [|f IH]; intros [b|] pl; cbn [scan_blocks]; np; try apply N_copy_hazards; apply IH. Qed.
  Lemma N_scan_recs : forall fuel node pl, NeuP (scan_recs c fuel node pl).
  Proof.
    induction fuel as [|f IH]; intros [n|] pl; cbn [scan_recs]; np; try apply N_copy_hazards; try apply N_scan_blocks; apply IH.
  Qed.
  Lemma N_scan r : NeuP (Dhp.scan c r).
  Proof. unfold Dhp.scan. np; try apply N_scan_recs; try apply N_rt_extend. Qed.

  Lemma N_reuse_recs mytid : forall fuel node, NeuP (reuse_recs fuel mytid node).
  Proof. induction fuel as [|f IH]; intros [h|]; cbn [reuse_recs]; np; apply IH. Qed.
  Lemma N_push_rec r : forall fuel old, NeuP (push_rec fuel r old).
  Proof. induction fuel as [|f IH]; intros old; cbn [push_rec]; np; apply IH. Qed.
  Lemma N_alloc_thread_data mytid : NeuP (alloc_thread_data c mytid).
  Proof. unfold alloc_thread_data. np; try apply N_reuse_recs; try apply N_push_rec; try apply N_rt_init. Qed.

  Lemma N_move_cells me b : forall n i, NeuP (move_cells c me b i n).
  Proof. induction n as [|n IH]; intros i; cbn [move_cells]; np; try apply N_scan. apply IH. Qed.
  Lemma N_move_blocks me src : forall fuel block, NeuP (move_blocks c fuel me src block).
  Proof. induction fuel as [|f IH]; intros [b|]; cbn [move_blocks]; np; try apply N_move_cells; apply IH. Qed.
  Lemma N_help_recs me mytid : forall fuel node, NeuP (help_recs c fuel me mytid node).
  Proof.
    induction fuel as [|f IH]; intros [h|]; cbn [help_recs]; np; try apply IH; try apply N_move_blocks; try apply N_rt_fini.
  Qed.
  Lemma N_help_scan me mytid : NeuP (help_scan c me mytid).
  Proof. unfold help_scan. np; [apply N_help_recs|apply N_scan]. Qed.

  Lemma N_ftd_go r : forall fuel p,
    NeuP ((fix go (fuel : nat) (p : option nat) : P unit :=
          match p with
          | None => ret tt
          | Some b =>
              match fuel with
              | O => fuel_out
              | Datatypes.S f =>
                  nx <- loc (fun g => (g, rb_next (grb g b))) ;;
                  rt_free c b ;;;
                  loc (fun g => (upd_rec g r (fun x => rs_ret (r_cb x) (r_cc x) (r_head x) (r_tail x) (pred (r_bcount x)) x), tt)) ;;;
                  go f nx
              end
          end) fuel p).
  Proof. induction fuel as [|f IH]; intros [b|]; np; try apply N_rt_free; apply IH. Qed.

  Lemma N_wait_loop k v : forall fuel, NeuP (wait_loop fuel k v).
  Proof. induction fuel as [|fuel IH]; cbn [wait_loop]; np. apply IH. Qed.
End NeuProgs.
