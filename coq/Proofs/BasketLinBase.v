(** * Linearizability of BasketQueue (C06): LP traces with RETROACTIVE linearization points.

    BasketQueue links a node of a basket right after the observed tail node, i.e. BEFORE nodes that were
    linked there earlier - possibly before the node of an enqueue that has already returned.  So the
    linearization order of the enqueues (= chain order) is not the order of their link CASes, and the
    annotated trace kept by the invariant cannot be append-only: when the basket CAS of thread [t] puts its
    node at index [k] of the sequence [E] of all items ever enqueued (in chain order), the linearization
    point of [t] is INSERTED into the annotated trace just before the linearization point of the enqueue
    that so far provided item [k] ([ins k (BEnq t)]).  This file proves that such an insertion keeps the
    annotated trace valid, provided
      - item [k] has not been dequeued yet ([d <= k], [d] = number of successful dequeues so far), and
      - [t] has no event from the (k+1)-th enqueue-LP on ([nopost t k]: its invocation lies before, and it is
        still pending).
    The same device linearizes an "empty" answer in hindsight ([ins m (BEmp t)]): at the end of the stretch
    of the trace in which [m] items had been enqueued, provided all [m] had been dequeued by then
    ([nd m tr = m]).

    The abstract state is [(E, d)]: all items ever enqueued in linearization order, and the number of them
    already dequeued; the FIFO queue is [skipn d E] ([brun_lp] translates to [Lin.lp_run]). *)
From Coq Require Import ZArith List Bool Lia PeanoNat.
From LV Require Import Base.Conc Base.Events Base.Lin Spec.Specs Proofs.LinProofs Proofs.MSQueueBase
  Proofs.BasketBase.
Import ListNotations.
Local Open Scope list_scope.

Inductive bev :=
| BInv (t : nat) (o : qop)
| BEnq (t : nat)                   (* linearization point of t's pending enqueue *)
| BDeq (t : nat)                   (* ... of t's pending dequeue, which takes item number d *)
| BEmp (t : nat)                   (* ... of t's pending dequeue, which finds the queue empty *)
| BRes (t : nat) (r : res).

Definition btid (e : bev) : nat :=
  match e with BInv t _ => t | BEnq t => t | BDeq t => t | BEmp t => t | BRes t _ => t end.
Definition is_enq (e : bev) : bool := match e with BEnq _ => true | _ => false end.
Definition is_deq (e : bev) : bool := match e with BDeq _ => true | _ => false end.

Record bstate := mkB { bE : list Z; bd : nat; bst : pmap }.

(** what an event does, given the status of its own thread *)
Definition bnext (E : list Z) (d : nat) (s : pst) (e : bev) : option (list Z * nat * pst) :=
  match e, s with
  | BInv _ o, PIdle => Some (E, d, PPend o)
  | BEnq _, PPend (Enq v) => Some (E ++ [v], d, PLin (RBool true))
  | BDeq _, PPend Deq =>
      match nth_error E d with Some v => Some (E, S d, PLin (RVal (Some v))) | None => None end
  | BEmp _, PPend Deq => if Nat.eqb d (length E) then Some (E, d, PLin (RVal None)) else None
  | BRes _ r, PLin r' => if res_beq r r' then Some (E, d, PIdle) else None
  | _, _ => None
  end.

Definition bstep (c : bstate) (e : bev) : option bstate :=
  match bnext (bE c) (bd c) (bst c (btid e)) e with
  | Some (E', d', s') => Some (mkB E' d' (pupd (bst c) (btid e) s'))
  | None => None
  end.

Fixpoint brun (c : bstate) (tr : list bev) : option bstate :=
  match tr with
  | [] => Some c
  | e :: r => match bstep c e with Some c' => brun c' r | None => None end
  end.

Definition binit : bstate := mkB [] 0 (fun _ => PIdle).

Fixpoint berase (tr : list bev) : history Fifo :=
  match tr with
  | [] => []
  | BInv t o :: r => @HInv Fifo t o :: berase r
  | BRes t x :: r => @HRes Fifo t x :: berase r
  | _ :: r => berase r
  end.

Fixpoint nenq (tr : list bev) : nat :=
  match tr with [] => 0 | e :: r => (if is_enq e then 1 else 0) + nenq r end.
Fixpoint ndeq (tr : list bev) : nat :=
  match tr with [] => 0 | e :: r => (if is_deq e then 1 else 0) + ndeq r end.

(** no event of thread [t] *)
Fixpoint tfree (t : nat) (tr : list bev) : Prop :=
  match tr with [] => True | e :: r => btid e <> t /\ tfree t r end.

(** insert [e] just before the (k+1)-th enqueue-LP (at the end if there are at most k) *)
Fixpoint ins (k : nat) (e : bev) (tr : list bev) : list bev :=
  match tr with
  | [] => [e]
  | x :: r =>
      if is_enq x then match k with 0 => e :: x :: r | S k' => x :: ins k' e r end
      else x :: ins k e r
  end.

(** thread [t] has no event from the (k+1)-th enqueue-LP on *)
Fixpoint nopost (t k : nat) (tr : list bev) : Prop :=
  match tr with
  | [] => True
  | x :: r =>
      if is_enq x then match k with 0 => tfree t (x :: r) | S k' => nopost t k' r end
      else nopost t k r
  end.

(** number of successful dequeue-LPs before the (k+1)-th enqueue-LP *)
Fixpoint nd (k : nat) (tr : list bev) : nat :=
  match tr with
  | [] => 0
  | x :: r =>
      if is_enq x then match k with 0 => 0 | S k' => nd k' r end
      else (if is_deq x then 1 else 0) + nd k r
  end.

(** ** lists of events *)
Lemma berase_app tr1 tr2 : berase (tr1 ++ tr2) = berase tr1 ++ berase tr2.
Proof. induction tr1 as [|[t o|t|t|t|t r] tr1 IH]; cbn; auto; now rewrite IH. Qed.

Lemma berase_ins e : berase [e] = [] -> forall tr k, berase (ins k e tr) = berase tr.
Proof.
  intros He. induction tr as [|x r IH]; intros k; cbn [ins]; [exact He|].
  destruct (is_enq x) eqn:Ex.
  - destruct k as [|k'].
    + change (e :: x :: r) with ([e] ++ x :: r). now rewrite berase_app, He.
    + destruct x; cbn in *; try discriminate; apply IH.
  - destruct x; cbn in *; try discriminate; now rewrite IH.
Qed.

Lemma brun_app c tr1 tr2 :
  brun c (tr1 ++ tr2) = match brun c tr1 with Some c' => brun c' tr2 | None => None end.
Proof. revert c. induction tr1 as [|e tr1 IH]; cbn; intros c; auto. destruct (bstep c e); auto. Qed.

Lemma tfree_app t a b : tfree t (a ++ b) <-> tfree t a /\ tfree t b.
Proof. induction a as [|x a IH]; cbn; tauto. Qed.

Lemma tfree_ins t e : btid e <> t -> forall tr k, tfree t tr -> tfree t (ins k e tr).
Proof.
  intros He. induction tr as [|x r IH]; intros k H; cbn [ins].
  - cbn. auto.
  - cbn in H. destruct H as [H1 H2]. destruct (is_enq x).
    + destruct k; cbn; auto.
    + cbn. auto.
Qed.

Lemma nenq_app a b : nenq (a ++ b) = nenq a + nenq b.
Proof. induction a as [|x a IH]; cbn; auto. rewrite IH. lia. Qed.
Lemma ndeq_app a b : ndeq (a ++ b) = ndeq a + ndeq b.
Proof. induction a as [|x a IH]; cbn; auto. rewrite IH. lia. Qed.

(** *** [nopost] *)
Lemma nopost_few t : forall tr k, nenq tr <= k -> nopost t k tr.
Proof.
  induction tr as [|x r IH]; intros k H; cbn [nopost]; [exact I|]. cbn [nenq] in H.
  destruct (is_enq x).
  - destruct k as [|k']; [lia|]. apply IH. lia.
  - apply IH. lia.
Qed.

Lemma nopost_app t e : btid e <> t -> forall tr k, nopost t k tr -> nopost t k (tr ++ [e]).
Proof.
  intros He. induction tr as [|x r IH]; intros k H; cbn [app nopost] in *.
  - destruct (is_enq e); [|exact I]. destruct k; cbn; auto.
  - destruct (is_enq x).
    + destruct k as [|k']; [|apply IH; exact H].
      change (x :: r ++ [e]) with ((x :: r) ++ [e]). apply tfree_app. split; [exact H|cbn; auto].
    + apply IH. exact H.
Qed.

Lemma nopost_ins_lt t e : btid e <> t -> is_enq e = true ->
  forall tr i k, k < i -> nopost t i tr -> nopost t (S i) (ins k e tr).
Proof.
  intros He Ee. induction tr as [|x r IH]; intros i k Hk H; cbn [ins].
  - cbn [nopost]. rewrite Ee. exact I.
  - cbn [nopost] in H. destruct (is_enq x) eqn:Ex.
    + destruct k as [|k'].
      * cbn [nopost]. rewrite Ee. cbn [nopost]. rewrite Ex. exact H.
      * destruct i as [|i']; [lia|]. cbn [nopost]. rewrite Ex. apply IH; [lia|exact H].
    + cbn [nopost]. rewrite Ex. apply IH; assumption.
Qed.

Lemma nopost_ins_ge t e : btid e <> t ->
  forall tr i k, i <= k -> nopost t i tr -> nopost t i (ins k e tr).
Proof.
  intros He. induction tr as [|x r IH]; intros i k Hk H; cbn [ins].
  - cbn [nopost]. destruct (is_enq e); [|exact I]. destruct i; cbn; auto.
  - cbn [nopost] in H. destruct (is_enq x) eqn:Ex.
    + destruct k as [|k'].
      * assert (i = 0) by lia. subst i. cbn [nopost].
        destruct (is_enq e); cbn [nopost tfree]; rewrite ?Ex; cbn in H |- *; tauto.
      * cbn [nopost]. rewrite Ex. destruct i as [|i'].
        -- cbn in H. destruct H as [H1 H2]. cbn. split; [exact H1|]. apply tfree_ins; assumption.
        -- apply IH; [lia|exact H].
    + cbn [nopost]. rewrite Ex. apply IH; assumption.
Qed.

(** an event that is not an enqueue-LP does not shift anything *)
Lemma nopost_ins_other t e : btid e <> t -> is_enq e = false ->
  forall tr i k, nopost t i tr -> nopost t i (ins k e tr).
Proof.
  intros He Ee. induction tr as [|x r IH]; intros i k H; cbn [ins].
  - cbn [nopost]. rewrite Ee. exact I.
  - cbn [nopost] in H. destruct (is_enq x) eqn:Ex.
    + destruct k as [|k'].
      * cbn [nopost]. rewrite Ee. cbn [nopost]. rewrite Ex. exact H.
      * cbn [nopost]. rewrite Ex. destruct i as [|i'].
        -- cbn in H. destruct H as [H1 H2]. cbn. split; [exact H1|]. apply tfree_ins; assumption.
        -- apply IH. exact H.
    + cbn [nopost]. rewrite Ex. apply IH. exact H.
Qed.

(** *** [nd] *)
Lemma nd_few : forall tr k, nenq tr <= k -> nd k tr = ndeq tr.
Proof.
  induction tr as [|x r IH]; intros k H; cbn [nd ndeq]; [reflexivity|]. cbn [nenq] in H.
  destruct (is_enq x) eqn:Ex.
  - destruct k as [|k']; [lia|]. destruct x; cbn in *; try discriminate. apply IH. lia.
  - rewrite IH by lia. reflexivity.
Qed.

Lemma nd_le : forall tr k, nd k tr <= ndeq tr.
Proof.
  induction tr as [|x r IH]; intros k; cbn [nd ndeq]; [lia|].
  destruct (is_enq x).
  - destruct k as [|k']; [lia|]. specialize (IH k'). lia.
  - specialize (IH k). lia.
Qed.

Lemma nd_app_other e : is_deq e = false -> forall tr k, nd k (tr ++ [e]) = nd k tr.
Proof.
  intros He. induction tr as [|x r IH]; intros k; cbn [app nd].
  - rewrite He. destruct (is_enq e); [destruct k; reflexivity|reflexivity].
  - destruct (is_enq x); [destruct k; auto|now rewrite IH].
Qed.

Lemma nd_app_many e : forall tr k, k < nenq tr -> nd k (tr ++ [e]) = nd k tr.
Proof.
  induction tr as [|x r IH]; intros k H; cbn [app nd]; cbn [nenq] in H; [lia|].
  destruct (is_enq x).
  - destruct k as [|k']; [reflexivity|]. apply IH. lia.
  - rewrite IH by lia. reflexivity.
Qed.

Lemma nd_ins_enq e : is_enq e = true -> forall tr m k, m <= k -> nd m (ins k e tr) = nd m tr.
Proof.
  intros Ee. induction tr as [|x r IH]; intros m k H; cbn [ins].
  - cbn [nd]. rewrite Ee. destruct m; reflexivity.
  - destruct (is_enq x) eqn:Ex.
    + destruct k as [|k'].
      * assert (m = 0) by lia. subst m. cbn [nd]. rewrite Ee, Ex. reflexivity.
      * cbn [nd]. rewrite Ex. destruct m as [|m']; [reflexivity|]. apply IH. lia.
    + cbn [nd]. rewrite Ex. rewrite IH by assumption. reflexivity.
Qed.

Lemma nd_ins_other e : is_enq e = false -> is_deq e = false -> forall tr m k, nd m (ins k e tr) = nd m tr.
Proof.
  intros Ee Ed. induction tr as [|x r IH]; intros m k; cbn [ins].
  - cbn [nd]. rewrite Ee, Ed. reflexivity.
  - destruct (is_enq x) eqn:Ex.
    + destruct k as [|k'].
      * cbn [nd]. rewrite Ee, Ed, Ex. reflexivity.
      * cbn [nd]. rewrite Ex. destruct m as [|m']; [reflexivity|]. apply IH.
    + cbn [nd]. rewrite Ex. rewrite IH. reflexivity.
Qed.

(** ** single steps *)
Lemma bnext_shape E d s e E' d' s' :
  bnext E d s e = Some (E', d', s') ->
  length E' = length E + (if is_enq e then 1 else 0) /\ d' = d + (if is_deq e then 1 else 0) /\
  (d <= length E -> d' <= length E') /\ (is_enq e = false -> E' = E).
Proof.
  destruct e as [t o|t|t|t|t r], s as [|[v|]|r']; cbn; try discriminate.
  - intros H; injection H as <- <- <-. repeat split; auto; lia.
  - intros H; injection H as <- <- <-. rewrite app_length. cbn. repeat split; auto; try lia; try discriminate.
  - destruct (nth_error E d) as [w|] eqn:En; [|discriminate].
    intros H; injection H as <- <- <-. repeat split; auto; try lia.
    intros _. assert (d < length E) by (apply nth_error_Some; congruence). lia.
  - destruct (Nat.eqb d (length E)); [|discriminate].
    intros H; injection H as <- <- <-. repeat split; auto; lia.
  - destruct (res_beq r r'); [|discriminate].
    intros H; injection H as <- <- <-. repeat split; auto; lia.
Qed.

(** the same step with one more item [v] in front of the non-empty tail [X] of [E], none of which is
    dequeued by this step *)
Lemma bnext_sim v E0 X d s e E1 d1 s1 :
  bnext (E0 ++ X) d s e = Some (E1, d1, s1) -> X <> [] -> d1 <= length E0 ->
  exists X1, E1 = E0 ++ X1 /\ X1 <> [] /\ bnext (E0 ++ v :: X) d s e = Some (E0 ++ v :: X1, d1, s1).
Proof.
  destruct e as [t o|t|t|t|t r], s as [|[w|]|r']; cbn; try discriminate.
  - intros H HX Hd; injection H as <- <- <-. exists X. auto.
  - intros H HX Hd; injection H as <- <- <-. exists (X ++ [w]). split; [now rewrite app_assoc|].
    split; [destruct X; discriminate|]. rewrite <- app_assoc. reflexivity.
  - destruct (nth_error (E0 ++ X) d) as [w|] eqn:En; [|discriminate].
    intros H HX Hd; injection H as <- <- <-. exists X. split; [reflexivity|]. split; [exact HX|].
    rewrite nth_error_app1 in En by lia. rewrite nth_error_app1 by lia. rewrite En. reflexivity.
  - destruct (Nat.eqb_spec d (length (E0 ++ X))) as [Ed|]; [|discriminate].
    intros H HX Hd; injection H as <- <- <-. exfalso. rewrite app_length in Ed.
    destruct X; [congruence|cbn in Ed; lia].
  - destruct (res_beq r r'); [|discriminate].
    intros H HX Hd; injection H as <- <- <-. exists X. auto.
Qed.

(** ** runs *)
Lemma brun_counts : forall tr c c',
  brun c tr = Some c' ->
  length (bE c') = length (bE c) + nenq tr /\ bd c' = bd c + ndeq tr /\
  (bd c <= length (bE c) -> bd c' <= length (bE c')).
Proof.
  induction tr as [|e r IH]; intros c c' H; cbn [brun nenq ndeq] in *.
  - injection H as <-. repeat split; auto; lia.
  - unfold bstep in H. destruct (bnext (bE c) (bd c) (bst c (btid e)) e) as [[[E1 d1] s1]|] eqn:En; [|discriminate].
    destruct (bnext_shape _ _ _ _ _ _ _ En) as (A1 & A2 & A3 & _).
    destruct (IH _ _ H) as (B1 & B2 & B3). cbn [bE bd] in *. split; [lia|]. split; [lia|].
    intros Hw. apply B3. apply A3. exact Hw.
Qed.

Lemma brun_tfree_st t : forall tr c c', brun c tr = Some c' -> tfree t tr -> bst c' t = bst c t.
Proof.
  induction tr as [|e r IH]; intros c c' H Hf; cbn [brun] in H.
  - injection H as <-. reflexivity.
  - cbn in Hf. destruct Hf as [Hf1 Hf2]. unfold bstep in H.
    destruct (bnext (bE c) (bd c) (bst c (btid e)) e) as [[[E1 d1] s1]|]; [|discriminate].
    rewrite (IH _ _ H Hf2). cbn. unfold pupd. destruct (Nat.eqb_spec t (btid e)); congruence.
Qed.

(** a run that contains no event of [t] does not depend on the status of [t] *)
Lemma brun_status t : forall tr c c' st0,
  brun c tr = Some c' -> tfree t tr -> (forall x, x <> t -> st0 x = bst c x) ->
  exists st', brun (mkB (bE c) (bd c) st0) tr = Some (mkB (bE c') (bd c') st') /\
              (forall x, x <> t -> st' x = bst c' x) /\ st' t = st0 t.
Proof.
  induction tr as [|e r IH]; intros c c' st0 H Hf Hs; cbn [brun] in *.
  - injection H as <-. exists st0. auto.
  - destruct Hf as [Hf1 Hf2]. unfold bstep in *. cbn [bE bd bst].
    rewrite (Hs _ Hf1).
    destruct (bnext (bE c) (bd c) (bst c (btid e)) e) as [[[E1 d1] s1]|]; [|discriminate].
    destruct (IH _ _ (pupd st0 (btid e) s1) H Hf2) as (st' & A & B & C).
    { intros x Hx. cbn. unfold pupd. destruct (Nat.eqb x (btid e)); auto. }
    exists st'. cbn [bE bd] in A. split; [exact A|]. split; [exact B|].
    rewrite C. unfold pupd. destruct (Nat.eqb_spec t (btid e)); congruence.
Qed.

Lemma brun_sim v : forall r E0 X d0 st0 c',
  brun (mkB (E0 ++ X) d0 st0) r = Some c' -> X <> [] -> bd c' <= length E0 ->
  exists X', bE c' = E0 ++ X' /\
             brun (mkB (E0 ++ v :: X) d0 st0) r = Some (mkB (E0 ++ v :: X') (bd c') (bst c')).
Proof.
  induction r as [|e r IH]; intros E0 X d0 st0 c' H HX Hd; cbn [brun] in *.
  - injection H as <-. exists X. auto.
  - unfold bstep in *. cbn [bE bd bst] in *.
    destruct (bnext (E0 ++ X) d0 (st0 (btid e)) e) as [[[E1 d1] s1]|] eqn:En; [|discriminate].
    assert (Hd1 : d1 <= length E0).
    { destruct (brun_counts _ _ _ H) as (_ & B2 & _). cbn in B2. lia. }
    destruct (bnext_sim v _ _ _ _ _ _ _ _ En HX Hd1) as (X1 & -> & HX1 & En').
    rewrite En'. apply IH; assumption.
Qed.

(** ** retroactive linearization of an enqueue *)
Lemma insert_at_end (v : Z) k (E : list Z) : length E <= k -> insert_at k v E = E ++ [v].
Proof. intros H. unfold insert_at. now rewrite firstn_all2, skipn_all2 by lia. Qed.

Lemma insert_at_app (v : Z) (E0 X : list Z) : insert_at (length E0) v (E0 ++ X) = E0 ++ v :: X.
Proof.
  unfold insert_at. rewrite firstn_app, skipn_app, Nat.sub_diag, firstn_all, skipn_all. cbn.
  now rewrite app_nil_r.
Qed.

Theorem brun_ins_enq t v : forall tr k c c',
  brun c tr = Some c' -> bst c' t = PPend (Enq v) -> nopost t k tr -> bd c' <= length (bE c) + k ->
  exists st', brun c (ins k (BEnq t) tr) = Some (mkB (insert_at (length (bE c) + k) v (bE c')) (bd c') st') /\
              forall x, st' x = if Nat.eqb x t then PLin (RBool true) else bst c' x.
Proof.
  induction tr as [|x r IH]; intros k c c' H Hs Hn Hd; cbn [ins].
  - cbn [brun] in H. injection H as <-. cbn [brun]. unfold bstep. cbn [btid bnext]. rewrite Hs.
    eexists. split; [rewrite insert_at_end by lia; reflexivity|]. intros y. reflexivity.
  - cbn [brun] in H. destruct (bstep c x) as [c1|] eqn:Ec1; [|discriminate].
    cbn [nopost] in Hn. destruct (is_enq x) eqn:Ex.
    + destruct k as [|k'].
      * (* insert here: the rest contains no event of t *)
        assert (Hst : bst c t = PPend (Enq v)).
        { rewrite <- Hs. symmetry. apply (brun_tfree_st t (x :: r) c c'); [cbn [brun]; now rewrite Ec1|exact Hn]. }
        cbn [brun]. unfold bstep at 1. cbn [btid bnext]. rewrite Hst.
        set (stm := pupd (bst c) t (PLin (RBool true))).
        (* first move the status change of t through the rest *)
        destruct (brun_status t (x :: r) c c' stm) as (st' & A & B & C).
        { cbn [brun]. now rewrite Ec1. } { exact Hn. }
        { intros y Hy. unfold stm, pupd. destruct (Nat.eqb_spec y t); congruence. }
        (* then the additional item *)
        destruct x as [tx o|tx|tx|tx|tx rr]; try discriminate. cbn [brun] in A.
        unfold bstep in A, Ec1. cbn [btid bE bd bst] in A, Ec1.
        destruct (bnext (bE c) (bd c) (stm tx) (BEnq tx)) as [[[E1 d1] s1]|] eqn:En; [|discriminate].
        cbn [bnext] in En. destruct (stm tx) as [|[w|]|] eqn:Etx; try discriminate. injection En as <- <- <-.
        cbn [brun]. unfold bstep at 1. cbn [btid bE bd bst bnext]. rewrite Etx.
        destruct (brun_sim v r (bE c) [w] (bd c) _ _ A) as (X' & EX & R).
        { discriminate. } { cbn [bd]. rewrite Nat.add_0_r in Hd. exact Hd. }
        cbn [bE bd bst] in EX, R.
        assert (Eapp : (bE c ++ [v]) ++ [w] = bE c ++ v :: [w]) by (now rewrite <- app_assoc).
        rewrite Eapp, R. rewrite EX, Nat.add_0_r, insert_at_app.
        eexists. split; [reflexivity|]. intros y. destruct (Nat.eqb_spec y t) as [->|Hy].
        -- rewrite C. unfold stm, pupd. now rewrite Nat.eqb_refl.
        -- apply B. exact Hy.
      * cbn [brun]. rewrite Ec1.
        assert (El : length (bE c1) = S (length (bE c))).
        { unfold bstep in Ec1. destruct (bnext (bE c) (bd c) (bst c (btid x)) x) as [[[E1 d1] s1]|] eqn:En; [|discriminate].
          injection Ec1 as <-. destruct (bnext_shape _ _ _ _ _ _ _ En) as (A1 & _). rewrite Ex in A1. cbn. lia. }
        destruct (IH k' c1 c' H Hs Hn) as (st' & A & B); [lia|].
        exists st'. split; [|exact B]. rewrite A. do 3 f_equal. lia.
    + cbn [brun]. rewrite Ec1.
      assert (El : bE c1 = bE c).
      { unfold bstep in Ec1. destruct (bnext (bE c) (bd c) (bst c (btid x)) x) as [[[E1 d1] s1]|] eqn:En; [|discriminate].
        injection Ec1 as <-. destruct (bnext_shape _ _ _ _ _ _ _ En) as (_ & _ & _ & A4). cbn. auto. }
      destruct (IH k c1 c' H Hs Hn) as (st' & A & B); [rewrite El; exact Hd|].
      exists st'. split; [|exact B]. rewrite A, El. reflexivity.
Qed.

(** ** retroactive linearization of an "empty" answer *)
Theorem brun_ins_emp t : forall tr k c c',
  brun c tr = Some c' -> bst c' t = PPend Deq -> nopost t k tr ->
  bd c <= length (bE c) -> bd c + nd k tr = length (bE c) + k ->
  exists st', brun c (ins k (BEmp t) tr) = Some (mkB (bE c') (bd c') st') /\
              forall x, st' x = if Nat.eqb x t then PLin (RVal None) else bst c' x.
Proof.
  induction tr as [|x r IH]; intros k c c' H Hs Hn Hw Hk; cbn [ins].
  - cbn [brun] in H. injection H as <-. cbn [nd] in Hk. cbn [brun]. unfold bstep. cbn [btid bnext]. rewrite Hs.
    assert (bd c = length (bE c)) as -> by lia. rewrite Nat.eqb_refl.
    eexists. split; [reflexivity|]. intros y. reflexivity.
  - cbn [brun] in H. destruct (bstep c x) as [c1|] eqn:Ec1; [|discriminate].
    cbn [nopost] in Hn. cbn [nd] in Hk. destruct (is_enq x) eqn:Ex.
    + destruct k as [|k'].
      * assert (Hst : bst c t = PPend Deq).
        { rewrite <- Hs. symmetry. apply (brun_tfree_st t (x :: r) c c'); [cbn [brun]; now rewrite Ec1|exact Hn]. }
        assert (bd c = length (bE c)) as Ed by lia.
        set (stm := pupd (bst c) t (PLin (RVal None))).
        assert (Hs1 : bstep c (BEmp t) = Some (mkB (bE c) (bd c) stm)).
        { unfold bstep. cbn [btid bnext]. rewrite Hst. rewrite Ed at 1. rewrite Nat.eqb_refl. reflexivity. }
        destruct (brun_status t (x :: r) c c' stm) as (st' & A & B & C).
        { cbn [brun]. now rewrite Ec1. } { exact Hn. }
        { intros y Hy. unfold stm, pupd. destruct (Nat.eqb_spec y t); congruence. }
        change (brun c (BEmp t :: x :: r)) with
          (match bstep c (BEmp t) with Some c' => brun c' (x :: r) | None => None end).
        rewrite Hs1, A. eexists. split; [reflexivity|].
        intros y. destruct (Nat.eqb_spec y t) as [->|Hy].
        -- rewrite C. unfold stm, pupd. now rewrite Nat.eqb_refl.
        -- apply B. exact Hy.
      * cbn [brun]. rewrite Ec1.
        unfold bstep in Ec1. destruct (bnext (bE c) (bd c) (bst c (btid x)) x) as [[[E1 d1] s1]|] eqn:En; [|discriminate].
        injection Ec1 as <-. destruct (bnext_shape _ _ _ _ _ _ _ En) as (A1 & A2 & A3 & _). rewrite Ex in A1.
        assert (Edq : is_deq x = false) by (destruct x; cbn in *; congruence). rewrite Edq in A2.
        apply (IH k' _ c' H Hs Hn); cbn [bE bd]; lia.
    + cbn [brun]. rewrite Ec1.
      unfold bstep in Ec1. destruct (bnext (bE c) (bd c) (bst c (btid x)) x) as [[[E1 d1] s1]|] eqn:En; [|discriminate].
      injection Ec1 as <-. destruct (bnext_shape _ _ _ _ _ _ _ En) as (A1 & A2 & A3 & A4). rewrite Ex in A1.
      apply (IH k _ c' H Hs Hn); cbn [bE bd]; lia.
Qed.

(** ** from [brun] to the LP traces of [LV.Base.Lin] *)
Definition blp (e : bev) : aev Fifo :=
  match e with
  | BInv t o => @AInv Fifo t o
  | BEnq t => @ALin Fifo t
  | BDeq t => @ALin Fifo t
  | BEmp t => @ALin Fifo t
  | BRes t r => @ARes Fifo t r
  end.

Lemma erase_blp tr : erase (map blp tr) = berase tr.
Proof. induction tr as [|[t o|t|t|t|t r] tr IH]; cbn; auto; now rewrite IH. Qed.

Definition strel (st : pmap) (f : stmap) : Prop :=
  forall t, match st t with
            | PIdle => f t = @Idle Fifo
            | PPend o => f t = @Pending Fifo o
            | PLin r => exists o, f t = @Linearized Fifo o r
            end.

Lemma strel_upd st f t s x :
  strel st f ->
  match s with
  | PIdle => x = @Idle Fifo
  | PPend o => x = @Pending Fifo o
  | PLin r => exists o, x = @Linearized Fifo o r
  end ->
  strel (pupd st t s) (Lin.upd f t x).
Proof.
  intros H Hx u. unfold pupd, Lin.upd. destruct (Nat.eqb u t); [exact Hx|apply H].
Qed.

Lemma skipn_snoc {A} d (E : list A) v : d <= length E -> skipn d (E ++ [v]) = skipn d E ++ [v].
Proof.
  intros H. rewrite skipn_app. replace (d - length E) with 0 by lia. reflexivity.
Qed.

Lemma skipn_nth {A} : forall d (E : list A) v, nth_error E d = Some v -> skipn d E = v :: skipn (S d) E.
Proof.
  induction d as [|d IH]; intros [|x E] v H; cbn in *; try discriminate.
  - now injection H as ->.
  - apply IH. exact H.
Qed.

Lemma brun_lp : forall tr c c' f0,
  brun c tr = Some c' -> bd c <= length (bE c) -> strel (bst c) f0 ->
  exists f, @lp_run Fifo (skipn (bd c) (bE c), f0) (map blp tr) = Some (skipn (bd c') (bE c'), f) /\
            strel (bst c') f.
Proof.
  induction tr as [|e r IH]; intros c c' f0 H Hw Hr; cbn [brun map lp_run] in *.
  - injection H as <-. eauto.
  - destruct (bstep c e) as [c1|] eqn:Ec1; [|discriminate].
    unfold bstep in Ec1.
    destruct (bnext (bE c) (bd c) (bst c (btid e)) e) as [[[E1 d1] s1]|] eqn:En; [|discriminate].
    injection Ec1 as <-.
    destruct (bnext_shape _ _ _ _ _ _ _ En) as (_ & _ & A3 & _).
    assert (Hstep : exists f1, @lp_step Fifo (skipn (bd c) (bE c), f0) (blp e) = Some (skipn d1 E1, f1) /\
                               strel (pupd (bst c) (btid e) s1) f1).
    { pose proof (Hr (btid e)) as Ht.
      destruct e as [t o|t|t|t|t rr]; cbn [btid blp bnext] in *.
      - destruct (bst c t); try discriminate. injection En as <- <- <-.
        cbn [lp_step]. rewrite Ht. eexists. split; [reflexivity|]. apply strel_upd; auto.
      - destruct (bst c t) as [|[v|]|]; try discriminate. injection En as <- <- <-.
        cbn [lp_step]. rewrite Ht. cbn. rewrite skipn_snoc by exact Hw.
        eexists. split; [reflexivity|]. apply strel_upd; eauto.
      - destruct (bst c t) as [|[v|]|]; try discriminate.
        destruct (nth_error (bE c) (bd c)) as [w|] eqn:Enth; [|discriminate]. injection En as <- <- <-.
        cbn [lp_step]. rewrite Ht. rewrite (skipn_nth _ _ _ Enth). cbn.
        eexists. split; [reflexivity|]. apply strel_upd; eauto.
      - destruct (bst c t) as [|[v|]|]; try discriminate.
        destruct (Nat.eqb_spec (bd c) (length (bE c))) as [Ed|]; [|discriminate]. injection En as <- <- <-.
        cbn [lp_step]. rewrite Ht. rewrite Ed, skipn_all. cbn.
        eexists. split; [reflexivity|]. apply strel_upd; eauto.
      - destruct (bst c t) as [| |r']; try discriminate.
        destruct (res_beq rr r') eqn:Er; [|discriminate]. injection En as <- <- <-.
        destruct Ht as (o & Ht). cbn [lp_step]. rewrite Ht. cbn [res_eqb Fifo mkSpec]. rewrite Er.
        eexists. split; [reflexivity|]. apply strel_upd; auto. }
    destruct Hstep as (f1 & S1 & S2). rewrite S1.
    apply (IH (mkB E1 d1 (pupd (bst c) (btid e) s1)) c' f1 H); cbn [bE bd bst]; auto.
Qed.

Theorem brun_linearizable tr c :
  brun binit tr = Some c -> linearizable Fifo (berase tr).
Proof.
  intros H. destruct (brun_lp tr binit c (fun _ => @Idle Fifo) H) as (f & A & _).
  - cbn. lia.
  - intros t. reflexivity.
  - rewrite <- erase_blp. apply lp_valid_linearizable. eexists. exact A.
Qed.

(** the annotated trace in the form of [Lin.lp_run], with the abstract FIFO queue it ends in *)
Theorem brun_lp_trace tr c :
  brun binit tr = Some c ->
  exists (atr : list (aev Fifo)) (f : stmap),
    @lp_run Fifo (@lp_init Fifo) atr = Some (skipn (bd c) (bE c), f) /\ erase atr = berase tr.
Proof.
  intros H. destruct (brun_lp tr binit c (fun _ => @Idle Fifo) H) as (f & A & _).
  - cbn. lia.
  - intros t. reflexivity.
  - exists (map blp tr), f. split; [exact A|apply erase_blp].
Qed.
