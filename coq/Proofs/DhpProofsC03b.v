(** * DhpProofsC03b: the DHP half of C03 over every interleaving.

    [dhp_dispose_at_most_once]: in every configuration reachable from the initial one by any sequence of thread
    choices (any number of threads; any client programs over attach / detach / Guard / assign / clear / protect /
    publish / retire / scan / wait; any block capacity >= 4; any initial guard count), if the client hands every
    object to retire() at most once then the disposer is called at most once per object: through every scan,
    every extension of a retired array, every detach (which cuts the array's unused blocks off or tears it down)
    and every help_scan that moves the retired pointers of an orphaned record into the helper's array.
    Conditional on [flbad = false]: the embedded cds::intrusive::FreeList of retired blocks never handed out a
    block that was not in it (property C21; the event that would falsify it is visible in the trace).

    [dhp_dispose_at_most_once_nodetach]: the same for programs that never detach, without the hypothesis
    [c_oldtail = false] (the stale list_tail_ of free_thread_data before commit cf24f31 is then never reached). *)
From Coq Require Import ZArith NArith List String Bool Lia PeanoNat.
From LV Require Import Base.Conc Base.Events Model.DhpLang Model.Dhp Proofs.DhpBase Proofs.DhpHist
  Proofs.DhpLangProofs Proofs.DhpInvB Proofs.DhpQuietB Proofs.DhpQuietB2 Proofs.DhpRulesB Proofs.DhpMainC Proofs.DhpProofsC02 Proofs.DhpProofsC03.
Import ListNotations.

Definition auxb0 : AuxB := mkAuxB (fun _ => vb0) (fun _ => RNone) (fun _ => LNo) (fun _ => []) (fun _ => 0) (fun _ => 0) (fun _ => false) [].

Lemma JB_init c : JB c (init c) auxb0 [].
Proof.
  constructor.
  - constructor; cbn; auto; try (intros; discriminate); try (intros; contradiction). split; [reflexivity|constructor].
  - constructor; cbn; auto; try (intros; discriminate); try (intros; lia).
    split; [|constructor]. intros b. split; [intros []|discriminate].
  - constructor; cbn; try (intros; discriminate); try (intros; lia); try (intros; congruence).
    split; intros; discriminate.
  - constructor; cbn; try (intros; discriminate); try (intros; lia); try (intros; congruence).
    + intros t. split; [constructor|intros p []].
    + split; [constructor|intros p []].
Qed.

Lemma cfg_ok_initB fuel c ths : 4 <= c_RB c -> c_old c = false -> Forall (Forall (okop c)) ths ->
  Conc.cfg_ok viewB (InvB c) (init_cfg fuel c ths).
Proof.
  intros H4 Ho Hnd. exists auxb0. split.
  - cbn. intros _ _. apply JB_init.
  - intros t p Hp. unfold init_cfg in Hp. cbn [Conc.threads] in Hp. rewrite nth_error_map in Hp.
    destruct (nth_error (combine (seq 0 (List.length ths)) ths) t) as [[t' os]|] eqn:E; [|discriminate].
    cbn in Hp. inversion Hp; subst p. pose proof (nth_error_combine_seq ths _ _ _ _ E) as Et. cbn in Et. subst t'.
    apply compile_safe. apply spec_thread; auto.
    apply nth_error_In in E. apply in_combine_r in E. rewrite Forall_forall in Hnd. apply Hnd. exact E.
Qed.

Lemma at_most_once_from_ok fuel c ths conf : 4 <= c_RB c -> c_old c = false -> Forall (Forall (okop c)) ths ->
  Conc.reach (init_cfg fuel c ths) conf ->
  flbad (hist (Conc.trace conf)) = false ->
  NoDup (flat_map (fun e => DhpProofsC03.retired_ev (snd e)) (Conc.trace conf)) ->
  NoDup (disposed_of (Conc.trace conf)).
Proof.
  intros H4 Ho Hnd Hr Hfl Hn.
  destruct (Conc.reach_Inv (cfg_ok_initB fuel c ths H4 Ho Hnd) Hr) as (a & Hi).
  destruct (Hi Hfl Hn) as [_ _ _ [_ _ _ W4 _]]. exact (proj1 W4).
Qed.

Theorem dhp_dispose_at_most_once : forall fuel c ths conf,
  4 <= c_RB c -> c_old c = false -> c_oldtail c = false ->
  Conc.reach (init_cfg fuel c ths) conf ->
  flbad (hist (Conc.trace conf)) = false ->
  NoDup (flat_map (fun e => DhpProofsC03.retired_ev (snd e)) (Conc.trace conf)) ->
  NoDup (disposed_of (Conc.trace conf)).
Proof.
  intros fuel c ths conf H4 Ho Ht. apply at_most_once_from_ok; auto.
  apply Forall_forall. intros os _. apply Forall_forall. intros o _. right. exact Ht.
Qed.

Theorem dhp_dispose_at_most_once_nodetach : forall fuel c ths conf,
  4 <= c_RB c -> c_old c = false -> Forall (Forall nodetach) ths ->
  Conc.reach (init_cfg fuel c ths) conf ->
  flbad (hist (Conc.trace conf)) = false ->
  NoDup (flat_map (fun e => DhpProofsC03.retired_ev (snd e)) (Conc.trace conf)) ->
  NoDup (disposed_of (Conc.trace conf)).
Proof.
  intros fuel c ths conf H4 Ho Hnd. apply at_most_once_from_ok; auto.
  eapply Forall_impl; [|exact Hnd]. intros os H. eapply Forall_impl; [|exact H]. intros o Ho'. left. exact Ho'.
Qed.

(** every disposed object had been handed to retire() *)
Theorem dhp_disposed_were_retired : forall fuel c ths conf,
  4 <= c_RB c -> c_old c = false -> c_oldtail c = false ->
  Conc.reach (init_cfg fuel c ths) conf ->
  flbad (hist (Conc.trace conf)) = false ->
  NoDup (flat_map (fun e => DhpProofsC03.retired_ev (snd e)) (Conc.trace conf)) ->
  incl (disposed_of (Conc.trace conf)) (flat_map (fun e => DhpProofsC03.retired_ev (snd e)) (Conc.trace conf)).
Proof.
  intros fuel c ths conf H4 Ho Ht Hr Hfl Hn.
  assert (Hnd : Forall (Forall (okop c)) ths) by (apply Forall_forall; intros os _; apply Forall_forall; intros o _; right; exact Ht).
  destruct (Conc.reach_Inv (cfg_ok_initB fuel c ths H4 Ho Hnd) Hr) as (a & Hi).
  destruct (Hi Hfl Hn) as [_ _ _ [_ _ _ W4 W5]]. intros p Hp. apply W5. rewrite (proj2 W4 p Hp). discriminate.
Qed.
