(** * DhpProofsC03b: the DHP half of C03 over every interleaving.

    [dhp_dispose_at_most_once_nodetach]: in every configuration reachable from the initial one by any sequence of
    thread choices (any number of threads; any client programs over attach / Guard / assign / clear / protect /
    publish / retire / scan / wait), if the client hands every object to retire() at most once then the disposer
    is called at most once per object.  Conditional on [flbad = false] (the embedded free lists never handed out a
    block that was not in them: property C21; the falsifying event is visible in the trace). *)
From Coq Require Import ZArith NArith List String Bool Lia PeanoNat.
From LV Require Import Base.Conc Base.Events Model.DhpLang Model.Dhp Proofs.DhpBase Proofs.DhpHist
  Proofs.DhpLangProofs Proofs.DhpInvB Proofs.DhpQuietB Proofs.DhpQuietB2 Proofs.DhpRulesB Proofs.DhpMainC Proofs.DhpProofsC02 Proofs.DhpProofsC03.
Import ListNotations.

Definition auxb0 : AuxB := mkAuxB (fun _ => vb0) (fun _ => RNone) (fun _ => LNo) (fun _ => []) (fun _ => 0) (fun _ => 0) (fun _ => false) [].

Lemma JB_init c : JB c (init c) auxb0 [].
Proof.
  constructor.
  - constructor; cbn; auto; try (intros; discriminate); try (intros; contradiction). split; [reflexivity|constructor].
  - constructor; cbn; auto; try (intros; discriminate); try (intros; lia).
    split; [|constructor]. intros b. split; [intros []|discriminate].
  - constructor; cbn; try (intros; discriminate); try (intros; lia); try (intros; congruence).
    split; intros; discriminate.
  - constructor; cbn; try (intros; discriminate); try (intros; lia); try (intros; congruence).
    + intros t. split; [constructor|intros p []].
    + split; [constructor|intros p []].
Qed.

Lemma cfg_ok_initB fuel c ths : 4 <= c_RB c -> c_old c = false -> Forall (Forall nodetach) ths ->
  Conc.cfg_ok viewB (InvB c) (init_cfg fuel c ths).
Proof.
  intros H4 Ho Hnd. exists auxb0. split.
  - cbn. intros _ _. apply JB_init.
  - intros t p Hp. unfold init_cfg in Hp. cbn [Conc.threads] in Hp. rewrite nth_error_map in Hp.
    destruct (nth_error (combine (seq 0 (List.length ths)) ths) t) as [[t' os]|] eqn:E; [|discriminate].
    cbn in Hp. inversion Hp; subst p. pose proof (nth_error_combine_seq ths _ _ _ _ E) as Et. cbn in Et. subst t'.
    apply compile_safe. apply spec_thread; auto.
    apply nth_error_In in E. apply in_combine_r in E. rewrite Forall_forall in Hnd. apply Hnd. exact E.
Qed.

Theorem dhp_dispose_at_most_once_nodetach : forall fuel c ths conf,
  4 <= c_RB c -> c_old c = false -> Forall (Forall nodetach) ths ->
  Conc.reach (init_cfg fuel c ths) conf ->
  flbad (hist (Conc.trace conf)) = false ->
  NoDup (flat_map (fun e => DhpProofsC03.retired_ev (snd e)) (Conc.trace conf)) ->
  NoDup (disposed_of (Conc.trace conf)).
Proof.
  intros fuel c ths conf H4 Ho Hnd Hr Hfl Hn.
  destruct (Conc.reach_Inv (cfg_ok_initB fuel c ths H4 Ho Hnd) Hr) as (a & Hi).
  destruct (Hi Hfl Hn) as [_ _ _ [_ _ _ W4 _]]. exact (proj1 W4).
Qed.
