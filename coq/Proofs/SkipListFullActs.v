(** * SkipListFullActs: the atomic accesses of the skip list model against the full-history invariant [Inv2]
      (Proofs/SkipListFullInv.v): loads with and without observation, stores into own nodes, the CASes, client events. *)
From Coq Require Import ZArith List String Bool Lia PeanoNat.
From LV Require Import Base.Conc Base.Events Base.Lin Spec.Specs Proofs.LinProofs.
From LV Require Import Model.SkipList Proofs.SkipListProofs Proofs.SkipListLin Proofs.SkipListFullInv.
From LV Require Proofs.MichaelListInv Proofs.MichaelListLin Proofs.MichaelListFullInv.
Import ListNotations.
Local Open Scope Z_scope.

(** ** more facts in a view *)
Definition setx (x : ext) (hl fzu he : list (ptr * nat)) : ext := mkX (xwatch x) hl fzu he (xoh x).
Definition addkn2 (q : ptr) (lv : lview2) : lview2 := (addkn q (fst lv), snd lv).
Definition addfz2 (c nx : ptr) (lv : lview2) : lview2 := (addfz c nx (fst lv), snd lv).
Definition addhl (q : ptr) (l : nat) (lv : lview2) : lview2 :=
  if Nat.eqb q null then lv else (fst lv, setx (snd lv) ((q, l) :: xhl (snd lv)) (xfzu (snd lv)) (xhe (snd lv))).
Definition addfzu (c : ptr) (l : nat) (lv : lview2) : lview2 :=
  (fst lv, setx (snd lv) (xhl (snd lv)) ((c, l) :: xfzu (snd lv)) (xhe (snd lv))).
Definition addhe (q : ptr) (h : nat) (lv : lview2) : lview2 :=
  (fst lv, setx (snd lv) (xhl (snd lv)) (xfzu (snd lv)) ((q, h) :: xhe (snd lv))).

(** what a load of the cell (p, l) that returned x teaches *)
Definition ld1 (l : nat) (x : mptr) (lv : lview2) : lview2 := addhl (fst x) l (addkn2 (fst x) lv).
Definition ldrec (p : ptr) (l : nat) (x : mptr) (lv : lview2) : lview2 :=
  let lv1 := ld1 l x lv in
  if snd x then
    match l with
    | O => addfz2 p (fst x) lv1
    | S _ => if Nat.eqb p head then lv1 else addfzu p l lv1
    end
  else lv1.

(** status and watched node: unchanged, or the operation was and is open (observations in between) *)
Definition sevw (lv lv' : lview2) : Prop :=
  (vst (fst lv') = vst (fst lv) /\ xwatch (snd lv') = xwatch (snd lv)) \/
  exists o, MF.open_read (vst (fst lv)) o /\ MF.open_read (vst (fst lv')) o.

Lemma sevw_refl lv : sevw lv lv.
Proof. left. auto. Qed.
Lemma sevw_trans a b c : sevw a b -> sevw b c -> sevw a c.
Proof.
  intros [(A1 & A2)|(o & A1 & A2)] [(B1 & B2)|(o' & B1 & B2)].
  - left. split; congruence.
  - right. exists o'. rewrite <- A1. auto.
  - right. exists o. rewrite B1. auto.
  - right. exists o. split; [exact A1|]. now rewrite (open_read_fun _ _ _ A2 B1).
Qed.
Lemma sevw_open lv lv' o : sevw lv lv' -> MF.open_read (vst (fst lv)) o -> MF.open_read (vst (fst lv')) o.
Proof. intros [(A1 & _)|(o' & A1 & A2)] H; [now rewrite A1|]. now rewrite (open_read_fun _ _ _ H A1). Qed.
Lemma sevw_closed lv lv' : sevw lv lv' -> open_of (vst (fst lv)) = None ->
  vst (fst lv') = vst (fst lv) /\ xwatch (snd lv') = xwatch (snd lv).
Proof. intros [H|(o & A1 & _)] Hc; [exact H|]. apply open_of_read in A1. congruence. Qed.

(** [kle lv lv']: more knowledge, same obligations; the status may have moved by observations *)
Definition kle (lv lv' : lview2) : Prop :=
  incl (vkn (fst lv)) (vkn (fst lv')) /\ incl (vfz (fst lv)) (vfz (fst lv')) /\ vown (fst lv') = vown (fst lv) /\
  vser (fst lv') = vser (fst lv) /\
  incl (xhl (snd lv)) (xhl (snd lv')) /\ incl (xfzu (snd lv)) (xfzu (snd lv')) /\ incl (xhe (snd lv)) (xhe (snd lv')) /\
  xoh (snd lv') = xoh (snd lv) /\ sevw lv lv'.
(** [vle2]: moreover the same status and the same watched node *)
Definition vle2 (lv lv' : lview2) : Prop :=
  kle lv lv' /\ vst (fst lv') = vst (fst lv) /\ xwatch (snd lv') = xwatch (snd lv).

Lemma kle_refl lv : kle lv lv.
Proof. repeat split; auto using incl_refl, sevw_refl. Qed.
Lemma kle_trans a b c : kle a b -> kle b c -> kle a c.
Proof.
  intros (A1 & A2 & A3 & A4 & A5 & A6 & A7 & A8 & A9) (B1 & B2 & B3 & B4 & B5 & B6 & B7 & B8 & B9).
  repeat split; try congruence; try (eapply incl_tran; eauto). eapply sevw_trans; eauto.
Qed.
Lemma vle2_refl lv : vle2 lv lv.
Proof. split; [apply kle_refl|auto]. Qed.
Lemma vle2_trans a b c : vle2 a b -> vle2 b c -> vle2 a c.
Proof. intros (A1 & A2 & A3) (B1 & B2 & B3). split; [eapply kle_trans; eauto|split; congruence]. Qed.
Lemma vle2_kle a b : vle2 a b -> kle a b.
Proof. intros H; apply H. Qed.
Lemma kle_vle2 a b c : kle a b -> vle2 b c -> kle a c.
Proof. intros H1 H2. eapply kle_trans; [exact H1|apply H2]. Qed.

Lemma vst_addkn2 q lv : vst (fst (addkn2 q lv)) = vst (fst lv).
Proof. unfold addkn2. cbn [fst]. apply vst_addkn. Qed.
Lemma addkn_fields q lv : vfz (addkn q lv) = vfz lv /\ vown (addkn q lv) = vown lv /\ vser (addkn q lv) = vser lv /\ vst (addkn q lv) = vst lv /\ incl (vkn lv) (vkn (addkn q lv)).
Proof. unfold addkn. destruct (Nat.eqb q null); cbn; repeat split; auto using incl_refl, incl_tl. Qed.

Lemma vle2_addkn2 q lv : vle2 lv (addkn2 q lv).
Proof.
  destruct (addkn_fields q (fst lv)) as (F1 & F2 & F3 & F4 & F5). unfold addkn2.
  split; [|split; cbn [fst snd]; auto]. repeat split; cbn [fst snd]; auto using incl_refl; try (rewrite F1; apply incl_refl).
  left. cbn [fst snd]. auto.
Qed.
Lemma vle2_addfz2 c nx lv : vle2 lv (addfz2 c nx lv).
Proof. split; [|split; reflexivity]. repeat split; cbn; auto using incl_refl, incl_tl; try (left; split; reflexivity). Qed.
Lemma vle2_addhl q l lv : vle2 lv (addhl q l lv).
Proof.
  unfold addhl. destruct (Nat.eqb q null); [apply vle2_refl|]. split; [|split; reflexivity].
  repeat split; cbn; auto using incl_refl, incl_tl; try (left; split; reflexivity).
Qed.
Lemma vle2_addfzu c l lv : vle2 lv (addfzu c l lv).
Proof. split; [|split; reflexivity]. repeat split; cbn; auto using incl_refl, incl_tl; try (left; split; reflexivity). Qed.
Lemma vle2_addhe q h lv : vle2 lv (addhe q h lv).
Proof. split; [|split; reflexivity]. repeat split; cbn; auto using incl_refl, incl_tl; try (left; split; reflexivity). Qed.
Lemma vle2_ld1 l x lv : vle2 lv (ld1 l x lv).
Proof. unfold ld1. eapply vle2_trans; [apply vle2_addkn2|apply vle2_addhl]. Qed.
Lemma vle2_ldrec p l x lv : vle2 lv (ldrec p l x lv).
Proof.
  unfold ldrec. destruct (snd x); [|apply vle2_ld1]. destruct l.
  - eapply vle2_trans; [apply vle2_ld1|apply vle2_addfz2].
  - destruct (Nat.eqb p head); [apply vle2_ld1|]. eapply vle2_trans; [apply vle2_ld1|apply vle2_addfzu].
Qed.

(** monotonicity of the recording functions *)
Lemma incl_cons2 {A} (x : A) l l' : incl l l' -> incl (x :: l) (x :: l').
Proof. intros H y [<-|Hy]; [now left|right; auto]. Qed.

Lemma addkn_incl q lv lv' : incl (vkn lv) (vkn lv') -> incl (vkn (addkn q lv)) (vkn (addkn q lv')).
Proof. unfold addkn. destruct (Nat.eqb q null); cbn; auto using incl_cons2. Qed.

Lemma kle_addkn2 q lv lv' : kle lv lv' -> kle (addkn2 q lv) (addkn2 q lv').
Proof.
  intros (A1 & A2 & A3 & A4 & A5 & A6 & A7 & A8 & A9).
  destruct (addkn_fields q (fst lv)) as (F1 & F2 & F3 & F4 & _). destruct (addkn_fields q (fst lv')) as (G1 & G2 & G3 & G4 & _).
  unfold kle, addkn2. cbn [fst snd]. split; [now apply addkn_incl|]. split; [now rewrite F1, G1|].
  rewrite F2, G2, F3, G3. repeat split; auto. unfold sevw in *. cbn [fst snd]. now rewrite F4, G4.
Qed.
Lemma vle2_lift (f : lview2 -> lview2) :
  (forall lv lv', kle lv lv' -> kle (f lv) (f lv')) ->
  (forall lv, vst (fst (f lv)) = vst (fst lv) /\ xwatch (snd (f lv)) = xwatch (snd lv)) ->
  forall lv lv', vle2 lv lv' -> vle2 (f lv) (f lv').
Proof.
  intros H1 H2 lv lv' (A & B & C). split; [now apply H1|]. destruct (H2 lv) as [E1 E2], (H2 lv') as [E3 E4]. split; congruence.
Qed.
Lemma kle_addfz2 c nx lv lv' : kle lv lv' -> kle (addfz2 c nx lv) (addfz2 c nx lv').
Proof. intros (A1 & A2 & A3 & A4 & A5 & A6 & A7 & A8 & A9). repeat split; cbn; auto using incl_cons2. Qed.
Lemma kle_addhl q l lv lv' : kle lv lv' -> kle (addhl q l lv) (addhl q l lv').
Proof.
  intros H. unfold addhl. destruct (Nat.eqb q null); [exact H|].
  destruct H as (A1 & A2 & A3 & A4 & A5 & A6 & A7 & A8 & A9). repeat split; cbn; auto using incl_cons2.
Qed.
Lemma kle_addfzu c l lv lv' : kle lv lv' -> kle (addfzu c l lv) (addfzu c l lv').
Proof. intros (A1 & A2 & A3 & A4 & A5 & A6 & A7 & A8 & A9). repeat split; cbn; auto using incl_cons2. Qed.
Lemma kle_addhe q h lv lv' : kle lv lv' -> kle (addhe q h lv) (addhe q h lv').
Proof. intros (A1 & A2 & A3 & A4 & A5 & A6 & A7 & A8 & A9). repeat split; cbn; auto using incl_cons2. Qed.
Lemma kle_ld1 l x lv lv' : kle lv lv' -> kle (ld1 l x lv) (ld1 l x lv').
Proof. intros H. unfold ld1. now apply kle_addhl, kle_addkn2. Qed.
Lemma kle_ldrec p l x lv lv' : kle lv lv' -> kle (ldrec p l x lv) (ldrec p l x lv').
Proof.
  intros H. unfold ldrec. destruct (snd x); [|now apply kle_ld1]. destruct l; [now apply kle_addfz2, kle_ld1|].
  destruct (Nat.eqb p head); [now apply kle_ld1|now apply kle_addfzu, kle_ld1].
Qed.
Lemma same_ld1 l x lv : vst (fst (ld1 l x lv)) = vst (fst lv) /\ xwatch (snd (ld1 l x lv)) = xwatch (snd lv).
Proof. destruct (vle2_ld1 l x lv) as (_ & H1 & H2). auto. Qed.
Lemma same_ldrec p l x lv : vst (fst (ldrec p l x lv)) = vst (fst lv) /\ xwatch (snd (ldrec p l x lv)) = xwatch (snd lv).
Proof. destruct (vle2_ldrec p l x lv) as (_ & H1 & H2). auto. Qed.
Lemma vle2_ld1_mono l x lv lv' : vle2 lv lv' -> vle2 (ld1 l x lv) (ld1 l x lv').
Proof. apply vle2_lift; [apply kle_ld1|apply same_ld1]. Qed.
Lemma vle2_ldrec_mono p l x lv lv' : vle2 lv lv' -> vle2 (ldrec p l x lv) (ldrec p l x lv').
Proof. apply vle2_lift; [apply kle_ldrec|apply same_ldrec]. Qed.

Definition known2 (lv : lview2) (p : ptr) : Prop := known (fst lv) p.
Definition knownz2 (lv : lview2) (p : ptr) : Prop := knownz (fst lv) p.
(** [hok lv l q]: the thread knows that a level-l link to q is allowed: height(q) > l *)
Definition hok (lv : lview2) (l : nat) (q : ptr) : Prop :=
  q = null \/ l = 0%nat \/ In (q, l) (xhl (snd lv)) \/ exists h, xoh (snd lv) = Some (q, h) /\ (l < h)%nat.

Lemma known2_kle lv lv' p : kle lv lv' -> known2 lv p -> known2 lv' p.
Proof. intros (H & _) [->|K]; [now left|right; auto]. Qed.
Lemma knownz2_kle lv lv' p : kle lv lv' -> knownz2 lv p -> knownz2 lv' p.
Proof. intros (H & _) [->|K]; [now left|right; auto]. Qed.
Lemma hok_kle lv lv' l q : kle lv lv' -> hok lv l q -> hok lv' l q.
Proof.
  intros (_ & _ & _ & _ & H5 & _ & _ & H8 & _) [H|[H|[H|(h & H & Hl)]]]; [now left|right; now left|right; right; left; auto|].
  right. right. right. exists h. split; [congruence|exact Hl].
Qed.
Lemma knownz2_ld1 l x lv : knownz2 (ld1 l x lv) (fst x).
Proof.
  destruct (vle2_addhl (fst x) l (addkn2 (fst x) lv)) as [K _]. eapply knownz2_kle; [exact K|]. unfold knownz2, addkn2. cbn [fst]. apply knownz_addkn.
Qed.
Lemma hok_ld1 l x lv : hok (ld1 l x lv) l (fst x).
Proof.
  unfold ld1, addhl, hok. destruct (Nat.eqb_spec (fst x) null) as [E|E]; [now left|]. right. right. left. cbn. now left.
Qed.
Lemma known_of_knownz2 lv p : knownz2 lv p -> p <> null -> known2 lv p.
Proof. apply known_of_knownz. Qed.

(** ** well-formedness of recorded facts *)
Lemma x_ok_base g pub t lv lv0 :
  vst lv0 = vst (fst lv) -> vown lv0 = vown (fst lv) -> x_ok g pub t lv -> x_ok g pub t (lv0, snd lv).
Proof.
  intros E1 E2 (W & Hl & Fz & He & Oh). split; [|split; [|split; [|split]]]; cbn [fst snd]; auto.
  - intros d Hd. rewrite E1. auto.
  - intros n h E. rewrite E2. auto.
Qed.
Lemma x_ok_addkn2 g pub t q lv : x_ok g pub t lv -> x_ok g pub t (addkn2 q lv).
Proof. destruct (addkn_fields q (fst lv)) as (_ & F2 & _ & F4 & _). apply x_ok_base; auto. Qed.
Lemma x_ok_addfz2 g pub t c nx lv : x_ok g pub t lv -> x_ok g pub t (addfz2 c nx lv).
Proof. apply x_ok_base; reflexivity. Qed.
Lemma x_ok_addhl g pub t q l lv :
  x_ok g pub t lv -> (q = null \/ (pub q = true /\ (l < hgt_of g q)%nat)) -> x_ok g pub t (addhl q l lv).
Proof.
  intros H Hq. unfold addhl. destruct (Nat.eqb_spec q null) as [E|E]; [exact H|]. destruct Hq as [Hq|Hq]; [contradiction|].
  destruct H as (W & Hl & Fz & He & Oh). split; [|split; [|split; [|split]]]; cbn [fst snd setx xwatch xhl xfzu xhe xoh]; auto.
Qed.
Lemma x_ok_addfzu g pub t c l lv :
  x_ok g pub t lv -> pub c = true -> (1 <= l)%nat -> snd (nxt g c l) = true -> x_ok g pub t (addfzu c l lv).
Proof.
  intros (W & Hl & Fz & He & Oh) H1 H2 H3. split; [|split; [|split; [|split]]]; cbn [fst snd addfzu setx xwatch xhl xfzu xhe xoh]; auto.
Qed.
Lemma x_ok_addhe g pub t q h lv : x_ok g pub t lv -> pub q = true -> hgt_of g q = h -> x_ok g pub t (addhe q h lv).
Proof.
  intros (W & Hl & Fz & He & Oh) H1 H2. split; [|split; [|split; [|split]]]; cbn [fst snd addhe setx xwatch xhl xfzu xhe xoh]; auto.
Qed.
Lemma x_ok_set g pub t lv s w :
  x_ok g pub t lv -> (forall d, w = Some d -> pub d = true /\ MF.open_read s (SErase (key_of d))) -> x_ok g pub t (set_st2 lv s w).
Proof. intros (W & Hl & Fz & He & Oh) Hw. split; [|split; [|split; [|split]]]; cbn [fst snd set_st2 set_watch set_st xwatch xhl xfzu xhe xoh vst vown]; auto. Qed.

Lemma lv_ok_set g pub t lv s : lv_ok g pub t lv -> lv_ok g pub t (set_st lv s).
Proof. apply lv_ok_st. Qed.

Definition ok2 (g : G) (pub : ptr -> bool) (t : nat) (lv : lview2) : Prop := lv_ok g pub t (fst lv) /\ x_ok g pub t lv.

Lemma ok2_view g a t : IS g (b_base a) -> EX g a -> ok2 g (apub (b_base a)) t (view2 a t).
Proof. intros Hs He. split; [apply (s_views _ _ Hs)|apply (e_x _ _ He)]. Qed.

Lemma ok2_ld1 g a t p l lv :
  IS g (b_base a) -> EX g a -> ok2 g (apub (b_base a)) t lv -> ok2 g (apub (b_base a)) t (ld1 l (nxt g p l) lv).
Proof.
  intros Hs He [H1 H2]. pose proof (s_closed _ _ Hs p l) as Hc. unfold ld1. split.
  - unfold addhl. destruct (Nat.eqb (fst (nxt g p l)) null); cbn [fst addkn2]; now apply lv_ok_addkn.
  - apply x_ok_addhl; [now apply x_ok_addkn2|]. destruct Hc as [Hc|Hc]; [now left|].
    destruct (e_h1 _ _ He p l) as [E|E]; [now left|right; auto].
Qed.

Lemma ok2_ldrec g a t p l lv :
  IS g (b_base a) -> EX g a -> ok2 g (apub (b_base a)) t lv -> known2 lv p ->
  ok2 g (apub (b_base a)) t (ldrec p l (nxt g p l) lv).
Proof.
  intros Hs He Hok Hk. pose proof (ok2_ld1 g a t p l lv Hs He Hok) as [H1 H2]. unfold ldrec. cbv zeta.
  destruct (snd (nxt g p l)) eqn:Em; [|split; assumption].
  assert (Hp : p = head \/ apub (b_base a) p = true).
  { destruct Hk as [->|K]; [now left|right]. destruct Hok as [(Kn & _) _]. rewrite Forall_forall in Kn. auto. }
  destruct l as [|l].
  - split; [|now apply x_ok_addfz2]. cbn [fst addfz2]. apply lv_ok_addfz; [exact H1| |destruct (nxt g p 0); cbn in *; congruence].
    destruct Hp as [->|Hp]; [rewrite (s_head _ _ Hs) in Em; discriminate|exact Hp].
  - destruct (Nat.eqb_spec p head) as [E|E]; [split; assumption|]. destruct Hp as [Hp|Hp]; [contradiction|].
    split; [exact H1|]. apply x_ok_addfzu; auto. lia.
Qed.

Section WithNodes.
Variable nodes : cfg0.

Definition SAFE {R} (t : nat) (p : prog R) (lv : lview2) : Prop :=
  @Conc.safe G V ev aux2 lview2 view2 (Inv2 nodes) R t p lv (fun _ _ => True).

Lemma S_act {R} t f (k : V -> prog R) lv :
  (forall g a tr, Inv2 nodes g a tr -> view2 a t = lv ->
     exists pub' L' lv' atr' wl', Inv2 nodes (fst (fst (f g))) (mk_a2 a t pub' L' lv' atr' wl') (tr ++ Conc.tag t (snd (f g))) /\
                                  SAFE t (k (snd (fst (f g)))) lv') ->
  SAFE t (Act f k) lv.
Proof.
  intros H. unfold SAFE. cbn [Conc.safe]. intros g a tr Hi Hv. destruct (H g a tr Hi Hv) as (pub' & L' & lv' & atr' & wl' & H1 & H2).
  exists (mk_a2 a t pub' L' lv' atr' wl'). split; [exact H1|]. split; [apply frame2_mk|]. now rewrite view2_mk_same.
Qed.

Lemma inv_step2 g g' a a' tr es :
  IS g' (b_base a') -> EX g' a' -> (IL2 nodes g a tr -> IL2 nodes g' a' (tr ++ es)) -> (IL2 nodes g a tr \/ exhausted tr) ->
  Inv2 nodes g' a' (tr ++ es).
Proof. intros H1 He H2 [H|H]; split; auto; split; auto. right. now apply exhausted_app. Qed.

(** the annotated trace of the successor state is chosen by the [IL2] part *)
Lemma inv_step2x g g' a t pub' L' lv' wl' tr es :
  (forall atr', IS g' (b_base (mk_a2 a t pub' L' lv' atr' wl')) /\ EX g' (mk_a2 a t pub' L' lv' atr' wl')) ->
  (IL2 nodes g a tr -> exists atr', IL2 nodes g' (mk_a2 a t pub' L' lv' atr' wl') (tr ++ es)) -> (IL2 nodes g a tr \/ exhausted tr) ->
  exists atr', Inv2 nodes g' (mk_a2 a t pub' L' lv' atr' wl') (tr ++ es).
Proof.
  intros H1 H2 [H|H].
  - destruct (H2 H) as (atr' & H3). exists atr'. destruct (H1 atr'). split; auto.
  - exists []. destruct (H1 []). split; auto. split; auto. right. now apply exhausted_app.
Qed.

Definition nxlike2 (f : G -> G * V * list ev) : Prop :=
  forall g, nxt (fst (fst (f g))) = nxt g /\ hgt_of (fst (fst (f g))) = hgt_of g /\ hgt (fst (fst (f g))) = hgt g /\
            exists kd ob ok, snd (f g) = [EvAcc kd ob ok].

Lemma stof_same g g' lv lv' :
  nxt g' = nxt g -> vst (fst lv') = vst (fst lv) -> xwatch (snd lv') = xwatch (snd lv) -> stof g' lv' = stof g lv.
Proof. intros E1 E2 E3. unfold stof. now rewrite E1, E2, E3. Qed.

Lemma ok2_ext g g' pub t lv : nxt g' = nxt g -> hgt_of g' = hgt_of g -> ok2 g pub t lv -> ok2 g' pub t lv.
Proof. intros E1 E2 [H1 H2]. split; [eapply lv_ok_ext; eauto|eapply x_ok_ext; eauto]. Qed.

(** the successor state of a step that changes neither the links nor the abstract state *)
Lemma keep_step g g' a t tr lv lv' kd ob ok :
  Inv2 nodes g a tr -> view2 a t = lv -> nxt g' = nxt g -> hgt_of g' = hgt_of g -> hgt g' = hgt g ->
  vst (fst lv') = vst (fst lv) -> xwatch (snd lv') = xwatch (snd lv) -> ok2 g (apub (b_base a)) t lv' ->
  Inv2 nodes g' (mk_a2 a t (apub (b_base a)) (aL (b_base a)) lv' (aatr (b_base a)) (b_wl a)) (tr ++ Conc.tag t [EvAcc kd ob ok]).
Proof.
  intros (Hs & He & Hil) Hv E1 E2 E3 V1 V2 Hok. pose proof (ok2_ext g g' _ t lv' E1 E2 Hok) as [O1 O2].
  eapply inv_step2; [| | |exact Hil].
  - cbn [b_base mk_a2]. eapply IS_view; eauto. eapply HB_ext; eauto. apply (s_HB _ _ Hs).
  - apply (EX_view g); auto using incl_refl. intros Hw. apply (e_wl _ _ He). rewrite V2, <- Hv in Hw. exact Hw.
  - intros Hi. rewrite <- Hv in V1, V2. apply IL2_keep with (g := g); auto.
    + now apply stof_same.
    + now rewrite V1.
    + now rewrite V1.
    + intros n _. now rewrite E1.
    + intros S. now apply abs_ext.
Qed.

Lemma S_keep {R} t f (k : V -> prog R) lv :
  nxlike2 f ->
  (forall g a, IS g (b_base a) -> EX g a -> view2 a t = lv ->
     exists lv', vst (fst lv') = vst (fst lv) /\ xwatch (snd lv') = xwatch (snd lv) /\ ok2 g (apub (b_base a)) t lv' /\
                 SAFE t (k (snd (fst (f g)))) lv') ->
  SAFE t (Act f k) lv.
Proof.
  intros Hf H. apply S_act. intros g a tr Hi Hv. destruct (Hf g) as (E1 & E2 & E3 & kd & ob & ok & E4).
  destruct Hi as (Hs & He & Hil). destruct (H g a Hs He Hv) as (lv' & V1 & V2 & V3 & V4).
  exists (apub (b_base a)), (aL (b_base a)), lv', (aatr (b_base a)), (b_wl a). split; [|exact V4].
  rewrite E4. eapply keep_step; eauto. split; auto.
Qed.

Lemma S_nx {R} t f (k : V -> prog R) lv : nxlike2 f -> (forall v, SAFE t (k v) lv) -> SAFE t (Act f k) lv.
Proof.
  intros Hf H. apply S_keep; [exact Hf|]. intros g a Hs He Hv. exists lv. split; [reflexivity|]. split; [reflexivity|].
  split; [rewrite <- Hv; now apply ok2_view|apply H].
Qed.

Ltac nxl := intros g0; cbn; repeat split; eauto.

(** ** loads *)
Lemma S_ld {R} t p l (k : V -> prog R) lv :
  (forall x, lnk l p (fst x) -> SAFE t (k (VP x)) (ld1 l x lv)) -> SAFE t (Act (a_ld_next p l) k) lv.
Proof.
  intros H. apply S_keep; [nxl|]. intros g a Hs He Hv. cbn [a_ld_next fst snd].
  exists (ld1 l (nxt g p l) lv). destruct (same_ld1 l (nxt g p l) lv) as [E1 E2]. split; [exact E1|]. split; [exact E2|].
  split; [apply ok2_ld1; auto; rewrite <- Hv; now apply ok2_view|apply H; apply (s_I _ _ Hs)].
Qed.

(** load of a cell of a known node: marks are recorded as frozen *)
Lemma S_ldk {R} t p l (k : V -> prog R) lv :
  known2 lv p -> (forall x, lnk l p (fst x) -> SAFE t (k (VP x)) (ldrec p l x lv)) -> SAFE t (Act (a_ld_next p l) k) lv.
Proof.
  intros Hk H. apply S_keep; [nxl|]. intros g a Hs He Hv. cbn [a_ld_next fst snd].
  exists (ldrec p l (nxt g p l) lv). destruct (same_ldrec p l (nxt g p l) lv) as [E1 E2]. split; [exact E1|]. split; [exact E2|].
  split; [apply ok2_ldrec; auto; rewrite <- Hv; now apply ok2_view|apply H; apply (s_I _ _ Hs)].
Qed.

(** the successor state of a load that observes "key present" / "key absent" *)
Lemma obs_step g a t tr lv rec key b d kd ob ok :
  Inv2 nodes g a tr -> view2 a t = lv ->
  vst (fst rec) = vst (fst lv) -> xwatch (snd rec) = xwatch (snd lv) -> ok2 g (apub (b_base a)) t rec ->
  (forall S, abs g (aL (b_base a)) S -> zmem key S = b) ->
  (b = true -> apub (b_base a) d = true /\ snd (nxt g d 0) = false /\ key_of d = key) ->
  exists atr', Inv2 nodes g (mk_a2 a t (apub (b_base a)) (aL (b_base a)) (observe key b d rec) atr' (t :: b_wl a))
                 (tr ++ Conc.tag t [EvAcc kd ob ok]).
Proof.
  intros (Hs & He & Hil) Hv V1 V2 [O1 O2] Hz Hd. unfold observe.
  assert (Hkeep : exists atr', Inv2 nodes g (mk_a2 a t (apub (b_base a)) (aL (b_base a)) rec atr' (t :: b_wl a)) (tr ++ Conc.tag t [EvAcc kd ob ok])).
  { exists (aatr (b_base a)). eapply inv_step2; [| | |exact Hil].
    - cbn [b_base mk_a2]. eapply IS_view; eauto. apply (s_HB _ _ Hs).
    - apply (EX_view g); auto; [intros _; now left|apply incl_tl, incl_refl].
    - intros Hi. rewrite <- Hv in V1, V2. apply IL2_keep with (g := g); auto; [now apply stof_same|now rewrite V1|now rewrite V1]. }
  destruct (open_of (vst (fst rec))) as [o|] eqn:Eo; [|exact Hkeep].
  destruct (Z.eqb_spec (MF.op_key o) key) as [Ek|Nk]; [|exact Hkeep]. clear Hkeep.
  apply open_of_read in Eo.
  assert (Hw : forall d', wat o b d = Some d' -> apub (b_base a) d' = true /\ MF.open_read (ostat o b) (SErase (key_of d'))).
  { intros d' Hd'. unfold wat in Hd'. destruct o as [k1|k1|k1|k1 al| |]; try discriminate. destruct b; [|discriminate].
    inversion Hd'; subst d'. destruct (Hd eq_refl) as (D1 & D2 & D3). split; [exact D1|]. cbn [MF.op_key] in Ek. rewrite D3, <- Ek.
    apply ostat_open. }
  apply (inv_step2x g); [| |exact Hil].
  - intros atr'. split.
    + cbn [b_base mk_a2 set_st2 fst]. apply (IS_view g g (b_base a) t _ atr' Hs eq_refl (s_HB _ _ Hs)). now apply lv_ok_set.
    + apply (EX_view g); auto; [now apply x_ok_set|intros _; now left|apply incl_tl, incl_refl].
  - intros Hi. apply (IL2_obs nodes g a t _ _ tr kd ob ok o b Hi He).
    + rewrite Hv, <- V1. exact Eo.
    + intros S HS. rewrite Ek. now apply Hz.
    + reflexivity.
    + unfold stof. cbn [set_st2 fst snd set_watch xwatch set_st vst].
      destruct (wat o b d) as [d'|] eqn:Ew; [|apply (emap_open _ _ (ostat_open o b))].
      unfold wat in Ew. destruct o; try discriminate. destruct b; [|discriminate]. inversion Ew; subst d'.
      destruct (Hd eq_refl) as (_ & D2 & _). rewrite D2. apply (emap_open _ _ (ostat_open _ _)).
Qed.

Definition absb (key : Z) (x : mptr) : bool := negb (snd x) && (Nat.eqb (fst x) null || (key <? key_of (fst x))).

(** level-0 load of the cell of a known node below [key]: an unmarked pointer to null or to a larger key is an
    observation "key absent" *)
Lemma S_ldk_abs {R} t key p (k : V -> prog R) lv :
  known2 lv p -> below key p ->
  (forall x, lnk 0 p (fst x) ->
     SAFE t (k (VP x)) (if absb key x then observe key false null (ldrec p 0 x lv) else ldrec p 0 x lv)) ->
  SAFE t (Act (a_ld_next p 0) k) lv.
Proof.
  intros Hk Hb H. apply S_act. intros g a tr Hi Hv. cbn [a_ld_next fst snd]. set (x := nxt g p 0).
  pose proof Hi as (Hs & He & Hil). destruct (same_ldrec p 0 x lv) as [E1 E2].
  assert (Hok : ok2 g (apub (b_base a)) t (ldrec p 0 x lv)) by (apply ok2_ldrec; auto; rewrite <- Hv; now apply ok2_view).
  destruct (absb key x) eqn:Eb.
  - pose proof Eb as Eb'. apply andb_true_iff in Eb. destruct Eb as [B1 B2]. apply negb_true_iff in B1.
    destruct (obs_step g a t tr lv (ldrec p 0 x lv) key false null KLd (o_next p 0) true Hi Hv E1 E2 Hok) as (atr' & Hinv).
    + intros S HS. apply (absent_obs g (b_base a) key p S Hs HS); auto.
      * destruct Hk as [->|K]; [now left|right]. rewrite <- Hv in K. destruct (s_views _ _ Hs t) as (Kn & _). rewrite Forall_forall in Kn. auto.
      * apply orb_true_iff in B2. destruct B2 as [B2|B2]; [left; now apply Nat.eqb_eq|right; now apply Z.ltb_lt].
    + discriminate.
    + exists (apub (b_base a)), (aL (b_base a)), (observe key false null (ldrec p 0 x lv)), atr', (t :: b_wl a).
      split; [exact Hinv|]. specialize (H x (s_I _ _ Hs p 0%nat)). now rewrite Eb' in H.
  - exists (apub (b_base a)), (aL (b_base a)), (ldrec p 0 x lv), (aatr (b_base a)), (b_wl a). split.
    + eapply keep_step; eauto.
    + specialize (H x (s_I _ _ Hs p 0%nat)). now rewrite Eb in H.
Qed.

(** load (any level) of a cell of a node with key [key] that was reached by a link of that level: an unmarked value is
    an observation "key present" *)
Lemma S_ldk_pres {R} t key c l (k : V -> prog R) lv :
  In c (vkn (fst lv)) -> key_of c = key -> (l = 0%nat \/ In (c, l) (xhl (snd lv))) ->
  (forall x, lnk l c (fst x) ->
     SAFE t (k (VP x)) (if snd x then ldrec c l x lv else observe key true c (ldrec c l x lv))) ->
  SAFE t (Act (a_ld_next c l) k) lv.
Proof.
  intros Hk Hkey Hl H. apply S_act. intros g a tr Hi Hv. cbn [a_ld_next fst snd]. set (x := nxt g c l).
  pose proof Hi as (Hs & He & Hil). destruct (same_ldrec c l x lv) as [E1 E2].
  assert (Hok : ok2 g (apub (b_base a)) t (ldrec c l x lv)) by (apply ok2_ldrec; auto; [rewrite <- Hv; now apply ok2_view|now right]).
  assert (Hpc : apub (b_base a) c = true).
  { rewrite <- Hv in Hk. destruct (s_views _ _ Hs t) as (Kn & _). rewrite Forall_forall in Kn. auto. }
  destruct (snd x) eqn:Em.
  - exists (apub (b_base a)), (aL (b_base a)), (ldrec c l x lv), (aatr (b_base a)), (b_wl a). split.
    + eapply keep_step; eauto.
    + specialize (H x (s_I _ _ Hs c l)). now rewrite Em in H.
  - assert (H0 : snd (nxt g c 0) = false).
    { destruct Hl as [->|Hl]; [exact Em|]. destruct (snd (nxt g c 0)) eqn:E0; [|reflexivity]. exfalso.
      destruct (e_x _ _ He t) as (_ & Xl & _). rewrite Hv in Xl. rewrite Forall_forall in Xl. destruct (Xl _ Hl) as [_ Xh]. cbn [fst snd] in Xh.
      destruct l as [|l']; [fold x in E0; congruence|].
      pose proof (e_h2 _ _ He c (S l') Hpc E0 ltac:(lia)) as X. fold x in X. congruence. }
    destruct (obs_step g a t tr lv (ldrec c l x lv) key true c KLd (o_next c l) true Hi Hv E1 E2 Hok) as (atr' & Hinv).
    + intros S HS. rewrite <- Hkey. now apply (present_obs g (b_base a) c S Hs HS).
    + intros _. auto.
    + exists (apub (b_base a)), (aL (b_base a)), (observe key true c (ldrec c l x lv)), atr', (t :: b_wl a).
      split; [exact Hinv|]. specialize (H x (s_I _ _ Hs c l)). now rewrite Em in H.
Qed.

(** load of a frozen level-0 cell *)
Lemma S_ld_fz {R} t p nx (k : V -> prog R) lv :
  In (p, nx) (vfz (fst lv)) -> (lnk 0 p nx -> SAFE t (k (VP (nx, true))) lv) -> SAFE t (Act (a_ld_next p 0) k) lv.
Proof.
  intros Hin H. apply S_keep; [nxl|]. intros g a Hs He Hv. exists lv. split; [reflexivity|]. split; [reflexivity|].
  split; [rewrite <- Hv; now apply ok2_view|].
  pose proof (s_views _ _ Hs t) as Vt. rewrite <- Hv in Hin. cbn [view2 fst] in Hin.
  cbn [a_ld_next fst snd]. destruct Vt as (_ & F & _). rewrite Forall_forall in F. destruct (F _ Hin) as (_ & F2). cbn [fst snd] in F2.
  rewrite F2. apply H. pose proof (s_I _ _ Hs p 0%nat) as Hl. now rewrite F2 in Hl.
Qed.

(** the guard store that reads the height of a known node *)
Lemma S_guard_h {R} t slot p (k : V -> prog R) lv :
  In p (vkn (fst lv)) ->
  (forall h, (h <= MAXH)%nat -> SAFE t (k (VZ (Z.of_nat h))) (addhe p h lv)) -> SAFE t (Act (a_guard_st_h t slot p) k) lv.
Proof.
  intros Hk H. apply S_keep; [nxl|]. intros g a Hs He Hv. exists (addhe p (hgt_of g p) lv). split; [reflexivity|]. split; [reflexivity|].
  pose proof (ok2_view g a t Hs He) as [O1 O2]. rewrite Hv in O1, O2. split; [split; [exact O1|]|].
  - apply x_ok_addhe; auto. destruct O1 as (Kn & _). rewrite Forall_forall in Kn. auto.
  - cbn [a_guard_st_h fst snd]. apply H. apply (s_HB _ _ Hs).
Qed.

(** m_nHeight of the list is at least 1 *)
Lemma S_ld_hgt {R} t (k : V -> prog R) lv : (forall z, 1 <= z -> SAFE t (k (VZ z)) lv) -> SAFE t (Act a_ld_hgt k) lv.
Proof.
  intros H. apply S_keep; [nxl|]. intros g a Hs He Hv. exists lv. split; [reflexivity|]. split; [reflexivity|].
  split; [rewrite <- Hv; now apply ok2_view|]. cbn [a_ld_hgt fst snd]. apply H. apply (e_hg _ _ He).
Qed.

Definition set_oh (lv : lview2) (o : option (ptr * nat)) : lview2 :=
  (fst lv, mkX (xwatch (snd lv)) (xhl (snd lv)) (xfzu (snd lv)) (xhe (snd lv)) o).

(** the height of my not yet linked node *)
Lemma S_st_unl {R} t p n h v (k : V -> prog R) lv :
  vown (fst lv) = Some (p, v) -> (1 <= h <= MAXH)%nat -> (forall v', SAFE t (k v') (set_oh lv (Some (p, h)))) ->
  SAFE t (Act (a_st_unl p n h) k) lv.
Proof.
  intros Ho Hh H. apply S_act. intros g a tr (Hs & He & Hl) Hv.
  exists (apub (b_base a)), (aL (b_base a)), (set_oh lv (Some (p, h))), (aatr (b_base a)), (b_wl a). split; [|apply H].
  cbn [a_st_unl fst snd]. pose proof (ok2_view g a t Hs He) as [O1 O2]. rewrite Hv in O1, O2.
  pose proof O1 as (K & F & O & Fr). rewrite Ho in O. destruct O as (W1 & W2 & W3 & W4).
  set (g' := mkG (nxt g) (upd1 (unl g) p n) (upd1 (hgt_of g) p h) (hgt g) (cnt g)).
  eapply inv_step2; [| | |exact Hl].
  - cbn [b_base mk_a2 set_oh fst]. apply (IS_view g g' (b_base a) t (fst lv) (aatr (b_base a)) Hs); [reflexivity| |].
    + intros p'. cbn [hgt_of g']. unfold upd1. destruct (Nat.eqb p' p); [lia|apply (s_HB _ _ Hs)].
    + eapply lv_ok_ext; [reflexivity|exact O1].
  - apply EX_stunl; auto using incl_refl; [lia| |].
    + destruct O2 as (X1 & X2 & X3 & X4 & X5).
      assert (Hq : forall q, apub (b_base a) q = true -> hgt_of g' q = hgt_of g q).
      { intros q Hq. cbn [hgt_of g']. unfold upd1. destruct (Nat.eqb_spec q p); [congruence|reflexivity]. }
      split; [|split; [|split; [|split]]]; cbn [set_oh fst snd xwatch xhl xfzu xhe xoh]; auto.
      * eapply Forall_impl; [|exact X2]. intros [q l] (A & B). cbn [fst snd] in *. split; [exact A|]. now rewrite Hq.
      * eapply Forall_impl; [|exact X4]. intros [q l] (A & B). cbn [fst snd] in *. split; [exact A|]. now rewrite Hq.
      * intros n0 h0 E. inversion E; subst n0 h0. repeat split; auto; [|right; eauto].
        cbn [hgt_of g']. unfold upd1. now rewrite Nat.eqb_refl.
    + intros Hw. apply (e_wl _ _ He). cbn [set_oh snd xwatch] in Hw. rewrite <- Hv in Hw. exact Hw.
  - intros Hil. apply IL2_keep with (g := g); auto; rewrite Hv; reflexivity.
Qed.

(** ** stores and CASes *)
Lemma hok_sound g a t lv l q :
  IS g (b_base a) -> EX g a -> ok2 g (apub (b_base a)) t lv -> hok lv l q -> (q = null \/ apub (b_base a) q = true) ->
  q = null \/ (l < hgt_of g q)%nat.
Proof.
  intros Hs He [O1 O2] [H|[H|[H|(h & H & Hl)]]] Hq; [now left| | |].
  - right. subst l. apply (e_hof _ _ He).
  - right. destruct O2 as (_ & X2 & _). rewrite Forall_forall in X2. destruct (X2 _ H) as [_ X]. exact X.
  - right. destruct O2 as (_ & _ & _ & _ & X5). destruct (X5 _ _ H) as (_ & _ & X & _). lia.
Qed.

Lemma x_ok_cell g pub pub' t lv p l x :
  x_ok g pub t lv -> (forall n, pub n = true -> pub' n = true) ->
  ((1 <= l)%nat -> snd x = false -> snd (nxt g p l) = false \/ pub p = false) ->
  (forall n h v, xoh (snd lv) = Some (n, h) -> vown (fst lv) = Some (n, v) -> True) ->
  x_ok (setnx g p l x) pub' t lv.
Proof.
  intros H Hp Hup _. eapply x_ok_mono; [exact H|exact Hp|reflexivity|].
  intros c l' Hc Hl' Hm. destruct (Nat.eq_dec c p) as [->|Np]; [destruct (Nat.eq_dec l' l) as [->|Nl]|].
  - rewrite setnx_same. destruct (snd x) eqn:Ex; [reflexivity|]. destruct (Hup Hl' eq_refl); congruence.
  - rewrite setnx_other by congruence. exact Hm.
  - rewrite setnx_other by congruence. exact Hm.
Qed.

(** a store into a cell of my own, not yet linked, node *)
Lemma S_st_own {R} t p l x v (k : V -> prog R) lv :
  vown (fst lv) = Some (p, v) -> lnk l p (fst x) -> knownz2 lv (fst x) -> hok lv l (fst x) ->
  (forall v', SAFE t (k v') (if Nat.eqb l 0 then (set_own (fst lv) (Some (p, x)), snd lv) else lv)) ->
  SAFE t (Act (a_st_next p l x) k) lv.
Proof.
  intros Ho Hl Hk Hh H. apply S_act. intros g a tr (Hs & He & Hil) Hv. cbn [a_st_next fst snd].
  set (lv' := if Nat.eqb l 0 then (set_own (fst lv) (Some (p, x)), snd lv) else lv).
  exists (apub (b_base a)), (aL (b_base a)), lv', (aatr (b_base a)), (b_wl a). split; [|apply H].
  pose proof (ok2_view g a t Hs He) as [O1 O2]. rewrite Hv in O1, O2.
  pose proof O1 as (K & F & O & Fr). rewrite Ho in O. destruct O as (W1 & W2 & W3 & W4).
  assert (Hnot : ~ In p (head :: aL (b_base a))).
  { intros [E|E]; [unfold isnode, head in *; lia|]. apply (s_Lpub _ _ Hs) in E. congruence. }
  assert (Hpx : fst x = null \/ apub (b_base a) (fst x) = true).
  { destruct Hk as [Hk|Hk]; [now left|right]. rewrite Forall_forall in K. auto. }
  change (mkG (upd2 (nxt g) p l x) (unl g) (hgt_of g) (hgt g) (cnt g)) with (setnx g p l x).
  assert (E1 : vkn (fst lv') = vkn (fst lv)) by (unfold lv'; destruct (Nat.eqb l 0); reflexivity).
  assert (E2 : vfz (fst lv') = vfz (fst lv)) by (unfold lv'; destruct (Nat.eqb l 0); reflexivity).
  assert (E3 : vser (fst lv') = vser (fst lv)) by (unfold lv'; destruct (Nat.eqb l 0); reflexivity).
  assert (E4 : vst (fst lv') = vst (fst lv)) by (unfold lv'; destruct (Nat.eqb l 0); reflexivity).
  assert (E5 : snd lv' = snd lv) by (unfold lv'; destruct (Nat.eqb l 0); reflexivity).
  assert (E6 : exists v', vown (fst lv') = Some (p, v')) by (unfold lv'; destruct (Nat.eqb l 0); cbn; eauto).
  assert (Hv1 : lv_ok (setnx g p l x) (apub (b_base a)) t (fst lv')).
  { split; [rewrite E1; exact K|]. split; [rewrite E2|split; [|unfold fresh_ok; rewrite E3]].
    - rewrite Forall_forall in *. intros [c nx] Hin. destruct (F _ Hin) as (F1 & F2). cbn [fst snd] in *. split; [exact F1|].
      rewrite setnx_other; [exact F2|]. intros E. inversion E; subst. congruence.
    - unfold lv'. destruct (Nat.eqb_spec l 0) as [->|Nl]; cbn [fst vown set_own own_ok].
      + rewrite setnx_same. auto.
      + rewrite Ho. cbn [own_ok]. rewrite setnx_up by exact Nl. auto.
    - intros n H1 H2 H3. destruct (Fr n H1 H2 H3) as [F1 F2].
      split; [exact F1|]. intros v0 E. unfold lv' in E. destruct (Nat.eqb l 0); cbn [fst vown set_own] in E; [|eapply F2; eauto].
      inversion E; subst. eapply F2; eauto. }
  eapply inv_step2; [| | |exact Hil].
  - cbn [b_base mk_a2]. apply IS_cell; auto.
    + intros _ ->. unfold isnode, head in *; lia.
    + intros _ E. congruence.
    + apply lv_ok_others; auto.
  - apply EX_cell; [exact He|auto|intros n E1' E2'; congruence| |intros _ _; right; exact W2|intros _ _ Hpp; congruence| | |apply incl_refl].
    + eapply hok_sound; [exact Hs|exact He|split; [exact O1|exact O2]|exact Hh|exact Hpx].
    + destruct O2 as (X1 & X2 & X3 & X4 & X5). destruct lv' as [b' x']. cbn [fst snd] in *. subst x'.
      split; [|split; [|split; [|split]]]; cbn [fst snd].
      * intros d Hd. rewrite E4. auto.
      * exact X2.
      * eapply Forall_impl; [|exact X3]. intros [c l'] (A & B & C). cbn [fst snd] in *. repeat split; auto.
        rewrite setnx_other; [exact C|]. intros E. inversion E; subst. congruence.
      * exact X4.
      * intros n h E. destruct (X5 n h E) as (Y1 & Y2 & Y3 & Y4). repeat split; auto.
        destruct Y4 as [Y4|(v0 & Y4)]; [now left|]. right. destruct E6 as (v' & E6). exists v'. congruence.
    + intros Hw. apply (e_wl _ _ He). rewrite E5, <- Hv in Hw. exact Hw.
  - intros Hi. apply IL2_keep with (g := g); auto.
    + rewrite Hv. unfold stof. rewrite E5, E4. destruct (xwatch (snd lv)) as [d|] eqn:Ew; [|reflexivity].
      destruct O2 as (X1 & _). destruct (X1 d Ew) as [Hd _]. rewrite setnx_other; [reflexivity|]. intros E. inversion E; subst. congruence.
    + now rewrite Hv, E4.
    + now rewrite Hv, E4.
    + intros n Hn. destruct (Nat.eq_dec l 0) as [->|Nl]; [|now rewrite setnx_up]. rewrite setnx_other0; [reflexivity|congruence].
    + intros S HS. apply abs_cell; auto. intros _. left. intros E. apply Hnot. now right.
Qed.

(** successor state of a successful CAS on an upper level *)
Lemma S_cas_up {R} t p l e d (k : V -> prog R) lv :
  l <> 0%nat -> lnk l p (fst d) -> knownz2 lv (fst d) -> snd e = false -> (hok lv l (fst d) \/ fst d = fst e) ->
  (forall ok cur, lnk l p (fst cur) -> (ok = true -> cur = e) -> SAFE t (k (VC ok cur)) (ld1 l cur lv)) ->
  SAFE t (Act (a_cas_next p l e d) k) lv.
Proof.
  intros Nl Hl Hk He0 Hh H. apply S_act. intros g a tr Hi Hv. pose proof Hi as (Hs & He & Hil). unfold a_cas_next.
  pose proof (ok2_view g a t Hs He) as Hok. rewrite Hv in Hok. pose proof Hok as [O1 O2].
  exists (apub (b_base a)), (aL (b_base a)), (ld1 l (nxt g p l) lv), (aatr (b_base a)), (b_wl a).
  destruct (same_ld1 l (nxt g p l) lv) as [V1 V2].
  pose proof (ok2_ld1 g a t p l lv Hs He Hok) as [Q1 Q2].
  destruct (mp_eqb (nxt g p l) e) eqn:E; cbn [fst snd].
  - apply mp_eqb_eq in E. split; [|apply H; [apply (s_I _ _ Hs)|intros _; exact E]].
    change (mkG (upd2 (nxt g) p l d) (unl g) (hgt_of g) (hgt g) (cnt g)) with (setnx g p l d).
    assert (Hpd : fst d = null \/ apub (b_base a) (fst d) = true).
    { destruct Hk as [Hk|Hk]; [now left|right]. destruct O1 as (K & _). rewrite Forall_forall in K. auto. }
    eapply inv_step2; [| | |exact Hil].
    + cbn [b_base mk_a2]. apply IS_cell; [exact Hs|exact Hl|exact Hpd|intros; congruence|intros; congruence|intros; congruence| |].
      * apply lv_ok_others; auto; intros; congruence.
      * apply lv_ok_stable with (pub := apub (b_base a)); auto; intros; congruence.
    + apply EX_cell; [exact He|auto|intros n E1' E2'; congruence| |intros _ _; left; rewrite E; exact He0|intros E0; congruence| | |apply incl_refl].
      * destruct Hh as [Hh|Hh]; [eapply hok_sound; eauto|]. rewrite Hh, <- E. apply (e_h1 _ _ He).
      * eapply x_ok_cell; eauto. intros _ _. left. rewrite E. exact He0.
      * intros Hw. apply (e_wl _ _ He). rewrite V2, <- Hv in Hw. exact Hw.
    + intros Hil'. apply IL2_keep with (g := g); auto.
      * rewrite Hv. unfold stof. rewrite V1, V2. destruct (xwatch (snd lv)); [|reflexivity]. now rewrite setnx_up.
      * now rewrite Hv, V1.
      * now rewrite Hv, V1.
      * intros n _. now rewrite setnx_up.
      * intros S HS. apply abs_cell; [exact HS|intros; congruence].
  - split; [|apply H; [apply (s_I _ _ Hs)|discriminate]]. eapply keep_step; eauto. split; assumption.
Qed.

(** the mark CAS on an upper level of a known node: afterwards the cell is marked *)
Lemma S_cas_mark_up {R} t p l e (k : V -> prog R) lv :
  l <> 0%nat -> In p (vkn (fst lv)) -> snd e = false ->
  (forall ok cur, lnk l p (fst cur) ->
     SAFE t (k (VC ok cur)) (if ok || snd cur then addfzu p l (ld1 l cur lv) else ld1 l cur lv)) ->
  SAFE t (Act (a_cas_next p l e (fst e, true)) k) lv.
Proof.
  intros Nl Hk He0 H. apply S_act. intros g a tr Hi Hv. pose proof Hi as (Hs & He & Hil). unfold a_cas_next.
  pose proof (ok2_view g a t Hs He) as Hok. rewrite Hv in Hok. pose proof Hok as [O1 O2].
  destruct (same_ld1 l (nxt g p l) lv) as [V1 V2].
  pose proof (ok2_ld1 g a t p l lv Hs He Hok) as [Q1 Q2].
  assert (Hpp : apub (b_base a) p = true) by (destruct O1 as (K & _); rewrite Forall_forall in K; auto).
  destruct (mp_eqb (nxt g p l) e) eqn:E; cbn [fst snd].
  - apply mp_eqb_eq in E.
    exists (apub (b_base a)), (aL (b_base a)), (addfzu p l (ld1 l (nxt g p l) lv)), (aatr (b_base a)), (b_wl a).
    split; [|specialize (H true (nxt g p l) (s_I _ _ Hs p l)); exact H].
    change (mkG (upd2 (nxt g) p l (fst e, true)) (unl g) (hgt_of g) (hgt g) (cnt g)) with (setnx g p l (fst e, true)).
    assert (Hl : lnk l p (fst e)) by (rewrite <- E; apply (s_I _ _ Hs)).
    eapply inv_step2; [| | |exact Hil].
    + cbn [b_base mk_a2 addfzu fst]. apply IS_cell; [exact Hs|exact Hl| |intros; congruence|intros; congruence|intros; congruence| |].
      * cbn [fst]. rewrite <- E. apply (s_closed _ _ Hs).
      * apply lv_ok_others; auto; intros; congruence.
      * apply lv_ok_stable with (pub := apub (b_base a)); auto; intros; congruence.
    + apply EX_cell; [exact He|auto|intros n E1' E2'; congruence| |intros _ X; discriminate|intros E0; congruence| | |apply incl_refl].
      * cbn [fst]. rewrite <- E. apply (e_h1 _ _ He).
      * apply x_ok_addfzu; [|exact Hpp|lia|now rewrite setnx_same].
        eapply x_ok_cell; eauto; intros _ X; discriminate.
      * intros Hw. apply (e_wl _ _ He). cbn [addfzu snd setx xwatch] in Hw. rewrite V2, <- Hv in Hw. exact Hw.
    + intros Hil'. apply IL2_keep with (g := g); auto.
      * rewrite Hv. unfold stof. cbn [addfzu fst snd setx xwatch]. rewrite V1, V2. destruct (xwatch (snd lv)); [|reflexivity]. now rewrite setnx_up.
      * rewrite Hv. cbn [addfzu fst]. now rewrite V1.
      * rewrite Hv. cbn [addfzu fst]. now rewrite V1.
      * intros n _. now rewrite setnx_up.
      * intros S HS. apply abs_cell; [exact HS|intros; congruence].
  - set (c := nxt g p l).
    exists (apub (b_base a)), (aL (b_base a)), (if false || snd c then addfzu p l (ld1 l c lv) else ld1 l c lv), (aatr (b_base a)), (b_wl a).
    split; [|apply (H false c); apply (s_I _ _ Hs)].
    cbn [orb]. destruct (snd c) eqn:Ec.
    + apply (keep_step g g a t tr lv _ KCas (o_next p l) false Hi Hv eq_refl eq_refl eq_refl); [exact V1|exact V2|].
      split; [exact Q1|]. apply x_ok_addfzu; auto. lia.
    + apply (keep_step g g a t tr lv _ KCas (o_next p l) false Hi Hv eq_refl eq_refl eq_refl); [exact V1|exact V2|]. split; assumption.
Qed.

(** the failing branch of any CAS *)
Lemma cas_fail_step g a t tr lv p l :
  Inv2 nodes g a tr -> view2 a t = lv ->
  Inv2 nodes g (mk_a2 a t (apub (b_base a)) (aL (b_base a)) (ld1 l (nxt g p l) lv) (aatr (b_base a)) (b_wl a))
       (tr ++ Conc.tag t [EvAcc KCas (o_next p l) false]).
Proof.
  intros Hi Hv. pose proof Hi as (Hs & He & Hil). destruct (same_ld1 l (nxt g p l) lv) as [V1 V2].
  eapply keep_step; eauto. apply ok2_ld1; auto. rewrite <- Hv. now apply ok2_view.
Qed.


End WithNodes.
